import Kdf.Model.Dump
import Kdf.Lemmas.DumpRle
import Kdf.Lemmas.DumpElf
import Kdf.Lemmas.DumpLookup
import Kdf.Lemmas.DumpFault
/-!
# C01 — reads return exactly the memory the dump file encodes

Property theorems only (helper lemmas: `Kdf/Lemmas/Dump*.lean`).  The model
(`Kdf/Model/Dump.lean`) answers, for a page of a dump, *which file bytes or
zeroes* make up that page; the theorems say that this answer is the one the
layout of the file encodes:

* ELF: a page is missing exactly when none of its bytes is backed; otherwise it
  consists of the file bytes of the LOAD segments it intersects and zeroes
  elsewhere, whichever segment was looked up before (`last_load`);
* diskdump: the descriptor of frame `p` lies at `descoff + 24·rank(p)` iff the
  bit of `p` is set in the window of the file; excluded / out-of-bounds
  otherwise; the descriptor decides data location and method;
* SADUMP: data of frame `p` lies at `rank(p)` pages into the concatenated data
  areas of the disks;
* LKCD: after any history of reads, the search finds the descriptor of `p` at
  its place in the page stream, or reports missing data;
* LKCD RLE: the decoder inverts the encoder, never reads past its source and
  never writes past its destination.

Not proved here (observed by the differential only): header parsing (the five
geometry attributes), s390 (one comparison and one addition), the real
zlib/snappy/zstd decompressors, split-file selection beyond `find_pfn_file_map`
(C07/C11), the representation of the LKCD index as a three-level block table.
-/
set_option linter.unusedVariables false

namespace Kdf.Props.C01
open Kdf.Model.Pfn Kdf.Model.Dump Kdf.Lemmas.Pfn Kdf.Lemmas.DumpElf Kdf.Lemmas.DumpLookup

/-! ### LKCD run-length code -/

/-- `uncompress_rle` never reads past `src`, never writes past `dst`; a successful
result has at most `dstlen` bytes — for every byte string and every buffer size. -/
theorem rle_total (src : List Nat) (dstlen : Nat) :
    uncompressRle src dstlen ≠ .oobRead ∧ uncompressRle src dstlen ≠ .oobWrite ∧
    ∀ out, uncompressRle src dstlen = .ok out → out.length ≤ dstlen :=
  Kdf.Lemmas.DumpRle.rle_total src dstlen

/-- decoding what the LKCD encoder wrote gives the page back -/
theorem rle_roundtrip (x : List Nat) (dstlen : Nat) (h : x.length ≤ dstlen) :
    uncompressRle (rleEncode x) dstlen = .ok x :=
  Kdf.Lemmas.DumpRle.rle_roundtrip x dstlen h

/-- a destination that is too small is an error, not a truncated page -/
theorem rle_short_dst (x : List Nat) (dstlen : Nat) (h : dstlen < x.length) :
    uncompressRle (rleEncode x) dstlen = .err :=
  Kdf.Lemmas.DumpRle.rle_short_dst x dstlen h

/-! ### ELF -/

/-- The remembered segment (`last_load` / `last_vload`) never changes the answer. -/
theorem elf_history_irrelevant (sorted vsorted : List LoadSeg) (kv zx : Bool)
    (h : SegsWF (arrOf sorted vsorted kv) kv) (last : ElfLast) (addr sz : Nat) :
    (elfGetPage sorted vsorted last kv zx addr sz).2 = (elfGetPage sorted vsorted {} kv zx addr sz).2 :=
  Kdf.Lemmas.DumpElf.elf_history_irrelevant sorted vsorted kv zx h last addr sz

/-- `read_encoded` / `absent_missing` / `absent_zero_filled` for ELF: for
segments sorted by address with disjoint memory extents, any page address, any
page size, either address space, either `zero_excluded` setting and any lookup
history: the page is reported missing exactly when no byte of it is backed
(by file data; by a memory extent if excluded pages are to be zero-filled);
otherwise it is delivered and every byte is the file byte the segment list
encodes for that address, zero where no file data exists; the assembly loop of
`elf_read_page` never leaves the page buffer. -/
theorem elf_page_spec (sorted vsorted : List LoadSeg) (kv zx : Bool)
    (h : SegsWF (arrOf sorted vsorted kv) kv) (last : ElfLast) (file : Nat → Nat) (addr sz : Nat) (hsz : 0 < sz) :
    let r := (elfGetPage sorted vsorted last kv zx addr sz).2
    (r = (if kv then ElfPage.needXlat else ElfPage.nodata) ↔
        ¬ ∃ a, addr ≤ a ∧ a < addr + sz ∧ Backed (arrOf sorted vsorted kv) kv zx a) ∧
    r ≠ .oob ∧
    (∀ bytes, renderElf file sz r = some bytes →
        bytes = (List.range sz).map (fun i => specByte (arrOf sorted vsorted kv) kv file (addr + i))) ∧
    ((∃ a, addr ≤ a ∧ a < addr + sz ∧ Backed (arrOf sorted vsorted kv) kv zx a) →
        (renderElf file sz r).isSome) :=
  Kdf.Lemmas.DumpElf.elf_page_spec sorted vsorted kv zx h last file addr sz hsz

/-! ### diskdump -/

/-- PFN → descriptor position: `descoff + 24 · (number of set bits in [start, p))`
iff `p` lies in the window of the file and its bit is set. -/
theorem dd_desc_position (bm : Bitmap) (hb : BytesWF bm) (startPfn endPfn descoff : Nat)
    (hlen : (endPfn + 7) / 8 ≤ bm.length) (p : Nat) :
    pfnToPos (regionsFromBitmap bm false startPfn endPfn descoff 24) 24 p =
      if startPfn ≤ p ∧ p < endPfn ∧ bitOf false bm p = true then some (descoff + 24 * rank false bm startPfn p)
      else none :=
  pfnToPos_spec false bm hb startPfn endPfn descoff 24 hlen p

/-- `diskdump_read_page` on a single file: out of bounds beyond `max_pfn`,
excluded when the bit is clear, otherwise whatever the descriptor at
`descoff + 24·rank p` says (raw pages must have the page size, LZO is not
implemented, an unknown flag combination is rejected). -/
theorem dd_locate_single (bm : Bitmap) (hb : BytesWF bm) (maxPfn ps descoff : Nat)
    (hlen : (maxPfn + 7) / 8 ≤ bm.length) (hmax : maxPfn < 2^64 - 1)
    (readDesc : Nat → Nat → Option PageDesc) (p : Nat) :
    ddLocate [(⟨regionsFromBitmap bm false 0 maxPfn descoff 24, 0, 2^64 - 1⟩, 0)] maxPfn ps readDesc p =
      if p ≥ maxPfn then .oob
      else if bitOf false bm p = false then .excluded
      else match readDesc 0 (descoff + 24 * rank false bm 0 p) with
        | none => .ioerr
        | some pd =>
          match ddMethod pd.flags with
          | some .raw => if pd.size ≠ ps then .corrupt else .data 0 pd.offset pd.size .raw
          | some .lzo => .notimpl
          | some meth => .data 0 pd.offset pd.size meth
          | none => .corrupt :=
  ddLocate_single bm hb maxPfn ps descoff hlen hmax readDesc p

/-! ### SADUMP -/

/-- position of the data of frame `p` in the concatenated data areas: `rank(p)` pages -/
theorem sadump_position (bm : Bitmap) (hb : BytesWF bm) (endPfn ps : Nat)
    (hlen : (endPfn + 7) / 8 ≤ bm.length) (p : Nat) :
    pfnToPos (regionsFromBitmap bm true 0 endPfn 0 ps) ps p =
      if p < endPfn ∧ bitOf true bm p = true then some (ps * rank true bm 0 p) else none := by
  have := pfnToPos_spec true bm hb 0 endPfn 0 ps hlen p
  simpa using this

/-- the walk over the disks finds the extent that contains a position of the concatenation -/
theorem sadump_walk_spec (exts : List Extent) (pos : Nat) :
    match sadumpWalk exts pos with
    | some (fidx, p) => ∃ pre e post, exts = pre ++ e :: post ∧ e.fidx = fidx ∧
        (pre.map (·.dataLen)).sum ≤ pos ∧ pos < (pre.map (·.dataLen)).sum + e.dataLen ∧
        p = e.dataPos + (pos - (pre.map (·.dataLen)).sum)
    | none => (exts.map (·.dataLen)).sum ≤ pos :=
  sadumpWalk_spec exts pos

/-! ### LKCD -/

/-- Whatever was read before (`Inv` = some prefix of the page stream is indexed):
asking for frame `p` of a stream without duplicate frames finds the descriptor
of `p` at its offset in the stream, or reports missing data, and keeps the
invariant. -/
theorem lkcd_get_spec (ds : List LkcdDesc) (dataOff shift : Nat)
    (hnd : (ds.map (pfnOf shift)).Nodup) (hend : ∀ d ∈ ds, d.flags &&& 4 = 0)
    (st : LkcdState) (hinv : Inv ds dataOff shift st) (p fuel : Nat) (hf : ds.length + 1 ≤ fuel) :
    let r := lkGet (streamReader ds dataOff) shift id fuel st p
    Inv ds dataOff shift r.1 ∧
    r.2 = (match (ds.map (pfnOf shift)).idxOf? p with
      | some i => (match ds[i]?, (streamOffs ds dataOff)[i]? with
          | some d, some o => LkcdFind.found o d
          | _, _ => LkcdFind.nodata)
      | none => LkcdFind.nodata) :=
  lkGet_spec ds dataOff shift hnd hend st hinv p fuel hf

/-- the state right after opening satisfies the invariant -/
theorem lkcd_init_inv (ds : List LkcdDesc) (dataOff shift : Nat) (h : dataOff ≠ 0) :
    Inv ds dataOff shift ⟨dataOff, 0, [], 0⟩ :=
  inv_init ds dataOff shift h

/-! ### LKCD: a transient failure of a descriptor read costs nothing but the failed call -/

/-- While the descriptor at file offset `bad` cannot be read (`EIO`, `KDUMP_ERR_BUSY`), a request for frame `p` either
reports that failure or gives the regular answer, and the scan state keeps its invariant: the end of the stream is
recorded only when the END marker or the end of the file has been seen. -/
theorem lkcd_fault_spec (ds : List LkcdDesc) (dataOff shift : Nat)
    (hnd : (ds.map (pfnOf shift)).Nodup) (hend : ∀ d ∈ ds, d.flags &&& 4 = 0)
    (st : LkcdState) (hinv : Inv ds dataOff shift st) (bad p fuel : Nat) (hf : ds.length + 1 ≤ fuel) :
    Inv ds dataOff shift (lkGetF (streamReader ds dataOff) shift id bad fuel st p).1 ∧
    ((lkGetF (streamReader ds dataOff) shift id bad fuel st p).2 = none ∨
     (lkGetF (streamReader ds dataOff) shift id bad fuel st p).2 = some (expect ds dataOff shift p)) :=
  Kdf.Lemmas.DumpFault.lkGetF_spec ds dataOff shift hnd hend st hinv bad p fuel hf

/-- A call that does not report the failure is the undisturbed call. -/
theorem lkcd_fault_silent (readDesc : Nat → Option LkcdDesc) (shift : Nat) (key : Nat → Nat) (bad fuel : Nat)
    (st : LkcdState) (p : Nat) (h : (lkGetF readDesc shift key bad fuel st p).2 ≠ none) :
    lkGetF readDesc shift key bad fuel st p =
      ((lkGet readDesc shift key fuel st p).1, some (lkGet readDesc shift key fuel st p).2) :=
  Kdf.Lemmas.DumpFault.lkGetF_no_fault readDesc shift key bad fuel st p h

/-- Recovery: after a call that was hit by a transient failure, every frame `q` of the stream is found where the file
encodes it (the same answer as on a freshly opened dump), whatever `q` is and whatever was read before. -/
theorem lkcd_fault_recovers (ds : List LkcdDesc) (dataOff shift : Nat)
    (hnd : (ds.map (pfnOf shift)).Nodup) (hend : ∀ d ∈ ds, d.flags &&& 4 = 0)
    (st : LkcdState) (hinv : Inv ds dataOff shift st) (bad p q fuel : Nat) (hf : ds.length + 1 ≤ fuel) :
    (lkGet (streamReader ds dataOff) shift id fuel
        (lkGetF (streamReader ds dataOff) shift id bad fuel st p).1 q).2 = expect ds dataOff shift q :=
  (Kdf.Lemmas.DumpLookup.lkGet_spec ds dataOff shift hnd hend _
    (Kdf.Lemmas.DumpFault.lkGetF_spec ds dataOff shift hnd hend st hinv bad p fuel hf).1 q fuel hf).2

/-! ### ELF extended numbering: no program header of the file is dropped -/

/-- A header without escape values is taken as it stands. -/
theorem elf_counts_plain (ePhnum eShnum eShoff : Nat) (sh0 : Option (Nat × Nat))
    (hp : ePhnum ≠ PN_XNUM) (hs : eShnum ≠ 0) :
    elfCounts ePhnum eShnum eShoff sh0 = some (eShnum, ePhnum) := by
  simp [elfCounts, hp, hs]

/-- `e_phnum = PN_XNUM`: the number of program headers is `sh_info` of section header 0, whether the number of
sections is given in the file header (`e_shnum ≠ 0`, the usual vmcore) or is extended itself (`sh_size ≠ 0`). -/
theorem elf_counts_xnum (eShnum eShoff size info : Nat) (ho : eShoff ≠ 0) (hs : eShnum ≠ 0 ∨ size ≠ 0) :
    (elfCounts PN_XNUM eShnum eShoff (some (size, info))).map (·.2) = some info := by
  by_cases h0 : eShnum = 0
  · have hsz : 0 < size := by rcases hs with h | h; exact absurd h0 h; omega
    simp [elfCounts, ho, h0, hsz]
  · have : 0 < eShnum := Nat.pos_of_ne_zero h0
    simp [elfCounts, ho, h0, this]

/-- With the true count every LOAD entry of a table of `n` entries is known to the library. -/
theorem elf_loads_all (tab : List (Nat × LoadSeg)) (n : Nat) (h : ∀ e ∈ tab, e.1 < n) :
    elfLoads tab n = tab.map (·.2) := by
  unfold elfLoads
  rw [List.filter_eq_self.mpr]
  intro e he
  simpa using h e he

/-- Extended numbering end to end: a table of `n` entries behind `e_phnum = PN_XNUM`, `sh_info = n`. -/
theorem elf_xnum_spec (tab : List (Nat × LoadSeg)) (n eShnum eShoff size : Nat) (ho : eShoff ≠ 0)
    (hs : eShnum ≠ 0 ∨ size ≠ 0) (h : ∀ e ∈ tab, e.1 < n) :
    ∃ c, elfCounts PN_XNUM eShnum eShoff (some (size, n)) = some c ∧ elfLoads tab c.2 = tab.map (·.2) := by
  have hx := elf_counts_xnum eShnum eShoff size n ho hs
  cases hc : elfCounts PN_XNUM eShnum eShoff (some (size, n)) with
  | none => simp [hc] at hx
  | some c =>
    simp [hc] at hx
    exact ⟨c, rfl, by rw [hx]; exact elf_loads_all tab n h⟩

/-! ### Non-vacuity: the hypotheses are met by concrete, non-trivial states -/

-- "kernel" page with a run, a literal zero and a run of zeroes
example : rleEncode [7, 7, 7, 7, 0, 5, 0, 0, 0] = [0, 4, 7, 0, 0, 5, 0, 3, 0] := by decide
example : uncompressRle [0, 4, 7, 0, 0, 5, 0, 3, 0] 9 = .ok [7, 7, 7, 7, 0, 5, 0, 0, 0] := by decide
example : uncompressRle [0, 4, 7] 3 = .err := by decide          -- run longer than the buffer
example : uncompressRle [0, 4] 9 = .err := by decide             -- truncated stream

/-- two segments whose virtual order differs from their physical order; the first is only half file-backed -/
def exSegs : List LoadSeg := [⟨4096, 2048, 4096, 4096, 0x9000⟩, ⟨8192, 4096, 12288, 4096, 0x1000⟩]
example : SegsWF (arrOf exSegs (exSegs.mergeSort fun a b => a.virt ≤ b.virt) false) false := by
  simp [SegsWF, arrOf, exSegs, LoadSeg.key]
example : (elfGetPage exSegs [] {} false false 4096 4096).2 = .pieces [.file 4096 2048, .zero 2048] := by decide
example : (elfGetPage exSegs [] {} false false 8192 4096).2 = .nodata := by decide
example : (elfGetPage exSegs [] {} false false 12288 4096).2 = .chunk 8192 := by decide

-- the descriptor of the second record cannot be read: the request for frame 1 fails, the state is the one after the
-- first record, and the repeated request finds the frame
example :
    let ds : List LkcdDesc := [⟨0x3000, 5, 1⟩, ⟨0x1000, 7, 2⟩]
    lkGetF (streamReader ds 64) 12 id 85 3 ⟨64, 0, [], 0⟩ 1 = (⟨85, 0, [(3, 64)], 4⟩, none) := by decide
example :
    let ds : List LkcdDesc := [⟨0x3000, 5, 1⟩, ⟨0x1000, 7, 2⟩]
    (lkGet (streamReader ds 64) 12 id 3 ⟨85, 0, [(3, 64)], 4⟩ 1).2 = .found 85 ⟨0x1000, 7, 2⟩ := by decide

-- a vmcore with 65600 program headers: e_phnum = PN_XNUM, e_shnum = 1, sh_info = 65600
example : elfCounts 0xffff 1 0x380000 (some (0, 65600)) = some (1, 65600) := by decide
-- both numbers extended
example : elfCounts 0xffff 0 0x380000 (some (1, 65600)) = some (1, 65600) := by decide
example : elfCounts 3 0 0 none = some (0, 3) := by decide

example : pfnToPos (regionsFromBitmap [0x67, 0x0e] false 0 16 1000 24) 24 6 = some (1000 + 24 * 4) := by decide
example : sadumpLocate (regionsFromBitmap [0xe0] true 0 8 0 4096) [⟨20480, 4096, 1⟩, ⟨4096, 8192, 0⟩] 8 4096 2 =
    .data 0 8192 4096 .raw := by decide

end Kdf.Props.C01
