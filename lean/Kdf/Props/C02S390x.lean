import Kdf.Model.Pgt
import Kdf.Model.PgtArch
import Kdf.Model.PgtS390x
import Kdf.Spec.ArchWalk
import Kdf.Spec.ArchS390x
import Kdf.Lemmas.Pgt
import Kdf.Lemmas.PgtStep
import Kdf.Lemmas.PgtSim
import Kdf.Lemmas.PgtForm
/-!
# C02, z/Architecture — the model of `pgt_s390x` against the architectural specification

* `walk_eq_specWith_library`: on the four paging forms of the architecture the model
  (`walk`, tied to the C code by the `walk` correspondence stream) equals the
  specification *with the one documented library deviation (D2) switched on*
  (`specWith library`), for every memory, root, PTE mask and address.
* `walk_eq_spec_s390x`: outside the documented deviation class (`knownDeviation`)
  the model equals the specification proper (`specS390x`).

Uses the generic simulation of `Kdf/Lemmas/PgtSim.lean` (`StepSim` ⇒ `walkLoop = descend`).
-/
namespace Kdf.Props.C02S390x
set_option linter.unusedVariables false
set_option linter.unusedSimpArgs false
open Kdf.Model.Pgt Kdf.Spec.ArchWalk Kdf.Lemmas.Pgt Kdf.Model.PgtArch Kdf.Model.PgtS390x
open Kdf.Spec.ArchS390x

/-- facts about the architectural field lists used by the step lemma -/
structure S390Fields (pf : PagingForm) : Prop where
  fmt : pf.fmt = .s390x
  len2 : 2 ≤ pf.fieldsz.length
  lt64 : ∀ b ∈ pf.fieldsz, b < 64
  span : spanBits pf.fieldsz pf.fieldsz.length ≤ 64
  f0 : pf.fieldsz.getD 0 0 = 12
  f11 : ∀ i, 2 ≤ i → i < pf.fieldsz.length → pf.fieldsz.getD i 0 = 11

theorem s390Fields_of_form (pf : PagingForm) (h : archFormS390x pf = true) : S390Fields pf := by
  simp only [archFormS390x, Bool.and_eq_true, Bool.or_eq_true, decide_eq_true_eq] at h
  obtain ⟨hfmt, hf⟩ := h
  have key : ∀ l : List Nat, (l = [12, 8, 11] ∨ l = [12, 8, 11, 11] ∨ l = [12, 8, 11, 11, 11] ∨
      l = [12, 8, 11, 11, 11, 11]) →
      2 ≤ l.length ∧ (∀ b ∈ l, b < 64) ∧ spanBits l l.length ≤ 64 ∧ l.getD 0 0 = 12 ∧
        ∀ i, 2 ≤ i → i < l.length → l.getD i 0 = 11 := by
    intro l hl
    rcases hl with rfl | rfl | rfl | rfl
    all_goals
      refine ⟨by decide, by decide, by decide, by decide, ?_⟩
      intro i h2 hi
      simp only [List.length_cons, List.length_nil] at hi
      have : i = 2 ∨ i = 3 ∨ i = 4 ∨ i = 5 := by omega
      rcases this with rfl | rfl | rfl | rfl <;> first | rfl | omega
  have hf' : pf.fieldsz = [12, 8, 11] ∨ pf.fieldsz = [12, 8, 11, 11] ∨
      pf.fieldsz = [12, 8, 11, 11, 11] ∨ pf.fieldsz = [12, 8, 11, 11, 11, 11] := by
    rcases hf with ((h | h) | h) | h
    · exact Or.inl h
    · exact Or.inr (Or.inl h)
    · exact Or.inr (Or.inr (Or.inl h))
    · exact Or.inr (Or.inr (Or.inr h))
  obtain ⟨a, b, c, d, e⟩ := key pf.fieldsz hf'
  exact ⟨hfmt, a, b, c, d, e⟩

theorem forms_of_arch (pf : PagingForm) (h : archFormS390x pf = true) :
    pf.fieldsz = [12, 8, 11] ∨ pf.fieldsz = [12, 8, 11, 11] ∨
      pf.fieldsz = [12, 8, 11, 11, 11] ∨ pf.fieldsz = [12, 8, 11, 11, 11, 11] := by
  simp only [archFormS390x, Bool.and_eq_true, Bool.or_eq_true, decide_eq_true_eq] at h
  rcases h.2 with ((h | h) | h) | h
  · exact Or.inl h
  · exact Or.inr (Or.inl h)
  · exact Or.inr (Or.inr (Or.inl h))
  · exact Or.inr (Or.inr (Or.inr h))

/-- `idx[remain-1] >> (fieldsz[remain-1] - 2)` is the two leftmost bits of the next index
(RSX 11–12, RTX 22–23, SX 33–34) on the architectural forms. -/
theorem pgidx_quarter (pf : PagingForm) (hform : archFormS390x pf = true) (va : Nat) (s : Step)
    (hinv : IdxInv pf.fieldsz va s) (r : Nat) (h3 : 3 ≤ r) (h5 : r ≤ 5) (hrn : r ≤ pf.fieldsz.length) :
    idxAt s (r - 1) / 2 ^ pgidxShift pf r % 2 ^ 32 = nextQuarter va r := by
  have hi := hinv.val (r - 1) (by omega)
  have hr : r = 3 ∨ r = 4 ∨ r = 5 := by omega
  rcases forms_of_arch pf hform with hf | hf | hf | hf <;> rw [hf] at hi hrn <;>
    rcases hr with rfl | rfl | rfl <;>
    simp only [List.length_cons, List.length_nil] at hrn <;> (try omega) <;>
    (rw [show pgidxShift pf _ = 9 by simp [pgidxShift, fieldAt, hf], hi] ;
     simp [nextQuarter, fld, spanBits] ; omega)

theorem stepSim_s390x (mem : Mem) (t pteMask : Nat) (pf : PagingForm) (va : Nat)
    (hform : archFormS390x pf = true) (hmask : pteMask < W) :
    StepSim (decodeS390x library va) mem t pteMask pf 8 va := by
  intro r s1 hr1 hrn hrem hinv
  have hF := s390Fields_of_form pf hform
  have hfmt := hF.fmt
  simp only [nextStepPgt, hfmt, extra]
  unfold pgtS390x readPte
  cases hm : mem s1.base.as s1.base.addr 8 with
  | error e => rfl
  | ok raw =>
    simp only [bind, Except.bind, pure, Except.pure, throw, throwThe, MonadExceptOf.throw]
    rw [Nat.mod_eq_of_lt hmask]
    generalize raw &&& ((W - 1) ^^^ pteMask) = pte
    -- the fields, LSB-0 numbering
    have mI : rsteI pte = pte / 2^5 % 2 := rfl
    have mPI : pteI pte = pte / 2^10 % 2 := rfl
    have mFC : rsteFC pte = pte / 2^10 % 2 := rfl
    have mTT : rsteTT pte = pte / 2^2 % 4 := rfl
    have mTF : rsteTF pte = pte / 2^6 % 4 := rfl
    have mTL : rsteTL pte = pte / 2^0 % 4 := rfl
    have sI : fld pte 58 1 = pte / 2^5 % 2 := rfl
    have sPI : fld pte 53 1 = pte / 2^10 % 2 := rfl
    have sZ : fld pte 52 1 = pte / 2^11 % 2 := rfl
    have sTT : fld pte 60 2 = pte / 2^2 % 4 := rfl
    have sTF : fld pte 56 2 = pte / 2^6 % 4 := rfl
    have sTL : fld pte 62 2 = pte / 2^0 % 4 := rfl
    have l52 : leftBits pte 52 = pte / 2^12 * 2^12 := rfl
    have l53 : leftBits pte 53 = pte / 2^11 * 2^11 := rfl
    have l44 : leftBits pte 44 = pte / 2^20 * 2^20 := rfl
    have l33 : leftBits pte 33 = pte / 2^31 * 2^31 := rfl
    rw [mI, mPI, mFC, mTT, mTF, mTL]
    unfold decodeS390x
    rw [sI, sPI, sZ, sTT, sTF, sTL, l52, l53, l44, l33]
    simp only [library, clearLow]
    subst hrem
    by_cases h1 : s1.remain = 1
    · -- page-table entry
      simp only [h1]
      by_cases hi : pte / 2^10 % 2 = 1
      · simp [hi, SimRes]
      · have hi0 : pte / 2^10 % 2 = 0 := by omega
        simp [hi0, SimRes]
        have := hinv.val 0 (by omega)
        simp only [spanBits_zero, Nat.pow_zero, Nat.div_one] at this
        rw [spanBits_one, ← this]
        rfl
    · simp only [h1]
      by_cases hI : pte / 2^5 % 2 = 1
      · have hI' : pte / 2^5 % 2 ≠ 0 := by omega
        have hgt : s1.remain > 1 := by omega
        simp [hI, hgt, SimRes]
      · have hI0 : pte / 2^5 % 2 = 0 := by omega
        by_cases h2 : s1.remain = 2
        · -- segment-table entry
          simp only [h2]
          by_cases hTT : pte / 2^2 % 4 = 0
          · by_cases hFC : pte / 2^10 % 2 = 1
            · simp [hI0, hTT, hFC]
              exact simRes_huge pf va t 2 s1 _ _ rfl (by omega) (by omega) (hinv.of_idx_eq rfl) hF.span rfl
            · have hFC0 : pte / 2^10 % 2 = 0 := by omega
              simp [hI0, hTT, hFC0, SimRes]
          · simp [hI0, hTT, SimRes]
        · have hge2 : s1.remain ≥ 2 := by omega
          have hge3 : s1.remain ≥ 3 := by omega
          by_cases hTT : pte / 2^2 % 4 = s1.remain - 2
          · have h5 : s1.remain ≤ 5 := by omega
            have hz : idxAt ({ base := { addr := pte, as := t }, remain := s1.remain, elemsz := s1.elemsz,
                                  idx := s1.idx, raw := raw } : Step) (s1.remain - 1) /
                2 ^ pgidxShift pf s1.remain % 2 ^ 32 = nextQuarter va s1.remain :=
              pgidx_quarter pf hform va s1 hinv s1.remain (by omega) h5 hrn
            generalize nextQuarter va s1.remain = q at hz
            simp only [h2, hz, hge2, hge3]
            by_cases h3 : s1.remain = 3
            · by_cases hFC : pte / 2^10 % 2 = 1
              · simp [hI0, hTT, hFC, h3]
                exact simRes_huge pf va t 3 s1 _ _ rfl (by omega) (by omega) (hinv.of_idx_eq rfl) hF.span rfl
              · have hFC0 : pte / 2^10 % 2 = 0 := by omega
                by_cases hq : q < pte / 64 % 4 ∨ pte % 4 < q
                · simp [hI0, hTT, hFC0, h3, hq, SimRes]
                · simp [hI0, hTT, hFC0, h3, hq, SimRes]
            · by_cases hq : q < pte / 64 % 4 ∨ pte % 4 < q
              · simp [hI0, hTT, h3, hq, SimRes]
              · simp [hI0, hTT, h3, hq, SimRes]
                omega
          · simp [h2, hge2, hI0, hTT, SimRes]

/-- The model of `pgt_s390x` is the architectural walk with the one documented library
deviation (D2: PTE bit 52 not checked) — on every memory. -/
theorem walk_eq_specWith_library (mem : Mem) (t : Nat) (root : FullAddr) (pteMask : Nat)
    (pf : PagingForm) (va : Nat) (hform : archFormS390x pf = true) (hmask : pteMask < W) :
    (walk extra mem (.pgt t root pteMask pf) va).map (·.base) =
      specWith library mem t root pteMask pf va := by
  have hF := s390Fields_of_form pf hform
  have hlen := hF.len2
  unfold specWith
  exact walk_pgt_generic mem t root pteMask pf va _ _ _ (by omega) hF.lt64
    (firstOK_unsigned _ _ _ _ _ (by simp only [firstStep, hF.fmt]) hF.lt64)
    (fun h => by
      have h' : pf.fieldsz.length > 1 := by omega
      simp [initStep, hF.fmt, ptevalShift, h'])
    (stepSim_s390x mem t pteMask pf va hform hmask)

theorem sameResult_eq {a b : Except XStatus FullAddr} (h : sameResult a b = true) : a = b := by
  cases a <;> cases b <;> simp [sameResult] at h <;> simp [h]

/-- **C02 for z/Architecture**: outside the documented deviation class the model of
`addrxlat_walk` over an s390x page-table method equals dynamic address translation as the
architecture defines it. -/
theorem walk_eq_spec_s390x (mem : Mem) (hmem : MemWF mem) (t : Nat) (root : FullAddr) (pteMask : Nat)
    (pf : PagingForm) (va : Nat) (hform : archFormS390x pf = true) (hva : va < W)
    (hroot : root.addr < W) (hmask : pteMask < W)
    (hdev : knownDeviation mem t root pteMask pf va = false) :
    (walk extra mem (.pgt t root pteMask pf) va).map (·.base) =
      specS390x mem t root pteMask pf va := by
  rw [walk_eq_specWith_library mem t root pteMask pf va hform hmask]
  unfold knownDeviation at hdev
  unfold specS390x
  apply sameResult_eq
  cases h : sameResult (specWith library mem t root pteMask pf va) (specWith strict mem t root pteMask pf va)
  · rw [h] at hdev; simp at hdev
  · rfl

/-! ### Non-vacuity, the table offset/length rule and the deviation D2 on concrete tables

Region-third table at 0x0, segment table at 0x1000, page table at 0x2000 (all in address
space 0).  -/
def demoMem (r3e ste pte : Nat) : Mem := fun _ a sz =>
  if sz ≠ 8 then .error .nodata
  else if a = 0x0 + 8 * 1 then .ok r3e            -- R3[1]
  else if a = 0x1000 + 8 * 0x600 then .ok ste     -- SEG[0x600]  (quarter 3)
  else if a = 0x2000 + 8 * 5 then .ok pte         -- PT[5]
  else .ok 0x20                                   -- everything else invalid

def demoForm : PagingForm := ⟨.s390x, [12, 8, 11, 11]⟩
def demoVa : Nat := 1 * 2^31 + 0x600 * 2^20 + 5 * 2^12 + 0x123

example : archFormS390x demoForm = true := by decide

/-- a full three-level walk: R3 entry (TT=01, TF=0, TL=3) → segment-table entry → page -/
example : (walk extra (demoMem 0x1007 0x2000 0x7654000) (.pgt 0 ⟨0, 0⟩ 0 demoForm) demoVa).map (·.base)
    = .ok ⟨0x7654123, 0⟩ := by rfl
example : specS390x (demoMem 0x1007 0x2000 0x7654000) 0 ⟨0, 0⟩ 0 demoForm demoVa = .ok ⟨0x7654123, 0⟩ := by rfl
example : knownDeviation (demoMem 0x1007 0x2000 0x7654000) 0 ⟨0, 0⟩ 0 demoForm demoVa = false := by rfl

/-- 1 MiB frame (segment-table entry with FC = 1) and 2 GiB frame (region-third-table entry with FC = 1) -/
example : specS390x (demoMem 0x1007 0x500400 0) 0 ⟨0, 0⟩ 0 demoForm demoVa = .ok ⟨0x500000 + 0x5123, 0⟩ := by rfl
example : specS390x (demoMem 0x80000404 0 0) 0 ⟨0, 0⟩ 0 demoForm demoVa
    = .ok ⟨0x80000000 + 0x600 * 2^20 + 0x5123, 0⟩ := by rfl

/-- Table length (formerly deviation D1, fixed in the library): the region-third-table entry
has TL = 0 (only quarter 0 of the segment table exists), the segment index 0x600 lies in
quarter 3.  Architecture: segment-translation exception — and so says the model now. -/
example : specS390x (demoMem 0x1004 0x2000 0x7654000) 0 ⟨0, 0⟩ 0 demoForm demoVa = .error .notpresent := by rfl
example : (walk extra (demoMem 0x1004 0x2000 0x7654000) (.pgt 0 ⟨0, 0⟩ 0 demoForm) demoVa).map (·.base)
    = .error .notpresent := by rfl
example : knownDeviation (demoMem 0x1004 0x2000 0x7654000) 0 ⟨0, 0⟩ 0 demoForm demoVa = false := by rfl

/-- Table offset (formerly D1): TF = 1, TL = 3, quarter 3 is inside: translates. -/
example : specS390x (demoMem 0x1047 0x2000 0x7654000) 0 ⟨0, 0⟩ 0 demoForm demoVa = .ok ⟨0x7654123, 0⟩ := by rfl
example : (walk extra (demoMem 0x1047 0x2000 0x7654000) (.pgt 0 ⟨0, 0⟩ 0 demoForm) demoVa).map (·.base)
    = .ok ⟨0x7654123, 0⟩ := by rfl
example : knownDeviation (demoMem 0x1047 0x2000 0x7654000) 0 ⟨0, 0⟩ 0 demoForm demoVa = false := by rfl

/-- D2: valid page-table entry with bit 52 = 1.  Architecture: translation-specification
exception.  Library: translates. -/
example : specS390x (demoMem 0x1007 0x2000 0x7654800) 0 ⟨0, 0⟩ 0 demoForm demoVa = .error .invalid := by rfl
example : (walk extra (demoMem 0x1007 0x2000 0x7654800) (.pgt 0 ⟨0, 0⟩ 0 demoForm) demoVa).map (·.base)
    = .ok ⟨0x7654123, 0⟩ := by rfl
example : knownDeviation (demoMem 0x1007 0x2000 0x7654800) 0 ⟨0, 0⟩ 0 demoForm demoVa = true := by rfl

end Kdf.Props.C02S390x
