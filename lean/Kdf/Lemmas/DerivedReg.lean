import Kdf.Model.Derived
/-! Helper lemmas and proofs for registers as views of PRSTATUS, and for the version code (C14). -/
namespace Kdf.Lemmas.DerivedReg
open Kdf.Model.Derived

/-! ### helpers: encode / decode -/

theorem decodeLE_encodeLE (n v : Nat) : decodeLE (encodeLE n v) = v % 256 ^ n := by
  induction n generalizing v with
  | zero => simp [encodeLE, decodeLE, Nat.mod_one]
  | succ n ih =>
    simp only [encodeLE, decodeLE, ih]
    rw [Nat.pow_succ, Nat.mul_comm (256 ^ n) 256, Nat.mod_mul]

theorem encodeLE_length (n v : Nat) : (encodeLE n v).length = n := by
  induction n generalizing v with
  | zero => rfl
  | succ n ih => simp [encodeLE, ih]

theorem decode_encode (be : Bool) (len v : Nat) : decode be (encode be len v) = v % 256 ^ len := by
  cases be <;> simp [decode, encode, decodeLE_encodeLE]

theorem encode_length (be : Bool) (len v : Nat) : (encode be len v).length = len := by
  cases be <;> simp [encode, encodeLE_length]

/-! ### helpers: setNth -/

theorem setNth_length {α} (l : List α) (i : Nat) (a : α) : (setNth l i a).length = l.length := by
  induction l generalizing i with
  | nil => rfl
  | cons h t ih => cases i <;> simp [setNth, ih]

theorem getElem?_setNth_self {α} (l : List α) (i : Nat) (a : α) (h : i < l.length) :
    (setNth l i a)[i]? = some a := by
  induction l generalizing i with
  | nil => simp at h
  | cons x t ih =>
    cases i with
    | zero => simp [setNth]
    | succ n =>
      simp only [setNth, List.getElem?_cons_succ]
      exact ih n (by simpa using h)

theorem getElem?_setNth_ne {α} (l : List α) (i j : Nat) (a : α) (h : i ≠ j) :
    (setNth l i a)[j]? = l[j]? := by
  induction l generalizing i j with
  | nil => simp [setNth]
  | cons x t ih =>
    cases i with
    | zero =>
      cases j with
      | zero => exact absurd rfl h
      | succ m => simp [setNth]
    | succ n =>
      cases j with
      | zero => simp [setNth]
      | succ m =>
        simp only [setNth, List.getElem?_cons_succ]
        exact ih n m (by omega)

theorem mem_setNth {α} (l : List α) (i : Nat) (a x : α) (hx : x ∈ setNth l i a) : x = a ∨ x ∈ l := by
  induction l generalizing i with
  | nil => simp [setNth] at hx
  | cons y t ih =>
    cases i with
    | zero =>
      simp only [setNth, List.mem_cons] at hx ⊢
      rcases hx with hx | hx
      · exact Or.inl hx
      · exact Or.inr (Or.inr hx)
    | succ n =>
      simp only [setNth, List.mem_cons] at hx ⊢
      rcases hx with hx | hx
      · exact Or.inr (Or.inl hx)
      · rcases ih n hx with h | h
        · exact Or.inl h
        · exact Or.inr (Or.inr h)

theorem map_setNth {α β} (f : α → β) (l : List α) (i : Nat) (a r : α) (hr : l[i]? = some r)
    (hf : f a = f r) : (setNth l i a).map f = l.map f := by
  induction l generalizing i with
  | nil => rfl
  | cons y t ih =>
    cases i with
    | zero =>
      simp only [List.getElem?_cons_zero, Option.some.injEq] at hr
      subst hr
      simp [setNth, hf]
    | succ n =>
      simp only [List.getElem?_cons_succ] at hr
      simp [setNth, ih n hr]

/-! ### helpers: patch -/

theorem length_patch (b : Bytes) (off : Nat) (bs : Bytes) (h : off + bs.length ≤ b.length) :
    (patch b off bs).length = b.length := by
  simp only [patch, List.length_append, List.length_take, List.length_drop]
  omega

theorem drop_take_patch (b : Bytes) (off : Nat) (bs : Bytes) (h : off ≤ b.length) :
    ((patch b off bs).drop off).take bs.length = bs := by
  have h1 : (b.take off).length = off := by simp [List.length_take]; omega
  unfold patch
  rw [List.append_assoc, List.drop_left' h1, List.take_left' rfl]

theorem getElem?_patch_outside (b : Bytes) (off : Nat) (bs : Bytes) (j : Nat)
    (h : off + bs.length ≤ b.length) (hj : j < off ∨ off + bs.length ≤ j) :
    (patch b off bs)[j]? = b[j]? := by
  have h1 : (b.take off).length = off := by simp [List.length_take]; omega
  unfold patch
  rcases hj with hj | hj
  · rw [List.append_assoc, List.getElem?_append_left (by omega)]
    rw [List.getElem?_take]
    simp [hj]
  · rw [List.getElem?_append_right (by simp [List.length_append, h1]; omega)]
    rw [List.getElem?_drop]
    congr 1
    simp only [List.length_append, h1]
    omega

/-- every register value is flagged "to be re-read from the blob" -/
def AllInvalid (c : Cpu) : Prop := ∀ r ∈ c.regs, r.invalid = true

theorem inv_of_get {c : Cpu} (h : AllInvalid c) {i : Nat} {r : Reg} (hr : c.regs[i]? = some r) :
    r.invalid = true := h r (List.mem_of_getElem? hr)

theorem lt_of_get {α} {l : List α} {i : Nat} {r : α} (hr : l[i]? = some r) : i < l.length := by
  rcases List.getElem?_eq_some_iff.mp hr with ⟨h, _⟩
  exact h

theorem setReg_allInvalid (c : Cpu) (h : AllInvalid c) (i v : Nat) : AllInvalid (setReg c i v).2 := by
  unfold setReg
  cases hr : c.regs[i]? with
  | none => exact h
  | some r =>
    have hi := inv_of_get h hr
    simp only [hi]
    have key : ∀ x ∈ setNth c.regs i { r with val := v, invalid := true }, x.invalid = true := by
      intro x hx
      rcases mem_setNth _ _ _ _ hx with hx | hx
      · subst hx; rfl
      · exact h x hx
    simp only [Bool.not_true, Bool.false_eq_true, false_and, if_false]
    split
    · exact key
    · split
      · exact key
      · split
        · exact key
        · exact key

theorem getReg_allInvalid (c : Cpu) (h : AllInvalid c) (i : Nat) : AllInvalid (getReg c i).2.1 := by
  unfold getReg
  cases hr : c.regs[i]? with
  | none => exact h
  | some r =>
    have hi := inv_of_get h hr
    simp only [hi, Bool.not_true, Bool.false_eq_true, if_false]
    intro x hx
    rcases mem_setNth _ _ _ _ hx with hx | hx
    · subst hx
      unfold regRevalidate
      split
      · exact hi
      · split
        · exact hi
        · split
          · exact hi
          · exact hi
    · exact h x hx

/-- reading a register returns exactly the bytes of the blob at its offset, in dump byte order;
the blob and the register table are untouched by a read -/
theorem getReg_eq_blob (c : Cpu) (h : AllInvalid c) (hb : c.blobSet = true) (i : Nat) (r : Reg) (hr : c.regs[i]? = some r)
    (hin : r.d.off + r.d.len ≤ c.blob.length) (hl : okLen r.d.len = true) :
    (getReg c i).1 = .ok ∧
    (getReg c i).2.2 = some (decode c.be ((c.blob.drop r.d.off).take r.d.len)) ∧
    (getReg c i).2.1.blob = c.blob ∧ (getReg c i).2.1.be = c.be ∧
    (getReg c i).2.1.regs.map (·.d) = c.regs.map (·.d) ∧
    (getReg c i).2.1.blobSet = c.blobSet := by
  have hi := inv_of_get h hr
  have hn : ¬ (r.d.off + r.d.len > c.blob.length) := by omega
  have hrv : regRevalidate c r =
      (.ok, { r with val := decode c.be ((c.blob.drop r.d.off).take r.d.len) }) := by
    simp [regRevalidate, hb, hn, hl]
  simp only [getReg, hr, hi, hrv, Bool.not_true, Bool.false_eq_true, if_false, if_true, true_and,
    and_true]
  apply map_setNth (·.d) c.regs i _ r hr
  rfl

/-- a register outside the blob cannot be read -/
theorem getReg_short (c : Cpu) (h : AllInvalid c) (hb : c.blobSet = true) (i : Nat) (r : Reg) (hr : c.regs[i]? = some r)
    (hout : c.blob.length < r.d.off + r.d.len) :
    (getReg c i).1 = .corrupt ∧ (getReg c i).2.2 = none := by
  have hi := inv_of_get h hr
  have hrv : regRevalidate c r = (.corrupt, r) := by
    simp [regRevalidate, hb, hout]
  simp [getReg, hr, hi, hrv]

theorem setReg_eq (c : Cpu) (h : AllInvalid c) (hb : c.blobSet = true) (i v : Nat) (r : Reg) (hr : c.regs[i]? = some r)
    (hin : r.d.off + r.d.len ≤ c.blob.length) (hl : okLen r.d.len = true) :
    setReg c i v = (.ok, { c with regs := setNth c.regs i { r with val := v, invalid := true },
                                  blob := patch c.blob r.d.off (encode c.be r.d.len v) }) := by
  have hi := inv_of_get h hr
  have hn : ¬ (r.d.off + r.d.len > c.blob.length) := by omega
  simp [setReg, hr, hi, hb, hn, hl]

/-- writing a register patches exactly its bytes of the blob … -/
theorem setReg_blob (c : Cpu) (h : AllInvalid c) (hb : c.blobSet = true) (i v : Nat) (r : Reg) (hr : c.regs[i]? = some r)
    (hin : r.d.off + r.d.len ≤ c.blob.length) (hl : okLen r.d.len = true) :
    (setReg c i v).1 = .ok ∧
    (setReg c i v).2.blob = patch c.blob r.d.off (encode c.be r.d.len v) ∧
    (setReg c i v).2.blob.length = c.blob.length ∧
    (∀ j, (j < r.d.off ∨ r.d.off + r.d.len ≤ j) → (setReg c i v).2.blob[j]? = c.blob[j]?) ∧
    (setReg c i v).2.be = c.be ∧ (setReg c i v).2.regs.map (·.d) = c.regs.map (·.d) ∧
    (setReg c i v).2.blobSet = true := by
  rw [setReg_eq c h hb i v r hr hin hl]
  have hlen : (encode c.be r.d.len v).length = r.d.len := encode_length _ _ _
  refine ⟨rfl, rfl, ?_, ?_, rfl, ?_, hb⟩
  · exact length_patch _ _ _ (by rw [hlen]; exact hin)
  · intro j hj
    exact getElem?_patch_outside _ _ _ j (by rw [hlen]; exact hin) (by rw [hlen]; exact hj)
  · apply map_setNth (·.d) c.regs i _ r hr
    rfl

/-- … and reading it back gives the written value truncated to the register width -/
theorem get_after_set (c : Cpu) (h : AllInvalid c) (hb : c.blobSet = true) (i v : Nat) (r : Reg) (hr : c.regs[i]? = some r)
    (hin : r.d.off + r.d.len ≤ c.blob.length) (hl : okLen r.d.len = true) :
    (getReg (setReg c i v).2 i).2.2 = some (v % 256 ^ r.d.len) := by
  have hlen : (encode c.be r.d.len v).length = r.d.len := encode_length _ _ _
  have hA : AllInvalid (setReg c i v).2 := setReg_allInvalid c h i v
  rw [setReg_eq c h hb i v r hr hin hl] at hA ⊢
  have hr' : (setNth c.regs i { r with val := v, invalid := true })[i]? =
      some { r with val := v, invalid := true } :=
    getElem?_setNth_self _ _ _ (lt_of_get hr)
  have hpl : (patch c.blob r.d.off (encode c.be r.d.len v)).length = c.blob.length :=
    length_patch _ _ _ (by rw [hlen]; exact hin)
  have := (getReg_eq_blob _ hA hb i _ hr' (by simpa [hpl] using hin) hl).2.1
  rw [this]
  simp only
  have hdt := drop_take_patch c.blob r.d.off (encode c.be r.d.len v) (by omega)
  rw [hlen] at hdt
  rw [hdt, decode_encode]

/-- a write that fails (blob too short) leaves the blob alone -/
theorem setReg_short (c : Cpu) (h : AllInvalid c) (hb : c.blobSet = true) (i v : Nat) (r : Reg) (hr : c.regs[i]? = some r)
    (hout : c.blob.length < r.d.off + r.d.len) :
    (setReg c i v).1 = .corrupt ∧ (setReg c i v).2.blob = c.blob := by
  have hi := inv_of_get h hr
  simp [setReg, hr, hi, hb, hout]

/-- after the PRSTATUS attribute has been cleared no register can be read … -/
theorem getReg_cleared (c : Cpu) (h : AllInvalid c) (hb : c.blobSet = false) (i : Nat) (r : Reg)
    (hr : c.regs[i]? = some r) :
    (getReg c i).1 = .nodata ∧ (getReg c i).2.2 = none := by
  have hi := inv_of_get h hr
  have hrv : regRevalidate c r = (.nodata, r) := by
    simp [regRevalidate, hb]
  simp [getReg, hr, hi, hrv]

/-- … or written -/
theorem setReg_cleared (c : Cpu) (h : AllInvalid c) (hb : c.blobSet = false) (i v : Nat) (r : Reg)
    (hr : c.regs[i]? = some r) :
    (setReg c i v).1 = .nodata ∧ (setReg c i v).2.blob = c.blob ∧ (setReg c i v).2.blobSet = false := by
  have hi := inv_of_get h hr
  simp [setReg, hr, hi, hb]

/-! ### version code -/

/-- whenever the version code is set and not flagged invalid it is the code of the
current release string -/
def VerInv (v : Ver) : Prop :=
  (v.isset = true ∧ v.invalid = false) →
    ∃ r a b c, v.release = some r ∧ parseRelease r = some (a, b, c) ∧ kernelVersion a b c = some v.val

theorem setRelease_inv (v : Ver) (h : VerInv v) (s : Bytes) : VerInv (setRelease v s) := by
  unfold setRelease
  split
  · exact h
  · intro hh
    simp at hh

theorem clearRelease_inv (v : Ver) (h : VerInv v) : VerInv (clearRelease v) := by
  have _ := h  -- the hypothesis is not needed: the cleared state never claims a valid code
  unfold clearRelease
  intro hh
  cases hs : v.isset <;> simp [hs] at hh

theorem getVer_inv (v : Ver) (h : VerInv v) :
    match getVer v with
    | .done st (v', r) =>
      VerInv v' ∧ v'.release = v.release ∧
      (st = .ok → ∃ rel a b c n, r = some n ∧ v.release = some rel ∧ parseRelease rel = some (a, b, c) ∧
                   kernelVersion a b c = some n) ∧
      (st ≠ .ok → r = none)
    | .ub => ∃ rel a b c, v.release = some rel ∧ parseRelease rel = some (a, b, c) ∧ kernelVersion a b c = none
    | .fuel => False := by
  obtain ⟨orel, isset, inv, val⟩ := v
  cases isset with
  | false => simp [getVer, h]
  | true =>
    cases inv with
    | false =>
      obtain ⟨rel, a, b, c, h1, h2, h3⟩ := h ⟨rfl, rfl⟩
      have e : getVer ⟨orel, true, false, val⟩ = .done .ok (⟨orel, true, false, val⟩, some val) := by
        simp [getVer]
      rw [e]
      exact ⟨h, rfl, fun _ => ⟨rel, a, b, c, val, rfl, h1, h2, h3⟩, fun hne => absurd rfl hne⟩
    | true =>
      cases orel with
      | none => simp [getVer, h]
      | some rel =>
        cases hp : parseRelease rel with
        | none =>
          have e : getVer ⟨some rel, true, true, val⟩ = .done .corrupt (⟨some rel, true, true, val⟩, none) := by
            simp [getVer, hp]
          rw [e]
          exact ⟨h, rfl, fun hh => Status.noConfusion hh, fun _ => rfl⟩
        | some abc =>
          obtain ⟨a, b, c⟩ := abc
          cases hk : kernelVersion a b c with
          | none =>
            have e : getVer ⟨some rel, true, true, val⟩ = .ub := by
              simp [getVer, hp, hk]
            rw [e]
            exact ⟨rel, a, b, c, rfl, hp, hk⟩
          | some code =>
            have e : getVer ⟨some rel, true, true, val⟩ =
                .done .ok (⟨some rel, true, false, code⟩, some code) := by
              simp [getVer, hp, hk]
            rw [e]
            refine ⟨?_, rfl, fun _ => ⟨rel, a, b, c, code, rfl, rfl, hp, hk⟩, fun hne => absurd rfl hne⟩
            intro _
            exact ⟨rel, a, b, c, rfl, hp, hk⟩

/-- after the release string has been cleared the version code cannot be read -/
theorem getVer_cleared (v : Ver) (h : VerInv v) :
    ∃ v', getVer (clearRelease v) = .done .nodata (v', none) := by
  have _ := h  -- the hypothesis is not needed
  unfold getVer clearRelease
  cases hs : v.isset <;> simp

end Kdf.Lemmas.DerivedReg
