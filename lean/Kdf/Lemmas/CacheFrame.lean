import Kdf.Lemmas.CacheAbs
/-!
Frame conditions for the eviction / reclaim steps of the page-cache model (C06): which
entries stay cached and which entries keep their contents.
-/
set_option linter.unusedSimpArgs false
namespace Kdf.Lemmas.Cache
open Kdf.Model.Cache Kdf.Lemmas.CacheList

/-- `s` is obtained from `s0` by evicting zero-reference entries and by touching entries
that are neither cached nor in flight -/
structure FrameS (s0 s : St) : Prop where
  cap : s.cap = s0.cap
  F : s.F = s0.F
  sub : ∀ i ∈ s.B ++ s.P, i ∈ s0.B ++ s0.P
  keep : ∀ i ∈ s0.B ++ s0.P, (s0.ent i).refcnt ≠ 0 → i ∈ s.B ++ s.P
  ent_live : ∀ i ∈ s.B ++ s.P ++ s.F, s.ent i = s0.ent i

theorem FrameS.refl (s : St) : FrameS s s :=
  ⟨rfl, rfl, fun _ h => h, fun _ h _ => h, fun _ _ => rfl⟩

theorem FrameS.trans {s0 s1 s2 : St} (h1 : FrameS s0 s1) (h2 : FrameS s1 s2) : FrameS s0 s2 := by
  have hl : ∀ i ∈ s2.B ++ s2.P ++ s2.F, i ∈ s1.B ++ s1.P ++ s1.F := by
    intro i hi
    rw [List.mem_append] at hi ⊢
    rcases hi with hi | hi
    · exact Or.inl (h2.sub i hi)
    · exact Or.inr (h2.F ▸ hi)
  refine ⟨h2.cap.trans h1.cap, h2.F.trans h1.F, fun i hi => h1.sub i (h2.sub i hi), ?_, ?_⟩
  · intro i hi hr
    have hi1 := h1.keep i hi hr
    have he := h1.ent_live i (by simp only [List.mem_append] at hi1 ⊢; exact Or.inl hi1)
    exact h2.keep i hi1 (he ▸ hr)
  · intro i hi
    rw [h2.ent_live i hi, h1.ent_live i (hl i hi)]

set_option maxHeartbeats 400000 in
theorem InvH.frame_evictB {s : St} {hl fl : List Nat} {st : Prop} (h : InvH s hl fl st) {z : Nat}
    (hz : z ∈ s.B) (hr : (s.ent z).refcnt = 0) (v : Entry) :
    FrameS s (St.setEnt { s with B := s.B.erase z, GB := s.GB ++ [z] } z v) := by
  obtain ⟨b1, b2, hzb1, hB, hBe⟩ := List.exists_erase_eq hz
  have hnd := h.nodup
  obtain ⟨cap, ent, U, GB, B, P, GP, F⟩ := s
  simp only at *
  subst hB
  rw [hBe]
  simp only [List.nodup_append, List.mem_append, List.nodup_cons, List.mem_cons] at hnd
  clear h
  constructor
  · rfl
  · rfl
  · field_tac
  · field_tac
  · field_tac

set_option maxHeartbeats 400000 in
theorem InvH.frame_evictP {s : St} {hl fl : List Nat} {st : Prop} (h : InvH s hl fl st) {z : Nat}
    (hz : z ∈ s.P) (hr : (s.ent z).refcnt = 0) (v : Entry) :
    FrameS s (St.setEnt { s with P := s.P.erase z, GP := z :: s.GP } z v) := by
  obtain ⟨b1, b2, hzb1, hB, hBe⟩ := List.exists_erase_eq hz
  have hnd := h.nodup
  obtain ⟨cap, ent, U, GB, B, P, GP, F⟩ := s
  simp only at *
  subst hB
  rw [hBe]
  simp only [List.nodup_append, List.mem_append, List.nodup_cons, List.mem_cons] at hnd
  clear h
  constructor
  · rfl
  · rfl
  · field_tac
  · field_tac
  · field_tac

/-- changing an entry that is neither cached nor in flight -/
theorem FrameS.setEnt_other {s : St} {e : Nat} (he : e ∉ s.B ++ s.P ++ s.F) (v : Entry) :
    FrameS s (s.setEnt e v) := by
  refine ⟨rfl, rfl, fun _ h => h, fun _ h _ => h, ?_⟩
  intro i hi
  have : i ≠ e := fun h => he (h ▸ hi)
  simp [St.setEnt_ent, this]

theorem InvH.not_live_of_U {s : St} {hl fl : List Nat} {st : Prop} (h : InvH s hl fl st) {e : Nat}
    (he : e ∈ s.U) : e ∉ s.B ++ s.P ++ s.F := by
  have hnd := h.nodup
  simp only [List.nodup_append, List.mem_append] at hnd ⊢
  grind

theorem InvH.not_live_of_fl {s : St} {hl fl : List Nat} {st : Prop} (h : InvH s hl fl st) {e : Nat}
    (he : e ∈ fl) : e ∉ s.B ++ s.P ++ s.F := by
  have hnd := h.nodup
  simp only [List.nodup_append, List.mem_append] at hnd ⊢
  grind

theorem InvH.not_live_of_ghost {s : St} {hl fl : List Nat} {st : Prop} (h : InvH s hl fl st) {e : Nat}
    (he : e ∈ s.GB ++ s.GP) : e ∉ s.B ++ s.P ++ s.F := by
  have hnd := h.nodup
  simp only [List.nodup_append, List.mem_append] at hnd ⊢ he
  grind

theorem InvH.lt_of_mem {s : St} {hl fl : List Nat} {st : Prop} (h : InvH s hl fl st) {e : Nat}
    (he : e ∈ s.U ++ s.GB ++ s.B ++ s.P ++ s.GP ++ s.F ++ fl) : e < 2 * s.cap :=
  (h.mem e).1 he

/-- the unused partition is untouched, ghosts stay ghosts and keep their contents -/
structure FrameG (s0 s : St) : Prop where
  U : s.U = s0.U
  gb : ∀ i ∈ s0.GB, i ∈ s.GB
  gp : ∀ i ∈ s0.GP, i ∈ s.GP
  ent_g : ∀ i ∈ s0.GB ++ s0.GP, s.ent i = s0.ent i

end Kdf.Lemmas.Cache
