import Kdf.Lemmas.ErrState
/-! The truncation branches of `vadd` (C16). -/
namespace Kdf.Lemmas.Err
open Kdf.Model.Err

/-- the local buffer of the truncation branch after `vsnprintf` and the `>` mark -/
def lbufOf (n : Nat) (msg : List Byte) : List Byte :=
  if msg.length ≥ n then
    ((msg.take (n - 1) ++ [0]) ++ List.replicate (n + 2 - (min msg.length (n - 1) + 1)) 0xEE).set (n - 2) 62
  else (msg.take (n - 1) ++ [0]) ++ List.replicate (n + 2 - (min msg.length (n - 1) + 1)) 0xEE

def mlenOf (n dlen : Nat) (msg : List Byte) : Nat :=
  if msg.length ≥ n then n - 1 + dlen else msg.length + dlen

def truncBytes (lbuf : List Byte) (mlen remain : Nat) : List Byte :=
  ((List.range remain).map fun i => lbuf[mlen - remain + i]?).map (·.getD 0xEE)

def truncBad (lbuf : List Byte) (mlen remain : Nat) : Bool :=
  ((List.range remain).map fun i => lbuf[mlen - remain + i]?).any (·.isNone) || decide (mlen < remain)

def vaddTruncB (e : ErrBuf) (inD : Bool) (pos remain dlen : Nat) (bytes : List Byte) (bad : Bool) : ErrBuf :=
  let e1 := wrAt e inD (pos - remain) bytes
  let e1 := { e1 with oob := e1.oob || bad }
  let e2 := wrAt e1 inD (pos - remain) [60]
  let r := min (remain - 1) dlen
  let e3 := if dlen ≠ 0 then wrAt e2 inD (pos - r) (delim.drop (2 - r)) else e2
  { e3 with str := if inD then .inDyn (pos - remain) else .inBuf (pos - remain) }

theorem vaddTrunc_eqB (e : ErrBuf) (inD : Bool) (pos remain dlen : Nat) (msg : List Byte) :
    vaddTrunc e inD pos remain dlen msg =
      vaddTruncB e inD pos remain dlen (truncBytes (lbufOf e.bufsz msg) (mlenOf e.bufsz dlen msg) remain)
        (truncBad (lbufOf e.bufsz msg) (mlenOf e.bufsz dlen msg) remain) := by
  by_cases hc : msg.length ≥ e.bufsz
  · simp only [vaddTrunc, lbufOf, mlenOf, hc, if_true]; rfl
  · simp only [vaddTrunc, lbufOf, mlenOf, hc, if_false]; rfl

theorem vaddTruncB0 (e : ErrBuf) (inD : Bool) (pos : Nat) (bytes : List Byte) :
    vaddTruncB e inD pos pos 0 bytes false =
      { wrAt (wrAt e inD 0 bytes) inD 0 [60] with str := if inD then .inDyn 0 else .inBuf 0 } := by
  simp only [vaddTruncB, Nat.sub_self, Bool.or_false, ne_eq, not_true_eq_false, ite_false]

theorem vaddTruncB2 (e : ErrBuf) (inD : Bool) (pos : Nat) (bytes : List Byte) :
    vaddTruncB e inD pos pos 2 bytes false =
      { wrAt (wrAt (wrAt e inD 0 bytes) inD 0 [60]) inD (pos - min (pos - 1) 2) (delim.drop (2 - min (pos - 1) 2))
        with str := if inD then .inDyn 0 else .inBuf 0 } := by
  have h20 : ((2 : Nat) = 0) = False := by decide
  simp only [vaddTruncB, Nat.sub_self, Bool.or_false, ne_eq, h20, not_false_eq_true, ite_true]

theorem lbufOf_len (n : Nat) (msg : List Byte) (hn : 2 ≤ n) : (lbufOf n msg).length = n + 2 := by
  unfold lbufOf
  split <;> simp <;> omega

theorem lbuf0_get (n : Nat) (msg : List Byte) (hm : MsgWF msg) (j : Nat) (hj : j < min msg.length (n - 1)) :
    ∃ b, ((msg.take (n - 1) ++ [0]) ++ List.replicate (n + 2 - (min msg.length (n - 1) + 1)) 0xEE)[j]? = some b ∧ b ≠ 0 := by
  have hjm : j < msg.length := by omega
  refine ⟨msg[j], ?_, hm.nz _ (List.getElem_mem hjm)⟩
  rw [List.append_assoc, List.getElem?_append_left (by simp; omega), List.getElem?_take]
  simp [show j < n - 1 by omega, hjm]

theorem lbufOf_nz (n : Nat) (msg : List Byte) (hm : MsgWF msg) (j : Nat)
    (hj : j < (if msg.length ≥ n then n - 1 else msg.length)) :
    ∃ b, (lbufOf n msg)[j]? = some b ∧ b ≠ 0 := by
  unfold lbufOf
  split at hj
  · rename_i hc
    rw [if_pos hc, List.getElem?_set]
    split
    · split
      · exact ⟨62, rfl, by decide⟩
      · rename_i h1 h2; simp at h2; omega
    · exact lbuf0_get n msg hm j (by omega)
  · rename_i hc
    rw [if_neg hc]
    exact lbuf0_get n msg hm j (by omega)

theorem truncBytes_len (lbuf : List Byte) (mlen remain : Nat) : (truncBytes lbuf mlen remain).length = remain := by
  simp [truncBytes]

theorem truncBad_false (lbuf : List Byte) (mlen remain : Nat) (h1 : remain ≤ mlen) (h2 : mlen ≤ lbuf.length) :
    truncBad lbuf mlen remain = false := by
  simp only [truncBad, Bool.or_eq_false_iff, decide_eq_false_iff_not, Nat.not_lt]
  refine ⟨?_, h1⟩
  rw [List.any_eq_false]
  intro x hx
  rcases List.mem_map.mp hx with ⟨i, hi, rfl⟩
  have : i < remain := List.mem_range.mp hi
  have hlt : mlen - remain + i < lbuf.length := by omega
  simp [List.getElem?_eq_getElem hlt]

theorem truncBytes_nz (lbuf : List Byte) (mlen remain k N : Nat)
    (hN : ∀ j, j < N → ∃ b, lbuf[j]? = some b ∧ b ≠ 0) (hk : 0 < k → mlen - remain + k < N) :
    ∀ b ∈ ((truncBytes lbuf mlen remain).drop 1).take k, b ≠ 0 := by
  intro b hb
  rcases List.mem_iff_getElem?.mp hb with ⟨i, hi⟩
  rw [List.getElem?_take] at hi
  split at hi
  · rename_i hik
    rw [List.getElem?_drop] at hi
    simp only [truncBytes, List.map_map, List.getElem?_map] at hi
    rcases hN (mlen - remain + (1 + i)) (by have := hk (by omega); omega) with ⟨b', hb', hne⟩
    by_cases hr : 1 + i < remain
    · simp [List.getElem?_range hr, hb'] at hi
      rw [← hi]; exact hne
    · simp [List.getElem?_eq_none (show (List.range remain).length ≤ 1 + i by simp; omega)] at hi
  · cases hi

/-- length of the message as stored in the local buffer -/
def capLen (n : Nat) (msg : List Byte) : Nat := if msg.length ≥ n then n - 1 else msg.length

theorem mlenOf_eq (n dlen : Nat) (msg : List Byte) : mlenOf n dlen msg = capLen n msg + dlen := by
  unfold mlenOf capLen; split <;> rfl

theorem capLen_le (n : Nat) (msg : List Byte) : capLen n msg ≤ n - 1 ∧ capLen n msg ≤ msg.length ∧
    (msg.length < n → capLen n msg = msg.length) ∧ (n ≤ msg.length → capLen n msg = n - 1) := by
  unfold capLen; split <;> omega

theorem vaddTrunc_spec {e : ErrBuf} {arr : List Byte} {pos dlen : Nat} {old msg : List Byte} (inD : Bool)
    (hb : Base e) (h : getArr e inD = some arr) (hs : Shape arr pos old) (hm : MsgWF msg)
    (hd : dlen = 0 ∨ dlen = 2) (hp : 1 ≤ pos) (hpn : pos ≤ e.bufsz - 1) (hnofit : pos < msg.length + dlen) :
    Inv (vaddTrunc e inD pos pos dlen msg) ∧
    (∃ X, text (vaddTrunc e inD pos pos dlen msg) = 60 :: X ++ old ∧ X.length + 1 = pos) ∧
    (inD = false → (vaddTrunc e inD pos pos dlen msg).dyn = e.dyn) := by
  have hlt := hs.lt
  have hn := hb.bufsz_ge
  obtain ⟨hc1, hc2, hc3, hc4⟩ := capLen_le e.bufsz msg
  have hml := mlenOf_eq e.bufsz dlen msg
  have hll := lbufOf_len e.bufsz msg hn
  have hbad : truncBad (lbufOf e.bufsz msg) (mlenOf e.bufsz dlen msg) pos = false :=
    truncBad_false _ _ _ (by omega) (by omega)
  have hbl := truncBytes_len (lbufOf e.bufsz msg) (mlenOf e.bufsz dlen msg) pos
  have hnzb : ∀ b ∈ ((truncBytes (lbufOf e.bufsz msg) (mlenOf e.bufsz dlen msg) pos).drop 1).take
      (pos - min (pos - 1) dlen - 1), b ≠ 0 :=
    truncBytes_nz _ _ _ _ (capLen e.bufsz msg) (fun j hj => lbufOf_nz e.bufsz msg hm j hj) (by omega)
  rw [vaddTrunc_eqB, hbad]
  generalize truncBytes (lbufOf e.bufsz msg) (mlenOf e.bufsz dlen msg) pos = bytes at hbl hnzb
  have hin1 : 0 + bytes.length ≤ arr.length := by omega
  have hin2 : 0 + [60].length ≤ (wr arr 0 bytes).1.length := by rw [wr_len _ _ _ hin1]; simp; omega
  rcases hd with rfl | rfl
  · rw [vaddTruncB0, wrAt_eq _ _ h hin1, wrAt_eq _ _ (getArr_setArr _ _ _) hin2, setArr_setArr]
    have hsh : Shape (wr (wr arr 0 bytes).1 0 [60]).1 0 (60 :: (bytes.drop 1).take (pos - 0 - 1) ++ [] ++ old) :=
      trunc_arr arr pos old bytes [] 0 hs hbl (by omega) rfl (by simp) (by simpa using hnzb)
    have hf := finish (o := 0) hb h (by rw [wr_len _ _ _ hin2, wr_len _ _ _ hin1]) (fun _ => by omega) hsh
    refine ⟨hf.1, ⟨(bytes.drop 1).take (pos - 1), ?_, ?_⟩, hf.2.2⟩
    · rw [hf.2.1]; simp
    · simp; omega
  · have hr : min (pos - 1) 2 ≤ 2 := by omega
    have hdl : (delim.drop (2 - min (pos - 1) 2)).length = min (pos - 1) 2 := by simp [delim]; omega
    have hin3 : pos - min (pos - 1) 2 + (delim.drop (2 - min (pos - 1) 2)).length ≤
        (wr (wr arr 0 bytes).1 0 [60]).1.length := by
      rw [wr_len _ _ _ hin2, wr_len _ _ _ hin1, hdl]; omega
    rw [vaddTruncB2, wrAt_eq _ _ h hin1, wrAt_eq _ _ (getArr_setArr _ _ _) hin2,
      wrAt_eq _ _ (getArr_setArr _ _ _) hin3, setArr_setArr, setArr_setArr]
    have hsh := trunc_arr arr pos old bytes (delim.drop (2 - min (pos - 1) 2)) (min (pos - 1) 2) hs hbl
      (by omega) hdl (fun b hb => nz_delim b (List.mem_of_mem_drop hb)) hnzb
    have hf := finish (o := 0) hb h (by rw [wr_len _ _ _ hin3, wr_len _ _ _ hin2, wr_len _ _ _ hin1])
      (fun _ => by omega) hsh
    refine ⟨hf.1, ⟨(bytes.drop 1).take (pos - min (pos - 1) 2 - 1) ++ delim.drop (2 - min (pos - 1) 2), ?_, ?_⟩, hf.2.2⟩
    · rw [hf.2.1]; simp
    · rw [List.length_append, hdl]; simp; omega

theorem vaddNoRoom_spec {e : ErrBuf} {arr : List Byte} {x : Byte} {xs : List Byte} (inD : Bool)
    (hb : Base e) (h : getArr e inD = some arr) (hs : Shape arr 0 (x :: xs)) :
    Inv (vaddNoRoom e inD 0) ∧ text (vaddNoRoom e inD 0) = 60 :: xs ∧
    (inD = false → (vaddNoRoom e inD 0).dyn = e.dyn) := by
  have hlt := hs.lt
  have hin : 0 + [60].length ≤ arr.length := by simp; omega
  simp only [vaddNoRoom]
  rw [wrAt_eq _ _ h hin]
  exact finish hb h (wr_len _ _ _ hin) (fun _ => by omega) (noroom_arr arr x xs hs)

end Kdf.Lemmas.Err
