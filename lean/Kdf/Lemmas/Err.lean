import Kdf.Model.Err
/-! Invariant and helper lemmas for the error-message buffer (C16). -/
namespace Kdf.Lemmas.Err
open Kdf.Model.Err

/-- a message is a C string: no NUL inside, bytes are bytes -/
def MsgWF (m : List Byte) : Prop := ∀ b ∈ m, b ≠ 0 ∧ b < 256

/-- well-formed buffer object: the inline buffer has `bufsz ≥ 2` bytes, the
string pointer is NULL or points at a NUL-terminated string that lies entirely
inside the inline buffer or inside the heap block (there at offset 0 or 1), and
no out-of-bounds access has happened -/
structure Inv (e : ErrBuf) : Prop where
  bufsz_ge : 2 ≤ e.bufsz
  buf_len : e.buf.length = e.bufsz
  no_oob : e.oob = false
  str_ok : match e.str with
    | .null => True
    | .inBuf o => o < e.bufsz ∧ ∃ n, o + n < e.bufsz ∧ e.buf[o + n]? = some 0 ∧ ∀ i, i < n → ∃ b, e.buf[o + i]? = some b ∧ b ≠ 0
    | .inDyn o => ∃ d, e.dyn = some d ∧ o ≤ 1 ∧ ∃ n, o + n < d.length ∧ d[o + n]? = some 0 ∧ ∀ i, i < n → ∃ b, d[o + i]? = some b ∧ b ≠ 0

/-- bytes still free in front of the current string (`remain` of the C code) -/
def room (e : ErrBuf) : Nat :=
  if text e = [] then e.bufsz - 1
  else match e.str with
    | .inBuf o => o
    | .inDyn o => o
    | .null => e.bufsz - 1

/-- the chain: new message, then ": " and the old text if there is one -/
def chain (msg old : List Byte) : List Byte := if old = [] then msg else msg ++ delim ++ old

/-- one API operation on the buffer -/
inductive Op
  | add (msg : List Byte) (allocOk : Bool)
  | clear
  deriving Repr

def Op.wf : Op → Prop
  | .add m _ => MsgWF m
  | .clear => True

def step (e : ErrBuf) : Op → ErrBuf
  | .add m a => vadd e m a
  | .clear => clear e

end Kdf.Lemmas.Err
