import Kdf.Model.Dump
/-! Helper lemmas and main facts about the model of `uncompress_rle` (C01). -/
namespace Kdf.Lemmas.DumpRle
open Kdf.Model.Dump

theorem go_total (src : List Nat) (dstlen : Nat) : ∀ fuel i remain out, remain + out.length = dstlen →
    rleGo src dstlen fuel i remain out ≠ .oobRead ∧ rleGo src dstlen fuel i remain out ≠ .oobWrite ∧
    ∀ o, rleGo src dstlen fuel i remain out = .ok o → o.length ≤ dstlen := by
  intro fuel
  induction fuel with
  | zero => intro i remain out h; simp [rleGo]
  | succ n ih =>
    intro i remain out h
    rw [rleGo]
    split
    · rename_i hi
      rw [List.getElem?_eq_getElem hi]
      simp only
      split
      · split
        · simp
        · rename_i h1
          have h1' : i+1 < src.length := by omega
          rw [List.getElem?_eq_getElem h1']
          simp only
          split
          · split
            · simp
            · split
              · simp
              · rename_i h2
                have h2' : i+2 < src.length := by omega
                rw [List.getElem?_eq_getElem h2']
                simp only
                split
                · omega
                · apply ih
                  simp [List.length_append, List.length_replicate]; omega
          · split
            · simp
            · split
              · omega
              · apply ih; simp [List.length_append]; omega
      · split
        · simp
        · split
          · omega
          · apply ih; simp [List.length_append]; omega
    · simp; omega

theorem lt_of_get {l : List Nat} {i a : Nat} (h : l[i]? = some a) : i < l.length := by
  rcases List.getElem?_eq_some_iff.mp h with ⟨h', _⟩; exact h'

theorem step_run (src : List Nat) (dstlen fuel i remain : Nat) (out : List Nat) (cnt v : Nat)
    (h0 : src[i]? = some 0) (h1 : src[i+1]? = some cnt) (hc : cnt ≠ 0) (h2 : src[i+2]? = some v)
    (hinv : remain + out.length = dstlen) :
    rleGo src dstlen (fuel+1) i remain out =
      if remain < cnt then .err
      else rleGo src dstlen fuel (i+3) (remain - cnt) (out ++ List.replicate cnt v) := by
  have l0 := lt_of_get h0; have l1 := lt_of_get h1; have l2 := lt_of_get h2
  rw [rleGo]
  simp only [l0, if_true, h0, h1, h2, hc, Nat.not_le.mpr l1, Nat.not_le.mpr l2, if_false,
    ne_eq, not_false_eq_true]
  split
  · rfl
  · rw [if_neg (by omega)]

theorem step_zero (src : List Nat) (dstlen fuel i remain : Nat) (out : List Nat)
    (h0 : src[i]? = some 0) (h1 : src[i+1]? = some 0)
    (hinv : remain + out.length = dstlen) :
    rleGo src dstlen (fuel+1) i remain out =
      if remain = 0 then .err
      else rleGo src dstlen fuel (i+2) (remain - 1) (out ++ [0]) := by
  have l0 := lt_of_get h0; have l1 := lt_of_get h1
  rw [rleGo]
  simp only [l0, if_true, h0, h1, Nat.not_le.mpr l1, ge_iff_le, if_false,
    ne_eq, not_true_eq_false]
  split
  · rfl
  · rw [if_neg (by omega)]

theorem step_lit (src : List Nat) (dstlen fuel i remain : Nat) (out : List Nat) (c : Nat)
    (h0 : src[i]? = some c) (hc : c ≠ 0)
    (hinv : remain + out.length = dstlen) :
    rleGo src dstlen (fuel+1) i remain out =
      if remain = 0 then .err
      else rleGo src dstlen fuel (i+1) (remain - 1) (out ++ [c]) := by
  have l0 := lt_of_get h0
  rw [rleGo]
  simp only [l0, if_true, h0, hc, if_false]
  split
  · rfl
  · rw [if_neg (by omega)]

theorem rleOp_cases (c rep : Nat) (h : 1 ≤ rep) :
    (rleOp c rep = [0, rep, c] ∧ 2 ≤ rep) ∨ (rleOp c rep = [c, c] ∧ c ≠ 0 ∧ rep = 2) ∨
    (rleOp c rep = [c] ∧ c ≠ 0 ∧ rep = 1) ∨ (rleOp c rep = [0, 0] ∧ c = 0 ∧ rep = 1) := by
  unfold rleOp
  by_cases hc : c = 0
  · subst hc
    by_cases h1 : rep = 1
    · subst h1; simp
    · have : min 3 (rep + 1) = 3 := by omega
      simp [this]; omega
  · simp only [hc, if_false]
    by_cases h1 : rep = 1
    · subst h1; simp [hc]
    · by_cases h2 : rep = 2
      · subst h2; simp [hc]
      · have : min 3 rep = 3 := by omega
        simp [this]; omega


theorem get0 (pre : List Nat) (a : Nat) (t : List Nat) : (pre ++ a :: t)[pre.length]? = some a := by
  simp
theorem get1 (pre : List Nat) (a b : Nat) (t : List Nat) :
    (pre ++ a :: b :: t)[pre.length + 1]? = some b := by
  rw [List.getElem?_append_right (by omega)]
  simp
theorem get2 (pre : List Nat) (a b c : Nat) (t : List Nat) :
    (pre ++ a :: b :: c :: t)[pre.length + 2]? = some c := by
  rw [List.getElem?_append_right (by omega)]
  simp

theorem go_end (src : List Nat) (dstlen f i remain : Nat) (out : List Nat) (h : src.length ≤ i) :
    rleGo src dstlen (f+1) i remain out = .ok out := by
  rw [rleGo, if_neg (by omega)]

theorem macro_step (pre rest : List Nat) (c rep dstlen remain : Nat) (out : List Nat)
    (hrep : 1 ≤ rep) (hinv : remain + out.length = dstlen) (fuel : Nat) :
    ∃ fuel', fuel ≤ fuel' ∧
      rleGo (pre ++ (rleOp c rep ++ rest)) dstlen (fuel + (rleOp c rep).length) pre.length remain out =
        if remain < rep then .err
        else rleGo (pre ++ (rleOp c rep ++ rest)) dstlen fuel' (pre.length + (rleOp c rep).length)
              (remain - rep) (out ++ List.replicate rep c) := by
  rcases rleOp_cases c rep hrep with ⟨h, h2⟩ | ⟨h, hc, h2⟩ | ⟨h, hc, h1⟩ | ⟨h, hc, h1⟩
  · rw [h]
    refine ⟨fuel + 2, by omega, ?_⟩
    have := step_run (pre ++ ([0, rep, c] ++ rest)) dstlen (fuel + 2) pre.length remain out rep c
      (get0 _ _ _) (get1 _ _ _ _) (by omega) (get2 _ _ _ _ _) hinv
    simpa using this
  · rw [h]; subst h2
    refine ⟨fuel, by omega, ?_⟩
    have s1 := step_lit (pre ++ ([c, c] ++ rest)) dstlen (fuel + 1) pre.length remain out c
      (get0 _ _ _) hc hinv
    simp only [List.length_cons, List.length_nil]
    rw [s1]
    by_cases hr : remain = 0
    · simp [hr]
    · rw [if_neg hr]
      have s2 := step_lit (pre ++ ([c, c] ++ rest)) dstlen fuel (pre.length + 1) (remain - 1)
        (out ++ [c]) c (get1 _ _ _ _) hc (by simp [List.length_append]; omega)
      rw [s2]
      by_cases hr1 : remain - 1 = 0
      · rw [if_pos hr1, if_pos (by omega)]
      · rw [if_neg hr1, if_neg (by omega)]
        have : remain - 1 - 1 = remain - 2 := by omega
        rw [this]
        simp [List.replicate]
  · rw [h]; subst h1
    refine ⟨fuel, by omega, ?_⟩
    have s1 := step_lit (pre ++ ([c] ++ rest)) dstlen fuel pre.length remain out c
      (get0 _ _ _) hc hinv
    simp only [List.length_cons, List.length_nil]
    rw [s1]
    by_cases hr : remain = 0
    · simp [hr]
    · rw [if_neg hr, if_neg (by omega)]
      simp [List.replicate]
  · rw [h]; subst h1; subst hc
    refine ⟨fuel + 1, by omega, ?_⟩
    have s1 := step_zero (pre ++ ([0, 0] ++ rest)) dstlen (fuel + 1) pre.length remain out
      (get0 _ _ _) (get1 _ _ _ _) hinv
    simp only [List.length_cons, List.length_nil]
    rw [s1]
    by_cases hr : remain = 0
    · simp [hr]
    · rw [if_neg hr, if_neg (by omega)]
      simp [List.replicate]

theorem rleOp_length_pos (c rep : Nat) (h : 1 ≤ rep) : 1 ≤ (rleOp c rep).length := by
  rcases rleOp_cases c rep h with ⟨h, _⟩ | ⟨h, _⟩ | ⟨h, _⟩ | ⟨h, _⟩ <;> simp [h]

theorem enc_decode (dstlen : Nat) : ∀ (xs : List Nat) (prev rep : Nat) (pre out : List Nat)
    (remain fuel : Nat), 1 ≤ rep → remain + out.length = dstlen →
    (rleEncGo xs prev rep).length < fuel →
    rleGo (pre ++ rleEncGo xs prev rep) dstlen fuel pre.length remain out =
      if remain < rep + xs.length then .err else .ok (out ++ List.replicate rep prev ++ xs) := by
  intro xs
  induction xs with
  | nil =>
    intro prev rep pre out remain fuel hrep hinv hfuel
    simp only [rleEncGo] at hfuel ⊢
    obtain ⟨fuel', hf', hstep⟩ := macro_step pre [] prev rep dstlen remain out hrep hinv
      (fuel - (rleOp prev rep).length)
    have e : fuel - (rleOp prev rep).length + (rleOp prev rep).length = fuel := by omega
    rw [e] at hstep
    simp only [List.append_nil] at hstep
    rw [hstep]
    by_cases hr : remain < rep
    · simp [hr]
    · rw [if_neg hr, if_neg (by simpa using hr)]
      obtain ⟨f, rfl⟩ : ∃ f, fuel' = f + 1 := ⟨fuel' - 1, by omega⟩
      rw [go_end _ _ _ _ _ _ (by simp [List.length_append])]
      simp
  | cons cur rest ih =>
    intro prev rep pre out remain fuel hrep hinv hfuel
    rw [rleEncGo] at hfuel ⊢
    split at hfuel
    · rename_i hcond
      rw [if_pos hcond]
      rw [List.length_append] at hfuel
      obtain ⟨fuel', hf', hstep⟩ := macro_step pre (rleEncGo rest cur 1) prev rep dstlen remain out
        hrep hinv (fuel - (rleOp prev rep).length)
      have e : fuel - (rleOp prev rep).length + (rleOp prev rep).length = fuel := by omega
      rw [e] at hstep
      rw [hstep]
      by_cases hr : remain < rep
      · rw [if_pos hr, if_pos (by omega)]
      · rw [if_neg hr]
        have e2 : pre.length + (rleOp prev rep).length = (pre ++ rleOp prev rep).length := by
          simp [List.length_append]
        rw [e2, ← List.append_assoc]
        rw [ih cur 1 (pre ++ rleOp prev rep) (out ++ List.replicate rep prev) (remain - rep) fuel'
          (by omega) (by simp [List.length_append, List.length_replicate]; omega) (by omega)]
        simp only [List.length_cons]
        by_cases hr2 : remain - rep < 1 + rest.length
        · rw [if_pos hr2, if_pos (by omega)]
        · rw [if_neg hr2, if_neg (by omega)]
          simp [List.replicate]
    · rename_i hcond
      rw [if_neg hcond]
      have hcp : cur = prev := by
        apply Classical.byContradiction; intro hne; exact hcond (Or.inl hne)
      rw [ih prev (rep + 1) pre out remain fuel (by omega) hinv hfuel]
      simp only [List.length_cons]
      by_cases hr : remain < rep + 1 + rest.length
      · rw [if_pos hr, if_pos (by omega)]
      · rw [if_neg hr, if_neg (by omega)]
        subst hcp
        simp [List.replicate_succ', List.append_assoc]

theorem enc_uncompress (x : List Nat) (dstlen : Nat) :
    uncompressRle (rleEncode x) dstlen = if dstlen < x.length then .err else .ok x := by
  cases x with
  | nil => simp [rleEncode, uncompressRle, rleGo]
  | cons b rest =>
    unfold uncompressRle
    simp only [rleEncode]
    have := enc_decode dstlen rest b 1 [] [] dstlen ((rleEncGo rest b 1).length + 1)
      (by omega) (by simp) (by omega)
    simp only [List.nil_append, List.length_nil] at this
    rw [this]
    simp only [List.length_cons]
    by_cases h : dstlen < 1 + rest.length
    · rw [if_pos h, if_pos (by omega)]
    · rw [if_neg h, if_neg (by omega)]
      simp [List.replicate]

/-- The decoder never reads past `src`, never writes past `dst`, and a
successful result has at most `dstlen` bytes — for every input. -/
theorem rle_total (src : List Nat) (dstlen : Nat) :
    uncompressRle src dstlen ≠ .oobRead ∧ uncompressRle src dstlen ≠ .oobWrite ∧
    ∀ out, uncompressRle src dstlen = .ok out → out.length ≤ dstlen := by
  unfold uncompressRle
  exact go_total src dstlen (src.length + 1) 0 dstlen [] (by simp)

/-- Decoding what the LKCD encoder produced gives the input back, for every
input and every destination that is large enough. -/
theorem rle_roundtrip (x : List Nat) (dstlen : Nat) (h : x.length ≤ dstlen) :
    uncompressRle (rleEncode x) dstlen = .ok x := by
  rw [enc_uncompress, if_neg (by omega)]

/-- A destination that is too small is an error (−1), not a truncated page. -/
theorem rle_short_dst (x : List Nat) (dstlen : Nat) (h : dstlen < x.length) :
    uncompressRle (rleEncode x) dstlen = .err := by
  rw [enc_uncompress, if_pos h]

end Kdf.Lemmas.DumpRle
