import Kdf.Lemmas.Res
/-! Per-function ledger lemmas for C15 (see `Kdf.Model.Res`). -/
namespace Kdf.Lemmas.Res
open Kdf.Model.Res

/-- permutation goals between explicit list expressions -/
macro "perm_tac" : tactic =>
  `(tactic| (rw [List.perm_iff_count]; intro r;
             simp only [List.count_append, List.count_cons, List.count_nil, List.append_assoc, List.cons_append,
                        List.nil_append, List.map_cons, List.map_nil];
             omega))

def pinOf (f : Fce) : Res := .pin f.c f.key
def pinsOf (held : List Fce) : List Res := held.map pinOf

def gainFce : R Fce → List Res
  | .ok f => [pinOf f]
  | _ => []

def gainFceP : R (Fce × Policy) → List Res
  | .ok (f, _) => [pinOf f]
  | _ => []

theorem fcacheGetMmap_runs (cfg : Cfg) (fidx pos : Nat) (orc : List Ext) (L : List Res) :
    Runs (fcacheGetMmap cfg fidx pos orc).evs L (gainFce (fcacheGetMmap cfg fidx pos orc).res ++ L) := by
  unfold fcacheGetMmap
  split
  · exact Runs.nil L
  · split <;> simp only [gainFce, stuckOut, pinOf, List.nil_append, List.cons_append]
    · exact Runs.neutral (by simp [Neutral]) L
    · exact Runs.acq _ _ L
    · exact ⟨L, by simp [runEvs, applyEv], List.Perm.refl _⟩
    · exact ⟨_, by simp [runEvs, applyEv], List.Perm.refl _⟩
    · exact ⟨L, by simp [runEvs, applyEv], List.Perm.refl _⟩
    · exact Runs.nil L

theorem fcacheGetRead_runs (cfg : Cfg) (fidx pos : Nat) (orc : List Ext) (L : List Res) :
    Runs (fcacheGetRead cfg fidx pos orc).evs L (gainFce (fcacheGetRead cfg fidx pos orc).res ++ L) := by
  unfold fcacheGetRead
  simp only
  split
  · simp only [gainFce, List.nil_append]
    exact Runs.nil L
  split <;> simp only [gainFce, stuckOut, pinOf, List.nil_append, List.cons_append]
  · exact Runs.neutral (by simp [Neutral]) L
  · exact Runs.acq _ _ L
  · exact ⟨_, by simp [runEvs, applyEv], List.Perm.refl _⟩
  · exact ⟨L, by simp [runEvs, applyEv], List.Perm.refl _⟩
  · exact Runs.nil L


theorem fcacheGet_runs (cfg : Cfg) (pol : Policy) (fidx pos : Nat) (orc : List Ext) (L : List Res) :
    Runs (fcacheGet cfg pol fidx pos orc).evs L (gainFceP (fcacheGet cfg pol fidx pos orc).res ++ L) := by
  have hm := fcacheGetMmap_runs cfg fidx pos orc L
  unfold fcacheGet
  cases pol with
  | never =>
    simp only
    have h := fcacheGetRead_runs cfg fidx pos orc L
    rcases hout : fcacheGetRead cfg fidx pos orc with ⟨res, e, o⟩
    rw [hout] at h
    cases res <;> simp only [gainFceP, gainFce, stuckOut, List.nil_append] at h ⊢
    · exact h
    · exact h
    · exact Runs.nil L
  | always =>
    simp only
    rcases hout : fcacheGetMmap cfg fidx pos orc with ⟨res, e, o⟩
    rw [hout] at hm
    cases res <;> simp only [gainFceP, gainFce, stuckOut, List.nil_append, if_true] at hm ⊢
    · exact hm
    · exact hm
    · exact Runs.nil L
  | try_ =>
    simp only
    rcases hout : fcacheGetMmap cfg fidx pos orc with ⟨res, e, o⟩
    rw [hout] at hm
    cases res <;> simp only [gainFceP, gainFce, stuckOut, List.nil_append] at hm ⊢
    · exact hm
    · have h := fcacheGetRead_runs cfg fidx pos o L
      rcases hout2 : fcacheGetRead cfg fidx pos o with ⟨res2, e2, o2⟩
      rw [hout2] at h
      simp only [reduceCtorEq, if_false]
      cases res2 <;> simp only [gainFceP, gainFce, stuckOut, List.nil_append] at h ⊢
      · exact Runs.append hm h
      · exact Runs.append hm h
      · exact Runs.nil L
    · exact Runs.nil L
  | tryOnce =>
    simp only
    rcases hout : fcacheGetMmap cfg fidx pos orc with ⟨res, e, o⟩
    rw [hout] at hm
    cases res <;> simp only [gainFceP, gainFce, stuckOut, List.nil_append] at hm ⊢
    · exact hm
    · have h := fcacheGetRead_runs cfg fidx pos o L
      rcases hout2 : fcacheGetRead cfg fidx pos o with ⟨res2, e2, o2⟩
      rw [hout2] at h
      simp only [reduceCtorEq, if_false]
      cases res2 <;> simp only [gainFceP, gainFce, stuckOut, List.nil_append] at h ⊢
      · exact Runs.append hm h
      · exact Runs.append hm h
      · exact Runs.nil L
    · exact Runs.nil L


theorem fcachePread_runs (cfg : Cfg) (fuel : Nat) (pol : Policy) (len fidx pos : Nat) (orc : List Ext) (L : List Res) :
    Runs (fcachePread cfg fuel pol len fidx pos orc).evs L L := by
  induction fuel generalizing pol len pos orc with
  | zero =>
    unfold fcachePread
    split <;> exact Runs.nil L
  | succ n ih =>
    unfold fcachePread
    split
    · exact Runs.nil L
    · have hg := fcacheGet_runs cfg pol fidx pos orc L
      rcases hout : fcacheGet cfg pol fidx pos orc with ⟨res, e, o⟩
      rw [hout] at hg
      cases res with
      | stuck => exact Runs.nil L
      | err st => simpa [gainFceP] using hg
      | ok fp =>
        obtain ⟨f, pol'⟩ := fp
        simp only [gainFceP, pinOf, List.cons_append, List.nil_append] at hg
        simp only
        have h2 := ih pol' (len - if f.len < len then f.len else len) (pos + if f.len < len then f.len else len) o
        rcases hout2 : fcachePread cfg n pol' (len - if f.len < len then f.len else len) fidx
            (pos + if f.len < len then f.len else len) o with ⟨res2, e2, o2⟩
        rw [hout2] at h2
        simp only at h2
        cases res2 with
        | stuck => exact Runs.nil L
        | err st =>
          exact Runs.append (Runs.append hg (Runs.put (List.Perm.refl _))) h2
        | ok p =>
          exact Runs.append (Runs.append hg (Runs.put (List.Perm.refl _))) h2


/-! ### fcache_get_chunk -/

def arrRes (a : Option Nat) : List Res :=
  match a with
  | some sz => [.mem .fces sz]
  | none => []

def dataRes (d : Option Nat) : List Res :=
  match d with
  | some sz => [.mem .data sz]
  | none => []

def stRes (s : ChunkSt) : List Res := dataRes s.data ++ pinsOf s.held ++ arrRes s.arr

theorem chunkRes_eq (c : Chunk) : chunkRes c = dataRes c.data ++ pinsOf c.fces ++ arrRes c.arr := by
  unfold chunkRes dataRes arrRes pinsOf pinOf
  rfl

def gainChunk : R ChunkRes → List Res
  | .ok (.chunk c _) => chunkRes c
  | _ => []

/-- loop invariant of `fcache_get_chunk` -/
def Inv (s : ChunkSt) : Prop :=
  (∀ sz, s.data = some sz → s.held = [] ∧ s.arr = none) ∧ (s.data = none → s.nent = s.held.length)

/-- a chunk `fcache_put_chunk` can take apart -/
def WF (cfg : Cfg) (c : Chunk) : Prop :=
  (∀ sz, c.data = some sz → c.nent = 0 ∧ c.fces = [] ∧ c.arr = none) ∧
  (c.data = none → c.nent = c.fces.length ∧ (∀ sz, c.arr = some sz → c.nent > cfg.embed))

theorem putFces_runs (held : List Fce) (L : List Res) : Runs (putFces held) (pinsOf held ++ L) L := by
  induction held with
  | nil => exact Runs.nil L
  | cons f t ih =>
    have : putFces (f :: t) = [Ev.put f.c f.key] ++ putFces t := rfl
    rw [this]
    exact Runs.append (Runs.put (by simp [pinsOf, pinOf])) ih

theorem freeArr_runs (a : Option Nat) (L : List Res) : Runs (freeArr a) (arrRes a ++ L) L := by
  cases a with
  | none => exact Runs.nil L
  | some sz => exact Runs.free (by simp [arrRes])

theorem freeData_runs (a : Option Nat) (L : List Res) : Runs (freeData a) (dataRes a ++ L) L := by
  cases a with
  | none => exact Runs.nil L
  | some sz => exact Runs.free (by simp [dataRes])

theorem chunkFinish_runs (cfg : Cfg) (s : ChunkSt) (L : List Res) (hinv : Inv s) :
    Runs (chunkFinish cfg s).2 (stRes s ++ L) (chunkRes (chunkFinish cfg s).1 ++ L) ∧ WF cfg (chunkFinish cfg s).1 := by
  unfold chunkFinish
  cases hd : s.data with
  | some sz =>
    obtain ⟨hh, ha⟩ := hinv.1 sz hd
    simp only [chunkRes_eq, stRes, hd, hh, ha]
    refine ⟨Runs.nil _, ?_, ?_⟩
    · intro sz' _; exact ⟨rfl, rfl, rfl⟩
    · intro h; cases h
  | none =>
    have hn := hinv.2 hd
    simp only
    split
    · rename_i hgt
      simp only [chunkRes_eq, stRes, hd]
      refine ⟨Runs.nil _, ?_, ?_⟩
      · intro sz h; cases h
      · intro _; exact ⟨hn, fun _ _ => hgt⟩
    · simp only [chunkRes_eq, stRes, hd, dataRes, arrRes, List.nil_append, List.append_nil, List.append_assoc]
      refine ⟨?_, ?_, ?_⟩
      · have := Runs.frame (Runs.nil (pinsOf s.held)) (arrRes s.arr ++ L)
        have h2 : Runs (freeArr s.arr) (pinsOf s.held ++ (arrRes s.arr ++ L)) (pinsOf s.held ++ L) := by
          have h3 := (freeArr_runs s.arr L).frame (pinsOf s.held)
          exact (h3.perm_left (by perm_tac)).perm_right (by perm_tac)
        simpa [arrRes] using h2
      · intro sz h; cases h
      · intro _; exact ⟨hn, fun sz h => by cases h⟩


theorem inv_stepKeep {s : ChunkSt} (f : Fce) (p : Policy) (hinv : Inv s) (hd : s.data = none) : Inv (stepKeep s f p) := by
  refine ⟨?_, ?_⟩
  · intro sz h; simp [stepKeep, hd] at h
  · intro _; simp [stepKeep, hinv.2 hd]

theorem inv_stepCopy {s : ChunkSt} (f : Fce) (p : Policy) (sz : Nat) (hinv : Inv s) (hd : s.data = some sz) :
    Inv (stepCopy s f p) := by
  refine ⟨?_, ?_⟩
  · intro sz' h
    have h' : s.data = some sz' := by simpa [stepCopy] using h
    simpa [stepCopy] using hinv.1 sz' h'
  · intro h; simp [stepCopy, hd] at h

theorem inv_stepSwitch (s : ChunkSt) (f : Fce) (p : Policy) (len : Nat) : Inv (stepSwitch s f p len) := by
  refine ⟨?_, ?_⟩
  · intro sz _; simp [stepSwitch]
  · intro h; simp [stepSwitch] at h

theorem chunkLoop_runs (cfg : Cfg) (len fidx fuel : Nat) (s : ChunkSt) (orc : List Ext) (L : List Res)
    (hinv : Inv s) (hns : ∀ e o, chunkLoop cfg len fidx fuel s orc ≠ ⟨.stuck, e, o⟩) :
    Runs (chunkLoop cfg len fidx fuel s orc).evs (stRes s ++ L) (gainChunk (chunkLoop cfg len fidx fuel s orc).res ++ L)
    ∧ ∀ c p, (chunkLoop cfg len fidx fuel s orc).res = .ok (.chunk c p) → WF cfg c := by
  induction fuel generalizing s orc with
  | zero =>
    unfold chunkLoop at hns ⊢
    split
    · have := chunkFinish_runs cfg s L hinv
      refine ⟨by simpa [gainChunk] using this.1, ?_⟩
      intro c p h; simp only [R.ok.injEq, ChunkRes.chunk.injEq] at h; rw [← h.1]; exact this.2
    · rename_i h; simp only [h, if_false, stuckOut] at hns; exact absurd rfl (hns _ _)
  | succ n ih =>
    unfold chunkLoop at hns ⊢
    split
    · have := chunkFinish_runs cfg s L hinv
      refine ⟨by simpa [gainChunk] using this.1, ?_⟩
      intro c p h; simp only [R.ok.injEq, ChunkRes.chunk.injEq] at h; rw [← h.1]; exact this.2
    · rename_i hrem
      simp only [hrem, if_false] at hns
      split
      · rename_i hoob; simp only [hoob, if_true, stuckOut] at hns; exact absurd rfl (hns _ _)
      · rename_i hoob
        simp only [hoob, if_false] at hns
        have hg := fcacheGet_runs cfg s.pol fidx s.pos orc (stRes s ++ L)
        rcases hout : fcacheGet cfg s.pol fidx s.pos orc with ⟨res, e, o⟩
        rw [hout] at hg hns
        cases res with
        | stuck => simp only [stuckOut] at hns; exact absurd rfl (hns _ _)
        | err st =>
          simp only [gainFceP, List.nil_append] at hg
          simp only [gainChunk, List.nil_append]
          refine ⟨?_, by intro c p h; cases h⟩
          cases hd : s.data with
          | some sz =>
            obtain ⟨hh, ha⟩ := hinv.1 sz hd
            simp only
            refine Runs.append hg (Runs.free ?_)
            simp [stRes, hd, hh, ha, dataRes, pinsOf, arrRes]
          | none =>
            simp only
            refine Runs.append hg ?_
            have h1 := putFces_runs s.held (arrRes s.arr ++ L)
            have h2 := freeArr_runs s.arr L
            have := Runs.append h1 h2
            simpa [stRes, hd, dataRes] using this
        | ok fp =>
          obtain ⟨f0, pol'⟩ := fp
          simp only [gainFceP, List.cons_append, List.nil_append] at hg
          simp only at hns ⊢
          cases hd : s.data with
          | some sz =>
            obtain ⟨hh, ha⟩ := hinv.1 sz hd
            simp only [hd] at hns ⊢
            have hinv' := inv_stepCopy (clampFce f0 s.remain) pol' sz hinv hd
            rcases hout2 : chunkLoop cfg len fidx n (stepCopy s (clampFce f0 s.remain) pol') o with ⟨res2, e2, o2⟩
            rw [hout2] at hns
            have hrec := ih (stepCopy s (clampFce f0 s.remain) pol') o hinv'
            rw [hout2] at hrec
            cases res2 with
            | stuck => simp only [stuckOut] at hns; exact absurd rfl (hns _ _)
            | err st =>
              have hr := hrec (by intro e o h; cases h)
              simp only [gainChunk, List.nil_append] at hr ⊢
              refine ⟨?_, by intro c p h; cases h⟩
              have hput : Runs [Ev.put (clampFce f0 s.remain).c (clampFce f0 s.remain).key] (pinOf f0 :: (stRes s ++ L)) (stRes s ++ L) :=
                Runs.put (by simp [pinOf, clampFce])
              have hst : stRes (stepCopy s (clampFce f0 s.remain) pol') = stRes s := by simp [stRes, stepCopy]
              rw [hst] at hr
              exact Runs.append (Runs.append hg hput) hr.1
            | ok cr =>
              have hr := hrec (by intro e o h; cases h)
              have hput : Runs [Ev.put (clampFce f0 s.remain).c (clampFce f0 s.remain).key] (pinOf f0 :: (stRes s ++ L)) (stRes s ++ L) :=
                Runs.put (by simp [pinOf, clampFce])
              have hst : stRes (stepCopy s (clampFce f0 s.remain) pol') = stRes s := by simp [stRes, stepCopy]
              rw [hst] at hr
              exact ⟨Runs.append (Runs.append hg hput) hr.1, hr.2⟩
          | none =>
            simp only [hd] at hns ⊢
            split
            · -- keep
              rename_i hkeep
              simp only [hkeep, if_true] at hns
              have hinv' := inv_stepKeep (clampFce f0 s.remain) pol' hinv hd
              rcases hout2 : chunkLoop cfg len fidx n (stepKeep s (clampFce f0 s.remain) pol') o with ⟨res2, e2, o2⟩
              rw [hout2] at hns
              have hrec := ih (stepKeep s (clampFce f0 s.remain) pol') o hinv'
              rw [hout2] at hrec
              have hst : stRes (stepKeep s (clampFce f0 s.remain) pol') ++ L = pinOf f0 :: (stRes s ++ L) := by
                simp [stRes, stepKeep, hd, dataRes, pinsOf, pinOf, clampFce]
              cases res2 with
              | stuck => simp only [stuckOut] at hns; exact absurd rfl (hns _ _)
              | err st =>
                have hr := hrec (by intro e o h; cases h)
                rw [hst] at hr
                exact ⟨Runs.append hg hr.1, hr.2⟩
              | ok cr =>
                have hr := hrec (by intro e o h; cases h)
                rw [hst] at hr
                exact ⟨Runs.append hg hr.1, hr.2⟩
            · -- switch to a copied buffer
              rename_i hkeep
              simp only [hkeep, if_false] at hns
              split
              · -- malloc fails
                rename_i o'
                simp only [gainChunk, List.nil_append]
                refine ⟨?_, by intro c p h; cases h⟩
                have h1 := putFces_runs (clampFce f0 s.remain :: s.held) (arrRes s.arr ++ L)
                have h2 := freeArr_runs s.arr L
                have h3 : Runs [Ev.malloc MemTag.data len false] (pinOf f0 :: (stRes s ++ L)) (pinOf f0 :: (stRes s ++ L)) :=
                  Runs.neutral (by simp [Neutral]) _
                have h4 := Runs.append h1 h2
                have h5 : pinsOf (clampFce f0 s.remain :: s.held) ++ (arrRes s.arr ++ L) = pinOf f0 :: (stRes s ++ L) := by
                  simp [stRes, hd, dataRes, pinsOf, pinOf, clampFce]
                rw [h5] at h4
                have := Runs.append (Runs.append hg h3) h4
                simpa [List.append_assoc] using this
              · -- malloc succeeds
                rename_i o' 
                simp only at hns
                have hinv' := inv_stepSwitch s (clampFce f0 s.remain) pol' len
                rcases hout2 : chunkLoop cfg len fidx n (stepSwitch s (clampFce f0 s.remain) pol' len) o' with ⟨res2, e2, o2⟩
                rw [hout2] at hns
                have hrec := ih (stepSwitch s (clampFce f0 s.remain) pol' len) o' hinv'
                rw [hout2] at hrec
                have hst : stRes (stepSwitch s (clampFce f0 s.remain) pol' len) ++ L = Res.mem .data len :: L := by
                  simp [stRes, stepSwitch, dataRes, pinsOf, arrRes]
                -- the events of the switch itself
                have hm : Runs [Ev.malloc MemTag.data len true] (pinOf f0 :: (stRes s ++ L)) (Res.mem .data len :: pinOf f0 :: (stRes s ++ L)) :=
                  Runs.malloc _ _ _
                have hp : Runs (putFces s.held) (Res.mem .data len :: pinOf f0 :: (stRes s ++ L))
                    (Res.mem .data len :: pinOf f0 :: (arrRes s.arr ++ L)) := by
                  have := (putFces_runs s.held (arrRes s.arr ++ L)).frame [Res.mem .data len, pinOf f0]
                  refine (this.perm_left ?_).perm_right ?_
                  · simp only [stRes, hd, dataRes]; perm_tac
                  · perm_tac
                have hf : Runs (freeArr s.arr) (Res.mem .data len :: pinOf f0 :: (arrRes s.arr ++ L))
                    (Res.mem .data len :: pinOf f0 :: L) := by
                  have := (freeArr_runs s.arr L).frame [Res.mem .data len, pinOf f0]
                  refine (this.perm_left ?_).perm_right ?_
                  · perm_tac
                  · perm_tac
                have hq : Runs [Ev.put (clampFce f0 s.remain).c (clampFce f0 s.remain).key] (Res.mem .data len :: pinOf f0 :: L) (Res.mem .data len :: L) :=
                  Runs.put (by simp only [pinOf, clampFce]; perm_tac)
                have hall := Runs.append (Runs.append (Runs.append (Runs.append hg hm) hp) hf) hq
                cases res2 with
                | stuck => simp only [stuckOut] at hns; exact absurd rfl (hns _ _)
                | err st =>
                  have hr := hrec (by intro e o h; cases h)
                  rw [hst] at hr
                  refine ⟨?_, hr.2⟩
                  have := Runs.append hall hr.1
                  simpa [List.append_assoc] using this
                | ok cr =>
                  have hr := hrec (by intro e o h; cases h)
                  rw [hst] at hr
                  refine ⟨?_, hr.2⟩
                  have := Runs.append hall hr.1
                  simpa [List.append_assoc] using this
              · -- oracle does not fit
                rename_i hx1 hx2
                simp only [stuckOut] at hns
                exact absurd rfl (hns _ _)


theorem chunkLoop_stuck_evs (cfg : Cfg) (len fidx fuel : Nat) (s : ChunkSt) (orc : List Ext)
    (h : (chunkLoop cfg len fidx fuel s orc).res = .stuck) : (chunkLoop cfg len fidx fuel s orc).evs = [] := by
  cases fuel with
  | zero =>
    unfold chunkLoop at h ⊢
    split
    · rename_i hr; simp [hr] at h
    · rfl
  | succ n =>
    unfold chunkLoop at h ⊢
    split
    · rename_i hr; simp [hr] at h
    · rename_i hr
      simp only [hr, if_false] at h
      split
      · rfl
      · rename_i hoob
        simp only [hoob, if_false] at h
        rcases hout : fcacheGet cfg s.pol fidx s.pos orc with ⟨res, e, o⟩
        rw [hout] at h
        cases res with
        | stuck => rfl
        | err st => simp at h
        | ok fp =>
          obtain ⟨f0, pol'⟩ := fp
          simp only at h ⊢
          cases hd : s.data with
          | some sz =>
            simp only [hd] at h ⊢
            rcases hout2 : chunkLoop cfg len fidx n (stepCopy s (clampFce f0 s.remain) pol') o with ⟨res2, e2, o2⟩
            rw [hout2] at h
            cases res2 with
            | stuck => rfl
            | err st => simp at h
            | ok c => simp at h
          | none =>
            simp only [hd] at h ⊢
            split
            · rename_i hk
              simp only [hk, if_true] at h
              rcases hout2 : chunkLoop cfg len fidx n (stepKeep s (clampFce f0 s.remain) pol') o with ⟨res2, e2, o2⟩
              rw [hout2] at h
              cases res2 with
              | stuck => rfl
              | err st => simp at h
              | ok c => simp at h
            · rename_i hk
              simp only [hk, if_false] at h
              split
              · simp at h
              · rename_i o'
                simp only at h
                rcases hout2 : chunkLoop cfg len fidx n (stepSwitch s (clampFce f0 s.remain) pol' len) o' with ⟨res2, e2, o2⟩
                rw [hout2] at h
                cases res2 with
                | stuck => rfl
                | err st => simp at h
                | ok c => simp at h
              · rfl

theorem fcacheGetChunk_runs (cfg : Cfg) (pol : Policy) (len fidx pos : Nat) (orc : List Ext) (L : List Res) :
    Runs (fcacheGetChunk cfg pol len fidx pos orc).evs L (gainChunk (fcacheGetChunk cfg pol len fidx pos orc).res ++ L)
    ∧ ∀ c p, (fcacheGetChunk cfg pol len fidx pos orc).res = .ok (.chunk c p) → WF cfg c := by
  unfold fcacheGetChunk
  split
  · refine ⟨by simpa [gainChunk, chunkRes] using Runs.nil L, ?_⟩
    intro c p h
    simp only [R.ok.injEq, ChunkRes.chunk.injEq] at h
    rw [← h.1]
    exact ⟨(by intro sz h; simp at h), (by intro _; exact ⟨rfl, (by intro sz h; simp at h)⟩)⟩
  · simp only
    split
    · -- the entry array is allocated
      split
      · exact ⟨by simpa [gainChunk] using Runs.neutral (by simp [Neutral]) L, by intro c p h; cases h⟩
      · rename_i o
        generalize hs : (⟨pol, (pos + len - 1 - (pos + len - 1) % cfg.pgsz - (pos - pos % cfg.pgsz)) / cfg.pgsz + 1,
            some (((pos + len - 1 - (pos + len - 1) % cfg.pgsz - (pos - pos % cfg.pgsz)) / cfg.pgsz + 1) * cfg.fceSize),
            [], none, 0, len, pos, 0⟩ : ChunkSt) = s0
        have hinv : Inv s0 := by
          subst hs
          exact ⟨(by intro sz h; simp at h), (by intro _; rfl)⟩
        have hst : stRes s0 ++ L = Res.mem .fces (((pos + len - 1 - (pos + len - 1) % cfg.pgsz - (pos - pos % cfg.pgsz)) / cfg.pgsz + 1) * cfg.fceSize) :: L := by
          subst hs; simp [stRes, dataRes, pinsOf, arrRes]
        have hrec := chunkLoop_runs cfg len fidx len s0 o L hinv
        rcases hout : chunkLoop cfg len fidx len s0 o with ⟨res, e, o2⟩
        rw [hout] at hrec
        cases res with
        | stuck => exact ⟨Runs.nil L, by intro c p h; cases h⟩
        | err st =>
          have hr := hrec (by intro e o h; cases h)
          rw [hst] at hr
          exact ⟨Runs.cons (Runs.malloc _ _ L) hr.1, hr.2⟩
        | ok cr =>
          have hr := hrec (by intro e o h; cases h)
          rw [hst] at hr
          exact ⟨Runs.cons (Runs.malloc _ _ L) hr.1, hr.2⟩
      · exact ⟨Runs.nil L, by intro c p h; cases h⟩
    · generalize hs : (⟨pol, cfg.embed, none, [], none, 0, len, pos, 0⟩ : ChunkSt) = s0
      have hinv : Inv s0 := by
        subst hs
        exact ⟨(by intro sz h; simp at h), (by intro _; rfl)⟩
      have hst : stRes s0 ++ L = L := by
        subst hs; simp [stRes, dataRes, pinsOf, arrRes]
      by_cases hstuck : ∃ e o, chunkLoop cfg len fidx len s0 orc = ⟨.stuck, e, o⟩
      · obtain ⟨e, o, h⟩ := hstuck
        -- a stuck loop has an empty trace
        have he : e = [] := by
          have : (chunkLoop cfg len fidx len s0 orc).evs = [] := chunkLoop_stuck_evs cfg len fidx len s0 orc (by rw [h])
          rw [h] at this; exact this
        rw [h, he]
        exact ⟨Runs.nil L, by intro c p h; cases h⟩
      · have hrec := chunkLoop_runs cfg len fidx len s0 orc L hinv (by
          intro e o h; exact hstuck ⟨e, o, h⟩)
        rw [hst] at hrec
        exact hrec


theorem fcachePutChunk_runs (cfg : Cfg) (c : Chunk) (L : List Res) (hwf : WF cfg c) :
    Runs (fcachePutChunk cfg c) (chunkRes c ++ L) L := by
  unfold fcachePutChunk
  rw [chunkRes_eq]
  cases hd : c.data with
  | some sz =>
    obtain ⟨hn, hf, ha⟩ := hwf.1 sz hd
    simp only [hn, hf, ha, Nat.not_lt_zero, if_false, ne_eq, not_true_eq_false]
    simpa [dataRes, pinsOf, arrRes, freeData] using freeData_runs (some sz) L
  | none =>
    obtain ⟨hn, ha⟩ := hwf.2 hd
    simp only [dataRes, List.nil_append]
    split
    · have := Runs.append (putFces_runs c.fces (arrRes c.arr ++ L)) (freeArr_runs c.arr L)
      simpa [List.append_assoc] using this
    · rename_i hle
      have harr : c.arr = none := by
        cases h : c.arr with
        | none => rfl
        | some sz => exact absurd (ha sz h) hle
      split
      · simpa [harr, arrRes] using putFces_runs c.fces L
      · rename_i h0
        have : c.fces = [] := by
          have : c.fces.length = 0 := by rw [← hn]; simpa using h0
          exact List.eq_nil_of_length_eq_zero this
        simpa [this, harr, arrRes, pinsOf, freeData] using Runs.nil L

/-! ### diskdump_read_page, cache_get_page, read_locked, addrxlat_get_page -/

theorem diskdumpReadPage_runs (cfg : Cfg) (pol : Policy) (pfn : Nat) (pg : PageInfo) (orc : List Ext) (L : List Res) :
    Runs (diskdumpReadPage cfg pol pfn pg orc).evs L L := by
  unfold diskdumpReadPage
  split
  · exact Runs.nil L
  · split
    · split <;> exact Runs.nil L
    · rename_i pdpos _
      have h1 := fcachePread_runs cfg pdSize pol pdSize 0 pdpos orc L
      rcases hout : fcachePread cfg pdSize pol pdSize 0 pdpos orc with ⟨res, e, o⟩
      rw [hout] at h1
      cases res with
      | stuck => exact Runs.nil L
      | err st => exact h1
      | ok pol1 =>
        simp only at h1 ⊢
        split
        · split
          · exact h1
          · have h2 := fcachePread_runs cfg pg.size pol1 pg.size 0 pg.offset o L
            rcases hout2 : fcachePread cfg pg.size pol1 pg.size 0 pg.offset o with ⟨res2, e2, o2⟩
            rw [hout2] at h2
            cases res2 with
            | stuck => exact Runs.nil L
            | err st => exact Runs.append h1 h2
            | ok p2 => exact Runs.append h1 h2
        · have h2 := fcacheGetChunk_runs cfg pol1 pg.size 0 pg.offset o L
          rcases hout2 : fcacheGetChunk cfg pol1 pg.size 0 pg.offset o with ⟨res2, e2, o2⟩
          rw [hout2] at h2
          cases res2 with
          | stuck => exact Runs.nil L
          | err st => exact Runs.append h1 (by simpa [gainChunk] using h2.1)
          | ok cr =>
            obtain ⟨c, pol2⟩ := cr
            have hwf := h2.2 c pol2 rfl
            have hget : Runs e2 L (chunkRes c ++ L) := by simpa [gainChunk] using h2.1
            have hput := fcachePutChunk_runs cfg c L hwf
            have hall := Runs.append (Runs.append h1 hget) hput
            simp only
            split
            · exact hall
            · split
              · split <;> exact hall
              · split
                · split <;> exact hall
                · split <;> exact hall

def gainPage (key : Nat) : R Policy → List Res
  | .ok _ => [.pin .pc key]
  | _ => []

theorem cacheGetPage_runs (cfg : Cfg) (pol : Policy) (key pfn : Nat) (pg : PageInfo) (orc : List Ext) (L : List Res) :
    Runs (cacheGetPage cfg pol key pfn pg orc).evs L (gainPage key (cacheGetPage cfg pol key pfn pg orc).res ++ L) := by
  unfold cacheGetPage
  split
  · exact Runs.neutral (by simp [Neutral]) L
  · exact Runs.acq _ _ L
  · rename_i o
    have h := diskdumpReadPage_runs cfg pol pfn pg o (Res.pin .pc key :: L)
    rcases hout : diskdumpReadPage cfg pol pfn pg o with ⟨res, e, o2⟩
    rw [hout] at h
    cases res with
    | stuck => exact Runs.nil L
    | ok p =>
      simp only [gainPage, List.cons_append, List.nil_append]
      have := Runs.append (Runs.append (Runs.acq .pc key L) h) (Runs.neutral (e := Ev.ins .pc key) (by simp [Neutral]) _)
      simpa using this
    | err st =>
      simp only [gainPage, List.nil_append]
      have := Runs.append (Runs.append (Runs.acq .pc key L) h) (Runs.discard (c := .pc) (k := key) (L' := L) (List.Perm.refl _))
      simpa using this
  · exact Runs.nil L

theorem diskdumpGetPage_runs (cfg : Cfg) (pol : Policy) (key pfn : Nat) (pg : PageInfo) (orc : List Ext) (L : List Res) :
    Runs (diskdumpGetPage cfg pol key pfn pg orc).evs L (gainPage key (diskdumpGetPage cfg pol key pfn pg orc).res ++ L) := by
  unfold diskdumpGetPage
  split
  · exact Runs.nil L
  · exact cacheGetPage_runs cfg pol key pfn pg orc L

theorem readLocked_runs (cfg : Cfg) (pages : Nat → PageInfo) (as fuel : Nat) (pol : Policy) (addr remain : Nat)
    (orc : List Ext) (L : List Res) :
    Runs (readLocked cfg pages as fuel pol addr remain orc).evs L L := by
  induction fuel generalizing pol addr remain orc with
  | zero =>
    unfold readLocked
    split <;> exact Runs.nil L
  | succ n ih =>
    unfold readLocked
    split
    · exact Runs.nil L
    · simp only
      have hg := diskdumpGetPage_runs cfg pol ((addr - addr % cfg.ps) ||| as) ((addr - addr % cfg.ps) / cfg.ps)
        (pages ((addr - addr % cfg.ps) / cfg.ps)) orc L
      rcases hout : diskdumpGetPage cfg pol ((addr - addr % cfg.ps) ||| as) ((addr - addr % cfg.ps) / cfg.ps)
        (pages ((addr - addr % cfg.ps) / cfg.ps)) orc with ⟨res, e, o⟩
      rw [hout] at hg
      cases res with
      | stuck => exact Runs.nil L
      | err st => simpa [gainPage] using hg
      | ok pol' =>
        simp only [gainPage, List.cons_append, List.nil_append] at hg
        simp only
        have hput : Runs (cachePutPage ((addr - addr % cfg.ps) ||| as)) (Res.pin .pc ((addr - addr % cfg.ps) ||| as) :: L) L :=
          Runs.put (List.Perm.refl _)
        have h2 := ih pol' (addr + if cfg.ps - addr % cfg.ps > remain then remain else cfg.ps - addr % cfg.ps)
          (remain - if cfg.ps - addr % cfg.ps > remain then remain else cfg.ps - addr % cfg.ps) o
        rcases hout2 : readLocked cfg pages as n pol'
          (addr + if cfg.ps - addr % cfg.ps > remain then remain else cfg.ps - addr % cfg.ps)
          (remain - if cfg.ps - addr % cfg.ps > remain then remain else cfg.ps - addr % cfg.ps) o with ⟨res2, e2, o2⟩
        rw [hout2] at h2
        cases res2 with
        | stuck => exact Runs.nil L
        | err st => exact Runs.append (Runs.append hg hput) h2
        | ok np =>
          obtain ⟨nn, pp⟩ := np
          exact Runs.append (Runs.append hg hput) h2

def gainLent (cfg : Cfg) (as addr : Nat) : R Policy → List Res
  | .ok _ => lentRes cfg as addr
  | _ => []

theorem addrxlatGetPage_runs (cfg : Cfg) (pol : Policy) (as addr : Nat) (pages : Nat → PageInfo) (orc : List Ext) (L : List Res) :
    Runs (addrxlatGetPage cfg pol as addr pages orc).evs L
      (gainLent cfg as addr (addrxlatGetPage cfg pol as addr pages orc).res ++ L) := by
  unfold addrxlatGetPage
  split
  · exact Runs.neutral (by simp [Neutral]) L
  · rename_i o
    simp only
    have hg := diskdumpGetPage_runs cfg pol ((addr - addr % cfg.ps) ||| as) ((addr - addr % cfg.ps) / cfg.ps)
      (pages ((addr - addr % cfg.ps) / cfg.ps)) o (Res.mem .pio cfg.pioSize :: L)
    rcases hout : diskdumpGetPage cfg pol ((addr - addr % cfg.ps) ||| as) ((addr - addr % cfg.ps) / cfg.ps)
      (pages ((addr - addr % cfg.ps) / cfg.ps)) o with ⟨res, e, o2⟩
    rw [hout] at hg
    cases res with
    | stuck => exact Runs.nil L
    | ok p =>
      simp only [gainPage, gainLent, lentRes, List.cons_append, List.nil_append] at hg ⊢
      refine (Runs.cons (Runs.malloc _ _ L) hg).perm_right ?_
      perm_tac
    | err st =>
      simp only [gainPage, gainLent, List.nil_append] at hg ⊢
      have hf : Runs [Ev.free .pio cfg.pioSize] (Res.mem .pio cfg.pioSize :: L) L := Runs.free (List.Perm.refl _)
      have := Runs.cons (Runs.malloc _ _ L) (Runs.append hg hf)
      simpa using this
  · exact Runs.nil L

theorem addrxlatPutPage_runs (cfg : Cfg) (as addr : Nat) (L : List Res) :
    Runs (addrxlatPutPage cfg as addr) (lentRes cfg as addr ++ L) L := by
  unfold addrxlatPutPage lentRes cachePutPage
  have h1 : Runs [Ev.put .pc ((addr - addr % cfg.ps) ||| as)]
      ([Res.mem .pio cfg.pioSize, Res.pin .pc ((addr - addr % cfg.ps) ||| as)] ++ L) (Res.mem .pio cfg.pioSize :: L) :=
    Runs.put (by perm_tac)
  have h2 : Runs [Ev.free .pio cfg.pioSize] (Res.mem .pio cfg.pioSize :: L) L := Runs.free (List.Perm.refl _)
  exact Runs.append h1 h2

end Kdf.Lemmas.Res
