import Kdf.Model.Bounds
/-!
# Helper lemmas for C03 (bounds / termination of the parsing models)
-/
namespace Kdf.Lemmas.Bounds
open Kdf.Model.Bounds

/-! ## uncompress_rle -/

/-- What a run of the RLE loop must end in: never `oob`, never `fuel`, and on success
the reported length is the length of the output and fits the buffer. -/
def RleGood (cap : Nat) : RleRes → Prop
  | .ok n out => out.length = n ∧ n ≤ cap
  | .err => True
  | .oob => False
  | .fuel => False

/-- Generalised induction over the fuel of `rleGo`.  Invariants:
* `remain ≤ cap`                  (the write position `cap - remain` is inside `dst`),
* `i ≤ src.length < f + i`        (each iteration advances `i` by at least one),
* `out.length = cap - remain`     (the bytes written so far). -/
theorem rleGo_good (src : List Nat) (cap : Nat) :
    ∀ (f i remain : Nat) (out : List Nat),
      remain ≤ cap → i ≤ src.length → src.length < f + i → out.length = cap - remain →
      RleGood cap (rleGo src cap f i remain out) := by
  intro f
  induction f with
  | zero => intro i remain out _ hi hm _; omega
  | succ f ih =>
    intro i remain out hr hi hm hl
    unfold rleGo
    by_cases h1 : src.length ≤ i
    · simp only [h1, if_true, RleGood]; omega
    · have hi1 : i < src.length := by omega
      simp only [h1, if_false, List.getElem?_eq_getElem hi1]
      by_cases hb : src[i] = 0
      · simp only [hb, if_true]
        by_cases h2 : src.length ≤ i + 1
        · simp only [h2, if_true, RleGood]
        · have hi2 : i + 1 < src.length := by omega
          simp only [h2, if_false, List.getElem?_eq_getElem hi2]
          by_cases hc : src[i+1] = 0
          · simp only [hc, ne_eq, not_true_eq_false, if_false]
            by_cases h3 : remain = 0
            · simp only [h3, if_true, RleGood]
            · have h4 : ¬ cap ≤ cap - remain := by omega
              simp only [h3, h4, if_false]
              apply ih
              · omega
              · omega
              · omega
              · simp only [List.length_append, List.length_singleton]; omega
          · simp only [ne_eq, hc, not_false_eq_true, if_true]
            by_cases h3 : remain < src[i+1]
            · simp only [h3, if_true, RleGood]
            · simp only [h3, if_false]
              by_cases h4 : src.length ≤ i + 2
              · simp only [h4, if_true, RleGood]
              · have hi3 : i + 2 < src.length := by omega
                have h5 : ¬ cap < cap - remain + src[i+1] := by omega
                simp only [h4, if_false, List.getElem?_eq_getElem hi3, h5]
                apply ih
                · omega
                · omega
                · omega
                · simp only [List.length_append, List.length_replicate]; omega
      · simp only [hb, if_false]
        by_cases h3 : remain = 0
        · simp only [h3, if_true, RleGood]
        · have h4 : ¬ cap ≤ cap - remain := by omega
          simp only [h3, h4, if_false]
          apply ih
          · omega
          · omega
          · omega
          · simp only [List.length_append, List.length_singleton]; omega

theorem rle_good (src : List Nat) (cap : Nat) : RleGood cap (rle src cap) := by
  unfold rle
  apply rleGo_good
  · omega
  · omega
  · omega
  · simp

/-! ## do_notes -/

theorem le_roundup4 (n : Nat) : n ≤ roundup4 n := by
  unfold roundup4; omega

/-- The property of a reported note. -/
def NoteOk (total : Nat) (n : Note) : Prop :=
  12 ≤ n.nameOff ∧ n.nameOff + n.namesz ≤ total ∧ n.descOff + n.descsz ≤ total

/-- What a run of the notes loop must end in. -/
def NotesGood (total : Nat) : NotesRes → Prop
  | .done ns => ∀ n ∈ ns, NoteOk total n
  | .oob => False
  | .fuel => False

/-- Generalised induction over the fuel of `notesGo`.  Invariants:
* `p + size ≤ total ∨ size = 0`   (after the clamp the pointer may be past the end, but then the loop exits),
* `size / 12 < f`                 (each iteration takes at least 12 off `size`),
* every note already accumulated lies inside the buffer. -/
theorem notesGo_good (rd32 : Nat → Nat) (total : Nat) :
    ∀ (f p size : Nat) (acc : List Note),
      (p + size ≤ total ∨ size = 0) → size / 12 < f → (∀ n ∈ acc, NoteOk total n) →
      NotesGood total (notesGo rd32 total f p size acc) := by
  intro f
  induction f with
  | zero => intro p size acc _ hm _; omega
  | succ f ih =>
    intro p size acc hinv hm hacc
    unfold notesGo
    by_cases h1 : size < 12
    · simp only [h1, if_true, NotesGood]; exact hacc
    · have hps : p + size ≤ total := by omega
      have h2 : ¬ total < p + 12 := by omega
      simp only [h1, h2, if_false]
      have hn := le_roundup4 (rd32 p)
      generalize roundup4 (rd32 p) = rn at hn ⊢
      generalize hrd : roundup4 (rd32 (p + 4)) = rdsz
      by_cases h3 : size < 12 + rn + rd32 (p + 4)
      · simp only [h3, if_true, NotesGood]; exact hacc
      · have h4 : ¬ (total < p + 12 + rd32 p ∨ total < p + (12 + rn) + rd32 (p + 4)) := by omega
        simp only [h3, h4, if_false]
        apply ih
        · by_cases h5 : rdsz ≤ size - (12 + rn)
          · simp only [h5, if_true]; omega
          · rw [if_neg h5]; exact Or.inr rfl
        · by_cases h5 : rdsz ≤ size - (12 + rn)
          · simp only [h5, if_true]; omega
          · simp only [h5, if_false]; omega
        · intro n hn'
          rcases List.mem_append.mp hn' with hn' | hn'
          · exact hacc n hn'
          · rw [List.mem_singleton] at hn'
            subst hn'
            simp only [NoteOk]
            omega

theorem notes_good (rd32 : Nat → Nat) (total : Nat) : NotesGood total (notes rd32 total) := by
  unfold notes
  apply notesGo_good
  · omega
  · omega
  · intro n hn; cases hn

end Kdf.Lemmas.Bounds

-- ==== part B (diskdump / flatmap / misc) ====
namespace Kdf.Lemmas.Bounds
open Kdf.Model.Bounds

/-! ### diskdump -/

/-- `(unsigned long) block_size` of a negative `int32_t` is far above `MAX_PAGE_SIZE`. -/
theorem neg_cast_huge (a : Int) (h : a < 0) (h2 : -2^31 ≤ a) :
    (W - a.natAbs % W) % W > MAX_PAGE_SIZE := by
  simp only [W, MAX_PAGE_SIZE]; omega

theorem tryHeader_accept (bs : Int) (blocks mapnr : Nat) (hbs : -2^31 ≤ bs) (hb : blocks < 2^32)
    (h : tryHeader bs blocks mapnr = true) :
    0 ≤ bs ∧ MIN_PAGE_SIZE ≤ bs.toNat ∧ bs.toNat ≤ MAX_PAGE_SIZE ∧ mapnr ≤ 8 * blocks * bs.toNat := by
  unfold tryHeader at h
  by_cases hneg : bs < 0
  · have hh := neg_cast_huge bs hneg hbs
    simp only [hneg, if_true] at h
    rw [if_pos (Or.inr hh)] at h
    exact absurd h (by decide)
  · simp only [hneg, if_false] at h
    by_cases hr : bs.toNat < MIN_PAGE_SIZE ∨ bs.toNat > MAX_PAGE_SIZE
    · rw [if_pos hr] at h; exact absurd h (by decide)
    · rw [if_neg hr] at h
      have h1 : MIN_PAGE_SIZE ≤ bs.toNat := by omega
      have h2 : bs.toNat ≤ MAX_PAGE_SIZE := by omega
      have hprod : 8 * blocks * bs.toNat ≤ 8 * 2^32 * MAX_PAGE_SIZE :=
        Nat.mul_le_mul (by omega) h2
      have hlt : 8 * blocks * bs.toNat < W := by
        simp only [MAX_PAGE_SIZE] at hprod; simp only [W]; omega
      rw [Nat.mod_eq_of_lt hlt] at h
      by_cases hm : 8 * blocks * bs.toNat < mapnr
      · rw [if_pos hm] at h; exact absurd h (by decide)
      · exact ⟨by omega, h1, h2, by omega⟩

theorem readBitmap_no_ovf (ps : Nat) (sub : Int) (blocks maxPfn : Nat)
    (hps : MIN_PAGE_SIZE ≤ ps ∧ ps ≤ MAX_PAGE_SIZE) (hsub : sub < 2^31) (hb : blocks < 2^32) :
    readBitmap ps sub blocks maxPfn ≠ .ovf := by
  unfold readBitmap
  by_cases hneg : sub < 0
  · simp [hneg]
  · simp only [hneg, if_false]
    simp only [MAX_PAGE_SIZE] at hps
    have ho : (1 + sub.toNat) * ps ≤ 2^31 * 262144 := Nat.mul_le_mul (by omega) hps.2
    have hbm : blocks * ps ≤ 2^32 * 262144 := Nat.mul_le_mul (by omega) hps.2
    have hbm2 : blocks / 2 * ps ≤ blocks * ps := Nat.mul_le_mul_right ps (Nat.div_le_self _ _)
    have hc1 : ¬ ((1 + sub.toNat) * ps > OFF_MAX ∨ (1 + sub.toNat) * ps + blocks * ps > OFF_MAX ∨
        blocks * ps ≥ W ∨ blocks * ps * 8 ≥ W) := by
      simp only [OFF_MAX, W]; omega
    rw [if_neg hc1]
    by_cases hm : maxPfn ≤ blocks * ps * 8 / 2
    · rw [if_pos hm]
      have hc2 : ¬ ((1 + sub.toNat) * ps + blocks / 2 * ps > OFF_MAX) := by
        simp only [OFF_MAX]; omega
      rw [if_neg hc2]; exact fun h => DdRes.noConfusion h
    · rw [if_neg hm]; exact fun h => DdRes.noConfusion h

theorem readBitmap_req (ps : Nat) (sub : Int) (blocks maxPfn : Nat) (r : BmpReq)
    (h : readBitmap ps sub blocks maxPfn = .req r) :
    r.maxBitmapPfn = 8 * r.len ∧ r.maxPfn ≤ 8 * r.len ∧ r.maxPfn ≤ maxPfn ∧
    r.memOff ≤ r.off ∧ r.off + r.len ≤ r.descoff := by
  unfold readBitmap at h
  by_cases hneg : sub < 0
  · simp [hneg] at h
  · simp only [hneg, if_false] at h
    split at h
    · exact DdRes.noConfusion h
    · have hbm2 : blocks / 2 * ps + blocks / 2 * ps ≤ blocks * ps := by
        rw [← Nat.add_mul]; exact Nat.mul_le_mul_right ps (by omega)
      split at h
      · split at h
        · exact DdRes.noConfusion h
        · injection h with h; subst h
          dsimp only
          refine ⟨by omega, ?_, ?_, by omega, by omega⟩ <;> split <;> omega
      · injection h with h; subst h
        dsimp only
        refine ⟨by omega, ?_, ?_, by omega, by omega⟩ <;> split <;> omega

/-! ### flatmap_file_init -/

/-- A header read at or behind `bound` ends the scan with an error. -/
theorem flatGo_behind (rd : Nat → Option (Int × Int)) (bound : Nat)
    (hEOF : ∀ p, bound ≤ p → rd p = none ∨ rd p = some (0, 0))
    (f p : Nat) (acc : List Seg) (hp : bound ≤ p) :
    flatGo rd (f+1) p acc = .readerr ∨ flatGo rd (f+1) p acc = .corrupt := by
  unfold flatGo
  rcases hEOF p hp with h | h
  · rw [h]; exact Or.inl rfl
  · rw [h]; exact Or.inr (by simp)

theorem flatGo_ne_fuel (rd : Nat → Option (Int × Int)) (bound : Nat)
    (hEOF : ∀ p, bound ≤ p → rd p = none ∨ rd p = some (0, 0)) :
    ∀ (f p : Nat) (acc : List Seg), bound ≤ p + 17 * f → flatGo rd (f+1) p acc ≠ .fuel := by
  intro f
  induction f with
  | zero =>
    intro p acc hb
    rcases flatGo_behind rd bound hEOF 0 p acc (by omega) with h | h <;> rw [h] <;>
      exact fun h => ScanRes.noConfusion h
  | succ f ih =>
    intro p acc hb
    unfold flatGo
    cases hrd : rd p with
    | none => exact fun h => ScanRes.noConfusion h
    | some ps =>
      obtain ⟨pos, size⟩ := ps
      dsimp only
      split
      · exact fun h => ScanRes.noConfusion h
      · split
        · exact fun h => ScanRes.noConfusion h
        · split
          · exact fun h => ScanRes.noConfusion h
          · split
            · exact fun h => ScanRes.noConfusion h
            · apply ih; omega

theorem flatScan_ne_fuel (rd : Nat → Option (Int × Int)) (bound : Nat)
    (hEOF : ∀ p, bound ≤ p → rd p = none ∨ rd p = some (0, 0)) : flatScan rd bound ≠ .fuel := by
  unfold flatScan
  exact flatGo_ne_fuel rd bound hEOF (bound / 17 + 1) MDF_HEADER_SIZE [] (by omega)

theorem flatGo_segs (rd : Nat → Option (Int × Int)) (bound : Nat)
    (hEOF : ∀ p, bound ≤ p → rd p = none ∨ rd p = some (0, 0)) (segs : List Seg) :
    ∀ (f p : Nat) (acc : List Seg), 4096 ≤ p →
      (∀ s ∈ acc, 0 < s.size ∧ (4112 : Int) ≤ s.flatoff + s.pos ∧ s.flatoff + s.pos + s.size ≤ p) →
      flatGo rd f p acc = .ok segs →
      ∀ s ∈ segs, 0 < s.size ∧ (4112 : Int) ≤ s.flatoff + s.pos ∧
        s.flatoff + s.pos + s.size < bound := by
  intro f
  induction f with
  | zero => intro p acc _ _ h; unfold flatGo at h; exact ScanRes.noConfusion h
  | succ f ih =>
    intro p acc hp hacc h
    have hpb : p < bound := by
      apply Classical.byContradiction
      intro hc
      rcases flatGo_behind rd bound hEOF f p acc (by omega) with h' | h' <;>
        rw [h'] at h <;> exact ScanRes.noConfusion h
    unfold flatGo at h
    cases hrd : rd p with
    | none => rw [hrd] at h; exact ScanRes.noConfusion h
    | some ps =>
      obtain ⟨pos, size⟩ := ps
      rw [hrd] at h
      dsimp only at h
      split at h
      · injection h with h; subst h
        intro s hs
        have := hacc s hs
        omega
      · split at h
        · exact ScanRes.noConfusion h
        · split at h
          · exact ScanRes.noConfusion h
          · split at h
            · exact ScanRes.noConfusion h
            · refine ih _ _ (by omega) ?_ h
              intro s hs
              rcases List.mem_append.mp hs with hs | hs
              · have := hacc s hs
                omega
              · rw [List.mem_singleton] at hs
                subst hs
                dsimp only
                omega

theorem flatScan_segs (rd : Nat → Option (Int × Int)) (bound : Nat)
    (hEOF : ∀ p, bound ≤ p → rd p = none ∨ rd p = some (0, 0)) (segs : List Seg)
    (h : flatScan rd bound = .ok segs) :
    ∀ s ∈ segs, 0 < s.size ∧ (MDF_HEADER_SIZE + 16 : Int) ≤ s.flatoff + s.pos ∧
      s.flatoff + s.pos + s.size < bound := by
  unfold flatScan at h
  have := flatGo_segs rd bound hEOF segs _ MDF_HEADER_SIZE [] (by decide)
    (by intro s hs; cases hs) h
  intro s hs
  have := this s hs
  simp only [MDF_HEADER_SIZE]
  omega

/-! ### flatmap_get_chunk_flat -/

theorem walkRanges_mem : ∀ (ranges : List (Nat × Int)) (off : Nat) (r : Nat × Int) (o : Nat),
    walkRanges ranges off = some (r, o) → r ∈ ranges := by
  intro ranges
  induction ranges with
  | nil => intro off r o h; unfold walkRanges at h; cases h
  | cons x xs ih =>
    intro off r o h
    unfold walkRanges at h
    split at h
    · exact List.mem_cons_of_mem _ (ih _ _ _ h)
    · injection h with h
      injection h with h1 h2
      subst h1
      exact List.mem_cons_self

theorem chunkIdx_ne_oob (ranges : List (Nat × Int)) (offs : List Int) (pos len : Nat)
    (hwf : ∀ r ∈ ranges, r.2 = -1 ∨ (0 ≤ r.2 ∧ r.2.toNat < offs.length)) :
    chunkIdx ranges offs pos len ≠ .oob := by
  unfold chunkIdx
  cases hw : walkRanges ranges pos with
  | none => exact fun h => ChunkRes.noConfusion h
  | some ro =>
    obtain ⟨r, off⟩ := ro
    have hr := hwf r (walkRanges_mem _ _ _ _ hw)
    dsimp only
    split
    · rename_i hc
      rcases hr with hr | ⟨hr0, hrl⟩
      · exact absurd hr hc.1
      · rw [if_neg (by omega)]
        rw [List.getElem?_eq_getElem hrl]
        exact fun h => ChunkRes.noConfusion h
    · exact fun h => ChunkRes.noConfusion h

/-! ### sadump setup_arch, page_size_pre_hook -/

theorem cpuStateSz_ne_divzero (total cpus : Nat) : cpuStateSz total cpus ≠ .divzero := by
  unfold cpuStateSz
  by_cases h : cpus = 0
  · rw [if_pos h]; exact fun h => DivRes.noConfusion h
  · rw [if_neg h, if_neg h]; exact fun h => DivRes.noConfusion h

theorem pageShift_ne_badshift (ps : Nat) : pageShift ps ≠ .badshift := by
  unfold pageShift
  by_cases h : ps = 0
  · rw [if_pos h]; exact fun h => ShiftRes.noConfusion h
  · rw [if_neg h]
    split
    · exact fun h => ShiftRes.noConfusion h
    · exact fun h => ShiftRes.noConfusion h

theorem pageShift_shift (ps s : Nat) (hps : ps < 2^64) (h : pageShift ps = .shift s) :
    ps = 2^s ∧ s < 64 := by
  unfold pageShift at h
  by_cases h0 : ps = 0
  · rw [if_pos h0] at h; exact ShiftRes.noConfusion h
  · rw [if_neg h0] at h
    split at h
    · exact ShiftRes.noConfusion h
    · rename_i hp
      injection h with h
      subst h
      have hp' : ps = 2 ^ ctz 64 ps := Classical.not_not.mp hp
      refine ⟨hp', ?_⟩
      rw [hp'] at hps
      exact (Nat.pow_lt_pow_iff_right (by decide)).mp hps

end Kdf.Lemmas.Bounds
