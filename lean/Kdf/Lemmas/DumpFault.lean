import Kdf.Model.Dump
import Kdf.Lemmas.DumpLookup
/-! LKCD descriptor search under a transient read failure (C01): the failure costs nothing but the failed call. -/
namespace Kdf.Lemmas.DumpFault
open Kdf.Model.Pfn Kdf.Model.Dump Kdf.Lemmas.Pfn Kdf.Lemmas.DumpLookup

theorem lkSearchF_succ (readDesc : Nat → Option LkcdDesc) (shift : Nat) (key : Nat → Nat) (pfn bad fuel : Nat)
    (st : LkcdState) :
    lkSearchF readDesc shift key pfn bad (fuel+1) st =
      if st.lastOffset = bad then (st, none)
      else
      match readDesc st.lastOffset with
      | none => ({ st with endOffset := st.lastOffset }, some .eof)
      | some dp =>
        if dp.flags &&& 4 ≠ 0 then ({ st with endOffset := st.lastOffset }, some .nodata)
        else
          match lkLookup st.index (key (dp.address / 2^shift)) with
          | some _ => (st, some .dup)
          | none =>
            if dp.address / 2^shift = pfn then
              ({ st with index := st.index ++ [(key (dp.address / 2^shift), st.lastOffset)],
                         maxPfn := if dp.address / 2^shift ≥ st.maxPfn then dp.address / 2^shift + 1 else st.maxPfn,
                         lastOffset := st.lastOffset + 16 + dp.size }, some (.found st.lastOffset dp))
            else lkSearchF readDesc shift key pfn bad fuel
              { st with index := st.index ++ [(key (dp.address / 2^shift), st.lastOffset)],
                        maxPfn := if dp.address / 2^shift ≥ st.maxPfn then dp.address / 2^shift + 1 else st.maxPfn,
                        lastOffset := st.lastOffset + 16 + dp.size } := rfl

theorem lkSearchF_spec (ds : List LkcdDesc) (dataOff shift : Nat)
    (hnd : (ds.map (pfnOf shift)).Nodup) (hend : ∀ d ∈ ds, d.flags &&& 4 = 0) (p bad : Nat) :
    ∀ fuel k st, InvK ds dataOff shift k st → ds.length - k + 1 ≤ fuel →
      (∀ i (hi : i < ds.length), i < k → pfnOf shift ds[i] ≠ p) →
      Inv ds dataOff shift (lkSearchF (streamReader ds dataOff) shift id p bad fuel st).1 ∧
      ((lkSearchF (streamReader ds dataOff) shift id p bad fuel st).2 = none ∨
       (lkSearchF (streamReader ds dataOff) shift id p bad fuel st).2 = some (expect ds dataOff shift p)) := by
  intro fuel
  induction fuel with
  | zero => intro k st _ hf; omega
  | succ fuel ih =>
    intro k st hinv hf hne
    have hK := hinv
    obtain ⟨hk, hlast, hidx, hendo, hd0⟩ := hinv
    rw [lkSearchF_succ]
    by_cases hb : st.lastOffset = bad
    · rw [if_pos hb]
      exact ⟨⟨k, hK⟩, Or.inl rfl⟩
    rw [if_neg hb]
    by_cases hkl : k = ds.length
    · subst hkl
      rw [hlast, List.take_length, reader_end]
      dsimp only
      rw [if_pos (by decide)]
      refine ⟨⟨ds.length, Nat.le_refl _, ?_, hidx, Or.inr ⟨rfl, rfl⟩, hd0⟩, Or.inr ?_⟩
      · show streamEnd ds dataOff = _
        rw [List.take_length]
      · exact congrArg some (expect_none ds dataOff shift p (fun i hi => hne i hi hi)).symm
    · have hlt : k < ds.length := by omega
      rw [hlast, reader_at ds dataOff k hlt]
      dsimp only
      rw [if_neg (by rw [hend _ (List.getElem_mem hlt)]; decide)]
      have hnone : lkLookup st.index (id (ds[k].address / 2^shift)) = none := by
        rw [hidx]
        apply lookup_none_of _ _ _ _ _ hk
        intro i hi hik
        have := (List.pairwise_iff_getElem.mp (List.nodup_iff_pairwise_ne.mp hnd)) i k
          (by simpa using hi) (by simpa using hlt) hik
        show pfnOf shift ds[i] ≠ pfnOf shift ds[k]
        simpa using this
      rw [hnone]
      dsimp only
      have hinv' : InvK ds dataOff shift (k+1)
          { st with index := st.index ++ [(id (ds[k].address / 2^shift), streamEnd (ds.take k) dataOff)],
                    maxPfn := if ds[k].address / 2^shift ≥ st.maxPfn then ds[k].address / 2^shift + 1 else st.maxPfn,
                    lastOffset := streamEnd (ds.take k) dataOff + 16 + ds[k].size } := by
        refine ⟨hlt, (streamEnd_take_succ ds dataOff k hlt).symm, ?_, Or.inl ?_, hd0⟩
        · show st.index ++ [(pfnOf shift ds[k], streamEnd (ds.take k) dataOff)] = _
          rw [hidx, mkIndex_succ _ _ _ _ hlt]
        · rcases hendo with h | ⟨h, _⟩
          · exact h
          · omega
      by_cases hcp : ds[k].address / 2^shift = p
      · rw [if_pos hcp]
        exact ⟨⟨k+1, hinv'⟩, Or.inr (congrArg some (expect_found ds dataOff shift p hnd k hlt hcp).symm)⟩
      · rw [if_neg hcp]
        apply ih (k+1) _ hinv' (by omega)
        intro i hi hik
        by_cases he : i = k
        · subst he; exact hcp
        · exact hne i hi (by omega)

theorem lkSearchF_no_fault (readDesc : Nat → Option LkcdDesc) (shift : Nat) (key : Nat → Nat) (p bad : Nat) :
    ∀ fuel st, (lkSearchF readDesc shift key p bad fuel st).2 ≠ none →
      lkSearchF readDesc shift key p bad fuel st =
        ((lkSearch readDesc shift key p fuel st).1, some (lkSearch readDesc shift key p fuel st).2) := by
  intro fuel
  induction fuel with
  | zero => intro st _; rfl
  | succ fuel ih =>
    intro st h
    rw [lkSearchF_succ] at h ⊢
    rw [lkSearch_succ]
    by_cases hb : st.lastOffset = bad
    · rw [if_pos hb] at h; exact absurd rfl h
    rw [if_neg hb] at h ⊢
    cases hr : readDesc st.lastOffset with
    | none => rfl
    | some dp =>
      rw [hr] at h
      dsimp only at h ⊢
      by_cases hfl : dp.flags &&& 4 ≠ 0
      · rw [if_pos hfl, if_pos hfl]
      rw [if_neg hfl] at h ⊢
      rw [if_neg hfl]
      cases hl : lkLookup st.index (key (dp.address / 2^shift)) with
      | some o => rfl
      | none =>
        rw [hl] at h
        dsimp only at h ⊢
        by_cases hcp : dp.address / 2^shift = p
        · rw [if_pos hcp, if_pos hcp]
        rw [if_neg hcp] at h ⊢
        rw [if_neg hcp]
        exact ih _ h

/-- A call during which the descriptor at `bad` cannot be read keeps the invariant of the scan state, and it either
reports the failure (`none`) or gives the regular answer. -/
theorem lkGetF_spec (ds : List LkcdDesc) (dataOff shift : Nat)
    (hnd : (ds.map (pfnOf shift)).Nodup) (hend : ∀ d ∈ ds, d.flags &&& 4 = 0)
    (st : LkcdState) (hinv : Inv ds dataOff shift st) (bad p fuel : Nat) (hf : ds.length + 1 ≤ fuel) :
    Inv ds dataOff shift (lkGetF (streamReader ds dataOff) shift id bad fuel st p).1 ∧
    ((lkGetF (streamReader ds dataOff) shift id bad fuel st p).2 = none ∨
     (lkGetF (streamReader ds dataOff) shift id bad fuel st p).2 = some (expect ds dataOff shift p)) := by
  obtain ⟨k, hK⟩ := hinv
  have hK' := hK
  obtain ⟨hk, hlast, hidx, hendo, hd0⟩ := hK'
  unfold lkGetF
  cases hl : lkLookup st.index (id p) with
  | some off =>
    rw [hidx] at hl
    obtain ⟨i, hi, hik, hp, rfl⟩ := lookup_some ds dataOff shift k p _ hk hl
    dsimp only
    by_cases hb : streamEnd (ds.take i) dataOff = bad
    · rw [if_pos hb]
      exact ⟨⟨k, hK⟩, Or.inl rfl⟩
    rw [if_neg hb, reader_at ds dataOff i hi]
    exact ⟨⟨k, hK⟩, Or.inr (congrArg some (expect_found ds dataOff shift p hnd i hi hp).symm)⟩
  | none =>
    rw [hidx] at hl
    have hne := lookup_none ds dataOff shift k p hk hl
    dsimp only
    by_cases heq : st.lastOffset = st.endOffset
    · rw [if_pos heq]
      have h0 := streamEnd_take_ge ds dataOff k hk
      have hkl : k = ds.length := by
        rcases hendo with h | ⟨h, _⟩
        · omega
        · exact h
      subst hkl
      exact ⟨⟨_, hK⟩, Or.inr (congrArg some (expect_none ds dataOff shift p (fun i hi => hne i hi hi)).symm)⟩
    · rw [if_neg heq]
      exact lkSearchF_spec ds dataOff shift hnd hend p bad fuel k st hK (by omega) hne

/-- A call that does not report the failure did exactly what the undisturbed call does (the descriptor at `bad` was
not on its way). -/
theorem lkGetF_no_fault (readDesc : Nat → Option LkcdDesc) (shift : Nat) (key : Nat → Nat) (bad fuel : Nat)
    (st : LkcdState) (p : Nat)
    (h : (lkGetF readDesc shift key bad fuel st p).2 ≠ none) :
    lkGetF readDesc shift key bad fuel st p =
      ((lkGet readDesc shift key fuel st p).1, some (lkGet readDesc shift key fuel st p).2) := by
  unfold lkGetF at h ⊢
  unfold lkGet
  cases hl : lkLookup st.index (key p) with
  | some off =>
    rw [hl] at h
    dsimp only at h ⊢
    by_cases hb : off = bad
    · rw [if_pos hb] at h; exact absurd rfl h
    rw [if_neg hb]
    cases readDesc off <;> rfl
  | none =>
    rw [hl] at h
    dsimp only at h ⊢
    by_cases heq : st.lastOffset = st.endOffset
    · rw [if_pos heq, if_pos heq]
    rw [if_neg heq] at h ⊢
    rw [if_neg heq]
    exact lkSearchF_no_fault readDesc shift key p bad fuel st h

end Kdf.Lemmas.DumpFault
