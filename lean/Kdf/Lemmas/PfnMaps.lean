import Kdf.Lemmas.PfnFind
/-! Lookups over several file maps: `findFileMap`, `findMapped`, `findUnmapped`. -/
namespace Kdf.Lemmas.Pfn
open Kdf.Model.Pfn

theorem ffm_go_cons (pfn : Nat) (m : FileMap) (ms : List FileMap) (i : Nat) :
    findFileMap.go pfn (m :: ms) i = if pfn < m.endPfn then some (i, m) else findFileMap.go pfn ms (i+1) := rfl

theorem ffm_go_spec (pfn : Nat) : ∀ ms i0,
    (findFileMap.go pfn ms i0 = none → ∀ m ∈ ms, m.endPfn ≤ pfn) ∧
    (∀ i m, findFileMap.go pfn ms i0 = some (i, m) →
      ∃ pre post, ms = pre ++ m :: post ∧ i = i0 + pre.length ∧ (∀ x ∈ pre, x.endPfn ≤ pfn) ∧ pfn < m.endPfn) := by
  intro ms
  induction ms with
  | nil =>
    intro i0
    refine ⟨by simp, ?_⟩
    intro i m h; simp [findFileMap.go] at h
  | cons a ms ih =>
    intro i0
    rw [ffm_go_cons]
    by_cases hlt : pfn < a.endPfn
    · rw [if_pos hlt]
      refine ⟨by simp, ?_⟩
      intro i m h
      simp only [Option.some.injEq, Prod.mk.injEq] at h
      obtain ⟨rfl, rfl⟩ := h
      exact ⟨[], ms, rfl, by simp, by simp, hlt⟩
    · rw [if_neg hlt]
      obtain ⟨ih1, ih2⟩ := ih (i0 + 1)
      refine ⟨?_, ?_⟩
      · intro h m hm
        rw [List.mem_cons] at hm
        rcases hm with rfl | hm
        · omega
        · exact ih1 h m hm
      · intro i m h
        obtain ⟨pre, post, e1, e2, e3, e4⟩ := ih2 i m h
        refine ⟨a :: pre, post, by rw [e1]; rfl, by simp; omega, ?_, e4⟩
        intro x hx
        rw [List.mem_cons] at hx
        rcases hx with rfl | hx
        · omega
        · exact e3 x hx

theorem findFileMap_none {maps : List FileMap} {pfn : Nat} (h : findFileMap maps pfn = none) :
    ∀ m ∈ maps, m.endPfn ≤ pfn := (ffm_go_spec pfn maps 0).1 h

theorem findFileMap_some {maps : List FileMap} {pfn i : Nat} {m : FileMap}
    (h : findFileMap maps pfn = some (i, m)) :
    ∃ pre post, maps = pre ++ m :: post ∧ i = pre.length ∧ (∀ x ∈ pre, x.endPfn ≤ pfn) ∧ pfn < m.endPfn := by
  obtain ⟨pre, post, e1, e2, e3, e4⟩ := (ffm_go_spec pfn maps 0).2 i m h
  exact ⟨pre, post, e1, by omega, e3, e4⟩

/-- consequences of `MapsWF` for a decomposed list -/
theorem MapsWF.split {pre post : List FileMap} {m : FileMap} (h : MapsWF (pre ++ m :: post)) :
    (∀ x ∈ pre, x.endPfn ≤ m.startPfn) ∧ (∀ x ∈ post, m.endPfn ≤ x.startPfn) ∧
    (∀ x ∈ pre ++ m :: post, x.startPfn ≤ x.endPfn ∧ RegionsSorted x.regions ∧
      ∀ r ∈ x.regions, x.startPfn ≤ r.pfn ∧ r.pfn + r.cnt ≤ x.endPfn) := by
  obtain ⟨h1, h2⟩ := h
  rw [List.pairwise_append, List.pairwise_cons] at h1
  obtain ⟨_, ⟨p2, _⟩, p3⟩ := h1
  exact ⟨fun x hx => p3 x hx m List.mem_cons_self, p2, h2⟩

theorem not_mapped_of_ends {maps : List FileMap} {p : Nat}
    (h : ∀ x ∈ maps, ∀ r ∈ x.regions, r.pfn + r.cnt ≤ p) : ∀ j, p ≤ j → ¬ Mapped maps j := by
  intro j hj ⟨m, hm, r, hr, h1, h2⟩
  have := h m hm r hr; omega

/-- `findRegion` on the first map that has a region ending above `p`, all earlier
maps ending at or below `p` -/
theorem first_region_spec {before after : List FileMap} {a : FileMap} (h : MapsWF (before ++ a :: after))
    (p : Nat) (r : Region) (hbefore : ∀ x ∈ before, ∀ r' ∈ x.regions, r'.pfn + r'.cnt ≤ p)
    (hr : findRegion a.regions p = some r) :
    p ≤ max r.pfn p ∧ Mapped (before ++ a :: after) (max r.pfn p) ∧
      ∀ j, p ≤ j → j < max r.pfn p → ¬ Mapped (before ++ a :: after) j := by
  obtain ⟨w1, w2, w3⟩ := h.split
  have ha : a ∈ before ++ a :: after := by simp
  obtain ⟨_, hs, hwin⟩ := w3 a ha
  obtain ⟨f1, f2, f3⟩ := findRegion_some hs hr
  have hpos := hs.2 r f1
  refine ⟨by omega, ⟨a, ha, r, f1, by omega, by omega⟩, ?_⟩
  intro j hj1 hj2 ⟨m', hm', r', hr', g1, g2⟩
  rw [List.mem_append, List.mem_cons] at hm'
  rcases hm' with hm' | rfl | hm'
  · have := hbefore m' hm' r' hr'; omega
  · have := f3 r' hr' (by omega); omega
  · have := w2 m' hm'
    have := (w3 m' (by simp [hm'])).2.2 r' hr'
    have := hwin r f1
    omega

theorem findMapped_some {maps : List FileMap} (h : MapsWF maps) {p q : Nat} (hq : findMapped maps p = some q) :
    p ≤ q ∧ Mapped maps q ∧ ∀ j, p ≤ j → j < q → ¬ Mapped maps j := by
  unfold findMapped at hq
  split at hq
  · simp at hq
  · rename_i r hreg
    simp only [Option.some.injEq] at hq
    subst hq
    unfold regionAtOrAfter at hreg
    split at hreg
    · simp at hreg
    · rename_i i m hffm
      obtain ⟨pre, post, e1, e2, e3, e4⟩ := findFileMap_some hffm
      subst e2
      rw [e1, List.drop_left, List.findSome?_eq_some_iff] at hreg
      obtain ⟨l1, a, l2, g1, g2, g3⟩ := hreg
      have e : maps = (pre ++ l1) ++ a :: l2 := by rw [e1, g1]; simp
      rw [e] at h ⊢
      apply first_region_spec h p r _ g2
      intro x hx r' hr'
      rw [List.mem_append] at hx
      have hx' : x ∈ (pre ++ l1) ++ a :: l2 := by
        rw [List.mem_append]; exact Or.inl (List.mem_append.mpr hx)
      obtain ⟨_, hs, hwin⟩ := h.2 x hx'
      rcases hx with hx | hx
      · have := e3 x hx
        have := hwin r' hr'
        omega
      · exact findRegion_none hs (g3 x hx) r' hr'

theorem findMapped_none {maps : List FileMap} (h : MapsWF maps) {p : Nat} (hq : findMapped maps p = none) :
    ∀ j, p ≤ j → ¬ Mapped maps j := by
  unfold findMapped at hq
  split at hq
  · rename_i hreg
    unfold regionAtOrAfter at hreg
    apply not_mapped_of_ends
    split at hreg
    · rename_i hffm
      intro x hx r hr
      have := findFileMap_none hffm x hx
      have := (h.2 x hx).2.2 r hr
      omega
    · rename_i i m hffm
      obtain ⟨pre, post, e1, e2, e3, e4⟩ := findFileMap_some hffm
      subst e2
      rw [e1, List.drop_left, List.findSome?_eq_none_iff] at hreg
      intro x hx r hr
      obtain ⟨_, hs, hwin⟩ := h.2 x hx
      rw [e1, List.mem_append] at hx
      rcases hx with hx | hx
      · have := e3 x hx
        have := hwin r hr
        omega
      · exact findRegion_none hs (hreg x hx) r hr
  · simp at hq

/-! ### `findUnmapped` -/

/-- all regions of all maps -/
def allRegions (maps : List FileMap) : List Region := (maps.map (·.regions)).flatten

/-- number of regions ending above `p` -/
def remaining (maps : List FileMap) (p : Nat) : Nat :=
  ((allRegions maps).filter (fun r => decide (p < r.pfn + r.cnt))).length

theorem foldl_add_eq_sum (l : List Nat) (a : Nat) : l.foldl (· + ·) a = a + l.sum := by
  induction l generalizing a with
  | nil => simp
  | cons x l ih => rw [List.foldl_cons, ih, List.sum_cons]; omega

theorem total_regions (maps : List FileMap) :
    (maps.map (fun m => m.regions.length)).foldl (· + ·) 0 = (allRegions maps).length := by
  rw [foldl_add_eq_sum, allRegions, List.length_flatten, List.map_map]
  simp only [Nat.zero_add]
  rfl

theorem remaining_le (maps : List FileMap) (p : Nat) : remaining maps p ≤ (allRegions maps).length :=
  List.length_filter_le _ _

theorem mem_allRegions {maps : List FileMap} {m : FileMap} {r : Region} (hm : m ∈ maps) (hr : r ∈ m.regions) :
    r ∈ allRegions maps := by
  unfold allRegions
  rw [List.mem_flatten]
  exact ⟨m.regions, List.mem_map.mpr ⟨m, hm, rfl⟩, hr⟩

theorem filter_length_lt {α : Type} (P Q : α → Bool) (l : List α) (himp : ∀ x, Q x = true → P x = true)
    (x0 : α) (hx : x0 ∈ l) (hp : P x0 = true) (hq : Q x0 = false) :
    (l.filter Q).length < (l.filter P).length := by
  induction l with
  | nil => simp at hx
  | cons a l ih =>
    have hle : (l.filter Q).length ≤ (l.filter P).length := by
      clear ih hx
      induction l with
      | nil => simp
      | cons b l ih2 =>
        rw [List.filter_cons, List.filter_cons]
        by_cases hb : Q b = true
        · rw [if_pos hb, if_pos (himp b hb)]; simp; exact ih2
        · rw [if_neg hb]; split
          · simp; omega
          · exact ih2
    rw [List.mem_cons] at hx
    rw [List.filter_cons, List.filter_cons]
    rcases hx with rfl | hx
    · rw [if_pos hp, if_neg (by simp [hq])]; simp; omega
    · have := ih hx
      by_cases hb : Q a = true
      · rw [if_pos hb, if_pos (himp a hb)]; simp; exact this
      · rw [if_neg hb]; split
        · simp; omega
        · exact this

theorem remaining_lt {maps : List FileMap} {p : Nat} {r : Region} (hr : r ∈ allRegions maps)
    (h1 : p < r.pfn + r.cnt) : remaining maps (r.pfn + r.cnt) < remaining maps p := by
  unfold remaining
  apply filter_length_lt _ _ _ _ r hr
  · simpa using h1
  · simp
  · intro x hx
    simp only [decide_eq_true_eq] at hx ⊢
    omega

/-- a frame in the window of the map found by `findFileMap` that no region of that map contains is unmapped -/
theorem not_mapped_in_map {pre post : List FileMap} {m : FileMap} (h : MapsWF (pre ++ m :: post)) {p : Nat}
    (hpre : ∀ x ∈ pre, x.endPfn ≤ p) (hp : p < m.endPfn) (hno : ∀ r ∈ m.regions, ¬ r.has p) :
    ¬ Mapped (pre ++ m :: post) p := by
  obtain ⟨w1, w2, w3⟩ := h.split
  intro ⟨m', hm', r', hr', g1, g2⟩
  have hwin := (w3 m' hm').2.2 r' hr'
  rw [List.mem_append, List.mem_cons] at hm'
  rcases hm' with hm' | rfl | hm'
  · have := hpre m' hm'; omega
  · exact hno r' hr' ⟨g1, g2⟩
  · have := w2 m' hm'; omega

theorem findUnmapped_succ (maps : List FileMap) (fuel pfn : Nat) :
    findUnmapped maps (fuel+1) pfn =
      match findFileMap maps pfn with
      | none => pfn
      | some (_, m) =>
        if m.startPfn > pfn then pfn
        else match findRegion m.regions pfn with
          | none => pfn
          | some r => if r.pfn > pfn then pfn else findUnmapped maps fuel (r.pfn + r.cnt) := rfl

theorem findUnmapped_spec' (maps : List FileMap) (h : MapsWF maps) :
    ∀ fuel p, remaining maps p < fuel →
      p ≤ findUnmapped maps fuel p ∧ ¬ Mapped maps (findUnmapped maps fuel p) ∧
        ∀ j, p ≤ j → j < findUnmapped maps fuel p → Mapped maps j := by
  intro fuel
  induction fuel with
  | zero => intro p hf; omega
  | succ fuel ih =>
    intro p hf
    rw [findUnmapped_succ]
    split
    · rename_i hffm
      refine ⟨Nat.le_refl _, ?_, fun j h1 h2 => by omega⟩
      apply not_mapped_of_ends _ p (Nat.le_refl _)
      intro x hx r hr
      have := findFileMap_none hffm x hx
      have := (h.2 x hx).2.2 r hr
      omega
    · rename_i i m hffm
      obtain ⟨pre, post, e1, e2, e3, e4⟩ := findFileMap_some hffm
      have hm : m ∈ maps := by rw [e1]; simp
      obtain ⟨_, hs, hwin⟩ := h.2 m hm
      split
      · rename_i hst
        refine ⟨Nat.le_refl _, ?_, fun j h1 h2 => by omega⟩
        rw [e1] at h ⊢
        apply not_mapped_in_map h e3 e4
        intro r hr ⟨g1, g2⟩
        have := hwin r hr; omega
      · split
        · rename_i hfr
          refine ⟨Nat.le_refl _, ?_, fun j h1 h2 => by omega⟩
          rw [e1] at h ⊢
          apply not_mapped_in_map h e3 e4
          intro r hr ⟨g1, g2⟩
          have := findRegion_none hs hfr r hr; omega
        · rename_i r hfr
          obtain ⟨f1, f2, f3⟩ := findRegion_some hs hfr
          split
          · rename_i hgt
            refine ⟨Nat.le_refl _, ?_, fun j h1 h2 => by omega⟩
            rw [e1] at h ⊢
            apply not_mapped_in_map h e3 e4
            intro r' hr' ⟨g1, g2⟩
            have := f3 r' hr' (by omega); omega
          · rename_i hle
            have hlt := remaining_lt (mem_allRegions hm f1) f2
            obtain ⟨i1, i2, i3⟩ := ih (r.pfn + r.cnt) (by omega)
            refine ⟨by omega, i2, ?_⟩
            intro j hj1 hj2
            by_cases hjr : j < r.pfn + r.cnt
            · exact ⟨m, hm, r, f1, by omega, hjr⟩
            · exact i3 j (by omega) hj2

end Kdf.Lemmas.Pfn
