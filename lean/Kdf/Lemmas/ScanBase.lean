import Kdf.Model.Scan
import Kdf.Model.PgtArch
import Kdf.Lemmas.Pgt
import Kdf.Lemmas.PgtStep
import Kdf.Lemmas.PgtSim
import Kdf.Lemmas.PgtForm
import Kdf.Props.C02
/-! Base lemmas for C08: arithmetic of the index split, list updates of `idx[]`, the invariant
`At` ("`s` is the walk state of `va` at the table of level `r`") and the one-step case analysis. -/
namespace Kdf.Lemmas.Scan
open Kdf.Model.Pgt Kdf.Model.Scan Kdf.Model.PgtArch Kdf.Spec.ArchWalk Kdf.Lemmas.Pgt

/-- same as `X64Form` of `Kdf.Lemmas.Scan` (definitionally) -/
def XF (pf : PagingForm) : Prop :=
  pf.fmt = .x86_64 ∧ (pf.fieldsz = [12, 9, 9, 9, 9] ∨ pf.fieldsz = [12, 9, 9, 9, 9, 9])

/-! ## facts about the two forms -/

theorem xf_len {pf : PagingForm} (h : XF pf) : pf.fieldsz.length = 5 ∨ pf.fieldsz.length = 6 := by
  rcases h.2 with h | h <;> rw [h] <;> simp

theorem xf_fld {pf : PagingForm} (h : XF pf) (i : Nat) (h1 : 1 ≤ i) (h2 : i < pf.fieldsz.length) :
    pf.fieldsz.getD i 0 = 9 := by
  rcases h.2 with h | h <;> rw [h] at h2 ⊢ <;> simp only [List.length_cons, List.length_nil] at h2
  · match i, h1, h2 with
    | 1, _, _ => rfl
    | 2, _, _ => rfl
    | 3, _, _ => rfl
    | 4, _, _ => rfl
  · match i, h1, h2 with
    | 1, _, _ => rfl
    | 2, _, _ => rfl
    | 3, _, _ => rfl
    | 4, _, _ => rfl
    | 5, _, _ => rfl

theorem xf_fld0 {pf : PagingForm} (h : XF pf) : pf.fieldsz.getD 0 0 = 12 := by
  rcases h.2 with h | h <;> rw [h] <;> rfl

theorem xf_sb {pf : PagingForm} (h : XF pf) (i : Nat) (h1 : 1 ≤ i) (h2 : i ≤ pf.fieldsz.length) :
    spanBits pf.fieldsz i = 12 + 9 * (i - 1) := by
  rcases h.2 with h | h <;> rw [h] at h2 ⊢ <;> simp only [List.length_cons, List.length_nil] at h2
  · match i, h1, h2 with
    | 1, _, _ => rfl
    | 2, _, _ => rfl
    | 3, _, _ => rfl
    | 4, _, _ => rfl
    | 5, _, _ => rfl
  · match i, h1, h2 with
    | 1, _, _ => rfl
    | 2, _, _ => rfl
    | 3, _, _ => rfl
    | 4, _, _ => rfl
    | 5, _, _ => rfl
    | 6, _, _ => rfl

theorem xf_ok {pf : PagingForm} (h : XF pf) : FieldsOK pf.fieldsz := by
  rcases h.2 with h | h <;> rw [h] <;> decide

theorem xf_arch {pf : PagingForm} (h : XF pf) : archForm pf = true := by
  rcases h.2 with h' | h' <;> simp [archForm, h.1, h']

theorem xf_tableSize {pf : PagingForm} (h : XF pf) (i : Nat) (h1 : 1 ≤ i) (h2 : i < pf.fieldsz.length) :
    tableSize pf i = some 512 := by
  have := xf_fld h i h1 h2
  rw [List.getD_eq_getElem?_getD] at this
  unfold tableSize
  cases hq : pf.fieldsz[i]? with
  | none => rw [hq] at this; simp at this
  | some b => rw [hq] at this; simp at this; subst this; rfl

theorem xf_tableSize0 {pf : PagingForm} (h : XF pf) : tableSize pf 0 = some 4096 := by
  rcases h.2 with h | h <;> simp [tableSize, h]

/-! ## arithmetic -/

theorem div_high {x y p a : Nat} (h : x / 2^p = y / 2^p) (hpa : p ≤ a) : x / 2^a = y / 2^a := by
  have : (2:Nat)^a = 2^p * 2^(a-p) := pow_split hpa
  rw [this, ← Nat.div_div_eq_div_mul, ← Nat.div_div_eq_div_mul, h]

theorem idx_low_zero (m p a b : Nat) (h : a + b ≤ p) : (m * 2^p) / 2^a % 2^b = 0 := by
  have e : (2:Nat)^p = 2^(p - a - b) * 2^b * 2^a := by
    rw [← Nat.pow_add, ← Nat.pow_add]; congr 1; omega
  rw [e, ← Nat.mul_assoc, Nat.mul_div_cancel _ (Nat.two_pow_pos a), ← Nat.mul_assoc, Nat.mul_mod_left]

/-- all-ones low fields of `m * 2^p - 1` -/
theorem idx_low_ones (m p a b : Nat) (hm : 1 ≤ m) (h : a + b ≤ p) :
    (m * 2^p - 1) / 2^a % 2^b = 2^b - 1 := by
  have e : (2:Nat)^p = 2^(p - a - b) * 2^b * 2^a := by
    rw [← Nat.pow_add, ← Nat.pow_add]; congr 1; omega
  have hA : 0 < (2:Nat)^a := Nat.two_pow_pos a
  have hB : 0 < (2:Nat)^b := Nat.two_pow_pos b
  have hC : 0 < (2:Nat)^(p-a-b) := Nat.two_pow_pos _
  generalize (2:Nat)^a = A at *
  generalize (2:Nat)^b = B at *
  generalize (2:Nat)^(p-a-b) = C at *
  rw [e]
  have hk : 1 ≤ m * C := Nat.mul_pos hm hC
  obtain ⟨k, hk'⟩ : ∃ k, m * C = k + 1 := ⟨m * C - 1, by omega⟩
  have e2 : m * (C * B * A) = (m * C) * B * A := by
    rw [Nat.mul_assoc, Nat.mul_assoc, Nat.mul_assoc]
  rw [e2, hk']
  -- ((k+1)*B*A - 1) / A = (k+1)*B - 1
  have h1 : ((k + 1) * B * A - 1) / A = (k + 1) * B - 1 := by
    have hpos : 1 ≤ (k+1) * B := Nat.mul_pos (by omega) hB
    obtain ⟨j, hj⟩ : ∃ j, (k+1) * B = j + 1 := ⟨(k+1)*B - 1, by omega⟩
    rw [hj, Nat.add_mul, Nat.one_mul]
    have : j * A + A - 1 = j * A + (A - 1) := by omega
    rw [this, Nat.mul_comm j A, Nat.mul_add_div hA, Nat.div_eq_of_lt (by omega)]
    omega
  rw [h1]
  have : (k + 1) * B - 1 = k * B + (B - 1) := by rw [Nat.add_mul]; omega
  rw [this, Nat.mul_comm k B, Nat.mul_add_mod, Nat.mod_eq_of_lt (by omega)]

theorem div_range {E x q : Nat} (hE : 0 < E) : x / E = q ↔ q * E ≤ x ∧ x < (q + 1) * E := by
  rw [Nat.div_eq_iff hE, Nat.add_mul]; omega

theorem or_mask (x p : Nat) : x ||| (2^p - 1) = x / 2^p * 2^p + (2^p - 1) := by
  rw [← or_eq_add _ _ _ (by have := Nat.two_pow_pos p; omega)]
  apply Nat.eq_of_testBit_eq
  intro i
  rw [Nat.testBit_or, Nat.testBit_or, Nat.testBit_two_pow_sub_one, Nat.testBit_mul_two_pow,
    Nat.testBit_div_two_pow]
  by_cases h : i < p
  · simp [h]
  · have h1 : p ≤ i := by omega
    have h2 : i - p + p = i := by omega
    simp [h, h1, h2]

theorem mod_of_mul_pow {m p k : Nat} (h : k ≤ p) : m * 2^p % 2^k = 0 := by
  rw [pow_split h, Nat.mul_left_comm, Nat.mul_mod_right]

/-! ## list updates -/

theorem idxAt_setIdx (s : Step) (j w i : Nat) :
    idxAt (setIdx s j w) i = if i = j ∧ j < s.idx.length then w else idxAt s i := by
  simp only [idxAt, setIdx, List.getD_eq_getElem?_getD, List.getElem?_set]
  by_cases h : j = i
  · subst h
    by_cases h2 : j < s.idx.length
    · simp [h2]
    · simp [h2]
  · have : ¬ i = j := fun e => h e.symm
    simp [h, this]

theorem idxAt_fillLow (s : Step) (v : Nat → Nat) (i : Nat) :
    idxAt (fillLow s v) i = if i < s.remain - 1 ∧ i < s.idx.length then v i else idxAt s i := by
  simp only [idxAt, fillLow, List.getD_eq_getElem?_getD, List.getElem?_mapIdx]
  by_cases h2 : i < s.idx.length
  · rw [List.getElem?_eq_getElem h2]
    by_cases h1 : i < s.remain - 1
    · simp [h1, h2]
    · simp [h1]
  · have : s.idx[i]? = none := List.getElem?_eq_none (by omega)
    simp [h2]

theorem fillLow_len (s : Step) (v : Nat → Nat) : (fillLow s v).idx.length = s.idx.length := by
  simp [fillLow]

theorem setIdx_len (s : Step) (j w : Nat) : (setIdx s j w).idx.length = s.idx.length := by
  simp [setIdx]

/-! ## the configuration and the semantic walk -/

structure Cfg where
  mem : Mem
  t : Nat
  root : FullAddr
  pteMask : Nat
  pf : PagingForm

def Cfg.meth (c : Cfg) : Meth := .pgt c.t c.root c.pteMask c.pf
def Cfg.sf (c : Cfg) : StepFn := stepOnce extra c.mem c.meth
def Cfg.n (c : Cfg) : Nat := c.pf.fieldsz.length
def Cfg.sb (c : Cfg) (i : Nat) : Nat := spanBits c.pf.fieldsz i

/-- the architectural descent from a table -/
def Dsc (c : Cfg) (x j : Nat) (b : FullAddr) : Except XStatus FullAddr :=
  descend decodeX86_64 c.mem c.pf.fieldsz 8 c.t c.pteMask x j b

/-- the architectural descent from the root (the walk without the canonical-address check) -/
def G (c : Cfg) (x : Nat) : Except XStatus FullAddr := Dsc c x (c.n - 1) c.root

structure At (c : Cfg) (va r : Nat) (s : Step) : Prop where
  rem : s.remain = r
  inv : IdxInv c.pf.fieldsz va s
  len : s.idx.length = 9
  esz : s.elemsz = 8
  base : ∀ x, x / 2^(c.sb r) = va / 2^(c.sb r) → G c x = Dsc c x (r - 1) s.base

theorem decode_ne_invalid (r pte : Nat) : decodeX86_64 r pte ≠ .invalid := by
  unfold decodeX86_64
  repeat' split
  all_goals simp

inductive StepCase (c : Cfg) (va r : Nat) (s : Step) : Prop
  | err (e : XStatus) (hsf : c.sf s = .error e) (hne : e ≠ .ok)
      (hall : ∀ x, x / 2^(c.sb (r-1)) = va / 2^(c.sb (r-1)) → G c x = .error e)
  | leaf (s1 s2 : Step) (h1 : c.sf s = .ok s1) (hr : s1.remain = 1) (h2 : c.sf s1 = .ok s2)
      (hall : ∀ x, x / 2^(c.sb (r-1)) = va / 2^(c.sb (r-1)) → ∃ b, G c x = .ok b)
      (hva : G c va = .ok s2.base)
  | table (s1 : Step) (h1 : c.sf s = .ok s1) (hat : At c va (r-1) s1) (hr : 3 ≤ r)

theorem sf_eq (c : Cfg) (s : Step) (h : 2 ≤ s.remain) :
    c.sf s = nextStepPgt extra c.mem c.t c.pteMask c.pf (decr s) := by
  have h0 : ¬ s.remain = 0 := by omega
  have h1 : ¬ s.remain - 1 = 0 := by omega
  simp only [Cfg.sf, stepOnce, h0, h1, if_false, Cfg.meth, nextStep]
  rfl

theorem sf_last (c : Cfg) (s : Step) (h : s.remain = 1) :
    c.sf s = .ok { s with remain := 0, elemsz := 0,
                          base := ⟨(s.base.addr + idxAt s 0 * s.elemsz) % W, c.t⟩ } := by
  simp [Cfg.sf, stepOnce, h, Cfg.meth, Meth.targetAs]

theorem stepCase (c : Cfg) (hpf : XF c.pf) (hmask : c.pteMask < W)
    (hmemok : ∀ as a sz, c.mem as a sz ≠ .error .ok) (va r : Nat) (s : Step)
    (h : At c va r s) (h2 : 2 ≤ r) (hn : r ≤ c.n) : StepCase c va r s := by
  obtain ⟨j, rfl⟩ : ∃ j, r = j + 2 := ⟨r - 2, by omega⟩
  have hok := xf_ok hpf
  obtain ⟨_, hl, _, hspan, _⟩ := hok
  have hsf := sf_eq c s (by rw [h.rem]; omega)
  have hdr : (decr s).remain = j + 1 := by simp [decr, h.rem]
  have hs := stepSim_x86_64 c.mem c.t c.pteMask c.pf va hpf.1 hmask hspan (j+1) (decr s)
    (by omega) (by have : c.n = c.pf.fieldsz.length := rfl; omega) hdr (h.inv.of_idx_eq rfl)
  have hidx : idxAt s (j+1) = va / 2^(spanBits c.pf.fieldsz (j+1)) % 2^(c.pf.fieldsz.getD (j+1) 0) :=
    h.inv.val (j+1) (by have : c.n = c.pf.fieldsz.length := rfl; omega)
  have haddr : (decr s).base.addr =
      (s.base.addr + va / 2^(spanBits c.pf.fieldsz (j+1)) % 2^(c.pf.fieldsz.getD (j+1) 0) * 8) % W := by
    simp only [decr, h.rem, h.esz]
    rw [show j + 2 - 1 = j + 1 from rfl, hidx]
  have has : (decr s).base.as = s.base.as := rfl
  rw [has, haddr] at hs
  have e1 : j + 2 - 1 = j + 1 := rfl
  -- the descent of every `x` in the same entry reads the same PTE
  have hD : ∀ x, x / 2^(c.sb (j+1)) = va / 2^(c.sb (j+1)) →
      Dsc c x (j+1) s.base =
        match c.mem s.base.as ((s.base.addr + va / 2^(spanBits c.pf.fieldsz (j+1)) %
            2^(c.pf.fieldsz.getD (j+1) 0) * 8) % W) 8 with
        | .error e => .error e
        | .ok raw =>
          match decodeX86_64 (j+1) (raw &&& ((W - 1) ^^^ c.pteMask)) with
          | .notPresent => .error .notpresent
          | .invalid => .error .invalid
          | .leaf a => .ok ⟨(a + x % 2^(spanBits c.pf.fieldsz (j+1))) % W, c.t⟩
          | .table a => Dsc c x j ⟨a, c.t⟩ := by
    intro x hx
    have hx' : x / 2^(spanBits c.pf.fieldsz (j+1)) = va / 2^(spanBits c.pf.fieldsz (j+1)) := hx
    simp only [Dsc]
    rw [descend]
    simp only [hx']
    rfl
  have hG : ∀ x, x / 2^(c.sb (j+1)) = va / 2^(c.sb (j+1)) → G c x = Dsc c x (j+1) s.base := by
    intro x hx
    have := h.base x (div_high hx (spanBits_mono _ (by omega)))
    rw [e1] at this
    exact this
  cases hm : c.mem s.base.as ((s.base.addr + va / 2^(spanBits c.pf.fieldsz (j+1)) %
            2^(c.pf.fieldsz.getD (j+1) 0) * 8) % W) 8 with
  | error e =>
    rw [hm] at hs; simp only [] at hs
    refine .err e (by rw [hsf]; exact hs) (fun he => hmemok _ _ _ (by rw [hm, he])) ?_
    intro x hx
    rw [e1] at hx
    rw [hG x hx, hD x hx, hm]
  | ok raw =>
    rw [hm] at hs; simp only [] at hs
    cases hd : decodeX86_64 (j+1) (raw &&& ((W - 1) ^^^ c.pteMask)) with
    | notPresent =>
      rw [hd] at hs; simp only [SimRes] at hs
      refine .err .notpresent (by rw [hsf]; exact hs) (by simp) ?_
      intro x hx
      rw [e1] at hx
      rw [hG x hx, hD x hx, hm]; simp only [hd]
    | invalid => exact absurd hd (decode_ne_invalid _ _)
    | leaf a =>
      rw [hd] at hs; simp only [SimRes] at hs
      obtain ⟨s2, h1, h2', h3, h4, h5⟩ := hs
      refine .leaf s2 _ (by rw [hsf]; exact h1) h2' (sf_last c s2 h2') ?_ ?_
      · intro x hx
        rw [e1] at hx
        rw [hG x hx, hD x hx, hm]; simp only [hd]
        exact ⟨_, rfl⟩
      · rw [hG va rfl, hD va rfl, hm]; simp only [hd]
        rw [h3, h4, h5, Nat.mul_one]
    | table a =>
      rw [hd] at hs; simp only [SimRes] at hs
      obtain ⟨h2j, s2, h1, h2', h3, h4, h5⟩ := hs
      refine .table s2 (by rw [hsf]; exact h1) ?_ (by omega)
      rw [e1]
      refine ⟨h2', h.inv.of_idx_eq h4, by rw [h4]; exact h.len, by rw [h3]; exact h.esz, ?_⟩
      intro x hx
      rw [hG x hx, hD x hx, hm]; simp only [hd]
      rw [h5]; rfl

/-! ## bridge to `walk` -/

theorem walk_eq_G (c : Cfg) (hpf : XF c.pf) (hmask : c.pteMask < W) (hroot : c.root.as ≠ NOADDR)
    (x : Nat) (hc : canonical .signed (spanBits c.pf.fieldsz c.pf.fieldsz.length) x = true) :
    (walk extra c.mem c.meth x).map (·.base) = G c x := by
  have := walk_pgt_x86_64 c.mem c.t c.root c.pteMask c.pf x hpf.1 (xf_arch hpf) hmask
  rw [Cfg.meth, this]
  simp only [specXlat, formatSpec, hpf.1, archWalk, hroot, if_false, hc, Bool.not_true,
    Bool.false_eq_true]
  rfl

theorem map_error_iff {r : Except XStatus Step} {e : XStatus} :
    r.map (·.base) = .error e ↔ r = .error e := by
  cases r <;> simp [Except.map]

theorem map_ok_exists {r : Except XStatus Step} {b : FullAddr} (h : r.map (·.base) = .ok b) :
    ∃ s, r = .ok s := by
  cases r with
  | error e => simp [Except.map] at h
  | ok s => exact ⟨s, rfl⟩

/-- every address of an interval inside one canonical half is canonical -/
theorem canon_of_half {pf : PagingForm} (hpf : XF pf) (lo hi x : Nat)
    (hh : lo ≤ hi ∧ hi < W ∧ (hi < 2^(vaddrBits pf - 1) ∨ W - 2^(vaddrBits pf - 1) ≤ lo))
    (h1 : lo ≤ x) (h2 : x ≤ hi) :
    canonical .signed (spanBits pf.fieldsz pf.fieldsz.length) x = true := by
  obtain ⟨hlh, hhi, hhalf⟩ := hh
  rw [← vaddrBits_eq]
  rcases hpf.2 with h | h
  · have hv : vaddrBits pf = 48 := by simp [vaddrBits, h]
    rw [hv] at hhalf ⊢
    simp only [canonical, W] at *
    simp only [Nat.reducePow, Nat.reduceSub, Nat.reduceDiv] at *
    split <;> simp only [decide_eq_true_eq] <;> omega
  · have hv : vaddrBits pf = 57 := by simp [vaddrBits, h]
    rw [hv] at hhalf ⊢
    simp only [canonical, W] at *
    simp only [Nat.reducePow, Nat.reduceSub, Nat.reduceDiv] at *
    split <;> simp only [decide_eq_true_eq] <;> omega

/-- `first_step` on a canonical address -/
theorem firstStep_ok (c : Cfg) (hpf : XF c.pf) (hroot : c.root.as ≠ NOADDR) (x : Nat)
    (hc : canonical .signed (spanBits c.pf.fieldsz c.pf.fieldsz.length) x = true) :
    firstStep c.meth x = .ok (initStep c.root c.pf x) := by
  obtain ⟨h2, hl, hlast, _, _⟩ := xf_ok hpf
  have := firstOK_signed c.t c.root c.pteMask c.pf x (by simp only [firstStep, hpf.1]) hl (by omega) hlast
  unfold FirstOK at this
  rw [Cfg.meth, this]
  simp [hroot, hc]

theorem firstStep_nodata (c : Cfg) (hpf : XF c.pf) (hroot : c.root.as = NOADDR) (x : Nat) :
    firstStep c.meth x = .error .nodata := by
  simp [Cfg.meth, firstStep, hpf.1, firstStepPgtGeneric, hroot, bind, Except.bind]

theorem at_init (c : Cfg) (hpf : XF c.pf) (x : Nat) : At c x c.n (initStep c.root c.pf x) := by
  obtain ⟨h2, hl, hlast, _, _⟩ := xf_ok hpf
  refine ⟨rfl, initStep_inv _ _ _ hl, ?_, ?_, fun _ _ => rfl⟩
  · simp only [initStep, List.length_append, split_length, List.length_replicate]
    rcases xf_len hpf with h | h <;> omega
  · have h' : c.pf.fieldsz.length > 1 := by omega
    simp [initStep, hpf.1, ptevalShift, h']

end Kdf.Lemmas.Scan
