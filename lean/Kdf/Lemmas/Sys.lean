import Kdf.Model.Sys
/-!
# Helper lemmas for C09 (`Kdf/Model/Sys.lean`)
-/
namespace Kdf.Lemmas.Sys
open Kdf.Model.Pgt Kdf.Model.Sys
open Kdf.Model (Map.mapSearch Map.searchFrom Map.NONE)

/-! ## `map_search` answers NONE or a method stored in the map -/

theorem searchFrom_mem (m : Kdf.Model.Map.Map) (raddr a : Nat) :
    Kdf.Model.Map.searchFrom m raddr a = Kdf.Model.Map.NONE ∨
    ∃ r ∈ m, r.meth = Kdf.Model.Map.searchFrom m raddr a := by
  induction m generalizing raddr with
  | nil => left; rfl
  | cons r rs ih =>
    unfold Kdf.Model.Map.searchFrom
    split
    · right; exact ⟨r, List.mem_cons_self, rfl⟩
    · rcases ih ((raddr + r.endoff + 1) % Kdf.Model.Map.W) with h | ⟨q, hq, he⟩
      · left; exact h
      · right; exact ⟨q, List.mem_cons_of_mem _ hq, he⟩

theorem mapSearch_mem (m : Kdf.Model.Map.Map) (a : Nat) :
    Kdf.Model.Map.mapSearch m a = Kdf.Model.Map.NONE ∨
    ∃ r ∈ m, r.meth = Kdf.Model.Map.mapSearch m a :=
  searchFrom_mem m 0 a

/-! ## capabilities -/

theorem capsHas_lt {caps as : Nat} (h : capsHas caps as = true) : as < 3 := by
  unfold capsHas at h
  simp at h
  exact h.1

theorem capsHas_capsOf {t as : Nat} (h : capsHas (capsOf t) as = true) : as = t ∧ t < 3 := by
  have h3 := capsHas_lt h
  unfold capsHas capsOf at h
  by_cases ht : t < 3
  · simp [ht] at h
    have : as = 0 ∨ as = 1 ∨ as = 2 := by omega
    have : t = 0 ∨ t = 1 ∨ t = 2 := by omega
    rcases ‹as = 0 ∨ as = 1 ∨ as = 2› with rfl | rfl | rfl <;>
      rcases ‹t = 0 ∨ t = 1 ∨ t = 2› with rfl | rfl | rfl <;> simp_all
  · simp [ht] at h

/-! ## the memory order: `notimpl` is the least informative answer -/

/-- `mem1` answers `notimpl` or the same as `mem2` -/
def MemLe (mem1 mem2 : Mem) : Prop :=
  ∀ as a s, mem1 as a s = .error .notimpl ∨ mem1 as a s = mem2 as a s

/-- `wk1` answers `notimpl` or the same as `wk2` -/
def WalkLe (wk1 wk2 : WalkFn) : Prop :=
  ∀ m x, wk1 m x = .error .notimpl ∨ wk1 m x = wk2 m x

theorem readPte_le {mem1 mem2 : Mem} (h : MemLe mem1 mem2) (sz pm : Nat) (s : Step) :
    readPte mem1 sz pm s = .error .notimpl ∨ readPte mem1 sz pm s = readPte mem2 sz pm s := by
  unfold readPte
  rcases h s.base.as s.base.addr sz with h1 | h1
  · left; rw [h1]
  · right; rw [h1]

/-- a computation that starts with `readPte` is monotone -/
theorem bind_readPte_le {mem1 mem2 : Mem} (h : MemLe mem1 mem2) (sz pm : Nat) (s : Step)
    (k : Step × Nat → Except XStatus Step) :
    (readPte mem1 sz pm s >>= k) = .error .notimpl ∨
    (readPte mem1 sz pm s >>= k) = (readPte mem2 sz pm s >>= k) := by
  rcases readPte_le h sz pm s with h1 | h1
  · left; rw [h1]; rfl
  · right; rw [h1]

theorem pgtX86_64_le {mem1 mem2 : Mem} (h : MemLe mem1 mem2) (t pm : Nat) (pf : PagingForm) (s : Step) :
    pgtX86_64 mem1 t pm pf s = .error .notimpl ∨ pgtX86_64 mem1 t pm pf s = pgtX86_64 mem2 t pm pf s := by
  unfold pgtX86_64
  exact bind_readPte_le h 8 pm s _

theorem pgtIa32_le {mem1 mem2 : Mem} (h : MemLe mem1 mem2) (t pm : Nat) (pf : PagingForm) (s : Step) :
    pgtIa32 mem1 t pm pf s = .error .notimpl ∨ pgtIa32 mem1 t pm pf s = pgtIa32 mem2 t pm pf s := by
  unfold pgtIa32
  exact bind_readPte_le h 4 pm s _

theorem pgtIa32Pae_le {mem1 mem2 : Mem} (h : MemLe mem1 mem2) (t pm : Nat) (pf : PagingForm) (s : Step) :
    pgtIa32Pae mem1 t pm pf s = .error .notimpl ∨ pgtIa32Pae mem1 t pm pf s = pgtIa32Pae mem2 t pm pf s := by
  unfold pgtIa32Pae
  exact bind_readPte_le h 8 pm s _

theorem pgtRiscv64_le {mem1 mem2 : Mem} (h : MemLe mem1 mem2) (t pm : Nat) (pf : PagingForm) (s : Step) :
    pgtRiscv64 mem1 t pm pf s = .error .notimpl ∨ pgtRiscv64 mem1 t pm pf s = pgtRiscv64 mem2 t pm pf s := by
  unfold pgtRiscv64
  exact bind_readPte_le h 8 pm s _

theorem pgtPfn_le {mem1 mem2 : Mem} (h : MemLe mem1 mem2) (sz t pm : Nat) (pf : PagingForm) (s : Step) :
    pgtPfn mem1 sz t pm pf s = .error .notimpl ∨ pgtPfn mem1 sz t pm pf s = pgtPfn mem2 sz t pm pf s := by
  unfold pgtPfn
  exact bind_readPte_le h sz pm s _

theorem nextMemarr_le {mem1 mem2 : Mem} (h : MemLe mem1 mem2) (t shift valsz : Nat) (s : Step) :
    nextMemarr mem1 t shift valsz s = .error .notimpl ∨
    nextMemarr mem1 t shift valsz s = nextMemarr mem2 t shift valsz s := by
  unfold nextMemarr
  split
  · rcases h s.base.as s.base.addr valsz with h1 | h1
    · left; rw [h1]
    · right; rw [h1]
  · left; rfl

theorem nextStep_le {mem1 mem2 : Mem} (h : MemLe mem1 mem2) (m : Meth) (s : Step) :
    nextStep noExtra mem1 m s = .error .notimpl ∨ nextStep noExtra mem1 m s = nextStep noExtra mem2 m s := by
  unfold nextStep
  cases m with
  | nometh => right; rfl
  | linear _ _ => right; rfl
  | lookup _ _ _ => right; rfl
  | custom _ _ _ _ => right; rfl
  | memarr t b sh es vs => exact nextMemarr_le h t sh vs s
  | pgt t root pm pf =>
    show nextStepPgt noExtra mem1 t pm pf s = _ ∨ nextStepPgt noExtra mem1 t pm pf s = nextStepPgt noExtra mem2 t pm pf s
    unfold nextStepPgt
    cases hf : pf.fmt <;> simp only []
    all_goals first
      | exact pgtPfn_le h _ t pm pf s
      | exact pgtIa32_le h t pm pf s
      | exact pgtIa32Pae_le h t pm pf s
      | exact pgtRiscv64_le h t pm pf s
      | exact pgtX86_64_le h t pm pf s
      | (right; rfl)
      | (right; trivial)
      | trivial

theorem walkLoop_le {mem1 mem2 : Mem} (h : MemLe mem1 mem2) (m : Meth) (fuel : Nat) (s : Step) :
    walkLoop noExtra mem1 m fuel s = .error .notimpl ∨
    walkLoop noExtra mem1 m fuel s = walkLoop noExtra mem2 m fuel s := by
  induction fuel generalizing s with
  | zero => right; rfl
  | succ n ih =>
    unfold walkLoop
    simp only []
    split
    · right; rfl
    · rcases nextStep_le h m { s with remain := s.remain - 1, base := { s.base with addr := (s.base.addr + idxAt s (s.remain - 1) * s.elemsz) % W } } with h1 | h1
      · left; rw [h1]
      · rw [h1]
        cases nextStep noExtra mem2 m _ with
        | error e => right; rfl
        | ok s2 => exact ih s2

theorem walk_le {mem1 mem2 : Mem} (h : MemLe mem1 mem2) : WalkLe (walk noExtra mem1) (walk noExtra mem2) := by
  intro m x
  unfold walk
  cases firstStep m x with
  | error e => right; rfl
  | ok s =>
    simp only []
    split
    · right; rfl
    · exact walkLoop_le h m _ s

/-! ## `do_op` is monotone in the walk function -/

/-- the result is not "NOTIMPL returned from the inner loop" -/
def AltRes.clean : AltRes → Prop
  | .done (.fail .notimpl) => False
  | _ => True

theorem tryAlt_le {wk1 wk2 : WalkFn} (h : WalkLe wk1 wk2) (sys : Sys) (caps : Nat) (alt : List Nat) (a : FullAddr) :
    tryAlt sys caps wk1 alt a = .done (.fail .notimpl) ∨ tryAlt sys caps wk1 alt a = tryAlt sys caps wk2 alt a := by
  induction alt with
  | nil => right; rfl
  | cons mi ms ih =>
    unfold tryAlt
    split
    · exact ih
    · split
      · right; rfl
      · exact ih
      · simp only []
        split
        · exact ih
        · split
          · right; rfl
          · right; rfl
          · rename_i meth _ _
            rcases h meth a.addr with h1 | h1
            · left; rw [h1]; simp
            · rw [h1]
              cases wk2 meth a.addr with
              | ok s => right; rfl
              | error e =>
                simp only []
                split
                · exact ih
                · right; rfl

theorem doOp_le {wk1 wk2 : WalkFn} (h : WalkLe wk1 wk2) (sys : Sys) (caps : Nat) (alts : List (List Nat)) (a : FullAddr) :
    doOp sys caps wk1 alts a = .fail .notimpl ∨ doOp sys caps wk1 alts a = doOp sys caps wk2 alts a := by
  induction alts generalizing a with
  | nil => right; rfl
  | cons alt rest ih =>
    unfold doOp
    rcases tryAlt_le h sys caps alt a with h1 | h1
    · left; rw [h1]
    · rw [h1]
      cases tryAlt sys caps wk2 alt a with
      | done r => right; rfl
      | next a' => exact ih a'

end Kdf.Lemmas.Sys
