import Kdf.Lemmas.ErrTrunc
/-! Assembly: the effect of `vadd` on a well-formed buffer (C16). -/
namespace Kdf.Lemmas.Err
open Kdf.Model.Err

theorem Shape.head_nul_iff {arr : List Byte} {o : Nat} {s : List Byte} (h : Shape arr o s) :
    arr[o]? = some 0 ↔ s = [] := by
  cases s with
  | nil => simpa using h.get_nul
  | cons x xs =>
    have h0 := h.get 0 (by simp)
    simp only [Nat.add_zero, List.getElem?_cons_zero] at h0
    have hx : x ≠ 0 := h.nz x (by simp)
    simp [h0, hx]

theorem prep_spec {e : ErrBuf} (hb : Base e) :
    Base (wrAt e false (e.bufsz - 1) [0]) ∧ (wrAt e false (e.bufsz - 1) [0]).bufsz = e.bufsz ∧
    (wrAt e false (e.bufsz - 1) [0]).dyn = e.dyn ∧
    getArr (wrAt e false (e.bufsz - 1) [0]) false = some (wrAt e false (e.bufsz - 1) [0]).buf ∧
    Shape (wrAt e false (e.bufsz - 1) [0]).buf (e.bufsz - 1) [] := by
  have hn := hb.bufsz_ge
  have hl := hb.buf_len
  have hin : e.bufsz - 1 + [0].length ≤ e.buf.length := by simp; omega
  rw [wrAt_eq (arr := e.buf) _ _ (by simp [getArr]) hin]
  have hlen := wr_len _ _ _ hin
  refine ⟨⟨by simpa [setArr] using hn, by simpa [setArr, hlen] using hl, by simpa [setArr] using hb.no_oob⟩,
    by simp [setArr], by simp [setArr], by simp [getArr], ?_⟩
  obtain ⟨a, b, hab, h1, h2⟩ := split2 e.buf (e.bufsz - 1) (by omega)
  have e1 : e.buf = a ++ b ++ [] := by simp [hab]
  simp only [setArr, Bool.false_eq_true, if_false]
  rw [e1, wr_mid' a b [] [0] _ h1.symm (by simp; omega)]
  exact ⟨by simp, a, [], by simp, h1⟩

theorem vadd_cases {e : ErrBuf} (hi : Inv e) (msg : List Byte) :
    (text e = [] ∧ room e = e.bufsz - 1 ∧
      ∀ a, vadd e msg a = vaddCore (wrAt e false (e.bufsz - 1) [0]) false (e.bufsz - 1) (e.bufsz - 1) 0 msg a) ∨
    (∃ inD arr o, getArr e inD = some arr ∧ Shape arr o (text e) ∧ text e ≠ [] ∧ (inD = true → o ≤ 1) ∧
      (inD = false → o < e.bufsz) ∧ room e = o ∧ ∀ a, vadd e msg a = vaddCore e inD o o 2 msg a) := by
  have hsa := hi.strAt
  cases hstr : e.str with
  | null =>
    rw [hstr] at hsa
    have ht : text e = [] := hsa
    exact Or.inl ⟨ht, by simp [room, ht], fun a => vadd_null e msg a hstr⟩
  | inBuf o =>
    rw [hstr] at hsa
    obtain ⟨ho, hsh⟩ := hsa
    by_cases ht : text e = []
    · refine Or.inl ⟨ht, by simp [room, ht], fun a => vadd_empty e msg a ?_⟩
      rw [hstr]; simpa [rd] using hsh.head_nul_iff.mpr ht
    · refine Or.inr ⟨false, e.buf, o, by simp [getArr], hsh, ht, by simp, fun _ => ho, by simp [room, ht, hstr],
        fun a => vadd_buf e msg a o hstr ?_⟩
      intro h0
      exact ht (hsh.head_nul_iff.mp (by simpa [rd] using h0))
  | inDyn o =>
    rw [hstr] at hsa
    obtain ⟨ho, d, hd, hsh⟩ := hsa
    by_cases ht : text e = []
    · refine Or.inl ⟨ht, by simp [room, ht], fun a => vadd_empty e msg a ?_⟩
      rw [hstr]; simpa [rd, hd] using hsh.head_nul_iff.mpr ht
    · refine Or.inr ⟨true, d, o, by simp [getArr, hd], hsh, ht, fun _ => ho, by simp, by simp [room, ht, hstr],
        fun a => vadd_dyn e msg a o hstr ?_⟩
      intro h0
      exact ht (hsh.head_nul_iff.mp (by simpa [rd, hd] using h0))

theorem chain_nil (msg : List Byte) : chain msg [] = msg := by simp [chain]
theorem chain_ne {msg old : List Byte} (h : old ≠ []) : chain msg old = msg ++ delim ++ old := by simp [chain, h]

theorem core_chain {e : ErrBuf} {inD : Bool} {arr : List Byte} {pos dlen : Nat} {old msg : List Byte}
    (hb : Base e) (h : getArr e inD = some arr) (hs : Shape arr pos old) (hm : MsgWF msg)
    (hd : (dlen = 0 ∧ old = []) ∨ (dlen = 2 ∧ old ≠ [])) (ho : inD = true → pos ≤ 1) :
    Inv (vaddCore e inD pos pos dlen msg true) ∧ text (vaddCore e inD pos pos dlen msg true) = chain msg old := by
  unfold vaddCore
  by_cases hlt : pos < msg.length + dlen
  · rw [if_pos hlt, if_pos rfl]
    rcases hd with ⟨rfl, rfl⟩ | ⟨rfl, hne⟩
    · rw [chain_nil]; exact vaddAlloc0_spec inD hb h hs hm
    · rw [chain_ne hne]; exact vaddAlloc2_spec inD hb h hs hm
  · rw [if_neg hlt]
    rcases hd with ⟨rfl, rfl⟩ | ⟨rfl, hne⟩
    · rw [chain_nil]
      have := vaddFit0_spec inD hb h hs hm (by omega) ho
      exact ⟨this.1, this.2.1⟩
    · rw [chain_ne hne]
      have := vaddFit2_spec inD hb h hs hm (by omega) ho
      exact ⟨this.1, this.2.1⟩

theorem core_fit {e : ErrBuf} {inD : Bool} {arr : List Byte} {pos dlen : Nat} {old msg : List Byte}
    (hb : Base e) (h : getArr e inD = some arr) (hs : Shape arr pos old) (hm : MsgWF msg)
    (hd : (dlen = 0 ∧ old = []) ∨ (dlen = 2 ∧ old ≠ [])) (ho : inD = true → pos ≤ 1)
    (hfit : msg.length + dlen ≤ pos) :
    vaddCore e inD pos pos dlen msg false = vaddCore e inD pos pos dlen msg true ∧
    (inD = false → (vaddCore e inD pos pos dlen msg false).dyn = e.dyn) := by
  have hlt : ¬ pos < msg.length + dlen := by omega
  unfold vaddCore
  rw [if_neg hlt, if_neg hlt]
  refine ⟨rfl, ?_⟩
  rcases hd with ⟨rfl, rfl⟩ | ⟨rfl, hne⟩
  · exact (vaddFit0_spec inD hb h hs hm (by omega) ho).2.2
  · exact (vaddFit2_spec inD hb h hs hm (by omega) ho).2.2

theorem core_trunc {e : ErrBuf} {inD : Bool} {arr : List Byte} {pos dlen : Nat} {old msg : List Byte}
    (hb : Base e) (h : getArr e inD = some arr) (hs : Shape arr pos old) (hm : MsgWF msg)
    (hd : (dlen = 0 ∧ old = [] ∧ 1 ≤ pos) ∨ (dlen = 2 ∧ old ≠ [])) (ho : inD = true → pos ≤ 1)
    (hpn : pos ≤ e.bufsz - 1) (hbuf : inD = false → arr.length = e.bufsz)
    (hnofit : pos < msg.length + dlen) :
    Inv (vaddCore e inD pos pos dlen msg false) ∧
    (text (vaddCore e inD pos pos dlen msg false)).head? = some 60 ∧
    (if pos = 0 then old.drop 1 <:+ text (vaddCore e inD pos pos dlen msg false)
      else old <:+ text (vaddCore e inD pos pos dlen msg false)) ∧
    (text (vaddCore e inD pos pos dlen msg false)).length ≤ max (e.bufsz - 1) (old.length + 1) ∧
    (inD = false → (vaddCore e inD pos pos dlen msg false).dyn = e.dyn) := by
  have hlt := hs.lt
  unfold vaddCore
  rw [if_pos hnofit, if_neg (by simp)]
  by_cases hp : pos = 0
  · subst hp
    rw [if_neg (by simp), if_pos rfl]
    rcases hd with ⟨_, _, h1⟩ | ⟨rfl, hne⟩
    · omega
    · cases old with
      | nil => exact absurd rfl hne
      | cons x xs =>
        obtain ⟨h1, h2, h3⟩ := vaddNoRoom_spec inD hb h hs
        refine ⟨h1, by rw [h2]; rfl, by rw [h2]; simp, by rw [h2]; simp; omega, h3⟩
  · rw [if_pos hp, if_neg hp]
    obtain ⟨h1, ⟨X, h2, hX⟩, h3⟩ := vaddTrunc_spec inD hb h hs hm
      (by rcases hd with ⟨h, _⟩ | ⟨h, _⟩ <;> simp [h]) (by omega) hpn hnofit
    refine ⟨h1, by rw [h2]; rfl, by rw [h2]; exact List.suffix_append _ _, ?_, h3⟩
    rw [h2]
    simp only [List.length_append, List.length_cons]
    cases inD with
    | true => have := ho rfl; omega
    | false => have := hbuf rfl; omega

/-! ### The property lemmas -/

theorem vadd_chain_aux (e : ErrBuf) (h : Inv e) (msg : List Byte) (hm : MsgWF msg) :
    Inv (vadd e msg true) ∧ text (vadd e msg true) = chain msg (text e) := by
  rcases vadd_cases h msg with ⟨ht, hr, hv⟩ | ⟨inD, arr, o, hg, hsh, hne, ho1, ho2, hr, hv⟩
  · rw [hv, ht]
    obtain ⟨hb0, hbz, hdyn, hg0, hs0⟩ := prep_spec h.base
    exact core_chain hb0 hg0 hs0 hm (Or.inl ⟨rfl, rfl⟩) (by simp)
  · rw [hv]; exact core_chain h.base hg hsh hm (Or.inr ⟨rfl, hne⟩) ho1

theorem vadd_fits_aux (e : ErrBuf) (h : Inv e) (msg : List Byte) (hm : MsgWF msg)
    (hfit : msg.length + (if text e = [] then 0 else 2) ≤ room e) :
    vadd e msg false = vadd e msg true ∧ (vadd e msg false).dyn = e.dyn := by
  rcases vadd_cases h msg with ⟨ht, hr, hv⟩ | ⟨inD, arr, o, hg, hsh, hne, ho1, ho2, hr, hv⟩
  · rw [hv, hv]
    rw [if_pos ht, hr] at hfit
    obtain ⟨hb0, hbz, hdyn, hg0, hs0⟩ := prep_spec h.base
    have := core_fit hb0 hg0 hs0 hm (Or.inl ⟨rfl, rfl⟩) (by simp) hfit
    exact ⟨this.1, (this.2 rfl).trans hdyn⟩
  · rw [hv, hv]
    rw [if_neg hne, hr] at hfit
    have := core_fit h.base hg hsh hm (Or.inr ⟨rfl, hne⟩) ho1 hfit
    refine ⟨this.1, this.2 ?_⟩
    cases inD with
    | false => rfl
    | true => have := ho1 rfl; omega

theorem vadd_trunc_aux (e : ErrBuf) (h : Inv e) (msg : List Byte) (hm : MsgWF msg)
    (hnofit : room e < msg.length + (if text e = [] then 0 else 2)) :
    Inv (vadd e msg false) ∧ (text (vadd e msg false)).head? = some 60 ∧
    (if room e = 0 then (text e).drop 1 <:+ text (vadd e msg false) else text e <:+ text (vadd e msg false)) ∧
    (text (vadd e msg false)).length ≤ max (e.bufsz - 1) ((text e).length + 1) := by
  have hn := h.bufsz_ge
  rcases vadd_cases h msg with ⟨ht, hr, hv⟩ | ⟨inD, arr, o, hg, hsh, hne, ho1, ho2, hr, hv⟩
  · rw [hv]
    rw [if_pos ht, hr] at hnofit
    obtain ⟨hb0, hbz, hdyn, hg0, hs0⟩ := prep_spec h.base
    have := core_trunc hb0 hg0 hs0 hm (Or.inl ⟨rfl, rfl, by omega⟩) (by simp) (by omega)
      (fun _ => hb0.buf_len) hnofit
    rw [hr, ht, hbz] at *
    exact ⟨this.1, this.2.1, this.2.2.1, this.2.2.2.1⟩
  · rw [hv]
    rw [if_neg hne, hr] at hnofit
    have := core_trunc h.base hg hsh hm (Or.inr ⟨rfl, hne⟩) ho1
      (by cases inD with
          | false => have := ho2 rfl; omega
          | true => have := ho1 rfl; omega)
      (fun hd => by
        subst hd
        simp only [getArr, Bool.false_eq_true, if_false, Option.some.injEq] at hg
        rw [← hg]; exact h.buf_len) hnofit
    rw [hr]
    exact ⟨this.1, this.2.1, this.2.2.1, this.2.2.2.1⟩

theorem vadd_inv_aux (e : ErrBuf) (h : Inv e) (msg : List Byte) (hm : MsgWF msg) (a : Bool) :
    Inv (vadd e msg a) := by
  cases a with
  | true => exact (vadd_chain_aux e h msg hm).1
  | false =>
    by_cases hfit : msg.length + (if text e = [] then 0 else 2) ≤ room e
    · rw [(vadd_fits_aux e h msg hm hfit).1]; exact (vadd_chain_aux e h msg hm).1
    · exact (vadd_trunc_aux e h msg hm (by omega)).1

theorem clear_inv_aux (e : ErrBuf) (h : Inv e) : Inv (clear e) ∧ text (clear e) = [] :=
  Inv.of_null (e := clear e) h.bufsz_ge h.buf_len h.no_oob rfl

theorem init_inv_aux (n : Nat) (h : 2 ≤ n) : Inv (init n) ∧ text (init n) = [] :=
  Inv.of_null (e := init n) h (by simp [init]) rfl rfl

theorem step_inv (e : ErrBuf) (h : Inv e) (o : Op) (hw : o.wf) : Inv (step e o) := by
  cases o with
  | add m a => exact vadd_inv_aux e h m hw a
  | clear => exact (clear_inv_aux e h).1

theorem foldl_step_inv (ops : List Op) : ∀ (e : ErrBuf), Inv e → (∀ o ∈ ops, o.wf) → Inv (ops.foldl step e) := by
  induction ops with
  | nil => intro e h _; exact h
  | cons o ops ih =>
    intro e h hw
    exact ih (step e o) (step_inv e h o (hw o (by simp))) (fun o' ho' => hw o' (by simp [ho']))

theorem foldl_chain (msgs : List (List Byte)) : ∀ (e : ErrBuf), Inv e → (∀ m ∈ msgs, MsgWF m) →
    text ((msgs.map (fun m => Op.add m true)).foldl step e) = msgs.foldl (fun acc m => chain m acc) (text e) := by
  induction msgs with
  | nil => intro e _ _; rfl
  | cons m msgs ih =>
    intro e h hw
    have hc := vadd_chain_aux e h m (hw m (by simp))
    simp only [List.map_cons, List.foldl_cons, step]
    rw [ih (vadd e m true) hc.1 (fun m' hm' => hw m' (by simp [hm'])), hc.2]

end Kdf.Lemmas.Err
