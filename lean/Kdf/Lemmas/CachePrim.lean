import Kdf.Lemmas.CacheFrame
/-!
The internal primitives of the page-cache model (C06): `evictEntry`, `unusedDonor`,
`reclaimData`, `ghostHit`, `missed`.
-/
set_option linter.unusedSimpArgs false
namespace Kdf.Lemmas.Cache
open Kdf.Model.Cache Kdf.Lemmas.CacheList

/-! ### Except plumbing -/

theorem bind_eq_ok {ε α β : Type} {x : Except ε α} {f : α → Except ε β} {b : β} :
    (x >>= f) = .ok b ↔ ∃ a, x = .ok a ∧ f a = .ok b := by
  cases x <;> simp [bind, Except.bind]

/-! ### `evictEntry` -/

theorem evictEntry_spec {c : Cache} {bias : Nat} {c' : Cache} {z : Nat}
    (he : evictEntry c bias = .ok (c', z)) :
    c.refcnt z = 0 ∧
      ((z ∈ c.B ∧ c' = { c with B := c.B.erase z, GB := c.GB ++ [z] }) ∨
       (z ∈ c.P ∧ c' = { c with P := c.P.erase z, GP := z :: c.GP })) := by
  unfold evictEntry at he
  simp only [] at he
  split at he
  · split at he
    · rename_i z' hz'
      simp only [Except.ok.injEq, Prod.mk.injEq] at he
      obtain ⟨rfl, rfl⟩ := he
      have hm : z' ∈ zeroRef c c.B := List.mem_of_mem_head? (by simp [hz'])
      simp only [zeroRef, List.mem_filter, decide_eq_true_eq] at hm
      exact ⟨hm.2, Or.inl ⟨hm.1, rfl⟩⟩
    · cases he
  · split at he
    · rename_i z' hz'
      simp only [Except.ok.injEq, Prod.mk.injEq] at he
      obtain ⟨rfl, rfl⟩ := he
      have hm : z' ∈ zeroRef c c.P := List.mem_of_getLast? hz'
      simp only [zeroRef, List.mem_filter, decide_eq_true_eq] at hm
      exact ⟨hm.2, Or.inr ⟨hm.1, rfl⟩⟩
    · cases he

theorem evictEntry_ok {c : Cache} (bias : Nat) (h : ∃ i ∈ c.B ++ c.P, c.refcnt i = 0) :
    ∃ c' z, evictEntry c bias = .ok (c', z) := by
  obtain ⟨i, hi, hr⟩ := h
  unfold evictEntry
  simp only []
  split
  · rename_i hc
    cases hzb : (zeroRef c c.B).head? with
    | some z => exact ⟨_, _, rfl⟩
    | none =>
      rw [List.head?_eq_none_iff] at hzb
      simp [hzb] at hc
  · rename_i hc
    cases hzp : (zeroRef c c.P).getLast? with
    | some z => exact ⟨_, _, rfl⟩
    | none =>
      exfalso
      rw [List.getLast?_eq_none_iff] at hzp
      rw [hzp] at hc
      simp only [List.length_nil, ne_eq, true_or, and_true, Decidable.not_not,
        List.length_eq_zero_iff] at hc
      rw [List.mem_append] at hi
      rcases hi with hi | hi
      · have : i ∈ zeroRef c c.B := by simp [zeroRef, List.mem_filter, hi, hr]
        rw [hc] at this; cases this
      · have : i ∈ zeroRef c c.P := by simp [zeroRef, List.mem_filter, hi, hr]
        rw [hzp] at this; cases this

/-- `evictEntry` followed by stripping the victim's buffer, on the abstract state -/
theorem evict_strip {c : Cache} {hl fl : List Nat} {st : Prop} (hlen : c.ents.length = 2 * c.cap)
    (h : InvH (abs c) hl fl st) {bias : Nat} {c' : Cache} {z : Nat}
    (he : evictEntry c bias = .ok (c', z)) :
    ∃ b, c'.dataOf z = some b ∧ z < c'.ents.length ∧ c'.ents = c.ents ∧
      c'.cap = c.cap ∧ z ∈ c.B ++ c.P ∧
      InvH ((abs c').setEnt z { c'.ent z with data := none }) (b :: hl) fl st ∧
      FrameS (abs c) ((abs c').setEnt z { c'.ent z with data := none }) ∧
      FrameG (abs c) ((abs c').setEnt z { c'.ent z with data := none }) := by
  obtain ⟨hr, ⟨hz, rfl⟩ | ⟨hz, rfl⟩⟩ := evictEntry_spec he
  · obtain ⟨b, hb, hi⟩ := InvH.evictB h (z := z) hz hr
    have hzlt : z < 2 * c.cap := h.lt_of_mem (by simp [hz])
    have hng := fun i (hi : i ∈ (abs c).GB ++ (abs c).GP) => h.not_live_of_ghost hi
    refine ⟨b, hb, by simpa [hlen] using hzlt, rfl, rfl, List.mem_append_left _ hz, hi,
      h.frame_evictB hz hr _, ?_⟩
    refine ⟨rfl, fun i hi => List.mem_append_left _ hi, fun i hi => hi, ?_⟩
    intro i hi
    have : i ≠ z := fun e => hng i hi (by simp [← e] at hz ⊢; simp [hz])
    simp [St.setEnt_ent, this, Cache.ent]
  · obtain ⟨b, hb, hi⟩ := InvH.evictP h (z := z) hz hr
    have hzlt : z < 2 * c.cap := h.lt_of_mem (by simp [hz])
    have hng := fun i (hi : i ∈ (abs c).GB ++ (abs c).GP) => h.not_live_of_ghost hi
    refine ⟨b, hb, by simpa [hlen] using hzlt, rfl, rfl, List.mem_append_right _ hz, hi,
      h.frame_evictP hz hr _, ?_⟩
    refine ⟨rfl, fun i hi => hi, fun i hi => List.mem_cons_of_mem _ hi, ?_⟩
    intro i hi
    have : i ≠ z := fun e => hng i hi (by simp [← e] at hz ⊢; simp [hz])
    simp [St.setEnt_ent, this, Cache.ent]

/-! ### `unusedDonor` and `reclaimData` -/

theorem takeWhile_nil_of_all_false {p : Nat → Bool} {l : List Nat} (h : ∀ i ∈ l, p i = false) :
    l.takeWhile p = [] := by
  cases l with
  | nil => rfl
  | cons a l => simp [List.takeWhile_cons, h a (by simp)]

theorem unusedDonor_spec (c : Cache) (u1 u2 : List Nat) (d : Nat)
    (hu1 : ∀ i ∈ u1, (c.ent i).data = none) (hu2 : ∀ i ∈ d :: u2, (c.ent i).data.isSome = true) :
    unusedDonor c (u1 ++ d :: u2) = some d := by
  unfold unusedDonor
  have hr : (u1 ++ d :: u2).reverse = u2.reverse ++ d :: u1.reverse := by simp
  rw [hr]
  have hd : (c.dataOf d).isSome = true := hu2 d (by simp)
  have htw : u1.reverse.takeWhile (fun i => (c.dataOf i).isSome) = [] :=
    takeWhile_nil_of_all_false (fun i hi => by
      have := hu1 i (by simpa using hi)
      simp [Cache.dataOf, this])
  cases hu2r : u2.reverse with
  | nil =>
    simp [List.takeWhile_cons, hd, htw]
  | cons l a' =>
    have ha' : ∀ i ∈ a', (c.dataOf i).isSome = true := by
      intro i hi
      have : i ∈ u2.reverse := by rw [hu2r]; simp [hi]
      exact hu2 i (by simp [List.mem_reverse.1 this])
    simp only [List.cons_append]
    rw [List.takeWhile_append_of_pos (by simpa using ha')]
    simp only [List.takeWhile_cons, hd, htw, if_true]
    rw [show l :: (a' ++ [d]) = (l :: a') ++ [d] from rfl, List.getLast?_append]
    rfl

theorem FrameS.of_eq {s s' : St} (hc : s'.cap = s.cap) (hB : s'.B = s.B) (hP : s'.P = s.P)
    (hF : s'.F = s.F) (he : s'.ent = s.ent) : FrameS s s' := by
  refine ⟨hc, hF, ?_, ?_, ?_⟩
  · rw [hB, hP]; exact fun _ h => h
  · rw [hB, hP]; exact fun _ h _ => h
  · rw [he]; exact fun _ _ => rfl

set_option maxHeartbeats 400000 in
/-- `reclaim_data` succeeds whenever a lookup is not refused, and leaves exactly the
returned buffer without an owner -/
theorem reclaimData_spec {c : Cache} {st : Prop} (h : InvS c st)
    (hp : c.pinned + c.F.length < c.cap) :
    ∃ c1 b, reclaimData c = .ok (c1, some b) ∧ c1.ents.length = c.ents.length ∧ c1.cap = c.cap ∧
      InvH (abs c1) [b] [] st ∧ FrameS (abs c) (abs c1) ∧ FrameG (abs c) (abs c1) := by
  obtain ⟨hlen, hI⟩ := h
  obtain ⟨u1, u2, hU, hu1, hu2⟩ := hI.u_shape
  have hcnt := hI.count hU hu1 hu2
  simp only [abs_U, abs_ent, abs_B, abs_P, abs_F, abs_cap] at hU hu1 hu2 hcnt
  unfold reclaimData
  split
  · rename_i hlt
    cases u2 with
    | nil => simp at hcnt; omega
    | cons d u2 =>
      rw [hU, unusedDonor_spec c u1 u2 d hu1 hu2]
      obtain ⟨b, hb, hI'⟩ := InvH.donor hI (d := d) hU hu1 hu2
      have hdU : d ∈ (abs c).U := by simp [hU]
      have hdlt : d < c.ents.length := by
        rw [hlen]; exact hI.lt_of_mem (by simp [hU])
      have habs := abs_modEnt c (fun e => { e with data := none }) hdlt
      refine ⟨c.modEnt d (fun e => { e with data := none }), b, ?_, by simp, rfl, ?_, ?_, ?_⟩
      · simp only [Cache.dataOf]; rw [show c.ent d = (abs c).ent d from rfl, hb]
      · rw [habs]; exact hI'
      · rw [habs]; exact FrameS.setEnt_other (hI.not_live_of_U hdU) _
      · rw [habs]
        refine ⟨rfl, fun _ h => h, fun _ h => h, ?_⟩
        intro i hi
        have hnd := hI.nodup
        have : i ≠ d := by
          simp only [List.nodup_append, List.mem_append, abs_U, abs_GB, abs_GP] at hnd hi hdU
          grind
        simp [St.setEnt_ent, this]
  · rename_i hge
    have hz : ∃ i ∈ c.B ++ c.P, c.refcnt i = 0 := exists_zero_ref c (by omega)
    obtain ⟨c', z, hev⟩ := evictEntry_ok 0 hz
    obtain ⟨b, hb, hzlt, hents', hcap', -, hI', hF', hG'⟩ := evict_strip hlen hI hev
    have hlen' : c'.ents.length = c.ents.length := by rw [hents']
    have habs := abs_modEnt c' (fun e => { e with data := none }) hzlt
    refine ⟨c'.modEnt z (fun e => { e with data := none }), b, ?_, by simp [hlen'], hcap', ?_, ?_, ?_⟩
    · simp [hev, bind, Except.bind, hb]
    · rw [habs]; exact hI'
    · rw [habs]; exact hF'
    · rw [habs]; exact hG'

/-! ### `ghostHit` and `missed`: the state just before the entry goes in flight -/

/-- `c2` is the abstract state `s` (in which `e` is on no list and owns a buffer) with `e`
appended to the in-flight list and its entry replaced by `v` -/
structure PreLaunch (c : Cache) (st : Prop) (c2 : Cache) (e : Nat) (v : Entry) (s : St) : Prop where
  len : c2.ents.length = c.ents.length
  cap : c2.cap = c.cap
  elt : e < c.ents.length
  inv : InvH s [] [e] st
  data : (s.ent e).data.isSome = true
  vdata : v.data = (s.ent e).data
  frame : FrameS (abs c) s
  abs_eq : abs c2 = St.setEnt { s with F := s.F ++ [e] } e v

theorem St.setEnt_setEnt (s : St) (i : Nat) (v w : Entry) : (s.setEnt i v).setEnt i w = s.setEnt i w := by
  unfold St.setEnt
  simp only [St.mk.injEq, true_and, and_true]
  funext j
  by_cases h : j = i <;> simp [h]

set_option maxHeartbeats 400000 in
theorem ghostHit_spec {c : Cache} {st : Prop} (h : InvS c st) (hp : c.pinned + c.F.length < c.cap)
    {e : Nat} (fromGP : Bool) (he : if fromGP then e ∈ c.GP else e ∈ c.GB) :
    ∃ c2 v s, ghostHit c e fromGP = .ok c2 ∧ PreLaunch c st c2 e v s ∧ v.key = c.key e ∧
      v.state = .precious := by
  obtain ⟨c1, b, hrd, hlen1, hcap1, hI1, hF1, hG1⟩ := reclaimData_spec h hp
  obtain ⟨hlen, hI⟩ := h
  cases fromGP with
  | true =>
    simp only [if_true] at he
    have he1 : e ∈ (abs c1).GP := hG1.gp e he
    obtain ⟨g1, g2, _, hG, hGe⟩ := List.exists_erase_eq he1
    have hfl := InvH.floatGP hI1 (e := e) hG
    have hdata : ((abs c1).ent e).data = none := hI1.ghost_nodata e (List.mem_append_right _ he1)
    have hfill := InvH.fill hfl hdata
    have helt : e < c.ents.length := by rw [hlen]; exact hI.lt_of_mem (by simp [he])
    have hent : (abs c1).ent e = c.ent e := hG1.ent_g e (List.mem_append_right _ he)
    refine ⟨{ c1.modEnt e (fun x => { x with data := some b, state := .precious }) with
        GP := c1.GP.erase e, F := c1.F ++ [e] },
      { (abs c1).ent e with data := some b, state := .precious }, _, ?_,
      ⟨?_, ?_, helt, hfill, by simp, by simp, ?_, ?_⟩, ?_, rfl⟩
    · unfold ghostHit
      simp only [hrd, bind, Except.bind, if_true]
      rfl
    · simp [hlen1]
    · simp [hcap1]
    · refine hF1.trans ((FrameS.of_eq (s := abs c1) (s' := { abs c1 with GP := g1 ++ g2 }) rfl rfl rfl rfl rfl).trans
        (FrameS.setEnt_other ?_ _))
      exact hfl.not_live_of_fl (by simp)
    · have hlt1 : e < c1.ents.length := by rw [hlen1]; exact helt
      simp only [abs_GP] at hGe
      unfold abs St.setEnt
      simp only [hGe, St.mk.injEq, true_and, and_true, modEnt_cap, modEnt_U, modEnt_GB, modEnt_B,
        modEnt_P]
      funext j
      show (c1.modEnt e _).ent j = _
      rw [ent_modEnt]
      by_cases hj : j = e <;> simp [hj, hlt1]
    · simp [hent, Cache.key]
  | false =>
    simp only [Bool.false_eq_true, if_false] at he
    have he1 : e ∈ (abs c1).GB := hG1.gb e he
    obtain ⟨g1, g2, _, hG, hGe⟩ := List.exists_erase_eq he1
    have hfl := InvH.floatGB hI1 (e := e) hG
    have hdata : ((abs c1).ent e).data = none := hI1.ghost_nodata e (List.mem_append_left _ he1)
    have hfill := InvH.fill hfl hdata
    have helt : e < c.ents.length := by rw [hlen]; exact hI.lt_of_mem (by simp [he])
    have hent : (abs c1).ent e = c.ent e := hG1.ent_g e (List.mem_append_left _ he)
    refine ⟨{ c1.modEnt e (fun x => { x with data := some b, state := .precious }) with
        GB := c1.GB.erase e, F := c1.F ++ [e] },
      { (abs c1).ent e with data := some b, state := .precious }, _, ?_,
      ⟨?_, ?_, helt, hfill, by simp, by simp, ?_, ?_⟩, ?_, rfl⟩
    · unfold ghostHit
      simp only [hrd, bind, Except.bind, Bool.false_eq_true, if_false]
      rfl
    · simp [hlen1]
    · simp [hcap1]
    · refine hF1.trans ((FrameS.of_eq (s := abs c1) (s' := { abs c1 with GB := g1 ++ g2 }) rfl rfl rfl rfl rfl).trans
        (FrameS.setEnt_other ?_ _))
      exact hfl.not_live_of_fl (by simp)
    · have hlt1 : e < c1.ents.length := by rw [hlen1]; exact helt
      simp only [abs_GB] at hGe
      unfold abs St.setEnt
      simp only [hGe, St.mk.injEq, true_and, and_true, modEnt_cap, modEnt_U, modEnt_GP, modEnt_B,
        modEnt_P]
      funext j
      show (c1.modEnt e _).ent j = _
      rw [ent_modEnt]
      by_cases hj : j = e <;> simp [hj, hlt1]
    · simp [hent, Cache.key]

/-- the part of `missed` after the entry `e` has been taken off the ring -/
def missedTail (c1 : Cache) (e k : Nat) : Except Err (Cache × Nat) := do
  let c2 ←
    if (c1.dataOf e).isNone then do
      let (c', z) ← evictEntry c1 1
      pure ((c'.modEnt e (fun x => { x with data := c'.dataOf z })).modEnt z (fun x => { x with data := none }))
    else pure c1
  let c3 := c2.modEnt e (fun x => { x with key := k, state := .probe })
  .ok ({ c3 with F := c3.F ++ [e] }, e)

theorem PreLaunch.of_frame {c c1 : Cache} {st : Prop} {c2 : Cache} {e : Nat} {v : Entry} {s : St}
    (h : PreLaunch c1 st c2 e v s) (hlen : c1.ents.length = c.ents.length) (hcap : c1.cap = c.cap)
    (hf : FrameS (abs c) (abs c1)) : PreLaunch c st c2 e v s :=
  ⟨h.len.trans hlen, h.cap.trans hcap, hlen ▸ h.elt, h.inv, h.data, h.vdata, hf.trans h.frame, h.abs_eq⟩

set_option maxHeartbeats 400000 in
theorem missedTail_spec {c1 : Cache} {st : Prop} {e : Nat} (hlen : c1.ents.length = 2 * c1.cap)
    (hfl : InvH (abs c1) [] [e] st)
    (hzero : (c1.dataOf e).isNone = true → ∃ i ∈ c1.B ++ c1.P, c1.refcnt i = 0) (k : Nat) :
    ∃ c2 v s, missedTail c1 e k = .ok (c2, e) ∧ PreLaunch c1 st c2 e v s ∧ v.key = k ∧
      v.state = .probe := by
  have helt : e < c1.ents.length := by rw [hlen]; exact hfl.lt_of_mem (by simp)
  unfold missedTail
  by_cases hnone : (c1.dataOf e).isNone = true
  · obtain ⟨c', z, hev⟩ := evictEntry_ok 1 (hzero hnone)
    obtain ⟨b, hb, hzlt, hents', hcap', hzmem, hI', hF', hG'⟩ := evict_strip hlen hfl hev
    have hne : e ≠ z := fun h => hfl.not_live_of_fl (e := e) (by simp) (by
      rw [h]; simp only [abs_B, abs_P, List.mem_append] at hzmem ⊢; exact Or.inl hzmem)
    have hent' : c'.ent = c1.ent := by funext j; simp [Cache.ent, hents']
    have hdata : (((abs c').setEnt z { c'.ent z with data := none }).ent e).data = none := by
      rw [St.setEnt_ent_ne _ _ hne, abs_ent, hent']
      simpa [Cache.dataOf] using hnone
    have hfill := InvH.fill hI' hdata
    have helt' : e < c'.ents.length := by rw [hents']; exact helt
    refine ⟨{ ((c'.modEnt e (fun x => { x with data := c'.dataOf z })).modEnt z
          (fun x => { x with data := none })).modEnt e (fun x => { x with key := k, state := .probe }) with
        F := c'.F ++ [e] }, { c'.ent e with key := k, state := .probe, data := some b }, _, ?_,
      ⟨?_, ?_, helt, hfill, by simp, by simp, ?_, ?_⟩, rfl, rfl⟩
    · simp only [hnone, if_true, hev, bind, Except.bind, pure, Except.pure]
      rfl
    · simp [hents']
    · simp [hcap']
    · exact hF'.trans (FrameS.setEnt_other (hI'.not_live_of_fl (by simp)) _)
    · unfold abs St.setEnt
      simp only [St.mk.injEq, true_and, and_true, modEnt_cap, modEnt_U, modEnt_GB, modEnt_B,
        modEnt_P, modEnt_GP]
      funext j
      show (((c'.modEnt e _).modEnt z _).modEnt e _).ent j = _
      simp only [ent_modEnt, modEnt_len]
      by_cases hj : j = e
      · subst hj; simp [helt', hne, hb]
      · by_cases hjz : j = z
        · subst hjz; simp [hzlt, hj]
        · simp [hj, hjz]
  · have hsome : ((abs c1).ent e).data.isSome = true := by
      cases hd : c1.dataOf e with
      | none => simp [hd] at hnone
      | some x => simp [Cache.dataOf] at hd; simp [hd]
    refine ⟨{ c1.modEnt e (fun x => { x with key := k, state := .probe }) with F := c1.F ++ [e] },
      { c1.ent e with key := k, state := .probe }, abs c1, ?_,
      ⟨by simp, rfl, helt, hfl, hsome, rfl, FrameS.refl _, ?_⟩, rfl, rfl⟩
    · simp only [hnone, pure, Except.pure, bind, Except.bind]
      rfl
    · unfold abs St.setEnt
      simp only [St.mk.injEq, true_and, and_true, modEnt_cap, modEnt_U, modEnt_GB, modEnt_B,
        modEnt_P, modEnt_GP]
      funext j
      show (c1.modEnt e _).ent j = _
      rw [ent_modEnt]
      by_cases hj : j = e <;> simp [hj, helt]

theorem missed_eq_U {c : Cache} {k u : Nat} (hU : c.U.getLast? = some u) :
    missed c k = missedTail { c with U := c.U.dropLast } u k := by
  unfold missed missedTail
  simp only [hU]
  rfl

theorem missed_eq_GB {c : Cache} {k g : Nat} {rest : List Nat} (hU : c.U.getLast? = none)
    (hGB : c.GB = g :: rest) : missed c k = missedTail { c with GB := rest } g k := by
  unfold missed missedTail
  simp only [hU, hGB]
  rfl

theorem missed_eq_GP {c : Cache} {k g : Nat} (hU : c.U.getLast? = none)
    (hGB : c.GB = []) (hGP : c.GP.getLast? = some g) :
    missed c k = missedTail { c with GP := c.GP.dropLast } g k := by
  unfold missed missedTail
  simp only [hU, hGB, hGP]
  rfl

/-- when no unused entry holds a buffer and the lookup is not refused, some cached entry is
unreferenced -/
theorem zero_ref_of_no_unused_data {c : Cache} {st : Prop} (h : InvS c st)
    (hp : c.pinned + c.F.length < c.cap) (hnod : ∀ i ∈ c.U, (c.ent i).data = none) :
    ∃ i ∈ c.B ++ c.P, c.refcnt i = 0 := by
  obtain ⟨hlen, hI⟩ := h
  obtain ⟨u1, u2, hU, hu1, hu2⟩ := hI.u_shape
  have hcnt := hI.count hU hu1 hu2
  simp only [abs_U, abs_ent, abs_B, abs_P, abs_F, abs_cap] at hU hu1 hu2 hcnt
  have hu2nil : u2 = [] := by
    cases u2 with
    | nil => rfl
    | cons x u2 =>
      have h1 := hu2 x (by simp)
      have h2 := hnod x (by simp [hU])
      simp [h2] at h1
  subst hu2nil
  simp only [List.length_nil] at hcnt
  exact exists_zero_ref c (by omega)

set_option maxHeartbeats 400000 in
theorem missed_spec {c : Cache} {st : Prop} (h : InvS c st) (hp : c.pinned + c.F.length < c.cap)
    (k : Nat) :
    ∃ c2 e v s, missed c k = .ok (c2, e) ∧ PreLaunch c st c2 e v s ∧ v.key = k ∧
      v.state = .probe := by
  have hlen := h.1
  have hI := h.2
  cases hUl : c.U.getLast? with
  | some u =>
    obtain ⟨U', hU⟩ := List.getLast?_eq_some_iff.1 hUl
    have hdl : c.U.dropLast = U' := by rw [hU]; exact List.dropLast_concat
    have hfl := InvH.floatU hI (e := u) (U' := U') hU
    rw [missed_eq_U hUl, hdl]
    have hz : (({ c with U := U' } : Cache).dataOf u).isNone = true →
        ∃ i ∈ c.B ++ c.P, c.refcnt i = 0 := by
      intro hnone
      apply zero_ref_of_no_unused_data h hp
      have hud : (c.ent u).data = none := by simpa [Cache.dataOf, Cache.ent] using hnone
      obtain ⟨u1, u2, hUU, hu1, hu2⟩ := hI.u_shape
      simp only [abs_U, abs_ent] at hUU hu1 hu2
      rcases List.eq_nil_or_concat u2 with rfl | ⟨u2', x, rfl⟩
      · intro i hi; exact hu1 i (by simpa [hUU] using hi)
      · exfalso
        rw [hU] at hUU
        simp only [List.concat_eq_append, ← List.append_assoc] at hUU
        obtain ⟨-, hx⟩ := List.append_inj' hUU rfl
        simp only [List.cons.injEq, and_true] at hx
        have := hu2 x (by simp)
        rw [← hx, hud] at this
        simp at this
    obtain ⟨c2, v, s, hm, hpl, hk, hs⟩ := missedTail_spec (c1 := { c with U := U' }) hlen hfl hz k
    exact ⟨c2, u, v, s, hm, hpl.of_frame rfl rfl (FrameS.of_eq rfl rfl rfl rfl rfl), hk, hs⟩
  | none =>
    have hUnil : c.U = [] := List.getLast?_eq_none_iff.1 hUl
    have hz : ∃ i ∈ c.B ++ c.P, c.refcnt i = 0 :=
      zero_ref_of_no_unused_data h hp (by rw [hUnil]; intro i hi; cases hi)
    cases hGB : c.GB with
    | cons g rest =>
      have hfl := InvH.floatGB hI (e := g) (g1 := []) (g2 := rest) hGB
      rw [missed_eq_GB hUl hGB]
      obtain ⟨c2, v, s, hm, hpl, hk, hs⟩ :=
        missedTail_spec (c1 := { c with GB := rest }) hlen hfl (fun _ => hz) k
      exact ⟨c2, g, v, s, hm, hpl.of_frame rfl rfl (FrameS.of_eq rfl rfl rfl rfl rfl), hk, hs⟩
    | nil =>
      cases hGPl : c.GP.getLast? with
      | some g =>
        obtain ⟨G', hG⟩ := List.getLast?_eq_some_iff.1 hGPl
        have hdl : c.GP.dropLast = G' := by rw [hG]; exact List.dropLast_concat
        have hfl := InvH.floatGP hI (e := g) (g1 := G') (g2 := []) hG
        rw [missed_eq_GP hUl hGB hGPl, hdl]
        simp only [List.append_nil] at hfl
        obtain ⟨c2, v, s, hm, hpl, hk, hs⟩ :=
          missedTail_spec (c1 := { c with GP := G' }) hlen hfl (fun _ => hz) k
        exact ⟨c2, g, v, s, hm, hpl.of_frame rfl rfl (FrameS.of_eq rfl rfl rfl rfl rfl), hk, hs⟩
      | none =>
        exfalso
        have hGPnil : c.GP = [] := List.getLast?_eq_none_iff.1 hGPl
        have hcnt := hI.count (u1 := []) (u2 := []) (by simp [hUnil]) (by simp) (by simp)
        have hpl := hI.part.length_eq
        simp only [abs_U, abs_GB, abs_B, abs_P, abs_GP, abs_F, abs_cap, hUnil, hGB, hGPnil,
          List.length_append, List.length_nil, List.length_range] at hcnt hpl
        have := hI.cap_pos
        simp only [abs_cap] at this
        omega

end Kdf.Lemmas.Cache
