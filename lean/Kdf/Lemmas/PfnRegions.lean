import Kdf.Lemmas.PfnScan
/-! `regionsFromBitmap`: the loop invariant. -/
namespace Kdf.Lemmas.Pfn
open Kdf.Model.Pfn

/-- number of `i < n` with `f (a+i)` -/
def cntB (f : Nat → Bool) (a n : Nat) : Nat := ((List.range n).filter (fun i => f (a+i))).length

theorem cntB_succ (f : Nat → Bool) (a n : Nat) :
    cntB f a (n+1) = cntB f a n + (if f (a+n) then 1 else 0) := by
  unfold cntB
  rw [List.range_succ, List.filter_append]
  by_cases h : f (a+n) <;> simp [h]

theorem cntB_add (f : Nat → Bool) (a m n : Nat) : cntB f a (m+n) = cntB f a m + cntB f (a+m) n := by
  induction n with
  | zero => simp [cntB]
  | succ n ih => rw [← Nat.add_assoc, cntB_succ, cntB_succ, ih, Nat.add_assoc a m n]; omega

theorem cntB_false (f : Nat → Bool) (a n : Nat) (h : ∀ i, i < n → f (a+i) = false) : cntB f a n = 0 := by
  induction n with
  | zero => simp [cntB]
  | succ n ih => rw [cntB_succ, ih (fun i hi => h i (by omega)), h n (by omega)]; simp

theorem cntB_true (f : Nat → Bool) (a n : Nat) (h : ∀ i, i < n → f (a+i) = true) : cntB f a n = n := by
  induction n with
  | zero => simp [cntB]
  | succ n ih => rw [cntB_succ, ih (fun i hi => h i (by omega)), h n (by omega)]; simp

theorem rgo_zero (bm : Bitmap) (msb0 : Bool) (endPfn elemsz size pfn pos : Nat) (acc : List Region) :
    regionsFromBitmap.go bm msb0 endPfn elemsz size 0 pfn pos acc = acc := rfl

theorem rgo_succ (bm : Bitmap) (msb0 : Bool) (endPfn elemsz size fuel pfn pos : Nat) (acc : List Region) :
    regionsFromBitmap.go bm msb0 endPfn elemsz size (fuel+1) pfn pos acc =
      if pfn < endPfn then
        if min (skipSet msb0 bm size (skipClear msb0 bm size pfn)) endPfn - min (skipClear msb0 bm size pfn) endPfn = 0 then
          regionsFromBitmap.go bm msb0 endPfn elemsz size fuel
            (min (skipSet msb0 bm size (skipClear msb0 bm size pfn)) endPfn) pos acc
        else
          regionsFromBitmap.go bm msb0 endPfn elemsz size fuel
            (min (skipSet msb0 bm size (skipClear msb0 bm size pfn)) endPfn)
            (pos + (min (skipSet msb0 bm size (skipClear msb0 bm size pfn)) endPfn - min (skipClear msb0 bm size pfn) endPfn) * elemsz)
            (acc ++ [⟨min (skipClear msb0 bm size pfn) endPfn,
              min (skipSet msb0 bm size (skipClear msb0 bm size pfn)) endPfn - min (skipClear msb0 bm size pfn) endPfn, pos⟩])
      else acc := by
  cases msb0 <;> rfl

theorem rgo_acc (bm : Bitmap) (msb0 : Bool) (endPfn elemsz size : Nat) :
    ∀ fuel pfn pos acc, regionsFromBitmap.go bm msb0 endPfn elemsz size fuel pfn pos acc =
      acc ++ regionsFromBitmap.go bm msb0 endPfn elemsz size fuel pfn pos [] := by
  intro fuel
  induction fuel with
  | zero => intro pfn pos acc; simp [rgo_zero]
  | succ fuel ih =>
    intro pfn pos acc
    rw [rgo_succ, rgo_succ]
    split
    · split
      · exact ih _ _ _
      · rw [ih _ _ (acc ++ _), ih _ _ ([] ++ _)]; simp
    · simp

theorem rgo_done (bm : Bitmap) (msb0 : Bool) (endPfn elemsz size fuel pfn pos : Nat) (h : endPfn ≤ pfn) :
    regionsFromBitmap.go bm msb0 endPfn elemsz size fuel pfn pos [] = [] := by
  cases fuel with
  | zero => rfl
  | succ fuel => rw [rgo_succ, if_neg (by omega)]

theorem rgo_spec (msb0 : Bool) (bm : Bitmap) (hb : BytesWF bm) (endPfn elemsz size : Nat)
    (hsz : endPfn ≤ size * 8) :
    ∀ fuel pfn pos, (endPfn ≤ pfn ∨ endPfn + 1 ≤ fuel + pfn) →
      RegionsMaximal (regionsFromBitmap.go bm msb0 endPfn elemsz size fuel pfn pos []) ∧
      (∀ r ∈ regionsFromBitmap.go bm msb0 endPfn elemsz size fuel pfn pos [],
        pfn ≤ r.pfn ∧ r.pfn + r.cnt ≤ endPfn ∧ ∀ p, r.has p → bitOf msb0 bm p = true) ∧
      (∀ p, pfn ≤ p → p < endPfn → bitOf msb0 bm p = true →
        ∃ r ∈ regionsFromBitmap.go bm msb0 endPfn elemsz size fuel pfn pos [], r.has p) ∧
      (∀ r ∈ regionsFromBitmap.go bm msb0 endPfn elemsz size fuel pfn pos [],
        r.pos = pos + elemsz * cntB (bitOf msb0 bm) pfn (r.pfn - pfn)) := by
  intro fuel
  induction fuel with
  | zero =>
    intro pfn pos hf
    rw [rgo_zero]
    refine ⟨⟨List.Pairwise.nil, by simp⟩, by simp, ?_, by simp⟩
    intro p h1 h2; omega
  | succ fuel ih =>
    intro pfn pos hf
    by_cases hlt : pfn < endPfn
    case neg =>
      rw [rgo_done _ _ _ _ _ _ _ _ (by omega)]
      refine ⟨⟨List.Pairwise.nil, by simp⟩, by simp, ?_, by simp⟩
      intro p h1 h2; omega
    rw [rgo_succ, if_pos hlt]
    obtain ⟨c1, c2, c3, c4⟩ := skipClear_spec msb0 bm hb size pfn
    obtain ⟨s1, s2, s3, s4⟩ := skipSet_spec msb0 bm hb size (skipClear msb0 bm size pfn)
    generalize skipSet msb0 bm size (skipClear msb0 bm size pfn) = p0 at *
    generalize skipClear msb0 bm size pfn = r0 at *
    split
    · rename_i hc
      have hp : min p0 endPfn = endPfn := by
        by_cases hpe : p0 < endPfn
        · exfalso
          have e1 : p0 = r0 := by omega
          have := c4 (by omega)
          have := s4 (by omega)
          simp_all
        · omega
      rw [hp, rgo_done _ _ _ _ _ _ _ _ (Nat.le_refl _)]
      refine ⟨⟨List.Pairwise.nil, by simp⟩, by simp, ?_, by simp⟩
      intro p h1 h2 h3
      have := c3 p h1 (by omega) (by omega)
      simp_all
    · rename_i hc
      have hr : min r0 endPfn = r0 := by omega
      rw [hr] at hc ⊢
      rw [rgo_acc]
      obtain ⟨⟨m1, m2⟩, i2, i3, i4⟩ := ih (min p0 endPfn) (pos + (min p0 endPfn - r0) * elemsz) (by omega)
      generalize regionsFromBitmap.go bm msb0 endPfn elemsz size fuel (min p0 endPfn)
        (pos + (min p0 endPfn - r0) * elemsz) [] = L at *
      generalize hp : min p0 endPfn = p at *
      have hrp : r0 < p := by omega
      simp only [List.nil_append, List.singleton_append]
      have hrun : ∀ q, r0 ≤ q → q < p → bitOf msb0 bm q = true := fun q h1 h2 =>
        s3 q h1 (by omega) (by omega)
      have hgap : ∀ q, pfn ≤ q → q < r0 → bitOf msb0 bm q = false := fun q h1 h2 =>
        c3 q h1 h2 (by omega)
      refine ⟨⟨?_, ?_⟩, ?_, ?_, ?_⟩
      · rw [List.pairwise_cons]
        refine ⟨?_, m1⟩
        intro r' hr'
        obtain ⟨j1, j2, j3⟩ := i2 r' hr'
        have hpos := m2 r' hr'
        have hbit := j3 r'.pfn ⟨Nat.le_refl _, by omega⟩
        show r0 + (p - r0) < r'.pfn
        by_cases heq : p = r'.pfn
        · exfalso
          have : p0 < size * 8 := by omega
          have hp0 : p0 = p := by omega
          have := s4 this
          rw [hp0, heq] at this
          simp_all
        · omega
      · intro r' hr'
        rw [List.mem_cons] at hr'
        rcases hr' with rfl | hr'
        · show 0 < p - r0; omega
        · exact m2 r' hr'
      · intro r' hr'
        rw [List.mem_cons] at hr'
        rcases hr' with rfl | hr'
        · refine ⟨c1, by show r0 + (p - r0) ≤ endPfn; omega, ?_⟩
          intro q ⟨h1, h2⟩
          exact hrun q h1 (by simp only at h2; omega)
        · obtain ⟨j1, j2, j3⟩ := i2 r' hr'
          exact ⟨by omega, j2, j3⟩
      · intro q h1 h2 h3
        by_cases hq1 : q < r0
        · have := hgap q h1 hq1; simp_all
        · by_cases hq2 : q < p
          · exact ⟨_, List.mem_cons_self, by show r0 ≤ q ∧ q < r0 + (p - r0); omega⟩
          · obtain ⟨r', hr', hh⟩ := i3 q (by omega) h2 h3
            exact ⟨r', List.mem_cons_of_mem _ hr', hh⟩
      · intro r' hr'
        rw [List.mem_cons] at hr'
        rcases hr' with rfl | hr'
        · show pos = pos + elemsz * cntB (bitOf msb0 bm) pfn (r0 - pfn)
          rw [cntB_false _ _ _ (fun i hi => hgap (pfn + i) (by omega) (by omega))]; simp
        · obtain ⟨j1, j2, j3⟩ := i2 r' hr'
          rw [i4 r' hr']
          have e : r'.pfn - pfn = (r0 - pfn) + ((p - r0) + (r'.pfn - p)) := by omega
          rw [e, cntB_add, cntB_add,
            cntB_false _ _ _ (fun i hi => hgap (pfn + i) (by omega) (by omega)),
            cntB_true _ (pfn + (r0 - pfn)) (p - r0) (fun i hi => hrun _ (by omega) (by omega))]
          have e2 : pfn + (r0 - pfn) + (p - r0) = p := by omega
          rw [e2, Nat.mul_add, Nat.mul_add, Nat.mul_comm (p - r0) elemsz]
          omega

end Kdf.Lemmas.Pfn
