import Kdf.Model.Flat
/-! Split-file lookup (C11 helper lemmas): sorting by `end_pfn` makes the order
in which the files were passed irrelevant. -/
namespace Kdf.Lemmas.Split
open Kdf.Model.Flat
open Kdf.Model.Pfn (Region findRegion)

/-- what a split file contributes, independent of the position at which it is passed -/
structure Body where
  startPfn : Nat
  endPfn : Nat
  regions : List Region
  deriving DecidableEq, Repr

/-- the `pdmap[]` array before sorting: file `i` of the passed order gets `fidx = i` -/
def indexFrom : List Body → Nat → List SFile
  | [], _ => []
  | b :: bs, i => ⟨i, b.startPfn, b.endPfn, b.regions⟩ :: indexFrom bs (i + 1)

def index (bs : List Body) : List SFile := indexFrom bs 0

def bodyOf (m : SFile) : Body := ⟨m.startPfn, m.endPfn, m.regions⟩

/-- all `end_pfn` values are different (the windows partition the frame space) -/
def DistinctEnds (bs : List Body) : Prop := bs.Pairwise (fun a b => a.endPfn ≠ b.endPfn)

/-! ### generic insertion sort by a `Nat` key -/

def ins {α : Type} (k : α → Nat) (x : α) : List α → List α
  | [] => [x]
  | y :: ys => if k x < k y then x :: y :: ys else y :: ins k x ys

def isort {α : Type} (k : α → Nat) : List α → List α
  | [] => []
  | x :: xs => ins k x (isort k xs)

theorem insertSorted_eq (x : SFile) (l : List SFile) :
    insertSorted x l = ins (fun m => m.endPfn) x l := by
  induction l with
  | nil => rfl
  | cons y ys ih => simp only [insertSorted, ins, ih]

theorem sortFiles_eq (l : List SFile) : sortFiles l = isort (fun m => m.endPfn) l := by
  induction l with
  | nil => rfl
  | cons x xs ih => simp only [sortFiles, isort, ih, insertSorted_eq]

theorem ins_perm {α : Type} (k : α → Nat) (x : α) (l : List α) : (ins k x l).Perm (x :: l) := by
  induction l with
  | nil => exact List.Perm.refl _
  | cons y ys ih =>
    simp only [ins]
    split
    · exact List.Perm.refl _
    · exact (List.Perm.cons y ih).trans (List.Perm.swap x y ys)

theorem isort_perm {α : Type} (k : α → Nat) (l : List α) : (isort k l).Perm l := by
  induction l with
  | nil => exact List.Perm.refl _
  | cons x xs ih => exact (ins_perm k x _).trans (List.Perm.cons x ih)

theorem ins_sorted {α : Type} (k : α → Nat) (x : α) (l : List α)
    (h : l.Pairwise (fun a b => k a ≤ k b)) : (ins k x l).Pairwise (fun a b => k a ≤ k b) := by
  induction l with
  | nil => simp [ins]
  | cons y ys ih =>
    rw [List.pairwise_cons] at h
    simp only [ins]
    split
    · rename_i hlt
      rw [List.pairwise_cons]
      refine ⟨?_, List.pairwise_cons.mpr h⟩
      intro b hb
      rcases List.mem_cons.mp hb with rfl | hb
      · omega
      · have := h.1 b hb; omega
    · rename_i hge
      rw [List.pairwise_cons]
      refine ⟨?_, ih h.2⟩
      intro b hb
      have hb' := (ins_perm k x ys).mem_iff.mp hb
      rcases List.mem_cons.mp hb' with rfl | hb'
      · omega
      · exact h.1 b hb'

theorem isort_sorted {α : Type} (k : α → Nat) (l : List α) :
    (isort k l).Pairwise (fun a b => k a ≤ k b) := by
  induction l with
  | nil => simp [isort]
  | cons x xs ih => exact ins_sorted k x _ ih

theorem ins_map {α β : Type} (k : α → Nat) (k' : β → Nat) (f : α → β) (hk : ∀ a, k' (f a) = k a)
    (x : α) (l : List α) : (ins k x l).map f = ins k' (f x) (l.map f) := by
  induction l with
  | nil => rfl
  | cons y ys ih =>
    simp only [ins, List.map_cons, hk]
    split
    · rfl
    · simp only [List.map_cons, ih]

theorem isort_map {α β : Type} (k : α → Nat) (k' : β → Nat) (f : α → β) (hk : ∀ a, k' (f a) = k a)
    (l : List α) : (isort k l).map f = isort k' (l.map f) := by
  induction l with
  | nil => rfl
  | cons x xs ih => simp only [isort, List.map_cons, ins_map k k' f hk, ih]

theorem key_inj {α : Type} (k : α → Nat) (l : List α)
    (hd : l.Pairwise (fun a b => k a ≠ k b)) (a b : α) (ha : a ∈ l) (hb : b ∈ l)
    (hk : k a = k b) : a = b := by
  induction l with
  | nil => cases ha
  | cons c t ih =>
    rw [List.pairwise_cons] at hd
    rcases List.mem_cons.mp ha with rfl | ha' <;> rcases List.mem_cons.mp hb with rfl | hb'
    · rfl
    · exact absurd hk (hd.1 b hb')
    · exact absurd hk.symm (hd.1 a ha')
    · exact ih hd.2 ha' hb'

theorem isort_congr {α : Type} (k : α → Nat) (l1 l2 : List α) (hp : l1.Perm l2)
    (hd : l1.Pairwise (fun a b => k a ≠ k b)) : isort k l1 = isort k l2 := by
  have p1 := isort_perm k l1
  have p2 := isort_perm k l2
  have hd' : (isort k l1).Pairwise (fun a b => k a ≠ k b) :=
    (p1.symm.pairwise_iff (fun h => Ne.symm h)).mp hd
  refine List.Perm.eq_of_pairwise (le := fun a b => k a ≤ k b) ?_ (isort_sorted k l1)
    (isort_sorted k l2) (p1.trans (hp.trans p2.symm))
  intro a b ha hb h1 h2
  have hb' : b ∈ isort k l1 := (p1.trans (hp.trans p2.symm)).mem_iff.mpr hb
  exact key_inj k _ hd' a b ha hb' (Nat.le_antisymm h1 h2)

/-! ### indexing -/

theorem indexFrom_map (bs : List Body) (i : Nat) : (indexFrom bs i).map bodyOf = bs := by
  induction bs generalizing i with
  | nil => rfl
  | cons b bs ih => simp only [indexFrom, List.map_cons, ih]; rfl

theorem mem_indexFrom (bs : List Body) (i : Nat) (m : SFile) (hm : m ∈ indexFrom bs i) :
    i ≤ m.fidx ∧ bs[m.fidx - i]? = some (bodyOf m) := by
  induction bs generalizing i with
  | nil => cases hm
  | cons b bs ih =>
    simp only [indexFrom] at hm
    rcases List.mem_cons.mp hm with rfl | hm
    · refine ⟨Nat.le_refl _, ?_⟩
      simp [bodyOf]
    · obtain ⟨h1, h2⟩ := ih (i + 1) hm
      refine ⟨by omega, ?_⟩
      have : m.fidx - i = (m.fidx - (i + 1)) + 1 := by omega
      rw [this, List.getElem?_cons_succ]
      exact h2

theorem sort_bodies (bs : List Body) :
    (sortFiles (index bs)).map bodyOf = isort (fun b : Body => b.endPfn) bs := by
  rw [sortFiles_eq, isort_map (fun m : SFile => m.endPfn) (fun b : Body => b.endPfn) bodyOf
    (fun _ => rfl), index, indexFrom_map]

/-! ### lookup on bodies -/

def findBody : List Body → Nat → Option Body
  | [], _ => none
  | b :: bs, pfn => if pfn < b.endPfn then some b else findBody bs pfn

theorem findFile_map (l : List SFile) (pfn : Nat) :
    (findFile l pfn).map bodyOf = findBody (l.map bodyOf) pfn := by
  induction l with
  | nil => rfl
  | cons m ms ih =>
    simp only [findFile, List.map_cons, findBody]
    have : (bodyOf m).endPfn = m.endPfn := rfl
    rw [this]
    split
    · rfl
    · exact ih

theorem findFile_mem (l : List SFile) (pfn : Nat) (m : SFile) (h : findFile l pfn = some m) :
    m ∈ l ∧ pfn < m.endPfn := by
  induction l with
  | nil => cases h
  | cons a t ih =>
    simp only [findFile] at h
    split at h
    · cases h
      exact ⟨List.mem_cons_self, by assumption⟩
    · exact ⟨List.mem_cons_of_mem _ (ih h).1, (ih h).2⟩

/-- the sorted array, seen as bodies, depends only on the *set* of files -/
theorem sort_bodies_perm (bs1 bs2 : List Body) (hp : bs1.Perm bs2) (hd : DistinctEnds bs1) :
    (sortFiles (index bs1)).map bodyOf = (sortFiles (index bs2)).map bodyOf := by
  rw [sort_bodies, sort_bodies]
  exact isort_congr _ bs1 bs2 hp hd

/-- every element of the sorted array still points at its own file -/
theorem sort_fidx (bs : List Body) (m : SFile) (hm : m ∈ sortFiles (index bs)) :
    bs[m.fidx]? = some (bodyOf m) := by
  have hm' : m ∈ indexFrom bs 0 := by
    have := (isort_perm (fun m : SFile => m.endPfn) (index bs)).mem_iff.mp (sortFiles_eq _ ▸ hm)
    exact this
  exact (mem_indexFrom bs 0 m hm').2

/-- `sort_pfn_file_maps` sorts -/
theorem sort_sorted (l : List SFile) : (sortFiles l).Pairwise (fun a b => a.endPfn ≤ b.endPfn) := by
  rw [sortFiles_eq]
  exact isort_sorted (fun m : SFile => m.endPfn) l

theorem sort_perm (l : List SFile) : (sortFiles l).Perm l := by
  rw [sortFiles_eq]
  exact isort_perm _ l

/-- `find_pfn_file_map` on an array sorted by `end_pfn` whose windows do not
overlap: the file found is the one whose window contains the frame -/
theorem findFile_window (l : List SFile)
    (hs : l.Pairwise (fun a b => a.endPfn ≤ b.startPfn)) (hw : ∀ m ∈ l, m.startPfn ≤ m.endPfn)
    (pfn : Nat) (m : SFile) :
    (findFile l pfn = some m ∧ m.startPfn ≤ pfn) ↔ (m ∈ l ∧ m.startPfn ≤ pfn ∧ pfn < m.endPfn) := by
  induction l with
  | nil => simp [findFile]
  | cons a t ih =>
    rw [List.pairwise_cons] at hs
    have ih' := ih hs.2 (fun x hx => hw x (List.mem_cons_of_mem _ hx))
    simp only [findFile]
    split
    · rename_i hlt
      constructor
      · rintro ⟨h, hle⟩
        cases h
        exact ⟨List.mem_cons_self, hle, hlt⟩
      · rintro ⟨hm, hle, hlt'⟩
        rcases List.mem_cons.mp hm with rfl | hm
        · exact ⟨rfl, hle⟩
        · have := hs.1 m hm
          omega
    · rename_i hge
      rw [ih']
      constructor
      · rintro ⟨hm, h⟩
        exact ⟨List.mem_cons_of_mem _ hm, h⟩
      · rintro ⟨hm, hle, hlt'⟩
        rcases List.mem_cons.mp hm with rfl | hm
        · omega
        · exact ⟨hm, hle, hlt'⟩

/-- for two orders of the same files the descriptor lookup finds the same file
(as content) and the same position -/
theorem pdLookup_perm (bs1 bs2 : List Body) (hp : bs1.Perm bs2) (hd : DistinctEnds bs1)
    (maxPfn pfn : Nat) :
    (pdLookup (sortFiles (index bs1)) maxPfn pfn).map (fun r => (bs1[r.1]?, r.2)) =
    (pdLookup (sortFiles (index bs2)) maxPfn pfn).map (fun r => (bs2[r.1]?, r.2)) := by
  have hb := sort_bodies_perm bs1 bs2 hp hd
  have hf : (findFile (sortFiles (index bs1)) pfn).map bodyOf =
      (findFile (sortFiles (index bs2)) pfn).map bodyOf := by
    rw [findFile_map, findFile_map, hb]
  unfold pdLookup
  by_cases hmax : pfn ≥ maxPfn
  · simp only [if_pos hmax, Option.map_none]
  · simp only [if_neg hmax]
    cases e1 : findFile (sortFiles (index bs1)) pfn with
    | none =>
      cases e2 : findFile (sortFiles (index bs2)) pfn with
      | none => rfl
      | some m2 => rw [e1, e2] at hf; cases hf
    | some m1 =>
      cases e2 : findFile (sortFiles (index bs2)) pfn with
      | none => rw [e1, e2] at hf; cases hf
      | some m2 =>
        rw [e1, e2] at hf
        simp only [Option.map_some, Option.some.injEq] at hf
        have f1 := sort_fidx bs1 m1 (findFile_mem _ _ _ e1).1
        have f2 := sort_fidx bs2 m2 (findFile_mem _ _ _ e2).1
        have hs : m1.startPfn = m2.startPfn := congrArg Body.startPfn hf
        have hr : m1.regions = m2.regions := congrArg Body.regions hf
        simp only [hs, hr]
        split
        · cases findRegion m2.regions pfn with
          | none => rfl
          | some r =>
            simp only []
            split
            · simp only [Option.map_some, f1, f2, hf]
            · rfl
        · rfl

end Kdf.Lemmas.Split
