import Kdf.Model.Derived
/-! Helper lemmas and proofs for the VMCOREINFO views (C14). -/
namespace Kdf.Lemmas.DerivedVmci
open Kdf.Model.Derived

/-- the value the text gives to a key: the last row with that key -/
def lastVal (rows : List Row) (k : Bytes) : Option Bytes :=
  (rows.reverse.find? (·.key == k)).map (·.val)

theorem slotOf_dot {α} (s : Store α) (k : Bytes) (hk : leadingDot k = true) :
    slotOf s k = .blocked := by
  unfold slotOf
  simp [hk]

/-- a row whose key starts with a dot is refused (`create_attr_path`) and changes nothing -/
theorem addRow_dot_refused (c : Ctx) (r : Row) (hk : leadingDot r.key = true) :
    addRow c r = .done .system c := by
  unfold addRow
  rw [slotOf_dot _ _ hk]

/-- frame: lines and raw equal, inst grows -/
def Frame (c c' : Ctx) : Prop :=
  c'.lines = c.lines ∧ c'.raw = c.raw ∧ ∀ d, c.inst.contains d = true → c'.inst.contains d = true

theorem Frame.refl (c : Ctx) : Frame c c := ⟨rfl, rfl, fun _ h => h⟩
theorem Frame.trans {a b c : Ctx} (h1 : Frame a b) (h2 : Frame b c) : Frame a c :=
  ⟨h2.1.trans h1.1, h2.2.1.trans h1.2.1, fun d h => h2.2.2 d (h1.2.2 d h)⟩

theorem addInst_frame (c : Ctx) (d : String) : Frame c (addInst c d) := by
  unfold addInst Frame
  split
  · simp
  · simp
    intro e h
    exact Or.inr h

theorem addInst_self (c : Ctx) (d : String) : (addInst c d).inst.contains d = true := by
  unfold addInst
  split
  · assumption
  · simp

theorem typedPost_frame (c : Ctx) (key val : Bytes) (st : Status) (c' : Ctx)
    (h : typedPost c key val = .done st c') : Frame c c' := by
  unfold typedPost at h
  simp only at h
  repeat' split at h
  all_goals first
    | (cases h; exact Frame.refl _)
    | (cases h; exact Frame.trans (b := { c with typed := _ }) ⟨rfl, rfl, fun _ h => h⟩ (addInst_frame _ _))

theorem linesPost_frame (c : Ctx) (key val : Bytes) (st : Status) (c' : Ctx)
    (h : linesPost c key val = .done st c') : Frame c c' := by
  unfold linesPost at h
  simp only at h
  repeat' split at h
  all_goals first
    | (cases h <;> exact Frame.refl _)
    | (cases h <;> exact ⟨rfl, rfl, fun _ h => h⟩)
    | exact typedPost_frame _ _ _ _ _ h
    | (have h2 := typedPost_frame _ _ _ _ _ h; exact Frame.trans ⟨rfl, rfl, fun _ h => h⟩ h2)

theorem addRow_raw (c : Ctx) (r : Row) (st : Status) (c' : Ctx) (h : addRow c r = .done st c') :
    c'.raw = c.raw := by
  unfold addRow at h
  split at h
  · cases h; rfl
  · cases h; rfl
  · simp only at h
    repeat' split at h
    all_goals first
      | (cases h; exact (addInst_frame _ _).2.1)
      | (have h2 := linesPost_frame _ _ _ _ _ h; exact h2.2.1.trans (addInst_frame _ _).2.1)

theorem addRow_ok (c : Ctx) (r : Row) (c' : Ctx)
    (h : addRow c r = .done .ok c') :
    c'.lines = c.lines.put r.key r.val ∧ c'.inst.contains "lines" = true ∧
    (∀ d, c.inst.contains d = true → c'.inst.contains d = true) ∧
    leadingDot r.key = false := by
  have hk : leadingDot r.key = false := by
    cases hd : leadingDot r.key with
    | false => rfl
    | true =>
      rw [addRow_dot_refused c r hd] at h
      cases h
  refine ⟨?_, ?_, ?_, hk⟩
  all_goals
    unfold addRow at h
    split at h
    · cases h
    · cases h
    · simp only at h
      split at h
      · cases h
        have h1 := addInst_frame { c with lines := c.lines.put r.key r.val } "lines"
        first | exact h1.1 | exact addInst_self _ _ | exact h1.2.2
      · have h2 := linesPost_frame _ _ _ _ _ h
        have h1 := addInst_frame { c with lines := c.lines.put r.key r.val } "lines"
        first
          | exact h2.1.trans h1.1
          | exact h2.2.2 _ (addInst_self _ _)
          | exact fun d hd => h2.2.2 d (h1.2.2 d hd)

theorem find_put_self {α} (s : Store α) (k : Bytes) (a : α) : (s.put k a).find k = some a := by
  unfold Store.put Store.find
  split
  · rename_i hany
    induction s with
    | nil => simp at hany
    | cons e t ih =>
      by_cases he : e.1 = k
      · simp [he]
      · simp [he] at hany ⊢
        simpa using ih (by simpa using hany)
  · rename_i hany
    rw [List.find?_append]
    have : List.find? (fun x => x.fst == k) s = none := by
      rw [List.find?_eq_none]
      intro x hx hxk
      exact hany (List.any_eq_true.mpr ⟨x, hx, hxk⟩)
    simp [this]

theorem find?_map_put {α} (k k' : Bytes) (a : α) (hne : k ≠ k') (s : Store α) :
    (s.map (fun e => if e.1 == k then (k, a) else e)).find? (·.1 == k') = s.find? (·.1 == k') := by
  induction s with
  | nil => rfl
  | cons e t ih =>
    rw [List.map_cons, List.find?_cons, List.find?_cons, ih]
    by_cases he : e.1 = k
    · have hb : (k == k') = false := by simp [hne]
      simp [he, hb]
    · simp [he]

theorem find_put_ne {α} (s : Store α) (k k' : Bytes) (a : α) (hne : k ≠ k') :
    (s.put k a).find k' = s.find k' := by
  unfold Store.put Store.find
  split
  · rw [find?_map_put k k' a hne]
  · rw [List.find?_append]
    simp [hne]

theorem find_put {α} (s : Store α) (k k' : Bytes) (a : α) :
    (s.put k a).find k' = if k = k' then some a else s.find k' := by
  split
  · rename_i h; subst h; exact find_put_self _ _ _
  · rename_i h; exact find_put_ne _ _ _ _ h

theorem lastVal_cons (r : Row) (t : List Row) (k : Bytes) :
    lastVal (r :: t) k = match lastVal t k with
      | some v => some v
      | none => if r.key = k then some r.val else none := by
  unfold lastVal
  rw [List.reverse_cons, List.find?_append]
  cases List.find? (fun x => x.key == k) t.reverse with
  | some x => simp
  | none =>
    by_cases h : r.key = k <;> simp [h]

theorem addRows_raw (rows : List Row) : ∀ (c : Ctx) (st : Status) (c' : Ctx),
    addRows c rows = .done st c' → c'.raw = c.raw := by
  induction rows with
  | nil => intro c st c' h; unfold addRows at h; cases h; rfl
  | cons r t ih =>
    intro c st c' h
    unfold addRows at h
    split at h
    · rename_i c1 h1
      exact (ih _ _ _ h).trans (addRow_raw _ _ _ _ h1)
    · exact addRow_raw _ _ _ _ h

theorem addRows_ok (rows : List Row) : ∀ (c c' : Ctx),
    addRows c rows = .done .ok c' →
    (∀ k, c'.lines.find k = match lastVal rows k with
                             | some v => some v
                             | none => c.lines.find k) ∧
    (rows ≠ [] → c'.inst.contains "lines" = true) ∧
    (∀ d, c.inst.contains d = true → c'.inst.contains d = true) ∧
    (∀ r ∈ rows, leadingDot r.key = false) := by
  induction rows with
  | nil =>
    intro c c' h
    unfold addRows at h; cases h
    simp [lastVal]
  | cons r t ih =>
    intro c c' h
    unfold addRows at h
    split at h
    · rename_i c1 h1
      have ⟨a1, a2, a3, a4⟩ := addRow_ok _ _ _ h1
      have ⟨b1, b2, b3, b4⟩ := ih _ _ h
      refine ⟨?_, fun _ => b3 _ a2, fun d hd => b3 d (a3 d hd), ?_⟩
      rotate_left
      · intro x hx
        rcases List.mem_cons.mp hx with hx | hx
        · rw [hx]; exact a4
        · exact b4 x hx
      intro k
      rw [b1 k, lastVal_cons, a1, find_put]
      cases lastVal t k <;> simp
      split <;> simp
    · rename_i hno
      exact absurd h (hno c')

theorem lastVal_some_mem (rows : List Row) (k v : Bytes) (h : lastVal rows k = some v) :
    ∃ r ∈ rows, r.key = k := by
  unfold lastVal at h
  cases hf : List.find? (fun x => x.key == k) rows.reverse with
  | none => rw [hf] at h; cases h
  | some x =>
    have h1 := List.find?_some hf
    have h2 := List.mem_of_find?_eq_some hf
    exact ⟨x, List.mem_reverse.mp h2, by simpa using h1⟩

/-- an accepted text has no row whose key starts with a dot -/
theorem setRaw_ok_noDot (c : Ctx) (b : Bytes) (c' : Ctx) (h : setRaw c b = .done .ok c') :
    ∀ r ∈ rowsOf b, leadingDot r.key = false := by
  unfold setRaw at h
  exact (addRows_ok _ _ _ h).2.2.2

/-- whatever the outcome, the raw attribute holds the text that was set -/
theorem setRaw_raw (c : Ctx) (b : Bytes) :
    match setRaw c b with
    | .done _ c' => c'.raw = some b
    | _ => True := by
  split
  · rename_i st c' h
    unfold setRaw at h
    exact addRows_raw _ _ _ _ h
  · trivial

/-- if the text is accepted, the parsed lines are exactly its key/value list (last row of a
key wins) -/
theorem setRaw_lines (c : Ctx) (b : Bytes) (c' : Ctx)
    (h : setRaw c b = .done .ok c') :
    ∀ k, c'.lines.find k = lastVal (rowsOf b) k := by
  intro k
  unfold setRaw at h
  have h1 := (addRows_ok _ _ _ h).1 k
  rw [h1]
  cases lastVal (rowsOf b) k <;> simp [Store.find]

/-- … and `kdump_vmcoreinfo_line` returns exactly that value -/
theorem setRaw_vline (c : Ctx) (b : Bytes) (c' : Ctx)
    (h : setRaw c b = .done .ok c') (k : Bytes) :
    vline c' k = match lastVal (rowsOf b) k with
                 | some v => (.ok, v)
                 | none => (.nodata, []) := by
  have hl := setRaw_lines c b c' h k
  have hnd := setRaw_ok_noDot c b c' h
  unfold setRaw at h
  have h2 := (addRows_ok _ _ _ h).2.1
  unfold vline
  rw [hl]
  cases hv : lastVal (rowsOf b) k with
  | none => simp
  | some v =>
    have hne : rowsOf b ≠ [] := by
      intro he; rw [he] at hv; simp [lastVal] at hv
    have h3 := h2 hne
    have ⟨r, hr, hrk⟩ := lastVal_some_mem _ _ _ hv
    have hkd : leadingDot k = false := by rw [← hrk]; exact hnd r hr
    simp at h3
    simp [h3, hkd]

/-- `kdump_vmcoreinfo_raw` returns the text -/
theorem setRaw_vraw (c : Ctx) (b : Bytes) (c' : Ctx) (st : Status) (h : setRaw c b = .done st c') :
    vraw c' = (.ok, b) := by
  unfold setRaw at h
  have := addRows_raw _ _ _ _ h
  unfold vraw
  rw [this]

/-- clearing the raw text clears every derived view -/
theorem clearRaw_views (c : Ctx) :
    (clearRaw c).raw = none ∧ (clearRaw c).lines = [] ∧ (clearRaw c).typed = [] ∧
    (∀ k, (vline (clearRaw c) k).1 = .nodata) ∧ (∀ k, (vsym (clearRaw c) k).1 = .nodata) ∧
    (vraw (clearRaw c)).1 = .nodata := by
  refine ⟨rfl, rfl, rfl, ?_, ?_, rfl⟩
  · intro k
    unfold vline clearRaw
    split
    · rfl
    · simp [Store.find]
  · intro k
    unfold vsym clearRaw
    split
    · rfl
    · simp [Store.find]

/-- a row whose key is a directory of the tree built so far (some earlier key lies below
it) is refused and changes nothing -/
theorem addRow_dir_refused (c : Ctx) (r : Row) (hk : leadingDot r.key = false)
    (hnew : c.lines.find r.key = none) (hdir : c.lines.isDir r.key = true) :
    addRow c r = .done .invalid c := by
  have hs : slotOf c.lines r.key = .dir := by
    unfold slotOf
    simp [hk, hnew, hdir]
  unfold addRow
  rw [hs]

theorem not_mem_takeWhile_ne (c : Nat) (l : Bytes) : c ∉ l.takeWhile (· != c) := by
  intro h
  induction l with
  | nil => simp at h
  | cons a t ih =>
    rw [List.takeWhile_cons] at h
    split at h
    · simp at h; rcases h with h | h
      · simp_all
      · exact ih h
    · simp at h

theorem dropWhile_ne_cases (c : Nat) (l : Bytes) :
    l.dropWhile (· != c) = [] ∨ ∃ t, l.dropWhile (· != c) = c :: t := by
  cases hd : l.dropWhile (· != c) with
  | nil => exact Or.inl rfl
  | cons x t =>
    right
    have hne : l.dropWhile (· != c) ≠ [] := by rw [hd]; simp
    have := List.head_dropWhile_not (· != c) hne
    simp [hd] at this
    exact ⟨t, by rw [this]⟩

/-- a line is split at its first `'='` -/
theorem rowOfLine_spec (l : Bytes) :
    61 ∉ (rowOfLine l).key ∧
    ((l = (rowOfLine l).key ∧ (rowOfLine l).val = []) ∨ l = (rowOfLine l).key ++ [61] ++ (rowOfLine l).val) := by
  unfold rowOfLine
  simp only
  refine ⟨not_mem_takeWhile_ne 61 l, ?_⟩
  have h := List.takeWhile_append_dropWhile (p := (· != 61)) (l := l)
  rcases dropWhile_ne_cases 61 l with hd | ⟨t, hd⟩
  · left
    rw [hd] at h
    simp at h
    simp [h, hd]
  · right
    rw [hd] at h
    rw [hd]
    simp
    exact h.symm

theorem intercalate_single (l : Bytes) : List.intercalate [10] [l] = l := by
  simp [List.intercalate]

theorem intercalate_cons_cons (l l' : Bytes) (t : List Bytes) :
    List.intercalate [10] (l :: l' :: t) = l ++ 10 :: List.intercalate [10] (l' :: t) := by
  simp [List.intercalate]

theorem splitLines_nil (f : Nat) : splitLines f [] = [] := by
  cases f <;> rfl

theorem splitLines_succ (f : Nat) (s : Bytes) (hs : s ≠ []) :
    splitLines (f + 1) s =
      s.takeWhile (· != 10) :: splitLines f ((s.dropWhile (· != 10)).drop 1) := by
  cases s with
  | nil => exact absurd rfl hs
  | cons a t => rfl

theorem splitLines_aux : ∀ (f : Nat) (s : Bytes), s.length < f →
    (∀ l ∈ splitLines f s, 10 ∉ l) ∧
    (s ≠ [] → splitLines f s ≠ [] ∧
      (List.intercalate [10] (splitLines f s) = s ∨
       List.intercalate [10] (splitLines f s) ++ [10] = s)) := by
  intro f
  induction f with
  | zero => intro s h; exact absurd h (Nat.not_lt_zero _)
  | succ f ih =>
    intro s hlen
    by_cases hs : s = []
    · subst hs
      simp [splitLines_nil]
    · rw [splitLines_succ f s hs]
      have h := List.takeWhile_append_dropWhile (p := (· != 10)) (l := s)
      have hnm := not_mem_takeWhile_ne 10 s
      rcases dropWhile_ne_cases 10 s with hd | ⟨rest, hd⟩
      · rw [hd] at h ⊢
        simp only [List.append_nil] at h
        simp only [List.drop_nil, splitLines_nil]
        refine ⟨?_, fun _ => ⟨by simp, Or.inl ?_⟩⟩
        · intro l hl
          simp at hl
          rw [hl]; exact hnm
        · rw [intercalate_single]; exact h
      · rw [hd] at h ⊢
        simp only [List.drop_succ_cons, List.drop_zero]
        have hlr : rest.length < f := by
          have := congrArg List.length h
          simp at this
          omega
        have ⟨ih1, ih2⟩ := ih rest hlr
        refine ⟨?_, fun _ => ⟨by simp, ?_⟩⟩
        · intro l hl
          rw [List.mem_cons] at hl
          rcases hl with hl | hl
          · rw [hl]; exact hnm
          · exact ih1 l hl
        · by_cases hr : rest = []
          · subst hr
            right
            rw [splitLines_nil, intercalate_single]
            exact h
          · have ⟨hne, hor⟩ := ih2 hr
            cases hsp : splitLines f rest with
            | nil => exact absurd hsp hne
            | cons l' t' =>
              rw [hsp] at hor
              rw [intercalate_cons_cons]
              rcases hor with hor | hor
              · left; rw [hor]; exact h
              · right
                rw [List.append_assoc, List.cons_append, hor]; exact h

/-- the line splitter loses nothing and invents nothing: no piece contains a newline and
the pieces glued with newlines give back the text, up to one final newline -/
theorem splitLines_spec (raw : Bytes) :
    (∀ l ∈ splitLines (raw.length + 1) raw, 10 ∉ l) ∧
    (raw = [] → splitLines (raw.length + 1) raw = []) ∧
    (raw ≠ [] → (List.intercalate [10] (splitLines (raw.length + 1) raw) = raw ∨
                 List.intercalate [10] (splitLines (raw.length + 1) raw) ++ [10] = raw)) := by
  have ⟨h1, h2⟩ := splitLines_aux (raw.length + 1) raw (Nat.lt_succ_self _)
  refine ⟨h1, ?_, fun hne => (h2 hne).2⟩
  intro h; subst h; rfl

end Kdf.Lemmas.DerivedVmci
