import Kdf.Lemmas.Err
/-! Pure list lemmas for the error-message buffer (C16): bounds-checked block
writes and NUL-terminated strings inside byte arrays. -/
namespace Kdf.Lemmas.Err
open Kdf.Model.Err

/-! ### `wr` -/

theorem wr_fold (bs : List Byte) : ∀ (a b c : List Byte) (bad : Bool) (i : Nat), bs.length = b.length → i = a.length →
    bs.foldl (fun (acc : List Byte × Bool × Nat) b =>
      let (a, bad, i) := acc
      if i < a.length then (a.set i b, bad, i+1) else (a, true, i+1)) (a ++ b ++ c, bad, i)
    = (a ++ bs ++ c, bad, i + bs.length) := by
  induction bs with
  | nil =>
    intro a b c bad i h _
    have : b = [] := List.length_eq_zero_iff.mp h.symm
    simp [this]
  | cons x bs ih =>
    intro a b c bad i h hi
    cases b with
    | nil => simp at h
    | cons y b =>
      simp only [List.length_cons, Nat.add_right_cancel_iff] at h
      have hlt : i < (a ++ y :: b ++ c).length := by simp; omega
      simp only [List.foldl_cons, hlt, if_true]
      have hs : (a ++ y :: b ++ c).set i x = (a ++ [x]) ++ b ++ c := by
        subst hi
        simp
      rw [hs, ih (a ++ [x]) b c bad (i+1) h (by simp [hi])]
      simp
      omega

/-- overwriting the middle segment of an array, in bounds -/
theorem wr_mid (a b c bs : List Byte) (h : bs.length = b.length) :
    wr (a ++ b ++ c) a.length bs = (a ++ bs ++ c, false) := by
  unfold wr
  rw [wr_fold bs a b c false a.length h rfl]

theorem wr_mid' (a b c bs : List Byte) (o : Nat) (ho : o = a.length) (h : bs.length = b.length) :
    wr (a ++ b ++ c) o bs = (a ++ bs ++ c, false) := by
  subst ho; exact wr_mid a b c bs h

/-- cut an array at two offsets -/
theorem split3 (arr : List Byte) (o k : Nat) (h : o + k ≤ arr.length) :
    ∃ a b c, arr = a ++ b ++ c ∧ a.length = o ∧ b.length = k ∧ a = arr.take o ∧ c = arr.drop (o + k) := by
  refine ⟨arr.take o, (arr.drop o).take k, arr.drop (o + k), ?_, ?_, ?_, rfl, rfl⟩
  · rw [List.append_assoc, ← List.drop_drop, List.take_append_drop, List.take_append_drop]
  · simp; omega
  · simp; omega

theorem wr_eq (arr : List Byte) (o : Nat) (bs : List Byte) (h : o + bs.length ≤ arr.length) :
    wr arr o bs = (arr.take o ++ bs ++ arr.drop (o + bs.length), false) := by
  obtain ⟨a, b, c, harr, ha, hb, hat, hc⟩ := split3 arr o bs.length h
  rw [← hat, ← hc]
  conv => lhs; rw [harr]
  exact wr_mid' a b c bs o ha.symm hb.symm

end Kdf.Lemmas.Err

namespace Kdf.Lemmas.Err
open Kdf.Model.Err

/-! ### NUL-terminated strings inside arrays -/

/-- `arr` holds the NUL-terminated string `s` at offset `o` -/
def Shape (arr : List Byte) (o : Nat) (s : List Byte) : Prop :=
  (∀ b ∈ s, b ≠ 0) ∧ ∃ pre suf, arr = pre ++ s ++ 0 :: suf ∧ pre.length = o

theorem Shape.get {arr o s} (h : Shape arr o s) (i : Nat) (hi : i < s.length) : arr[o+i]? = s[i]? := by
  obtain ⟨_, pre, suf, rfl, rfl⟩ := h
  rw [List.append_assoc, List.getElem?_append_right (by omega)]
  simp [List.getElem?_append_left hi]

theorem Shape.get_nul {arr o s} (h : Shape arr o s) : arr[o + s.length]? = some 0 := by
  obtain ⟨_, pre, suf, rfl, rfl⟩ := h
  rw [List.append_assoc, List.getElem?_append_right (by omega)]
  simp

theorem Shape.lt {arr o s} (h : Shape arr o s) : o + s.length < arr.length := by
  obtain ⟨_, pre, suf, rfl, rfl⟩ := h
  simp

theorem Shape.nz {arr o s} (h : Shape arr o s) : ∀ b ∈ s, b ≠ 0 := h.1

theorem Shape.of_pointwise {arr : List Byte} {o n : Nat} (h0 : arr[o+n]? = some 0)
    (hn : ∀ i, i < n → ∃ b, arr[o+i]? = some b ∧ b ≠ 0) : ∃ s, s.length = n ∧ Shape arr o s := by
  have hlt : o + n < arr.length := by
    rcases List.getElem?_eq_some_iff.mp h0 with ⟨h, _⟩; exact h
  refine ⟨(arr.drop o).take n, by simp; omega, ?_, arr.take o, arr.drop (o+n+1), ?_, by simp; omega⟩
  · intro b hb
    rcases List.mem_iff_getElem?.mp hb with ⟨i, hi⟩
    rw [List.getElem?_take] at hi
    split at hi
    · rw [List.getElem?_drop] at hi
      rcases hn i ‹_› with ⟨b', hb', hne⟩
      rw [hb'] at hi; cases hi; exact hne
    · cases hi
  · have h1 : arr.drop (o+n) = 0 :: arr.drop (o+n+1) := by
      rw [List.drop_eq_getElem_cons hlt]
      rcases List.getElem?_eq_some_iff.mp h0 with ⟨_, h⟩
      rw [h]
    rw [← h1, List.append_assoc, ← List.drop_drop, List.take_append_drop, List.take_append_drop]

theorem go_spec (e : ErrBuf) (p : Pos) (s : List Byte) (nz : ∀ b ∈ s, b ≠ 0)
    (hrd : ∀ i, i < s.length → rd e p i = s[i]?) (hz : rd e p s.length = some 0) :
    ∀ fuel i, i ≤ s.length → s.length - i < fuel → cstr.go e p fuel i = s.drop i := by
  intro fuel
  induction fuel with
  | zero => intro i _ h; omega
  | succ fuel ih =>
    intro i hi hf
    rcases Nat.lt_or_ge i s.length with hlt | hge
    · have hd : s.drop i = s[i] :: s.drop (i+1) := List.drop_eq_getElem_cons hlt
      have hne : s[i] ≠ 0 := nz _ (List.getElem_mem hlt)
      rw [hd, cstr.go, hrd i hlt, List.getElem?_eq_getElem hlt, ih (i+1) (by omega) (by omega)]
      generalize s[i] = x at hne
      cases x with
      | zero => exact absurd rfl hne
      | succ k => rfl
    · have : i = s.length := by omega
      subst this
      rw [cstr.go, hz]; simp

end Kdf.Lemmas.Err
