import Kdf.Lemmas.ConcInv
import Kdf.Lemmas.ConcCache
import Kdf.Lemmas.ConcUtil
import Kdf.Props.C06
/-!
Preservation of the global invariant `GInv` by every step of every thread of the
concurrency model (repaired put), hence `GInv` in every reachable state, under every schedule.
-/
set_option linter.unusedSimpArgs false
namespace Kdf.Lemmas.Conc
open Kdf.Model.Cache Kdf.Model.Conc Kdf.Lemmas.Cache Kdf.Lemmas.ConcCache

/-! ### Steps that only move the program counter -/

def Pc.isPutU : Pc → Bool
  | .putU _ _ => true
  | _ => false

/-- side conditions of a step inside a read that only moves the pc -/
def PcOk (pc pc' : Pc) : Prop :=
  Pc.reading pc = true ∧ Pc.reading pc' = true ∧ pc'.holds = pc.holds ∧
  Pc.validAt pc' = Pc.validAt pc ∧ Pc.filledOk pc' = Pc.filledOk pc ∧ Pc.isPutU pc' = false

theorem ginv_pcstep {cap n : Nat} {s s' : State} {t : Nat} {pc' : Pc} (h : GInv cap n s)
    (ht : t < s.thr.length) (hthr : s'.thr = s.thr.modify t (fun x => { x with pc := pc' }))
    (hcache : s'.cache = s.cache) (hbuf : s'.buf = s.buf) (hw : s'.writer = s.writer)
    (hr : s'.readers = s.readers) (hok : PcOk (s.thread t).pc pc')
    (hl : LockStep s s' t (s.thread t).pc pc') : GInv cap n s' := by
  obtain ⟨h1, h2, h3, h4, h5, h6⟩ := hok
  refine ginv_asm h ht hthr hw hr h1 h2 (h.bad (s.thread t) (thread_mem ht)) ?_ hl ?_
  · intro e tmp hx
    have : pc' = .putU e tmp := hx
    rw [this] at h6; cases h6
  · exact cinv_keep h ht hthr hcache hbuf h3 (fun _ _ => ⟨rfl, rfl⟩)
      (fun e he => h.valid t e (h4 ▸ he)) (fun hf => h5 ▸ hf)

theorem ginv_acquire {cap n : Nat} {s s' : State} {t : Nat} {pc' : Pc} (h : GInv cap n s)
    (ht : t < s.thr.length)
    (hs : (if s.lock.isSome = true then Res.blocked
      else Res.ok ({ s with lock := some t }.setPc t pc')) = Res.ok s')
    (hok : PcOk (s.thread t).pc pc') (hl : pc'.hasLock = true) : GInv cap n s' := by
  split at hs
  · cases hs
  · rename_i hn
    injection hs with hs; subst hs
    have hln : s.lock = none := by
      cases hlk : s.lock with
      | none => rfl
      | some x => rw [hlk] at hn; exact absurd rfl hn
    exact ginv_pcstep h ht rfl rfl rfl rfl rfl hok (Or.inr (Or.inl ⟨hln, rfl, hl⟩))

theorem ginv_release {cap n : Nat} {s s' : State} {t : Nat} {pc' : Pc} (h : GInv cap n s)
    (ht : t < s.thr.length)
    (hs : Res.ok ({ s with lock := none }.setPc t pc') = Res.ok s')
    (hok : PcOk (s.thread t).pc pc') (hl0 : (s.thread t).pc.hasLock = true)
    (hl : pc'.hasLock = false) : GInv cap n s' := by
  injection hs with hs; subst hs
  exact ginv_pcstep h ht rfl rfl rfl rfl rfl hok (Or.inr (Or.inr ⟨hl0, rfl, hl⟩))

/-! ### `shared->lock` -/

theorem rd_idle : Pc.reading .idle = false := rfl
theorem rd_writing : Pc.reading .writing = false := rfl
theorem rd_inRead : Pc.reading .inRead = true := rfl


theorem ginv_rdlock {cap n : Nat} {s s' : State} {t : Nat} (h : GInv cap n s) (ht : t < s.thr.length)
    (hpc : (s.thread t).pc = .idle) (hwn : s.writer = none)
    (hthr : s'.thr = s.thr.modify t (fun x => { x with pc := .inRead }))
    (hcache : s'.cache = s.cache) (hbuf : s'.buf = s.buf) (hlock : s'.lock = s.lock)
    (hw : s'.writer = s.writer) (hr : s'.readers = s.readers + 1) : GInv cap n s' := by
  refine ginv_asm' h ht hthr (h.bad (s.thread t) (thread_mem ht)) (fun e tmp hx => Pc.noConfusion hx)
    (Or.inl ⟨hlock, by rw [hpc]; rfl⟩) ?_ ?_ ?_ ?_
  · exact cinv_keep h ht hthr hcache hbuf (by rw [hpc]; rfl) (fun _ _ => ⟨rfl, rfl⟩)
      (fun e he => by cases he) (fun hf => by cases hf)
  · intro t'
    rw [thread_upd ht hthr, hw, hwn]
    by_cases htt : t' = t
    · simp only [htt, if_true]
      constructor <;> intro hx <;> cases hx
    · simp only [htt, if_false]
      have := h.wrA t'; rw [hwn] at this; exact this
  · intro hx; rw [hw, hwn] at hx; cases hx
  · have := reading_upd ht hthr
    rw [hpc] at this
    simp only [rd_idle, rd_writing, rd_inRead, Bool.false_eq_true, if_false, if_true] at this
    rw [hr, h.rdN]; omega

theorem ginv_rdunlock {cap n : Nat} {s s' : State} {t : Nat} (h : GInv cap n s) (ht : t < s.thr.length)
    (hpc : (s.thread t).pc = .inRead)
    (hthr : s'.thr = s.thr.modify t (fun x => { x with pc := .idle }))
    (hcache : s'.cache = s.cache) (hbuf : s'.buf = s.buf) (hlock : s'.lock = s.lock)
    (hw : s'.writer = s.writer) (hr : s'.readers = s.readers - 1) : GInv cap n s' := by
  have hwn : s.writer = none := by
    cases hx : s.writer with
    | none => rfl
    | some x =>
      have := h.wrX (by rw [hx]; rfl) t
      rw [hpc] at this; cases this
  refine ginv_asm' h ht hthr (h.bad (s.thread t) (thread_mem ht)) (fun e tmp hx => Pc.noConfusion hx)
    (Or.inl ⟨hlock, by rw [hpc]; rfl⟩) ?_ ?_ ?_ ?_
  · exact cinv_keep h ht hthr hcache hbuf (by rw [hpc]; rfl) (fun _ _ => ⟨rfl, rfl⟩)
      (fun e he => by cases he) (fun hf => by cases hf)
  · intro t'
    rw [thread_upd ht hthr, hw, hwn]
    by_cases htt : t' = t
    · simp only [htt, if_true]
      constructor <;> intro hx <;> cases hx
    · simp only [htt, if_false]
      have := h.wrA t'; rw [hwn] at this; exact this
  · intro hx; rw [hw, hwn] at hx; cases hx
  · have := reading_upd ht hthr
    rw [hpc] at this
    simp only [rd_idle, rd_writing, rd_inRead, Bool.false_eq_true, if_false, if_true] at this
    rw [hr, h.rdN]; omega

theorem ginv_wrlock {cap n : Nat} {s s' : State} {t : Nat} (h : GInv cap n s) (ht : t < s.thr.length)
    (hpc : (s.thread t).pc = .idle) (hwn : s.writer = none) (hr0 : s.readers = 0)
    (hthr : s'.thr = s.thr.modify t (fun x => { x with pc := .writing }))
    (hcache : s'.cache = s.cache) (hbuf : s'.buf = s.buf) (hlock : s'.lock = s.lock)
    (hw : s'.writer = some t) (hr : s'.readers = s.readers) : GInv cap n s' := by
  refine ginv_asm' h ht hthr (h.bad (s.thread t) (thread_mem ht)) (fun e tmp hx => Pc.noConfusion hx)
    (Or.inl ⟨hlock, by rw [hpc]; rfl⟩) ?_ ?_ ?_ ?_
  · exact cinv_keep h ht hthr hcache hbuf (by rw [hpc]; rfl) (fun _ _ => ⟨rfl, rfl⟩)
      (fun e he => by cases he) (fun hf => by cases hf)
  · intro t'
    rw [thread_upd ht hthr, hw]
    by_cases htt : t' = t
    · simp only [htt, if_true]
    · simp only [htt, if_false]
      have := h.wrA t'; rw [hwn] at this
      constructor
      · intro hx; exact absurd (this.1 hx) (by simp)
      · intro hx; injection hx with hx; exact absurd hx.symm htt
  · intro _ t'
    rw [thread_upd ht hthr]
    by_cases htt : t' = t
    · simp only [htt, if_true]; rfl
    · simp only [htt, if_false]
      by_cases hlt : t' < s.thr.length
      · exact getD_false_of_count_zero (fun th : Thread => Pc.reading th.pc) default s.thr t' hlt
          (by rw [← h.rdN]; exact hr0)
      · rw [thread_default (Nat.le_of_not_lt hlt)]; rfl
  · have := reading_upd ht hthr
    rw [hpc] at this
    simp only [rd_idle, rd_writing, rd_inRead, Bool.false_eq_true, if_false, if_true] at this
    rw [hr, h.rdN]; omega

theorem ginv_wrunlock {cap n : Nat} {s s' : State} {t : Nat} (h : GInv cap n s) (ht : t < s.thr.length)
    (hpc : (s.thread t).pc = .writing)
    (hthr : s'.thr = s.thr.modify t (fun x => { x with pc := .idle }))
    (hcache : s'.cache = s.cache) (hbuf : s'.buf = s.buf) (hlock : s'.lock = s.lock)
    (hw : s'.writer = none) (hr : s'.readers = s.readers) : GInv cap n s' := by
  have hwt : s.writer = some t := (h.wrA t).1 hpc
  refine ginv_asm' h ht hthr (h.bad (s.thread t) (thread_mem ht)) (fun e tmp hx => Pc.noConfusion hx)
    (Or.inl ⟨hlock, by rw [hpc]; rfl⟩) ?_ ?_ ?_ ?_
  · exact cinv_keep h ht hthr hcache hbuf (by rw [hpc]; rfl) (fun _ _ => ⟨rfl, rfl⟩)
      (fun e he => by cases he) (fun hf => by cases hf)
  · intro t'
    rw [thread_upd ht hthr, hw]
    by_cases htt : t' = t
    · simp only [htt, if_true]
      constructor <;> intro hx <;> cases hx
    · simp only [htt, if_false]
      have := h.wrA t'; rw [hwt] at this
      constructor
      · intro hx; have := this.1 hx; injection this with this; exact absurd this.symm htt
      · intro hx; cases hx
  · intro hx; rw [hw] at hx; cases hx
  · have := reading_upd ht hthr
    rw [hpc] at this
    simp only [rd_idle, rd_writing, rd_inRead, Bool.false_eq_true, if_false, if_true] at this
    rw [hr, h.rdN]; omega

/-! ### `cache_get_entry` -/

theorem refcnt_ne_zero_of_holds {cap n : Nat} {s : State} (h : GInv cap n s) {t e : Nat}
    (he : (s.thread t).pc.holds = some e) : s.cache.refcnt e ≠ 0 := by
  rw [h.ref e]; exact Nat.pos_iff_ne_zero.1 (holders_pos he)

theorem cinv_get {cap n : Nat} {s s' : State} {t k e : Nat} {v : Bool} {c' : Cache} {f : Thread → Thread}
    (h : GInv cap n s) (ht : t < s.thr.length) (hpc : (s.thread t).pc = .locked1)
    (hg : Kdf.Model.Cache.get s.cache k = .ok (c', .entry e v))
    (hthr : s'.thr = s.thr.modify t f) (hcache : s'.cache = c') (hbuf : s'.buf = s.buf)
    (hkey : (f (s.thread t)).key = k) (hdat : (f (s.thread t)).dat = c'.dataOf e)
    (hholds : (f (s.thread t)).pc.holds = some e)
    (hval : (∃ e', Pc.validAt (f (s.thread t)).pc = some e') → v = true)
    (hfok : Pc.filledOk (f (s.thread t)).pc = false) : CInv cap s' := by
  have hS : InvS s.cache True := (inv_iff _).1 h.cinv
  obtain ⟨c'', o, hg', hI, hcap, hfr, hout⟩ := get_spec hS k
  rw [hg] at hg'
  simp only [Except.ok.injEq, Prod.mk.injEq] at hg'
  obtain ⟨rfl, rfl⟩ := hg'
  subst hcache
  have hnone : (s.thread t).pc.holds = none := by rw [hpc]; rfl
  refine ⟨(inv_iff _).2 hI, hcap.trans h.ccap, hbuf ▸ h.blen, ?_, ?_, ?_, ?_, ?_⟩
  · intro i
    have := holders_upd ht hthr i
    rw [hnone, hholds] at this
    rw [Kdf.Lemmas.ConcCache.get_refcnt hS hg i, h.ref i]
    by_cases hie : i = e
    · subst hie; simp at this ⊢; omega
    · have hei : ¬ e = i := fun x => hie x.symm
      simp [hie, hei] at this ⊢; omega
  · intro t' e'
    rw [thread_upd ht hthr]
    by_cases htt : t' = t
    · simp only [htt, if_true]
      intro he
      rw [hholds] at he; injection he with he; subst he
      rw [hkey, hdat]
      refine ⟨?_, ?_, rfl⟩
      · cases v with
        | true =>
          have hout' : e ∈ cached s.cache ∧ s.cache.key e = k ∧ e ∈ cached s'.cache := hout
          exact cached_sub_live hout'.2.2
        | false =>
          have hout' : e ∈ s'.cache.F ∧ s'.cache.key e = k ∧ _ := hout
          unfold live; exact List.mem_append_right _ hout'.1
      · cases v with
        | true =>
          have hout' : e ∈ cached s.cache ∧ s.cache.key e = k ∧ e ∈ cached s'.cache := hout
          rw [(hfr.cach e hout'.2.2).2.1]; exact hout'.2.1
        | false =>
          have hout' : e ∈ s'.cache.F ∧ s'.cache.key e = k ∧ _ := hout
          exact hout'.2.1
    · simp only [htt, if_false]
      intro he
      obtain ⟨h1, h2, h3⟩ := h.hold t' e' he
      obtain ⟨g1, g2, g3, _⟩ := hfr.refd e' h1 (refcnt_ne_zero_of_holds h he)
      exact ⟨g1, g2.trans h2, h3.trans g3.symm⟩
  · intro t' e'
    rw [thread_upd ht hthr]
    by_cases htt : t' = t
    · simp only [htt, if_true]
      intro he
      have hv := hval ⟨e', he⟩; subst hv
      have := holds_of_validAt he
      rw [hholds] at this; injection this with this; subst this
      have hout' : e ∈ cached s.cache ∧ s.cache.key e = k ∧ e ∈ cached s'.cache := hout
      exact hout'.2.2
    · simp only [htt, if_false]
      intro he
      exact Kdf.Lemmas.ConcCache.get_cached_stays hS hg e' (h.valid t' e' he)
        (refcnt_ne_zero_of_holds h (holds_of_validAt he))
  · intro t'
    rw [thread_upd ht hthr, hbuf]
    by_cases htt : t' = t
    · simp only [htt, if_true]
      intro hf; rw [hfok] at hf; cases hf
    · simp only [htt, if_false]; exact h.fok t'
  · intro i hi
    obtain ⟨g1, g2, g3⟩ := hfr.cach i hi
    rw [g2, g3, hbuf]; exact h.cont i g1

/-! ### the fill routine -/

theorem cinv_fill {cap n : Nat} {s s' : State} {t e d : Nat} {ok : Bool} {pc' : Pc}
    (h : GInv cap n s) (ht : t < s.thr.length) (hholds : (s.thread t).pc.holds = some e)
    (hdat : (s.thread t).dat = some d)
    (hthr : s'.thr = s.thr.modify t (fun x => { x with pc := pc' })) (hcache : s'.cache = s.cache)
    (hbuf : s'.buf = fillBuf s.buf d (s.thread t).key ok)
    (hholds' : pc'.holds = some e) (hval' : Pc.validAt pc' = none)
    (hfok' : Pc.filledOk pc' = true → ok = true) : CInv cap s' := by
  have hS : InvS s.cache True := (inv_iff _).1 h.cinv
  obtain ⟨hel, hek, hed⟩ := h.hold t e hholds
  have hde : s.cache.dataOf e = some d := hed.symm.trans hdat
  have hdlt : d < s.buf.length := by
    rw [h.blen, ← h.ccap]; exact data_lt_cap hS (live_lt hS hel) hde
  have hget : ∀ d', s'.buf.getD d' none = if d' = d then
      (if ok = true then some (s.thread t).key
        else if s.buf.getD d none = some (s.thread t).key then some (s.thread t).key else none)
      else s.buf.getD d' none := by
    intro d'
    rw [hbuf]; unfold fillBuf; rw [getD_modify]
    by_cases hdd : d' = d
    · simp only [hdd, hdlt, and_self, if_true]
    · simp only [hdd, false_and, if_false]
  have hsame : ∀ d' k', s.buf.getD d' none = some k' → (d' = d → k' = (s.thread t).key) →
      s'.buf.getD d' none = some k' := by
    intro d' k' h1 h2
    rw [hget]
    by_cases hdd : d' = d
    · have := h2 hdd; subst this
      subst hdd
      rw [if_pos rfl, h1]
      cases ok <;> simp
    · rw [if_neg hdd]; exact h1
  refine ⟨hcache ▸ h.cinv, hcache ▸ h.ccap, ?_, ?_, ?_, ?_, ?_, ?_⟩
  · rw [hbuf]; unfold fillBuf; rw [List.length_modify]; exact h.blen
  · intro i
    have := holders_upd ht hthr i
    have hx : ({ s.thread t with pc := pc' } : Thread).pc.holds = (s.thread t).pc.holds := by
      rw [hholds]; exact hholds'
    rw [hx] at this
    rw [hcache, h.ref i]
    omega
  · intro t' e'
    rw [thread_upd ht hthr, hcache]
    by_cases htt : t' = t
    · simp only [htt, if_true]
      intro he
      have he : pc'.holds = some e' := he
      rw [hholds'] at he; injection he with he; subst he
      exact h.hold t e hholds
    · simp only [htt, if_false]; exact h.hold t' e'
  · intro t' e'
    rw [thread_upd ht hthr, hcache]
    by_cases htt : t' = t
    · simp only [htt, if_true]
      intro he
      have he : Pc.validAt pc' = some e' := he
      rw [hval'] at he; cases he
    · simp only [htt, if_false]; exact h.valid t' e'
  · intro t'
    rw [thread_upd ht hthr]
    by_cases htt : t' = t
    · simp only [htt, if_true]
      intro hf
      have hok := hfok' hf
      refine ⟨d, hdat, ?_⟩
      rw [hget, if_pos rfl, if_pos hok]
    · simp only [htt, if_false]
      intro hf
      obtain ⟨d', h1, h2⟩ := h.fok t' hf
      refine ⟨d', h1, hsame d' _ h2 ?_⟩
      intro hdd; subst hdd
      obtain ⟨e'', he''⟩ := holds_of_filledOk hf
      obtain ⟨g1, g2, g3⟩ := h.hold t' e'' he''
      have : e'' = e := live_buffer_inj hS g1 hel (g3.symm.trans h1) hde
      subst this
      rw [← g2, hek]
  · intro i hi
    rw [hcache] at hi ⊢
    obtain ⟨d', h1, h2⟩ := h.cont i hi
    refine ⟨d', h1, hsame d' _ h2 ?_⟩
    intro hdd; subst hdd
    have : i = e := live_buffer_inj hS (cached_sub_live hi) hel h1 hde
    subst this
    exact hek

/-! ### `cache_insert` -/

theorem cinv_insert {cap n : Nat} {s s' : State} {t e : Nat} {c' : Cache} {o : Out}
    (h : GInv cap n s) (ht : t < s.thr.length) (hpc : (s.thread t).pc = .locked2 e true)
    (hi : Kdf.Model.Cache.insert s.cache e = .ok (c', o))
    (hthr : s'.thr = s.thr.modify t (fun x => { x with pc := .hitL e })) (hcache : s'.cache = c')
    (hbuf : s'.buf = s.buf) : CInv cap s' := by
  have hS : InvS s.cache True := (inv_iff _).1 h.cinv
  obtain ⟨hent, hlive, hcached, hcap⟩ := insert_frame hS hi
  have hInv : Inv c' := (inv_iff _).2 (insert_spec hS hi).1
  subst hcache
  have hholds : (s.thread t).pc.holds = some e := by rw [hpc]; rfl
  obtain ⟨hel, hek, hed⟩ := h.hold t e hholds
  have hec : e ∈ cached s'.cache := by
    rcases live_cases hel with hx | hx
    · exact (hcached e).2 (Or.inl hx)
    · exact (hcached e).2 (Or.inr ⟨rfl, hx⟩)
  refine ⟨hInv, hcap.trans h.ccap, hbuf ▸ h.blen, ?_, ?_, ?_, ?_, ?_⟩
  · intro i
    have := holders_upd ht hthr i
    have hx : ({ s.thread t with pc := .hitL e } : Thread).pc.holds = (s.thread t).pc.holds := by
      rw [hholds]; rfl
    rw [hx] at this
    rw [(hent i).1, h.ref i]
    omega
  · intro t' e'
    rw [thread_upd ht hthr, hlive e', (hent e').2.1, (hent e').2.2]
    by_cases htt : t' = t
    · simp only [htt, if_true]
      intro he
      have he : some e = some e' := he
      injection he with he; subst he
      exact h.hold t e hholds
    · simp only [htt, if_false]; exact h.hold t' e'
  · intro t' e'
    rw [thread_upd ht hthr]
    by_cases htt : t' = t
    · simp only [htt, if_true]
      intro he
      have he : some e = some e' := he
      injection he with he; subst he
      exact hec
    · simp only [htt, if_false]
      intro he
      exact (hcached e').2 (Or.inl (h.valid t' e' he))
  · intro t'
    rw [thread_upd ht hthr, hbuf]
    by_cases htt : t' = t
    · simp only [htt, if_true]
      intro hf; cases hf
    · simp only [htt, if_false]; exact h.fok t'
  · intro i hi
    rw [(hent i).2.1, (hent i).2.2, hbuf]
    rcases (hcached i).1 hi with hx | ⟨hx, _⟩
    · exact h.cont i hx
    · subst hx
      obtain ⟨d, h1, h2⟩ := h.fok t (by rw [hpc]; rfl)
      exact ⟨d, hed.symm.trans h1, by rw [hek]; exact h2⟩

/-! ### `cache_discard` and `cache_put_entry` -/

/-- common part of `put` and `discard`: thread `t` gives up its reference on `e` -/
theorem cinv_drop {cap n : Nat} {s s' : State} {t e : Nat} {c' : Cache}
    (h : GInv cap n s) (ht : t < s.thr.length) (hholds : (s.thread t).pc.holds = some e)
    (hInv : Inv c')
    (hent : ∀ i, c'.refcnt i = (if i = e then s.cache.refcnt e - 1 else s.cache.refcnt i) ∧
      c'.key i = s.cache.key i ∧ c'.dataOf i = s.cache.dataOf i)
    (hB : c'.B = s.cache.B) (hP : c'.P = s.cache.P)
    (hF : ∀ i, i ∈ c'.F ↔ (i ∈ s.cache.F ∧ ¬ (i = e ∧ s.cache.refcnt e = 1))) (hcap : c'.cap = s.cache.cap)
    (hthr : s'.thr = s.thr.modify t (fun x => { x with pc := .locked1 })) (hcache : s'.cache = c')
    (hbuf : s'.buf = s.buf) : CInv cap s' := by
  subst hcache
  have hcd : cached s'.cache = cached s.cache := by unfold cached; rw [hB, hP]
  have hhold := fun i => holders_upd ht hthr i
  refine ⟨hInv, hcap.trans h.ccap, hbuf ▸ h.blen, ?_, ?_, ?_, ?_, ?_⟩
  · intro i
    have := hhold i
    rw [hholds] at this
    have hx : ({ s.thread t with pc := .locked1 } : Thread).pc.holds = none := rfl
    rw [hx] at this
    rw [(hent i).1]
    by_cases hie : i = e
    · subst hie; rw [h.ref i]; simp at this ⊢; omega
    · have hei : ¬ e = i := fun x => hie x.symm
      rw [h.ref i]
      simp [hie, hei] at this ⊢; omega
  · intro t' e'
    rw [thread_upd ht hthr, (hent e').2.1, (hent e').2.2]
    by_cases htt : t' = t
    · simp only [htt, if_true]
      intro he; cases he
    · simp only [htt, if_false]
      intro he
      obtain ⟨h1, h2, h3⟩ := h.hold t' e' he
      refine ⟨?_, h2, h3⟩
      rcases live_cases h1 with hx | hx
      · exact cached_sub_live (hcd ▸ hx)
      · unfold live
        refine List.mem_append_right _ ((hF e').2 ⟨hx, ?_⟩)
        rintro ⟨hee, hr1⟩
        subst hee
        have h4 := hhold e'
        rw [hholds] at h4
        have hx : ({ s.thread t with pc := .locked1 } : Thread).pc.holds = none := rfl
        rw [hx] at h4
        have h5 : (s'.thread t').pc.holds = some e' := by
          rw [thread_upd ht hthr, if_neg htt]; exact he
        have h6 := holders_pos h5
        have h7 := h.ref e'
        simp at h4
        omega
  · intro t' e'
    rw [thread_upd ht hthr, hcd]
    by_cases htt : t' = t
    · simp only [htt, if_true]
      intro he; cases he
    · simp only [htt, if_false]; exact h.valid t' e'
  · intro t'
    rw [thread_upd ht hthr, hbuf]
    by_cases htt : t' = t
    · simp only [htt, if_true]
      intro hf; cases hf
    · simp only [htt, if_false]; exact h.fok t'
  · intro i hi
    rw [(hent i).2.1, (hent i).2.2, hbuf]
    exact h.cont i (hcd ▸ hi)

theorem cinv_discard {cap n : Nat} {s s' : State} {t e : Nat} {c' : Cache} {o : Out}
    (h : GInv cap n s) (ht : t < s.thr.length) (hpc : (s.thread t).pc = .locked2 e false)
    (hd : Kdf.Model.Cache.discard s.cache e = .ok (c', o))
    (hthr : s'.thr = s.thr.modify t (fun x => { x with pc := .locked1 })) (hcache : s'.cache = c')
    (hbuf : s'.buf = s.buf) : CInv cap s' := by
  have hS : InvS s.cache True := (inv_iff _).1 h.cinv
  obtain ⟨_, hent, hB, hP, hF, hcap⟩ := discard_frame hS hd
  exact cinv_drop h ht (by rw [hpc]; rfl) ((inv_iff _).2 (discard_spec hS hd).1) hent hB hP hF hcap hthr
    hcache hbuf

theorem cinv_put {cap n : Nat} {s s' : State} {t e : Nat} {c' : Cache} {o : Out}
    (h : GInv cap n s) (ht : t < s.thr.length) (hpc : (s.thread t).pc = .putL e)
    (hp : Kdf.Model.Cache.put s.cache e = .ok (c', o))
    (hthr : s'.thr = s.thr.modify t (fun x => { x with pc := .locked1 })) (hcache : s'.cache = c')
    (hbuf : s'.buf = s.buf) : CInv cap s' := by
  have hS : InvS s.cache True := (inv_iff _).1 h.cinv
  obtain ⟨_, hent, hB, hP, hF, hcap⟩ := put_frame hp
  have hec : e ∈ cached s.cache := h.valid t e (by rw [hpc]; rfl)
  have hnF : e ∉ s.cache.F := cached_not_F hS hec
  refine cinv_drop h ht (by rw [hpc]; rfl)
    ((inv_iff _).2 (put_spec hS hp (fun _ heF => absurd heF hnF)).1) hent hB hP ?_ hcap hthr hcache hbuf
  intro i
  rw [hF]
  constructor
  · intro hi
    exact ⟨hi, fun hx => hnF (hx.1 ▸ hi)⟩
  · intro hi; exact hi.1

/-! ### `memcpy` out of the page buffer -/

theorem ginv_copy {cap n : Nat} {s s' : State} {t e : Nat} (h : GInv cap n s) (ht : t < s.thr.length)
    (hholds : (s.thread t).pc.holds = some e) (hec : e ∈ cached s.cache)
    (hl : (s.thread t).pc.hasLock = false)
    (hs : doCopy s t e = .ok s') : GInv cap n s' := by
  unfold doCopy at hs
  split at hs
  · cases hs
  · rename_i d hd
    injection hs with hs; subst hs
    obtain ⟨d', h1, h2⟩ := h.cont e hec
    obtain ⟨_, hek, hed⟩ := h.hold t e hholds
    have hdd : d' = d := by
      have := (hed.symm.trans hd).symm.trans h1
      injection this with this; exact this.symm
    subst hdd
    have hgood : s.buf.getD d' none = some (s.thread t).key := by rw [h2, hek]
    have hb : (s.thread t).bad = false := h.bad _ (thread_mem ht)
    refine ginv_asm h ht rfl rfl rfl (reading_of_holds hholds) rfl ?_ (fun e tmp hx => Pc.noConfusion hx)
      (Or.inl ⟨rfl, by rw [hl]; rfl⟩) ?_
    · show ((s.thread t).bad || !decide (s.buf.getD d' none = some (s.thread t).key)) = false
      rw [hb, hgood]; simp
    · refine cinv_keep h ht rfl rfl rfl (by rw [hholds]; rfl) (fun _ _ => ⟨rfl, rfl⟩) ?_
        (fun hf => by cases hf)
      intro e' he'
      have he' : some e = some e' := he'
      injection he' with he'; subst he'
      exact hec

/-! ### The steps of `step` -/

theorem ginv_getstep {cap n : Nat} {s s' : State} {t k : Nat} (h : GInv cap n s) (ht : t < s.thr.length)
    (hpc : (s.thread t).pc = .locked1)
    (hs : (match Kdf.Model.Cache.get s.cache k with
      | .error e => Res.err e
      | .ok (c', .busy) => .ok { s with cache := c', thr := s.thr.modify t fun x => { x with key := k } }
      | .ok (c', .entry e true) =>
        .ok { s with cache := c', thr := s.thr.modify t fun x => { x with key := k, dat := c'.dataOf e, pc := .hitL e } }
      | .ok (c', .entry e false) =>
        .ok { s with cache := c', thr := s.thr.modify t fun x => { x with key := k, dat := c'.dataOf e, pc := .missL e } }
      | .ok (_, .done) => .refused) = Res.ok s') : GInv cap n s' := by
  have hb : (s.thread t).bad = false := h.bad _ (thread_mem ht)
  have hrd : Pc.reading (s.thread t).pc = true := by rw [hpc]; rfl
  split at hs
  · cases hs
  · rename_i c' hg
    injection hs with hs; subst hs
    have hcc : c' = s.cache := get_busy_eq hg
    subst hcc
    refine ginv_asm h ht rfl rfl rfl hrd hrd hb (fun e tmp hx => h.noPutU t e tmp hx) (Or.inl ⟨rfl, rfl⟩) ?_
    refine cinv_keep h ht rfl rfl rfl rfl ?_ (fun e he => h.valid t e he) (fun hf => hf)
    intro e he
    have he : (s.thread t).pc.holds = some e := he
    rw [hpc] at he; cases he
  · rename_i c' e hg
    injection hs with hs; subst hs
    refine ginv_asm h ht rfl rfl rfl hrd rfl hb (fun e tmp hx => Pc.noConfusion hx)
      (Or.inl ⟨rfl, by rw [hpc]; rfl⟩) ?_
    exact cinv_get h ht hpc hg rfl rfl rfl rfl rfl rfl (fun _ => rfl) rfl
  · rename_i c' e hg
    injection hs with hs; subst hs
    refine ginv_asm h ht rfl rfl rfl hrd rfl hb (fun e tmp hx => Pc.noConfusion hx)
      (Or.inl ⟨rfl, by rw [hpc]; rfl⟩) ?_
    refine cinv_get h ht hpc hg rfl rfl rfl rfl rfl rfl ?_ rfl
    rintro ⟨e', he'⟩; cases he'
  · cases hs

theorem ginv_fillstep {cap n : Nat} {s s' : State} {t e : Nat} {ok : Bool} {pc' : Pc} (h : GInv cap n s)
    (ht : t < s.thr.length) (hholds : (s.thread t).pc.holds = some e)
    (hs : doFill s t ok pc' = .ok s')
    (hrd' : Pc.reading pc' = true) (hholds' : pc'.holds = some e) (hval' : Pc.validAt pc' = none)
    (hfok' : Pc.filledOk pc' = true → ok = true) (hl : pc'.hasLock = (s.thread t).pc.hasLock)
    (hnp : Pc.isPutU pc' = false) : GInv cap n s' := by
  unfold doFill at hs
  split at hs
  · cases hs
  · rename_i d hd
    injection hs with hs; subst hs
    refine ginv_asm h ht rfl rfl rfl (reading_of_holds hholds) hrd' (h.bad (s.thread t) (thread_mem ht)) ?_
      (Or.inl ⟨rfl, hl⟩) ?_
    · intro e tmp hx
      have : pc' = .putU e tmp := hx
      rw [this] at hnp; cases hnp
    · exact cinv_fill h ht hholds hd rfl rfl rfl hholds' hval' hfok'

/-! ### The initial state -/

theorem getD_replicate_self {α : Type} (a : α) : ∀ (n t : Nat), (List.replicate n a).getD t a = a
  | 0, _ => rfl
  | n + 1, 0 => rfl
  | n + 1, t + 1 => by
    rw [List.replicate_succ, List.getD_cons_succ]; exact getD_replicate_self a n t

theorem init_thread (cap n t : Nat) : (init cap n).thread t = ⟨.idle, 0, none, false⟩ :=
  getD_replicate_self _ n t

theorem count_replicate_false {α : Type} (p : α → Bool) (a : α) (hp : p a = false) (n : Nat) :
    ((List.replicate n a).filter p).length = 0 := by
  have : (List.replicate n a).filter p = [] := by
    rw [List.filter_eq_nil_iff]
    intro x hx
    rw [List.eq_of_mem_replicate hx, hp]
    exact Bool.false_ne_true
  rw [this]; rfl

theorem ginv_init (cap n : Nat) (hc : 0 < cap) : GInv cap n (init cap n) := by
  refine ⟨?_, Kdf.Props.C06.inv_flush cap hc, rfl, ?_, ?_, ?_, ?_, ?_, ?_, ?_, ?_, ?_, ?_, ?_, ?_⟩
  · exact List.length_replicate ..
  · exact List.length_replicate ..
  · intro i
    show (flush cap).refcnt i = _
    rw [flush_refcnt0]
    exact (count_replicate_false _ _ (by simp [Pc.holds]) n).symm
  · intro t
    rw [init_thread]
    constructor <;> intro hx <;> cases hx
  · intro t
    rw [init_thread]
    constructor <;> intro hx <;> cases hx
  · intro hx; cases hx
  · exact (count_replicate_false _ _ rfl n).symm
  · intro t e
    rw [init_thread]
    intro hx; cases hx
  · intro t e
    rw [init_thread]
    intro hx; cases hx
  · intro t
    rw [init_thread]
    intro hx; cases hx
  · intro i hi
    have : cached (init cap n).cache = [] := flush_cached cap
    rw [this] at hi; cases hi
  · intro th hth
    rw [List.eq_of_mem_replicate hth]
  · intro t e tmp
    rw [init_thread]
    intro hx; cases hx

theorem ginv_step {cap n : Nat} {s s' : State} {t : Nat} {ev : Ev} (h : GInv cap n s)
    (hs : step fixed s t ev = .ok s') : GInv cap n s' := by
  unfold Kdf.Model.Conc.step at hs
  split at hs
  · cases hs
  rename_i ht
  have ht : t < s.thr.length := Nat.lt_of_not_ge ht
  have hb : (s.thread t).bad = false := h.bad _ (thread_mem ht)
  have hfx : fixed.lockedPut = true := rfl
  simp only [] at hs
  split at hs
  · -- idle, rdlock
    rename_i hpc
    split at hs
    · cases hs
    · rename_i hn
      injection hs with hs; subst hs
      have hwn : s.writer = none := by
        cases hx : s.writer with
        | none => rfl
        | some x => rw [hx] at hn; exact absurd rfl hn
      exact ginv_rdlock h ht hpc hwn rfl rfl rfl rfl rfl rfl
  · -- idle, wrlock
    rename_i hpc
    split at hs
    · cases hs
    · rename_i hn
      injection hs with hs; subst hs
      have hwn : s.writer = none := by
        cases hx : s.writer with
        | none => rfl
        | some x => rw [hx] at hn; exact absurd (Or.inl rfl) hn
      have hr0 : s.readers = 0 := Classical.byContradiction fun hx => hn (Or.inr hx)
      exact ginv_wrlock h ht hpc hwn hr0 rfl rfl rfl rfl rfl rfl
  · -- writing, wrunlock
    rename_i hpc
    injection hs with hs; subst hs
    exact ginv_wrunlock h ht hpc rfl rfl rfl rfl rfl rfl
  · -- inRead, rdunlock
    rename_i hpc
    injection hs with hs; subst hs
    exact ginv_rdunlock h ht hpc rfl rfl rfl rfl rfl rfl
  · -- inRead, lock
    rename_i hpc
    exact ginv_acquire h ht hs (by rw [hpc]; exact ⟨rfl, rfl, rfl, rfl, rfl, rfl⟩) rfl
  · -- locked1, unlock
    rename_i hpc
    exact ginv_release h ht hs (by rw [hpc]; exact ⟨rfl, rfl, rfl, rfl, rfl, rfl⟩) (by rw [hpc]; rfl) rfl
  · -- locked1, get
    rename_i k hpc
    exact ginv_getstep h ht hpc hs
  · -- hitL, unlock
    rename_i e hpc
    exact ginv_release h ht hs (by rw [hpc]; exact ⟨rfl, rfl, rfl, rfl, rfl, rfl⟩) (by rw [hpc]; rfl) rfl
  · -- missL, unlock
    rename_i e hpc
    exact ginv_release h ht hs (by rw [hpc]; exact ⟨rfl, rfl, rfl, rfl, rfl, rfl⟩) (by rw [hpc]; rfl) rfl
  · -- missL, fillEnd
    rename_i e ok hpc
    exact ginv_fillstep h ht (by rw [hpc]; rfl) hs rfl rfl rfl (by cases ok <;> simp [Pc.filledOk])
      (by rw [hpc]; rfl) rfl
  · -- fill, lock
    rename_i e hpc
    exact ginv_acquire h ht hs (by rw [hpc]; exact ⟨rfl, rfl, rfl, rfl, rfl, rfl⟩) rfl
  · -- fillL, unlock
    rename_i e hpc
    exact ginv_release h ht hs (by rw [hpc]; exact ⟨rfl, rfl, rfl, rfl, rfl, rfl⟩) (by rw [hpc]; rfl) rfl
  · -- fill, fillEnd
    rename_i e ok hpc
    exact ginv_fillstep h ht (by rw [hpc]; rfl) hs rfl rfl rfl (by cases ok <;> simp [Pc.filledOk])
      (by rw [hpc]; rfl) rfl
  · -- fill, copy
    rename_i e hpc
    split at hs
    · rename_i hv
      have hholds : (s.thread t).pc.holds = some e := by rw [hpc]; rfl
      have hel := (h.hold t e hholds).1
      have hec : e ∈ cached s.cache := by
        rcases live_cases hel with hx | hx
        · exact hx
        · exact absurd hv (h.cinv.inflight_invalid e hx)
      exact ginv_copy h ht hholds hec (by rw [hpc]; rfl) hs
    · cases hs
  · -- filled, lock
    rename_i e ok hpc
    exact ginv_acquire h ht hs (by rw [hpc]; cases ok <;> exact ⟨rfl, rfl, rfl, rfl, rfl, rfl⟩) rfl
  · -- locked2 true, insert
    rename_i e hpc
    split at hs
    · cases hs
    · rename_i c' o hi
      injection hs with hs; subst hs
      exact ginv_asm h ht rfl rfl rfl (by rw [hpc]; rfl) rfl hb (fun e tmp hx => Pc.noConfusion hx)
        (Or.inl ⟨rfl, by rw [hpc]; rfl⟩) (cinv_insert h ht hpc hi rfl rfl rfl)
  · -- locked2 false, discard
    rename_i e hpc
    split at hs
    · cases hs
    · rename_i c' o hi
      injection hs with hs; subst hs
      exact ginv_asm h ht rfl rfl rfl (by rw [hpc]; rfl) rfl hb (fun e tmp hx => Pc.noConfusion hx)
        (Or.inl ⟨rfl, by rw [hpc]; rfl⟩) (cinv_discard h ht hpc hi rfl rfl rfl)
  · -- copy, copy
    rename_i e hpc
    have hholds : (s.thread t).pc.holds = some e := by rw [hpc]; rfl
    exact ginv_copy h ht hholds (h.valid t e (by rw [hpc]; rfl)) (by rw [hpc]; rfl) hs
  · -- put0, lock
    rename_i e hpc
    rw [if_pos hfx] at hs
    exact ginv_acquire h ht hs (by rw [hpc]; exact ⟨rfl, rfl, rfl, rfl, rfl, rfl⟩) rfl
  · -- putL, put
    rename_i e hpc
    split at hs
    · cases hs
    · rename_i c' o hi
      injection hs with hs; subst hs
      exact ginv_asm h ht rfl rfl rfl (by rw [hpc]; rfl) rfl hb (fun e tmp hx => Pc.noConfusion hx)
        (Or.inl ⟨rfl, by rw [hpc]; rfl⟩) (cinv_put h ht hpc hi rfl rfl rfl)
  · -- put0, load: refused
    rw [if_pos hfx] at hs; cases hs
  · -- putU, store: unreachable
    rename_i e tmp hpc
    exact absurd hpc (h.noPutU t e tmp)
  · cases hs

theorem reach_ginv {cap n : Nat} (hc : 0 < cap) {s : State} (h : Reach fixed cap n s) :
    GInv cap n s := by
  induction h with
  | init => exact ginv_init cap n hc
  | step _ hs ih => exact ginv_step ih hs

end Kdf.Lemmas.Conc
