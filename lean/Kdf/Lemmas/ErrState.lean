import Kdf.Lemmas.ErrCore
import Kdf.Lemmas.ErrArr
/-! State-level effect of the branches of `vadd` (C16). -/
namespace Kdf.Lemmas.Err
open Kdf.Model.Err

/-- the part of the invariant that does not depend on the string pointer -/
structure Base (e : ErrBuf) : Prop where
  bufsz_ge : 2 ≤ e.bufsz
  buf_len : e.buf.length = e.bufsz
  no_oob : e.oob = false

theorem Inv.base {e : ErrBuf} (h : Inv e) : Base e := ⟨h.bufsz_ge, h.buf_len, h.no_oob⟩

def getArr (e : ErrBuf) (inD : Bool) : Option (List Byte) := if inD then e.dyn else some e.buf
def setArr (e : ErrBuf) (inD : Bool) (a : List Byte) : ErrBuf :=
  if inD then { e with dyn := some a } else { e with buf := a }

theorem wrAt_eq {e : ErrBuf} {inD : Bool} {arr : List Byte} (o : Nat) (bs : List Byte)
    (h : getArr e inD = some arr) (hb : o + bs.length ≤ arr.length) :
    wrAt e inD o bs = setArr e inD (wr arr o bs).1 := by
  cases inD with
  | true =>
    simp only [getArr, if_true] at h
    simp [wrAt, setArr, h, wr_bad arr o bs hb]
  | false =>
    simp only [getArr, Bool.false_eq_true, if_false, Option.some.injEq] at h
    subst h
    simp [wrAt, setArr, wr_bad _ o bs hb]

@[simp] theorem getArr_setArr (e : ErrBuf) (inD : Bool) (a : List Byte) : getArr (setArr e inD a) inD = some a := by
  cases inD <;> simp [getArr, setArr]

@[simp] theorem setArr_setArr (e : ErrBuf) (inD : Bool) (a a' : List Byte) :
    setArr (setArr e inD a) inD a' = setArr e inD a' := by
  cases inD <;> simp [setArr]

theorem cstr_getArr {e : ErrBuf} {inD : Bool} {arr : List Byte} {pos : Nat} {old : List Byte}
    (hl : e.buf.length ≤ e.bufsz) (h : getArr e inD = some arr) (hs : Shape arr pos old) :
    cstr e (if inD then .inDyn pos else .inBuf pos) = old := by
  cases inD with
  | true =>
    simp only [getArr, if_true] at h
    simpa using cstr_dyn e pos arr old h hs
  | false =>
    simp only [getArr, Bool.false_eq_true, if_false, Option.some.injEq] at h
    subst h
    simpa using cstr_buf e pos old hl hs

theorem finish {e : ErrBuf} {inD : Bool} {arr arr' : List Byte} {o : Nat} {s : List Byte}
    (hb : Base e) (h : getArr e inD = some arr) (hlen : arr'.length = arr.length)
    (ho : inD = true → o ≤ 1) (hs : Shape arr' o s) :
    Inv { setArr e inD arr' with str := if inD then .inDyn o else .inBuf o } ∧
    text { setArr e inD arr' with str := if inD then .inDyn o else .inBuf o } = s ∧
    (inD = false → ({ setArr e inD arr' with str := if inD then .inDyn o else .inBuf o } : ErrBuf).dyn = e.dyn) := by
  cases inD with
  | true =>
    have := @Inv.of_dyn { setArr e true arr' with str := .inDyn o } o arr' s
      (by simpa [setArr] using hb.bufsz_ge) (by simpa [setArr] using hb.buf_len)
      (by simpa [setArr] using hb.no_oob) rfl (ho rfl) (by simp [setArr]) hs
    simpa using this
  | false =>
    simp only [getArr, Bool.false_eq_true, if_false, Option.some.injEq] at h
    subst h
    have := @Inv.of_buf { setArr e false arr' with str := .inBuf o } o s
      (by simpa [setArr] using hb.bufsz_ge) (by simpa [setArr, hlen] using hb.buf_len)
      (by simpa [setArr] using hb.no_oob) rfl (by simpa [setArr] using hs)
    simp only [Bool.false_eq_true, if_false]
    exact ⟨this.1, this.2, fun _ => by simp [setArr]⟩

theorem MsgWF.nz {m : List Byte} (h : MsgWF m) : ∀ b ∈ m, b ≠ 0 := fun b hb => (h b hb).1

theorem vaddFit0_spec {e : ErrBuf} {arr : List Byte} {pos : Nat} {msg : List Byte} (inD : Bool)
    (hb : Base e) (h : getArr e inD = some arr) (hs : Shape arr pos []) (hm : MsgWF msg)
    (hfit : msg.length ≤ pos) (ho : inD = true → pos ≤ 1) :
    Inv (vaddFit e inD pos pos 0 msg) ∧ text (vaddFit e inD pos pos 0 msg) = msg ∧
    (inD = false → (vaddFit e inD pos pos 0 msg).dyn = e.dyn) := by
  have hlt := hs.lt
  simp only [List.length_nil] at hlt
  have hin : pos - msg.length + (msg ++ [0]).length ≤ arr.length := by simp; omega
  simp only [vaddFit, Nat.add_zero, ne_eq, not_true_eq_false, ite_false]
  rw [wrAt_eq (pos - msg.length) (msg ++ [0]) h hin]
  exact finish hb h (wr_len _ _ _ hin) (fun hd => by have := ho hd; omega) (fit0_arr arr pos msg hm.nz hs hfit)

theorem vaddFit2_spec {e : ErrBuf} {arr : List Byte} {pos : Nat} {old msg : List Byte} (inD : Bool)
    (hb : Base e) (h : getArr e inD = some arr) (hs : Shape arr pos old) (hm : MsgWF msg)
    (hfit : msg.length + 2 ≤ pos) (ho : inD = true → pos ≤ 1) :
    Inv (vaddFit e inD pos pos 2 msg) ∧ text (vaddFit e inD pos pos 2 msg) = msg ++ delim ++ old ∧
    (inD = false → (vaddFit e inD pos pos 2 msg).dyn = e.dyn) := by
  have hlt := hs.lt
  have hin : pos - (msg.length + 2) + (msg ++ [0]).length ≤ arr.length := by simp; omega
  have hin2 : pos - 2 + delim.length ≤ (wr arr (pos - (msg.length + 2)) (msg ++ [0])).1.length := by
    rw [wr_len _ _ _ hin]; simp [delim]; omega
  have hmin : min pos 2 = 2 := by omega
  have h20 : ((2 : Nat) = 0) = False := by decide
  simp only [vaddFit, hmin, ne_eq, h20, not_false_eq_true, ite_true, Nat.sub_self, List.drop_zero]
  rw [wrAt_eq (pos - (msg.length + 2)) (msg ++ [0]) h hin,
    wrAt_eq (pos - 2) delim (getArr_setArr _ _ _) hin2, setArr_setArr]
  exact finish hb h (by rw [wr_len _ _ _ hin2, wr_len _ _ _ hin]) (fun hd => by have := ho hd; omega)
    (fit2_arr arr pos msg old hm.nz hs hfit)

def allocBlk (dyn : Option (List Byte)) (n : Nat) : List Byte :=
  (match dyn with | some d => d.take n | none => []) ++
      List.replicate (n - (match dyn with | some d => d.take n | none => []).length) 0xDD

theorem allocBlk_len (dyn : Option (List Byte)) (n : Nat) : (allocBlk dyn n).length = n := by
  unfold allocBlk
  cases dyn <;> simp <;> omega

theorem vaddAlloc0_eq (e : ErrBuf) (inD : Bool) (pos : Nat) (msg : List Byte) :
    vaddAlloc e inD pos 0 msg =
      { wrAt (wrAt (setArr e true (allocBlk e.dyn (1 + (cstr e (if inD then .inDyn pos else .inBuf pos)).length + msg.length + 1)))
          true (msg.length + 1) (cstr e (if inD then .inDyn pos else .inBuf pos) ++ [0])) true 1 (msg ++ [0])
        with str := .inDyn 1 } := rfl

theorem vaddAlloc2_eq (e : ErrBuf) (inD : Bool) (pos : Nat) (msg : List Byte) :
    vaddAlloc e inD pos 2 msg =
      { wrAt (wrAt (wrAt (setArr e true (allocBlk e.dyn (1 + (cstr e (if inD then .inDyn pos else .inBuf pos)).length + (msg.length + 2) + 1)))
          true (msg.length + 2 + 1) (cstr e (if inD then .inDyn pos else .inBuf pos) ++ [0])) true 1 (msg ++ [0]))
          true (msg.length + 2 + 1 - min (msg.length + 2) 2) (delim.drop (2 - min (msg.length + 2) 2))
        with str := .inDyn 1 } := rfl

theorem finish_dyn {e : ErrBuf} {W s : List Byte} (hb : Base e) (hs : Shape W 1 s) :
    Inv { setArr e true W with str := .inDyn 1 } ∧ text { setArr e true W with str := .inDyn 1 } = s :=
  @Inv.of_dyn { setArr e true W with str := .inDyn 1 } 1 W s
      (by simpa [setArr] using hb.bufsz_ge) (by simpa [setArr] using hb.buf_len)
      (by simpa [setArr] using hb.no_oob) rfl (Nat.le_refl _) (by simp [setArr]) hs

theorem vaddAlloc0_spec {e : ErrBuf} {arr : List Byte} {pos : Nat} {msg : List Byte} (inD : Bool)
    (hb : Base e) (h : getArr e inD = some arr) (hs : Shape arr pos []) (hm : MsgWF msg) :
    Inv (vaddAlloc e inD pos 0 msg) ∧ text (vaddAlloc e inD pos 0 msg) = msg := by
  rw [vaddAlloc0_eq, cstr_getArr (Nat.le_of_eq hb.buf_len) h hs]
  simp only [List.length_nil, List.nil_append, Nat.add_zero]
  have hbl := allocBlk_len e.dyn (1 + msg.length + 1)
  generalize allocBlk e.dyn (1 + msg.length + 1) = blk at hbl
  have hin1 : msg.length + 1 + [0].length ≤ blk.length := by simp; omega
  have hin2 : 1 + (msg ++ [0]).length ≤ (wr blk (msg.length + 1) [0]).1.length := by
    rw [wr_len _ _ _ hin1]; simp; omega
  rw [wrAt_eq (msg.length + 1) [0] (getArr_setArr _ _ _) hin1,
    wrAt_eq 1 (msg ++ [0]) (getArr_setArr _ _ _) hin2, setArr_setArr, setArr_setArr]
  exact finish_dyn hb (alloc0_arr blk msg hm.nz (by omega))

theorem vaddAlloc2_spec {e : ErrBuf} {arr : List Byte} {pos : Nat} {old msg : List Byte} (inD : Bool)
    (hb : Base e) (h : getArr e inD = some arr) (hs : Shape arr pos old) (hm : MsgWF msg) :
    Inv (vaddAlloc e inD pos 2 msg) ∧ text (vaddAlloc e inD pos 2 msg) = msg ++ delim ++ old := by
  rw [vaddAlloc2_eq, cstr_getArr (Nat.le_of_eq hb.buf_len) h hs]
  have hmin : min (msg.length + 2) 2 = 2 := by omega
  have hsub : msg.length + 2 + 1 - 2 = msg.length + 1 := by omega
  simp only [hmin, hsub, Nat.sub_self, List.drop_zero]
  have hbl := allocBlk_len e.dyn (1 + old.length + (msg.length + 2) + 1)
  generalize allocBlk e.dyn (1 + old.length + (msg.length + 2) + 1) = blk at hbl
  have hin1 : msg.length + 2 + 1 + (old ++ [0]).length ≤ blk.length := by simp; omega
  have hin2 : 1 + (msg ++ [0]).length ≤ (wr blk (msg.length + 2 + 1) (old ++ [0])).1.length := by
    rw [wr_len _ _ _ hin1]; simp; omega
  have hin3 : msg.length + 1 + delim.length ≤ (wr (wr blk (msg.length + 2 + 1) (old ++ [0])).1 1 (msg ++ [0])).1.length := by
    rw [wr_len _ _ _ hin2, wr_len _ _ _ hin1]; simp [delim]; omega
  rw [wrAt_eq _ _ (getArr_setArr _ _ _) hin1,
    wrAt_eq _ _ (getArr_setArr _ _ _) hin2, wrAt_eq _ _ (getArr_setArr _ _ _) hin3,
    setArr_setArr, setArr_setArr, setArr_setArr]
  exact finish_dyn hb (alloc2_arr blk msg old hm.nz hs.nz (by omega))

end Kdf.Lemmas.Err
