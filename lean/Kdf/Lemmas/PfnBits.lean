import Kdf.Lemmas.PfnByte
/-! `setBits` / `clearBits`: exactly the bits `[s, e]` change. -/
namespace Kdf.Lemmas.Pfn
open Kdf.Model.Pfn

theorem tbL_testBit (b t : Nat) : tbL b t = b.testBit t := by
  simp [tbL, Nat.testBit_eq_decide_div_mod_eq]

theorem byteAt_getElem (bm : Bitmap) (j : Nat) (h : j < bm.length) : byteAt bm j = bm[j] := by
  unfold byteAt
  rw [List.getD_eq_getElem?_getD, List.getElem?_eq_getElem h]; rfl

/-! masks, by finite check -/
theorem mask_hi : ∀ k, k < 8 → ∀ t, t < 8 → (255 - (2^k - 1)).testBit t = decide (k ≤ t) := by decide +kernel
theorem mask_lo : ∀ k, k < 8 → ∀ t, t < 8 → ((2^(k+1) - 1) % 256).testBit t = decide (t ≤ k) := by decide +kernel
theorem mask_nlo : ∀ k, k < 8 → ∀ t, t < 8 → (255 - (2^(k+1) - 1) % 256).testBit t = decide (k < t) := by decide +kernel
theorem mask_s : ∀ k, k < 8 → ∀ t, t < 8 → (2^k - 1).testBit t = decide (t < k) := by decide +kernel
theorem mask_255 : ∀ t, t < 8 → tbL 255 t = true := by decide +kernel

theorem or_byte {x y : Nat} (hx : x < 256) (hy : y < 256) : x ||| y < 256 :=
  Nat.or_lt_two_pow (n := 8) hx hy
theorem and_byte {x : Nat} (y : Nat) (hx : x < 256) : x &&& y < 256 :=
  Nat.lt_of_le_of_lt Nat.and_le_left hx

theorem ite_bool (P : Prop) [Decidable P] (x : Bool) : (x || decide P) = (if P then true else x) := by
  by_cases h : P <;> simp [h]
theorem ite_bool_and (P : Prop) [Decidable P] (x : Bool) : (x && !decide P) = (if P then false else x) := by
  by_cases h : P <;> simp [h]

theorem setBits_spec (buf : Bitmap) (hb : BytesWF buf) (s e : Nat) (hse : s ≤ e) (he : e / 8 < buf.length) :
    ∃ buf', setBits buf s e = some buf' ∧ buf'.length = buf.length ∧ BytesWF buf' ∧
      ∀ i, i < buf.length * 8 → bitL buf' i = (if s ≤ i ∧ i ≤ e then true else bitL buf i) := by
  unfold setBits
  dsimp only
  have hm1 : 255 - (2 ^ (s % 8) - 1) < 256 := by omega
  have hm2 : (2 ^ (e % 8 + 1) - 1) % 256 < 256 := Nat.mod_lt _ (by omega)
  by_cases h1 : s / 8 < e / 8
  · rw [if_pos h1, if_pos he]
    refine ⟨_, rfl, List.length_mapIdx, ?_, ?_⟩
    · intro b hb'
      obtain ⟨j, hj, rfl⟩ := List.getElem_of_mem hb'
      rw [List.getElem_mapIdx]
      have hbj : buf[j]'(by simpa using hj) < 256 := hb _ (List.getElem_mem _)
      split
      · exact or_byte hbj hm1
      · split
        · omega
        · split
          · exact or_byte hbj hm2
          · exact hbj
    · intro i hi
      have hj : i / 8 < buf.length := by omega
      rw [bitL_eq, bitL_eq, byteAt_getElem _ _ (by simpa using hj), byteAt_getElem _ _ hj, List.getElem_mapIdx]
      have ht : i % 8 < 8 := by omega
      split
      · rename_i hjs
        rw [tbL_testBit, Nat.testBit_or, mask_hi _ (by omega) _ ht, ← tbL_testBit, ite_bool]
        have : (s ≤ i ∧ i ≤ e) ↔ s % 8 ≤ i % 8 := by omega
        simp only [this]
      · split
        · rw [mask_255 _ ht, if_pos (by omega)]
        · split
          · rename_i hje
            rw [tbL_testBit, Nat.testBit_or, mask_lo _ (by omega) _ ht, ← tbL_testBit, ite_bool]
            have : (s ≤ i ∧ i ≤ e) ↔ i % 8 ≤ e % 8 := by omega
            simp only [this]
          · rw [if_neg (by omega)]
  · have h2 : s / 8 = e / 8 := by omega
    rw [if_neg h1, if_pos (by omega)]
    refine ⟨_, rfl, List.length_modify .., ?_, ?_⟩
    · intro b hb'
      obtain ⟨j, hj, rfl⟩ := List.getElem_of_mem hb'
      rw [List.getElem_modify]
      have hbj : buf[j]'(by simpa using hj) < 256 := hb _ (List.getElem_mem _)
      split
      · exact or_byte hbj (Nat.lt_of_le_of_lt Nat.and_le_left hm1)
      · exact hbj
    · intro i hi
      have hj : i / 8 < buf.length := by omega
      rw [bitL_eq, bitL_eq, byteAt_getElem _ _ (by simpa using hj), byteAt_getElem _ _ hj, List.getElem_modify]
      have ht : i % 8 < 8 := by omega
      split
      · rename_i hjs
        rw [tbL_testBit, Nat.testBit_or, Nat.testBit_and, mask_hi _ (by omega) _ ht, mask_lo _ (by omega) _ ht,
          ← tbL_testBit, ← Bool.decide_and, ite_bool]
        have : (s ≤ i ∧ i ≤ e) ↔ (s % 8 ≤ i % 8 ∧ i % 8 ≤ e % 8) := by omega
        simp only [this]
      · rw [if_neg (by omega)]

theorem clearBits_spec (buf : Bitmap) (hb : BytesWF buf) (s e : Nat) (hse : s ≤ e) (he : e / 8 < buf.length) :
    ∃ buf', clearBits buf s e = some buf' ∧ buf'.length = buf.length ∧ BytesWF buf' ∧
      ∀ i, i < buf.length * 8 → bitL buf' i = (if s ≤ i ∧ i ≤ e then false else bitL buf i) := by
  unfold clearBits
  dsimp only
  by_cases h1 : s / 8 < e / 8
  · rw [if_pos h1, if_pos he]
    refine ⟨_, rfl, List.length_mapIdx, ?_, ?_⟩
    · intro b hb'
      obtain ⟨j, hj, rfl⟩ := List.getElem_of_mem hb'
      rw [List.getElem_mapIdx]
      have hbj : buf[j]'(by simpa using hj) < 256 := hb _ (List.getElem_mem _)
      split
      · exact and_byte _ hbj
      · split
        · omega
        · split
          · exact and_byte _ hbj
          · exact hbj
    · intro i hi
      have hj : i / 8 < buf.length := by omega
      rw [bitL_eq, bitL_eq, byteAt_getElem _ _ (by simpa using hj), byteAt_getElem _ _ hj, List.getElem_mapIdx]
      have ht : i % 8 < 8 := by omega
      split
      · rename_i hjs
        rw [tbL_testBit, Nat.testBit_and, mask_s _ (by omega) _ ht, ← tbL_testBit]
        have : (s ≤ i ∧ i ≤ e) ↔ ¬ (i % 8 < s % 8) := by omega
        simp only [this]
        by_cases hc : i % 8 < s % 8 <;> simp [hc]
      · split
        · rw [if_pos (by omega)]; simp [tbL]
        · split
          · rename_i hje
            rw [tbL_testBit, Nat.testBit_and, mask_nlo _ (by omega) _ ht, ← tbL_testBit]
            have : (s ≤ i ∧ i ≤ e) ↔ ¬ (e % 8 < i % 8) := by omega
            simp only [this]
            by_cases hc : e % 8 < i % 8 <;> simp [hc]
          · rw [if_neg (by omega)]
  · have h2 : s / 8 = e / 8 := by omega
    rw [if_neg h1, if_pos (by omega)]
    refine ⟨_, rfl, List.length_modify .., ?_, ?_⟩
    · intro b hb'
      obtain ⟨j, hj, rfl⟩ := List.getElem_of_mem hb'
      rw [List.getElem_modify]
      have hbj : buf[j]'(by simpa using hj) < 256 := hb _ (List.getElem_mem _)
      split
      · exact and_byte _ hbj
      · exact hbj
    · intro i hi
      have hj : i / 8 < buf.length := by omega
      rw [bitL_eq, bitL_eq, byteAt_getElem _ _ (by simpa using hj), byteAt_getElem _ _ hj, List.getElem_modify]
      have ht : i % 8 < 8 := by omega
      split
      · rename_i hjs
        rw [tbL_testBit, Nat.testBit_and, Nat.testBit_or, mask_s _ (by omega) _ ht, mask_nlo _ (by omega) _ ht,
          ← tbL_testBit]
        have : (s ≤ i ∧ i ≤ e) ↔ ¬ (i % 8 < s % 8 ∨ e % 8 < i % 8) := by omega
        simp only [this]
        by_cases hc1 : i % 8 < s % 8 <;> by_cases hc2 : e % 8 < i % 8 <;> simp [hc1, hc2]
      · rw [if_neg (by omega)]

end Kdf.Lemmas.Pfn
