import Kdf.Model.Conc
import Kdf.Lemmas.CacheStep
/-!
The global (Owicki–Gries style) invariant of the concurrency model `Kdf.Model.Conc` for the
repaired put (`cfg.lockedPut = true`): definitions only.  Preservation is proved in
`Kdf/Lemmas/ConcStep.lean`, the cache facts it needs in `Kdf/Lemmas/ConcCache.lean`.
-/
namespace Kdf.Lemmas.Conc
open Kdf.Model.Cache Kdf.Model.Conc Kdf.Lemmas.Cache

/-- the configuration of the repaired library -/
def fixed : Cfg := ⟨true⟩
/-- the configuration of the library as found (unlocked `--refcnt`) -/
def asFound : Cfg := ⟨false⟩

/-- pcs at which the held entry is known to be valid (cached) -/
def Pc.validAt : Pc → Option Nat
  | .hitL e | .copy e | .put0 e | .putL e => some e
  | _ => none

/-- pcs at which the thread's own fill has completed successfully -/
def Pc.filledOk : Pc → Bool
  | .filled _ true | .locked2 _ true => true
  | _ => false

/-- threads that hold `shared->lock` for reading -/
def Pc.reading : Pc → Bool
  | .idle | .writing => false
  | _ => true

structure GInv (cap n : Nat) (s : State) : Prop where
  len : s.thr.length = n
  cinv : Inv s.cache
  ccap : s.cache.cap = cap
  blen : s.buf.length = cap
  /-- every entry's reference count is the number of threads between get and put on it -/
  ref : ∀ i, s.cache.refcnt i = holders s i
  /-- `cache_lock` is owned by exactly the thread that is inside a critical section -/
  lockA : ∀ t, (s.thread t).pc.hasLock = true ↔ s.lock = some t
  /-- `shared->lock`: the writer is the thread at `writing`, a writer excludes readers,
  `readers` counts the threads inside a read -/
  wrA : ∀ t, (s.thread t).pc = .writing ↔ s.writer = some t
  wrX : s.writer.isSome → ∀ t, Pc.reading (s.thread t).pc = false
  rdN : s.readers = (s.thr.filter fun th => Pc.reading th.pc).length
  /-- a held entry is cached or in flight, has the thread's key, and the thread's saved
  buffer pointer is the entry's buffer -/
  hold : ∀ t e, (s.thread t).pc.holds = some e →
    e ∈ live s.cache ∧ s.cache.key e = (s.thread t).key ∧ (s.thread t).dat = s.cache.dataOf e
  /-- after a hit or an insert the held entry is cached -/
  valid : ∀ t e, Pc.validAt (s.thread t).pc = some e → e ∈ cached s.cache
  /-- after a successful fill the buffer holds the thread's page -/
  fok : ∀ t, Pc.filledOk (s.thread t).pc = true →
    ∃ d, (s.thread t).dat = some d ∧ s.buf.getD d none = some (s.thread t).key
  /-- the buffer of every cached (valid) entry holds the page of the entry's key -/
  cont : ∀ i ∈ cached s.cache, ∃ d, s.cache.dataOf i = some d ∧ s.buf.getD d none = some (s.cache.key i)
  /-- no copy has read a foreign buffer -/
  bad : ∀ th ∈ s.thr, th.bad = false
  /-- the unlocked put is not part of the repaired code -/
  noPutU : ∀ t e tmp, (s.thread t).pc ≠ .putU e tmp

end Kdf.Lemmas.Conc
