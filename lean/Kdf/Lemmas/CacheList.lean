/-! Generic list lemmas used by the page-cache proofs (C06). Core Lean only. -/
set_option linter.unusedSimpArgs false
namespace Kdf.Lemmas.CacheList

variable {α : Type _} {β : Type _}

theorem filterMap_congr' {f g : α → Option β} {l : List α} (h : ∀ a ∈ l, f a = g a) :
    l.filterMap f = l.filterMap g := by
  induction l with
  | nil => rfl
  | cons a l ih =>
    have ha : f a = g a := h a (by simp)
    have ih' := ih (fun b hb => h b (by simp [hb]))
    simp [List.filterMap_cons, ha, ih']

theorem filterMap_none {f : α → Option β} {l : List α} (h : ∀ a ∈ l, f a = none) :
    l.filterMap f = [] := by
  simpa [List.filterMap_eq_nil_iff] using h

theorem length_filterMap_some {f : α → Option β} {l : List α} (h : ∀ a ∈ l, (f a).isSome = true) :
    (l.filterMap f).length = l.length := by
  induction l with
  | nil => rfl
  | cons a l ih =>
    have ha := h a (by simp)
    have ih' := ih (fun b hb => h b (by simp [hb]))
    cases hfa : f a with
    | none => simp [hfa] at ha
    | some b => simp [List.filterMap_cons, hfa, ih']

/-- Stripping the value of exactly one element `z` of a duplicate-free list removes exactly
that value from the `filterMap`. -/
theorem perm_filterMap_strip [DecidableEq α] {l : List α} (hl : l.Nodup) {f f' : α → Option β} {z : α} {b : β}
    (hz : z ∈ l) (hf : f z = some b) (hf' : f' z = none) (hoth : ∀ j, j ≠ z → f' j = f j) :
    (l.filterMap f).Perm (b :: l.filterMap f') := by
  have hp : l.Perm (z :: l.erase z) := List.perm_cons_erase hz
  have hzn : z ∉ l.erase z := fun hm => by
    have := (List.Nodup.mem_erase_iff hl).1 hm
    exact this.1 rfl
  have h1 : (l.filterMap f).Perm (b :: (l.erase z).filterMap f) := by
    have := hp.filterMap f
    simpa [List.filterMap_cons, hf] using this
  have h2 : (l.filterMap f').Perm ((l.erase z).filterMap f') := by
    have := hp.filterMap f'
    simpa [List.filterMap_cons, hf'] using this
  have h3 : (l.erase z).filterMap f' = (l.erase z).filterMap f :=
    filterMap_congr' (fun a ha => hoth a (fun e => hzn (e ▸ ha)))
  rw [h3] at h2
  exact h1.trans (List.Perm.cons b h2.symm)

/-- injectivity on a list from `Nodup` of the image -/
theorem inj_on_of_nodup_map {f : α → β} {l : List α} (h : (l.map f).Nodup) :
    ∀ x ∈ l, ∀ y ∈ l, f x = f y → x = y := by
  induction l with
  | nil => intro x hx; cases hx
  | cons a l ih =>
    simp only [List.map_cons, List.nodup_cons, List.mem_map, not_exists, not_and] at h
    intro x hx y hy hxy
    simp only [List.mem_cons] at hx hy
    rcases hx with rfl | hx <;> rcases hy with rfl | hy
    · rfl
    · exact absurd hxy.symm (h.1 y hy)
    · exact absurd hxy (h.1 x hx)
    · exact ih h.2 x hx y hy hxy

theorem nodup_map_of_inj_on {f : α → β} {l : List α} (hl : l.Nodup)
    (h : ∀ x ∈ l, ∀ y ∈ l, f x = f y → x = y) : (l.map f).Nodup := by
  induction l with
  | nil => simp
  | cons a l ih =>
    simp only [List.nodup_cons] at hl
    simp only [List.map_cons, List.nodup_cons, List.mem_map, not_exists, not_and]
    refine ⟨fun x hx hfx => ?_, ih hl.2 (fun x hx y hy => h x (by simp [hx]) y (by simp [hy]))⟩
    have := h x (by simp [hx]) a (by simp) hfx
    exact hl.1 (this ▸ hx)

/-- membership-based criterion for a permutation of `range n` -/
theorem perm_range_iff {l : List Nat} {n : Nat} :
    l.Perm (List.range n) ↔ l.Nodup ∧ ∀ i, i ∈ l ↔ i < n := by
  constructor
  · intro h
    exact ⟨h.nodup_iff.2 List.nodup_range, fun i => by rw [h.mem_iff, List.mem_range]⟩
  · rintro ⟨hn, hm⟩
    exact (List.perm_ext_iff_of_nodup hn List.nodup_range).2 (fun a => by rw [hm, List.mem_range])

/-- bookkeeping of unowned buffers `hl`: stripping the buffer of `z` -/
theorem bufs_strip [DecidableEq α] {hl r : List β} {l : List α} (hn : l.Nodup) {f f' : α → Option β}
    {z : α} {b : β} (hz : z ∈ l) (hf : f z = some b) (hf' : f' z = none)
    (hoth : ∀ j, j ≠ z → f' j = f j) (h : (hl ++ l.filterMap f).Perm r) :
    ((b :: hl) ++ l.filterMap f').Perm r := by
  have key := perm_filterMap_strip hn hz hf hf' hoth
  refine List.Perm.trans ?_ h
  refine List.Perm.trans ?_ (List.Perm.append_left hl key.symm)
  exact (List.perm_middle (a := b) (l₁ := hl) (l₂ := l.filterMap f')).symm

/-- bookkeeping of unowned buffers `hl`: handing buffer `b` to `e` -/
theorem bufs_fill [DecidableEq α] {hl r : List β} {l : List α} (hn : l.Nodup) {f f' : α → Option β}
    {e : α} {b : β} (he : e ∈ l) (hf : f e = none) (hf' : f' e = some b)
    (hoth : ∀ j, j ≠ e → f' j = f j) (h : ((b :: hl) ++ l.filterMap f).Perm r) :
    (hl ++ l.filterMap f').Perm r := by
  have key := perm_filterMap_strip hn he hf' hf (fun j hj => (hoth j hj).symm)
  refine List.Perm.trans ?_ h
  refine List.Perm.trans (List.Perm.append_left hl key) ?_
  exact List.perm_middle

theorem bufs_same {hl r : List β} {l : List α} {f f' : α → Option β}
    (hoth : ∀ j ∈ l, f' j = f j) (h : (hl ++ l.filterMap f).Perm r) :
    (hl ++ l.filterMap f').Perm r := by
  rw [filterMap_congr' hoth]; exact h

/-- distinct elements cannot map to the same value if the `filterMap` is duplicate-free -/
theorem filterMap_nodup_inj {l : List α} {f : α → Option β} (h : (l.filterMap f).Nodup) {i j : α}
    (hi : i ∈ l) (hj : j ∈ l) (hne : i ≠ j) {d : β} (hfi : f i = some d) : f j ≠ some d := by
  induction l with
  | nil => cases hi
  | cons a l ih =>
    intro hfj
    have hmem : ∀ x ∈ l, f x = some d → d ∈ l.filterMap f := fun x hx hfx =>
      List.mem_filterMap.2 ⟨x, hx, hfx⟩
    simp only [List.mem_cons] at hi hj
    rcases hi with rfl | hi <;> rcases hj with rfl | hj
    · exact hne rfl
    · rw [List.filterMap_cons, hfi, List.nodup_cons] at h
      exact h.1 (hmem j hj hfj)
    · rw [List.filterMap_cons, hfj, List.nodup_cons] at h
      exact h.1 (hmem i hi hfi)
    · have h' : (l.filterMap f).Nodup := by
        rw [List.filterMap_cons] at h
        split at h
        · exact h
        · exact (List.nodup_cons.1 h).2
      exact ih h' hi hj hfj

end Kdf.Lemmas.CacheList
