import Kdf.Lemmas.PfnBits
import Kdf.Lemmas.PfnMaps
/-! Bulk retrieval: `getMapBits`, and the ELF variants `findClosest`, `elfGetBits`, `elfFindSet`. -/
namespace Kdf.Lemmas.Pfn
open Kdf.Model.Pfn

theorem byteAt_zero (n j : Nat) : byteAt (List.replicate n 0) j = 0 := by
  unfold byteAt
  rw [List.getD_eq_getElem?_getD, List.getElem?_replicate]
  split <;> rfl

theorem bitL_zero (n i : Nat) : bitL (List.replicate n 0) i = false := by
  rw [bitL_eq, byteAt_zero]; simp [tbL]

theorem wf_zero (n : Nat) : BytesWF (List.replicate n 0) := by
  intro b hb
  rw [List.mem_replicate] at hb
  omega

/-- `setBits`, as an "or" on bit sets -/
theorem setBits_iff (buf : Bitmap) (hb : BytesWF buf) (s e : Nat) (hse : s ≤ e) (he : e / 8 < buf.length) :
    ∃ buf', setBits buf s e = some buf' ∧ buf'.length = buf.length ∧ BytesWF buf' ∧
      ∀ i, i < buf.length * 8 → (bitL buf' i = true ↔ (bitL buf i = true ∨ (s ≤ i ∧ i ≤ e))) := by
  obtain ⟨buf', h1, h2, h3, h4⟩ := setBits_spec buf hb s e hse he
  refine ⟨buf', h1, h2, h3, ?_⟩
  intro i hi
  rw [h4 i hi]
  by_cases hc : s ≤ i ∧ i ≤ e
  · simp [hc]
  · rw [if_neg hc]; simp [hc]

/-- a fold of `setBits`-like steps accumulates the union of what the items cover -/
theorem fold_bits {α : Type} (f : Option Bitmap → α → Option Bitmap) (g : Bitmap → α → Option Bitmap)
    (hsome : ∀ b x, f (some b) x = g b x) (n lim : Nat) (cov : α → Nat → Prop)
    (hstep : ∀ buf x, BytesWF buf → buf.length = n →
      ∃ buf', g buf x = some buf' ∧ buf'.length = n ∧ BytesWF buf' ∧
        ∀ i, i < n * 8 → (bitL buf' i = true ↔ (bitL buf i = true ∨ (i ≤ lim ∧ cov x i)))) :
    ∀ (items : List α) buf, BytesWF buf → buf.length = n →
      ∃ buf', items.foldl f (some buf) = some buf' ∧ buf'.length = n ∧ BytesWF buf' ∧
        ∀ i, i < n * 8 → (bitL buf' i = true ↔ (bitL buf i = true ∨ (i ≤ lim ∧ ∃ x ∈ items, cov x i))) := by
  intro items
  induction items with
  | nil =>
    intro buf hb hl
    exact ⟨buf, rfl, hl, hb, by simp⟩
  | cons x items ih =>
    intro buf hb hl
    obtain ⟨b1, g1, g2, g3, g4⟩ := hstep buf x hb hl
    obtain ⟨b2, k1, k2, k3, k4⟩ := ih b1 g3 g2
    refine ⟨b2, by rw [List.foldl_cons, hsome, g1, k1], k2, k3, ?_⟩
    intro i hi
    rw [k4 i hi, g4 i hi]
    constructor
    · rintro ((h | ⟨h1, h2⟩) | ⟨h1, y, hy, h2⟩)
      · exact Or.inl h
      · exact Or.inr ⟨h1, x, List.mem_cons_self, h2⟩
      · exact Or.inr ⟨h1, y, List.mem_cons_of_mem _ hy, h2⟩
    · rintro (h | ⟨h1, y, hy, h2⟩)
      · exact Or.inl (Or.inl h)
      · rw [List.mem_cons] at hy
        rcases hy with rfl | hy
        · exact Or.inl (Or.inr ⟨h1, h2⟩)
        · exact Or.inr ⟨h1, y, hy, h2⟩

theorem getMapBits_spec (maps : List FileMap) (h : MapsWF maps) (first last : Nat) (hfl : first ≤ last) :
    ∃ buf, getMapBits maps first last = some buf ∧ buf.length = (last - first) / 8 + 1 ∧ BytesWF buf ∧
      ∀ i, i < buf.length * 8 → (bitL buf i = true ↔ (i ≤ last - first ∧ Mapped maps (first + i))) := by
  unfold getMapBits
  dsimp only
  split
  · rename_i hffm
    refine ⟨_, rfl, List.length_replicate, wf_zero _, ?_⟩
    intro i hi
    rw [bitL_zero]
    constructor
    · intro hc; simp at hc
    · intro ⟨_, hm⟩
      exfalso
      refine not_mapped_of_ends ?_ (first + i) (Nat.le_add_right _ _) hm
      intro x hx r hr
      have := findFileMap_none hffm x hx
      have := (h.2 x hx).2.2 r hr
      omega
  · rename_i i0 m hffm
    obtain ⟨pre, post, e1, e2, e3, e4⟩ := findFileMap_some hffm
    subst e2
    rw [e1, List.drop_left]
    obtain ⟨buf', k1, k2, k3, k4⟩ := fold_bits
      (fun acc r =>
        match acc with
        | none => none
        | some buf =>
          if r.pfn + r.cnt ≤ first ∨ r.pfn > last ∨ r.cnt = 0 then some buf
          else setBits buf (max r.pfn first - first) (min (r.pfn + r.cnt - 1) last - first))
      (fun buf (r : Region) =>
          if r.pfn + r.cnt ≤ first ∨ r.pfn > last ∨ r.cnt = 0 then some buf
          else setBits buf (max r.pfn first - first) (min (r.pfn + r.cnt - 1) last - first))
      (fun _ _ => rfl) ((last - first) / 8 + 1) (last - first) (fun r i => r.has (first + i))
      (by
        intro buf r hb hl
        by_cases hc : r.pfn + r.cnt ≤ first ∨ r.pfn > last ∨ r.cnt = 0
        · rw [if_pos hc]
          refine ⟨buf, rfl, hl, hb, ?_⟩
          intro i hi
          have : ¬ (i ≤ last - first ∧ r.has (first + i)) := by
            intro ⟨a1, a2, a3⟩; omega
          simp [this]
        · rw [if_neg hc]
          obtain ⟨buf', s1, s2, s3, s4⟩ := setBits_iff buf hb (max r.pfn first - first)
            (min (r.pfn + r.cnt - 1) last - first) (by omega) (by omega)
          refine ⟨buf', s1, by omega, s3, ?_⟩
          intro i hi
          rw [s4 i (by omega)]
          have : (max r.pfn first - first ≤ i ∧ i ≤ min (r.pfn + r.cnt - 1) last - first) ↔
              (i ≤ last - first ∧ r.has (first + i)) := by
            show _ ↔ (_ ∧ (_ ∧ _))
            omega
          rw [this])
      ((List.map (·.regions) (m :: post)).flatten) (List.replicate ((last - first) / 8 + 1) 0)
      (wf_zero _) List.length_replicate
    refine ⟨buf', k1, k2, k3, ?_⟩
    intro i hi
    rw [k2] at hi
    rw [k4 i hi, bitL_zero]
    simp only [Bool.false_eq_true, false_or]
    constructor
    · intro ⟨h1, r, hr, hh⟩
      refine ⟨h1, ?_⟩
      rw [List.mem_flatten] at hr
      obtain ⟨l, hl, hrl⟩ := hr
      rw [List.mem_map] at hl
      obtain ⟨m', hm', rfl⟩ := hl
      exact ⟨m', by rw [List.mem_append]; exact Or.inr hm', r, hrl, hh⟩
    · intro ⟨h1, m', hm', r, hr, hh⟩
      refine ⟨h1, r, ?_, hh⟩
      rw [List.mem_append] at hm'
      rcases hm' with hm' | hm'
      · exfalso
        have := e3 m' hm'
        have := (h.2 m' (by rw [e1, List.mem_append]; exact Or.inl hm')).2.2 r hr
        obtain ⟨a1, a2⟩ := hh
        omega
      · rw [List.mem_flatten]
        exact ⟨m'.regions, List.mem_map.mpr ⟨m', hm', rfl⟩, hr⟩

/-! ### ELF segments -/

/-- segment `s` is non-empty and ends at or after `paddr` -/
def Hit (paddr : Nat) (s : Seg) : Prop := s.size ≠ 0 ∧ paddr ≤ s.phys + s.size - 1

theorem fc_go_cons (paddr dist : Nat) (s : Seg) (ss : List Seg) (i : Nat) :
    findClosest.go paddr dist (s :: ss) i =
      if s.size ≠ 0 ∧ paddr ≤ s.phys + s.size - 1 then
        if paddr < s.phys ∧ s.phys - paddr ≥ dist then none else some i
      else findClosest.go paddr dist ss (i+1) := rfl

theorem fc_go_spec (paddr dist : Nat) : ∀ ss i0,
    (∀ i, findClosest.go paddr dist ss i0 = some i →
      ∃ pre s post, ss = pre ++ s :: post ∧ i = i0 + pre.length ∧ (∀ x ∈ pre, ¬ Hit paddr x) ∧ Hit paddr s ∧
        ¬ (paddr < s.phys ∧ s.phys - paddr ≥ dist)) ∧
    (findClosest.go paddr dist ss i0 = none →
      (∀ x ∈ ss, ¬ Hit paddr x) ∨
      ∃ pre s post, ss = pre ++ s :: post ∧ (∀ x ∈ pre, ¬ Hit paddr x) ∧ Hit paddr s ∧
        paddr < s.phys ∧ s.phys - paddr ≥ dist) := by
  intro ss
  induction ss with
  | nil =>
    intro i0
    refine ⟨?_, fun _ => Or.inl (by simp)⟩
    intro i h; simp [findClosest.go] at h
  | cons a ss ih =>
    intro i0
    rw [fc_go_cons]
    by_cases hh : a.size ≠ 0 ∧ paddr ≤ a.phys + a.size - 1
    · rw [if_pos hh]
      by_cases hd : paddr < a.phys ∧ a.phys - paddr ≥ dist
      · rw [if_pos hd]
        refine ⟨by simp, fun _ => Or.inr ⟨[], a, ss, rfl, by simp, hh, hd.1, hd.2⟩⟩
      · rw [if_neg hd]
        refine ⟨?_, by simp⟩
        intro i hi
        simp only [Option.some.injEq] at hi
        subst hi
        exact ⟨[], a, ss, rfl, by simp, by simp, hh, hd⟩
    · rw [if_neg hh]
      obtain ⟨ih1, ih2⟩ := ih (i0 + 1)
      have hpre : ∀ pre : List Seg, (∀ x ∈ pre, ¬ Hit paddr x) → ∀ x ∈ a :: pre, ¬ Hit paddr x := by
        intro pre hp x hx
        rw [List.mem_cons] at hx
        rcases hx with rfl | hx
        · exact hh
        · exact hp x hx
      refine ⟨?_, ?_⟩
      · intro i hi
        obtain ⟨pre, s, post, e1, e2, e3, e4, e5⟩ := ih1 i hi
        exact ⟨a :: pre, s, post, by rw [e1]; rfl, by simp; omega, hpre pre e3, e4, e5⟩
      · intro hn
        rcases ih2 hn with hall | ⟨pre, s, post, e1, e3, e4, e5, e6⟩
        · exact Or.inl (hpre ss hall)
        · exact Or.inr ⟨a :: pre, s, post, by rw [e1]; rfl, hpre pre e3, e4, e5, e6⟩

theorem findClosest_some {segs : List Seg} {paddr dist i : Nat} (h : findClosest segs paddr dist = some i) :
    ∃ pre s post, segs = pre ++ s :: post ∧ i = pre.length ∧ (∀ x ∈ pre, ¬ Hit paddr x) ∧ Hit paddr s ∧
      ¬ (paddr < s.phys ∧ s.phys - paddr ≥ dist) := by
  obtain ⟨pre, s, post, e1, e2, e3⟩ := (fc_go_spec paddr dist segs 0).1 i h
  exact ⟨pre, s, post, e1, by omega, e3⟩

theorem findClosest_none {segs : List Seg} {paddr dist : Nat} (h : findClosest segs paddr dist = none) :
    (∀ x ∈ segs, ¬ Hit paddr x) ∨
      ∃ pre s post, segs = pre ++ s :: post ∧ (∀ x ∈ pre, ¬ Hit paddr x) ∧ Hit paddr s ∧
        paddr < s.phys ∧ s.phys - paddr ≥ dist :=
  (fc_go_spec paddr dist segs 0).2 h

/-- frame `p` intersects the non-empty segment `s` -/
def SegCov (P : Nat) (s : Seg) (p : Nat) : Prop :=
  s.size ≠ 0 ∧ s.phys / P ≤ p ∧ p ≤ (s.phys + s.size - 1) / P

/-- a segment that does not reach `idx * P` covers no frame at or above `idx` -/
theorem not_cov_of_not_hit {P : Nat} (hP : 0 < P) {idx : Nat} {s : Seg} (h : ¬ Hit (idx * P) s) :
    ∀ j, idx ≤ j → ¬ SegCov P s j := by
  intro j hj ⟨c1, c2, c3⟩
  apply h
  refine ⟨c1, ?_⟩
  have := (Nat.le_div_iff_mul_le hP).mp (Nat.le_trans hj c3)
  exact this

theorem SegsSorted.split {pre post : List Seg} {s : Seg} (h : SegsSorted (pre ++ s :: post)) :
    ∀ x ∈ post, s.phys + s.size ≤ x.phys := by
  unfold SegsSorted at h
  rw [List.pairwise_append, List.pairwise_cons] at h
  exact h.2.1.1

theorem elfFindSet_some {segs : List Seg} (h : SegsSorted segs) {shift idx q : Nat}
    (hq : elfFindSet segs shift idx = some q) :
    idx ≤ q ∧ SegMapped segs shift q ∧ ∀ j, idx ≤ j → j < q → ¬ SegMapped segs shift j := by
  have hP : 0 < 2 ^ shift := Nat.two_pow_pos _
  unfold elfFindSet at hq
  split at hq
  · simp at hq
  · rename_i i hfc
    obtain ⟨pre, s, post, e1, e2, e3, e4, e5⟩ := findClosest_some hfc
    subst e2
    have hget : segs[pre.length]? = some s := by rw [e1]; simp
    rw [hget] at hq
    simp only [Option.some.injEq] at hq
    subst hq
    obtain ⟨k1, k2⟩ := e4
    have hidx : idx ≤ (s.phys + s.size - 1) / 2 ^ shift := (Nat.le_div_iff_mul_le hP).mpr k2
    have hmono : s.phys / 2 ^ shift ≤ (s.phys + s.size - 1) / 2 ^ shift := Nat.div_le_div_right (by omega)
    refine ⟨by omega, ⟨s, by rw [e1]; simp, k1, by omega, by omega⟩, ?_⟩
    intro j hj1 hj2 ⟨s', hs', c1, c2, c3⟩
    rw [e1, List.mem_append, List.mem_cons] at hs'
    rcases hs' with hs' | rfl | hs'
    · exact not_cov_of_not_hit hP (e3 s' hs') j hj1 ⟨c1, c2, c3⟩
    · omega
    · rw [e1] at h
      have := h.split s' hs'
      have : s.phys / 2 ^ shift ≤ s'.phys / 2 ^ shift := Nat.div_le_div_right (by omega)
      omega

theorem elfFindSet_none {segs : List Seg} {shift idx : Nat}
    (hsmall : ∀ s ∈ segs, s.phys + s.size < 2^64)
    (hq : elfFindSet segs shift idx = none) : ∀ j, idx ≤ j → ¬ SegMapped segs shift j := by
  have hP : 0 < 2 ^ shift := Nat.two_pow_pos _
  unfold elfFindSet at hq
  split at hq
  · rename_i hfc
    rcases findClosest_none hfc with hall | ⟨pre, s, post, e1, e3, e4, e5, e6⟩
    · intro j hj ⟨s', hs', c⟩
      exact not_cov_of_not_hit hP (hall s' hs') j hj c
    · exfalso
      have := hsmall s (by rw [e1]; simp)
      obtain ⟨k1, k2⟩ := e4
      omega
  · rename_i i hfc
    obtain ⟨pre, s, post, e1, e2, e3, e4, e5⟩ := findClosest_some hfc
    subst e2
    have hget : segs[pre.length]? = some s := by rw [e1]; simp
    rw [hget] at hq
    simp at hq

theorem elfGetBits_spec (segs : List Seg) (h : SegsSorted segs) (shift first last : Nat) (hfl : first ≤ last) :
    ∃ buf, elfGetBits segs shift first last = some buf ∧ buf.length = (last - first) / 8 + 1 ∧ BytesWF buf ∧
      ∀ i, i < buf.length * 8 → (bitL buf i = true ↔ (i ≤ last - first ∧ SegMapped segs shift (first + i))) := by
  have hP : 0 < 2 ^ shift := Nat.two_pow_pos _
  unfold elfGetBits
  dsimp only
  split
  · rename_i hfc
    refine ⟨_, rfl, List.length_replicate, wf_zero _, ?_⟩
    intro i hi
    rw [bitL_zero]
    constructor
    · intro hc; simp at hc
    · intro ⟨hi2, s', hs', c⟩
      exfalso
      rcases findClosest_none hfc with hall | ⟨pre, s, post, e1, e3, e4, e5, e6⟩
      · exact not_cov_of_not_hit hP (hall s' hs') (first + i) (Nat.le_add_right _ _) c
      · have hdist : (last - first + 1) * 2 ^ shift + first * 2 ^ shift = (last + 1) * 2 ^ shift := by
          rw [← Nat.add_mul]; congr 1; omega
        have hlo : last + 1 ≤ s.phys / 2 ^ shift := (Nat.le_div_iff_mul_le hP).mpr (by omega)
        rw [e1, List.mem_append, List.mem_cons] at hs'
        obtain ⟨c1, c2, c3⟩ := c
        rcases hs' with hs' | rfl | hs'
        · exact not_cov_of_not_hit hP (e3 s' hs') (first + i) (Nat.le_add_right _ _) ⟨c1, c2, c3⟩
        · omega
        · rw [e1] at h
          have := h.split s' hs'
          have : s.phys / 2 ^ shift ≤ s'.phys / 2 ^ shift := Nat.div_le_div_right (by omega)
          omega
  · rename_i i0 hfc
    obtain ⟨pre, s, post, e1, e2, e3, e4, e5⟩ := findClosest_some hfc
    subst e2
    rw [e1, List.drop_left]
    obtain ⟨buf', k1, k2, k3, k4⟩ := fold_bits
      (fun acc s =>
        match acc with
        | none => none
        | some buf =>
          if s.size = 0 then some buf
          else
            let lo := s.phys / 2^shift
            let hi := (s.phys + s.size - 1) / 2^shift
            if hi < first ∨ lo > last then some buf
            else setBits buf (max lo first - first) (min hi last - first))
      (fun buf (s : Seg) =>
          if s.size = 0 then some buf
          else
            if (s.phys + s.size - 1) / 2^shift < first ∨ s.phys / 2^shift > last then some buf
            else setBits buf (max (s.phys / 2^shift) first - first) (min ((s.phys + s.size - 1) / 2^shift) last - first))
      (fun _ _ => rfl) ((last - first) / 8 + 1) (last - first) (fun s i => SegCov (2^shift) s (first + i))
      (by
        intro buf s hb hl
        by_cases hz : s.size = 0
        · rw [if_pos hz]
          refine ⟨buf, rfl, hl, hb, ?_⟩
          intro i hi
          have : ¬ (i ≤ last - first ∧ SegCov (2^shift) s (first + i)) := by
            intro ⟨a1, a2, a3⟩; exact a2 hz
          simp [this]
        · rw [if_neg hz]
          have hmono : s.phys / 2^shift ≤ (s.phys + s.size - 1) / 2^shift := Nat.div_le_div_right (by omega)
          have hcov : ∀ p, SegCov (2^shift) s p ↔
              (s.size ≠ 0 ∧ s.phys / 2^shift ≤ p ∧ p ≤ (s.phys + s.size - 1) / 2^shift) := fun _ => Iff.rfl
          generalize (s.phys + s.size - 1) / 2^shift = hi at *
          generalize s.phys / 2^shift = lo at *
          by_cases hc : hi < first ∨ lo > last
          · rw [if_pos hc]
            refine ⟨buf, rfl, hl, hb, ?_⟩
            intro i _
            have : ¬ (i ≤ last - first ∧ SegCov (2^shift) s (first + i)) := by
              rw [hcov]; intro ⟨a1, a2, a3, a4⟩; omega
            simp [this]
          · rw [if_neg hc]
            obtain ⟨buf', s1, s2, s3, s4⟩ := setBits_iff buf hb (max lo first - first)
              (min hi last - first) (by omega) (by omega)
            refine ⟨buf', s1, by omega, s3, ?_⟩
            intro i hi'
            rw [s4 i (by omega)]
            have : (max lo first - first ≤ i ∧ i ≤ min hi last - first) ↔
                (i ≤ last - first ∧ SegCov (2^shift) s (first + i)) := by
              rw [hcov]
              constructor
              · intro ⟨a1, a2⟩; exact ⟨by omega, hz, by omega, by omega⟩
              · intro ⟨a1, _, a3, a4⟩; exact ⟨by omega, by omega⟩
            rw [this])
      (s :: post) (List.replicate ((last - first) / 8 + 1) 0)
      (wf_zero _) List.length_replicate
    refine ⟨buf', k1, k2, k3, ?_⟩
    intro i hi
    rw [k2] at hi
    rw [k4 i hi, bitL_zero]
    simp only [Bool.false_eq_true, false_or]
    constructor
    · intro ⟨h1, x, hx, hh⟩
      exact ⟨h1, x, by rw [List.mem_append]; exact Or.inr hx, hh⟩
    · intro ⟨h1, x, hx, hh⟩
      refine ⟨h1, x, ?_, hh⟩
      rw [List.mem_append] at hx
      rcases hx with hx | hx
      · exfalso
        exact not_cov_of_not_hit hP (e3 x hx) (first + i) (Nat.le_add_right _ _) hh
      · exact hx

end Kdf.Lemmas.Pfn
