import Kdf.Model.Derived
import Kdf.Lemmas.DerivedVmci
/-! The typed VMCOREINFO view (`linux.vmcoreinfo.SYMBOL/NUMBER/OFFSET/SIZE/LENGTH.*`) agrees with
the LAST row of each `TYPE(sym)` key — helper definitions and lemmas for C14. -/
namespace Kdf.Lemmas.DerivedTyped
open Kdf.Model.Derived Kdf.Lemmas.DerivedVmci

/-- what `parsed_line_hook` makes of a key: (is it SYMBOL, type name, attribute path below
`linux.vmcoreinfo`) for a well-formed `TYPE(sym)` key of one of the five types -/
def typedKey (key : Bytes) : Option (Bool × String × Bytes) :=
  if key.dropWhile (· != 40) = [] then none
  else if ((key.dropWhile (· != 40)).drop 1).dropWhile (· != 41) ≠ [41] then none
  else
    match typeNames.find? (fun n => bytesOf n == key.takeWhile (· != 40)) with
    | none => none
    | some tn => some (tn == "SYMBOL", tn,
        key.takeWhile (· != 40) ++ [46] ++ ((key.dropWhile (· != 40)).drop 1).takeWhile (· != 41))

/-- the typed value a row's value denotes (`strtoull`, base 16 for symbols, else base 0, the whole
string must be consumed) -/
def parseTyped (isSym : Bool) (val : Bytes) : Option (Bool × Nat) :=
  if (strtou (if isSym then 16 else 0) val).2 ≠ [] then none
  else some (isSym, (strtou (if isSym then 16 else 0) val).1)

/-- what the hook does to the typed store -/
def typedEffect (s : Store Typed) (key val : Bytes) : Store Typed :=
  match typedKey key with
  | none => s
  | some (b, _, p) =>
    match parseTyped b val with
    | some (_, n) => s.put p ⟨b, n, true⟩
    | none =>
      match s.find p with
      | some t => if t.addr = b then s.put p { t with set := false } else s
      | none => s

theorem addInst_frame' (c : Ctx) (d : String) : (addInst c d).typed = c.typed := by
  unfold addInst; split <;> rfl

theorem typedPost_typed (c : Ctx) (key val : Bytes) (c' : Ctx)
    (h : typedPost c key val = .done .ok c') :
    c'.typed = typedEffect c.typed key val ∧ c'.lines = c.lines := by
  unfold typedPost at h
  unfold typedEffect typedKey parseTyped
  simp only at h ⊢
  by_cases h1 : key.dropWhile (· != 40) = []
  · rw [if_pos h1] at h; rw [if_pos h1]
    cases h; exact ⟨rfl, rfl⟩
  · rw [if_neg h1] at h; rw [if_neg h1]
    by_cases h2 : ((key.dropWhile (· != 40)).drop 1).dropWhile (· != 41) ≠ [41]
    · rw [if_pos h2] at h; rw [if_pos h2]
      cases h; exact ⟨rfl, rfl⟩
    · rw [if_neg h2] at h; rw [if_neg h2]
      cases hf : typeNames.find? (fun n => bytesOf n == key.takeWhile (· != 40)) with
      | none =>
        simp only [hf] at h ⊢
        cases h; exact ⟨rfl, rfl⟩
      | some tn =>
        simp only [hf] at h ⊢
        by_cases h3 : (strtou (if (tn == "SYMBOL") = true then 16 else 0) val).2 ≠ []
        · rw [if_pos h3] at h; rw [if_pos h3]
          simp only
          split at h
          · rename_i t ht
            rw [ht]
            simp only
            split at h
            · rename_i ha
              rw [if_pos ha]
              cases h; exact ⟨rfl, rfl⟩
            · rename_i ha
              rw [if_neg ha]
              cases h; exact ⟨rfl, rfl⟩
          · rename_i ht
            rw [ht]
            cases h; exact ⟨rfl, rfl⟩
        · rw [if_neg h3] at h; rw [if_neg h3]
          simp only
          split at h
          · cases h
          · cases h
          · cases h
            exact ⟨addInst_frame' _ _, (addInst_frame _ _).1⟩

theorem typedKey_pagesize : typedKey (bytesOf "PAGESIZE") = none := by decide

theorem linesPost_typed (c : Ctx) (key val : Bytes) (c' : Ctx)
    (h : linesPost c key val = .done .ok c') :
    c'.typed = typedEffect c.typed key val ∧ c'.lines = c.lines := by
  have tp : ∀ c0 : Ctx, c0.typed = c.typed → c0.lines = c.lines → typedPost c0 key val = .done .ok c' →
      c'.typed = typedEffect c.typed key val ∧ c'.lines = c.lines := by
    intro c0 e1 e2 h0
    have := typedPost_typed c0 key val c' h0
    rw [e1, e2] at this; exact this
  unfold linesPost at h
  split at h
  · rename_i hk
    simp only at h
    split at h
    · cases h
      subst hk
      simp [typedEffect, typedKey_pagesize]
    · split at h
      · (refine tp _ ?_ ?_ h <;> rfl)
      · rename_i hx _
        cases h
        exact absurd rfl hx
      · cases h
      · cases h
  · split at h
    · (refine tp _ ?_ ?_ h <;> rfl)
    · (refine tp _ ?_ ?_ h <;> rfl)

/-- shape of a typed key: `TYPE(sym)` with `TYPE` one of the five names, `sym` without `)` -/
theorem typedKey_shape (key : Bytes) (b : Bool) (tn : String) (p : Bytes) (h : typedKey key = some (b, tn, p)) :
    ∃ sym, key = bytesOf tn ++ 40 :: (sym ++ [41]) ∧ p = bytesOf tn ++ 46 :: sym ∧ tn ∈ typeNames ∧
      b = (tn == "SYMBOL") := by
  unfold typedKey at h
  split at h
  · cases h
  · rename_i h1
    split at h
    · cases h
    · rename_i h2
      split at h
      · cases h
      · rename_i tn' hf
        cases h
        have hty : bytesOf tn = key.takeWhile (· != 40) := by
          have := List.find?_some hf
          simpa using this
        have hmem := List.mem_of_find?_eq_some hf
        have hsplit := List.takeWhile_append_dropWhile (p := (· != 40)) (l := key)
        rcases dropWhile_ne_cases 40 key with hd | ⟨t, hd⟩
        · exact absurd hd h1
        · have hs2 := List.takeWhile_append_dropWhile (p := (· != 41)) (l := t)
          have h2' : t.dropWhile (· != 41) = [41] := by
            have : ((key.dropWhile (· != 40)).drop 1) = t := by rw [hd]; rfl
            rw [this] at h2
            exact Classical.not_not.mp h2
          refine ⟨t.takeWhile (· != 41), ?_, ?_, hmem, rfl⟩
          · rw [← hsplit, hd, ← hty]
            congr 2
            rw [← h2', hs2]
          · rw [hty, hd]
            simp

theorem takeWhile_append_cons_of_not_mem (a : Nat) (l r : Bytes) (h : a ∉ l) :
    (l ++ a :: r).takeWhile (· != a) = l := by
  induction l with
  | nil => simp
  | cons x t ih =>
    have hx : x ≠ a := fun e => h (by simp [e])
    have ht : a ∉ t := fun e => h (by simp [e])
    simp [hx, ih ht]

theorem typeNames_no_dot : ∀ tn ∈ typeNames, (46 : Nat) ∉ bytesOf tn := by decide

/-- different typed keys have different attribute paths -/
theorem typedKey_inj (k k' : Bytes) (b b' : Bool) (tn tn' : String) (p : Bytes)
    (h : typedKey k = some (b, tn, p)) (h' : typedKey k' = some (b', tn', p)) : k = k' := by
  obtain ⟨sym, hk, hp, hm, _⟩ := typedKey_shape k b tn p h
  obtain ⟨sym', hk', hp', hm', _⟩ := typedKey_shape k' b' tn' p h'
  have e : bytesOf tn ++ 46 :: sym = bytesOf tn' ++ 46 :: sym' := hp.symm.trans hp'
  have e1 := congrArg (List.takeWhile (· != 46)) e
  rw [takeWhile_append_cons_of_not_mem 46 _ _ (typeNames_no_dot tn hm),
      takeWhile_append_cons_of_not_mem 46 _ _ (typeNames_no_dot tn' hm')] at e1
  rw [e1] at e
  have e2 : sym = sym' := by
    have := List.append_cancel_left e
    simpa using this
  rw [hk, hk', e1, e2]

/-- coherence of the typed store with the line store: a typed leaf exists only for a key that has
a line, has the key's type, and shows what the line's value parses to (nothing, if it does not
parse); a key whose line parses always has its leaf -/
def TInv (c : Ctx) : Prop :=
  ∀ key b tn p, typedKey key = some (b, tn, p) →
    match c.typed.find p with
    | some t => t.addr = b ∧ ∃ v, c.lines.find key = some v ∧ t.shown = parseTyped b v
    | none => ∀ v, c.lines.find key = some v → parseTyped b v = none

theorem parseTyped_fst (b : Bool) (v : Bytes) (x : Bool × Nat) (h : parseTyped b v = some x) : x.1 = b := by
  unfold parseTyped at h
  by_cases hc : (strtou (if b then 16 else 0) v).2 ≠ []
  · rw [if_pos hc] at h; cases h
  · rw [if_neg hc] at h; cases h; rfl

theorem addRow_typed (c : Ctx) (r : Row) (c' : Ctx) (h : addRow c r = .done .ok c') :
    c'.lines = c.lines.put r.key r.val ∧
    ((c'.typed = c.typed ∧ c.lines.find r.key = some r.val) ∨ c'.typed = typedEffect c.typed r.key r.val) := by
  refine ⟨(addRow_ok c r c' h).1, ?_⟩
  unfold addRow at h
  split at h
  · cases h
  · cases h
  · simp only at h
    split at h
    · rename_i hs
      cases h
      left
      exact ⟨addInst_frame' _ _, by simpa using hs⟩
    · right
      have := (linesPost_typed _ _ _ _ h).1
      rw [this, addInst_frame']

theorem typedEffect_find_ne (s : Store Typed) (k v p : Bytes)
    (hne : ∀ b tn p0, typedKey k = some (b, tn, p0) → p0 ≠ p) :
    (typedEffect s k v).find p = s.find p := by
  unfold typedEffect
  split
  · rfl
  · rename_i b tn p0 hk
    have hp := hne b tn p0 hk
    split
    · exact find_put_ne _ _ _ _ hp
    · split
      · split
        · exact find_put_ne _ _ _ _ hp
        · rfl
      · rfl

theorem addRow_tinv (c : Ctx) (r : Row) (c' : Ctx) (h : addRow c r = .done .ok c') (hi : TInv c) : TInv c' := by
  obtain ⟨hl, ht⟩ := addRow_typed c r c' h
  intro key b tn p hk
  have hold := hi key b tn p hk
  rcases ht with ⟨ht, hsame⟩ | ht
  · -- the line already had this value: nothing changes
    have hlk : c'.lines.find key = c.lines.find key := by
      rw [hl, find_put]
      split
      · rename_i e; rw [← e, hsame]
      · rfl
    rw [ht, hlk]; exact hold
  · by_cases hkey : r.key = key
    · -- the row of this very key
      have hlk : c'.lines.find key = some r.val := by rw [hl, ← hkey]; exact find_put_self _ _ _
      rw [ht, hlk]
      unfold typedEffect
      rw [hkey, hk]
      simp only
      cases hpt : parseTyped b r.val with
      | some x =>
        obtain ⟨b1, n⟩ := x
        have hb : b1 = b := parseTyped_fst b r.val _ hpt
        subst hb
        simp only
        rw [find_put_self]
        exact ⟨rfl, r.val, rfl, by simp [Typed.shown, hpt]⟩
      | none =>
        simp only
        cases hf : c.typed.find p with
        | none =>
          simp only
          rw [hf]
          intro v hv; cases hv; exact hpt
        | some t =>
          rw [hf] at hold
          simp only
          rw [if_pos hold.1, find_put_self]
          exact ⟨hold.1, r.val, rfl, by simp [Typed.shown, hpt]⟩
    · -- the row of another key: this key's line and leaf are untouched
      have hlk : c'.lines.find key = c.lines.find key := by rw [hl]; exact find_put_ne _ _ _ _ hkey
      have htk : c'.typed.find p = c.typed.find p := by
        rw [ht]
        apply typedEffect_find_ne
        intro b0 tn0 p0 h0 e
        subst e
        exact hkey (typedKey_inj _ _ _ _ _ _ _ h0 hk)
      rw [htk, hlk]; exact hold

theorem addRows_tinv (rows : List Row) : ∀ (c c' : Ctx), addRows c rows = .done .ok c' → TInv c → TInv c' := by
  induction rows with
  | nil => intro c c' h hi; unfold addRows at h; cases h; exact hi
  | cons r t ih =>
    intro c c' h hi
    unfold addRows at h
    split at h
    · rename_i c1 h1
      exact ih _ _ h (addRow_tinv _ _ _ h1 hi)
    · rename_i hno
      exact absurd h (hno c')

/-- what the typed view shows at a path -/
def shownAt (c : Ctx) (p : Bytes) : Option (Bool × Nat) := (c.typed.find p).bind Typed.shown

/-- accepted text: the typed view of every `TYPE(sym)` key is the parse of the LAST row with that key
— no value when that row does not parse, no leaf at all when there is no such row -/
theorem setRaw_typed (c : Ctx) (b : Bytes) (c' : Ctx) (h : setRaw c b = .done .ok c')
    (key : Bytes) (isSym : Bool) (tn : String) (p : Bytes) (hk : typedKey key = some (isSym, tn, p)) :
    shownAt c' p = (lastVal (rowsOf b) key).bind (parseTyped isSym) ∧
    (lastVal (rowsOf b) key = none → c'.typed.find p = none) := by
  have hl := setRaw_lines c b c' h key
  unfold setRaw at h
  have hi : TInv { c with raw := some b, lines := [], typed := [] } := by
    intro k b0 tn0 p0 _
    simp [Store.find]
  have h2 := addRows_tinv _ _ _ h hi key isSym tn p hk
  unfold shownAt
  cases hf : c'.typed.find p with
  | some t =>
    rw [hf] at h2
    obtain ⟨_, v, hv, hs⟩ := h2
    rw [hl] at hv
    rw [hv]
    exact ⟨by simpa using hs, fun e => by cases e⟩
  | none =>
    rw [hf] at h2
    refine ⟨?_, fun _ => rfl⟩
    cases hv : lastVal (rowsOf b) key with
    | none => rfl
    | some v =>
      have := h2 v (by rw [hl, hv])
      simp [this]

end Kdf.Lemmas.DerivedTyped
