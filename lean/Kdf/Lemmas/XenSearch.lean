import Kdf.Lemmas.XenDefs
/-!
# C19 — `pfn2idx_map_search` on a sorted map (early exits, wrapping arithmetic)
-/
namespace Kdf.Lemmas.Xen
open Kdf.Model.Xen

theorem wrap_eq (x : Int) (h0 : 0 ≤ x) (h1 : x < (W : Int)) : wrap x = x.toNat := by
  unfold wrap
  rw [Int.emod_eq_of_lt h0 h1]

/-- one iteration of the first loop, without wrap-around -/
theorem scanRanges_cons (r0 : Range) (rs : List Range) (p : Nat) (hp : p < W) (h0 : ROk r0) :
    scanRanges (r0 :: rs) p =
      if (p : Int) < lo r0 then none
      else if (p : Int) ≤ hi r0 then some (ixAt r0 p).toNat
      else scanRanges rs p := by
  have hpI : (p : Int) < (W : Int) := by exact_mod_cast hp
  obtain ⟨hlen, hlo, hhi, hidx, hix⟩ := h0
  have hixI : (r0.idx : Int) < (W : Int) - 1 := by
    have : r0.idx + 1 < W := by omega
    have : ((r0.idx + 1 : Nat) : Int) < (W : Int) := by exact_mod_cast this
    omega
  generalize hWd : (W : Int) = WI at *
  by_cases hl : r0.len ≥ 0
  · simp only [lo, hi, ixAt, hl, if_true] at hlo hhi hidx ⊢
    simp only [scanRanges, hl, if_true]
    have e1 : wrap ((r0.pfn : Int) - r0.len + 1) = ((r0.pfn : Int) - r0.len + 1).toNat :=
      wrap_eq _ hlo (by rw [hWd]; omega)
    rw [e1]
    by_cases c1 : (p : Int) < (r0.pfn : Int) - r0.len + 1
    · have : p < ((r0.pfn : Int) - r0.len + 1).toNat := by omega
      simp only [c1, this, if_true]
    · have : ¬ p < ((r0.pfn : Int) - r0.len + 1).toNat := by omega
      simp only [c1, this, if_false]
      by_cases c2 : p ≤ r0.pfn
      · have c2' : (p : Int) ≤ (r0.pfn : Int) := by omega
        simp only [c2, c2', if_true]
        rw [wrap_eq _ (by omega) (by rw [hWd]; omega)]
      · have c2' : ¬ (p : Int) ≤ (r0.pfn : Int) := by omega
        simp only [c2, c2', if_false]
  · simp only [lo, hi, ixAt, hl, if_false] at hlo hhi hidx ⊢
    simp only [scanRanges, hl, if_false]
    have e1 : wrap ((r0.pfn : Int) - r0.len - 1) = ((r0.pfn : Int) - r0.len - 1).toNat :=
      wrap_eq _ (by omega) (by rw [hWd]; omega)
    rw [e1]
    by_cases c1 : p < r0.pfn
    · have c1' : (p : Int) < (r0.pfn : Int) := by omega
      simp only [c1, c1', if_true]
    · have c1' : ¬ (p : Int) < (r0.pfn : Int) := by omega
      simp only [c1, c1', if_false]
      by_cases c2 : (p : Int) ≤ (r0.pfn : Int) - r0.len - 1
      · have : p ≤ ((r0.pfn : Int) - r0.len - 1).toNat := by omega
        simp only [c2, this, if_true]
        rw [wrap_eq _ (by omega) (by rw [hWd]; omega)]
      · have : ¬ p ≤ ((r0.pfn : Int) - r0.len - 1).toNat := by omega
        simp only [c2, this, if_false]

theorem lo_le_hi (r : Range) (h : ROk r) : lo r ≤ hi r := by
  obtain ⟨hlen, -⟩ := h
  unfold lo hi
  split <;> omega

theorem ixAt_nonneg_of_ROk (r : Range) (h : ROk r) (p : Nat) (h1 : lo r ≤ (p : Int)) (h2 : (p : Int) ≤ hi r) :
    0 ≤ ixAt r p := by
  obtain ⟨hlen, hlo, hhi, hidx, hix⟩ := h
  unfold lo hi ixAt at *
  by_cases hl : r.len ≥ 0 <;> simp only [hl, if_true, if_false] at hidx hlo hhi h1 h2 ⊢ <;> omega

theorem scan_hit (rs : List Range) (p : Nat) (hp : p < W)
    (hok : ∀ r ∈ rs, ROk r) (hs : rs.Pairwise (fun a b => hi a < lo b))
    (r : Range) (hr : r ∈ rs) (h1 : lo r ≤ (p : Int)) (h2 : (p : Int) ≤ hi r) :
    scanRanges rs p = some (ixAt r p).toNat := by
  induction rs with
  | nil => cases hr
  | cons r0 rs ih =>
    have hok0 : ROk r0 := hok r0 (List.mem_cons_self ..)
    have hokt : ∀ r ∈ rs, ROk r := fun x hx => hok x (List.mem_cons_of_mem _ hx)
    rw [List.pairwise_cons] at hs
    rw [scanRanges_cons r0 rs p hp hok0]
    rcases List.mem_cons.mp hr with rfl | hr'
    · have c1 : ¬ (p : Int) < lo r := by omega
      simp only [c1, h2, if_true, if_false]
    · have hlt := hs.1 r hr'
      have := lo_le_hi r0 hok0
      have c1 : ¬ (p : Int) < lo r0 := by omega
      have c2 : ¬ (p : Int) ≤ hi r0 := by omega
      simp only [c1, c2, if_false]
      exact ih hokt hs.2 hr'

theorem scan_miss (rs : List Range) (p : Nat) (hp : p < W)
    (hok : ∀ r ∈ rs, ROk r) (hs : rs.Pairwise (fun a b => hi a < lo b))
    (hn : ∀ r ∈ rs, ¬ (lo r ≤ (p : Int) ∧ (p : Int) ≤ hi r)) :
    scanRanges rs p = none := by
  induction rs with
  | nil => rfl
  | cons r0 rs ih =>
    have hok0 : ROk r0 := hok r0 (List.mem_cons_self ..)
    have hokt : ∀ r ∈ rs, ROk r := fun x hx => hok x (List.mem_cons_of_mem _ hx)
    rw [List.pairwise_cons] at hs
    rw [scanRanges_cons r0 rs p hp hok0]
    have hn0 := hn r0 (List.mem_cons_self ..)
    by_cases c1 : (p : Int) < lo r0
    · simp only [c1, if_true]
    · have c2 : ¬ (p : Int) ≤ hi r0 := by omega
      simp only [c1, c2, if_false]
      exact ih hokt hs.2 (fun x hx => hn x (List.mem_cons_of_mem _ hx))

theorem singles_hit (ss : List Single) (p : Nat)
    (hs : ss.Pairwise (fun a b => a.pfn < b.pfn))
    (s : Single) (hm : s ∈ ss) (hsp : s.pfn = p) : scanSingles ss p = s.idx := by
  induction ss with
  | nil => cases hm
  | cons s0 ss ih =>
    rw [List.pairwise_cons] at hs
    unfold scanSingles
    rcases List.mem_cons.mp hm with rfl | hm'
    · subst hsp
      simp only [ge_iff_le, Nat.le_refl, if_true]
    · have hlt := hs.1 s hm'
      have c1 : p ≥ s0.pfn := by omega
      have c2 : ¬ s0.pfn = p := by omega
      simp only [c1, c2, if_true, if_false]
      exact ih hs.2 hm'

theorem singles_miss (ss : List Single) (p : Nat)
    (hn : ∀ s ∈ ss, s.pfn ≠ p) : scanSingles ss p = IDX_NONE := by
  induction ss with
  | nil => rfl
  | cons s0 ss ih =>
    unfold scanSingles
    have c2 : ¬ s0.pfn = p := hn s0 (List.mem_cons_self ..)
    simp only [c2, if_false]
    split
    · exact ih (fun x hx => hn x (List.mem_cons_of_mem _ hx))
    · rfl

/-- a frame inside a stored range is found there, with that range's index -/
theorem search_in_range (m : PMap) (h : Sorted m) (p : Nat) (hp : p < W)
    (r : Range) (hr : r ∈ m.ranges) (h1 : lo r ≤ (p : Int)) (h2 : (p : Int) ≤ hi r) :
    (search m p : Int) = ixAt r p := by
  unfold search
  rw [scan_hit m.ranges p hp h.rok h.rsorted r hr h1 h2]
  have := ixAt_nonneg_of_ROk r (h.rok r hr) p h1 h2
  show (((ixAt r p).toNat : Nat) : Int) = ixAt r p
  omega

/-- a frame outside every range is looked up among the isolated frames -/
theorem search_single (m : PMap) (h : Sorted m) (p : Nat) (hp : p < W)
    (hn : ¬ InRange m p) (s : Single) (hs : s ∈ m.singles) (hsp : s.pfn = p) :
    search m p = s.idx := by
  unfold search
  rw [scan_miss m.ranges p hp h.rok h.rsorted (fun r hr hc => hn ⟨r, hr, hc.1, hc.2⟩)]
  exact singles_hit m.singles p h.ssorted s hs hsp

/-- a frame that is in no range and is no isolated frame is not found -/
theorem search_none (m : PMap) (h : Sorted m) (p : Nat) (hp : p < W)
    (hn : ¬ InRange m p) (hs : ∀ s ∈ m.singles, s.pfn ≠ p) :
    search m p = IDX_NONE := by
  unfold search
  rw [scan_miss m.ranges p hp h.rok h.rsorted (fun r hr hc => hn ⟨r, hr, hc.1, hc.2⟩)]
  exact singles_miss m.singles p hs

end Kdf.Lemmas.Xen
