import Kdf.Model.Read
/-! Helper definitions and lemmas for C12. -/
namespace Kdf.Lemmas.Read
open Kdf.Model.Read

/-- The byte the dump provides at address `a` of address space `as`, if the
page containing it can be fetched. -/
def memAt (ps : Nat) (pages : Oracle) (as a : Nat) : Option Byte :=
  match pages as (pageAlign ps a) with
  | .ok d => d[a % ps]?
  | .error _ => none

/-- The oracle returns whole pages. -/
def PagesWF (ps : Nat) (pages : Oracle) : Prop :=
  ∀ as p d, pages as p = .ok d → d.length = ps

/-- A failing page fetch reports a non-OK status (the C code distinguishes
success from failure only by `ret != KDUMP_OK`). -/
def OracleSound (pages : Oracle) : Prop := ∀ as p, pages as p ≠ .error .ok

/-- The page containing address `a` can be fetched. -/
def PageOk (ps : Nat) (pages : Oracle) (as a : Nat) : Prop :=
  ∃ d, pages as (pageAlign ps a) = .ok d

/-! ### Page arithmetic -/

theorem mod_add_lt (ps a i : Nat) (h : a % ps + i < ps) : (a + i) % ps = a % ps + i := by
  have hd := Nat.div_add_mod a ps
  have e : a + i = (a % ps + i) + ps * (a / ps) := by omega
  rw [e, Nat.add_mul_mod_self_left, Nat.mod_eq_of_lt h]

theorem pageAlign_add_lt (ps a i : Nat) (h : a % ps + i < ps) :
    pageAlign ps (a + i) = pageAlign ps a := by
  unfold pageAlign
  rw [mod_add_lt ps a i h]
  have := Nat.mod_le a ps
  omega

theorem mod_add_rest (ps a : Nat) (hps : 0 < ps) : (a + (ps - a % ps)) % ps = 0 := by
  have hd := Nat.div_add_mod a ps
  have hlt := Nat.mod_lt a hps
  have e : a + (ps - a % ps) = ps * (a / ps) + ps := by omega
  rw [e, Nat.add_mod_right, Nat.mul_mod_right]

theorem memAt_in_page (ps : Nat) (pages : Oracle) (as addr i : Nat) (data : List Byte)
    (hp : pages as (pageAlign ps addr) = .ok data) (hi : addr % ps + i < ps) :
    memAt ps pages as (addr + i) = data[addr % ps + i]? := by
  unfold memAt
  rw [pageAlign_add_lt ps addr i hi, mod_add_lt ps addr i hi, hp]

theorem memAt_some_pageOk (ps : Nat) (pages : Oracle) (as a : Nat) (b : Byte)
    (h : memAt ps pages as a = some b) : PageOk ps pages as a := by
  unfold memAt at h
  unfold PageOk
  split at h
  · exact ⟨_, by assumption⟩
  · cases h

/-! ### `readLoop` -/

theorem readLoop_zero (ps : Nat) (pages : Oracle) (as fuel addr : Nat) (acc : List Byte) :
    readLoop ps pages as fuel addr 0 acc = (.ok, acc) := by
  cases fuel <;> simp [readLoop]

theorem readLoop_len_le (ps : Nat) (pages : Oracle) (as : Nat) :
    ∀ (fuel addr remain : Nat) (acc : List Byte),
      (readLoop ps pages as fuel addr remain acc).2.length ≤ acc.length + remain := by
  intro fuel
  induction fuel with
  | zero => intro addr remain acc; simp [readLoop]
  | succ fuel ih =>
    intro addr remain acc
    unfold readLoop
    split
    · simp
    · split
      · simp
      · rename_i data _
        have := ih ((addr + min (ps - addr % ps) remain) % W) (remain - min (ps - addr % ps) remain)
          (acc ++ (data.drop (addr % ps)).take (min (ps - addr % ps) remain))
        simp only [List.length_append, List.length_take, List.length_drop] at this
        simp only []
        omega

/-- Loop invariant of `readLoop`: the output is the accumulator followed by a
correct prefix `del` of the requested range; either the whole range was
delivered and the status is `ok`, or delivery stopped at the start of a page
(or at the start address) whose fetch failed with the returned status. -/
theorem readLoop_spec (ps : Nat) (hps : 0 < ps) (pages : Oracle) (hwf : PagesWF ps pages)
    (as : Nat) :
    ∀ (fuel addr remain : Nat) (acc : List Byte) (st : Status) (out : List Byte),
      remain ≤ fuel → addr + remain ≤ W →
      readLoop ps pages as fuel addr remain acc = (st, out) →
      ∃ del, out = acc ++ del ∧
        (∀ i, i < del.length → memAt ps pages as (addr + i) = del[i]?) ∧
        ((del.length = remain ∧ st = .ok) ∨
         (del.length < remain ∧
           pages as (pageAlign ps (addr + del.length)) = .error st ∧
           (del.length = 0 ∨ (addr + del.length) % ps = 0))) := by
  intro fuel
  induction fuel with
  | zero =>
    intro addr remain acc st out hf hw h
    have hr : remain = 0 := by omega
    subst hr
    rw [readLoop_zero] at h
    cases h
    exact ⟨[], by simp⟩
  | succ fuel ih =>
    intro addr remain acc st out hf hw h
    by_cases hr : remain = 0
    · subst hr
      rw [readLoop_zero] at h
      cases h
      exact ⟨[], by simp⟩
    · unfold readLoop at h
      rw [if_neg hr] at h
      cases hp : pages as (pageAlign ps addr) with
      | error e =>
        rw [hp] at h
        cases h
        refine ⟨[], by simp, by simp, Or.inr ⟨by simp; omega, by simpa using hp, Or.inl rfl⟩⟩
      | ok data =>
        rw [hp] at h
        simp only [] at h
        have hdl : data.length = ps := hwf _ _ _ hp
        have hoff : addr % ps < ps := Nat.mod_lt _ hps
        generalize hpl : min (ps - addr % ps) remain = partlen at h
        have hpl1 : 1 ≤ partlen := by omega
        have hpl2 : partlen ≤ remain := by omega
        have hpl3 : partlen ≤ ps - addr % ps := by omega
        generalize hpart : (data.drop (addr % ps)).take partlen = part at h
        have hpartlen : part.length = partlen := by
          rw [← hpart, List.length_take, List.length_drop]; omega
        have hpartget : ∀ i, i < partlen → memAt ps pages as (addr + i) = part[i]? := by
          intro i hi
          rw [memAt_in_page ps pages as addr i data hp (by omega), ← hpart,
            List.getElem?_take, if_pos hi, List.getElem?_drop]
        by_cases hrem : remain - partlen = 0
        · rw [hrem, readLoop_zero] at h
          cases h
          refine ⟨part, rfl, ?_, Or.inl ⟨by omega, rfl⟩⟩
          intro i hi
          exact hpartget i (by omega)
        · have haddr : (addr + partlen) % W = addr + partlen := Nat.mod_eq_of_lt (by omega)
          rw [haddr] at h
          obtain ⟨del', hout, hbytes, hcase⟩ :=
            ih (addr + partlen) (remain - partlen) (acc ++ part) st out (by omega) (by omega) h
          refine ⟨part ++ del', by rw [hout, List.append_assoc], ?_, ?_⟩
          · intro i hi
            by_cases hip : i < partlen
            · rw [List.getElem?_append_left (by omega)]
              exact hpartget i hip
            · rw [List.getElem?_append_right (by omega), hpartlen]
              have := hbytes (i - partlen) (by simp at hi; omega)
              rw [← this]
              congr 1
              omega
          · rcases hcase with ⟨hl, hs⟩ | ⟨hl, hpg, hal⟩
            · exact Or.inl ⟨by simp; omega, hs⟩
            · refine Or.inr ⟨by simp; omega, ?_, Or.inr ?_⟩
              · rw [List.length_append, hpartlen, ← Nat.add_assoc]; exact hpg
              · rw [List.length_append, hpartlen, ← Nat.add_assoc]
                rcases hal with h0 | h0
                · have : partlen = ps - addr % ps := by omega
                  rw [h0, Nat.add_zero, this]
                  exact mod_add_rest ps addr hps
                · exact h0

/-! ### `findNul` -/

theorem findNul_some : ∀ (l : List Byte) (k : Nat), findNul l = some k →
    l[k]? = some 0 ∧ ∀ i, i < k → ∃ b, l[i]? = some b ∧ b ≠ 0
  | [], k, h => by simp [findNul] at h
  | b :: bs, k, h => by
    unfold findNul at h
    split at h
    · cases h
      simp [*]
    · cases hk : findNul bs with
      | none => simp [hk] at h
      | some k' =>
        simp [hk] at h
        subst h
        obtain ⟨h1, h2⟩ := findNul_some bs k' hk
        refine ⟨by simpa using h1, ?_⟩
        intro i hi
        cases i with
        | zero => exact ⟨b, by simp, by assumption⟩
        | succ i => simpa using h2 i (by omega)

theorem findNul_none : ∀ (l : List Byte), findNul l = none →
    ∀ i, i < l.length → ∃ b, l[i]? = some b ∧ b ≠ 0
  | [], _, i, hi => by simp at hi
  | b :: bs, h, i, hi => by
    unfold findNul at h
    split at h
    · cases h
    · cases hk : findNul bs with
      | some k' => simp [hk] at h
      | none =>
        cases i with
        | zero => exact ⟨b, by simp, by assumption⟩
        | succ i => simpa using findNul_none bs hk i (by simpa using hi)

theorem findNul_eq_some (l : List Byte) (k : Nat) (hk : l[k]? = some 0)
    (hpre : ∀ i, i < k → ∃ b, l[i]? = some b ∧ b ≠ 0) : findNul l = some k := by
  have hkl : k < l.length := by
    rcases Nat.lt_or_ge k l.length with h | h
    · exact h
    · rw [List.getElem?_eq_none h] at hk; cases hk
  cases h : findNul l with
  | none =>
    obtain ⟨b, hb, hb0⟩ := findNul_none l h k hkl
    rw [hk] at hb; cases hb; exact absurd rfl hb0
  | some k' =>
    obtain ⟨h1, h2⟩ := findNul_some l k' h
    rcases Nat.lt_trichotomy k k' with hlt | heq | hgt
    · obtain ⟨b, hb, hb0⟩ := h2 k hlt
      rw [hk] at hb; cases hb; exact absurd rfl hb0
    · rw [heq]
    · obtain ⟨b, hb, hb0⟩ := hpre k' hgt
      rw [h1] at hb; cases hb; exact absurd rfl hb0

theorem findNul_eq_none (l : List Byte)
    (hall : ∀ i, i < l.length → ∃ b, l[i]? = some b ∧ b ≠ 0) : findNul l = none := by
  cases h : findNul l with
  | none => rfl
  | some k =>
    obtain ⟨h1, _⟩ := findNul_some l k h
    have hkl : k < l.length := by
      rcases Nat.lt_or_ge k l.length with h | h
      · exact h
      · rw [List.getElem?_eq_none h] at h1; cases h1
    obtain ⟨b, hb, hb0⟩ := hall k hkl
    rw [h1] at hb; cases hb; exact absurd rfl hb0

/-! ### `strLoop` -/

/-- The rest of the page starting at `addr`, as `strLoop` computes it. -/
theorem chunk_facts (ps : Nat) (hps : 0 < ps) (pages : Oracle) (hwf : PagesWF ps pages)
    (as addr : Nat) (data : List Byte) (hp : pages as (pageAlign ps addr) = .ok data) :
    ((data.drop (addr % ps)).take (ps - addr % ps)).length = ps - addr % ps ∧
    ∀ i, i < ps - addr % ps →
      memAt ps pages as (addr + i) = ((data.drop (addr % ps)).take (ps - addr % ps))[i]? := by
  have hdl : data.length = ps := hwf _ _ _ hp
  have hoff : addr % ps < ps := Nat.mod_lt _ hps
  refine ⟨by rw [List.length_take, List.length_drop]; omega, ?_⟩
  intro i hi
  rw [memAt_in_page ps pages as addr i data hp (by omega), List.getElem?_take, if_pos hi,
    List.getElem?_drop]

theorem strLoop_fail_none (ps : Nat) (pages : Oracle) (as : Nat) (allocOk : Nat → Bool) :
    ∀ (fuel addr iter : Nat) (acc : List Byte) (e : Status) (r : Option (List Byte)),
      strLoop ps pages as allocOk fuel addr iter acc = (e, r) → e ≠ .ok → r = none := by
  intro fuel
  induction fuel with
  | zero =>
    intro addr iter acc e r h he
    unfold strLoop at h
    cases h; rfl
  | succ fuel ih =>
    intro addr iter acc e r h he
    unfold strLoop at h
    split at h
    · cases h; rfl
    · simp only [] at h
      split at h
      · split at h
        · cases h; exact absurd rfl he
        · cases h; rfl
      · split at h
        · exact ih _ _ _ _ _ h he
        · cases h; rfl

theorem strLoop_ok_spec (ps : Nat) (hps : 0 < ps) (pages : Oracle) (hwf : PagesWF ps pages)
    (as : Nat) (allocOk : Nat → Bool) :
    ∀ (fuel addr iter : Nat) (acc s : List Byte),
      strLoop ps pages as allocOk fuel addr iter acc = (.ok, some s) →
      ∃ del, s = acc ++ del ∧
        (addr + del.length < W →
          (∀ i, i < del.length →
            ∃ b, memAt ps pages as (addr + i) = some b ∧ b ≠ 0 ∧ del[i]? = some b) ∧
          memAt ps pages as (addr + del.length) = some 0) := by
  intro fuel
  induction fuel with
  | zero =>
    intro addr iter acc s h
    unfold strLoop at h
    cases h
  | succ fuel ih =>
    intro addr iter acc s h
    unfold strLoop at h
    cases hp : pages as (pageAlign ps addr) with
    | error e => rw [hp] at h; cases h
    | ok data =>
      rw [hp] at h
      simp only [] at h
      obtain ⟨hclen, hcget⟩ := chunk_facts ps hps pages hwf as addr data hp
      generalize (data.drop (addr % ps)).take (ps - addr % ps) = chunk at h hclen hcget
      have hoff : addr % ps < ps := Nat.mod_lt _ hps
      cases hn : findNul chunk with
      | some k =>
        rw [hn] at h
        simp only [] at h
        split at h
        · cases h
          obtain ⟨hk0, hkpre⟩ := findNul_some chunk k hn
          have hkl : k < chunk.length := by
            rcases Nat.lt_or_ge k chunk.length with h | h
            · exact h
            · rw [List.getElem?_eq_none h] at hk0; cases hk0
          have htl : (chunk.take k).length = k := by rw [List.length_take]; omega
          refine ⟨chunk.take k, rfl, fun _ => ⟨?_, ?_⟩⟩
          · intro i hi
            rw [htl] at hi
            obtain ⟨b, hb, hb0⟩ := hkpre i hi
            refine ⟨b, ?_, hb0, ?_⟩
            · rw [hcget i (by omega)]; exact hb
            · rw [List.getElem?_take, if_pos hi]; exact hb
          · rw [htl, hcget k (by omega)]; exact hk0
        · cases h
      | none =>
        rw [hn] at h
        simp only [] at h
        split at h
        · obtain ⟨del', hs, hrest⟩ := ih _ _ _ _ h
          refine ⟨chunk ++ del', by rw [hs, List.append_assoc], ?_⟩
          intro hw
          rw [List.length_append, hclen] at hw
          have haddr : (addr + (ps - addr % ps)) % W = addr + (ps - addr % ps) :=
            Nat.mod_eq_of_lt (by omega)
          rw [haddr] at hrest
          obtain ⟨hb', hz'⟩ := hrest (by omega)
          refine ⟨?_, ?_⟩
          · intro i hi
            by_cases hic : i < ps - addr % ps
            · obtain ⟨b, hb, hb0⟩ := findNul_none chunk hn i (by omega)
              refine ⟨b, ?_, hb0, ?_⟩
              · rw [hcget i hic]; exact hb
              · rw [List.getElem?_append_left (by omega)]; exact hb
            · rw [List.length_append, hclen] at hi
              obtain ⟨b, hb, hb0, hd⟩ := hb' (i - (ps - addr % ps)) (by omega)
              refine ⟨b, ?_, hb0, ?_⟩
              · rw [← hb]; congr 1; omega
              · rw [List.getElem?_append_right (by omega), hclen]; exact hd
          · rw [List.length_append, hclen, ← Nat.add_assoc]; exact hz'
        · cases h

theorem strLoop_total (ps : Nat) (hps : 0 < ps) (pages : Oracle) (hwf : PagesWF ps pages)
    (as : Nat) :
    ∀ (fuel addr n iter : Nat) (acc : List Byte),
      addr + n < W →
      (∀ i, i < n → ∃ b, memAt ps pages as (addr + i) = some b ∧ b ≠ 0) →
      memAt ps pages as (addr + n) = some 0 → n < fuel →
      ∃ del, strLoop ps pages as (fun _ => true) fuel addr iter acc = (.ok, some (acc ++ del)) ∧
        del.length = n := by
  intro fuel
  induction fuel with
  | zero => intro addr n iter acc _ _ _ hf; omega
  | succ fuel ih =>
    intro addr n iter acc hw hpre hnul hf
    have hpage : PageOk ps pages as addr := by
      by_cases hn0 : n = 0
      · subst hn0
        exact memAt_some_pageOk ps pages as addr 0 (by simpa using hnul)
      · obtain ⟨b, hb, _⟩ := hpre 0 (by omega)
        exact memAt_some_pageOk ps pages as addr b (by simpa using hb)
    obtain ⟨data, hp⟩ := hpage
    unfold strLoop
    rw [hp]
    simp only []
    obtain ⟨hclen, hcget⟩ := chunk_facts ps hps pages hwf as addr data hp
    generalize (data.drop (addr % ps)).take (ps - addr % ps) = chunk at hclen hcget
    have hoff : addr % ps < ps := Nat.mod_lt _ hps
    by_cases hn : n < ps - addr % ps
    · have hfn : findNul chunk = some n := by
        apply findNul_eq_some
        · rw [← hcget n hn]; exact hnul
        · intro i hi
          rw [← hcget i (by omega)]
          exact hpre i hi
      rw [hfn]
      refine ⟨chunk.take n, by simp, ?_⟩
      rw [List.length_take]; omega
    · have hfn : findNul chunk = none := by
        apply findNul_eq_none
        intro i hi
        rw [← hcget i (by omega)]
        exact hpre i (by omega)
      rw [hfn]
      simp only [if_true]
      have haddr : (addr + (ps - addr % ps)) % W = addr + (ps - addr % ps) :=
        Nat.mod_eq_of_lt (by omega)
      rw [haddr]
      obtain ⟨del', hs, hl⟩ := ih (addr + (ps - addr % ps)) (n - (ps - addr % ps)) (iter + 1)
        (acc ++ chunk) (by omega)
        (by
          intro i hi
          have := hpre ((ps - addr % ps) + i) (by omega)
          rwa [← Nat.add_assoc] at this)
        (by
          have e : addr + (ps - addr % ps) + (n - (ps - addr % ps)) = addr + n := by omega
          rw [e]; exact hnul)
        (by omega)
      refine ⟨chunk ++ del', by rw [hs, List.append_assoc], ?_⟩
      rw [List.length_append, hclen, hl]; omega

end Kdf.Lemmas.Read
