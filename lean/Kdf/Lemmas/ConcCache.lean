import Kdf.Lemmas.CacheStep
/-!
Facts about the page-cache model (`Kdf.Model.Cache`, C06) that the concurrency proof (C05)
needs beyond the C06 frames: exact reference-count bookkeeping of every operation, which
entries can enter the in-flight list, success conditions of insert/put/discard.
-/
set_option linter.unusedSimpArgs false
namespace Kdf.Lemmas.ConcCache
open Kdf.Model.Cache Kdf.Lemmas.Cache


/-! ### helpers: what the primitives do to reference counts, the entry table and `F` -/

theorem refcnt_modEnt (c : Cache) (e : Nat) (f : Entry → Entry)
    (hf : ∀ x, (f x).refcnt = x.refcnt) (i : Nat) : (c.modEnt e f).refcnt i = c.refcnt i := by
  unfold Cache.refcnt
  rw [ent_modEnt]
  by_cases h : i = e ∧ e < c.ents.length
  · rw [if_pos h, h.1]; exact hf _
  · rw [if_neg h]

theorem refcnt_incref (c : Cache) (e i : Nat) :
    (incref c e).refcnt i = c.refcnt i + (if i = e ∧ e < c.ents.length then 1 else 0) := by
  unfold incref Cache.refcnt
  rw [ent_modEnt]
  by_cases h : i = e ∧ e < c.ents.length
  · rw [if_pos h, if_pos h, h.1]
  · rw [if_neg h, if_neg h]; rfl

/-- entry table keeps its length, reference counts unchanged -/
def Quiet (c c' : Cache) : Prop := c'.ents.length = c.ents.length ∧ ∀ i, c'.refcnt i = c.refcnt i

theorem Quiet.refl (c : Cache) : Quiet c c := ⟨rfl, fun _ => rfl⟩

theorem Quiet.trans {a b c : Cache} (h1 : Quiet a b) (h2 : Quiet b c) : Quiet a c :=
  ⟨h2.1.trans h1.1, fun i => (h2.2 i).trans (h1.2 i)⟩

theorem Quiet.of_ents {c c' : Cache} (h : c'.ents = c.ents) : Quiet c c' :=
  ⟨by rw [h], fun i => by unfold Cache.refcnt Cache.ent; rw [h]⟩

theorem Quiet.modEnt (c : Cache) (e : Nat) (f : Entry → Entry)
    (hf : ∀ x, (f x).refcnt = x.refcnt) : Quiet c (c.modEnt e f) :=
  ⟨modEnt_len c e f, refcnt_modEnt c e f hf⟩

theorem evict_raw {c c' : Cache} {bias z : Nat} (h : evictEntry c bias = .ok (c', z)) :
    c'.F = c.F ∧ c'.ents = c.ents := by
  obtain ⟨-, ⟨-, rfl⟩ | ⟨-, rfl⟩⟩ := evictEntry_spec h <;> exact ⟨rfl, rfl⟩

theorem reclaim_raw {c c1 : Cache} {d : Option Nat} (h : reclaimData c = .ok (c1, d)) :
    c1.F = c.F ∧ Quiet c c1 := by
  unfold reclaimData at h
  split at h
  · split at h
    · cases h
    · simp only [Except.ok.injEq, Prod.mk.injEq] at h
      obtain ⟨rfl, -⟩ := h
      exact ⟨rfl, Quiet.modEnt _ _ _ (by intro _; rfl)⟩
  · cases hev : evictEntry c 0 with
    | error x => rw [hev] at h; cases h
    | ok r =>
      obtain ⟨c', z⟩ := r
      rw [hev] at h
      simp only [bind, Except.bind, Except.ok.injEq, Prod.mk.injEq] at h
      obtain ⟨rfl, -⟩ := h
      obtain ⟨hF, he⟩ := evict_raw hev
      exact ⟨hF, (Quiet.of_ents he).trans (Quiet.modEnt _ _ _ (by intro _; rfl))⟩

theorem ghostHit_raw {c c2 : Cache} {e : Nat} {b : Bool} (h : ghostHit c e b = .ok c2) :
    c2.F = c.F ++ [e] ∧ Quiet c c2 := by
  unfold ghostHit at h
  cases hrd : reclaimData c with
  | error x => rw [hrd] at h; cases h
  | ok r =>
    obtain ⟨c1, d⟩ := r
    rw [hrd] at h
    obtain ⟨hF, hq⟩ := reclaim_raw hrd
    have hq2 : Quiet c (c1.modEnt e (fun x => { x with data := d, state := .precious })) :=
      hq.trans (Quiet.modEnt _ _ _ (by intro _; rfl))
    cases b with
    | true =>
      simp only [bind, Except.bind, if_true, Except.ok.injEq] at h
      subst h
      exact ⟨by show c1.F ++ [e] = _; rw [hF], hq2⟩
    | false =>
      simp only [bind, Except.bind, Bool.false_eq_true, if_false, Except.ok.injEq] at h
      subst h
      exact ⟨by show c1.F ++ [e] = _; rw [hF], hq2⟩

theorem missedTail_raw {c1 c2 : Cache} {e k e' : Nat} (h : missedTail c1 e k = .ok (c2, e')) :
    e' = e ∧ c2.F = c1.F ++ [e] ∧ Quiet c1 c2 := by
  unfold missedTail at h
  by_cases hnone : (c1.dataOf e).isNone = true
  · cases hev : evictEntry c1 1 with
    | error x => simp [hnone, hev, bind, Except.bind] at h
    | ok r =>
      obtain ⟨c', z⟩ := r
      obtain ⟨hF, he⟩ := evict_raw hev
      simp only [hnone, if_true, hev, bind, Except.bind, pure, Except.pure, Except.ok.injEq,
        Prod.mk.injEq] at h
      obtain ⟨rfl, rfl⟩ := h
      refine ⟨rfl, ?_, ?_⟩
      · show c'.F ++ _ = _; rw [hF]
      · have q1 := Quiet.modEnt c' e (fun x => { x with data := c'.dataOf z }) (by intro _; rfl)
        have q2 := Quiet.modEnt (c'.modEnt e (fun x => { x with data := c'.dataOf z })) z
          (fun x => { x with data := none }) (by intro _; rfl)
        have q3 := Quiet.modEnt ((c'.modEnt e (fun x => { x with data := c'.dataOf z })).modEnt z
          (fun x => { x with data := none })) e (fun x => { x with key := k, state := .probe })
          (by intro _; rfl)
        exact (Quiet.of_ents he).trans ((q1.trans (q2.trans q3)).trans (Quiet.of_ents rfl))
  · simp only [hnone, pure, Except.pure, bind, Except.bind, Except.ok.injEq, Prod.mk.injEq] at h
    obtain ⟨rfl, rfl⟩ := h
    exact ⟨rfl, rfl, (Quiet.modEnt c1 e (fun x => { x with key := k, state := .probe })
      (by intro _; rfl)).trans (Quiet.of_ents rfl)⟩

theorem missed_raw {c c1 : Cache} {k e : Nat} (h : missed c k = .ok (c1, e)) :
    c1.F = c.F ++ [e] ∧ Quiet c c1 ∧ (e ∈ c.U ∨ e ∈ c.GB ∨ e ∈ c.GP) := by
  cases hUl : c.U.getLast? with
  | some u =>
    rw [missed_eq_U hUl] at h
    obtain ⟨rfl, hF, hq⟩ := missedTail_raw h
    exact ⟨hF, hq, Or.inl (List.mem_of_getLast? hUl)⟩
  | none =>
    cases hGB : c.GB with
    | cons g rest =>
      rw [missed_eq_GB hUl hGB] at h
      obtain ⟨rfl, hF, hq⟩ := missedTail_raw h
      exact ⟨hF, hq, Or.inr (Or.inl (by simp))⟩
    | nil =>
      cases hGPl : c.GP.getLast? with
      | some g =>
        rw [missed_eq_GP hUl hGB hGPl] at h
        obtain ⟨rfl, hF, hq⟩ := missedTail_raw h
        exact ⟨hF, hq, Or.inr (Or.inr (List.mem_of_getLast? hGPl))⟩
      | none =>
        unfold missed at h
        simp [hUl, hGB, hGPl, bind, Except.bind, throw, throwThe, MonadExceptOf.throw] at h

/-- the effect of a lookup on reference counts and the in-flight list (no invariant needed) -/
theorem get_raw {c c' : Cache} {k : Nat} {o : Out} (hs : get c k = .ok (c', o)) :
    (o = .busy ∧ c' = c) ∨
    ∃ e v, o = .entry e v ∧
      (∀ i, c'.refcnt i = c.refcnt i + (if i = e ∧ e < c.ents.length then 1 else 0)) ∧
      (c'.F = c.F ∨ (v = false ∧ c'.F = c.F ++ [e] ∧ (e ∈ c.U ∨ e ∈ c.GB ∨ e ∈ c.GP))) := by
  cases hP : c.P.find? (fun i => c.key i = k) with
  | some e =>
    rw [get_P hP] at hs
    simp only [Except.ok.injEq, Prod.mk.injEq] at hs
    obtain ⟨rfl, rfl⟩ := hs
    exact Or.inr ⟨e, true, rfl, fun i => refcnt_incref _ e i, Or.inl rfl⟩
  | none =>
  cases hB : c.B.reverse.find? (fun i => c.key i = k) with
  | some e =>
    rw [get_B hP hB] at hs
    simp only [Except.ok.injEq, Prod.mk.injEq] at hs
    obtain ⟨rfl, rfl⟩ := hs
    exact Or.inr ⟨e, true, rfl, fun i => refcnt_incref _ e i, Or.inl rfl⟩
  | none =>
  cases hF : c.F.find? (fun i => c.key i = k) with
  | some e =>
    rw [Kdf.Lemmas.Cache.get_F hP hB hF] at hs
    simp only [Except.ok.injEq, Prod.mk.injEq] at hs
    obtain ⟨rfl, rfl⟩ := hs
    refine Or.inr ⟨e, false, rfl, fun i => ?_, Or.inl rfl⟩
    rw [refcnt_incref]
    show (c.modEnt e _).refcnt i + (if i = e ∧ e < (c.modEnt e _).ents.length then 1 else 0) = _
    rw [refcnt_modEnt c e _ (by intro _; rfl), modEnt_len]
  | none =>
  by_cases hb : c.pinned + c.F.length ≥ c.cap
  · rw [get_busy hP hB hF hb] at hs
    simp only [Except.ok.injEq, Prod.mk.injEq] at hs
    exact Or.inl ⟨hs.2.symm, hs.1.symm⟩
  · cases hGP : c.GP.find? (fun i => c.key i = k) with
    | some e =>
      have heG : e ∈ c.GP := List.mem_of_find?_eq_some hGP
      obtain ⟨d, hget⟩ := get_GP hP hB hF hb hGP
      rw [hget] at hs
      cases hgh : ghostHit { c with dprobe := d } e true with
      | error x => rw [hgh] at hs; cases hs
      | ok c2 =>
        rw [hgh] at hs
        simp only [Except.bind, Except.ok.injEq, Prod.mk.injEq] at hs
        obtain ⟨rfl, rfl⟩ := hs
        obtain ⟨hF2, hq⟩ := ghostHit_raw hgh
        refine Or.inr ⟨e, false, rfl, fun i => ?_, Or.inr ⟨rfl, hF2, Or.inr (Or.inr heG)⟩⟩
        rw [refcnt_incref]
        show c2.refcnt i + (if i = e ∧ e < c2.ents.length then 1 else 0) = _
        rw [hq.2 i, hq.1]; rfl
    | none =>
    cases hGB : c.GB.reverse.find? (fun i => c.key i = k) with
    | some e =>
      have heG : e ∈ c.GB := by simpa using List.mem_of_find?_eq_some hGB
      obtain ⟨d, hget⟩ := get_GB hP hB hF hb hGP hGB
      rw [hget] at hs
      cases hgh : ghostHit { c with dprobe := d } e false with
      | error x => rw [hgh] at hs; cases hs
      | ok c2 =>
        rw [hgh] at hs
        simp only [Except.bind, Except.ok.injEq, Prod.mk.injEq] at hs
        obtain ⟨rfl, rfl⟩ := hs
        obtain ⟨hF2, hq⟩ := ghostHit_raw hgh
        refine Or.inr ⟨e, false, rfl, fun i => ?_, Or.inr ⟨rfl, hF2, Or.inr (Or.inl heG)⟩⟩
        rw [refcnt_incref]
        show c2.refcnt i + (if i = e ∧ e < c2.ents.length then 1 else 0) = _
        rw [hq.2 i, hq.1]; rfl
    | none =>
      rw [get_miss hP hB hF hb hGP hGB] at hs
      cases hm : missed c k with
      | error x => rw [hm] at hs; cases hs
      | ok r =>
        obtain ⟨c1, e⟩ := r
        rw [hm] at hs
        simp only [Except.bind, Except.ok.injEq, Prod.mk.injEq] at hs
        obtain ⟨rfl, rfl⟩ := hs
        obtain ⟨hF2, hq, hmem⟩ := missed_raw hm
        refine Or.inr ⟨e, false, rfl, fun i => ?_, Or.inr ⟨rfl, hF2, hmem⟩⟩
        rw [refcnt_incref]
        show c1.refcnt i + (if i = e ∧ e < c1.ents.length then 1 else 0) = _
        rw [hq.2 i, hq.1]

/-- the entry returned by a lookup is an entry -/
theorem get_entry_lt {c c' : Cache} {st : Prop} (h : InvS c st) {k e : Nat} {v : Bool}
    (hs : get c k = .ok (c', .entry e v)) : e < c.ents.length := by
  obtain ⟨c'', o', hg, hI', hcap, -, hout⟩ := get_spec h k
  rw [hg] at hs
  simp only [Except.ok.injEq, Prod.mk.injEq] at hs
  obtain ⟨rfl, rfl⟩ := hs
  rw [h.1, ← hcap]
  cases v with
  | true =>
    have : e ∈ cached c'' := hout.2.2
    unfold cached at this
    exact hI'.2.lt_of_mem (by simp only [abs_U, abs_GB, abs_B, abs_P, abs_GP, abs_F, List.mem_append] at this ⊢; grind)
  | false =>
    have : e ∈ c''.F := hout.1
    exact hI'.2.lt_of_mem (by simp only [abs_U, abs_GB, abs_B, abs_P, abs_GP, abs_F, List.mem_append]; grind)

theorem inv_nodup {c : Cache} {st : Prop} (h : InvS c st) :
    (c.U ++ c.GB ++ c.B ++ c.P ++ c.GP ++ c.F).Nodup := by
  have := h.2.nodup
  simpa using this

theorem cached_disj {c : Cache} {st : Prop} (h : InvS c st) {i : Nat} (hi : i ∈ cached c) :
    i ∉ c.F := by
  have hnd := inv_nodup h
  unfold cached at hi
  simp only [List.nodup_append, List.mem_append] at hnd hi
  grind

theorem refcnt_decref (c : Cache) {e : Nat} (helt : e < c.ents.length) (i : Nat) :
    (c.modEnt e (fun x => { x with refcnt := x.refcnt - 1 })).refcnt i =
      if i = e then c.refcnt e - 1 else c.refcnt i := by
  unfold Cache.refcnt
  rw [ent_modEnt]
  by_cases hie : i = e
  · rw [if_pos ⟨hie, helt⟩, if_pos hie]
  · rw [if_neg (fun hh => hie hh.1), if_neg hie]

theorem setValid_same (c : Cache) (e i : Nat) :
    (c.modEnt e (fun x => { x with state := .valid })).refcnt i = c.refcnt i ∧
    (c.modEnt e (fun x => { x with state := .valid })).key i = c.key i ∧
    (c.modEnt e (fun x => { x with state := .valid })).dataOf i = c.dataOf i :=
  ⟨refcnt_modEnt c e _ (by intro _; rfl) i,
    modEnt_same c e (fun x => { x with state := .valid }) (fun _ => rfl) (fun _ => rfl) i⟩

/-- `cache_get_entry` increments the reference count of the returned entry by one and leaves
every other reference count alone. -/
theorem get_refcnt {c c' : Cache} {st : Prop} (h : InvS c st) {k e : Nat} {v : Bool}
    (hs : get c k = .ok (c', .entry e v)) (i : Nat) :
    c'.refcnt i = c.refcnt i + (if i = e then 1 else 0) := by
  have helt := get_entry_lt h hs
  rcases get_raw hs with ⟨ho, -⟩ | ⟨e', v', ho, hr, -⟩
  · cases ho
  · simp only [Out.entry.injEq] at ho
    obtain ⟨rfl, rfl⟩ := ho
    rw [hr i]
    by_cases hie : i = e <;> simp [hie, helt]

/-- the only entry a lookup can add to the in-flight list is the one it returns on a miss,
and that entry was neither cached nor in flight before -/
theorem get_F {c c' : Cache} {st : Prop} (h : InvS c st) {k : Nat} {o : Out}
    (hs : get c k = .ok (c', o)) (i : Nat) (hi : i ∈ c'.F) :
    i ∈ c.F ∨ (o = .entry i false ∧ i ∉ live c) := by
  rcases get_raw hs with ⟨-, rfl⟩ | ⟨e, v, rfl, -, hF | ⟨rfl, hF, hmem⟩⟩
  · exact Or.inl hi
  · exact Or.inl (hF ▸ hi)
  · rw [hF, List.mem_append] at hi
    rcases hi with hi | hi
    · exact Or.inl hi
    · simp only [List.mem_singleton] at hi
      subst hi
      refine Or.inr ⟨rfl, ?_⟩
      have hnd := inv_nodup h
      unfold live
      simp only [List.nodup_append, List.mem_append] at hnd ⊢
      grind

/-- entries live before and referenced stay in the partition (cached / in flight) they were in -/
theorem get_cached_stays {c c' : Cache} {st : Prop} (h : InvS c st) {k : Nat} {o : Out}
    (hs : get c k = .ok (c', o)) (i : Nat) (hi : i ∈ cached c) (hr : c.refcnt i ≠ 0) :
    i ∈ cached c' := by
  obtain ⟨c'', o', hg, -, -, hfr, -⟩ := get_spec h k
  have hs' := hs
  rw [hg] at hs'
  simp only [Except.ok.injEq, Prod.mk.injEq] at hs'
  obtain ⟨rfl, rfl⟩ := hs'
  have hl : i ∈ live c := by
    unfold live; unfold cached at hi; exact List.mem_append_left _ hi
  have hl' : i ∈ live c'' := (hfr.refd i hl hr).1
  unfold live at hl'
  rcases List.mem_append.1 hl' with h1 | h1
  · exact h1
  · rcases get_F h hs i h1 with h2 | ⟨-, h2⟩
    · exact absurd h2 (cached_disj h hi)
    · exact absurd hl h2

/-- `cache_insert` -/
theorem insert_frame {c c' : Cache} {st : Prop} (h : InvS c st) {e : Nat} {o : Out}
    (hs : insert c e = .ok (c', o)) :
    (∀ i, c'.refcnt i = c.refcnt i ∧ c'.key i = c.key i ∧ c'.dataOf i = c.dataOf i) ∧
    (∀ i, i ∈ live c' ↔ i ∈ live c) ∧
    (∀ i, i ∈ cached c' ↔ (i ∈ cached c ∨ (i = e ∧ e ∈ c.F))) ∧
    c'.cap = c.cap := by
  have hI := h.2
  unfold Kdf.Model.Cache.insert at hs
  split at hs
  · rename_i hv
    simp only [Except.ok.injEq, Prod.mk.injEq] at hs
    obtain ⟨rfl, -⟩ := hs
    refine ⟨fun i => ⟨rfl, rfl, rfl⟩, fun i => Iff.rfl, fun i => ?_, rfl⟩
    constructor
    · exact Or.inl
    · rintro (hc | ⟨rfl, heF⟩)
      · exact hc
      · exact absurd hv (hI.inflight_invalid _ heF)
  · split at hs
    · rename_i hnv heF
      simp only [Except.ok.injEq, Prod.mk.injEq] at hs
      obtain ⟨rfl, -⟩ := hs
      have he1 : ∀ i, i ∈ c.F.erase e → i ∈ c.F := fun i => List.mem_of_mem_erase
      have he2 : ∀ i, i ≠ e → i ∈ c.F → i ∈ c.F.erase e := fun i hne hm =>
        (List.mem_erase_of_ne hne).2 hm
      split
      · refine ⟨fun i => setValid_same { c with F := c.F.erase e, B := c.B ++ [e] } e i, fun i => ?_,
          fun i => ?_, rfl⟩
        · unfold live
          simp only [modEnt_B, modEnt_P, modEnt_F, List.mem_append, List.mem_singleton]
          grind
        · unfold cached
          simp only [modEnt_B, modEnt_P, modEnt_F, List.mem_append, List.mem_singleton]
          grind
      · refine ⟨fun i => setValid_same { c with F := c.F.erase e, P := e :: c.P } e i, fun i => ?_,
          fun i => ?_, rfl⟩
        · unfold live
          simp only [modEnt_B, modEnt_P, modEnt_F, List.mem_append, List.mem_cons]
          grind
        · unfold cached
          simp only [modEnt_B, modEnt_P, modEnt_F, List.mem_append, List.mem_cons]
          grind
    · cases hs

/-- a live entry can be inserted (no `proto` error), and is cached afterwards -/
theorem insert_ok {c : Cache} {st : Prop} (h : InvS c st) {e : Nat} (he : e ∈ live c) :
    ∃ c' o, insert c e = .ok (c', o) ∧ e ∈ cached c' := by
  have hI := h.2
  unfold live at he
  rcases List.mem_append.1 he with hc | heF
  · have hv : (c.ent e).state = .valid := hI.cached_valid e hc
    refine ⟨c, .done, ?_, hc⟩
    unfold Kdf.Model.Cache.insert
    rw [if_pos hv]
  · have hnv : (c.ent e).state ≠ .valid := hI.inflight_invalid e heF
    unfold Kdf.Model.Cache.insert
    rw [if_neg hnv, if_pos heF]
    refine ⟨_, _, rfl, ?_⟩
    unfold cached
    split
    · simp only [modEnt_B, modEnt_P, List.mem_append, List.mem_singleton]
      exact Or.inl (Or.inr trivial)
    · simp only [modEnt_B, modEnt_P, List.mem_append, List.mem_cons]
      exact Or.inr (Or.inl trivial)

/-- `cache_put_entry` -/
theorem put_frame {c c' : Cache} {e : Nat} {o : Out} (hs : put c e = .ok (c', o)) :
    c.refcnt e ≠ 0 ∧
    (∀ i, c'.refcnt i = (if i = e then c.refcnt e - 1 else c.refcnt i) ∧ c'.key i = c.key i ∧
      c'.dataOf i = c.dataOf i) ∧
    c'.B = c.B ∧ c'.P = c.P ∧ c'.F = c.F ∧ c'.cap = c.cap := by
  unfold Kdf.Model.Cache.put at hs
  split at hs
  · cases hs
  · rename_i hr
    simp only [Except.ok.injEq, Prod.mk.injEq] at hs
    obtain ⟨rfl, -⟩ := hs
    have helt := refcnt_lt_len hr
    exact ⟨hr, fun i => ⟨refcnt_decref c helt i, modEnt_same c e
      (fun x => { x with refcnt := x.refcnt - 1 }) (fun _ => rfl) (fun _ => rfl) i⟩, rfl, rfl, rfl, rfl⟩

theorem put_ok {c : Cache} {e : Nat} (hr : c.refcnt e ≠ 0) : ∃ c' o, put c e = .ok (c', o) := by
  unfold Kdf.Model.Cache.put
  rw [if_neg hr]
  exact ⟨_, _, rfl⟩

/-- `cache_discard` -/
theorem discard_frame {c c' : Cache} {st : Prop} (h : InvS c st) {e : Nat} {o : Out}
    (hs : discard c e = .ok (c', o)) :
    c.refcnt e ≠ 0 ∧
    (∀ i, c'.refcnt i = (if i = e then c.refcnt e - 1 else c.refcnt i) ∧ c'.key i = c.key i ∧
      c'.dataOf i = c.dataOf i) ∧
    c'.B = c.B ∧ c'.P = c.P ∧
    (∀ i, i ∈ c'.F ↔ (i ∈ c.F ∧ ¬ (i = e ∧ c.refcnt e = 1))) ∧ c'.cap = c.cap := by
  have hI := h.2
  have hndF : c.F.Nodup := by
    have hnd := inv_nodup h
    simp only [List.nodup_append] at hnd
    exact hnd.2.1
  unfold Kdf.Model.Cache.discard at hs
  split at hs
  · cases hs
  · rename_i hr
    have helt := refcnt_lt_len hr
    have hent : (c.modEnt e (fun x => { x with refcnt := x.refcnt - 1 })).ent e =
        { c.ent e with refcnt := (c.ent e).refcnt - 1 } := by simp [ent_modEnt, helt]
    have hfr : ∀ i, (c.modEnt e (fun x => { x with refcnt := x.refcnt - 1 })).refcnt i =
        (if i = e then c.refcnt e - 1 else c.refcnt i) ∧
        (c.modEnt e (fun x => { x with refcnt := x.refcnt - 1 })).key i = c.key i ∧
        (c.modEnt e (fun x => { x with refcnt := x.refcnt - 1 })).dataOf i = c.dataOf i :=
      fun i => ⟨refcnt_decref c helt i, modEnt_same c e
        (fun x => { x with refcnt := x.refcnt - 1 }) (fun _ => rfl) (fun _ => rfl) i⟩
    have hr1e : (c.modEnt e (fun x => { x with refcnt := x.refcnt - 1 })).refcnt e = c.refcnt e - 1 := by
      rw [(hfr e).1, if_pos rfl]
    simp only [] at hs
    split at hs
    · rename_i hr1
      simp only [Except.ok.injEq, Prod.mk.injEq] at hs
      obtain ⟨rfl, -⟩ := hs
      refine ⟨hr, hfr, rfl, rfl, fun i => ?_, rfl⟩
      rw [hr1e] at hr1
      simp only [modEnt_F]
      constructor
      · intro hi; exact ⟨hi, fun hh => by omega⟩
      · exact fun hh => hh.1
    · rename_i hr1
      rw [hr1e] at hr1
      have hone : c.refcnt e = 1 := by omega
      split at hs
      · rename_i hv
        simp only [Except.ok.injEq, Prod.mk.injEq] at hs
        obtain ⟨rfl, -⟩ := hs
        refine ⟨hr, hfr, rfl, rfl, fun i => ?_, rfl⟩
        rw [hent] at hv
        simp only [modEnt_F]
        constructor
        · intro hi
          refine ⟨hi, fun hh => ?_⟩
          exact hI.inflight_invalid e (hh.1 ▸ hi) hv
        · exact fun hh => hh.1
      · split at hs
        · rename_i heF
          simp only [Except.ok.injEq, Prod.mk.injEq] at hs
          obtain ⟨rfl, -⟩ := hs
          refine ⟨hr, hfr, rfl, rfl, fun i => ?_, rfl⟩
          show i ∈ c.F.erase e ↔ _
          rw [List.Nodup.mem_erase_iff hndF]
          constructor
          · intro hh; exact ⟨hh.2, fun h2 => hh.1 h2.1⟩
          · intro hh; exact ⟨fun h2 => hh.2 ⟨h2, hone⟩, hh.1⟩
        · cases hs

theorem discard_ok {c : Cache} {st : Prop} (h : InvS c st) {e : Nat} (he : e ∈ live c)
    (hr : c.refcnt e ≠ 0) : ∃ c' o, discard c e = .ok (c', o) := by
  have hI := h.2
  have helt := refcnt_lt_len hr
  have hent : (c.modEnt e (fun x => { x with refcnt := x.refcnt - 1 })).ent e =
      { c.ent e with refcnt := (c.ent e).refcnt - 1 } := by simp [ent_modEnt, helt]
  unfold Kdf.Model.Cache.discard
  rw [if_neg hr]
  simp only []
  split
  · exact ⟨_, _, rfl⟩
  · split
    · exact ⟨_, _, rfl⟩
    · rename_i hnv
      split
      · exact ⟨_, _, rfl⟩
      · rename_i hnF
        exfalso
        simp only [modEnt_F] at hnF
        rw [hent] at hnv
        unfold live at he
        rcases List.mem_append.1 he with hc | heF
        · exact hnv (hI.cached_valid e hc)
        · exact hnF heF

/-- buffers are numbered below the capacity -/
theorem data_lt_cap {c : Cache} {st : Prop} (h : InvS c st) {i d : Nat} (hi : i < 2 * c.cap)
    (hd : c.dataOf i = some d) : d < c.cap := by
  have hb := h.2.bufs
  simp only [List.nil_append, abs_cap, abs_ent] at hb
  have hm : d ∈ (List.range (2 * c.cap)).filterMap (fun i => (c.ent i).data) :=
    List.mem_filterMap.2 ⟨i, List.mem_range.2 hi, hd⟩
  exact List.mem_range.1 (hb.mem_iff.1 hm)

/-- live entries are entries -/
theorem live_lt {c : Cache} {st : Prop} (h : InvS c st) {i : Nat} (hi : i ∈ live c) : i < 2 * c.cap := by
  have := h.2.lt_of_mem (e := i) (by
    unfold live at hi
    simp only [abs_U, abs_GB, abs_B, abs_P, abs_GP, abs_F, List.mem_append] at hi ⊢
    grind)
  exact this

/-- two live entries that own the same buffer are the same entry -/
theorem live_buffer_inj {c : Cache} {st : Prop} (h : InvS c st) {i j d : Nat} (hi : i ∈ live c)
    (hj : j ∈ live c) (hdi : c.dataOf i = some d) (hdj : c.dataOf j = some d) : i = j := by
  apply Classical.byContradiction
  intro hne
  exact inv_unique_buffer h (live_lt h hi) (live_lt h hj) hne hdi hdj

/-- cached and in-flight entries are disjoint -/
theorem cached_not_F {c : Cache} {st : Prop} (h : InvS c st) {i : Nat} (hi : i ∈ cached c) : i ∉ c.F := by
  exact cached_disj h hi

/-- a fresh cache: no references -/
theorem flush_refcnt0 (cap i : Nat) : (flush cap).refcnt i = 0 := by
  exact flush_refcnt cap i

theorem flush_cached (cap : Nat) : cached (flush cap) = [] := rfl

end Kdf.Lemmas.ConcCache
