import Kdf.Model.Res
/-! Ledger calculus for C15: `Runs evs L L'` — the trace `evs` can be run from
the ledger `L` (nothing is given back that is not held) and leaves `L'`, up to
the order of the entries.  Composition, framing and the single-event rules. -/
namespace Kdf.Lemmas.Res
open Kdf.Model.Res

def Runs (evs : List Ev) (L L' : List Res) : Prop :=
  ∃ M, runEvs evs L = some M ∧ M.Perm L'

theorem runEvs_append (a b : List Ev) (L : List Res) :
    runEvs (a ++ b) L = (runEvs a L).bind (runEvs b) := by
  induction a generalizing L with
  | nil => simp [runEvs]
  | cons e es ih =>
    simp only [List.cons_append, runEvs]
    cases h : applyEv L e with
    | none => simp
    | some M => simp [ih]

theorem erase_perm {r : Res} {L₁ L₂ : List Res} (h : L₁.Perm L₂) : (L₁.erase r).Perm (L₂.erase r) :=
  h.erase r

theorem applyEv_perm {L₁ L₂ M₁ : List Res} (e : Ev) (h : L₁.Perm L₂) (h1 : applyEv L₁ e = some M₁) :
    ∃ M₂, applyEv L₂ e = some M₂ ∧ M₁.Perm M₂ := by
  cases e with
  | acq c k => simp only [applyEv, Option.some.injEq] at h1 ⊢; subst h1; exact ⟨_, rfl, h.cons _⟩
  | busy c k => simp only [applyEv, Option.some.injEq] at h1 ⊢; subst h1; exact ⟨_, rfl, h⟩
  | ins c k => simp only [applyEv, Option.some.injEq] at h1 ⊢; subst h1; exact ⟨_, rfl, h⟩
  | pread o b => simp only [applyEv, Option.some.injEq] at h1 ⊢; subst h1; exact ⟨_, rfl, h⟩
  | mmap o b => simp only [applyEv, Option.some.injEq] at h1 ⊢; subst h1; exact ⟨_, rfl, h⟩
  | discard c k =>
    simp only [applyEv] at h1 ⊢
    split at h1
    · rename_i hm
      simp only [Option.some.injEq] at h1; subst h1
      rw [if_pos (h.mem_iff.mp hm)]
      exact ⟨_, rfl, h.erase _⟩
    · cases h1
  | put c k =>
    simp only [applyEv] at h1 ⊢
    split at h1
    · rename_i hm
      simp only [Option.some.injEq] at h1; subst h1
      rw [if_pos (h.mem_iff.mp hm)]
      exact ⟨_, rfl, h.erase _⟩
    · cases h1
  | free t s =>
    simp only [applyEv] at h1 ⊢
    split at h1
    · rename_i hm
      simp only [Option.some.injEq] at h1; subst h1
      rw [if_pos (h.mem_iff.mp hm)]
      exact ⟨_, rfl, h.erase _⟩
    · cases h1
  | malloc t s b =>
    cases b with
    | true => simp only [applyEv, Option.some.injEq] at h1 ⊢; subst h1; exact ⟨_, rfl, h.cons _⟩
    | false => simp only [applyEv, Option.some.injEq] at h1 ⊢; subst h1; exact ⟨_, rfl, h⟩

theorem runEvs_perm {L₁ L₂ M₁ : List Res} (evs : List Ev) (h : L₁.Perm L₂) (h1 : runEvs evs L₁ = some M₁) :
    ∃ M₂, runEvs evs L₂ = some M₂ ∧ M₁.Perm M₂ := by
  induction evs generalizing L₁ L₂ with
  | nil => simp only [runEvs, Option.some.injEq] at h1 ⊢; subst h1; exact ⟨_, rfl, h⟩
  | cons e es ih =>
    simp only [runEvs] at h1 ⊢
    cases ha : applyEv L₁ e with
    | none => simp [ha] at h1
    | some N₁ =>
      obtain ⟨N₂, hb, hp⟩ := applyEv_perm e h ha
      rw [ha] at h1; rw [hb]
      simp only [Option.bind_some] at h1 ⊢
      exact ih hp h1

theorem Runs.nil (L : List Res) : Runs [] L L := ⟨L, rfl, List.Perm.refl _⟩

theorem Runs.perm_right {evs L L' L''} (h : Runs evs L L') (p : L'.Perm L'') : Runs evs L L'' := by
  obtain ⟨M, h1, h2⟩ := h
  exact ⟨M, h1, h2.trans p⟩

theorem Runs.perm_left {evs L₁ L₂ L'} (h : Runs evs L₁ L') (p : L₁.Perm L₂) : Runs evs L₂ L' := by
  obtain ⟨M, h1, h2⟩ := h
  obtain ⟨M₂, h3, h4⟩ := runEvs_perm evs p h1
  exact ⟨M₂, h3, h4.symm.trans h2⟩

theorem Runs.append {a b L M N} (h1 : Runs a L M) (h2 : Runs b M N) : Runs (a ++ b) L N := by
  obtain ⟨M', ha, hp⟩ := h1
  obtain ⟨N', hb, hq⟩ := h2.perm_left hp.symm
  refine ⟨N', ?_, hq⟩
  rw [runEvs_append, ha]; simpa using hb

theorem Runs.cons {e : Ev} {b L M N} (h1 : Runs [e] L M) (h2 : Runs b M N) : Runs (e :: b) L N := by
  have := Runs.append h1 h2
  simpa using this

/-- an event that neither takes nor gives back -/
def Neutral : Ev → Prop
  | .busy _ _ | .ins _ _ | .pread _ _ | .mmap _ _ | .malloc _ _ false => True
  | _ => False

theorem Runs.neutral {e : Ev} (h : Neutral e) (L : List Res) : Runs [e] L L := by
  cases e with
  | busy c k => exact ⟨L, by simp [runEvs, applyEv], List.Perm.refl _⟩
  | ins c k => exact ⟨L, by simp [runEvs, applyEv], List.Perm.refl _⟩
  | pread o b => exact ⟨L, by simp [runEvs, applyEv], List.Perm.refl _⟩
  | mmap o b => exact ⟨L, by simp [runEvs, applyEv], List.Perm.refl _⟩
  | malloc t s b =>
    cases b with
    | false => exact ⟨L, by simp [runEvs, applyEv], List.Perm.refl _⟩
    | true => simp [Neutral] at h
  | acq c k => simp [Neutral] at h
  | put c k => simp [Neutral] at h
  | discard c k => simp [Neutral] at h
  | free t s => simp [Neutral] at h

theorem Runs.acq (c : CacheId) (k : Nat) (L : List Res) : Runs [.acq c k] L (.pin c k :: L) :=
  ⟨_, by simp [runEvs, applyEv], List.Perm.refl _⟩

theorem Runs.malloc (t : MemTag) (s : Nat) (L : List Res) : Runs [.malloc t s true] L (.mem t s :: L) :=
  ⟨_, by simp [runEvs, applyEv], List.Perm.refl _⟩

theorem Runs.put {c : CacheId} {k : Nat} {L L' : List Res} (h : L.Perm (.pin c k :: L')) : Runs [.put c k] L L' := by
  have hm : Res.pin c k ∈ L := h.mem_iff.mpr (by simp)
  refine ⟨L.erase (.pin c k), by simp [runEvs, applyEv, hm], ?_⟩
  have := h.erase (Res.pin c k)
  simpa using this

theorem Runs.discard {c : CacheId} {k : Nat} {L L' : List Res} (h : L.Perm (.pin c k :: L')) : Runs [.discard c k] L L' := by
  have hm : Res.pin c k ∈ L := h.mem_iff.mpr (by simp)
  refine ⟨L.erase (.pin c k), by simp [runEvs, applyEv, hm], ?_⟩
  have := h.erase (Res.pin c k)
  simpa using this

theorem Runs.free {t : MemTag} {s : Nat} {L L' : List Res} (h : L.Perm (.mem t s :: L')) : Runs [.free t s] L L' := by
  have hm : Res.mem t s ∈ L := h.mem_iff.mpr (by simp)
  refine ⟨L.erase (.mem t s), by simp [runEvs, applyEv, hm], ?_⟩
  have := h.erase (Res.mem t s)
  simpa using this

/-- frame rule: resources that are not touched may be added -/
theorem applyEv_frame {L M : List Res} (e : Ev) (F : List Res) (h : applyEv L e = some M) :
    applyEv (L ++ F) e = some (M ++ F) := by
  cases e with
  | acq c k => simp only [applyEv, Option.some.injEq] at h ⊢; subst h; rfl
  | busy c k => simp only [applyEv, Option.some.injEq] at h ⊢; subst h; rfl
  | ins c k => simp only [applyEv, Option.some.injEq] at h ⊢; subst h; rfl
  | pread o b => simp only [applyEv, Option.some.injEq] at h ⊢; subst h; rfl
  | mmap o b => simp only [applyEv, Option.some.injEq] at h ⊢; subst h; rfl
  | discard c k =>
    simp only [applyEv] at h ⊢
    split at h
    · rename_i hm
      simp only [Option.some.injEq] at h; subst h
      rw [if_pos (List.mem_append_left _ hm), List.erase_append_left _ hm]
    · cases h
  | put c k =>
    simp only [applyEv] at h ⊢
    split at h
    · rename_i hm
      simp only [Option.some.injEq] at h; subst h
      rw [if_pos (List.mem_append_left _ hm), List.erase_append_left _ hm]
    · cases h
  | free t s =>
    simp only [applyEv] at h ⊢
    split at h
    · rename_i hm
      simp only [Option.some.injEq] at h; subst h
      rw [if_pos (List.mem_append_left _ hm), List.erase_append_left _ hm]
    · cases h
  | malloc t s b =>
    cases b with
    | true => simp only [applyEv, Option.some.injEq] at h ⊢; subst h; rfl
    | false => simp only [applyEv, Option.some.injEq] at h ⊢; subst h; rfl

theorem runEvs_frame {L M : List Res} (evs : List Ev) (F : List Res) (h : runEvs evs L = some M) :
    runEvs evs (L ++ F) = some (M ++ F) := by
  induction evs generalizing L with
  | nil => simp only [runEvs, Option.some.injEq] at h ⊢; subst h; rfl
  | cons e es ih =>
    simp only [runEvs] at h ⊢
    cases ha : applyEv L e with
    | none => simp [ha] at h
    | some N =>
      rw [ha] at h; rw [applyEv_frame e F ha]
      simp only [Option.bind_some] at h ⊢
      exact ih h

theorem Runs.frame {evs L L'} (h : Runs evs L L') (F : List Res) : Runs evs (L ++ F) (L' ++ F) := by
  obtain ⟨M, h1, h2⟩ := h
  exact ⟨M ++ F, runEvs_frame evs F h1, h2.append_right F⟩

/-! counting semantics -/

theorem count_erase_mem {r x : Res} {L : List Res} (h : x ∈ L) :
    (L.erase x).count r + (if r = x then 1 else 0) = L.count r := by
  induction L with
  | nil => cases h
  | cons a l ih =>
    by_cases hax : a = x
    · subst hax
      simp only [List.erase_cons_head, List.count_cons]
      by_cases hr : r = a
      · subst hr; simp
      · have : (a == r) = false := by simp [Ne.symm hr]
        simp [hr, this]
    · have hx : x ∈ l := by
        cases h with
        | head => exact absurd rfl hax
        | tail _ h' => exact h'
      have hne : (a == x) = false := by simp [hax]
      rw [List.erase_cons_tail (by simp [hax])]
      simp only [List.count_cons]
      have := ih hx
      omega

theorem applyEv_count {L M : List Res} (e : Ev) (r : Res) (h : applyEv L e = some M) :
    M.count r + gives r [e] = L.count r + takes r [e] := by
  cases e with
  | acq c k =>
    simp only [applyEv, Option.some.injEq] at h; subst h
    simp only [List.count_cons, gives, takes]
    by_cases hr : r = .pin c k
    · subst hr; simp
    · have : (Res.pin c k == r) = false := by simp [Ne.symm hr]
      simp [hr, this]
  | busy c k => simp only [applyEv, Option.some.injEq] at h; subst h; simp [gives, takes]
  | ins c k => simp only [applyEv, Option.some.injEq] at h; subst h; simp [gives, takes]
  | pread o b => simp only [applyEv, Option.some.injEq] at h; subst h; simp [gives, takes]
  | mmap o b => simp only [applyEv, Option.some.injEq] at h; subst h; simp [gives, takes]
  | discard c k =>
    simp only [applyEv] at h
    split at h
    · rename_i hm
      simp only [Option.some.injEq] at h; subst h
      have := count_erase_mem (r := r) hm
      simp only [gives, takes]; omega
    · cases h
  | put c k =>
    simp only [applyEv] at h
    split at h
    · rename_i hm
      simp only [Option.some.injEq] at h; subst h
      have := count_erase_mem (r := r) hm
      simp only [gives, takes]; omega
    · cases h
  | free t s =>
    simp only [applyEv] at h
    split at h
    · rename_i hm
      simp only [Option.some.injEq] at h; subst h
      have := count_erase_mem (r := r) hm
      simp only [gives, takes]; omega
    · cases h
  | malloc t s b =>
    cases b with
    | true =>
      simp only [applyEv, Option.some.injEq] at h; subst h
      simp only [List.count_cons, gives, takes]
      by_cases hr : r = .mem t s
      · subst hr; simp
      · have : (Res.mem t s == r) = false := by simp [Ne.symm hr]
        simp [hr, this]
    | false => simp only [applyEv, Option.some.injEq] at h; subst h; simp [gives, takes]

theorem takes_cons (r : Res) (e : Ev) (es : List Ev) : takes r (e :: es) = takes r [e] + takes r es := by
  cases e with
  | malloc t s b => cases b <;> simp [takes]
  | _ => simp [takes]

theorem gives_cons (r : Res) (e : Ev) (es : List Ev) : gives r (e :: es) = gives r [e] + gives r es := by
  cases e <;> simp [gives]

theorem runEvs_count {L M : List Res} (evs : List Ev) (r : Res) (h : runEvs evs L = some M) :
    M.count r + gives r evs = L.count r + takes r evs := by
  induction evs generalizing L with
  | nil => simp only [runEvs, Option.some.injEq] at h; subst h; simp [gives, takes]
  | cons e es ih =>
    simp only [runEvs] at h
    cases ha : applyEv L e with
    | none => simp [ha] at h
    | some N =>
      rw [ha] at h; simp only [Option.bind_some] at h
      have h1 := applyEv_count e r ha
      have h2 := ih h
      rw [takes_cons, gives_cons]; omega

theorem runEvs_prefix {L M : List Res} (a b : List Ev) (h : runEvs (a ++ b) L = some M) :
    ∃ N, runEvs a L = some N := by
  rw [runEvs_append] at h
  cases ha : runEvs a L with
  | none => simp [ha] at h
  | some N => exact ⟨N, rfl⟩

end Kdf.Lemmas.Res
