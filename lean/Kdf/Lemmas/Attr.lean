import Kdf.Model.Attr
/-! Helper lemmas for C13 (core Lean only). -/
namespace Kdf.Lemmas.Attr
open Kdf.Model.Attr

/-- Erase the `isset` flag (everything else of a node is what set/instantiate must preserve). -/
def strip (n : Node) : Node := { n with isset := false }

theorem find_map (ns : List Node) (g : Node → Node) (hg : ∀ n, (g n).id = n.id) (j : Nat) :
    find (ns.map g) j = (find ns j).map g := by
  unfold find
  rw [List.find?_map]
  have : ((fun n => n.id == j) ∘ g) = (fun n : Node => n.id == j) := by
    funext n; simp [Function.comp, hg]
  rw [this]

theorem find_id {ns : List Node} {j : Nat} {n : Node} (h : find ns j = some n) : n.id = j := by
  unfold find at h
  have := List.find?_some h
  simpa using this

theorem find_mem {ns : List Node} {j : Nat} {n : Node} (h : find ns j = some n) : n ∈ ns := by
  unfold find at h
  exact List.mem_of_find?_eq_some h

theorem find_upd (ns : List Node) (i : Nat) (f : Node → Node) (hf : ∀ n, (f n).id = n.id) (j : Nat) :
    find (upd ns i f) j = (find ns j).map (fun n => if n.id == i then f n else n) := by
  unfold upd
  apply find_map
  intro n
  by_cases h : n.id == i <;> simp [h, hf]

theorem find_upd_ne (ns : List Node) (i : Nat) (f : Node → Node) (hf : ∀ n, (f n).id = n.id) (j : Nat)
    (hij : j ≠ i) : find (upd ns i f) j = find ns j := by
  rw [find_upd ns i f hf j]
  cases h : find ns j with
  | none => rfl
  | some n =>
    have := find_id h
    simp [this, hij]

theorem find_upd_self (ns : List Node) (i : Nat) (f : Node → Node) (hf : ∀ n, (f n).id = n.id) :
    find (upd ns i f) i = (find ns i).map f := by
  rw [find_upd ns i f hf i]
  cases h : find ns i with
  | none => rfl
  | some n =>
    have := find_id h
    simp [this]

/-- instantiate_path changes nothing but `isset` flags. -/
theorem find_instantiate_strip (fuel : Nat) : ∀ (ns : List Node) (p : Option Nat) (j : Nat),
    (find (instantiate ns fuel p) j).map strip = (find ns j).map strip := by
  induction fuel with
  | zero => intro ns p j; simp [instantiate]
  | succ f ih =>
    intro ns p j
    cases p with
    | none => simp [instantiate]
    | some i =>
      simp only [instantiate]
      cases h : find ns i with
      | none => rfl
      | some n =>
        simp only
        by_cases hs : n.isset
        · simp [hs]
        · simp only [hs, Bool.false_eq_true, if_false]
          rw [ih]
          rw [find_upd ns i _ (by intro n; rfl) j]
          cases find ns j with
          | none => rfl
          | some m =>
            simp only [Option.map_some]
            by_cases hm : m.id == i <;> simp [hm, strip]

/-- instantiate_path never unsets anything. -/
theorem find_instantiate_isset (fuel : Nat) : ∀ (ns : List Node) (p : Option Nat) (j : Nat) (m : Node),
    find ns j = some m → m.isset = true →
    ∃ m', find (instantiate ns fuel p) j = some m' ∧ m'.isset = true := by
  induction fuel with
  | zero => intro ns p j m h hs; exact ⟨m, by simpa [instantiate] using h, hs⟩
  | succ f ih =>
    intro ns p j m h hs
    cases p with
    | none => exact ⟨m, by simpa [instantiate] using h, hs⟩
    | some i =>
      simp only [instantiate]
      cases hi : find ns i with
      | none => exact ⟨m, h, hs⟩
      | some n =>
        simp only
        by_cases hn : n.isset
        · simp only [hn, if_true]; exact ⟨m, h, hs⟩
        · simp only [hn, Bool.false_eq_true, if_false]
          apply ih _ _ _ (if m.id == i then { m with isset := true } else m)
          · rw [find_upd ns i _ (by intro n; rfl) j, h]; rfl
          · by_cases hm : m.id == i <;> simp [hm, hs]

theorem mem_foldl_filter {β : Type} (step : St → β → St)
    (hstep : ∀ s b, ∀ n ∈ (step s b).nodes, n ∈ s.nodes) :
    ∀ (l : List β) (s : St), ∀ n ∈ (l.foldl step s).nodes, n ∈ s.nodes := by
  intro l
  induction l with
  | nil => intro s n h; exact h
  | cons b bs ih =>
    intro s n h
    simp only [List.foldl_cons] at h
    exact hstep s b n (ih (step s b) n h)

theorem deallocBelow_sub (s : St) (a : Nat) : ∀ n ∈ (deallocBelow s a).nodes, n ∈ s.nodes := by
  intro n h
  simp only [deallocBelow] at h
  exact (List.mem_filter.mp h).1

theorem deallocVmci_sub (s : St) (d : Nat) : ∀ n ∈ (deallocVmci s d).nodes, n ∈ s.nodes := by
  unfold deallocVmci
  exact mem_foldl_filter (fun (s : St) (c : Node) => deallocBelow s c.id) (fun s c => deallocBelow_sub s c.id) _ s

theorem rawsweep_sub (l : List Node) (s : St) :
    ∀ n ∈ (l.foldl (fun s r => match r.parent with | some p => deallocVmci s p | none => s) s).nodes, n ∈ s.nodes := by
  apply mem_foldl_filter
  intro s r n h
  cases hp : r.parent with
  | none => simpa [hp] using h
  | some p => simp only [hp] at h; exact deallocVmci_sub s p n h

end Kdf.Lemmas.Attr
