import Kdf.Lemmas.Pfn
/-! `findRegion`: the binary-search invariant. -/
namespace Kdf.Lemmas.Pfn
open Kdf.Model.Pfn

/-- what `findRegion rs p` must return -/
def FindOK (rs : List Region) (p : Nat) : Option Region → Prop
  | some r => r ∈ rs ∧ p < r.pfn + r.cnt ∧ ∀ q ∈ rs, p < q.pfn + q.cnt → r.pfn ≤ q.pfn
  | none => ∀ q ∈ rs, q.pfn + q.cnt ≤ p

theorem sorted_get {rs : List Region} (h : RegionsSorted rs) (i j : Nat) (hi : i < rs.length)
    (hj : j < rs.length) (hij : i < j) : rs[i].pfn + rs[i].cnt ≤ rs[j].pfn :=
  (List.pairwise_iff_getElem.mp h.1) i j hi hj hij

theorem fgo_succ (rs : List Region) (pfn fuel left right : Nat) :
    findRegion.go rs pfn (fuel+1) left right =
      if left = right then rs[right]?
      else match rs[(left + right) / 2]? with
        | none => none
        | some r =>
          if pfn < r.pfn then findRegion.go rs pfn fuel left ((left + right) / 2)
          else if pfn ≥ r.pfn + r.cnt then findRegion.go rs pfn fuel ((left + right) / 2 + 1) right
          else some r := rfl

theorem fgo_spec (rs : List Region) (h : RegionsSorted rs) (p : Nat) :
    ∀ fuel left right, left ≤ right → right ≤ rs.length → right - left < fuel →
      (∀ i (hi : i < rs.length), i < left → rs[i].pfn + rs[i].cnt ≤ p) →
      (∀ i (hi : i < rs.length), right ≤ i → p < rs[i].pfn) →
      FindOK rs p (findRegion.go rs p fuel left right) := by
  intro fuel
  induction fuel with
  | zero => intro l r _ _ hf; omega
  | succ fuel ih =>
    intro left right hlr hrl hf hlo hhi
    rw [fgo_succ]
    split
    · rename_i heq
      subst heq
      by_cases hlt : left < rs.length
      · rw [List.getElem?_eq_getElem hlt]
        refine ⟨List.getElem_mem hlt, ?_, ?_⟩
        · have := hhi left hlt (Nat.le_refl _); omega
        · intro q hq hpq
          obtain ⟨k, hk, rfl⟩ := List.getElem_of_mem hq
          by_cases hkl : k < left
          · have := hlo k hk hkl; omega
          · by_cases hke : k = left
            · subst hke; exact Nat.le_refl _
            · have := sorted_get h left k hlt hk (by omega); omega
      · rw [List.getElem?_eq_none (by omega)]
        intro q hq
        obtain ⟨k, hk, rfl⟩ := List.getElem_of_mem hq
        exact hlo k hk (by omega)
    · rename_i hne
      have hmid : (left + right) / 2 < rs.length := by omega
      rw [List.getElem?_eq_getElem hmid]
      dsimp only
      generalize hm : (left + right) / 2 = mid at *
      split
      · rename_i hp
        apply ih left mid (by omega) (by omega) (by omega) hlo
        intro i hi hmi
        by_cases hie : i = mid
        · subst hie; exact hp
        · have := sorted_get h mid i hmid hi (by omega); omega
      · split
        · rename_i hp1 hp2
          apply ih (mid+1) right (by omega) hrl (by omega) _ hhi
          intro i hi hmi
          by_cases hie : i = mid
          · subst hie; omega
          · have := sorted_get h i mid hi hmid (by omega); omega
        · rename_i hp1 hp2
          refine ⟨List.getElem_mem hmid, by omega, ?_⟩
          intro q hq hpq
          obtain ⟨k, hk, rfl⟩ := List.getElem_of_mem hq
          by_cases hkl : k < mid
          · have := sorted_get h k mid hk hmid hkl; omega
          · by_cases hke : k = mid
            · subst hke; exact Nat.le_refl _
            · have := sorted_get h mid k hmid hk (by omega); omega

theorem findRegion_ok (rs : List Region) (h : RegionsSorted rs) (p : Nat) : FindOK rs p (findRegion rs p) := by
  unfold findRegion
  apply fgo_spec rs h p _ _ _ (Nat.zero_le _) (Nat.le_refl _) (by omega)
  · intro i hi h0; omega
  · intro i hi h0; omega

theorem findRegion_some {rs : List Region} (h : RegionsSorted rs) {p : Nat} {r : Region}
    (hr : findRegion rs p = some r) :
    r ∈ rs ∧ p < r.pfn + r.cnt ∧ ∀ q ∈ rs, p < q.pfn + q.cnt → r.pfn ≤ q.pfn := by
  have := findRegion_ok rs h p; rw [hr] at this; exact this

theorem findRegion_none {rs : List Region} (h : RegionsSorted rs) {p : Nat}
    (hr : findRegion rs p = none) : ∀ q ∈ rs, q.pfn + q.cnt ≤ p := by
  have := findRegion_ok rs h p; rw [hr] at this; exact this

end Kdf.Lemmas.Pfn
