import Kdf.Model.Cache
import Kdf.Lemmas.Cache
import Kdf.Lemmas.CacheList
/-!
Abstract view of the page-cache model (C06): the entry table as a function, the six
lists, and a generalised invariant `InvH` with

* a list `hl` of buffers currently owned by nobody (between `reclaim_data` stripping a
  buffer and the new owner receiving it),
* a list `fl` of entries currently on no list (between being taken out of the unused or a
  ghost partition and being put in flight),
* a flag `strict` that switches the field `inflight_ref` on or off.
-/
set_option linter.unusedSimpArgs false
namespace Kdf.Lemmas.Cache
open Kdf.Model.Cache Kdf.Lemmas.CacheList

structure St where
  cap : Nat
  ent : Nat → Entry
  U : List Nat
  GB : List Nat
  B : List Nat
  P : List Nat
  GP : List Nat
  F : List Nat

def abs (c : Cache) : St := ⟨c.cap, c.ent, c.U, c.GB, c.B, c.P, c.GP, c.F⟩

def St.setEnt (s : St) (i : Nat) (v : Entry) : St :=
  { s with ent := fun j => if j = i then v else s.ent j }

@[simp] theorem St.setEnt_cap (s : St) (i v) : (s.setEnt i v).cap = s.cap := rfl
@[simp] theorem St.setEnt_U (s : St) (i v) : (s.setEnt i v).U = s.U := rfl
@[simp] theorem St.setEnt_GB (s : St) (i v) : (s.setEnt i v).GB = s.GB := rfl
@[simp] theorem St.setEnt_B (s : St) (i v) : (s.setEnt i v).B = s.B := rfl
@[simp] theorem St.setEnt_P (s : St) (i v) : (s.setEnt i v).P = s.P := rfl
@[simp] theorem St.setEnt_GP (s : St) (i v) : (s.setEnt i v).GP = s.GP := rfl
@[simp] theorem St.setEnt_F (s : St) (i v) : (s.setEnt i v).F = s.F := rfl
theorem St.setEnt_ent (s : St) (i v j) : (s.setEnt i v).ent j = if j = i then v else s.ent j := rfl
@[simp] theorem St.setEnt_ent_self (s : St) (i v) : (s.setEnt i v).ent i = v := by simp [St.setEnt_ent]
theorem St.setEnt_ent_ne (s : St) {i j} (v) (h : j ≠ i) : (s.setEnt i v).ent j = s.ent j := by
  simp [St.setEnt_ent, h]

/-- generalised invariant, see the module doc -/
structure InvH (s : St) (hl fl : List Nat) (strict : Prop) : Prop where
  cap_pos : 0 < s.cap
  part : (s.U ++ s.GB ++ s.B ++ s.P ++ s.GP ++ s.F ++ fl).Perm (List.range (2 * s.cap))
  bufs : (hl ++ (List.range (2 * s.cap)).filterMap (fun i => (s.ent i).data)).Perm (List.range s.cap)
  live_data : ∀ i ∈ s.B ++ s.P ++ s.F, (s.ent i).data.isSome = true
  ghost_nodata : ∀ i ∈ s.GB ++ s.GP, (s.ent i).data = none
  u_shape : ∃ u1 u2, s.U = u1 ++ u2 ∧ (∀ i ∈ u1, (s.ent i).data = none) ∧
    (∀ i ∈ u2, (s.ent i).data.isSome = true)
  keys_inj : ∀ i ∈ s.B ++ s.P ++ s.F, ∀ j ∈ s.B ++ s.P ++ s.F, (s.ent i).key = (s.ent j).key → i = j
  cached_valid : ∀ i ∈ s.B ++ s.P, (s.ent i).state = .valid
  inflight_invalid : ∀ i ∈ s.F, (s.ent i).state ≠ .valid
  ref_live : ∀ i, i < 2 * s.cap → (s.ent i).refcnt ≠ 0 → i ∈ s.B ++ s.P ++ s.F
  inflight_ref : strict → ∀ i ∈ s.F, (s.ent i).refcnt ≠ 0

namespace InvH
variable {s : St} {hl fl : List Nat} {st : Prop}

theorem nodup (h : InvH s hl fl st) : (s.U ++ s.GB ++ s.B ++ s.P ++ s.GP ++ s.F ++ fl).Nodup :=
  (perm_range_iff.1 h.part).1

theorem mem (h : InvH s hl fl st) (i : Nat) :
    i ∈ s.U ++ s.GB ++ s.B ++ s.P ++ s.GP ++ s.F ++ fl ↔ i < 2 * s.cap :=
  (perm_range_iff.1 h.part).2 i

end InvH

/-- closes goals `l₁.Perm l₂` where both sides are built from the same atoms by `++` and `::` -/
macro "perm_tac" : tactic =>
  `(tactic| (simp only [List.perm_iff_count, List.count_append, List.count_cons, List.count_nil]; intro a; omega))

/-- discharges one membership-style field of `InvH` after the lists have been brought into
`++`/`::` form and `Nodup` has been unfolded into membership facts -/
macro "field_tac" : tactic =>
  `(tactic| ((try simp [St.setEnt_ent]) <;> grind))

set_option maxHeartbeats 400000 in
/-- `evict_probe` + stripping the buffer: `z` goes from `B` to the MRU end of `GB` -/
theorem InvH.evictB {s : St} {hl fl : List Nat} {st : Prop} (h : InvH s hl fl st) {z : Nat}
    (hz : z ∈ s.B) (hr : (s.ent z).refcnt = 0) :
    ∃ b, (s.ent z).data = some b ∧
      InvH (St.setEnt { s with B := s.B.erase z, GB := s.GB ++ [z] } z { s.ent z with data := none })
        (b :: hl) fl st := by
  obtain ⟨b1, b2, hzb1, hB, hBe⟩ := List.exists_erase_eq hz
  have hd := h.live_data z (by simp [hz])
  obtain ⟨b, hb⟩ := Option.isSome_iff_exists.1 hd
  refine ⟨b, hb, ?_⟩
  have hnd := h.nodup
  have hmem := h.mem
  obtain ⟨h1, h2, h3, h4, h5, h6, h7, h8, h9, h10, h11⟩ := h
  obtain ⟨cap, ent, U, GB, B, P, GP, F⟩ := s
  simp only at *
  subst hB
  rw [hBe]
  simp only [List.nodup_append, List.mem_append, List.nodup_cons, List.mem_cons] at hnd
  constructor
  · exact h1
  · refine List.Perm.trans ?_ h2
    simp only [St.setEnt_U, St.setEnt_GB, St.setEnt_B, St.setEnt_P, St.setEnt_GP, St.setEnt_F]
    perm_tac
  · refine bufs_strip List.nodup_range (z := z) ?_ hb ?_ ?_ h3
    · have := (hmem z).1 (by simp); simpa using this
    · simp
    · intro j hj; simp [St.setEnt_ent, hj]
  · clear h2 h3 hmem; field_tac
  · clear h2 h3 hmem; field_tac
  · clear h2 h3 hmem
    obtain ⟨u1, u2, rfl, hu1, hu2⟩ := h6
    refine ⟨u1, u2, rfl, ?_, ?_⟩ <;> field_tac
  · clear h2 h3 hmem; field_tac
  · clear h2 h3 hmem; field_tac
  · clear h2 h3 hmem; field_tac
  · clear h2 h3 hmem; field_tac
  · clear h2 h3 hmem; field_tac

set_option maxHeartbeats 400000 in
/-- `evict_prec` + stripping the buffer: `z` goes from `P` to the MRU end of `GP` -/
theorem InvH.evictP {s : St} {hl fl : List Nat} {st : Prop} (h : InvH s hl fl st) {z : Nat}
    (hz : z ∈ s.P) (hr : (s.ent z).refcnt = 0) :
    ∃ b, (s.ent z).data = some b ∧
      InvH (St.setEnt { s with P := s.P.erase z, GP := z :: s.GP } z { s.ent z with data := none })
        (b :: hl) fl st := by
  obtain ⟨b1, b2, hzb1, hB, hBe⟩ := List.exists_erase_eq hz
  have hd := h.live_data z (by simp [hz])
  obtain ⟨b, hb⟩ := Option.isSome_iff_exists.1 hd
  refine ⟨b, hb, ?_⟩
  have hnd := h.nodup
  have hmem := h.mem
  obtain ⟨h1, h2, h3, h4, h5, h6, h7, h8, h9, h10, h11⟩ := h
  obtain ⟨cap, ent, U, GB, B, P, GP, F⟩ := s
  simp only at *
  subst hB
  rw [hBe]
  simp only [List.nodup_append, List.mem_append, List.nodup_cons, List.mem_cons] at hnd
  constructor
  · exact h1
  · refine List.Perm.trans ?_ h2
    simp only [St.setEnt_U, St.setEnt_GB, St.setEnt_B, St.setEnt_P, St.setEnt_GP, St.setEnt_F]
    perm_tac
  · refine bufs_strip List.nodup_range (z := z) ?_ hb ?_ ?_ h3
    · have := (hmem z).1 (by simp); simpa using this
    · simp
    · intro j hj; simp [St.setEnt_ent, hj]
  · clear h2 h3 hmem; field_tac
  · clear h2 h3 hmem; field_tac
  · clear h2 h3 hmem
    obtain ⟨u1, u2, rfl, hu1, hu2⟩ := h6
    refine ⟨u1, u2, rfl, ?_, ?_⟩ <;> field_tac
  · clear h2 h3 hmem; field_tac
  · clear h2 h3 hmem; field_tac
  · clear h2 h3 hmem; field_tac
  · clear h2 h3 hmem; field_tac
  · clear h2 h3 hmem; field_tac

set_option maxHeartbeats 400000 in
/-- `reclaim_data` from the unused partition: the first buffer-holding unused entry `d`
loses its buffer -/
theorem InvH.donor {s : St} {hl fl : List Nat} {st : Prop} (h : InvH s hl fl st) {d : Nat}
    {u1 u2 : List Nat} (hU : s.U = u1 ++ d :: u2) (hu1 : ∀ i ∈ u1, (s.ent i).data = none)
    (hu2 : ∀ i ∈ d :: u2, (s.ent i).data.isSome = true) :
    ∃ b, (s.ent d).data = some b ∧
      InvH (s.setEnt d { s.ent d with data := none }) (b :: hl) fl st := by
  have hd := hu2 d (by simp)
  obtain ⟨b, hb⟩ := Option.isSome_iff_exists.1 hd
  refine ⟨b, hb, ?_⟩
  have hnd := h.nodup
  have hmem := h.mem
  obtain ⟨h1, h2, h3, h4, h5, h6, h7, h8, h9, h10, h11⟩ := h
  obtain ⟨cap, ent, U, GB, B, P, GP, F⟩ := s
  simp only at *
  subst hU
  simp only [List.nodup_append, List.mem_append, List.nodup_cons, List.mem_cons] at hnd
  constructor
  · exact h1
  · exact h2
  · refine bufs_strip List.nodup_range (z := d) ?_ hb ?_ ?_ h3
    · have := (hmem d).1 (by simp); simpa using this
    · simp
    · intro j hj; simp [St.setEnt_ent, hj]
  · clear h2 h3 hmem h6; field_tac
  · clear h2 h3 hmem h6; field_tac
  · clear h2 h3 hmem h6
    refine ⟨u1 ++ [d], u2, by simp, ?_, ?_⟩ <;> field_tac
  · clear h2 h3 hmem h6; field_tac
  · clear h2 h3 hmem h6; field_tac
  · clear h2 h3 hmem h6; field_tac
  · clear h2 h3 hmem h6; field_tac
  · clear h2 h3 hmem h6; field_tac

set_option maxHeartbeats 400000 in
/-- the last unused entry is taken off the ring -/
theorem InvH.floatU {s : St} {hl fl : List Nat} {st : Prop} (h : InvH s hl fl st) {e : Nat}
    {U' : List Nat} (hU : s.U = U' ++ [e]) :
    InvH { s with U := U' } hl (e :: fl) st := by
  have hnd := h.nodup
  have hmem := h.mem
  obtain ⟨h1, h2, h3, h4, h5, h6, h7, h8, h9, h10, h11⟩ := h
  obtain ⟨cap, ent, U, GB, B, P, GP, F⟩ := s
  simp only at *
  subst hU
  simp only [List.nodup_append, List.mem_append, List.nodup_cons, List.mem_cons] at hnd
  constructor
  · exact h1
  · refine List.Perm.trans ?_ h2
    simp only [St.setEnt_U, St.setEnt_GB, St.setEnt_B, St.setEnt_P, St.setEnt_GP, St.setEnt_F]
    perm_tac
  · exact h3
  · clear h2 h3 hmem; field_tac
  · clear h2 h3 hmem; field_tac
  · clear h2 h3 hmem
    obtain ⟨u1, u2, hU, hu1, hu2⟩ := h6
    rcases List.eq_nil_or_concat u2 with rfl | ⟨u2', x, rfl⟩
    · refine ⟨U', [], by simp, ?_, by simp⟩
      simp only [List.append_nil] at hU
      subst hU
      intro i hi; exact hu1 i (by simp [hi])
    · simp only [List.concat_eq_append, ← List.append_assoc] at hU
      have := List.append_inj' hU rfl
      obtain ⟨rfl, hx⟩ := this
      refine ⟨u1, u2', rfl, hu1, ?_⟩
      intro i hi; exact hu2 i (by simp [hi])
  · clear h2 h3 hmem; field_tac
  · clear h2 h3 hmem; field_tac
  · clear h2 h3 hmem; field_tac
  · clear h2 h3 hmem; field_tac
  · clear h2 h3 hmem; field_tac

set_option maxHeartbeats 400000 in
/-- a ghost probed entry is taken off the ring -/
theorem InvH.floatGB {s : St} {hl fl : List Nat} {st : Prop} (h : InvH s hl fl st) {e : Nat}
    {g1 g2 : List Nat} (hG : s.GB = g1 ++ e :: g2) :
    InvH { s with GB := g1 ++ g2 } hl (e :: fl) st := by
  have hnd := h.nodup
  have hmem := h.mem
  obtain ⟨h1, h2, h3, h4, h5, h6, h7, h8, h9, h10, h11⟩ := h
  obtain ⟨cap, ent, U, GB, B, P, GP, F⟩ := s
  simp only at *
  subst hG
  simp only [List.nodup_append, List.mem_append, List.nodup_cons, List.mem_cons] at hnd
  constructor
  · exact h1
  · refine List.Perm.trans ?_ h2
    simp only [St.setEnt_U, St.setEnt_GB, St.setEnt_B, St.setEnt_P, St.setEnt_GP, St.setEnt_F]
    perm_tac
  · exact h3
  · clear h2 h3 hmem; field_tac
  · clear h2 h3 hmem; field_tac
  · clear h2 h3 hmem
    obtain ⟨u1, u2, rfl, hu1, hu2⟩ := h6
    refine ⟨u1, u2, rfl, ?_, ?_⟩ <;> field_tac
  · clear h2 h3 hmem; field_tac
  · clear h2 h3 hmem; field_tac
  · clear h2 h3 hmem; field_tac
  · clear h2 h3 hmem; field_tac
  · clear h2 h3 hmem; field_tac

set_option maxHeartbeats 400000 in
/-- a ghost precious entry is taken off the ring -/
theorem InvH.floatGP {s : St} {hl fl : List Nat} {st : Prop} (h : InvH s hl fl st) {e : Nat}
    {g1 g2 : List Nat} (hG : s.GP = g1 ++ e :: g2) :
    InvH { s with GP := g1 ++ g2 } hl (e :: fl) st := by
  have hnd := h.nodup
  have hmem := h.mem
  obtain ⟨h1, h2, h3, h4, h5, h6, h7, h8, h9, h10, h11⟩ := h
  obtain ⟨cap, ent, U, GB, B, P, GP, F⟩ := s
  simp only at *
  subst hG
  simp only [List.nodup_append, List.mem_append, List.nodup_cons, List.mem_cons] at hnd
  constructor
  · exact h1
  · refine List.Perm.trans ?_ h2
    simp only [St.setEnt_U, St.setEnt_GB, St.setEnt_B, St.setEnt_P, St.setEnt_GP, St.setEnt_F]
    perm_tac
  · exact h3
  · clear h2 h3 hmem; field_tac
  · clear h2 h3 hmem; field_tac
  · clear h2 h3 hmem
    obtain ⟨u1, u2, rfl, hu1, hu2⟩ := h6
    refine ⟨u1, u2, rfl, ?_, ?_⟩ <;> field_tac
  · clear h2 h3 hmem; field_tac
  · clear h2 h3 hmem; field_tac
  · clear h2 h3 hmem; field_tac
  · clear h2 h3 hmem; field_tac
  · clear h2 h3 hmem; field_tac

set_option maxHeartbeats 400000 in
/-- an entry that is on no list receives an unowned buffer -/
theorem InvH.fill {s : St} {hl fl : List Nat} {st : Prop} {b e : Nat} (h : InvH s (b :: hl) (e :: fl) st)
    (hd : (s.ent e).data = none) :
    InvH (s.setEnt e { s.ent e with data := some b }) hl (e :: fl) st := by
  have hnd := h.nodup
  have hmem := h.mem
  obtain ⟨h1, h2, h3, h4, h5, h6, h7, h8, h9, h10, h11⟩ := h
  obtain ⟨cap, ent, U, GB, B, P, GP, F⟩ := s
  simp only at *
  simp only [List.nodup_append, List.mem_append, List.nodup_cons, List.mem_cons] at hnd
  constructor
  · exact h1
  · exact h2
  · refine bufs_fill List.nodup_range (e := e) ?_ hd ?_ ?_ h3
    · have := (hmem e).1 (by simp); simpa using this
    · simp
    · intro j hj; simp [St.setEnt_ent, hj]
  · clear h2 h3 hmem; field_tac
  · clear h2 h3 hmem; field_tac
  · clear h2 h3 hmem
    obtain ⟨u1, u2, rfl, hu1, hu2⟩ := h6
    refine ⟨u1, u2, rfl, ?_, ?_⟩ <;> field_tac
  · clear h2 h3 hmem; field_tac
  · clear h2 h3 hmem; field_tac
  · clear h2 h3 hmem; field_tac
  · clear h2 h3 hmem; field_tac
  · clear h2 h3 hmem; field_tac

set_option maxHeartbeats 400000 in
/-- an entry that is on no list and owns a buffer goes in flight with a fresh key -/
theorem InvH.launch {s : St} {hl fl : List Nat} {st : Prop} {e : Nat} (h : InvH s hl (e :: fl) st)
    {v : Entry} (hd : (s.ent e).data.isSome = true) (hvd : v.data = (s.ent e).data)
    (hvs : v.state ≠ .valid) (hvr : v.refcnt ≠ 0)
    (hvk : ∀ i ∈ s.B ++ s.P ++ s.F, (s.ent i).key ≠ v.key) :
    InvH (St.setEnt { s with F := s.F ++ [e] } e v) hl fl st := by
  have hnd := h.nodup
  have hmem := h.mem
  obtain ⟨h1, h2, h3, h4, h5, h6, h7, h8, h9, h10, h11⟩ := h
  obtain ⟨cap, ent, U, GB, B, P, GP, F⟩ := s
  simp only at *
  simp only [List.nodup_append, List.mem_append, List.nodup_cons, List.mem_cons] at hnd
  constructor
  · exact h1
  · refine List.Perm.trans ?_ h2
    simp only [St.setEnt_U, St.setEnt_GB, St.setEnt_B, St.setEnt_P, St.setEnt_GP, St.setEnt_F]
    perm_tac
  · refine bufs_same ?_ h3
    intro j hj; simp only [St.setEnt_ent]; split <;> simp_all
  · clear h2 h3 hmem; field_tac
  · clear h2 h3 hmem; field_tac
  · clear h2 h3 hmem
    obtain ⟨u1, u2, rfl, hu1, hu2⟩ := h6
    refine ⟨u1, u2, rfl, ?_, ?_⟩ <;> field_tac
  · clear h2 h3 hmem; field_tac
  · clear h2 h3 hmem; field_tac
  · clear h2 h3 hmem; field_tac
  · clear h2 h3 hmem; field_tac
  · clear h2 h3 hmem; field_tac

set_option maxHeartbeats 400000 in
/-- changing reference count and (non-)validity-preserving state of one entry -/
theorem InvH.update {s : St} {hl fl : List Nat} {st : Prop} {e : Nat} (h : InvH s hl fl st)
    {v : Entry} (hvd : v.data = (s.ent e).data) (hvk : v.key = (s.ent e).key)
    (hvs : v.state = .valid ↔ (s.ent e).state = .valid)
    (hvr : v.refcnt ≠ 0 → e < 2 * s.cap → e ∈ s.B ++ s.P ++ s.F)
    (hvf : st → e ∈ s.F → v.refcnt ≠ 0) :
    InvH (s.setEnt e v) hl fl st := by
  have hnd := h.nodup
  have hmem := h.mem
  obtain ⟨h1, h2, h3, h4, h5, h6, h7, h8, h9, h10, h11⟩ := h
  obtain ⟨cap, ent, U, GB, B, P, GP, F⟩ := s
  simp only at *
  simp only [List.nodup_append, List.mem_append, List.nodup_cons, List.mem_cons] at hnd
  constructor
  · exact h1
  · exact h2
  · refine bufs_same ?_ h3
    intro j hj; simp only [St.setEnt_ent]; split <;> simp_all
  · clear h2 h3 hmem; field_tac
  · clear h2 h3 hmem; field_tac
  · clear h2 h3 hmem
    obtain ⟨u1, u2, rfl, hu1, hu2⟩ := h6
    refine ⟨u1, u2, rfl, ?_, ?_⟩ <;> field_tac
  · clear h2 h3 hmem; field_tac
  · clear h2 h3 hmem; field_tac
  · clear h2 h3 hmem; field_tac
  · clear h2 h3 hmem; field_tac
  · clear h2 h3 hmem; field_tac

set_option maxHeartbeats 400000 in
/-- hit on a precious entry: it moves to the MRU position of `P` -/
theorem InvH.hitP {s : St} {hl fl : List Nat} {st : Prop} {e : Nat} (h : InvH s hl fl st)
    (he : e ∈ s.P) : InvH { s with P := e :: s.P.erase e } hl fl st := by
  obtain ⟨b1, b2, hzb1, hB, hBe⟩ := List.exists_erase_eq he
  have hnd := h.nodup
  have hmem := h.mem
  obtain ⟨h1, h2, h3, h4, h5, h6, h7, h8, h9, h10, h11⟩ := h
  obtain ⟨cap, ent, U, GB, B, P, GP, F⟩ := s
  simp only at *
  subst hB
  rw [hBe]
  simp only [List.nodup_append, List.mem_append, List.nodup_cons, List.mem_cons] at hnd
  constructor
  · exact h1
  · refine List.Perm.trans ?_ h2
    simp only [St.setEnt_U, St.setEnt_GB, St.setEnt_B, St.setEnt_P, St.setEnt_GP, St.setEnt_F]
    perm_tac
  · exact h3
  · clear h2 h3 hmem; field_tac
  · clear h2 h3 hmem; field_tac
  · clear h2 h3 hmem
    obtain ⟨u1, u2, rfl, hu1, hu2⟩ := h6
    refine ⟨u1, u2, rfl, ?_, ?_⟩ <;> field_tac
  · clear h2 h3 hmem; field_tac
  · clear h2 h3 hmem; field_tac
  · clear h2 h3 hmem; field_tac
  · clear h2 h3 hmem; field_tac
  · clear h2 h3 hmem; field_tac

set_option maxHeartbeats 400000 in
/-- hit on a probed entry: it becomes the MRU precious entry -/
theorem InvH.hitB {s : St} {hl fl : List Nat} {st : Prop} {e : Nat} (h : InvH s hl fl st)
    (he : e ∈ s.B) : InvH { s with B := s.B.erase e, P := e :: s.P } hl fl st := by
  obtain ⟨b1, b2, hzb1, hB, hBe⟩ := List.exists_erase_eq he
  have hnd := h.nodup
  have hmem := h.mem
  obtain ⟨h1, h2, h3, h4, h5, h6, h7, h8, h9, h10, h11⟩ := h
  obtain ⟨cap, ent, U, GB, B, P, GP, F⟩ := s
  simp only at *
  subst hB
  rw [hBe]
  simp only [List.nodup_append, List.mem_append, List.nodup_cons, List.mem_cons] at hnd
  constructor
  · exact h1
  · refine List.Perm.trans ?_ h2
    simp only [St.setEnt_U, St.setEnt_GB, St.setEnt_B, St.setEnt_P, St.setEnt_GP, St.setEnt_F]
    perm_tac
  · exact h3
  · clear h2 h3 hmem; field_tac
  · clear h2 h3 hmem; field_tac
  · clear h2 h3 hmem
    obtain ⟨u1, u2, rfl, hu1, hu2⟩ := h6
    refine ⟨u1, u2, rfl, ?_, ?_⟩ <;> field_tac
  · clear h2 h3 hmem; field_tac
  · clear h2 h3 hmem; field_tac
  · clear h2 h3 hmem; field_tac
  · clear h2 h3 hmem; field_tac
  · clear h2 h3 hmem; field_tac

set_option maxHeartbeats 400000 in
/-- `cache_insert` of an in-flight probe entry -/
theorem InvH.insertB {s : St} {hl fl : List Nat} {st : Prop} {e : Nat} (h : InvH s hl fl st)
    (he : e ∈ s.F) :
    InvH (St.setEnt { s with F := s.F.erase e, B := s.B ++ [e] } e { s.ent e with state := .valid })
      hl fl st := by
  obtain ⟨b1, b2, hzb1, hB, hBe⟩ := List.exists_erase_eq he
  have hnd := h.nodup
  have hmem := h.mem
  obtain ⟨h1, h2, h3, h4, h5, h6, h7, h8, h9, h10, h11⟩ := h
  obtain ⟨cap, ent, U, GB, B, P, GP, F⟩ := s
  simp only at *
  subst hB
  rw [hBe]
  simp only [List.nodup_append, List.mem_append, List.nodup_cons, List.mem_cons] at hnd
  constructor
  · exact h1
  · refine List.Perm.trans ?_ h2
    simp only [St.setEnt_U, St.setEnt_GB, St.setEnt_B, St.setEnt_P, St.setEnt_GP, St.setEnt_F]
    perm_tac
  · refine bufs_same ?_ h3
    intro j hj; simp only [St.setEnt_ent]; split <;> simp_all
  · clear h2 h3 hmem; field_tac
  · clear h2 h3 hmem; field_tac
  · clear h2 h3 hmem
    obtain ⟨u1, u2, rfl, hu1, hu2⟩ := h6
    refine ⟨u1, u2, rfl, ?_, ?_⟩ <;> field_tac
  · clear h2 h3 hmem; field_tac
  · clear h2 h3 hmem; field_tac
  · clear h2 h3 hmem; field_tac
  · clear h2 h3 hmem; field_tac
  · clear h2 h3 hmem; field_tac

set_option maxHeartbeats 400000 in
/-- `cache_insert` of an in-flight precious entry -/
theorem InvH.insertP {s : St} {hl fl : List Nat} {st : Prop} {e : Nat} (h : InvH s hl fl st)
    (he : e ∈ s.F) :
    InvH (St.setEnt { s with F := s.F.erase e, P := e :: s.P } e { s.ent e with state := .valid })
      hl fl st := by
  obtain ⟨b1, b2, hzb1, hB, hBe⟩ := List.exists_erase_eq he
  have hnd := h.nodup
  have hmem := h.mem
  obtain ⟨h1, h2, h3, h4, h5, h6, h7, h8, h9, h10, h11⟩ := h
  obtain ⟨cap, ent, U, GB, B, P, GP, F⟩ := s
  simp only at *
  subst hB
  rw [hBe]
  simp only [List.nodup_append, List.mem_append, List.nodup_cons, List.mem_cons] at hnd
  constructor
  · exact h1
  · refine List.Perm.trans ?_ h2
    simp only [St.setEnt_U, St.setEnt_GB, St.setEnt_B, St.setEnt_P, St.setEnt_GP, St.setEnt_F]
    perm_tac
  · refine bufs_same ?_ h3
    intro j hj; simp only [St.setEnt_ent]; split <;> simp_all
  · clear h2 h3 hmem; field_tac
  · clear h2 h3 hmem; field_tac
  · clear h2 h3 hmem
    obtain ⟨u1, u2, rfl, hu1, hu2⟩ := h6
    refine ⟨u1, u2, rfl, ?_, ?_⟩ <;> field_tac
  · clear h2 h3 hmem; field_tac
  · clear h2 h3 hmem; field_tac
  · clear h2 h3 hmem; field_tac
  · clear h2 h3 hmem; field_tac
  · clear h2 h3 hmem; field_tac

set_option maxHeartbeats 400000 in
/-- `cache_discard` dropping the last reference of an in-flight entry -/
theorem InvH.discardF {s : St} {hl fl : List Nat} {st : Prop} {e : Nat} (h : InvH s hl fl st)
    (he : e ∈ s.F) :
    InvH (St.setEnt { s with F := s.F.erase e, U := s.U ++ [e] } e { s.ent e with refcnt := 0 })
      hl fl st := by
  obtain ⟨b1, b2, hzb1, hB, hBe⟩ := List.exists_erase_eq he
  have hnd := h.nodup
  have hmem := h.mem
  obtain ⟨h1, h2, h3, h4, h5, h6, h7, h8, h9, h10, h11⟩ := h
  obtain ⟨cap, ent, U, GB, B, P, GP, F⟩ := s
  simp only at *
  subst hB
  rw [hBe]
  simp only [List.nodup_append, List.mem_append, List.nodup_cons, List.mem_cons] at hnd
  constructor
  · exact h1
  · refine List.Perm.trans ?_ h2
    simp only [St.setEnt_U, St.setEnt_GB, St.setEnt_B, St.setEnt_P, St.setEnt_GP, St.setEnt_F]
    perm_tac
  · refine bufs_same ?_ h3
    intro j hj; simp only [St.setEnt_ent]; split <;> simp_all
  · clear h2 h3 hmem; field_tac
  · clear h2 h3 hmem; field_tac
  · clear h2 h3 hmem
    obtain ⟨u1, u2, rfl, hu1, hu2⟩ := h6
    refine ⟨u1, u2 ++ [e], by simp, ?_, ?_⟩ <;> field_tac
  · clear h2 h3 hmem; field_tac
  · clear h2 h3 hmem; field_tac
  · clear h2 h3 hmem; field_tac
  · clear h2 h3 hmem; field_tac
  · clear h2 h3 hmem; field_tac

end Kdf.Lemmas.Cache
