import Kdf.Lemmas.Pgt
/-! Helper lemmas for C02: `pgt_huge_page`, monotonicity of `remain`, launch/step vs. walk. -/
namespace Kdf.Lemmas.Pgt
open Kdf.Model.Pgt Kdf.Spec.ArchWalk Kdf.Model.PgtArch

/-! ## `hugePage` -/

theorem hugePage_eq (pf : PagingForm) (s : Step) :
    hugePage pf s =
      { s with remain := (hugePage.go pf s s.remain s.remain 0).1, elemsz := 1,
               idx := s.idx.set 0 (s.idx.getD 0 0 ||| (hugePage.go pf s s.remain s.remain 0).2) } := by
  rfl

theorem hugePage_go_remain (pf : PagingForm) (s : Step) (fuel k off : Nat) :
    (hugePage.go pf s fuel k off).1 ≤ k ∧ (1 ≤ k → 1 ≤ (hugePage.go pf s fuel k off).1) := by
  induction fuel generalizing k off with
  | zero => simp [hugePage.go]
  | succ fuel ih =>
    unfold hugePage.go
    by_cases hk : k > 1
    · simp only [hk, if_true]
      have := ih (k-1) (((off ||| s.idx.getD (k-1) 0) * 2^(fieldAt pf (k-1-1))) % W)
      constructor
      · omega
      · intro _; exact this.2 (by omega)
    · simp only [hk, if_false]
      exact ⟨Nat.le_refl _, fun h => h⟩

theorem hugePage_remain (pf : PagingForm) (s : Step) :
    (hugePage pf s).remain ≤ s.remain ∧ (1 ≤ s.remain → 1 ≤ (hugePage pf s).remain) := by
  rw [hugePage_eq]
  exact hugePage_go_remain pf s s.remain s.remain 0

theorem hugePage_go_fold (pf : PagingForm) (s : Step) (va r : Nat)
    (hidx : ∀ i, 1 ≤ i → i < r →
      s.idx.getD i 0 = va / 2^(spanBits pf.fieldsz i) % 2^(pf.fieldsz.getD i 0))
    (hspan : spanBits pf.fieldsz r ≤ 64) :
    ∀ fuel k off, k ≤ fuel → 1 ≤ k → k ≤ r →
      off = va % 2^(spanBits pf.fieldsz r) / 2^(spanBits pf.fieldsz k) * 2^(fieldAt pf (k-1)) →
      hugePage.go pf s fuel k off =
        (1, va % 2^(spanBits pf.fieldsz r) / 2^(fieldAt pf 0) * 2^(fieldAt pf 0)) := by
  intro fuel
  induction fuel with
  | zero => intro k off h1 h2; omega
  | succ fuel ih =>
    intro k off hk h1 hkr hoff
    unfold hugePage.go
    by_cases hk1 : k > 1
    · simp only [hk1, if_true]
      obtain ⟨j, rfl⟩ : ∃ j, k = j + 2 := ⟨k - 2, by omega⟩
      apply ih (j + 2 - 1) _ (by omega) (by omega) (by omega)
      have e1 : j + 2 - 1 = j + 1 := by omega
      have e2 : j + 1 - 1 = j := by omega
      rw [e1] at hoff
      rw [e1, e2]
      have hs2 : spanBits pf.fieldsz (j+2) = spanBits pf.fieldsz (j+1) + pf.fieldsz.getD (j+1) 0 :=
        spanBits_succ _ _
      have hs1 : spanBits pf.fieldsz (j+1) = spanBits pf.fieldsz j + pf.fieldsz.getD j 0 :=
        spanBits_succ _ _
      have hm : spanBits pf.fieldsz (j+2) ≤ spanBits pf.fieldsz r := spanBits_mono _ hkr
      have hi := hidx (j+1) (by omega) (by omega)
      have hlt : s.idx.getD (j+1) 0 < 2^(pf.fieldsz.getD (j+1) 0) := by
        rw [hi]; exact Nat.mod_lt _ (Nat.two_pow_pos _)
      have hf : fieldAt pf (j+1) = pf.fieldsz.getD (j+1) 0 := rfl
      have hf' : fieldAt pf j = pf.fieldsz.getD j 0 := rfl
      rw [hoff, hf, or_eq_add _ _ _ hlt, hi, hs2, fold_step _ _ _ _ (by omega), hf', hs1]
      apply Nat.mod_eq_of_lt
      have h1 := div_pow_add_mul_le (va % 2^(spanBits pf.fieldsz r)) (spanBits pf.fieldsz j)
        (pf.fieldsz.getD j 0)
      have h2 : va % 2^(spanBits pf.fieldsz r) < 2^(spanBits pf.fieldsz r) :=
        Nat.mod_lt _ (Nat.two_pow_pos _)
      have h3 : (2:Nat)^(spanBits pf.fieldsz r) ≤ 2^64 := Nat.pow_le_pow_right (by decide) hspan
      have hW : W = 2^64 := rfl
      omega
    · simp only [hk1, if_false]
      have : k = 1 := by omega
      subst this
      rw [hoff, spanBits_one]
      rfl

theorem getD_set_zero (l : List Nat) (v : Nat) (h : 0 < l.length) : (l.set 0 v).getD 0 0 = v := by
  cases l with
  | nil => simp at h
  | cons a as => simp

theorem getD_set_succ (l : List Nat) (v i : Nat) : (l.set 0 v).getD (i+1) 0 = l.getD (i+1) 0 := by
  cases l with
  | nil => simp
  | cons a as => simp

/-- index invariant: the index array still holds the split of `va` -/
structure IdxInv (fields : List Nat) (va : Nat) (s : Step) : Prop where
  nonempty : 0 < s.idx.length
  val : ∀ i, i < fields.length → idxAt s i = va / 2^(spanBits fields i) % 2^(fields.getD i 0)

theorem hugePage_spec (pf : PagingForm) (s : Step) (va r : Nat) (hr : s.remain = r) (hr1 : 1 ≤ r)
    (hrn : r ≤ pf.fieldsz.length) (hinv : IdxInv pf.fieldsz va s)
    (hspan : spanBits pf.fieldsz r ≤ 64) :
    (hugePage pf s).remain = 1 ∧ (hugePage pf s).elemsz = 1 ∧ (hugePage pf s).base = s.base ∧
      idxAt (hugePage pf s) 0 = va % 2^(spanBits pf.fieldsz r) := by
  have hgo := hugePage_go_fold pf s va r
    (fun i _ hi => hinv.val i (by omega)) hspan r r 0 (Nat.le_refl _) hr1 (Nat.le_refl _)
    (by rw [Nat.div_eq_of_lt (Nat.mod_lt _ (Nat.two_pow_pos _))]; simp)
  rw [hugePage_eq, hr, hgo]
  refine ⟨rfl, rfl, rfl, ?_⟩
  show (s.idx.set 0 _).getD 0 0 = _
  rw [getD_set_zero _ _ hinv.nonempty]
  have h0 : s.idx.getD 0 0 = va % 2^(fieldAt pf 0) := by
    have := hinv.val 0 (by omega)
    simpa [idxAt, spanBits_zero, fieldAt] using this
  have hle : fieldAt pf 0 ≤ spanBits pf.fieldsz r := by
    have := spanBits_mono pf.fieldsz hr1
    rw [spanBits_one] at this; exact this
  rw [h0, or_eq_add' _ _ _ (Nat.mod_lt _ (Nat.two_pow_pos _)),
    ← mod_mod_pow va _ _ hle]
  have := Nat.div_add_mod (va % 2^(spanBits pf.fieldsz r)) (2^(fieldAt pf 0))
  rw [Nat.mul_comm] at this
  exact this

/-! ## `next_step` never increases `remain` and keeps it positive -/

def RemOK (s s2 : Step) : Prop := 1 ≤ s.remain → 1 ≤ s2.remain ∧ s2.remain ≤ s.remain

theorem remOK_refl (s s' : Step) (h : s'.remain = s.remain) : RemOK s s' := by
  intro h1; rw [h]; exact ⟨h1, Nat.le_refl _⟩

theorem remOK_huge (pf : PagingForm) (s s' : Step) (h : s'.remain = s.remain) :
    RemOK s (hugePage pf s') := by
  intro h1
  have := hugePage_remain pf s'
  rw [h] at this
  exact ⟨this.2 h1, this.1⟩

theorem leafOrTable_remain (s : Step) (t a : Nat) : (leafOrTable s t a).remain = s.remain := by
  unfold leafOrTable; split <;> rfl

theorem remOK_lot (s s' : Step) (t a : Nat) (h : s'.remain = s.remain) :
    RemOK s (leafOrTable s' t a) := by
  apply remOK_refl; rw [leafOrTable_remain, h]

macro "remain_tac" h:ident : tactic => `(tactic|
  (simp only [bind, Except.bind, pure, Except.pure, throw, throwThe, MonadExceptOf.throw] at $h:ident
   repeat' split at $h:ident
   all_goals (cases $h:ident <;>
     first | exact remOK_huge _ _ _ rfl | exact remOK_lot _ _ _ _ rfl | exact remOK_refl _ _ rfl)))

theorem pgtX86_64_remain (mem : Mem) (t pm : Nat) (pf : PagingForm) (s s2 : Step)
    (h : pgtX86_64 mem t pm pf s = .ok s2) : RemOK s s2 := by
  unfold pgtX86_64 readPte at h
  cases hm : mem s.base.as s.base.addr 8 with
  | error e => rw [hm] at h; cases h
  | ok v => rw [hm] at h; remain_tac h

theorem pgtIa32_remain (mem : Mem) (t pm : Nat) (pf : PagingForm) (s s2 : Step)
    (h : pgtIa32 mem t pm pf s = .ok s2) : RemOK s s2 := by
  unfold pgtIa32 readPte at h
  cases hm : mem s.base.as s.base.addr 4 with
  | error e => rw [hm] at h; cases h
  | ok v => rw [hm] at h; remain_tac h

theorem pgtIa32Pae_remain (mem : Mem) (t pm : Nat) (pf : PagingForm) (s s2 : Step)
    (h : pgtIa32Pae mem t pm pf s = .ok s2) : RemOK s s2 := by
  unfold pgtIa32Pae readPte at h
  cases hm : mem s.base.as s.base.addr 8 with
  | error e => rw [hm] at h; cases h
  | ok v => rw [hm] at h; remain_tac h

theorem pgtRiscv64_remain (mem : Mem) (t pm : Nat) (pf : PagingForm) (s s2 : Step)
    (h : pgtRiscv64 mem t pm pf s = .ok s2) : RemOK s s2 := by
  unfold pgtRiscv64 readPte at h
  cases hm : mem s.base.as s.base.addr 8 with
  | error e => rw [hm] at h; cases h
  | ok v => rw [hm] at h; remain_tac h

theorem pgtPfn_remain (mem : Mem) (sz t pm : Nat) (pf : PagingForm) (s s2 : Step)
    (h : pgtPfn mem sz t pm pf s = .ok s2) : RemOK s s2 := by
  unfold pgtPfn readPte at h
  cases hm : mem s.base.as s.base.addr sz with
  | error e => rw [hm] at h; cases h
  | ok v => rw [hm] at h; remain_tac h

/-! ### the handlers plugged in through `extra` (aarch64.c, arm.c, s390x.c, ppc64.c) -/

theorem aarch64_tail_remain (t : Nat) (pf : PagingForm) (mx : Nat) (s0 s s2 : Step) (pte addr : Nat)
    (hs : s.remain = s0.remain)
    (h : Kdf.Model.PgtAarch64.tail t pf mx s pte addr = .ok s2) : RemOK s0 s2 := by
  unfold Kdf.Model.PgtAarch64.tail at h
  simp only [] at h
  repeat' split at h
  all_goals (cases h <;> first | exact remOK_huge _ _ _ hs | exact remOK_refl _ _ hs)

/-- `pgt_aarch64` -/
theorem pgtAarch64_remain (mem : Mem) (t pm : Nat) (pf : PagingForm) (s s2 : Step)
    (h : Kdf.Model.PgtAarch64.pgtAarch64 mem t pm pf s = .ok s2) : RemOK s s2 := by
  unfold Kdf.Model.PgtAarch64.pgtAarch64 readPte at h
  cases hm : mem s.base.as s.base.addr 8 with
  | error e => rw [hm] at h; cases h
  | ok v =>
    rw [hm] at h
    simp only [bind, Except.bind, throw, throwThe, MonadExceptOf.throw] at h
    split at h
    · cases h
    · exact aarch64_tail_remain _ _ _ s _ _ _ _ (by rfl) h

/-- `pgt_aarch64_lpa` -/
theorem pgtAarch64Lpa_remain (mem : Mem) (t pm : Nat) (pf : PagingForm) (s s2 : Step)
    (h : Kdf.Model.PgtAarch64.pgtAarch64Lpa mem t pm pf s = .ok s2) : RemOK s s2 := by
  unfold Kdf.Model.PgtAarch64.pgtAarch64Lpa readPte at h
  cases hm : mem s.base.as s.base.addr 8 with
  | error e => rw [hm] at h; cases h
  | ok v =>
    rw [hm] at h
    simp only [bind, Except.bind, throw, throwThe, MonadExceptOf.throw] at h
    split at h
    · cases h
    · exact aarch64_tail_remain _ _ _ s _ _ _ _ (by rfl) h

/-- `pgt_aarch64_lpa2` -/
theorem pgtAarch64Lpa2_remain (mem : Mem) (t pm : Nat) (pf : PagingForm) (s s2 : Step)
    (h : Kdf.Model.PgtAarch64.pgtAarch64Lpa2 mem t pm pf s = .ok s2) : RemOK s s2 := by
  unfold Kdf.Model.PgtAarch64.pgtAarch64Lpa2 readPte at h
  cases hm : mem s.base.as s.base.addr 8 with
  | error e => rw [hm] at h; cases h
  | ok v =>
    rw [hm] at h
    simp only [bind, Except.bind, throw, throwThe, MonadExceptOf.throw] at h
    split at h
    · cases h
    · exact aarch64_tail_remain _ _ _ s _ _ _ _ (by rfl) h

/-- `pgt_arm` (`add_overlap` only touches `idx[]`) -/
theorem pgtArm_remain (mem : Mem) (t pm : Nat) (pf : PagingForm) (s s2 : Step)
    (h : Kdf.Model.PgtArm.pgtArm mem t pm pf s = .ok s2) : RemOK s s2 := by
  unfold Kdf.Model.PgtArm.pgtArm readPte at h
  cases hm : mem s.base.as s.base.addr 4 with
  | error e => rw [hm] at h; cases h
  | ok v => rw [hm] at h; remain_tac h

/-- `pgt_s390x` -/
theorem pgtS390x_remain (mem : Mem) (t pm : Nat) (pf : PagingForm) (s s2 : Step)
    (h : Kdf.Model.PgtS390x.pgtS390x mem t pm pf s = .ok s2) : RemOK s s2 := by
  unfold Kdf.Model.PgtS390x.pgtS390x readPte at h
  cases hm : mem s.base.as s.base.addr 8 with
  | error e => rw [hm] at h; cases h
  | ok v => rw [hm] at h; remain_tac h

/-- `pgt_ppc64_linux_rpn30`; `huge_pd_linux` sets `remain = 2`, and is only entered with
`remain > 1` -/
theorem pgtPpc64_remain (mem : Mem) (t pm : Nat) (pf : PagingForm) (s s2 : Step)
    (h : Kdf.Model.PgtPpc64.pgtPpc64LinuxRpn30 mem t pm pf s = .ok s2) : RemOK s s2 := by
  unfold Kdf.Model.PgtPpc64.pgtPpc64LinuxRpn30 Kdf.Model.PgtPpc64.pgtPpc64Linux readPte at h
  cases hm : mem s.base.as s.base.addr 8 with
  | error e => rw [hm] at h; cases h
  | ok v =>
    rw [hm] at h
    simp only [bind, Except.bind, pure, Except.pure, throw, throwThe, MonadExceptOf.throw] at h
    split at h
    · cases h
    · split at h
      · rename_i hgt
        split at h
        · cases h; exact remOK_huge _ _ _ rfl
        · split at h
          · unfold Kdf.Model.PgtPpc64.hugePdLinux at h
            simp only [] at h
            split at h
            · cases h
            · cases h
              intro _
              have hgt' : s.remain > 1 := hgt
              exact ⟨by show 1 ≤ 2; omega, by show 2 ≤ s.remain; omega⟩
          · cases h; exact remOK_refl _ _ rfl
      · cases h; exact remOK_refl _ _ rfl

theorem nextStepPgt_remain (mem : Mem) (t pm : Nat) (pf : PagingForm) (s s2 : Step)
    (h : nextStepPgt extra mem t pm pf s = .ok s2) : RemOK s s2 := by
  unfold nextStepPgt at h
  split at h
  · cases h; exact remOK_refl _ _ rfl
  · exact pgtPfn_remain _ _ _ _ _ _ _ h
  · exact pgtPfn_remain _ _ _ _ _ _ _ h
  · exact pgtIa32_remain _ _ _ _ _ _ h
  · exact pgtIa32Pae_remain _ _ _ _ _ _ h
  · exact pgtRiscv64_remain _ _ _ _ _ _ h
  · exact pgtX86_64_remain _ _ _ _ _ _ h
  · -- the formats plugged in through `extra`
    simp only [extra] at h
    split at h
    · rename_i r hr
      split at hr
      · cases hr; exact pgtAarch64_remain _ _ _ _ _ _ h
      · cases hr; exact pgtAarch64Lpa_remain _ _ _ _ _ _ h
      · cases hr; exact pgtAarch64Lpa2_remain _ _ _ _ _ _ h
      · cases hr; exact pgtArm_remain _ _ _ _ _ _ h
      · cases hr; exact pgtS390x_remain _ _ _ _ _ _ h
      · cases hr; exact pgtPpc64_remain _ _ _ _ _ _ h
      · cases hr
    · cases h

theorem nextStep_remain (mem : Mem) (m : Meth) (s s2 : Step)
    (h : nextStep extra mem m s = .ok s2) : RemOK s s2 := by
  unfold nextStep at h
  split at h
  · cases h
  · cases h; exact remOK_refl _ _ rfl
  · cases h; exact remOK_refl _ _ rfl
  · cases h; exact remOK_refl _ _ rfl
  · exact nextStepPgt_remain _ _ _ _ _ _ h
  · unfold nextMemarr at h
    repeat' split at h
    all_goals (cases h <;> first | exact remOK_refl _ _ rfl)

/-! ## launch + single steps = walk -/

theorem launch_go_done (mem : Mem) (m : Meth) (fuel : Nat) (s : Step) (acc : List Step)
    (h : s.remain = 0) : (launchSteps.go extra mem m fuel s acc).2 = .ok s := by
  cases fuel with
  | zero => rfl
  | succ f => simp [launchSteps.go, h]

theorem launch_go_eq_walkLoop (mem : Mem) (m : Meth) (fuel : Nat) (s : Step) (acc : List Step)
    (h1 : 1 ≤ s.remain) (h2 : s.remain ≤ fuel) :
    (launchSteps.go extra mem m fuel s acc).2 = walkLoop extra mem m fuel s := by
  induction fuel generalizing s acc with
  | zero => omega
  | succ fuel ih =>
    have hne : s.remain ≠ 0 := by omega
    unfold launchSteps.go walkLoop stepOnce
    simp only [hne, if_false]
    by_cases hr : s.remain - 1 = 0
    · simp only [hr, if_true]
      rw [launch_go_done _ _ _ _ _ rfl]
    · simp only [hr, if_false]
      cases hn : nextStep extra mem m
          { s with remain := s.remain - 1,
                   base := { s.base with addr := (s.base.addr + idxAt s (s.remain - 1) * s.elemsz) % W } } with
      | error e => rfl
      | ok s2 =>
        have := nextStep_remain _ _ _ _ hn (by show 1 ≤ s.remain - 1; omega)
        have h3 : s2.remain ≤ s.remain - 1 := this.2
        exact ih s2 _ this.1 (by omega)

end Kdf.Lemmas.Pgt
