import Kdf.Lemmas.XenBuildSort
/-!
# C19 — loop invariant of the builder
-/
namespace Kdf.Lemmas.Xen
open Kdf.Model.Xen

theorem ROk_iff (r : Range) : ROk r ↔ ((r.len ≥ 2 ∨ r.len ≤ -2) ∧ 0 ≤ lo r ∧ hi r < 18446744073709551616 ∧
    ((r.len < 0 ∨ r.len ≤ (r.idx : Int) + 1) ∧ (r.len ≥ 0 ∨ -r.len ≤ (r.idx : Int) + 1)) ∧
    r.idx < 18446744073709551615) := by
  unfold ROk
  rw [W_eq]
  constructor
  · rintro ⟨a, b, c, d, e⟩
    refine ⟨a, b, by omega, ?_, by omega⟩
    split at d <;> omega
  · rintro ⟨a, b, c, d, e⟩
    refine ⟨a, b, by omega, ?_, by omega⟩
    split <;> omega

theorem ixAt_nonneg {r : Range} (h : ROk r) {p : Nat} (h1 : lo r ≤ (p : Int)) (h2 : (p : Int) ≤ hi r) :
    0 ≤ ixAt r p := by
  have h' := (ROk_iff r).mp h
  unfold lo at h' h1
  unfold hi at h' h2
  unfold ixAt
  split <;> omega

theorem lo_le_pfn {r : Range} (h : ROk r) : lo r ≤ (r.pfn : Int) := by
  rw [ROk_iff] at h; unfold lo at h ⊢; unfold hi at h; omega

theorem pfn_le_hi {r : Range} (_h : ROk r) : (r.pfn : Int) ≤ hi r := by
  unfold hi; omega

theorem covers_addrange (rs : List Range) (ss : List Single) (rn : Range) (p i : Nat) :
    Covers ⟨rs ++ [rn], ss⟩ p i ↔
      Covers ⟨rs, ss⟩ p i ∨ (lo rn ≤ (p : Int) ∧ (p : Int) ≤ hi rn ∧ ixAt rn p = (i : Int)) := by
  unfold Covers
  constructor
  · rintro (⟨r, hr, h⟩ | h)
    · rcases List.mem_append.mp hr with hr | hr
      · exact Or.inl (Or.inl ⟨r, hr, h⟩)
      · rw [List.mem_singleton] at hr; subst hr; exact Or.inr h
    · exact Or.inl (Or.inr h)
  · rintro ((⟨r, hr, h⟩ | h) | h)
    · exact Or.inl ⟨r, List.mem_append.mpr (Or.inl hr), h⟩
    · exact Or.inr h
    · exact Or.inl ⟨rn, List.mem_append.mpr (Or.inr (List.mem_singleton.mpr rfl)), h⟩

theorem covers_addsingle (rs : List Range) (ss : List Single) (sn : Single) (p i : Nat) :
    Covers ⟨rs, ss ++ [sn]⟩ p i ↔
      Covers ⟨rs, ss⟩ p i ∨ (sn.pfn = p ∧ sn.idx = i) := by
  unfold Covers
  constructor
  · rintro (h | ⟨s, hs, h⟩)
    · exact Or.inl (Or.inl h)
    · rcases List.mem_append.mp hs with hs | hs
      · exact Or.inl (Or.inr ⟨s, hs, h⟩)
      · rw [List.mem_singleton] at hs; subst hs; exact Or.inr h
  · rintro ((h | ⟨s, hs, h⟩) | h)
    · exact Or.inl h
    · exact Or.inr ⟨s, List.mem_append.mpr (Or.inl hs), h⟩
    · exact Or.inr ⟨sn, List.mem_append.mpr (Or.inr (List.mem_singleton.mpr rfl)), h⟩

/-- the stored part: everything but the last `n` listed frames is in the map -/
structure Base (pre : List Nat) (m : PMap) (n : Nat) : Prop where
  hW : ∀ p ∈ pre, p < 18446744073709551616
  hnd : pre.Nodup
  hlen : pre.length < 9223372036854775808
  nle : n ≤ pre.length
  cov : ∀ p i, Covers m p i ↔ i + n < pre.length ∧ pre[i]? = some p
  rok : ∀ r ∈ m.ranges, ROk r
  rdis : m.ranges.Pairwise (fun a b => hi a < lo b ∨ hi b < lo a)
  sdis : m.singles.Pairwise (fun a b => a.pfn ≠ b.pfn)

/-- the cursor describes the last `|c.len|` listed frames -/
structure Run (pre : List Nat) (c : Range) : Prop where
  idx : c.idx = pre.length
  nm1 : c.len ≠ -1
  asc : 0 < c.len → ∀ j, j < pre.length → pre.length ≤ j + c.len.natAbs →
    ∃ q, pre[j]? = some q ∧ q + (pre.length - 1 - j) = c.pfn
  desc : c.len < 0 → ∀ j, j < pre.length → pre.length ≤ j + c.len.natAbs →
    pre[j]? = some (c.pfn + (pre.length - 1 - j))

theorem Base.snoc {pre : List Nat} {m : PMap} {n : Nat} (b : Base pre m n) (p : Nat)
    (hp : p < 18446744073709551616) (hnd : (pre ++ [p]).Nodup)
    (hlen : (pre ++ [p]).length < 9223372036854775808) : Base (pre ++ [p]) m (n + 1) where
  hW := by
    intro q hq
    rcases List.mem_append.mp hq with hq | hq
    · exact b.hW q hq
    · rw [List.mem_singleton] at hq; subst hq; exact hp
  hnd := hnd
  hlen := hlen
  nle := by have := b.nle; simp only [List.length_append, List.length_singleton]; omega
  cov := by
    intro q i
    rw [b.cov]
    simp only [List.length_append, List.length_singleton]
    constructor
    · rintro ⟨h1, h2⟩
      refine ⟨by omega, ?_⟩
      rw [List.getElem?_append_left (by omega)]; exact h2
    · rintro ⟨h1, h2⟩
      refine ⟨by omega, ?_⟩
      rw [List.getElem?_append_left (by omega)] at h2; exact h2
  rok := b.rok
  rdis := b.rdis
  sdis := b.sdis

theorem Run.pfn_lt {pre : List Nat} {m : PMap} {c : Range} (b : Base pre m c.len.natAbs) (r : Run pre c)
    (h0 : c.len ≠ 0) : c.pfn < 18446744073709551616 ∧ pre[pre.length - 1]? = some c.pfn := by
  have hn := b.nle
  rcases Int.lt_or_gt_of_ne h0 with h | h
  · have := r.desc h (pre.length - 1) (by omega) (by omega)
    have e : c.pfn + (pre.length - 1 - (pre.length - 1)) = c.pfn := by omega
    rw [e] at this
    exact ⟨b.hW _ (List.mem_of_getElem? this), this⟩
  · obtain ⟨q, hq, e⟩ := r.asc h (pre.length - 1) (by omega) (by omega)
    have e : q = c.pfn := by omega
    subst e
    exact ⟨b.hW _ (List.mem_of_getElem? hq), hq⟩

/-- what the flushed range covers -/
theorem Run.range_cov {pre : List Nat} {m : PMap} {c : Range} (b : Base pre m c.len.natAbs) (r : Run pre c)
    (h : c.len > 1 ∨ c.len < -1) (p i : Nat) :
    (lo ⟨c.pfn, pre.length - 1, c.len⟩ ≤ (p : Int) ∧ (p : Int) ≤ hi ⟨c.pfn, pre.length - 1, c.len⟩ ∧
      ixAt ⟨c.pfn, pre.length - 1, c.len⟩ p = (i : Int)) ↔
    (pre.length ≤ i + c.len.natAbs ∧ i < pre.length ∧ pre[i]? = some p) := by
  have hn := b.nle
  simp only [lo, hi, ixAt]
  rcases h with h | h
  · have hasc := r.asc (by omega)
    have h0 := hasc (pre.length - c.len.natAbs) (by omega) (by omega)
    obtain ⟨q0, _, hq0⟩ := h0
    constructor
    · rintro ⟨h1, h2, h3⟩
      have hi1 : i < pre.length := by omega
      have hi2 : pre.length ≤ i + c.len.natAbs := by omega
      obtain ⟨q, hq, e⟩ := hasc i hi1 hi2
      have : q = p := by omega
      subst this
      exact ⟨hi2, hi1, hq⟩
    · rintro ⟨h1, h2, h3⟩
      obtain ⟨q, hq, e⟩ := hasc i h2 h1
      rw [h3] at hq
      have : p = q := Option.some.inj hq
      subst this
      omega
  · have hdesc := r.desc (by omega)
    constructor
    · rintro ⟨h1, h2, h3⟩
      have hi1 : i < pre.length := by omega
      have hi2 : pre.length ≤ i + c.len.natAbs := by omega
      have hq := hdesc i hi1 hi2
      have : c.pfn + (pre.length - 1 - i) = p := by omega
      rw [this] at hq
      exact ⟨hi2, hi1, hq⟩
    · rintro ⟨h1, h2, h3⟩
      have hq := hdesc i h2 h1
      rw [h3] at hq
      have : p = c.pfn + (pre.length - 1 - i) := Option.some.inj hq
      omega

theorem Run.range_ok {pre : List Nat} {m : PMap} {c : Range} (b : Base pre m c.len.natAbs) (r : Run pre c)
    (h : c.len > 1 ∨ c.len < -1) : ROk ⟨c.pfn, pre.length - 1, c.len⟩ := by
  have hn := b.nle
  have hl := b.hlen
  have hp := (r.pfn_lt b (by omega)).1
  rw [ROk_iff]
  simp only [lo, hi]
  rcases h with h | h
  · obtain ⟨q0, _, hq0⟩ := r.asc (by omega) (pre.length - c.len.natAbs) (by omega) (by omega)
    have key : ((c.len.natAbs : Nat) : Int) = c.len := by omega
    generalize c.len.natAbs = n at *
    omega
  · have h0 := r.desc (by omega) (pre.length - c.len.natAbs) (by omega) (by omega)
    have := b.hW _ (List.mem_of_getElem? h0)
    have key : ((c.len.natAbs : Nat) : Int) = -c.len := by omega
    generalize c.len.natAbs = n at *
    omega

/-- `pfn2idx_map_addrange` stores the pending run -/
theorem flush (ok : Nat → Bool) {pre : List Nat} {m m' : PMap} {c : Range}
    (b : Base pre m c.len.natAbs) (r : Run pre c) (h : addrange ok m c = some m') :
    Base pre m' 0 := by
  have hn := b.nle
  have hl := b.hlen
  have hidx := r.idx
  have hnm1 := r.nm1
  unfold addrange at h
  split at h
  · -- a range
    rename_i hc
    have ew : wrap ((c.idx : Int) - 1) = pre.length - 1 := by
      rw [wrap_of_lt _ (by omega) (by omega)]; omega
    rw [ew] at h
    have hm' : m' = { m with ranges := m.ranges ++ [⟨c.pfn, pre.length - 1, c.len⟩] } := by
      split at h
      · exact absurd h (by simp)
      · exact (Option.some.inj h).symm
    subst hm'
    have hrc := r.range_cov b hc
    have hrok := r.range_ok b hc
    refine ⟨b.hW, b.hnd, b.hlen, Nat.zero_le _, ?_, ?_, ?_, b.sdis⟩
    · intro p i
      show Covers ⟨m.ranges ++ [_], m.singles⟩ p i ↔ _
      rw [covers_addrange, hrc p i]
      have : Covers ⟨m.ranges, m.singles⟩ p i ↔ _ := b.cov p i
      rw [this]
      constructor
      · rintro (⟨h1, h2⟩ | ⟨h1, h2, h3⟩)
        · exact ⟨by omega, h2⟩
        · exact ⟨by omega, h3⟩
      · rintro ⟨h1, h2⟩
        by_cases hh : i + c.len.natAbs < pre.length
        · exact Or.inl ⟨hh, h2⟩
        · exact Or.inr ⟨by omega, by omega, h2⟩
    · intro x hx
      rcases List.mem_append.mp hx with hx | hx
      · exact b.rok x hx
      · rw [List.mem_singleton] at hx; subst hx; exact hrok
    · show (m.ranges ++ [_]).Pairwise _
      rw [List.pairwise_append]
      refine ⟨b.rdis, by simp, ?_⟩
      intro a ha x hx
      rw [List.mem_singleton] at hx; subst hx
      have haok := b.rok a ha
      apply Classical.byContradiction
      intro hcon
      have hlo0 : 0 ≤ lo a := ((ROk_iff a).mp haok).2.1
      have hlo1 : 0 ≤ lo ⟨c.pfn, pre.length - 1, c.len⟩ := ((ROk_iff _).mp hrok).2.1
      have hlh0 : lo a ≤ hi a := Int.le_trans (lo_le_pfn haok) (pfn_le_hi haok)
      have hlh1 := Int.le_trans (lo_le_pfn hrok) (pfn_le_hi hrok)
      generalize hrn : (⟨c.pfn, pre.length - 1, c.len⟩ : Range) = rn at *
      -- a common frame
      obtain ⟨p, hp1, hp2, hp3, hp4⟩ : ∃ p : Nat, lo a ≤ (p : Int) ∧ (p : Int) ≤ hi a ∧
          lo rn ≤ (p : Int) ∧ (p : Int) ≤ hi rn := by
        by_cases hc2 : lo a ≤ lo rn
        · exact ⟨(lo rn).toNat, by omega, by omega, by omega, by omega⟩
        · exact ⟨(lo a).toNat, by omega, by omega, by omega, by omega⟩
      have hi0 := ixAt_nonneg haok hp1 hp2
      have hi1 := ixAt_nonneg hrok hp3 hp4
      have hc1 : Covers m p (ixAt a p).toNat := Or.inl ⟨a, ha, hp1, hp2, by omega⟩
      rw [b.cov] at hc1
      have hc2 := (hrc p (ixAt rn p).toNat).mp ⟨hp3, hp4, by omega⟩
      have := nodup_getElem?_inj b.hnd hc1.2 hc2.2.2
      omega
  · split at h
    · -- a single
      rename_i hc hc0
      have hc1 : c.len = 1 := by omega
      have ew : wrap ((c.idx : Int) - 1) = pre.length - 1 := by
        rw [wrap_of_lt _ (by omega) (by omega)]; omega
      rw [ew] at h
      have hm' : m' = { m with singles := m.singles ++ [⟨c.pfn, pre.length - 1⟩] } := by
        split at h
        · exact absurd h (by simp)
        · exact (Option.some.inj h).symm
      subst hm'
      have hlast := (r.pfn_lt b hc0).2
      have hnat : c.len.natAbs = 1 := by omega
      refine ⟨b.hW, b.hnd, b.hlen, Nat.zero_le _, ?_, b.rok, b.rdis, ?_⟩
      · intro p i
        show Covers ⟨m.ranges, m.singles ++ [_]⟩ p i ↔ _
        rw [covers_addsingle]
        have : Covers ⟨m.ranges, m.singles⟩ p i ↔ _ := b.cov p i
        rw [this, hnat]
        constructor
        · rintro (⟨h1, h2⟩ | ⟨h1, h2⟩)
          · exact ⟨by omega, h2⟩
          · simp only at h1 h2
            subst h1; subst h2
            exact ⟨by omega, hlast⟩
        · rintro ⟨h1, h2⟩
          by_cases hh : i + 1 < pre.length
          · exact Or.inl ⟨hh, h2⟩
          · have : i = pre.length - 1 := by omega
            subst this
            rw [hlast] at h2
            exact Or.inr ⟨Option.some.inj h2, rfl⟩
      · show (m.singles ++ [_]).Pairwise _
        rw [List.pairwise_append]
        refine ⟨b.sdis, by simp, ?_⟩
        intro a ha x hx
        rw [List.mem_singleton] at hx; subst hx
        intro heq
        simp only at heq
        have hc1 : Covers m a.pfn a.idx := Or.inr ⟨a, ha, rfl, rfl⟩
        rw [b.cov] at hc1
        rw [← heq] at hlast
        have := nodup_getElem?_inj b.hnd hc1.2 hlast
        omega
    · rename_i hc hc0
      have hc1 : c.len = 0 := by omega
      have : m' = m := (Option.some.inj h).symm
      subst this
      have hb := b
      rw [hc1] at hb
      exact hb

end Kdf.Lemmas.Xen
