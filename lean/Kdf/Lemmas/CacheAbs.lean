import Kdf.Lemmas.CacheSt
/-!
Bridge between the concrete model (`Cache`, entry table as a list) and the abstract view
(`St`, `InvH`): `modEnt`, the invariant `Inv` in terms of `InvH`, `flush`, and the counting
argument (every buffer has exactly one owner).
-/
set_option linter.unusedSimpArgs false
namespace Kdf.Lemmas.Cache
open Kdf.Model.Cache Kdf.Lemmas.CacheList

/-! ### `abs` and `modEnt` -/

@[simp] theorem abs_cap (c : Cache) : (abs c).cap = c.cap := rfl
@[simp] theorem abs_ent (c : Cache) : (abs c).ent = c.ent := rfl
@[simp] theorem abs_U (c : Cache) : (abs c).U = c.U := rfl
@[simp] theorem abs_GB (c : Cache) : (abs c).GB = c.GB := rfl
@[simp] theorem abs_B (c : Cache) : (abs c).B = c.B := rfl
@[simp] theorem abs_P (c : Cache) : (abs c).P = c.P := rfl
@[simp] theorem abs_GP (c : Cache) : (abs c).GP = c.GP := rfl
@[simp] theorem abs_F (c : Cache) : (abs c).F = c.F := rfl

@[simp] theorem modEnt_cap (c : Cache) (i f) : (c.modEnt i f).cap = c.cap := rfl
@[simp] theorem modEnt_U (c : Cache) (i f) : (c.modEnt i f).U = c.U := rfl
@[simp] theorem modEnt_GB (c : Cache) (i f) : (c.modEnt i f).GB = c.GB := rfl
@[simp] theorem modEnt_B (c : Cache) (i f) : (c.modEnt i f).B = c.B := rfl
@[simp] theorem modEnt_P (c : Cache) (i f) : (c.modEnt i f).P = c.P := rfl
@[simp] theorem modEnt_GP (c : Cache) (i f) : (c.modEnt i f).GP = c.GP := rfl
@[simp] theorem modEnt_F (c : Cache) (i f) : (c.modEnt i f).F = c.F := rfl
@[simp] theorem modEnt_dprobe (c : Cache) (i f) : (c.modEnt i f).dprobe = c.dprobe := rfl
@[simp] theorem modEnt_len (c : Cache) (i f) : (c.modEnt i f).ents.length = c.ents.length := by
  simp [Cache.modEnt]

theorem ent_modEnt (c : Cache) (i : Nat) (f : Entry → Entry) (j : Nat) :
    (c.modEnt i f).ent j = if j = i ∧ i < c.ents.length then f (c.ent i) else c.ent j := by
  unfold Cache.ent Cache.modEnt
  simp only [List.getD_eq_getElem?_getD, List.getElem?_modify]
  by_cases hji : j = i
  · subst hji
    by_cases hlt : j < c.ents.length
    · simp [hlt]
    · simp [hlt, List.getElem?_eq_none (Nat.le_of_not_lt hlt)]
  · have : ¬ i = j := fun e => hji e.symm
    simp [hji, this]

theorem ent_default (c : Cache) {i : Nat} (hi : c.ents.length ≤ i) : c.ent i = default := by
  unfold Cache.ent
  simp [List.getD_eq_getElem?_getD, List.getElem?_eq_none hi]

theorem abs_modEnt (c : Cache) {i : Nat} (f : Entry → Entry) (hi : i < c.ents.length) :
    abs (c.modEnt i f) = (abs c).setEnt i (f (c.ent i)) := by
  unfold abs St.setEnt
  simp only [modEnt_cap, modEnt_U, modEnt_GB, modEnt_B, modEnt_P, modEnt_GP, modEnt_F, St.mk.injEq,
    true_and, and_true]
  funext j
  simp [ent_modEnt, hi]

/-! ### `Inv` in terms of `InvH` -/

/-- `Inv` with the field `inflight_ref` guarded by `st` -/
def InvS (c : Cache) (st : Prop) : Prop := c.ents.length = 2 * c.cap ∧ InvH (abs c) [] [] st

theorem InvS.len {c : Cache} {st : Prop} (h : InvS c st) : c.ents.length = 2 * c.cap := h.1
theorem InvS.inv {c : Cache} {st : Prop} (h : InvS c st) : InvH (abs c) [] [] st := h.2

theorem InvH.weaken {s : St} {hl fl : List Nat} {st st' : Prop} (h : InvH s hl fl st) (hst : st' → st) :
    InvH s hl fl st' :=
  { h with inflight_ref := fun x => h.inflight_ref (hst x) }

theorem InvS.weaken {c : Cache} {st st' : Prop} (h : InvS c st) (hst : st' → st) : InvS c st' :=
  ⟨h.1, h.2.weaken hst⟩

theorem live_nodup_of_part {c : Cache} (hp : (ring c ++ c.F).Perm (List.range (2 * c.cap))) :
    (live c).Nodup := by
  have hn : (ring c ++ c.F).Nodup := hp.nodup_iff.2 List.nodup_range
  unfold ring live at *
  simp only [List.nodup_append, List.mem_append] at hn ⊢
  grind

theorem inv_iff (c : Cache) : Inv c ↔ InvS c True := by
  constructor
  · intro h
    refine ⟨h.len, ?_⟩
    have hln := live_nodup_of_part h.part
    constructor
    · exact h.cap_pos
    · simpa [ring] using h.part
    · show ([] ++ _).Perm _
      rw [List.nil_append]; exact h.bufs
    · exact h.live_data
    · intro i hi
      have := h.ghost_nodata i hi
      simpa [hasData, Cache.dataOf] using this
    · obtain ⟨u1, u2, hU, h1, h2⟩ := h.u_shape
      refine ⟨u1, u2, hU, ?_, h2⟩
      intro i hi
      have := h1 i hi
      simpa [hasData, Cache.dataOf] using this
    · exact inj_on_of_nodup_map h.keys_nodup
    · exact h.cached_valid
    · exact h.inflight_invalid
    · exact h.ref_live
    · exact fun _ => h.inflight_ref
  · rintro ⟨hlen, h⟩
    have hpart : (ring c ++ c.F).Perm (List.range (2 * c.cap)) := by simpa [ring] using h.part
    have hln := live_nodup_of_part hpart
    constructor
    · exact h.cap_pos
    · exact hlen
    · exact hpart
    · have := h.bufs
      rw [List.nil_append] at this; exact this
    · exact h.live_data
    · intro i hi
      have := h.ghost_nodata i hi
      simpa [hasData, Cache.dataOf] using this
    · obtain ⟨u1, u2, hU, h1, h2⟩ := h.u_shape
      refine ⟨u1, u2, hU, ?_, h2⟩
      intro i hi
      have := h1 i hi
      simpa [hasData, Cache.dataOf] using this
    · exact nodup_map_of_inj_on hln h.keys_inj
    · exact h.cached_valid
    · exact h.inflight_invalid
    · exact h.ref_live
    · exact h.inflight_ref trivial

/-! ### `flush` -/

theorem flush_ent (cap i : Nat) :
    (flush cap).ent i =
      if i < 2 * cap then ⟨0, .probe, 0, if i < cap then some i else none⟩ else default := by
  unfold Cache.ent flush
  simp only [List.getD_eq_getElem?_getD, List.getElem?_map]
  by_cases h : i < 2 * cap
  · simp [h, List.getElem?_range h]
  · simp [h, List.getElem?_eq_none (by simpa using Nat.le_of_not_lt h : (List.range (2*cap)).length ≤ i)]

theorem flush_refcnt (cap i : Nat) : ((flush cap).ent i).refcnt = 0 := by
  rw [flush_ent]; split <;> rfl

theorem flush_data (cap i : Nat) :
    ((flush cap).ent i).data = if i < cap then some i else none := by
  rw [flush_ent]
  by_cases h : i < 2 * cap
  · simp [h]
  · have : ¬ i < cap := by omega
    simp [h, this]; rfl

theorem invS_flush (cap : Nat) (hc : 0 < cap) (st : Prop) : InvS (flush cap) st := by
  refine ⟨by simp [flush], ?_⟩
  have hrange : List.range (2 * cap) = List.range cap ++ (List.range cap).map (fun x => cap + x) := by
    rw [← List.range_add]; congr 1; omega
  constructor
  · exact hc
  · show ((List.range (2 * cap)).reverse ++ [] ++ [] ++ [] ++ [] ++ [] ++ []).Perm _
    simp only [List.append_nil]
    exact List.reverse_perm _
  · show ([] ++ (List.range (2 * (flush cap).cap)).filterMap (fun i => ((flush cap).ent i).data)).Perm _
    have : (flush cap).cap = cap := rfl
    rw [this, List.nil_append, hrange, List.filterMap_append]
    have h1 : (List.range cap).filterMap (fun i => ((flush cap).ent i).data) = List.range cap := by
      rw [filterMap_congr' (g := some)]
      · simp
      · intro a ha; simp [flush_data, List.mem_range.1 ha]
    have h2 : ((List.range cap).map (fun x => cap + x)).filterMap (fun i => ((flush cap).ent i).data) = [] := by
      apply filterMap_none
      intro a ha
      simp only [List.mem_map, List.mem_range] at ha
      obtain ⟨x, _, rfl⟩ := ha
      simp [flush_data]
    rw [h1, h2, List.append_nil]
    exact List.Perm.refl _
  · intro i hi; simp [abs, flush] at hi
  · intro i hi; simp [abs, flush] at hi
  · refine ⟨((List.range cap).map (fun x => cap + x)).reverse, (List.range cap).reverse, ?_, ?_, ?_⟩
    · show (List.range (2 * cap)).reverse = _
      rw [hrange, List.reverse_append]
    · intro i hi
      simp only [List.mem_reverse, List.mem_map, List.mem_range] at hi
      obtain ⟨x, _, rfl⟩ := hi
      simp [flush_data]
    · intro i hi
      simp only [List.mem_reverse, List.mem_range] at hi
      simp [flush_data, hi]
  · intro i hi; simp [abs, flush] at hi
  · intro i hi; simp [abs, flush] at hi
  · intro i hi; simp [abs, flush] at hi
  · intro i _ hr; exact absurd (flush_refcnt cap i) hr
  · intro _ i hi; simp [abs, flush] at hi

/-! ### counting buffers -/

theorem InvH.count {s : St} {st : Prop} (h : InvH s [] [] st) {u1 u2 : List Nat} (hU : s.U = u1 ++ u2)
    (hu1 : ∀ i ∈ u1, (s.ent i).data = none) (hu2 : ∀ i ∈ u2, (s.ent i).data.isSome = true) :
    u2.length + s.B.length + s.P.length + s.F.length = s.cap := by
  have hp := (h.part.filterMap (fun i => (s.ent i).data)).trans (by simpa using h.bufs)
  have hlen := hp.length_eq
  rw [hU] at hlen
  simp only [List.filterMap_append, List.length_append, List.length_range, List.filterMap_nil,
    List.length_nil] at hlen
  rw [filterMap_none hu1, length_filterMap_some hu2,
    filterMap_none (fun i hi => h.ghost_nodata i (by simp [hi])),
    filterMap_none (l := s.GP) (fun i hi => h.ghost_nodata i (by simp [hi])),
    length_filterMap_some (l := s.B) (fun i hi => h.live_data i (by simp [hi])),
    length_filterMap_some (l := s.P) (fun i hi => h.live_data i (by simp [hi])),
    length_filterMap_some (l := s.F) (fun i hi => h.live_data i (by simp [hi]))] at hlen
  simp only [List.length_nil] at hlen
  omega

theorem exists_of_filter_length_lt {l : List Nat} {p : Nat → Bool} (h : (l.filter p).length < l.length) :
    ∃ i ∈ l, p i = false := by
  apply Classical.byContradiction
  intro hn
  have : l.filter p = l := List.filter_eq_self.2 (fun a ha => by
    cases hp : p a with
    | true => rfl
    | false => exact absurd ⟨a, ha, hp⟩ hn)
  rw [this] at h
  omega

/-- if not every cached entry is referenced, one has reference count zero -/
theorem exists_zero_ref (c : Cache) (h : c.pinned < c.B.length + c.P.length) :
    ∃ i ∈ c.B ++ c.P, c.refcnt i = 0 := by
  unfold Cache.pinned at h
  by_cases hB : (c.B.filter fun i => c.refcnt i ≠ 0).length < c.B.length
  · obtain ⟨i, hi, hp⟩ := exists_of_filter_length_lt hB
    exact ⟨i, by simp [hi], by simpa using hp⟩
  · have hP : (c.P.filter fun i => c.refcnt i ≠ 0).length < c.P.length := by
      have := List.length_filter_le (fun i => decide (c.refcnt i ≠ 0)) c.B
      omega
    obtain ⟨i, hi, hp⟩ := exists_of_filter_length_lt hP
    exact ⟨i, by simp [hi], by simpa using hp⟩

end Kdf.Lemmas.Cache
