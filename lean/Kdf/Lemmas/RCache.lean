import Kdf.Model.RCache
/-!
# Helper lemmas about `Kdf.Model.RCache` (`get_cache_buf` with a re-entrant get-page callback)

`Good c fuel o` collects what one call of `getBuf` on cache `c` guarantees about its outcome `o`;
`getBuf_good` proves it for every callback, cache state and address by induction on the
recursion budget.  The property theorems in `Kdf/Props/C09Read.lean` are its projections.
-/
namespace Kdf.Lemmas.RCache
open Kdf.Model.Pgt Kdf.Model.RCache

theorem sum_set (f : Slot → Nat) (l : List Slot) (i : Nat) (x : Slot) (h : i < l.length) :
    ((l.set i x).map f).sum + f (l.getD i {}) = (l.map f).sum + f x := by
  induction l generalizing i with
  | nil => simp at h
  | cons y ys ih =>
    cases i with
    | zero => simp; omega
    | succ j =>
      have := ih j (by simpa using h)
      simp at this ⊢; omega

theorem sum_le_length (f : Slot → Nat) (l : List Slot) (h : ∀ x, f x ≤ 1) : (l.map f).sum ≤ l.length := by
  induction l with
  | nil => simp
  | cons y ys ih => have := h y; simp; omega

theorem getD_set_eq (l : List Slot) (i : Nat) (x : Slot) (h : i < l.length) : (l.set i x).getD i {} = x := by
  simp [List.getD, h]

theorem getD_set_ne (l : List Slot) (i j : Nat) (x : Slot) (h : i ≠ j) : (l.set i x).getD j {} = l.getD j {} := by
  simp [List.getD, List.getElem?_set_ne h]

theorem free_le_one (s : Slot) : s.free ≤ 1 := by unfold Slot.free; split <;> omega

theorem free_le_length (c : RCache) : free c ≤ c.slots.length := sum_le_length _ _ free_le_one

/-- the slot the walk along `prev` arrives at exists and is not being filled -/
theorem pick_usable {c : RCache} {i : Nat} (h : pick c = some i) :
    i < c.slots.length ∧ (slotAt c i).filling = false := by
  have := List.find?_some h
  simpa [usable] using this

/-- what a call of `get_cache_buf` on cache `c` guarantees about its outcome -/
structure Good (c : RCache) (fuel : Nat) (o : Out) : Prop where
  len : o.cache.slots.length = c.slots.length
  /-- a slot that is being filled is left exactly as it is -/
  frame : ∀ k, (slotAt c k).filling = true → slotAt o.cache k = slotAt c k
  /-- every mark is as before: the call clears exactly the mark it set -/
  flags : ∀ k, (slotAt o.cache k).filling = (slotAt c k).filling
  /-- delivered buffers are in a slot or were put -/
  ledger : o.got + held c = o.put + held o.cache
  depth : o.depth ≤ free c
  calls : o.calls ≤ free c
  stuck : free c ≤ fuel → o.stuck = false

theorem good_same (c : RCache) (fuel : Nat) (o : Out) (hs : o.cache.slots = c.slots)
    (h0 : o.got = 0 ∧ o.put = 0 ∧ o.depth = 0 ∧ o.calls = 0) (hst : free c ≤ fuel → o.stuck = false) : Good c fuel o := by
  obtain ⟨h1, h2, h3, h4⟩ := h0
  refine ⟨by rw [hs], ?_, ?_, ?_, by omega, by omega, hst⟩
  · intro k _; unfold slotAt; rw [hs]
  · intro k; unfold slotAt; rw [hs]
  · unfold held; rw [hs, h1, h2]

theorem finish_slots (c : RCache) (i k d g p : Nat) (b : Bool) : (finish c i k d g p b).cache.slots = c.slots := by
  unfold finish; split <;> rfl

theorem finish_fields (c : RCache) (i k d g p : Nat) (b : Bool) :
    (finish c i k d g p b).calls = k ∧ (finish c i k d g p b).depth = d ∧ (finish c i k d g p b).got = g ∧
    (finish c i k d g p b).put = p ∧ (finish c i k d g p b).stuck = b := by
  unfold finish; split <;> exact ⟨rfl, rfl, rfl, rfl, rfl⟩

/-- the common shape of every way the fetch into slot `i` can end: the slot is rewritten with a
slot `s'` that is no longer being filled, everything else is what the callback's own read left -/
theorem good_leaf (c : RCache) (fuel i : Nat) (a : FullAddr) (pre o : Out) (s' : Slot)
    (hi : i < c.slots.length) (hnf : (slotAt c i).filling = false)
    (hpre : Good (beginFill c i a) fuel pre)
    (hs : o.cache.slots = (setSlot pre.cache i s').slots) (hf : s'.filling = false)
    (hg : o.got = pre.got + s'.held) (hp : o.put = pre.put + (slotAt c i).held)
    (hd : o.depth = pre.depth + 1) (hc : o.calls = pre.calls + 1) (hst : o.stuck = pre.stuck) :
    Good c (fuel+1) o := by
  have hlen1 : (beginFill c i a).slots.length = c.slots.length := by simp [beginFill, setSlot]
  have hs1 : slotAt (beginFill c i a) i = ⟨a, (slotAt c i).size, false, true⟩ := by
    unfold slotAt beginFill setSlot; exact getD_set_eq _ _ _ hi
  have hne : ∀ k, k ≠ i → slotAt (beginFill c i a) k = slotAt c k := by
    intro k hk; unfold slotAt beginFill setSlot; exact getD_set_ne _ _ _ _ (Ne.symm hk)
  have hprei : slotAt pre.cache i = ⟨a, (slotAt c i).size, false, true⟩ := by
    rw [hpre.frame i (by rw [hs1]), hs1]
  have hilen : i < pre.cache.slots.length := by rw [hpre.len, hlen1]; exact hi
  -- bookkeeping of the two sums across the two slot updates
  have hz : ∀ (x : FullAddr) (n : Nat) (b : Bool), Slot.held ⟨x, n, b, true⟩ = 0 := by intros; simp [Slot.held]
  have hzf : ∀ (x : FullAddr) (n : Nat) (b : Bool), Slot.free ⟨x, n, b, true⟩ = 0 := by intros; simp [Slot.free]
  have hheld1 : held (beginFill c i a) + (slotAt c i).held = held c := by
    have := sum_set Slot.held c.slots i ⟨a, (slotAt c i).size, false, true⟩ hi
    rw [hz] at this
    show ((c.slots.set i ⟨a, (slotAt c i).size, false, true⟩).map Slot.held).sum + Slot.held (c.slots.getD i {})
      = (c.slots.map Slot.held).sum
    omega
  have hfree1 : free (beginFill c i a) + 1 = free c := by
    have := sum_set Slot.free c.slots i ⟨a, (slotAt c i).size, false, true⟩ hi
    rw [hzf] at this
    have h1 : Slot.free (c.slots.getD i {}) = 1 := by
      have h2 : (c.slots.getD i {}).filling = false := hnf
      unfold Slot.free; rw [h2]; rfl
    show ((c.slots.set i ⟨a, (slotAt c i).size, false, true⟩).map Slot.free).sum + 1 = (c.slots.map Slot.free).sum
    omega
  have hheld2 : held o.cache = held pre.cache + s'.held := by
    have := sum_set Slot.held pre.cache.slots i s' hilen
    have h0 : Slot.held (pre.cache.slots.getD i {}) = 0 := by
      have h2 : pre.cache.slots.getD i {} = ⟨a, (slotAt c i).size, false, true⟩ := hprei
      rw [h2]; exact hz _ _ _
    show (o.cache.slots.map Slot.held).sum = (pre.cache.slots.map Slot.held).sum + s'.held
    rw [hs]
    show ((pre.cache.slots.set i s').map Slot.held).sum = _
    omega
  have hother : ∀ k, k ≠ i → slotAt o.cache k = slotAt pre.cache k := by
    intro k hki
    unfold slotAt; rw [hs]; simp only [setSlot]; exact getD_set_ne _ _ _ _ (Ne.symm hki)
  refine ⟨?_, ?_, ?_, ?_, ?_, ?_, ?_⟩
  · rw [hs]; simp [setSlot]; rw [hpre.len, hlen1]
  · intro k hk
    have hki : k ≠ i := by intro h; subst h; rw [hnf] at hk; cases hk
    rw [hother k hki, hpre.frame k (by rw [hne k hki]; exact hk), hne k hki]
  · intro k
    by_cases hki : k = i
    · subst hki
      have : slotAt o.cache k = s' := by
        unfold slotAt; rw [hs]; simp only [setSlot]; exact getD_set_eq _ _ _ hilen
      rw [this, hf, hnf]
    · rw [hother k hki, hpre.flags k, hne k hki]
  · have := hpre.ledger; omega
  · have := hpre.depth; omega
  · have := hpre.calls; omega
  · intro h; rw [hst]; exact hpre.stuck (by omega)

theorem deliver_good (cb : Cb) (c : RCache) (fuel i : Nat) (a : FullAddr) (pre : Out)
    (hi : i < c.slots.length) (hnf : (slotAt c i).filling = false)
    (hpre : Good (beginFill c i a) fuel pre) :
    Good c (fuel+1) (deliver cb a i (slotAt c i).held pre) := by
  unfold deliver
  have hfail : ∀ st, Good c (fuel+1)
      (failed pre.cache i st (pre.calls + 1) (pre.depth + 1) pre.got (pre.put + (slotAt c i).held) pre.stuck) := by
    intro st
    exact good_leaf c fuel i a pre _ { slotAt pre.cache i with size := 0, filling := false } hi hnf hpre
      rfl rfl (by simp [failed, Slot.held]) rfl rfl rfl rfl
  have hfin : ∀ b, Good c (fuel+1)
      (finish (setSlot pre.cache i ⟨⟨a.addr / PAGE * PAGE, a.as⟩, PAGE, b, false⟩) i
        (pre.calls + 1) (pre.depth + 1) (pre.got + 1) (pre.put + (slotAt c i).held) pre.stuck) := by
    intro b
    have hf := finish_fields (setSlot pre.cache i ⟨⟨a.addr / PAGE * PAGE, a.as⟩, PAGE, b, false⟩) i
      (pre.calls + 1) (pre.depth + 1) (pre.got + 1) (pre.put + (slotAt c i).held) pre.stuck
    exact good_leaf c fuel i a pre _ ⟨⟨a.addr / PAGE * PAGE, a.as⟩, PAGE, b, false⟩ hi hnf hpre
      (finish_slots _ _ _ _ _ _ _) rfl (by rw [hf.2.2.1]; simp [Slot.held, PAGE]) hf.2.2.2.1 hf.2.1 hf.1 hf.2.2.2.2
  cases pre.res with
  | error st => exact hfail st
  | ok v =>
    simp only []
    cases cb.res a with
    | fail st => exact hfail st
    | data => exact hfin true
    | noptr => exact hfin false

theorem preRead_good (cb : Cb) (rec : RCache → FullAddr → Out) (fuel : Nat)
    (hrec : ∀ c a, Good c fuel (rec c a)) (c1 : RCache) (a : FullAddr) : Good c1 fuel (preRead cb rec c1 a) := by
  unfold preRead
  split
  · exact good_same c1 fuel _ rfl ⟨rfl, rfl, rfl, rfl⟩ (fun _ => rfl)
  · split
    · exact hrec _ _
    · exact good_same c1 fuel _ rfl ⟨rfl, rfl, rfl, rfl⟩ (fun _ => rfl)

theorem getBuf_good (cb : Cb) (fuel : Nat) : ∀ c a, Good c fuel (getBuf cb fuel c a) := by
  induction fuel with
  | zero =>
    intro c a
    unfold getBuf
    split
    · have hf := finish_fields c ‹Nat› 0 0 0 0 false
      exact good_same c 0 _ (finish_slots _ _ _ _ _ _ _) ⟨hf.2.2.1, hf.2.2.2.1, hf.2.1, hf.1⟩ (fun _ => hf.2.2.2.2)
    · split
      · exact good_same c 0 _ rfl ⟨rfl, rfl, rfl, rfl⟩ (fun _ => rfl)
      · rename_i i hp
        have hu := pick_usable hp
        refine good_same c 0 _ rfl ⟨rfl, rfl, rfl, rfl⟩ ?_
        intro h
        -- a usable slot exists, so `free c ≥ 1`
        have := sum_set Slot.free c.slots i ⟨a, 0, false, true⟩ hu.1
        have h1 : Slot.free (c.slots.getD i {}) = 1 := by
          have h2 : (c.slots.getD i {}).filling = false := hu.2
          unfold Slot.free; rw [h2]; rfl
        have h3 : Slot.free ⟨a, 0, false, true⟩ = 0 := by simp [Slot.free]
        rw [h3] at this
        have h4 : (c.slots.map Slot.free).sum ≤ 0 := h
        omega
  | succ n ih =>
    intro c a
    unfold getBuf
    split
    · have hf := finish_fields c ‹Nat› 0 0 0 0 false
      exact good_same c _ _ (finish_slots _ _ _ _ _ _ _) ⟨hf.2.2.1, hf.2.2.2.1, hf.2.1, hf.1⟩ (fun _ => hf.2.2.2.2)
    · split
      · exact good_same c _ _ rfl ⟨rfl, rfl, rfl, rfl⟩ (fun _ => rfl)
      · rename_i i hp
        have hu := pick_usable hp
        exact deliver_good cb c n i a _ hu.1 hu.2 (preRead_good cb (getBuf cb n) n ih _ a)

end Kdf.Lemmas.RCache
