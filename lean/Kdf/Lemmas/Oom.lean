import Kdf.Model.Oom
/-! Helper lemmas for C18 (ledger model). -/
namespace Kdf.Lemmas.Oom
open Kdf.Model.Oom

/-- everything of the state except the allocation counter and the trace -/
def Same (s0 s : St) : Prop :=
  s.live = s0.live ∧ s.rd = s0.rd ∧ s.wr = s0.wr ∧ s.bad = s0.bad ∧
  s.shRef = s0.shRef ∧ s.dictRef = s0.dictRef ∧ s.xlatRef = s0.xlatRef ∧ s.failAt = s0.failAt

theorem alloc_none {s s' : St} (h : alloc s = (none, s')) :
    s.cnt + 1 = s.failAt ∧ s'.cnt = s.cnt + 1 ∧ Same s s' := by
  unfold alloc at h
  split at h
  · next hc => cases h; simp [Same, hc]
  · cases h

theorem alloc_some {s s' : St} {i : Nat} (h : alloc s = (some i, s')) :
    s.cnt + 1 ≠ s.failAt ∧ i = s.cnt + 1 ∧ s'.cnt = s.cnt + 1 ∧ s'.live = i :: s.live ∧
    s'.rd = s.rd ∧ s'.wr = s.wr ∧ s'.bad = s.bad ∧ s'.shRef = s.shRef ∧ s'.dictRef = s.dictRef ∧
    s'.xlatRef = s.xlatRef ∧ s'.failAt = s.failAt := by
  unfold alloc at h
  split at h
  · cases h
  · next hc => cases h; simp [hc]

theorem free_head (i : Nat) (s : St) (l : List Nat) (h : s.live = i :: l) :
    (free i s).live = l ∧ (free i s).rd = s.rd ∧ (free i s).wr = s.wr ∧ (free i s).bad = s.bad ∧
    (free i s).shRef = s.shRef ∧ (free i s).dictRef = s.dictRef ∧ (free i s).xlatRef = s.xlatRef ∧
    (free i s).failAt = s.failAt ∧ (free i s).cnt = s.cnt := by
  unfold free
  simp [h]

theorem freeAll_prefix (ids : List Nat) : ∀ (s : St) (l : List Nat), s.live = ids ++ l →
    (freeAll ids s).live = l ∧ (freeAll ids s).rd = s.rd ∧ (freeAll ids s).wr = s.wr ∧
    (freeAll ids s).bad = s.bad ∧ (freeAll ids s).shRef = s.shRef ∧ (freeAll ids s).dictRef = s.dictRef ∧
    (freeAll ids s).xlatRef = s.xlatRef ∧ (freeAll ids s).failAt = s.failAt ∧ (freeAll ids s).cnt = s.cnt := by
  induction ids with
  | nil => intro s l h; simpa [freeAll] using h
  | cons i is ih =>
    intro s l h
    have hf := free_head i s (is ++ l) (by simpa using h)
    have := ih (free i s) l hf.1
    simp only [freeAll]
    obtain ⟨a1, a2, a3, a4, a5, a6, a7, a8, a9⟩ := this
    obtain ⟨_, b2, b3, b4, b5, b6, b7, b8, b9⟩ := hf
    exact ⟨a1, a2.trans b2, a3.trans b3, a4.trans b4, a5.trans b5, a6.trans b6, a7.trans b7, a8.trans b8, a9.trans b9⟩

/-- what a loop of `k` allocations does to the ledger -/
theorem allocN_spec (k : Nat) : ∀ (s : St),
    let r := allocN k s
    r.2.2.live = r.2.1 ++ s.live ∧ r.2.2.rd = s.rd ∧ r.2.2.wr = s.wr ∧ r.2.2.bad = s.bad ∧
    r.2.2.shRef = s.shRef ∧ r.2.2.dictRef = s.dictRef ∧ r.2.2.xlatRef = s.xlatRef ∧ r.2.2.failAt = s.failAt ∧
    (r.1 = true → r.2.2.cnt = s.cnt + k ∧ r.2.1.length = k ∧ ¬ (s.cnt < s.failAt ∧ s.failAt ≤ s.cnt + k)) ∧
    (r.1 = false → s.cnt < s.failAt ∧ s.failAt ≤ s.cnt + k ∧ r.2.2.cnt = s.failAt) := by
  induction k with
  | zero => intro s; simp [allocN]
  | succ k ih =>
    intro s
    simp only [allocN]
    split
    · next s' h =>
      have := alloc_none h
      obtain ⟨h1, h2, h3⟩ := this
      simp only [Same] at h3
      refine ⟨by simp [h3.1], h3.2.1, h3.2.2.1, h3.2.2.2.1, h3.2.2.2.2.1, h3.2.2.2.2.2.1, h3.2.2.2.2.2.2.1, h3.2.2.2.2.2.2.2, by simp, ?_⟩
      intro _; dsimp only; omega
    · next i s' h =>
      obtain ⟨h1, h2, h3, h4, h5, h6, h7, h8, h9, h10, h11⟩ := alloc_some h
      have := ih s'
      simp only at this
      obtain ⟨a1, a2, a3, a4, a5, a6, a7, a8, a9, a10⟩ := this
      refine ⟨by simp [a1, h4], a2.trans h5, a3.trans h6, a4.trans h7, a5.trans h8, a6.trans h9, a7.trans h10, a8.trans h11, ?_, ?_⟩
      · intro hr
        have := a9 hr
        dsimp only at hr this ⊢
        simp only [List.length_append, List.length_singleton]
        omega
      · intro hr
        have := a10 hr
        dsimp only at hr this ⊢
        omega

end Kdf.Lemmas.Oom
