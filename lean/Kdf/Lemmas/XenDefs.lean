import Kdf.Model.Xen
/-!
# C19 — shared definitions of the helper lemmas

The interface between the two halves of the proof: `Kdf.Lemmas.XenBuild`
shows that the builder establishes `Sorted` and `Covers … ↔ l[i]? = some p`,
`Kdf.Lemmas.XenSearch` shows what `search` returns on a `Sorted` map.
Everything here is stated over `Int` without wrap-around.
-/
namespace Kdf.Lemmas.Xen
open Kdf.Model.Xen

/-- lowest frame of a stored range -/
def lo (r : Range) : Int := if r.len ≥ 0 then (r.pfn : Int) - r.len + 1 else r.pfn
/-- highest frame of a stored range -/
def hi (r : Range) : Int := if r.len ≥ 0 then (r.pfn : Int) else (r.pfn : Int) - r.len - 1
/-- page index of frame `p` of a stored range -/
def ixAt (r : Range) (p : Nat) : Int := if r.len ≥ 0 then (r.idx : Int) + p - r.pfn else (r.idx : Int) + r.pfn - p

/-- a stored range is a real run: at least two frames, inside `[0, 2^64)`, page
indices inside `[0, 2^64 - 1)` -/
def ROk (r : Range) : Prop :=
  (r.len ≥ 2 ∨ r.len ≤ -2) ∧ 0 ≤ lo r ∧ hi r < (W : Int) ∧
  (if r.len ≥ 0 then r.len ≤ (r.idx : Int) + 1 else -r.len ≤ (r.idx : Int) + 1) ∧ r.idx < W - 1

/-- what `pfn2idx_map_search` relies on -/
structure Sorted (m : PMap) : Prop where
  rok : ∀ r ∈ m.ranges, ROk r
  rsorted : m.ranges.Pairwise (fun a b => hi a < lo b)
  ssorted : m.singles.Pairwise (fun a b => a.pfn < b.pfn)

/-- the map says: frame `p` is page `i` -/
def Covers (m : PMap) (p i : Nat) : Prop :=
  (∃ r ∈ m.ranges, lo r ≤ (p : Int) ∧ (p : Int) ≤ hi r ∧ ixAt r p = (i : Int)) ∨
  (∃ s ∈ m.singles, s.pfn = p ∧ s.idx = i)

/-- frame `p` lies in some stored range -/
def InRange (m : PMap) (p : Nat) : Prop := ∃ r ∈ m.ranges, lo r ≤ (p : Int) ∧ (p : Int) ≤ hi r

end Kdf.Lemmas.Xen
