import Kdf.Model.Dump
import Kdf.Lemmas.Pfn
import Kdf.Lemmas.PfnRegions
import Kdf.Lemmas.PfnFind
import Kdf.Lemmas.PfnMaps
/-! Facts about the diskdump / SADUMP / LKCD lookups of the C01 model. -/
set_option linter.unusedVariables false  -- some hypotheses of the statements are not needed

namespace Kdf.Lemmas.DumpLookup
open Kdf.Model.Pfn Kdf.Model.Dump Kdf.Lemmas.Pfn

/-- number of set bits in `[start, p)` -/
def rank (msb0 : Bool) (bm : Bitmap) (start p : Nat) : Nat :=
  ((List.range (p - start)).filter (fun i => bitOf msb0 bm (start + i))).length

theorem rank_eq_cntB (msb0 : Bool) (bm : Bitmap) (start p : Nat) :
    rank msb0 bm start p = cntB (bitOf msb0 bm) start (p - start) := rfl

theorem maximal_sorted {rs : List Region} (h : RegionsMaximal rs) : RegionsSorted rs :=
  ⟨h.1.imp (fun h => Nat.le_of_lt h), h.2⟩

/-- PFN → position: a frame whose bit is set inside the window is found at
`fileoff + esz · rank`; every other frame is not found.  (diskdump: LSB0,
`esz = 24`, position of the page descriptor; SADUMP: MSB0, `esz` = page size,
position of the page data relative to the start of the data area.) -/
theorem pfnToPos_spec (msb0 : Bool) (bm : Bitmap) (hb : BytesWF bm) (startPfn endPfn fileoff esz : Nat)
    (hlen : (endPfn + 7) / 8 ≤ bm.length) (p : Nat) :
    pfnToPos (regionsFromBitmap bm msb0 startPfn endPfn fileoff esz) esz p =
      if startPfn ≤ p ∧ p < endPfn ∧ bitOf msb0 bm p = true then some (fileoff + esz * rank msb0 bm startPfn p)
      else none := by
  have key : RegionsMaximal (regionsFromBitmap bm msb0 startPfn endPfn fileoff esz) ∧
      (∀ r ∈ regionsFromBitmap bm msb0 startPfn endPfn fileoff esz,
        startPfn ≤ r.pfn ∧ r.pfn + r.cnt ≤ endPfn ∧ ∀ p, r.has p → bitOf msb0 bm p = true) ∧
      (∀ p, startPfn ≤ p → p < endPfn → bitOf msb0 bm p = true →
        ∃ r ∈ regionsFromBitmap bm msb0 startPfn endPfn fileoff esz, r.has p) ∧
      (∀ r ∈ regionsFromBitmap bm msb0 startPfn endPfn fileoff esz,
        r.pos = fileoff + esz * cntB (bitOf msb0 bm) startPfn (r.pfn - startPfn)) :=
    rgo_spec msb0 bm hb endPfn esz ((endPfn + 7) / 8) (by omega) (endPfn + 1) startPfn fileoff (by omega)
  generalize regionsFromBitmap bm msb0 startPfn endPfn fileoff esz = rs at key
  obtain ⟨hmax, hin, hcov, hpos⟩ := key
  have hs := maximal_sorted hmax
  unfold pfnToPos
  cases hfr : findRegion rs p with
  | none =>
    have hn := findRegion_none hs hfr
    dsimp only
    rw [if_neg]
    rintro ⟨h1, h2, h3⟩
    obtain ⟨r, hr, hh⟩ := hcov p h1 h2 h3
    have := hn r hr
    have := hh.2
    omega
  | some r =>
    obtain ⟨hr, hlt, hmin⟩ := findRegion_some hs hfr
    dsimp only
    obtain ⟨i1, i2, i3⟩ := hin r hr
    by_cases hge : p ≥ r.pfn
    · rw [if_pos hge, if_pos ⟨by omega, by omega, i3 p ⟨hge, hlt⟩⟩]
      congr 1
      rw [hpos r hr, rank_eq_cntB]
      have e : p - startPfn = (r.pfn - startPfn) + (p - r.pfn) := by omega
      rw [e, cntB_add, cntB_true _ (startPfn + (r.pfn - startPfn)) (p - r.pfn)
        (fun i hi => i3 _ ⟨by omega, by omega⟩), Nat.mul_add, Nat.mul_comm (p - r.pfn) esz]
      omega
    · rw [if_neg hge, if_neg]
      rintro ⟨h1, h2, h3⟩
      obtain ⟨r', hr', hh⟩ := hcov p h1 h2 h3
      have := hmin r' hr' hh.2
      have := hh.1
      omega

/-- single-file diskdump: `diskdump_read_page` locates the descriptor of frame
`p` at `descoff + 24·rank p` when the bit is set, reports an excluded page when
it is clear and an out-of-bounds frame beyond `max_pfn`. -/
theorem ddLocate_single (bm : Bitmap) (hb : BytesWF bm) (maxPfn ps descoff : Nat)
    (hlen : (maxPfn + 7) / 8 ≤ bm.length) (hmax : maxPfn < 2^64 - 1)
    (readDesc : Nat → Nat → Option PageDesc) (p : Nat) :
    ddLocate [(⟨regionsFromBitmap bm false 0 maxPfn descoff 24, 0, 2^64 - 1⟩, 0)] maxPfn ps readDesc p =
      if p ≥ maxPfn then .oob
      else if bitOf false bm p = false then .excluded
      else match readDesc 0 (descoff + 24 * rank false bm 0 p) with
        | none => .ioerr
        | some pd =>
          match ddMethod pd.flags with
          | some .raw => if pd.size ≠ ps then .corrupt else .data 0 pd.offset pd.size .raw
          | some .lzo => .notimpl
          | some meth => .data 0 pd.offset pd.size meth
          | none => .corrupt := by
  unfold ddLocate
  by_cases hge : p ≥ maxPfn
  · rw [if_pos hge, if_pos hge]
  · rw [if_neg hge, if_neg hge]
    have hff : findFileMap (List.map (·.1) [((⟨regionsFromBitmap bm false 0 maxPfn descoff 24, 0, 2^64 - 1⟩ : FileMap), 0)]) p
        = some (0, ⟨regionsFromBitmap bm false 0 maxPfn descoff 24, 0, 2^64 - 1⟩) := by
      simp only [List.map_cons, List.map_nil, findFileMap, findFileMap.go]
      rw [if_pos (by omega)]
    rw [hff]
    dsimp only
    rw [if_pos (Nat.zero_le _), pfnToPos_spec false bm hb 0 maxPfn descoff 24 hlen p]
    by_cases hbit : bitOf false bm p = true
    · rw [if_pos ⟨Nat.zero_le _, by omega, hbit⟩, if_neg (by simp [hbit])]
      simp
      rfl
    · rw [if_neg (by intro h; exact hbit h.2.2), if_pos (by simpa using hbit)]

/-- position `pos` of the concatenated data areas lies in the extent found by the walk -/
theorem sadumpWalk_spec (exts : List Extent) (pos : Nat) :
    match sadumpWalk exts pos with
    | some (fidx, p) => ∃ pre e post, exts = pre ++ e :: post ∧ e.fidx = fidx ∧
        (pre.map (·.dataLen)).sum ≤ pos ∧ pos < (pre.map (·.dataLen)).sum + e.dataLen ∧
        p = e.dataPos + (pos - (pre.map (·.dataLen)).sum)
    | none => (exts.map (·.dataLen)).sum ≤ pos := by
  induction exts generalizing pos with
  | nil => simp [sadumpWalk]
  | cons e es ih =>
    unfold sadumpWalk
    by_cases hge : pos ≥ e.dataLen
    · rw [if_pos hge]
      have := ih (pos - e.dataLen)
      split at this
      · rename_i fidx p heq
        obtain ⟨pre, e', post, h1, h2, h3, h4, h5⟩ := this
        refine ⟨e :: pre, e', post, by rw [h1]; rfl, h2, ?_, ?_, ?_⟩
        · simp only [List.map_cons, List.sum_cons]; omega
        · simp only [List.map_cons, List.sum_cons]; omega
        · simp only [List.map_cons, List.sum_cons]; omega
      · rename_i heq
        simp only [List.map_cons, List.sum_cons]; omega
    · rw [if_neg hge]
      refine ⟨[], e, es, rfl, rfl, ?_, ?_, ?_⟩ <;> simp <;> omega

/-! ### LKCD: the page stream and the descriptor search -/

/-- offsets of the descriptors of a page stream that starts at `off` -/
def streamOffs : List LkcdDesc → Nat → List Nat
  | [], _ => []
  | d :: ds, off => off :: streamOffs ds (off + 16 + d.size)

/-- offset right behind the stream -/
def streamEnd : List LkcdDesc → Nat → Nat
  | [], off => off
  | d :: ds, off => streamEnd ds (off + 16 + d.size)

/-- the descriptor reader of a well-formed file: the page descriptors (no END
flag), then one END marker -/
def streamReader (ds : List LkcdDesc) (dataOff : Nat) (off : Nat) : Option LkcdDesc :=
  match (streamOffs ds dataOff).idxOf? off with
  | some i => ds[i]?
  | none => if off = streamEnd ds dataOff then some ⟨0, 0, 4⟩ else none

/-- frame number of descriptor -/
def pfnOf (shift : Nat) (d : LkcdDesc) : Nat := d.address / 2^shift

/-- the state after `k` descriptors were indexed -/
def Inv (ds : List LkcdDesc) (dataOff shift : Nat) (st : LkcdState) : Prop :=
  ∃ k, k ≤ ds.length ∧
    st.lastOffset = streamEnd (ds.take k) dataOff ∧
    st.index = ((ds.take k).zip (streamOffs ds dataOff)).map (fun (d, o) => (pfnOf shift d, o)) ∧
    (st.endOffset = 0 ∨ (k = ds.length ∧ st.endOffset = st.lastOffset)) ∧
    (dataOff ≠ 0)

/-! helper lemmas for the descriptor search -/

theorem streamOffs_length : ∀ (ds : List LkcdDesc) (off : Nat), (streamOffs ds off).length = ds.length
  | [], _ => rfl
  | d :: ds, off => by simp [streamOffs, streamOffs_length ds]

theorem streamOffs_getElem : ∀ (ds : List LkcdDesc) (off i : Nat) (h : i < (streamOffs ds off).length),
    (streamOffs ds off)[i] = streamEnd (ds.take i) off
  | [], _, _, h => by simp [streamOffs] at h
  | d :: ds, off, 0, _ => by simp [streamOffs, streamEnd]
  | d :: ds, off, i+1, h => by
    simp only [streamOffs, List.getElem_cons_succ, List.take_succ_cons, streamEnd]
    exact streamOffs_getElem ds _ i _

theorem streamEnd_take_succ : ∀ (ds : List LkcdDesc) (off i : Nat) (h : i < ds.length),
    streamEnd (ds.take (i+1)) off = streamEnd (ds.take i) off + 16 + ds[i].size
  | [], _, _, h => by simp at h
  | d :: ds, off, 0, _ => by simp [streamEnd]
  | d :: ds, off, i+1, h => by
    simp only [List.take_succ_cons, streamEnd, List.getElem_cons_succ]
    exact streamEnd_take_succ ds _ i _

theorem streamEnd_take_lt (ds : List LkcdDesc) (off : Nat) :
    ∀ j i, i < j → j ≤ ds.length → streamEnd (ds.take i) off < streamEnd (ds.take j) off := by
  intro j
  induction j with
  | zero => intro i h; omega
  | succ j ih =>
    intro i hij hj
    rw [streamEnd_take_succ ds off j (by omega)]
    by_cases he : i = j
    · subst he; omega
    · have := ih i (by omega) (by omega); omega

theorem streamEnd_take_ge (ds : List LkcdDesc) (off i : Nat) (h : i ≤ ds.length) :
    off ≤ streamEnd (ds.take i) off := by
  cases i with
  | zero => simp [streamEnd]
  | succ i => have := streamEnd_take_lt ds off (i+1) 0 (by omega) h; simp [streamEnd] at this; omega

theorem reader_at (ds : List LkcdDesc) (off k : Nat) (h : k < ds.length) :
    streamReader ds off (streamEnd (ds.take k) off) = some ds[k] := by
  have hi : (streamOffs ds off).idxOf? (streamEnd (ds.take k) off) = some k := by
    unfold List.idxOf?
    rw [List.findIdx?_eq_some_iff_getElem]
    refine ⟨by rw [streamOffs_length]; exact h, by simp [streamOffs_getElem], ?_⟩
    intro j hj
    have := streamEnd_take_lt ds off k j hj (by omega)
    simp [streamOffs_getElem]; omega
  unfold streamReader
  rw [hi]
  simp [h]

theorem reader_end (ds : List LkcdDesc) (off : Nat) :
    streamReader ds off (streamEnd ds off) = some ⟨0, 0, 4⟩ := by
  have hi : (streamOffs ds off).idxOf? (streamEnd ds off) = none := by
    rw [List.idxOf?_eq_none_iff]
    intro hm
    obtain ⟨i, hi, he⟩ := List.getElem_of_mem hm
    rw [streamOffs_getElem] at he
    rw [streamOffs_length] at hi
    have := streamEnd_take_lt ds off ds.length i hi (Nat.le_refl _)
    rw [List.take_length] at this
    omega
  unfold streamReader
  rw [hi]
  simp

/-- the answer the specification expects -/
def expect (ds : List LkcdDesc) (dataOff shift p : Nat) : LkcdFind :=
  match (ds.map (pfnOf shift)).idxOf? p with
  | some i => (match ds[i]?, (streamOffs ds dataOff)[i]? with
      | some d, some o => LkcdFind.found o d
      | _, _ => LkcdFind.nodata)
  | none => LkcdFind.nodata

theorem expect_found (ds : List LkcdDesc) (dataOff shift p : Nat)
    (hnd : (ds.map (pfnOf shift)).Nodup) (i : Nat) (h : i < ds.length) (hp : pfnOf shift ds[i] = p) :
    expect ds dataOff shift p = .found (streamEnd (ds.take i) dataOff) ds[i] := by
  have hi : (ds.map (pfnOf shift)).idxOf? p = some i := by
    unfold List.idxOf?
    rw [List.findIdx?_eq_some_iff_getElem]
    refine ⟨by simpa using h, by simp [hp], ?_⟩
    intro j hj
    have := (List.pairwise_iff_getElem.mp (List.nodup_iff_pairwise_ne.mp hnd)) j i
      (by simp; omega) (by simpa using h) hj
    simp only [List.getElem_map] at this
    simp only [List.getElem_map, beq_iff_eq]
    rw [← hp]; exact this
  unfold expect
  rw [hi]
  have h2 : i < (streamOffs ds dataOff).length := by rw [streamOffs_length]; exact h
  simp [h, h2, streamOffs_getElem]

theorem expect_none (ds : List LkcdDesc) (dataOff shift p : Nat)
    (hp : ∀ i (h : i < ds.length), pfnOf shift ds[i] ≠ p) :
    expect ds dataOff shift p = .nodata := by
  have hi : (ds.map (pfnOf shift)).idxOf? p = none := by
    rw [List.idxOf?_eq_none_iff]
    intro hm
    obtain ⟨i, hi, he⟩ := List.getElem_of_mem hm
    simp only [List.getElem_map] at he
    exact hp i (by simpa using hi) he
  unfold expect
  rw [hi]

/-- the index after `k` descriptors -/
def mkIndex (ds : List LkcdDesc) (dataOff shift k : Nat) : List (Nat × Nat) :=
  ((ds.take k).zip (streamOffs ds dataOff)).map (fun (d, o) => (pfnOf shift d, o))

theorem mkIndex_length (ds : List LkcdDesc) (dataOff shift k : Nat) (hk : k ≤ ds.length) :
    (mkIndex ds dataOff shift k).length = k := by
  simp [mkIndex, streamOffs_length]; omega

theorem mkIndex_getElem (ds : List LkcdDesc) (dataOff shift k : Nat) (hk : k ≤ ds.length) (i : Nat)
    (h : i < (mkIndex ds dataOff shift k).length) :
    (mkIndex ds dataOff shift k)[i] =
      (pfnOf shift (ds[i]'(by rw [mkIndex_length _ _ _ _ hk] at h; omega)), streamEnd (ds.take i) dataOff) := by
  simp [mkIndex, streamOffs_getElem]

theorem mkIndex_succ (ds : List LkcdDesc) (dataOff shift k : Nat) (hk : k < ds.length) :
    mkIndex ds dataOff shift k ++ [(pfnOf shift ds[k], streamEnd (ds.take k) dataOff)] =
      mkIndex ds dataOff shift (k+1) := by
  apply List.ext_getElem
  · simp [mkIndex_length _ _ _ _ (Nat.le_of_lt hk), mkIndex_length _ _ _ _ hk]
  · intro i h1 h2
    rw [mkIndex_getElem _ _ _ _ hk]
    rw [mkIndex_length _ _ _ _ hk] at h2
    by_cases hik : i < k
    · rw [List.getElem_append_left (by rw [mkIndex_length _ _ _ _ (Nat.le_of_lt hk)]; exact hik),
        mkIndex_getElem _ _ _ _ (Nat.le_of_lt hk)]
    · have : i = k := by omega
      subst this
      rw [List.getElem_append_right (by rw [mkIndex_length _ _ _ _ (Nat.le_of_lt hk)]; omega)]
      simp [mkIndex_length _ _ _ _ (Nat.le_of_lt hk)]

theorem lookup_none (ds : List LkcdDesc) (dataOff shift k p : Nat) (hk : k ≤ ds.length)
    (h : lkLookup (mkIndex ds dataOff shift k) p = none) :
    ∀ i (hi : i < ds.length), i < k → pfnOf shift ds[i] ≠ p := by
  intro i hi hik hp
  unfold lkLookup at h
  simp only [Option.map_eq_none_iff] at h
  rw [List.find?_eq_none] at h
  have hl : i < (mkIndex ds dataOff shift k).length := by rw [mkIndex_length _ _ _ _ hk]; exact hik
  have := h _ (List.getElem_mem hl)
  rw [mkIndex_getElem _ _ _ _ hk] at this
  simp [hp] at this

theorem lookup_some (ds : List LkcdDesc) (dataOff shift k p off : Nat) (hk : k ≤ ds.length)
    (h : lkLookup (mkIndex ds dataOff shift k) p = some off) :
    ∃ i, ∃ hi : i < ds.length, i < k ∧ pfnOf shift ds[i] = p ∧ off = streamEnd (ds.take i) dataOff := by
  unfold lkLookup at h
  simp only [Option.map_eq_some_iff] at h
  obtain ⟨e, he, rfl⟩ := h
  have h1 := List.find?_some he
  obtain ⟨i, hi, hei⟩ := List.getElem_of_mem (List.mem_of_find?_eq_some he)
  rw [mkIndex_getElem _ _ _ _ hk] at hei
  rw [mkIndex_length _ _ _ _ hk] at hi
  subst hei
  exact ⟨i, by omega, hi, by simpa using h1, rfl⟩

theorem lookup_none_of (ds : List LkcdDesc) (dataOff shift k p : Nat) (hk : k ≤ ds.length)
    (h : ∀ i (hi : i < ds.length), i < k → pfnOf shift ds[i] ≠ p) :
    lkLookup (mkIndex ds dataOff shift k) p = none := by
  cases hl : lkLookup (mkIndex ds dataOff shift k) p with
  | none => rfl
  | some off =>
    obtain ⟨i, hi, hik, hp, _⟩ := lookup_some ds dataOff shift k p off hk hl
    exact absurd hp (h i hi hik)


/-- `Inv` with the number of indexed descriptors made explicit -/
def InvK (ds : List LkcdDesc) (dataOff shift k : Nat) (st : LkcdState) : Prop :=
  k ≤ ds.length ∧
    st.lastOffset = streamEnd (ds.take k) dataOff ∧
    st.index = mkIndex ds dataOff shift k ∧
    (st.endOffset = 0 ∨ (k = ds.length ∧ st.endOffset = st.lastOffset)) ∧
    (dataOff ≠ 0)

theorem inv_iff (ds : List LkcdDesc) (dataOff shift : Nat) (st : LkcdState) :
    Inv ds dataOff shift st ↔ ∃ k, InvK ds dataOff shift k st := Iff.rfl

theorem inv_init (ds : List LkcdDesc) (dataOff shift : Nat) (h : dataOff ≠ 0) :
    Inv ds dataOff shift ⟨dataOff, 0, [], 0⟩ :=
  ⟨0, Nat.zero_le _, by simp [streamEnd], by simp, Or.inl rfl, h⟩

theorem lkSearch_succ (readDesc : Nat → Option LkcdDesc) (shift : Nat) (key : Nat → Nat) (pfn fuel : Nat)
    (st : LkcdState) :
    lkSearch readDesc shift key pfn (fuel+1) st =
      match readDesc st.lastOffset with
      | none => ({ st with endOffset := st.lastOffset }, .eof)
      | some dp =>
        if dp.flags &&& 4 ≠ 0 then ({ st with endOffset := st.lastOffset }, .nodata)
        else
          match lkLookup st.index (key (dp.address / 2^shift)) with
          | some _ => (st, .dup)
          | none =>
            if dp.address / 2^shift = pfn then
              ({ st with index := st.index ++ [(key (dp.address / 2^shift), st.lastOffset)],
                         maxPfn := if dp.address / 2^shift ≥ st.maxPfn then dp.address / 2^shift + 1 else st.maxPfn,
                         lastOffset := st.lastOffset + 16 + dp.size }, .found st.lastOffset dp)
            else lkSearch readDesc shift key pfn fuel
              { st with index := st.index ++ [(key (dp.address / 2^shift), st.lastOffset)],
                        maxPfn := if dp.address / 2^shift ≥ st.maxPfn then dp.address / 2^shift + 1 else st.maxPfn,
                        lastOffset := st.lastOffset + 16 + dp.size } := rfl

theorem lkSearch_spec (ds : List LkcdDesc) (dataOff shift : Nat)
    (hnd : (ds.map (pfnOf shift)).Nodup) (hend : ∀ d ∈ ds, d.flags &&& 4 = 0) (p : Nat) :
    ∀ fuel k st, InvK ds dataOff shift k st → ds.length - k + 1 ≤ fuel →
      (∀ i (hi : i < ds.length), i < k → pfnOf shift ds[i] ≠ p) →
      Inv ds dataOff shift (lkSearch (streamReader ds dataOff) shift id p fuel st).1 ∧
      (lkSearch (streamReader ds dataOff) shift id p fuel st).2 = expect ds dataOff shift p := by
  intro fuel
  induction fuel with
  | zero => intro k st _ hf; omega
  | succ fuel ih =>
    intro k st hinv hf hne
    obtain ⟨hk, hlast, hidx, hendo, hd0⟩ := hinv
    rw [lkSearch_succ]
    by_cases hkl : k = ds.length
    · subst hkl
      rw [hlast, List.take_length, reader_end]
      dsimp only
      rw [if_pos (by decide)]
      refine ⟨⟨ds.length, Nat.le_refl _, ?_, hidx, Or.inr ⟨rfl, rfl⟩, hd0⟩, ?_⟩
      · show streamEnd ds dataOff = _
        rw [List.take_length]
      · exact (expect_none ds dataOff shift p (fun i hi => hne i hi hi)).symm
    · have hlt : k < ds.length := by omega
      rw [hlast, reader_at ds dataOff k hlt]
      dsimp only
      rw [if_neg (by rw [hend _ (List.getElem_mem hlt)]; decide)]
      have hnone : lkLookup st.index (id (ds[k].address / 2^shift)) = none := by
        rw [hidx]
        apply lookup_none_of _ _ _ _ _ hk
        intro i hi hik
        have := (List.pairwise_iff_getElem.mp (List.nodup_iff_pairwise_ne.mp hnd)) i k
          (by simpa using hi) (by simpa using hlt) hik
        show pfnOf shift ds[i] ≠ pfnOf shift ds[k]
        simpa using this
      rw [hnone]
      dsimp only
      have hinv' : InvK ds dataOff shift (k+1)
          { st with index := st.index ++ [(id (ds[k].address / 2^shift), streamEnd (ds.take k) dataOff)],
                    maxPfn := if ds[k].address / 2^shift ≥ st.maxPfn then ds[k].address / 2^shift + 1 else st.maxPfn,
                    lastOffset := streamEnd (ds.take k) dataOff + 16 + ds[k].size } := by
        refine ⟨hlt, (streamEnd_take_succ ds dataOff k hlt).symm, ?_, Or.inl ?_, hd0⟩
        · show st.index ++ [(pfnOf shift ds[k], streamEnd (ds.take k) dataOff)] = _
          rw [hidx, mkIndex_succ _ _ _ _ hlt]
        · rcases hendo with h | ⟨h, _⟩
          · exact h
          · omega
      by_cases hcp : ds[k].address / 2^shift = p
      · rw [if_pos hcp]
        exact ⟨⟨k+1, hinv'⟩, (expect_found ds dataOff shift p hnd k hlt hcp).symm⟩
      · rw [if_neg hcp]
        apply ih (k+1) _ hinv' (by omega)
        intro i hi hik
        by_cases he : i = k
        · subst he; exact hcp
        · exact hne i hi (by omega)

/-- Whatever was read before: asking for frame `p` of a stream without
duplicate frames and without END flags among the pages finds the descriptor of
`p` (at its offset in the stream) or reports missing data, and keeps the
invariant. -/
theorem lkGet_spec (ds : List LkcdDesc) (dataOff shift : Nat)
    (hnd : (ds.map (pfnOf shift)).Nodup) (hend : ∀ d ∈ ds, d.flags &&& 4 = 0)
    (st : LkcdState) (hinv : Inv ds dataOff shift st) (p fuel : Nat) (hf : ds.length + 1 ≤ fuel) :
    let r := lkGet (streamReader ds dataOff) shift id fuel st p
    Inv ds dataOff shift r.1 ∧
    r.2 = (match (ds.map (pfnOf shift)).idxOf? p with
      | some i => (match ds[i]?, (streamOffs ds dataOff)[i]? with
          | some d, some o => LkcdFind.found o d
          | _, _ => LkcdFind.nodata)
      | none => LkcdFind.nodata) := by
  intro r
  show Inv ds dataOff shift r.1 ∧ r.2 = expect ds dataOff shift p
  obtain ⟨k, hK⟩ := hinv
  have hK' := hK
  obtain ⟨hk, hlast, hidx, hendo, hd0⟩ := hK'
  show Inv ds dataOff shift (lkGet (streamReader ds dataOff) shift id fuel st p).1 ∧
    (lkGet (streamReader ds dataOff) shift id fuel st p).2 = expect ds dataOff shift p
  unfold lkGet
  cases hl : lkLookup st.index (id p) with
  | some off =>
    rw [hidx] at hl
    obtain ⟨i, hi, hik, hp, rfl⟩ := lookup_some ds dataOff shift k p _ hk hl
    dsimp only
    rw [reader_at ds dataOff i hi]
    exact ⟨⟨k, hK⟩, (expect_found ds dataOff shift p hnd i hi hp).symm⟩
  | none =>
    rw [hidx] at hl
    have hne := lookup_none ds dataOff shift k p hk hl
    dsimp only
    by_cases heq : st.lastOffset = st.endOffset
    · rw [if_pos heq]
      have h0 := streamEnd_take_ge ds dataOff k hk
      have hkl : k = ds.length := by
        rcases hendo with h | ⟨h, _⟩
        · omega
        · exact h
      subst hkl
      exact ⟨⟨_, hK⟩, (expect_none ds dataOff shift p (fun i hi => hne i hi hi)).symm⟩
    · rw [if_neg heq]
      exact lkSearch_spec ds dataOff shift hnd hend p fuel k st hK (by omega) hne

/-! ### Non-vacuity -/
example : pfnToPos (regionsFromBitmap [0x67, 0x0e] false 0 16 1000 24) 24 6 = some (1000 + 24 * 4) := by decide
example : rank false [0x67, 0x0e] 0 6 = 4 := by decide
example : sadumpWalk [⟨100, 10, 0⟩, ⟨200, 10, 1⟩] 13 = some (1, 203) := by decide
example :
    let ds : List LkcdDesc := [⟨0x3000, 5, 1⟩, ⟨0x1000, 7, 2⟩]
    (lkGet (streamReader ds 64) 12 id 3 ⟨64, 0, [], 0⟩ 1).2 = .found 85 ⟨0x1000, 7, 2⟩ := by decide
example :
    let ds : List LkcdDesc := [⟨0x3000, 5, 1⟩, ⟨0x1000, 7, 2⟩]
    (lkGet (streamReader ds 64) 12 id 3 ⟨64, 0, [], 0⟩ 2).2 = .nodata := by decide

end Kdf.Lemmas.DumpLookup
