import Kdf.Lemmas.ErrList
/-! Array-level effect of the write sequences of `err_vadd` (C16). -/
namespace Kdf.Lemmas.Err
open Kdf.Model.Err

theorem wr_len (arr : List Byte) (o : Nat) (bs : List Byte) (h : o + bs.length ≤ arr.length) :
    (wr arr o bs).1.length = arr.length := by
  rw [wr_eq arr o bs h]; simp; omega

theorem wr_bad (arr : List Byte) (o : Nat) (bs : List Byte) (h : o + bs.length ≤ arr.length) :
    (wr arr o bs).2 = false := by
  rw [wr_eq arr o bs h]

/-- cut a list at an offset -/
theorem split2 (l : List Byte) (k : Nat) (h : k ≤ l.length) :
    ∃ a b, l = a ++ b ∧ a.length = k ∧ b.length = l.length - k :=
  ⟨l.take k, l.drop k, (List.take_append_drop k l).symm, by simp; omega, by simp⟩

theorem nz_append {a b : List Byte} (ha : ∀ x ∈ a, x ≠ 0) (hb : ∀ x ∈ b, x ≠ 0) : ∀ x ∈ a ++ b, x ≠ 0 := by
  intro x hx
  rcases List.mem_append.mp hx with h | h
  · exact ha x h
  · exact hb x h

theorem nz_delim : ∀ x ∈ delim, x ≠ 0 := by decide

theorem fit0_arr (arr : List Byte) (pos : Nat) (msg : List Byte) (hm : ∀ b ∈ msg, b ≠ 0)
    (hs : Shape arr pos []) (hfit : msg.length ≤ pos) :
    Shape (wr arr (pos - msg.length) (msg ++ [0])).1 (pos - msg.length) msg := by
  obtain ⟨_, pre, suf, rfl, hl⟩ := hs
  obtain ⟨p1, p2, rfl, h1, h2⟩ := split2 pre (pos - msg.length) (by omega)
  have : p1 ++ p2 ++ [] ++ 0 :: suf = p1 ++ (p2 ++ [0]) ++ suf := by simp
  rw [this, wr_mid' p1 (p2 ++ [0]) suf (msg ++ [0]) _ h1.symm (by simp at hl ⊢; omega)]
  exact ⟨hm, p1, suf, by simp, h1⟩

theorem fit2_arr (arr : List Byte) (pos : Nat) (msg old : List Byte) (hm : ∀ b ∈ msg, b ≠ 0)
    (hs : Shape arr pos old) (hfit : msg.length + 2 ≤ pos) :
    Shape (wr (wr arr (pos - (msg.length + 2)) (msg ++ [0])).1 (pos - 2) delim).1
      (pos - (msg.length + 2)) (msg ++ delim ++ old) := by
  obtain ⟨ho, pre, suf, rfl, hl⟩ := hs
  obtain ⟨p1, p23, rfl, h1, h2⟩ := split2 pre (pos - (msg.length + 2)) (by omega)
  obtain ⟨p2, p3, rfl, h3, h4⟩ := split2 p23 msg.length (by simp at hl; omega)
  have h5 : p3.length = 2 := by simp at hl h4; omega
  match p3, h5 with
  | [x, y], _ =>
    have e1 : p1 ++ (p2 ++ [x, y]) ++ old ++ 0 :: suf = p1 ++ (p2 ++ [x]) ++ ([y] ++ old ++ 0 :: suf) := by simp
    rw [e1, wr_mid' p1 (p2 ++ [x]) _ (msg ++ [0]) _ h1.symm (by simp; omega)]
    have e2 : p1 ++ (msg ++ [0]) ++ ([y] ++ old ++ 0 :: suf) = (p1 ++ msg) ++ [0, y] ++ (old ++ 0 :: suf) := by simp
    simp only []
    rw [e2, wr_mid' (p1 ++ msg) [0, y] _ delim _ (by simp; omega) rfl]
    exact ⟨nz_append (nz_append hm nz_delim) ho, p1, suf, by simp, h1⟩

theorem alloc0_arr (blk msg : List Byte) (hm : ∀ b ∈ msg, b ≠ 0) (hl : blk.length = msg.length + 2) :
    Shape (wr (wr blk (msg.length + 1) [0]).1 1 (msg ++ [0])).1 1 msg := by
  obtain ⟨b0, b12, rfl, h1, h2⟩ := split2 blk 1 (by omega)
  obtain ⟨b1, b2, rfl, h3, h4⟩ := split2 b12 msg.length (by omega)
  have h5 : b2.length = 1 := by simp at hl h4; omega
  have e1 : b0 ++ (b1 ++ b2) = (b0 ++ b1) ++ b2 ++ [] := by simp
  rw [e1, wr_mid' (b0 ++ b1) b2 [] [0] _ (by simp; omega) (by simp [h5])]
  have e2 : (b0 ++ b1) ++ [0] ++ [] = b0 ++ (b1 ++ [0]) ++ [] := by simp
  simp only []
  rw [e2, wr_mid' b0 (b1 ++ [0]) [] (msg ++ [0]) _ h1.symm (by simp; omega)]
  exact ⟨hm, b0, [], by simp, h1⟩

theorem alloc2_arr (blk msg old : List Byte) (hm : ∀ b ∈ msg, b ≠ 0) (ho : ∀ b ∈ old, b ≠ 0)
    (hl : blk.length = old.length + msg.length + 4) :
    Shape (wr (wr (wr blk (msg.length + 3) (old ++ [0])).1 1 (msg ++ [0])).1 (msg.length + 1) delim).1 1
      (msg ++ delim ++ old) := by
  obtain ⟨b0, b', rfl, h1, h2⟩ := split2 blk 1 (by omega)
  obtain ⟨b1, b'', rfl, h3, h4⟩ := split2 b' msg.length (by omega)
  obtain ⟨b2, b3, rfl, h5, h6⟩ := split2 b'' 2 (by omega)
  have h7 : b3.length = old.length + 1 := by simp at hl; omega
  match b2, h5 with
  | [x, y], _ =>
    have e1 : b0 ++ (b1 ++ ([x, y] ++ b3)) = (b0 ++ b1 ++ [x, y]) ++ b3 ++ [] := by simp
    rw [e1, wr_mid' (b0 ++ b1 ++ [x, y]) b3 [] (old ++ [0]) _ (by simp; omega) (by simp; omega)]
    have e2 : (b0 ++ b1 ++ [x, y]) ++ (old ++ [0]) ++ [] = b0 ++ (b1 ++ [x]) ++ ([y] ++ old ++ [0]) := by simp
    simp only []
    rw [e2, wr_mid' b0 (b1 ++ [x]) _ (msg ++ [0]) _ h1.symm (by simp; omega)]
    have e3 : b0 ++ (msg ++ [0]) ++ ([y] ++ old ++ [0]) = (b0 ++ msg) ++ [0, y] ++ (old ++ [0]) := by simp
    simp only []
    rw [e3, wr_mid' (b0 ++ msg) [0, y] _ delim _ (by simp; omega) rfl]
    exact ⟨nz_append (nz_append hm nz_delim) ho, b0, [], by simp, h1⟩

theorem trunc_arr (arr : List Byte) (pos : Nat) (old bytes dl : List Byte) (r : Nat)
    (hs : Shape arr pos old) (hbl : bytes.length = pos) (hr : r + 1 ≤ pos) (hdl : dl.length = r)
    (hdnz : ∀ b ∈ dl, b ≠ 0) (hnz : ∀ b ∈ (bytes.drop 1).take (pos - r - 1), b ≠ 0) :
    Shape (wr (wr (wr arr 0 bytes).1 0 [60]).1 (pos - r) dl).1 0
      (60 :: (bytes.drop 1).take (pos - r - 1) ++ dl ++ old) := by
  obtain ⟨ho, pre, suf, rfl, hl⟩ := hs
  have e1 : pre ++ old ++ 0 :: suf = [] ++ pre ++ (old ++ 0 :: suf) := by simp
  rw [e1, wr_mid' [] pre _ bytes 0 rfl (by omega)]
  cases bytes with
  | nil => simp at hbl; omega
  | cons b0 bt =>
    have e2 : [] ++ (b0 :: bt) ++ (old ++ 0 :: suf) = [] ++ [b0] ++ (bt ++ (old ++ 0 :: suf)) := by simp
    simp only []
    rw [e2, wr_mid' [] [b0] _ [60] 0 rfl rfl]
    simp only [List.length_cons] at hbl
    have e3 : [] ++ [60] ++ (bt ++ (old ++ 0 :: suf))
        = (60 :: bt.take (pos - r - 1)) ++ bt.drop (pos - r - 1) ++ (old ++ 0 :: suf) := by
      have h := List.take_append_drop (pos - r - 1) bt
      conv => lhs; rw [← h]
      simp
    rw [e3, wr_mid' (60 :: bt.take (pos - r - 1)) _ _ dl _ (by simp; omega) (by simp; omega)]
    refine ⟨nz_append (nz_append ?_ hdnz) ho, [], suf, by simp, rfl⟩
    intro b hb
    rcases List.mem_cons.mp hb with rfl | hb
    · decide
    · exact hnz b (by simpa using hb)

theorem noroom_arr (arr : List Byte) (x : Byte) (xs : List Byte) (hs : Shape arr 0 (x :: xs)) :
    Shape (wr arr 0 [60]).1 0 (60 :: xs) := by
  obtain ⟨ho, pre, suf, rfl, hl⟩ := hs
  have : pre = [] := List.length_eq_zero_iff.mp hl
  subst this
  have e1 : [] ++ x :: xs ++ 0 :: suf = [] ++ [x] ++ (xs ++ 0 :: suf) := by simp
  rw [e1, wr_mid' [] [x] _ [60] 0 rfl rfl]
  refine ⟨?_, [], suf, by simp, rfl⟩
  intro b hb
  rcases List.mem_cons.mp hb with rfl | hb
  · decide
  · exact ho b (List.mem_cons_of_mem _ hb)

end Kdf.Lemmas.Err
