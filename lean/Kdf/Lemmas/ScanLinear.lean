import Kdf.Model.Scan
/-!
# Lemmas for C08: `highest_linear` is sound for images whose mapped runs are uniformly linear or not

`highest_linear` (step.c) decides the end of a linear region (x86-64 kernel text and direct map,
riscv64 and arm linear maps): it checks the virtual-to-physical offset only at the FIRST page of every
contiguous mapped run and then skips to the end of the run.  This is sound exactly for images "laid out
the way the supported kernels lay out memory": a contiguous mapped run is linear as a whole or not at
all (`RunUniform`).  The theorem is stated against the specifications of the two scanners it calls
(`LMOk`, `LUOk`), which `Kdf.Lemmas.Scan` proves for the x86-64 paging forms; `Kdf.Lemmas.ScanX64` composes
the two (`x64_highestLinear_sound`, no hypothesis about the scanners left).
-/
namespace Kdf.Lemmas.ScanLinear
open Kdf.Model.Pgt Kdf.Model.Scan

/-- `tr x` = the hardware walk of `x` (status only matters here) -/
abbrev Tr := Nat → Except XStatus Step

def Mapped (tr : Tr) (x : Nat) : Prop := ∃ s, tr x = .ok s

/-- specification of `lowest_mapped` from `addr` (page-aligned start `lo`) up to `limit`.
CHANGE (one conjunct, one parameter): the OK case additionally says that the answer is page aligned,
`andNot a pm = a` (`pm` = page mask, new parameter).  Reason: `highest_linear` restarts `lowest_unmapped`
from the answer `a`, whose scan starts at `andNot a pm`; without alignment an unmapped address of
`[andNot a pm, a)` could be reported as the end of the run that starts at `a` (then `*addr` would move
below the checked address, for `a2 = 0` even wrap to `W - 1`) and the theorem is false.
Original OK case: `lo ≤ a ∧ a ≤ limit ∧ Mapped tr a ∧ ∀ x, lo ≤ x → x < a → ¬ Mapped tr x`. -/
def LMOk (tr : Tr) (pm lo limit : Nat) : Res → Prop
  | .done .ok a _ => lo ≤ a ∧ a ≤ limit ∧ andNot a pm = a ∧ Mapped tr a ∧ ∀ x, lo ≤ x → x < a → ¬ Mapped tr x
  | .done .notpresent _ _ => ∀ x, lo ≤ x → x ≤ limit → ¬ Mapped tr x
  | .done _ _ _ => True
  | .fuel => False
  | .undef => False

/-- specification of `lowest_unmapped` -/
def LUOk (tr : Tr) (lo limit : Nat) : Res → Prop
  | .done .ok a _ => lo ≤ a ∧ a ≤ limit ∧ ¬ Mapped tr a ∧ ∀ x, lo ≤ x → x < a → Mapped tr x
  | .done .notpresent _ _ => ∀ x, lo ≤ x → x ≤ limit → Mapped tr x
  | .done _ _ _ => True
  | .fuel => False
  | .undef => False

/-- `x` translates (through the system under construction) with the required offset -/
def LinAt (conv : Nat → XStatus × Nat) (off x : Nat) : Prop :=
  ∃ pa, conv x = (.ok, pa) ∧ (pa + W - x) % W = off

/-- kernel-layout hypothesis: a contiguous mapped run whose first page is linear is linear throughout -/
def RunUniform (tr : Tr) (conv : Nat → XStatus × Nat) (off : Nat) : Prop :=
  ∀ a b, a ≤ b → (∀ x, a ≤ x → x ≤ b → Mapped tr x) → LinAt conv off a → ∀ x, a ≤ x → x ≤ b → LinAt conv off x

/-- the claim for all addresses up to `a` (and up to `limit`), from the start `lo0` of the first scan -/
def LinUpTo (tr : Tr) (conv : Nat → XStatus × Nat) (off lo0 limit a : Nat) : Prop :=
  ∀ x, lo0 ≤ x → x ≤ a → x ≤ limit → Mapped tr x → LinAt conv off x

/-- the claim for all addresses strictly below the scan frontier `f` -/
def LinBelow (tr : Tr) (conv : Nat → XStatus × Nat) (off lo0 limit f : Nat) : Prop :=
  ∀ x, lo0 ≤ x → x < f → x ≤ limit → Mapped tr x → LinAt conv off x

/-- generalized loop invariant of `highest_linear`: if the status so far is OK, everything up to `*addr`
is checked; everything below the start of the next `lowest_mapped` scan is checked.

The scanner specifications `hlm`/`hlu` are demanded ONLY for the start addresses `a < W` whose
page-aligned start `andNot a pm` lies in `[lo0, limit]` (`lo0` = start of the first scan): these are the
only starts that matter ("phase A").  Every later start lies above the previous answer, because
`lowest_mapped` answers page-aligned addresses (`andNot na pm = na`) and `hmono` lifts `na ≤ na2` to
`na ≤ andNot na2 pm`.  Once `lowest_unmapped` answers `notpresent` its `*addr` is arbitrary (beyond
`limit`, or wrapped to a small value, so the next scans may start below `lo0`, even in the other
canonical half): at that point everything in `[lo0, limit]` is checked already, so the conclusion —
which is restricted to `x ≤ limit` — holds for EVERY result of the remaining iterations ("phase B"):
no induction hypothesis and no scanner specification is used there. -/
theorem highestLinear_inv (launch : Nat → Except XStatus Step) (sf : StepFn) (pf : PagingForm)
    (tr : Tr) (conv : Nat → XStatus × Nat) (limit off : Nat) (pm : Nat) (lo0 : Nat)
    (hlim : limit < W)
    (hmono : ∀ a b, andNot a pm = a → a ≤ b → b ≤ limit → a ≤ andNot b pm)
    (hlm : ∀ a, a < W → lo0 ≤ andNot a pm → andNot a pm ≤ limit →
      LMOk tr pm (andNot a pm) limit (lowestMapped launch sf pf a limit))
    (hlu : ∀ a, a < W → lo0 ≤ andNot a pm → andNot a pm ≤ limit →
      LUOk tr (andNot a pm) limit (lowestUnmapped launch sf pf a limit))
    (hrun : RunUniform tr conv off) :
    ∀ (fuel addr nextaddr : Nat) (ret : XStatus) (h : Nat),
      nextaddr < W → lo0 ≤ andNot nextaddr pm → andNot nextaddr pm ≤ limit →
      (ret = .ok → LinUpTo tr conv off lo0 limit addr) →
      LinBelow tr conv off lo0 limit (andNot nextaddr pm) →
      highestLinear launch sf pf conv limit off fuel addr nextaddr ret = .done .ok h →
      LinUpTo tr conv off lo0 limit h := by
  intro fuel
  induction fuel with
  | zero => intro addr nextaddr ret h _ _ _ _ _ hres; simp [highestLinear] at hres
  | succ n ih =>
    intro addr nextaddr ret h hnW hnlo hnhi hP hF hres
    have hm := hlm nextaddr hnW hnlo hnhi
    unfold highestLinear at hres
    split at hres
    · cases hres
    · cases hres
    · rename_i na s heq
      rw [heq] at hm
      obtain ⟨hlo, hnal, hal, hmna, hunm⟩ := hm
      split at hres
      · rename_i pa hconv
        split at hres
        · -- break
          cases hres
          exact hP rfl
        · rename_i hoff
          have hoff' : (pa + W - na) % W = off := Classical.not_not.mp hoff
          have hlin : LinAt conv off na := ⟨pa, hconv, hoff'⟩
          have hu := hlu na (Nat.lt_of_le_of_lt hnal hlim) (by rw [hal]; exact Nat.le_trans hnlo hlo)
            (by rw [hal]; exact hnal)
          rw [hal] at hu
          split at hres
          · cases hres
          · cases hres
          · rename_i st na2 s2 heq2
            rw [heq2] at hu
            split at hres
            · rename_i hst
              cases hres
              exact absurd rfl hst.1
            · rename_i hst
              -- everything up to `na2 - 1` (OK) resp. up to `limit` (notpresent) is checked
              have key : ∀ b, (∀ x, na ≤ x → x ≤ b → Mapped tr x) → LinUpTo tr conv off lo0 limit b := by
                intro b hb x hx0 hxb hxl hxm
                by_cases h1 : x < andNot nextaddr pm
                · exact hF x hx0 h1 hxl hxm
                · by_cases h2 : x < na
                  · exact absurd hxm (hunm x (Nat.le_of_not_lt h1) h2)
                  · exact hrun na b (Nat.le_trans (Nat.le_of_not_lt h2) hxb) hb hlin x (Nat.le_of_not_lt h2) hxb
              have hA : andNot na2 pm ≤ na2 := Nat.and_le_left
              have hst' : st = .ok ∨ st = .notpresent := by
                cases st <;> simp at hst <;> simp
              rcases hst' with hs | hs
              · -- phase A continues: the next scan starts in `[na, limit] ⊆ [lo0, limit]`
                subst hs
                obtain ⟨h1, h2, h3, h4⟩ := hu
                have hlt : na < na2 := by
                  rcases Nat.lt_or_ge na na2 with h | h
                  · exact h
                  · have : na = na2 := Nat.le_antisymm h1 h
                    exact absurd (this ▸ hmna) h3
                have hk := key (na2 - 1) (fun x hx1 hx2 => h4 x hx1 (by omega))
                have hW : W = 18446744073709551616 := by simp [W]
                have hna2W : na2 < W := Nat.lt_of_le_of_lt h2 hlim
                have hle : (na2 + W - 1) % W ≤ na2 - 1 := by
                  have : na2 + W - 1 = (na2 - 1) + W := by omega
                  rw [this, Nat.add_mod_right, Nat.mod_eq_of_lt (by omega)]
                  exact Nat.le_refl _
                have hge : na ≤ andNot na2 pm := hmono na na2 hal (Nat.le_of_lt hlt) h2
                refine ih _ _ _ _ hna2W (Nat.le_trans (Nat.le_trans hnlo hlo) hge)
                  (Nat.le_trans hA h2) ?_ ?_ hres
                · intro _ x hx0 hxa hxl hxm
                  exact hk x hx0 (Nat.le_trans hxa hle) hxl hxm
                · intro x hx0 hxa hxl hxm
                  exact hk x hx0 (by omega) hxl hxm
              · -- phase B: all of `[lo0, limit]` is checked, whatever the remaining iterations do
                subst hs
                intro x hx0 _ hxl hxm
                exact key limit (fun y hy1 hy2 => hu y hy1 hy2) x hx0 hxl hxl hxm
      · rename_i e x hne hconv
        cases hres
        exact (hne rfl).elim
    · rename_i st a s hne heq
      injection hres with h1 h2
      subst h2
      by_cases hnp : st = .notpresent
      · rw [if_pos hnp] at h1
        exact hP h1
      · rw [if_neg hnp] at h1
        exact (hne h1).elim

/-- **highestLinear_sound**: if `highest_linear` answers OK with end address `h`, every address of
`[addr & ~pagemask, min h limit]` that the page tables map translates with offset `off`.
`pm` is the page mask of the paging form.  The scanner specifications `hlm`/`hlu` are required only for
start addresses `a < W` whose page-aligned start lies in `[addr & ~pagemask, limit]` (see
`highestLinear_inv`); `hmono` is the arithmetic fact "`x & ~pm` is monotone above an aligned address"
(true for every `pm = 2^k - 1`, stated for addresses up to `limit` only); `hlo`: the first scan starts
at or below `limit` (otherwise no scan runs and nothing is known about the scanners' answers). -/
theorem highestLinear_sound (launch : Nat → Except XStatus Step) (sf : StepFn) (pf : PagingForm)
    (tr : Tr) (conv : Nat → XStatus × Nat) (limit off : Nat) (pm : Nat)
    (hlim : limit < W)
    (hmono : ∀ a b, andNot a pm = a → a ≤ b → b ≤ limit → a ≤ andNot b pm)
    (fuel addr h : Nat) (haddr : addr < W) (hlo : andNot addr pm ≤ limit)
    (hlm : ∀ a, a < W → andNot addr pm ≤ andNot a pm → andNot a pm ≤ limit →
      LMOk tr pm (andNot a pm) limit (lowestMapped launch sf pf a limit))
    (hlu : ∀ a, a < W → andNot addr pm ≤ andNot a pm → andNot a pm ≤ limit →
      LUOk tr (andNot a pm) limit (lowestUnmapped launch sf pf a limit))
    (hrun : RunUniform tr conv off)
    (hres : highestLinear launch sf pf conv limit off fuel addr addr .notpresent = .done .ok h) :
    ∀ x, andNot addr pm ≤ x → x ≤ h → x ≤ limit → Mapped tr x → LinAt conv off x :=
  highestLinear_inv launch sf pf tr conv limit off pm (andNot addr pm) hlim hmono hlm hlu hrun
    fuel addr addr .notpresent h haddr (Nat.le_refl _) hlo (fun hc => by cases hc)
    (fun x hx0 hxa _ _ => absurd hx0 (Nat.not_le_of_lt hxa)) hres

end Kdf.Lemmas.ScanLinear
