import Kdf.Model.Dump
import Kdf.Lemmas.Pfn
import Kdf.Lemmas.PfnGetBits
/-! Facts about the model of the ELF page lookup (C01). -/
namespace Kdf.Lemmas.DumpElf
open Kdf.Model.Pfn Kdf.Model.Dump

/-- segments sorted by their key in the address space of the request, memory
extents disjoint, file-backed part inside the memory extent -/
def SegsWF (l : List LoadSeg) (kv : Bool) : Prop :=
  l.Pairwise (fun a b => a.key kv + a.memsz ≤ b.key kv) ∧ ∀ s ∈ l, s.filesz ≤ s.memsz

/-- address `a` lies in the memory (`mem = true`) or file-backed extent of a segment -/
def Backed (l : List LoadSeg) (kv mem : Bool) (a : Nat) : Prop :=
  ∃ s ∈ l, s.key kv ≤ a ∧ a < s.key kv + s.ext mem

/-- the byte the dump encodes for address `a`: the file byte of the segment
whose file-backed extent contains `a`, else zero -/
def specByte (l : List LoadSeg) (kv : Bool) (file : Nat → Nat) (a : Nat) : Nat :=
  match l.find? (fun s => decide (s.key kv ≤ a ∧ a < s.key kv + s.filesz)) with
  | some s => file (s.fileOffset + (a - s.key kv))
  | none => 0

/-- the array the lookup walks -/
def arrOf (sorted vsorted : List LoadSeg) (kv : Bool) : List LoadSeg := if kv then vsorted else sorted


/-! ### helpers -/

theorem pw_mem {α : Type} {R : α → α → Prop} {l : List α} (h : l.Pairwise R) {a b : α}
    (ha : a ∈ l) (hb : b ∈ l) : a = b ∨ R a b ∨ R b a := by
  induction h with
  | nil => cases ha
  | cons hx _ ih =>
    rw [List.mem_cons] at ha hb
    rcases ha with rfl | ha <;> rcases hb with rfl | hb
    · exact Or.inl rfl
    · exact Or.inr (Or.inl (hx _ hb))
    · exact Or.inr (Or.inr (hx _ ha))
    · exact ih ha hb

theorem ext_le_memsz {s : LoadSeg} (h : s.filesz ≤ s.memsz) (mem : Bool) : s.ext mem ≤ s.memsz := by
  unfold LoadSeg.ext; split <;> omega

/-- an address lies in the memory extent of at most one segment -/
theorem seg_unique {l : List LoadSeg} {kv : Bool} (h : SegsWF l kv) {s x : LoadSeg} (hs : s ∈ l) (hx : x ∈ l)
    {a : Nat} (h1 : s.key kv ≤ a) (h2 : a < s.key kv + s.memsz) (h3 : x.key kv ≤ a)
    (h4 : a < x.key kv + x.memsz) : s = x := by
  rcases pw_mem h.1 hs hx with e | e | e
  · exact e
  · exfalso; omega
  · exfalso; omega

/-- segment `s` is non-empty and ends at or after `addr` -/
def LHit (kv mem : Bool) (addr : Nat) (s : LoadSeg) : Prop :=
  s.ext mem ≠ 0 ∧ addr ≤ s.key kv + s.ext mem - 1

theorem fc_toSegs_some {arr : List LoadSeg} {kv mem : Bool} {addr dist i : Nat}
    (h : findClosest (toSegs arr kv mem) addr dist = some i) :
    ∃ pre s post, arr = pre ++ s :: post ∧ i = pre.length ∧ (∀ x ∈ pre, ¬ LHit kv mem addr x) ∧
      LHit kv mem addr s ∧ ¬ (addr < s.key kv ∧ s.key kv - addr ≥ dist) := by
  obtain ⟨pre, s, post, e1, e2, e3, e4, e5⟩ := Kdf.Lemmas.Pfn.findClosest_some h
  unfold toSegs at e1
  rw [List.map_eq_append_iff] at e1
  obtain ⟨l1, l2, rfl, rfl, e1⟩ := e1
  rw [List.map_eq_cons_iff] at e1
  obtain ⟨s', post', rfl, rfl, rfl⟩ := e1
  refine ⟨l1, s', post', rfl, by simpa using e2, ?_, e4, e5⟩
  intro x hx
  exact e3 _ (List.mem_map.mpr ⟨x, hx, rfl⟩)

theorem fc_toSegs_none {arr : List LoadSeg} {kv mem : Bool} {addr dist : Nat}
    (h : findClosest (toSegs arr kv mem) addr dist = none) :
    (∀ x ∈ arr, ¬ LHit kv mem addr x) ∨
    ∃ pre s post, arr = pre ++ s :: post ∧ (∀ x ∈ pre, ¬ LHit kv mem addr x) ∧
      LHit kv mem addr s ∧ addr < s.key kv ∧ s.key kv - addr ≥ dist := by
  rcases Kdf.Lemmas.Pfn.findClosest_none h with hall | ⟨pre, s, post, e1, e3, e4, e5, e6⟩
  · left
    intro x hx
    exact hall _ (List.mem_map.mpr ⟨x, hx, rfl⟩)
  · right
    unfold toSegs at e1
    rw [List.map_eq_append_iff] at e1
    obtain ⟨l1, l2, rfl, rfl, e1⟩ := e1
    rw [List.map_eq_cons_iff] at e1
    obtain ⟨s', post', rfl, rfl, rfl⟩ := e1
    refine ⟨l1, s', post', rfl, ?_, e4, e5, e6⟩
    intro x hx
    exact e3 _ (List.mem_map.mpr ⟨x, hx, rfl⟩)

/-- the scan without the shortcut, as a function of the array only -/
def pureSeg (arr : List LoadSeg) (kv mem : Bool) (addr dist : Nat) : Option LoadSeg :=
  match findClosest (toSegs arr kv mem) addr dist with
  | none => none
  | some i => arr[i]?

/-- what sortedness gives for a first hit -/
theorem first_hit {pre post : List LoadSeg} {s : LoadSeg} {kv mem : Bool} {addr : Nat}
    (h : SegsWF (pre ++ s :: post) kv) (hpre : ∀ x ∈ pre, ¬ LHit kv mem addr x) :
    ∀ x ∈ pre ++ s :: post, ∀ a, addr ≤ a → x.key kv ≤ a → a < x.key kv + x.ext mem → s.key kv ≤ a := by
  intro x hx a ha h1 h2
  rw [List.mem_append, List.mem_cons] at hx
  rcases hx with hx | rfl | hx
  · exfalso
    apply hpre x hx
    constructor <;> omega
  · exact h1
  · have := h.1
    rw [List.pairwise_append, List.pairwise_cons] at this
    have := this.2.1.1 x hx
    omega

theorem pureSeg_some {arr : List LoadSeg} {kv mem : Bool} (h : SegsWF arr kv) {addr dist : Nat} {s : LoadSeg}
    (hp : pureSeg arr kv mem addr dist = some s) :
    s ∈ arr ∧ s.ext mem ≠ 0 ∧ addr < s.key kv + s.ext mem ∧ (s.key kv ≤ addr ∨ s.key kv < addr + dist) ∧
    ∀ x ∈ arr, ∀ a, addr ≤ a → x.key kv ≤ a → a < x.key kv + x.ext mem → s.key kv ≤ a := by
  unfold pureSeg at hp
  split at hp
  · cases hp
  · rename_i i hfc
    obtain ⟨pre, s', post, rfl, rfl, e3, e4, e5⟩ := fc_toSegs_some hfc
    rw [List.getElem?_append_right (Nat.le_refl _)] at hp
    simp only [Nat.sub_self, List.getElem?_cons_zero, Option.some.injEq] at hp
    subst hp
    obtain ⟨k1, k2⟩ := e4
    refine ⟨by simp, k1, by omega, by omega, first_hit h e3⟩

theorem not_backed_of_not_hit {arr : List LoadSeg} {kv mem : Bool} {addr : Nat}
    (hall : ∀ x ∈ arr, ¬ LHit kv mem addr x) : ∀ a, addr ≤ a → ¬ Backed arr kv mem a := by
  intro a ha ⟨x, hx, h1, h2⟩
  apply hall x hx
  constructor <;> omega

theorem pureSeg_none {arr : List LoadSeg} {kv mem : Bool} (h : SegsWF arr kv) {addr dist : Nat}
    (hp : pureSeg arr kv mem addr dist = none) :
    ∀ a, addr ≤ a → a < addr + dist → ¬ Backed arr kv mem a := by
  unfold pureSeg at hp
  split at hp
  · rename_i hfc
    rcases fc_toSegs_none hfc with hall | ⟨pre, s, post, rfl, e3, e4, e5, e6⟩
    · intro a ha _
      exact not_backed_of_not_hit hall a ha
    · intro a ha1 ha2 ⟨x, hx, h1, h2⟩
      have := first_hit h e3 x hx a ha1 h1 h2
      omega
  · rename_i i hfc
    obtain ⟨pre, s', post, rfl, rfl, e3, e4, e5⟩ := fc_toSegs_some hfc
    rw [List.getElem?_append_right (Nat.le_refl _)] at hp
    simp at hp



/-- the scan finds the segment whose extent contains `addr` -/
theorem pureSeg_of_contains {arr : List LoadSeg} {kv mem : Bool} (h : SegsWF arr kv) {addr : Nat} (dist : Nat)
    {s : LoadSeg} (hs : s ∈ arr) (h1 : s.key kv ≤ addr) (h2 : addr - s.key kv < s.ext mem) :
    pureSeg arr kv mem addr dist = some s := by
  have hle := ext_le_memsz (h.2 s hs) mem
  cases hp : pureSeg arr kv mem addr dist with
  | none =>
    exfalso
    unfold pureSeg at hp
    split at hp
    · rename_i hfc
      rcases fc_toSegs_none hfc with hall | ⟨pre, s', post, rfl, e3, e4, e5, e6⟩
      · apply hall s hs
        constructor <;> omega
      · have := first_hit h e3 s hs addr (Nat.le_refl _) h1 (by omega)
        omega
    · rename_i i hfc
      obtain ⟨pre, s', post, rfl, rfl, e3, e4, e5⟩ := fc_toSegs_some hfc
      rw [List.getElem?_append_right (Nat.le_refl _)] at hp
      simp at hp
  | some s' =>
    obtain ⟨k1, k2, k3, k4, k5⟩ := pureSeg_some h hp
    have := k5 s hs addr (Nat.le_refl _) h1 (by omega)
    have hle' := ext_le_memsz (h.2 s' k1) mem
    rw [seg_unique h hs k1 h1 (by omega) this (by omega)]

/-- the shortcut through the remembered segment never changes the segment found -/
theorem findSeg_snd (sorted vsorted : List LoadSeg) (kv mem : Bool)
    (h : SegsWF (arrOf sorted vsorted kv) kv) (last : ElfLast) (addr dist : Nat) :
    (findSeg sorted vsorted last kv mem addr dist).2 = pureSeg (arrOf sorted vsorted kv) kv mem addr dist := by
  have hscan : ∀ last : ElfLast,
      (match findClosest (toSegs (arrOf sorted vsorted kv) kv mem) addr dist with
        | none => (last, none)
        | some i => match (arrOf sorted vsorted kv)[i]? with
          | none => (last, none)
          | some s => (if kv then { last with vload := some i } else { last with load := some i }, some s) :
        ElfLast × Option LoadSeg).2 = pureSeg (arrOf sorted vsorted kv) kv mem addr dist := by
    intro last
    unfold pureSeg
    split
    · rfl
    · split <;> simp [*]
  unfold findSeg
  simp only []
  have harr : (if kv = true then vsorted else sorted) = arrOf sorted vsorted kv := rfl
  rw [harr]
  split
  · rename_i s hsh
    show some s = _
    split at hsh
    · cases hsh
    · rename_i i hi
      split at hsh
      · cases hsh
      · rename_i s' hs'
        split at hsh
        · rename_i hc
          cases hsh
          exact (pureSeg_of_contains h dist (List.mem_of_getElem? hs') hc.1 hc.2).symm
        · cases hsh
  · exact hscan last


/-- the assembly loop does not depend on the remembered segment either -/
theorem loop_snd_indep (sorted vsorted : List LoadSeg) (kv : Bool)
    (h : SegsWF (arrOf sorted vsorted kv) kv) : ∀ (fuel : Nat) (last1 last2 : ElfLast) (addr rem : Nat)
      (acc : List Piece),
      (elfReadLoop sorted vsorted kv fuel last1 addr rem acc).2 =
        (elfReadLoop sorted vsorted kv fuel last2 addr rem acc).2 := by
  intro fuel
  induction fuel with
  | zero => intro last1 last2 addr rem acc; rfl
  | succ fuel ih =>
    intro last1 last2 addr rem acc
    rw [elfReadLoop, elfReadLoop]
    by_cases hrem : rem = 0
    · rw [if_pos hrem, if_pos hrem]
    · rw [if_neg hrem, if_neg hrem]
      have e1 := findSeg_snd sorted vsorted kv true h last1 addr rem
      have e2 := findSeg_snd sorted vsorted kv true h last2 addr rem
      generalize findSeg sorted vsorted last1 kv true addr rem = r1 at *
      generalize findSeg sorted vsorted last2 kv true addr rem = r2 at *
      obtain ⟨l1, o1⟩ := r1
      obtain ⟨l2, o2⟩ := r2
      simp only at e1 e2
      subst e1 e2
      generalize pureSeg (arrOf sorted vsorted kv) kv true addr rem = o
      cases o with
      | none => rfl
      | some s =>
        simp only [apply_ite Prod.snd]
        rw [ih l1 l2]


/-- `elf_get_page` without the remembered segments -/
def purePage (sorted vsorted : List LoadSeg) (kv zx : Bool) (addr sz : Nat) : ElfPage :=
  match pureSeg (arrOf sorted vsorted kv) kv zx addr sz with
  | none => if kv then .needXlat else .nodata
  | some s =>
    if s.key kv ≤ addr ∧ s.filesz ≥ addr - s.key kv + sz then .chunk (s.fileOffset + addr - s.key kv)
    else
      match (elfReadLoop sorted vsorted kv (sz + 1) {} addr sz []).2 with
      | some ps => .pieces ps
      | none => .oob

theorem elfGetPage_snd (sorted vsorted : List LoadSeg) (kv zx : Bool)
    (h : SegsWF (arrOf sorted vsorted kv) kv) (last : ElfLast) (addr sz : Nat) :
    (elfGetPage sorted vsorted last kv zx addr sz).2 = purePage sorted vsorted kv zx addr sz := by
  unfold elfGetPage purePage
  have e1 := findSeg_snd sorted vsorted kv zx h last addr sz
  generalize findSeg sorted vsorted last kv zx addr sz = r1 at *
  obtain ⟨l1, o1⟩ := r1
  simp only at e1
  subst e1
  generalize pureSeg (arrOf sorted vsorted kv) kv zx addr sz = o
  cases o with
  | none => rfl
  | some s =>
    simp only []
    split
    · rfl
    · have e2 := loop_snd_indep sorted vsorted kv h (sz + 1) l1 {} addr sz []
      generalize elfReadLoop sorted vsorted kv (sz + 1) l1 addr sz [] = r2 at *
      obtain ⟨l2, o2⟩ := r2
      simp only at e2
      rw [← e2]
      cases o2 <;> rfl


/-! ### the bytes -/

theorem specByte_in {l : List LoadSeg} {kv : Bool} (h : SegsWF l kv) (file : Nat → Nat) {s : LoadSeg}
    (hs : s ∈ l) {a : Nat} (h1 : s.key kv ≤ a) (h2 : a < s.key kv + s.filesz) :
    specByte l kv file a = file (s.fileOffset + (a - s.key kv)) := by
  unfold specByte
  cases hf : l.find? (fun s => decide (s.key kv ≤ a ∧ a < s.key kv + s.filesz)) with
  | none =>
    rw [List.find?_eq_none] at hf
    have := hf s hs
    simp only [decide_eq_true_eq] at this
    omega
  | some s' =>
    have hm := List.mem_of_find?_eq_some hf
    have hp := List.find?_some hf
    simp only [decide_eq_true_eq] at hp
    have h3 := h.2 s hs
    have h4 := h.2 s' hm
    have : s = s' := seg_unique h hs hm h1 (by omega) hp.1 (by omega)
    subst this; rfl

theorem specByte_out {l : List LoadSeg} {kv : Bool} (file : Nat → Nat) {a : Nat}
    (hn : ∀ s ∈ l, ¬ (s.key kv ≤ a ∧ a < s.key kv + s.filesz)) : specByte l kv file a = 0 := by
  unfold specByte
  cases hf : l.find? (fun s => decide (s.key kv ≤ a ∧ a < s.key kv + s.filesz)) with
  | none => rfl
  | some s' =>
    exfalso
    have hm := List.mem_of_find?_eq_some hf
    have hp := List.find?_some hf
    simp only [decide_eq_true_eq] at hp
    exact hn s' hm hp

/-- the pieces `ps` render to the `n` bytes the dump encodes from `addr` on -/
def Rend (arr : List LoadSeg) (kv : Bool) (file : Nat → Nat) (ps : List Piece) (addr n : Nat) : Prop :=
  renderPieces file ps = (List.range n).map (fun i => specByte arr kv file (addr + i))

theorem rend_nil (arr : List LoadSeg) (kv : Bool) (file : Nat → Nat) (addr : Nat) : Rend arr kv file [] addr 0 := rfl

theorem range_split (f : Nat → Nat) (n m : Nat) :
    (List.range (n + m)).map f = (List.range n).map f ++ (List.range m).map (fun i => f (n + i)) := by
  rw [List.range_add, List.map_append, List.map_map]
  rfl

theorem rend_zero {arr : List LoadSeg} {kv : Bool} {file : Nat → Nat} {ps : List Piece} {addr n m : Nat}
    (hz : ∀ i, i < n → specByte arr kv file (addr + i) = 0) (hr : Rend arr kv file ps (addr + n) m) :
    Rend arr kv file (.zero n :: ps) addr (n + m) := by
  unfold Rend at *
  rw [renderPieces, hr, range_split]
  congr 1
  · apply List.ext_getElem
    · simp
    · intro i h1 h2
      simp only [List.length_replicate] at h1
      simp [hz i h1]
  · simp only [Nat.add_assoc]

theorem rend_file {arr : List LoadSeg} {kv : Bool} {file : Nat → Nat} {ps : List Piece} {addr off n m : Nat}
    (hz : ∀ i, i < n → specByte arr kv file (addr + i) = file (off + i)) (hr : Rend arr kv file ps (addr + n) m) :
    Rend arr kv file (.file off n :: ps) addr (n + m) := by
  unfold Rend at *
  rw [renderPieces, hr, range_split]
  congr 1
  · apply List.ext_getElem
    · simp
    · intro i h1 h2
      simp only [List.length_map, List.length_range] at h1
      simp [hz i h1]
  · simp only [Nat.add_assoc]

theorem loop_spec (sorted vsorted : List LoadSeg) (kv : Bool)
    (h : SegsWF (arrOf sorted vsorted kv) kv) (file : Nat → Nat) : ∀ (fuel : Nat) (last : ElfLast) (addr rem : Nat)
      (acc : List Piece), rem < fuel →
      ∃ last' ps, elfReadLoop sorted vsorted kv fuel last addr rem acc = (last', some (acc ++ ps)) ∧
        Rend (arrOf sorted vsorted kv) kv file ps addr rem := by
  intro fuel
  induction fuel with
  | zero => intro last addr rem acc hf; omega
  | succ fuel ih =>
    intro last addr rem acc hf
    rw [elfReadLoop]
    by_cases hrem : rem = 0
    · rw [if_pos hrem]
      subst hrem
      exact ⟨last, [], by simp, rend_nil _ _ _ _⟩
    · rw [if_neg hrem]
      have e1 := findSeg_snd sorted vsorted kv true h last addr rem
      generalize findSeg sorted vsorted last kv true addr rem = r1 at *
      obtain ⟨l1, o1⟩ := r1
      simp only at e1
      subst e1
      cases hp : pureSeg (arrOf sorted vsorted kv) kv true addr rem with
      | none =>
        refine ⟨l1, [.zero rem], rfl, ?_⟩
        refine rend_zero (m := 0) ?_ (rend_nil _ _ _ _)
        intro i hi
        apply specByte_out
        intro x hx hc
        refine pureSeg_none h hp (addr + i) (by omega) (by omega) ⟨x, hx, hc.1, ?_⟩
        have := h.2 x hx
        show _ < _ + x.memsz
        omega
      | some s =>
        dsimp -zeta only
        extract_lets loadaddr gap acc1 addr1 rem1 pos fsz acc2 addr2 rem2 zsz
        obtain ⟨k1, k2, k3, k4, k5⟩ := pureSeg_some h hp
        have hext : s.ext true = s.memsz := rfl
        rw [hext] at k2 k3
        have hfm := h.2 s k1
        have hla : loadaddr = s.key kv := rfl
        have hgap : gap = loadaddr - addr := by simp only [gap]; split <;> omega
        have haddr1 : addr1 = addr + gap := rfl
        have hrem1 : rem1 = rem - gap := rfl
        have hpos : pos = s.fileOffset + addr1 - loadaddr := rfl
        have haddr2 : addr2 = addr1 + fsz := rfl
        have hrem2 : rem2 = rem1 - fsz := rfl
        have hzsz : zsz = min rem2 (loadaddr + s.memsz - addr2) := rfl
        have hfsz : (loadaddr + s.filesz > addr1 ∧ fsz = min rem1 (loadaddr + s.filesz - addr1)) ∨
            (¬ loadaddr + s.filesz > addr1 ∧ fsz = 0) := by
          simp only [fsz]; split <;> omega
        have hacc1 : acc1 = acc ++ (if gap > 0 then [Piece.zero gap] else []) := by
          simp only [acc1]; split <;> simp
        have hacc2 : acc2 = acc ++ ((if gap > 0 then [Piece.zero gap] else []) ++
            (if loadaddr + s.filesz > addr1 then [Piece.file pos fsz] else [])) := by
          simp only [acc2]; rw [hacc1]; split <;> simp
        -- no byte below the segment is backed
        have hzgap : ∀ i, i < gap → specByte (arrOf sorted vsorted kv) kv file (addr + i) = 0 := by
          intro i hi
          apply specByte_out
          intro x hx hc
          have hx2 := h.2 x hx
          have := k5 x hx (addr + i) (by omega) hc.1 (by show _ < _ + x.memsz; omega)
          omega
        have RG : ∀ ps m, Rend (arrOf sorted vsorted kv) kv file ps addr1 m →
            Rend (arrOf sorted vsorted kv) kv file ((if gap > 0 then [Piece.zero gap] else []) ++ ps) addr (gap + m) := by
          intro ps m hr
          by_cases hg : gap > 0
          · rw [if_pos hg]
            exact rend_zero hzgap hr
          · rw [if_neg hg]
            have h0 : gap = 0 := by omega
            rw [haddr1, h0] at hr
            rw [h0, Nat.zero_add]
            exact hr
        have hzfile : ∀ i, i < fsz → specByte (arrOf sorted vsorted kv) kv file (addr1 + i) = file (pos + i) := by
          intro i hi
          rw [specByte_in h file k1 (a := addr1 + i) (by omega) (by omega)]
          congr 1
          omega
        have RF : ∀ ps m, Rend (arrOf sorted vsorted kv) kv file ps addr2 m →
            Rend (arrOf sorted vsorted kv) kv file
              ((if loadaddr + s.filesz > addr1 then [Piece.file pos fsz] else []) ++ ps) addr1 (fsz + m) := by
          intro ps m hr
          by_cases hg : loadaddr + s.filesz > addr1
          · rw [if_pos hg]
            exact rend_file hzfile hr
          · rw [if_neg hg]
            have h0 : fsz = 0 := by omega
            rw [haddr2, h0] at hr
            rw [h0, Nat.zero_add]
            exact hr
        rw [if_neg (by omega)]
        by_cases hr2 : rem2 > 0
        · rw [if_pos hr2]
          obtain ⟨last', ps, e, r⟩ := ih l1 (addr2 + zsz) (rem2 - zsz) (acc2 ++ [Piece.zero zsz]) (by omega)
          have hzz : ∀ i, i < zsz → specByte (arrOf sorted vsorted kv) kv file (addr2 + i) = 0 := by
            intro i hi
            apply specByte_out
            intro x hx hc
            have hx2 := h.2 x hx
            have : s = x := seg_unique h k1 hx (a := addr2 + i) (by omega) (by omega) hc.1 (by omega)
            subst this
            omega
          refine ⟨last', (if gap > 0 then [Piece.zero gap] else []) ++
            ((if loadaddr + s.filesz > addr1 then [Piece.file pos fsz] else []) ++ (Piece.zero zsz :: ps)), ?_, ?_⟩
          · rw [e, hacc2]
            simp only [List.append_assoc, List.singleton_append]
          · have := RG _ _ (RF _ _ (rend_zero hzz r))
            have hsz : gap + (fsz + (zsz + (rem2 - zsz))) = rem := by omega
            rw [hsz] at this
            exact this
        · rw [if_neg hr2]
          refine ⟨l1, (if gap > 0 then [Piece.zero gap] else []) ++
            ((if loadaddr + s.filesz > addr1 then [Piece.file pos fsz] else []) ++ []), ?_, ?_⟩
          · rw [hacc2, List.append_nil]
          · have := RG _ _ (RF _ _ (rend_nil _ _ _ addr2))
            have hsz : gap + (fsz + 0) = rem := by omega
            rw [hsz] at this
            exact this

/-- The remembered segment (`last_load`/`last_vload`) never changes the answer. -/
theorem elf_history_irrelevant (sorted vsorted : List LoadSeg) (kv zx : Bool)
    (h : SegsWF (arrOf sorted vsorted kv) kv) (last : ElfLast) (addr sz : Nat) :
    (elfGetPage sorted vsorted last kv zx addr sz).2 = (elfGetPage sorted vsorted {} kv zx addr sz).2 := by
  rw [elfGetPage_snd sorted vsorted kv zx h last, elfGetPage_snd sorted vsorted kv zx h {}]

/-- `elf_get_page`: missing exactly when no byte of the page is backed (by the
file; by the memory extent when excluded pages are zero-filled); otherwise the
page consists of exactly the bytes the file encodes, zero elsewhere; the
assembly loop never leaves the page buffer. -/
theorem elf_page_spec (sorted vsorted : List LoadSeg) (kv zx : Bool)
    (h : SegsWF (arrOf sorted vsorted kv) kv) (last : ElfLast) (file : Nat → Nat) (addr sz : Nat) (hsz : 0 < sz) :
    let r := (elfGetPage sorted vsorted last kv zx addr sz).2
    (r = (if kv then ElfPage.needXlat else ElfPage.nodata) ↔
        ¬ ∃ a, addr ≤ a ∧ a < addr + sz ∧ Backed (arrOf sorted vsorted kv) kv zx a) ∧
    r ≠ .oob ∧
    (∀ bytes, renderElf file sz r = some bytes →
        bytes = (List.range sz).map (fun i => specByte (arrOf sorted vsorted kv) kv file (addr + i))) ∧
    ((∃ a, addr ≤ a ∧ a < addr + sz ∧ Backed (arrOf sorted vsorted kv) kv zx a) →
        (renderElf file sz r).isSome) := by
  intro r
  have hr : r = purePage sorted vsorted kv zx addr sz := elfGetPage_snd sorted vsorted kv zx h last addr sz
  rw [hr]
  clear hr r
  unfold purePage
  cases hp : pureSeg (arrOf sorted vsorted kv) kv zx addr sz with
  | none =>
    have hnb := pureSeg_none h hp
    have hnb' : ¬ ∃ a, addr ≤ a ∧ a < addr + sz ∧ Backed (arrOf sorted vsorted kv) kv zx a := by
      intro ⟨a, h1, h2, h3⟩
      exact hnb a h1 h2 h3
    refine ⟨⟨fun _ => hnb', fun _ => rfl⟩, ?_, ?_, ?_⟩
    · cases kv <;> simp
    · intro bytes hb
      cases kv <;> simp [renderElf] at hb
    · intro hb
      exact absurd hb hnb'
  | some s =>
    obtain ⟨k1, k2, k3, k4, k5⟩ := pureSeg_some h hp
    have hback : ∃ a, addr ≤ a ∧ a < addr + sz ∧ Backed (arrOf sorted vsorted kv) kv zx a := by
      by_cases hc : s.key kv ≤ addr
      · exact ⟨addr, Nat.le_refl _, by omega, s, k1, hc, k3⟩
      · exact ⟨s.key kv, by omega, by omega, s, k1, Nat.le_refl _, by omega⟩
    dsimp only
    by_cases hch : s.key kv ≤ addr ∧ s.filesz ≥ addr - s.key kv + sz
    · rw [if_pos hch]
      refine ⟨⟨fun e => ?_, fun e => absurd hback e⟩, by simp, ?_, fun _ => rfl⟩
      · cases kv <;> simp at e
      · intro bytes hb
        simp only [renderElf, Option.some.injEq] at hb
        subst hb
        apply List.map_congr_left
        intro i hi
        rw [List.mem_range] at hi
        rw [specByte_in h file k1 (a := addr + i) (by omega) (by omega)]
        congr 1
        omega
    · rw [if_neg hch]
      obtain ⟨last', ps, e, rd⟩ := loop_spec sorted vsorted kv h file (sz + 1) {} addr sz [] (by omega)
      rw [e]
      dsimp only
      refine ⟨⟨fun e => ?_, fun e => absurd hback e⟩, by simp, ?_, fun _ => rfl⟩
      · cases kv <;> simp at e
      · intro bytes hb
        simp only [renderElf, Option.some.injEq, List.nil_append] at hb
        subst hb
        exact rd

end Kdf.Lemmas.DumpElf
