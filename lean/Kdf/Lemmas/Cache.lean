import Kdf.Model.Cache
/-! Invariant of the page-cache model and helper lemmas (C06). -/
namespace Kdf.Lemmas.Cache
open Kdf.Model.Cache

/-- entries that own a buffer and a key right now -/
def live (c : Cache) : List Nat := c.B ++ c.P ++ c.F
def cached (c : Cache) : List Nat := c.B ++ c.P
def ring (c : Cache) : List Nat := c.U ++ c.GB ++ c.B ++ c.P ++ c.GP

def hasData (c : Cache) (i : Nat) : Bool := (c.dataOf i).isSome

/-- The invariant of the cache. -/
structure Inv (c : Cache) : Prop where
  /-- at least one buffer -/
  cap_pos : 0 < c.cap
  /-- `2·cap` entries -/
  len : c.ents.length = 2 * c.cap
  /-- circular list + in-flight list are a partition of all entries (so the
  partition counters add up to `2·cap − ninflight`, no entry is lost or doubled) -/
  part : (ring c ++ c.F).Perm (List.range (2 * c.cap))
  /-- exactly `cap` buffers exist and each is owned by exactly one entry -/
  bufs : ((List.range (2 * c.cap)).filterMap c.dataOf).Perm (List.range c.cap)
  /-- cached and in-flight entries own a buffer -/
  live_data : ∀ i ∈ live c, hasData c i = true
  /-- ghost entries own none -/
  ghost_nodata : ∀ i ∈ c.GB ++ c.GP, hasData c i = false
  /-- unused partition: buffer-less entries first, then buffer-holding ones -/
  u_shape : ∃ u1 u2, c.U = u1 ++ u2 ∧ (∀ i ∈ u1, hasData c i = false) ∧ (∀ i ∈ u2, hasData c i = true)
  /-- one entry per key among cached and in-flight entries -/
  keys_nodup : ((live c).map c.key).Nodup
  /-- cached entries are valid, in-flight ones are not -/
  cached_valid : ∀ i ∈ cached c, (c.ent i).state = .valid
  inflight_invalid : ∀ i ∈ c.F, (c.ent i).state ≠ .valid
  /-- references are held only on cached or in-flight entries, and every
  in-flight entry is referenced (by the caller that is filling it) -/
  ref_live : ∀ i, i < 2 * c.cap → c.refcnt i ≠ 0 → i ∈ live c
  inflight_ref : ∀ i ∈ c.F, c.refcnt i ≠ 0

/-- run a history; stops at the first error -/
def run : Cache → List Op → Except Err Cache
  | c, [] => .ok c
  | c, op :: ops => match step c op with
    | .ok (c', _) => run c' ops
    | .error e => .error e

/-- Protocol condition on `cache_put_entry` that the model does not turn into a `proto`
error: the last reference on an entry that is still in flight must be dropped with
`cache_discard` (which returns the entry to the unused partition), not with
`cache_put_entry` (which would leave an unreferenced entry on the in-flight list). -/
def putOk (c : Cache) : Op → Prop
  | .put e => e ∈ c.F → c.refcnt e ≠ 1
  | _ => True

/-- every `put` of a history satisfies `putOk` in the state it is applied to -/
def runOk : Cache → List Op → Prop
  | _, [] => True
  | c, op :: ops => putOk c op ∧
      match step c op with
      | .ok (c', _) => runOk c' ops
      | .error _ => True

instance putOk.dec (c : Cache) (op : Op) : Decidable (putOk c op) := by
  cases op <;> simp only [putOk] <;> infer_instance

instance runOk.dec : (c : Cache) → (ops : List Op) → Decidable (runOk c ops)
  | _, [] => isTrue trivial
  | c, op :: ops =>
    match h : step c op with
    | .ok (c', o) =>
      have := runOk.dec c' ops
      decidable_of_iff (putOk c op ∧ runOk c' ops) (by simp [runOk, h])
    | .error e => decidable_of_iff (putOk c op) (by simp [runOk, h])

end Kdf.Lemmas.Cache
