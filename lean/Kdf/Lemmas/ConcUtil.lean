import Kdf.Lemmas.ConcInv
import Kdf.Lemmas.ConcCache
/-!
Utilities for the preservation proof of `GInv` (`Kdf/Lemmas/ConcStep.lean`): `List.modify`,
the thread list, the counting functions `holders` / `reading`.
-/
set_option linter.unusedSimpArgs false
namespace Kdf.Lemmas.Conc
open Kdf.Model.Cache Kdf.Model.Conc Kdf.Lemmas.Cache Kdf.Lemmas.ConcCache

/-! ### `List.modify` -/

theorem getD_modify {α : Type} (l : List α) (t : Nat) (f : α → α) (t' : Nat) (d : α) :
    (l.modify t f).getD t' d = if t' = t ∧ t < l.length then f (l.getD t d) else l.getD t' d := by
  simp only [List.getD_eq_getElem?_getD, List.getElem?_modify]
  by_cases hji : t' = t
  · subst hji
    by_cases hlt : t' < l.length
    · simp [hlt]
    · simp [hlt, List.getElem?_eq_none (Nat.le_of_not_lt hlt)]
  · have : ¬ t = t' := fun e => hji e.symm
    simp [hji, this]

/-- counting a predicate over a list after modifying one element -/
theorem count_modify {α : Type} (p : α → Bool) (f : α → α) (d : α) :
    ∀ (l : List α) (t : Nat), t < l.length →
      ((l.modify t f).filter p).length + (if p (l.getD t d) then 1 else 0) =
        (l.filter p).length + (if p (f (l.getD t d)) then 1 else 0)
  | [], t, h => by simp at h
  | a :: l, 0, _ => by
    simp only [List.modify_zero_cons, List.getD_cons_zero, List.filter_cons]
    cases p a <;> cases p (f a) <;> simp <;> omega
  | a :: l, t + 1, h => by
    have ih := count_modify p f d l t (by simpa using h)
    simp only [List.modify_succ_cons, List.getD_cons_succ, List.filter_cons]
    cases hpa : p a
    · simp only [Bool.false_eq_true, if_false]; exact ih
    · simp only [if_true, List.length_cons]; omega

theorem count_pos_of_getD {α : Type} (p : α → Bool) (d : α) :
    ∀ (l : List α) (t : Nat), t < l.length → p (l.getD t d) = true → 0 < (l.filter p).length
  | [], t, h, _ => by simp at h
  | a :: l, 0, _, hp => by
    simp only [List.getD_cons_zero] at hp
    simp [List.filter_cons, hp]
  | a :: l, t + 1, h, hp => by
    have ih := count_pos_of_getD p d l t (by simpa using h) (by simpa using hp)
    simp only [List.filter_cons]
    cases hpa : p a
    · simp only [Bool.false_eq_true, if_false]; exact ih
    · simp only [if_true, List.length_cons]; omega

theorem getD_false_of_count_zero {α : Type} (p : α → Bool) (d : α) (l : List α) (t : Nat)
    (ht : t < l.length) (h0 : (l.filter p).length = 0) : p (l.getD t d) = false := by
  cases hp : p (l.getD t d) with
  | false => rfl
  | true => have := count_pos_of_getD p d l t ht hp; omega

theorem mem_modify {α : Type} (f : α → α) (d : α) : ∀ (l : List α) (t : Nat) (x : α), x ∈ l.modify t f →
    x ∈ l ∨ (t < l.length ∧ x = f (l.getD t d))
  | [], t, x, h => by simp at h
  | a :: l, 0, x, h => by
    simp only [List.modify_zero_cons, List.mem_cons] at h
    rcases h with h | h
    · exact Or.inr ⟨by simp, h⟩
    · exact Or.inl (by simp [h])
  | a :: l, t + 1, x, h => by
    simp only [List.modify_succ_cons, List.mem_cons] at h
    rcases h with h | h
    · exact Or.inl (by simp [h])
    · rcases mem_modify f d l t x h with h | ⟨hy, hxy⟩
      · exact Or.inl (by simp [h])
      · exact Or.inr ⟨by simpa using hy, by simpa only [List.getD_cons_succ] using hxy⟩

theorem getD_mem {α : Type} (l : List α) (t : Nat) (d : α) (ht : t < l.length) : l.getD t d ∈ l := by
  rw [List.getD_eq_getElem?_getD, List.getElem?_eq_getElem ht]
  exact List.getElem_mem ht


/-! ### Program counters -/

theorem holds_of_validAt {pc : Pc} {e : Nat} (h : Pc.validAt pc = some e) : pc.holds = some e := by
  cases pc <;> simp only [Pc.validAt, Pc.holds] at h ⊢ <;> first | exact h | cases h

theorem holds_of_filledOk {pc : Pc} (h : Pc.filledOk pc = true) : ∃ e, pc.holds = some e := by
  cases pc <;> simp only [Pc.filledOk, Pc.holds] at h ⊢ <;> first | exact ⟨_, rfl⟩ | cases h

theorem reading_of_holds {pc : Pc} {e : Nat} (h : pc.holds = some e) : Pc.reading pc = true := by
  cases pc <;> simp only [Pc.reading, Pc.holds] at h ⊢ <;> cases h

/-! ### The thread list -/

theorem thread_upd {s s' : State} {t : Nat} {f : Thread → Thread} (ht : t < s.thr.length)
    (hthr : s'.thr = s.thr.modify t f) (t' : Nat) :
    s'.thread t' = if t' = t then f (s.thread t) else s.thread t' := by
  unfold State.thread
  rw [hthr, getD_modify]
  by_cases h : t' = t
  · simp only [h, ht, and_self, if_true]
  · simp only [h, false_and, if_false]

theorem thread_default {s : State} {t : Nat} (ht : s.thr.length ≤ t) : s.thread t = default := by
  unfold State.thread
  rw [List.getD_eq_getElem?_getD, List.getElem?_eq_none ht]
  rfl

theorem default_pc : (default : Thread).pc = .idle := rfl

theorem lt_of_holds {s : State} {t e : Nat} (h : (s.thread t).pc.holds = some e) : t < s.thr.length := by
  apply Classical.byContradiction
  intro hn
  rw [thread_default (Nat.le_of_not_lt hn), default_pc] at h
  cases h

theorem thread_mem {s : State} {t : Nat} (ht : t < s.thr.length) : s.thread t ∈ s.thr :=
  getD_mem _ _ _ ht

theorem holders_upd {s s' : State} {t : Nat} {f : Thread → Thread} (ht : t < s.thr.length)
    (hthr : s'.thr = s.thr.modify t f) (i : Nat) :
    holders s' i + (if (s.thread t).pc.holds = some i then 1 else 0) =
      holders s i + (if (f (s.thread t)).pc.holds = some i then 1 else 0) := by
  have := count_modify (fun th : Thread => decide (th.pc.holds = some i)) f default s.thr t ht
  simp only [decide_eq_true_eq] at this
  unfold holders State.thread
  rw [hthr]
  exact this

theorem holders_pos {s : State} {t i : Nat} (h : (s.thread t).pc.holds = some i) : 0 < holders s i := by
  have := count_pos_of_getD (fun th : Thread => decide (th.pc.holds = some i)) default s.thr t
    (lt_of_holds h) (by simp only [decide_eq_true_eq]; exact h)
  exact this

theorem reading_upd {s s' : State} {t : Nat} {f : Thread → Thread} (ht : t < s.thr.length)
    (hthr : s'.thr = s.thr.modify t f) :
    (s'.thr.filter fun th => Pc.reading th.pc).length + (if Pc.reading (s.thread t).pc = true then 1 else 0) =
      (s.thr.filter fun th => Pc.reading th.pc).length +
        (if Pc.reading (f (s.thread t)).pc = true then 1 else 0) := by
  have := count_modify (fun th : Thread => Pc.reading th.pc) f default s.thr t ht
  unfold State.thread
  rw [hthr]
  exact this

theorem cached_sub_live {c : Cache} {i : Nat} (h : i ∈ cached c) : i ∈ live c := by
  unfold live; unfold cached at h
  exact List.mem_append_left _ h

theorem live_cases {c : Cache} {i : Nat} (h : i ∈ live c) : i ∈ cached c ∨ i ∈ c.F := by
  unfold live at h; unfold cached
  exact List.mem_append.1 h


/-! ### The invariant in two parts -/

/-- the clauses of `GInv` that speak about the cache and the buffers -/
structure CInv (cap : Nat) (s : State) : Prop where
  cinv : Inv s.cache
  ccap : s.cache.cap = cap
  blen : s.buf.length = cap
  ref : ∀ i, s.cache.refcnt i = holders s i
  hold : ∀ t e, (s.thread t).pc.holds = some e →
    e ∈ live s.cache ∧ s.cache.key e = (s.thread t).key ∧ (s.thread t).dat = s.cache.dataOf e
  valid : ∀ t e, Pc.validAt (s.thread t).pc = some e → e ∈ cached s.cache
  fok : ∀ t, Pc.filledOk (s.thread t).pc = true →
    ∃ d, (s.thread t).dat = some d ∧ s.buf.getD d none = some (s.thread t).key
  cont : ∀ i ∈ cached s.cache, ∃ d, s.cache.dataOf i = some d ∧ s.buf.getD d none = some (s.cache.key i)

theorem GInv.toC {cap n : Nat} {s : State} (h : GInv cap n s) : CInv cap s :=
  ⟨h.cinv, h.ccap, h.blen, h.ref, h.hold, h.valid, h.fok, h.cont⟩

/-- what a step does to `cache_lock` -/
def LockStep (s s' : State) (t : Nat) (pc pc' : Pc) : Prop :=
  (s'.lock = s.lock ∧ pc'.hasLock = pc.hasLock) ∨
  (s.lock = none ∧ s'.lock = some t ∧ pc'.hasLock = true) ∨
  (pc.hasLock = true ∧ s'.lock = none ∧ pc'.hasLock = false)

theorem lockA_step {cap n : Nat} {s s' : State} {t : Nat} {f : Thread → Thread} (h : GInv cap n s)
    (ht : t < s.thr.length) (hthr : s'.thr = s.thr.modify t f)
    (hl : LockStep s s' t (s.thread t).pc (f (s.thread t)).pc) :
    ∀ t', (s'.thread t').pc.hasLock = true ↔ s'.lock = some t' := by
  intro t'
  rw [thread_upd ht hthr]
  by_cases htt : t' = t
  · subst htt
    simp only [if_true]
    rcases hl with ⟨h1, h2⟩ | ⟨h1, h2, h3⟩ | ⟨h1, h2, h3⟩
    · rw [h1, h2]; exact h.lockA t'
    · rw [h2, h3]; simp
    · rw [h2, h3]; simp
  · simp only [htt, if_false]
    rcases hl with ⟨h1, h2⟩ | ⟨h1, h2, h3⟩ | ⟨h1, h2, h3⟩
    · rw [h1]; exact h.lockA t'
    · have := h.lockA t'
      rw [h1] at this
      rw [h2]
      constructor
      · intro hx; exact absurd (this.1 hx) (by simp)
      · intro hx; injection hx with hx; exact absurd hx.symm htt
    · have h4 := (h.lockA t).1 h1
      have := h.lockA t'
      rw [h4] at this
      rw [h2]
      constructor
      · intro hx; have := this.1 hx; injection this with this; exact absurd this.symm htt
      · intro hx; cases hx

/-- assembling `GInv` from its parts -/
theorem ginv_asm' {cap n : Nat} {s s' : State} {t : Nat} {f : Thread → Thread} (h : GInv cap n s)
    (ht : t < s.thr.length) (hthr : s'.thr = s.thr.modify t f)
    (hbad : (f (s.thread t)).bad = false) (hnp : ∀ e tmp, (f (s.thread t)).pc ≠ .putU e tmp)
    (hl : LockStep s s' t (s.thread t).pc (f (s.thread t)).pc)
    (hc : CInv cap s')
    (hwrA : ∀ t, (s'.thread t).pc = .writing ↔ s'.writer = some t)
    (hwrX : s'.writer.isSome → ∀ t, Pc.reading (s'.thread t).pc = false)
    (hrdN : s'.readers = (s'.thr.filter fun th => Pc.reading th.pc).length) : GInv cap n s' := by
  refine ⟨?_, hc.cinv, hc.ccap, hc.blen, hc.ref, lockA_step h ht hthr hl, hwrA, hwrX, hrdN, hc.hold, hc.valid,
    hc.fok, hc.cont, ?_, ?_⟩
  · rw [hthr, List.length_modify]; exact h.len
  · intro x hx
    rw [hthr] at hx
    rcases mem_modify f default _ _ _ hx with hx | ⟨_, hx⟩
    · exact h.bad x hx
    · rw [hx]; exact hbad
  · intro t' e tmp
    rw [thread_upd ht hthr]
    by_cases htt : t' = t
    · simp only [htt, if_true]; exact hnp e tmp
    · simp only [htt, if_false]; exact h.noPutU t' e tmp

/-- assembling `GInv` for a step of a thread inside a read that leaves `shared->lock` alone -/
theorem ginv_asm {cap n : Nat} {s s' : State} {t : Nat} {f : Thread → Thread} (h : GInv cap n s)
    (ht : t < s.thr.length) (hthr : s'.thr = s.thr.modify t f)
    (hw : s'.writer = s.writer) (hr : s'.readers = s.readers)
    (hrd : Pc.reading (s.thread t).pc = true) (hrd' : Pc.reading (f (s.thread t)).pc = true)
    (hbad : (f (s.thread t)).bad = false) (hnp : ∀ e tmp, (f (s.thread t)).pc ≠ .putU e tmp)
    (hl : LockStep s s' t (s.thread t).pc (f (s.thread t)).pc)
    (hc : CInv cap s') : GInv cap n s' := by
  have hnw : ∀ {pc : Pc}, Pc.reading pc = true → pc ≠ .writing := by
    intro pc h1 h2; rw [h2] at h1; cases h1
  refine ginv_asm' h ht hthr hbad hnp hl hc ?_ ?_ ?_
  · intro t'
    rw [thread_upd ht hthr, hw]
    by_cases htt : t' = t
    · subst htt
      simp only [if_true]
      constructor
      · intro hx; exact absurd hx (hnw hrd')
      · intro hx; exact absurd ((h.wrA t').2 hx) (hnw hrd)
    · simp only [htt, if_false]; exact h.wrA t'
  · intro hx
    rw [hw] at hx
    have := h.wrX hx t
    rw [hrd] at this; cases this
  · have := reading_upd ht hthr
    rw [hrd, hrd'] at this
    rw [hr, h.rdN]
    simp only [if_true] at this
    omega

/-- the cache clauses across a step that leaves the cache and the buffers alone -/
theorem cinv_keep {cap n : Nat} {s s' : State} {t : Nat} {f : Thread → Thread} (h : GInv cap n s)
    (ht : t < s.thr.length) (hthr : s'.thr = s.thr.modify t f)
    (hcache : s'.cache = s.cache) (hbuf : s'.buf = s.buf)
    (hholds : (f (s.thread t)).pc.holds = (s.thread t).pc.holds)
    (hkd : ∀ e, (f (s.thread t)).pc.holds = some e →
      (f (s.thread t)).key = (s.thread t).key ∧ (f (s.thread t)).dat = (s.thread t).dat)
    (hval : ∀ e, Pc.validAt (f (s.thread t)).pc = some e → e ∈ cached s.cache)
    (hfok : Pc.filledOk (f (s.thread t)).pc = true → Pc.filledOk (s.thread t).pc = true) :
    CInv cap s' := by
  refine ⟨hcache ▸ h.cinv, hcache ▸ h.ccap, hbuf ▸ h.blen, ?_, ?_, ?_, ?_, ?_⟩
  · intro i
    have := holders_upd ht hthr i
    rw [hholds] at this
    rw [hcache, h.ref i]
    omega
  · intro t' e
    rw [thread_upd ht hthr, hcache]
    by_cases htt : t' = t
    · simp only [htt, if_true]
      intro he
      obtain ⟨hk, hd⟩ := hkd e he
      rw [hk, hd]
      exact h.hold t e (hholds ▸ he)
    · simp only [htt, if_false]; exact h.hold t' e
  · intro t' e
    rw [thread_upd ht hthr, hcache]
    by_cases htt : t' = t
    · simp only [htt, if_true]; exact hval e
    · simp only [htt, if_false]; exact h.valid t' e
  · intro t'
    rw [thread_upd ht hthr, hbuf]
    by_cases htt : t' = t
    · simp only [htt, if_true]
      intro hf
      obtain ⟨e, he⟩ := holds_of_filledOk hf
      obtain ⟨hk, hd⟩ := hkd e he
      rw [hk, hd]
      exact h.fok t (hfok hf)
    · simp only [htt, if_false]; exact h.fok t'
  · rw [hcache, hbuf]; exact h.cont

end Kdf.Lemmas.Conc
