import Kdf.Lemmas.XenDefs
import Kdf.Lemmas.XenBuildInv
/-!
# C19 — what `pfn2idx_map_start/add/end` build from a list of distinct frames
-/
namespace Kdf.Lemmas.Xen
open Kdf.Model.Xen

/-- one `pfn2idx_map_add` keeps the invariant -/
theorem add_inv (ok : Nat → Bool) {pre : List Nat} {m m' : PMap} {c c' : Range} (p : Nat)
    (b : Base pre m c.len.natAbs) (r : Run pre c)
    (hp : p < 18446744073709551616) (hnd : (pre ++ [p]).Nodup)
    (hlen : (pre ++ [p]).length < 9223372036854775808)
    (h : add ok m c p = some (m', c')) :
    Base (pre ++ [p]) m' c'.len.natAbs ∧ Run (pre ++ [p]) c' := by
  have hn := b.nle
  have hl := b.hlen
  have hidx := r.idx
  have hnm1 := r.nm1
  have hlen' := hlen
  simp only [List.length_append, List.length_singleton] at hlen'
  have e1 : (c.idx + 1) % W = pre.length + 1 := by rw [W_eq]; omega
  unfold add at h
  rw [e1] at h
  split at h
  · -- extend an ascending run
    rename_i hc
    obtain ⟨hc1, hc2, hc3⟩ := hc
    have hpf := r.pfn_lt b (by omega)
    rw [W_eq] at hc2
    have hpe : p = c.pfn + 1 := by omega
    obtain ⟨rfl, rfl⟩ := Prod.mk.inj (Option.some.inj h)
    have hna : (c.len + 1).natAbs = c.len.natAbs + 1 := by omega
    refine ⟨?_, ?_⟩
    · show Base _ _ (c.len + 1).natAbs
      rw [hna]; exact b.snoc p hp hnd hlen
    · refine ⟨by simp, by simp only; omega, ?_, ?_⟩
      · intro _ j hj1 hj2
        simp only [List.length_append, List.length_singleton] at hj1 hj2 ⊢
        simp only [hna] at hj2
        by_cases hj : j = pre.length
        · subst hj
          exact ⟨p, List.getElem?_concat_length, by omega⟩
        · obtain ⟨q, hq, e⟩ := r.asc hc1 j (by omega) (by omega)
          refine ⟨q, ?_, by omega⟩
          rw [List.getElem?_append_left (by omega)]; exact hq
      · intro hneg
        simp only at hneg
        omega
  · split at h
    · -- extend a descending run
      rename_i _ hc
      obtain ⟨hc1, hc2, hc3⟩ := hc
      have hpf := r.pfn_lt b (by omega)
      rw [wrap_of_lt _ (by omega) (by omega)] at hc2
      have hpe : p + 1 = c.pfn := by omega
      obtain ⟨rfl, rfl⟩ := Prod.mk.inj (Option.some.inj h)
      have hna : (c.len - 1).natAbs = c.len.natAbs + 1 := by omega
      refine ⟨?_, ?_⟩
      · show Base _ _ (c.len - 1).natAbs
        rw [hna]; exact b.snoc p hp hnd hlen
      · refine ⟨by simp, by simp only; omega, ?_, ?_⟩
        · intro hpos
          simp only at hpos
          omega
        · intro _ j hj1 hj2
          simp only [List.length_append, List.length_singleton] at hj1 hj2 ⊢
          simp only [hna] at hj2
          by_cases hj : j = pre.length
          · subst hj
            rw [List.getElem?_concat_length]
            congr 1; omega
          · have hq := r.desc hc1 j (by omega) (by omega)
            rw [List.getElem?_append_left (by omega), hq]
            congr 1; omega
    · split at h
      · -- turn a single into a descending run
        rename_i _ _ hc
        obtain ⟨hc1, hc2, hc3⟩ := hc
        have hpf := r.pfn_lt b (by omega)
        rw [wrap_of_lt _ (by omega) (by omega)] at hc2
        have hpe : p + 1 = c.pfn := by omega
        obtain ⟨rfl, rfl⟩ := Prod.mk.inj (Option.some.inj h)
        have hna : c.len.natAbs = 1 := by omega
        refine ⟨?_, ?_⟩
        · show Base _ _ 2
          have := b.snoc p hp hnd hlen
          rw [hna] at this; exact this
        · refine ⟨by simp, by simp, ?_, ?_⟩
          · intro hpos
            simp only at hpos
            omega
          · intro _ j hj1 hj2
            simp only [List.length_append, List.length_singleton] at hj1 hj2 ⊢
            have hj2' : pre.length + 1 ≤ j + 2 := hj2
            by_cases hj : j = pre.length
            · subst hj
              rw [List.getElem?_concat_length]
              congr 1; omega
            · have hj' : j = pre.length - 1 := by omega
              subst hj'
              rw [List.getElem?_append_left (by omega), hpf.2]
              congr 1; omega
      · -- flush, start a new run
        cases hadd : addrange ok m c with
        | none => rw [hadd] at h; exact absurd h (by simp)
        | some m1 =>
          rw [hadd] at h
          obtain ⟨rfl, rfl⟩ := Prod.mk.inj (Option.some.inj h)
          have b1 := flush ok b r hadd
          refine ⟨?_, ?_⟩
          · show Base _ _ 1
            exact b1.snoc p hp hnd hlen
          · refine ⟨by simp, by simp, ?_, ?_⟩
            · intro _ j hj1 hj2
              simp only [List.length_append, List.length_singleton] at hj1 hj2 ⊢
              have hj2' : pre.length + 1 ≤ j + 1 := hj2
              have hj : j = pre.length := by omega
              subst hj
              exact ⟨p, List.getElem?_concat_length, by omega⟩
            · intro hneg
              simp only at hneg
              omega

/-- the loop keeps the invariant -/
theorem buildFrom_inv (ok : Nat → Bool) : ∀ (rest pre : List Nat) (m m' : PMap) (c c' : Range),
    (∀ p ∈ pre ++ rest, p < 18446744073709551616) → (pre ++ rest).Nodup →
    (pre ++ rest).length < 9223372036854775808 →
    Base pre m c.len.natAbs → Run pre c → buildFrom ok (m, c) rest = some (m', c') →
    Base (pre ++ rest) m' c'.len.natAbs ∧ Run (pre ++ rest) c' := by
  intro rest
  induction rest with
  | nil =>
    intro pre m m' c c' _ _ _ b r h
    simp only [buildFrom] at h
    obtain ⟨rfl, rfl⟩ := Prod.mk.inj (Option.some.inj h)
    rw [List.append_nil]
    exact ⟨b, r⟩
  | cons p ps ih =>
    intro pre m m' c c' hW hnd hlen b r h
    simp only [buildFrom] at h
    cases hadd : add ok m c p with
    | none => rw [hadd] at h; exact absurd h (by simp)
    | some s1 =>
      obtain ⟨m1, c1⟩ := s1
      rw [hadd] at h
      simp only at h
      rw [List.append_cons] at hW hnd hlen ⊢
      have hp : p < 18446744073709551616 := hW p (by simp)
      have hnd1 : (pre ++ [p]).Nodup := (List.nodup_append.mp hnd).1
      have hlen1 : (pre ++ [p]).length < 9223372036854775808 := by
        simp only [List.length_append] at hlen ⊢; omega
      obtain ⟨b1, r1⟩ := add_inv ok p b r hp hnd1 hlen1 hadd
      exact ih (pre ++ [p]) m1 m' c1 c' hW hnd hlen b1 r1 h

theorem covers_congr {m m' : PMap} (hr : ∀ r, r ∈ m'.ranges ↔ r ∈ m.ranges)
    (hs : ∀ s, s ∈ m'.singles ↔ s ∈ m.singles) (p i : Nat) : Covers m' p i ↔ Covers m p i := by
  unfold Covers
  constructor
  · rintro (⟨r, h1, h2⟩ | ⟨s, h1, h2⟩)
    · exact Or.inl ⟨r, (hr r).mp h1, h2⟩
    · exact Or.inr ⟨s, (hs s).mp h1, h2⟩
  · rintro (⟨r, h1, h2⟩ | ⟨s, h1, h2⟩)
    · exact Or.inl ⟨r, (hr r).mpr h1, h2⟩
    · exact Or.inr ⟨s, (hs s).mpr h1, h2⟩

/-- The finished map is sorted and describes exactly the list: it says "frame
`p` is page `i`" iff `l[i] = p`; isolated entries carry real indices. -/
theorem build_spec (ok : Nat → Bool) (junk : Nat) (l : List Nat) (m : PMap)
    (hl : ∀ p ∈ l, p < W) (hnd : l.Nodup) (hlen : l.length < 2^63)
    (hb : build ok junk l = some m) :
    Sorted m ∧ (∀ p i, Covers m p i ↔ l[i]? = some p) := by
  rw [W_eq] at hl
  have hlen' : l.length < 9223372036854775808 := hlen
  unfold build at hb
  cases hbf : buildFrom ok (mapStart junk) l with
  | none => rw [hbf] at hb; exact absurd hb (by simp)
  | some s =>
    obtain ⟨m1, c1⟩ := s
    rw [hbf] at hb
    simp only at hb
    have b0 : Base [] (⟨[], []⟩ : PMap) (⟨junk, 0, 0⟩ : Range).len.natAbs := by
      refine ⟨by simp, by simp, by simp, by simp, ?_, by simp, by simp, by simp⟩
      intro p i
      simp [Covers]
    have r0 : Run [] (⟨junk, 0, 0⟩ : Range) := ⟨rfl, by simp, by simp, by simp⟩
    obtain ⟨b1, r1⟩ := buildFrom_inv ok l [] _ m1 _ c1 (by simpa using hl) (by simpa using hnd)
      (by simpa using hlen') b0 r0 hbf
    rw [List.nil_append] at b1 r1
    unfold mapEnd at hb
    cases hadd : addrange ok m1 c1 with
    | none => rw [hadd] at hb; exact absurd hb (by simp)
    | some m2 =>
      rw [hadd] at hb
      simp only at hb
      have hm := (Option.some.inj hb).symm
      subst hm
      have b2 := flush ok b1 r1 hadd
      refine ⟨⟨?_, ?_, ?_⟩, ?_⟩
      · intro r hr
        exact b2.rok r ((mem_sortBy _ _ _).mp hr)
      · show (sortBy rangeLe m2.ranges).Pairwise _
        have P1 : (sortBy rangeLe m2.ranges).Pairwise (fun a b => rangeLe a b = true) := by
          apply sortBy_sorted
          · intro a b; simp only [rangeLe, decide_eq_true_eq]; omega
          · intro a b c; simp only [rangeLe, decide_eq_true_eq]; omega
        have P2 : (sortBy rangeLe m2.ranges).Pairwise (fun a b => hi a < lo b ∨ hi b < lo a) :=
          (List.Perm.pairwise_iff (fun h => Or.symm h) (sortBy_perm rangeLe m2.ranges)).mpr b2.rdis
        refine List.Pairwise.imp_of_mem ?_ (P1.and P2)
        intro a b ha hb' hab
        have hoa := b2.rok a ((mem_sortBy _ _ _).mp ha)
        have hob := b2.rok b ((mem_sortBy _ _ _).mp hb')
        have h1 := lo_le_pfn hoa
        have h2 := pfn_le_hi hob
        have h3 : a.pfn ≤ b.pfn := by simpa [rangeLe] using hab.1
        rcases hab.2 with h | h
        · exact h
        · omega
      · show (sortBy singleLe m2.singles).Pairwise _
        have P1 : (sortBy singleLe m2.singles).Pairwise (fun a b => singleLe a b = true) := by
          apply sortBy_sorted
          · intro a b; simp only [singleLe, decide_eq_true_eq]; omega
          · intro a b c; simp only [singleLe, decide_eq_true_eq]; omega
        have P2 : (sortBy singleLe m2.singles).Pairwise (fun a b => a.pfn ≠ b.pfn) :=
          (List.Perm.pairwise_iff (fun h => Ne.symm h) (sortBy_perm singleLe m2.singles)).mpr b2.sdis
        refine List.Pairwise.imp ?_ (P1.and P2)
        intro a b hab
        have h3 : a.pfn ≤ b.pfn := by simpa [singleLe] using hab.1
        have h4 := hab.2
        omega
      · intro p i
        rw [covers_congr (m := m2) (fun r => mem_sortBy _ _ _) (fun s => mem_sortBy _ _ _), b2.cov]
        constructor
        · exact fun h => h.2
        · intro h
          refine ⟨?_, h⟩
          obtain ⟨hh, _⟩ := List.getElem?_eq_some_iff.mp h
          omega

theorem addrange_total (ok : Nat → Bool) (hok : ∀ n, ok n = true) (m : PMap) (c : Range) :
    ∃ m', addrange ok m c = some m' := by
  unfold addrange
  simp only [hok]
  split
  · simp
  · split
    · simp
    · exact ⟨_, rfl⟩

theorem add_total (ok : Nat → Bool) (hok : ∀ n, ok n = true) (m : PMap) (c : Range) (p : Nat) :
    ∃ s, add ok m c p = some s := by
  unfold add
  split
  · exact ⟨_, rfl⟩
  · split
    · exact ⟨_, rfl⟩
    · split
      · exact ⟨_, rfl⟩
      · obtain ⟨m', hm'⟩ := addrange_total ok hok m c
        rw [hm']
        exact ⟨_, rfl⟩

theorem buildFrom_total (ok : Nat → Bool) (hok : ∀ n, ok n = true) :
    ∀ (l : List Nat) (s : PMap × Range), ∃ s', buildFrom ok s l = some s' := by
  intro l
  induction l with
  | nil => intro s; exact ⟨s, by simp [buildFrom]⟩
  | cons p ps ih =>
    intro s
    obtain ⟨m, c⟩ := s
    obtain ⟨s1, hs1⟩ := add_total ok hok m c p
    simp only [buildFrom, hs1]
    exact ih s1

/-- with an allocator that never fails the build succeeds -/
theorem build_total' (ok : Nat → Bool) (hok : ∀ n, ok n = true) (junk : Nat) (l : List Nat) :
    ∃ m, build ok junk l = some m := by
  obtain ⟨⟨m, c⟩, hs⟩ := buildFrom_total ok hok l (mapStart junk)
  obtain ⟨m', hm'⟩ := addrange_total ok hok m c
  unfold build mapEnd
  rw [hs]
  simp only [hm']
  exact ⟨_, rfl⟩

/-- the uninitialised `cur->pfn` left by `pfn2idx_map_start` is never used -/
theorem build_junk' (ok : Nat → Bool) (j1 j2 : Nat) (l : List Nat) :
    build ok j1 l = build ok j2 l := by
  cases l with
  | nil => simp [build, buildFrom, mapStart, mapEnd, addrange]
  | cons p ps => simp [build, buildFrom, mapStart, add, addrange]

end Kdf.Lemmas.Xen
