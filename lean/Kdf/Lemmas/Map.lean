import Kdf.Model.Map
/-! Helper definitions and lemmas for C10 (function view of a map). -/
namespace Kdf.Lemmas.Map
open Kdf.Model.Map

/-- Number of addresses covered by the ranges. -/
def total : Map → Nat
  | [] => 0
  | r :: rs => r.endoff + 1 + total rs

/-- Well-formed: empty (never set) or tiling `[0, 2^64)` exactly. -/
def WF (m : Map) : Prop := m = [] ∨ total m = W

/-- Independent function view, no wrap-around: value at `a` of the ranges `m`
laid out from `start`. -/
def den : Map → Nat → Nat → Int
  | [], _, _ => NONE
  | r :: rs, start, a => if a ≤ start + r.endoff then r.meth else den rs (start + r.endoff + 1) a

/-! ### Basic facts on `total` and `den` -/

@[simp] theorem total_nil : total [] = 0 := rfl
@[simp] theorem total_cons (r : Range) (rs : Map) : total (r :: rs) = r.endoff + 1 + total rs := rfl

@[simp] theorem total_append (xs ys : Map) : total (xs ++ ys) = total xs + total ys := by
  induction xs with
  | nil => simp
  | cons x xs ih => simp [ih]; omega

theorem total_pos {m : Map} (h : m ≠ []) : 0 < total m := by
  cases m with
  | nil => exact absurd rfl h
  | cons x xs => simp; omega

theorem den_append (xs ys : Map) (s a : Nat) (hs : s ≤ a) :
    den (xs ++ ys) s a = if a < s + total xs then den xs s a else den ys (s + total xs) a := by
  induction xs generalizing s with
  | nil => simp; omega
  | cons x xs ih =>
    simp only [List.cons_append, den, total_cons]
    by_cases h1 : a ≤ s + x.endoff
    · have : a < s + (x.endoff + 1 + total xs) := by omega
      simp [h1, this]
    · simp only [h1, if_false]
      rw [ih _ (by omega)]
      have e : s + x.endoff + 1 + total xs = s + (x.endoff + 1 + total xs) := by omega
      rw [e]

/-! ### `mapSearch` -/

theorem searchFrom_eq_den (m : Map) (raddr a : Nat) (h : raddr + total m = W) :
    searchFrom m raddr a = den m raddr a := by
  induction m generalizing raddr with
  | nil => rfl
  | cons x xs ih =>
    simp only [total_cons] at h
    have hlt : raddr + x.endoff < W := by omega
    simp only [searchFrom, den, Nat.mod_eq_of_lt hlt]
    split
    · rfl
    · cases xs with
      | nil => simp [searchFrom, den]
      | cons y ys =>
        have : raddr + x.endoff + 1 < W := by simp only [total_cons] at h; omega
        rw [Nat.mod_eq_of_lt this]
        exact ih _ (by omega)

/-! ### The two scans -/

theorem scanFirst_spec (addr : Nat) (m : Map) (i raddr : Nat)
    (h : raddr + total m = W) (ha : raddr ≤ addr) (haw : addr < W) :
    ∃ P f rest, m = P ++ f :: rest ∧
      scanFirst addr m i raddr = (i + P.length, raddr + total P) ∧
      raddr + total P ≤ addr ∧ addr ≤ raddr + total P + f.endoff := by
  induction m generalizing i raddr with
  | nil => simp at h; omega
  | cons x xs ih =>
    simp only [total_cons] at h
    have hlt : raddr + x.endoff < W := by omega
    simp only [scanFirst, Nat.mod_eq_of_lt hlt]
    split
    · exact ⟨[], x, xs, rfl, by simp, by simpa using ha, by simpa⟩
    · rename_i hn
      have hlt2 : raddr + x.endoff + 1 < W := by omega
      rw [Nat.mod_eq_of_lt hlt2]
      obtain ⟨P, f, rest, e, hs, h1, h2⟩ := ih (i+1) (raddr + x.endoff + 1) (by omega) (by omega)
      refine ⟨x :: P, f, rest, by simp [e], ?_, ?_, ?_⟩
      · rw [hs]; simp; omega
      · simp; omega
      · simp; omega

theorem scanLast_spec (end_ : Nat) (rest : Map) (li left rend : Nat) (delta : Int)
    (hleft : left = rest.length + 1) (hsum : rend + 1 + total rest = W) (hend : end_ < W) :
    ∃ U S, rest = U ++ S ∧
      scanLast end_ rest li left rend delta
        = some (li + U.length, 1 + S.length, rend + total U, delta - U.length) ∧
      end_ ≤ rend + total U ∧ (∀ U' y, U = U' ++ [y] → rend + total U' < end_) := by
  induction rest generalizing li left rend delta with
  | nil =>
    refine ⟨[], [], rfl, ?_, ?_, ?_⟩
    · unfold scanLast
      simp at hsum hleft
      have : rend ≥ end_ := by omega
      simp [hleft, this]
    · simp at hsum ⊢; omega
    · intro U' y h; simp at h
  | cons x xs ih =>
    by_cases hge : rend ≥ end_
    · refine ⟨[], x :: xs, rfl, ?_, by simpa using hge, ?_⟩
      · unfold scanLast
        simp [hleft, hge]; omega
      · intro U' y h; simp at h
    · simp only [total_cons] at hsum
      have hlt : rend + x.endoff + 1 < W := by omega
      obtain ⟨U, S, e, hs, h1, h2⟩ := ih (li+1) (left-1) (rend + x.endoff + 1) (delta-1)
        (by simp at hleft; omega) (by omega)
      refine ⟨x :: U, S, by simp [e], ?_, by simp; omega, ?_⟩
      · unfold scanLast
        have hl : left ≠ 0 := by omega
        simp only [hl, hge, if_false, Nat.mod_eq_of_lt hlt, hs]
        simp; omega
      · intro U' y h
        cases U' with
        | nil => simp; omega
        | cons z zs =>
          simp at h
          obtain ⟨rfl, h⟩ := h
          have := h2 zs y h
          simp; omega

/-! ### Stages of `planNonEmpty` -/

/-- "include the previous region if it can be merged" -/
def mergeDown (m : Map) (addr : Nat) (r : Range) (fi0 raddr0 : Nat) : Option (Nat × Nat) :=
  if raddr0 ≠ 0 ∧ raddr0 = addr then
    match (if fi0 = 0 then none else m[fi0 - 1]?) with
    | none => none
    | some p =>
      if p.meth = r.meth then some (fi0 - 1, (raddr0 + W - (p.endoff + 1) % W) % W)
      else some (fi0, raddr0)
  else some (fi0, raddr0)

/-- "include the following region if it can be merged" -/
def mergeUp (m : Map) (r : Range) (end_ : Nat) (li0 left1 rend0 : Nat) (delta0 : Int) :
    Option (Nat × Nat × Nat × Int) :=
  if left1 > 1 ∧ rend0 = end_ then
    match m[li0 + 1]? with
    | none => none
    | some q =>
      if q.meth = r.meth then some (li0 + 1, left1 - 1, (rend0 + q.endoff + 1) % W, delta0 - 1)
      else some (li0, left1, rend0, delta0)
  else some (li0, left1, rend0, delta0)

/-- "merge up and/or down", "split begin and/or end" -/
def finishPlan (addr : Nat) (r : Range) (fi raddr1 : Nat) (f : Range) (li left rend1 : Nat)
    (delta1 : Int) (l : Range) : Plan :=
  let end_ := (addr + r.endoff) % W
  let (ext1, raddr) := if f.meth = r.meth then ((addr + W - raddr1) % W, addr) else (0, raddr1)
  let (extend, rend) := if l.meth = r.meth then ((ext1 + (rend1 + W - end_) % W) % W, end_) else (ext1, rend1)
  let delta2 := if addr = raddr then delta1 - 1 else delta1
  let delta := if rend = end_ then delta2 - 1 else delta2
  ⟨fi, li, left, raddr, rend, extend, delta⟩

theorem planNonEmpty_eq (m : Map) (addr : Nat) (r : Range) :
    planNonEmpty m addr r =
      (match mergeDown m addr r (scanFirst addr m 0 0).1 (scanFirst addr m 0 0).2 with
       | none => none
       | some (fi, raddr1) =>
       match m[fi]? with
       | none => none
       | some f =>
       match scanLast ((addr + r.endoff) % W) (m.drop (fi+1)) fi (m.length - fi)
            ((raddr1 + f.endoff) % W) 2 with
       | none => none
       | some (li0, left1, rend0, delta0) =>
       match mergeUp m r ((addr + r.endoff) % W) li0 left1 rend0 delta0 with
       | none => none
       | some (li, left, rend1, delta1) =>
       match m[li]? with
       | none => none
       | some l => some (finishPlan addr r fi raddr1 f li left rend1 delta1 l)) := by
  rfl

theorem planNonEmpty_eval (m : Map) (addr : Nat) (r : Range)
    {fi0 raddr0 fi raddr1 li0 left1 rend0 li left rend1 : Nat} {delta0 delta1 : Int} {f l : Range}
    (h1 : scanFirst addr m 0 0 = (fi0, raddr0))
    (h2 : mergeDown m addr r fi0 raddr0 = some (fi, raddr1))
    (h3 : m[fi]? = some f)
    (h4 : scanLast ((addr + r.endoff) % W) (m.drop (fi+1)) fi (m.length - fi)
            ((raddr1 + f.endoff) % W) 2 = some (li0, left1, rend0, delta0))
    (h5 : mergeUp m r ((addr + r.endoff) % W) li0 left1 rend0 delta0 = some (li, left, rend1, delta1))
    (h6 : m[li]? = some l) :
    planNonEmpty m addr r = some (finishPlan addr r fi raddr1 f li left rend1 delta1 l) := by
  rw [planNonEmpty_eq]
  simp only [h1, h2, h3, h4, h5, h6]

/-! ### Characterisation of the plan on a well-formed non-empty map -/

theorem getElem?_mid {α} (A : List α) (x : α) (B : List α) (i : Nat) (h : i = A.length) :
    (A ++ x :: B)[i]? = some x := by
  subst h; simp

theorem mergeDown_spec (m : Map) (addr : Nat) (r : Range) (P0 : Map) (f0 : Range) (rest0 : Map)
    (hm : m = P0 ++ f0 :: rest0) (hW : total m = W)
    (h1 : total P0 ≤ addr) (h2 : addr ≤ total P0 + f0.endoff) :
    ∃ P f rest, m = P ++ f :: rest ∧
      mergeDown m addr r P0.length (total P0) = some (P.length, total P) ∧
      total P ≤ addr ∧ addr ≤ total P + f.endoff + 1 := by
  unfold mergeDown
  by_cases hc : total P0 ≠ 0 ∧ total P0 = addr
  · rw [if_pos hc]
    have hne : P0 ≠ [] := by rintro rfl; simp at hc
    obtain ⟨P', p, rfl⟩ : ∃ P' p, P0 = P' ++ [p] :=
      ⟨P0.dropLast, P0.getLast hne, (List.dropLast_concat_getLast hne).symm⟩
    have hlen : (P' ++ [p]).length ≠ 0 := by simp
    have hm' : m = P' ++ p :: (f0 :: rest0) := by simp [hm]
    have hget : m[(P' ++ [p]).length - 1]? = some p := by
      rw [hm']; exact getElem?_mid _ _ _ _ (by simp)
    simp only [if_neg hlen, hget]
    by_cases hp : p.meth = r.meth
    · rw [if_pos hp]
      refine ⟨P', p, f0 :: rest0, hm', ?_, ?_, ?_⟩
      · rw [hm'] at hW
        simp only [total_append, total_cons, total_nil, W] at hW h1 ⊢
        simp only [List.length_append, List.length_cons, List.length_nil, Option.some.injEq,
          Prod.mk.injEq]
        omega
      · simp only [total_append, total_cons, total_nil] at h1; omega
      · simp only [total_append, total_cons, total_nil] at hc; omega
    · rw [if_neg hp]; exact ⟨P' ++ [p], f0, rest0, hm, rfl, h1, by omega⟩
  · rw [if_neg hc]; exact ⟨P0, f0, rest0, hm, rfl, h1, by omega⟩

theorem last_spec (m : Map) (r : Range) (end_ : Nat) (P : Map) (f : Range) (rest : Map)
    (hm : m = P ++ f :: rest) (hW : total m = W) (hend : end_ < W) :
    ∃ T S li0 left1 rend0 delta0, rest = T ++ S ∧
      scanLast end_ rest P.length (rest.length + 1) (total P + f.endoff) 2
        = some (li0, left1, rend0, delta0) ∧
      mergeUp m r end_ li0 left1 rend0 delta0
        = some (P.length + T.length, 1 + S.length, total P + f.endoff + total T, 2 - (T.length : Int)) ∧
      end_ ≤ total P + f.endoff + total T ∧
      (∀ T'' y, T = T'' ++ [y] → total P + f.endoff + total T'' ≤ end_) := by
  have hW' := hW
  rw [hm] at hW'
  simp only [total_append, total_cons] at hW'
  obtain ⟨U, S0, e, hs, h1, h2⟩ := scanLast_spec end_ rest P.length (rest.length + 1)
    (total P + f.endoff) 2 rfl (by omega) hend
  by_cases hc : 1 + S0.length > 1 ∧ total P + f.endoff + total U = end_
  · cases S0 with
    | nil => simp at hc
    | cons q S =>
      have hget : m[P.length + U.length + 1]? = some q := by
        have : m = (P ++ f :: U) ++ q :: S := by simp [hm, e]
        rw [this]; exact getElem?_mid _ _ _ _ (by simp; omega)
      by_cases hq : q.meth = r.meth
      · refine ⟨U ++ [q], S, _, _, _, _, by simp [e], hs, ?_, ?_, ?_⟩
        · unfold mergeUp
          simp only [if_pos hc, hget, if_pos hq]
          rw [e] at hW'
          simp only [total_append, total_cons, total_nil, W] at hW' ⊢
          simp only [List.length_append, List.length_cons, List.length_nil, Option.some.injEq,
            Prod.mk.injEq]
          omega
        · simp only [total_append, total_cons, total_nil]; omega
        · intro T'' y h
          have := List.append_inj' h (by simp)
          obtain ⟨rfl, _⟩ := this
          omega
      · refine ⟨U, q :: S, _, _, _, _, e, hs, ?_, h1, ?_⟩
        · unfold mergeUp
          simp only [if_pos hc, hget, if_neg hq]
        · intro T'' y h; have := h2 T'' y h; omega
  · refine ⟨U, S0, _, _, _, _, e, hs, ?_, h1, ?_⟩
    · unfold mergeUp
      simp only [if_neg hc]
    · intro T'' y h; have := h2 T'' y h; omega

section finishPlan
variable (addr : Nat) (r : Range) (fi raddr1 : Nat) (f : Range) (li left rend1 : Nat)
    (delta1 : Int) (l : Range)

@[simp] theorem finishPlan_fi : (finishPlan addr r fi raddr1 f li left rend1 delta1 l).fi = fi := rfl
@[simp] theorem finishPlan_li : (finishPlan addr r fi raddr1 f li left rend1 delta1 l).li = li := rfl
@[simp] theorem finishPlan_left :
    (finishPlan addr r fi raddr1 f li left rend1 delta1 l).left = left := rfl

theorem finishPlan_raddr : (finishPlan addr r fi raddr1 f li left rend1 delta1 l).raddr
    = if f.meth = r.meth then addr else raddr1 := by
  unfold finishPlan; by_cases h : f.meth = r.meth <;> simp [h]

theorem finishPlan_rend : (finishPlan addr r fi raddr1 f li left rend1 delta1 l).rend
    = if l.meth = r.meth then (addr + r.endoff) % W else rend1 := by
  unfold finishPlan; by_cases h : l.meth = r.meth <;> simp [h]

theorem finishPlan_extend : (finishPlan addr r fi raddr1 f li left rend1 delta1 l).extend
    = if l.meth = r.meth then
        ((if f.meth = r.meth then (addr + W - raddr1) % W else 0)
          + (rend1 + W - (addr + r.endoff) % W) % W) % W
      else (if f.meth = r.meth then (addr + W - raddr1) % W else 0) := by
  unfold finishPlan
  by_cases h : l.meth = r.meth <;> by_cases h' : f.meth = r.meth <;> simp [h, h']

theorem finishPlan_delta : (finishPlan addr r fi raddr1 f li left rend1 delta1 l).delta
    = delta1
      - (if addr = (finishPlan addr r fi raddr1 f li left rend1 delta1 l).raddr then 1 else 0)
      - (if (finishPlan addr r fi raddr1 f li left rend1 delta1 l).rend = (addr + r.endoff) % W
          then 1 else 0) := by
  rw [finishPlan_raddr, finishPlan_rend]
  unfold finishPlan
  by_cases h : l.meth = r.meth <;> by_cases h' : f.meth = r.meth <;> simp only [h, h', if_true, if_false]
    <;> (repeat' split) <;> omega
end finishPlan

/-- What the plan computed on the decomposition `P ++ f :: T ++ S` of the map
(`f :: T = T' ++ [l]`: `f` is `first`, `l` is `last`) looks like. -/
structure PlanSpec (P T' S : Map) (f l : Range) (T : Map) (addr : Nat) (r : Range) (p : Plan) :
    Prop where
  shape : f :: T = T' ++ [l]
  fi : p.fi = P.length
  li : p.li = P.length + T'.length
  left : p.left = 1 + S.length
  guard : addr + r.endoff < W
  lo1 : total P ≤ addr
  lo2 : addr ≤ total P + f.endoff + 1
  hi1 : addr + r.endoff + 1 ≤ total P + total (f :: T)
  hi2 : total P + total T' ≤ addr + r.endoff + 1
  tot : total P + total (f :: T) + total S = W
  raddr : p.raddr = if f.meth = r.meth then addr else total P
  rend : p.rend = if l.meth = r.meth then addr + r.endoff else total P + total (f :: T) - 1
  extend : p.extend = (if f.meth = r.meth then addr - total P else 0)
      + (if l.meth = r.meth then total P + total (f :: T) - 1 - (addr + r.endoff) else 0)
  delta : p.delta = (if p.raddr ≠ addr then 1 else 0)
      + (if p.rend ≠ addr + r.endoff then 1 else 0) - (T'.length : Int)

theorem planNonEmpty_spec (m : Map) (hW : total m = W) (addr : Nat) (r : Range)
    (hr : addr + r.endoff < W) :
    ∃ P T' S f l T p, m = P ++ f :: T ++ S ∧ planNonEmpty m addr r = some p ∧
      PlanSpec P T' S f l T addr r p := by
  obtain ⟨P0, f0, rest0, hm0, hs, h1, h2⟩ :=
    scanFirst_spec addr m 0 0 (by omega) (Nat.zero_le _) (by omega)
  simp only [Nat.zero_add] at hs h1 h2
  obtain ⟨P, f, rest, hm, hmd, h3, h4⟩ := mergeDown_spec m addr r P0 f0 rest0 hm0 hW h1 h2
  obtain ⟨T, S, li0, left1, rend0, delta0, e, hsl, hmu, h5, h6⟩ :=
    last_spec m r (addr + r.endoff) P f rest hm hW hr
  obtain ⟨T', l, hshape⟩ : ∃ T' l, f :: T = T' ++ [l] :=
    ⟨_, _, (List.dropLast_concat_getLast (List.cons_ne_nil f T)).symm⟩
  have hlenT : T'.length = T.length := by
    have := congrArg List.length hshape
    simp only [List.length_cons, List.length_append, List.length_nil] at this; omega
  have hgf : m[P.length]? = some f := by rw [hm]; exact getElem?_mid _ _ _ _ rfl
  have hm2 : m = (P ++ T') ++ l :: S := by
    rw [hm, e, ← List.cons_append, hshape]; simp
  have hgl : m[P.length + T.length]? = some l := by
    rw [hm2]; exact getElem?_mid _ _ _ _ (by simp; omega)
  have hmod : (addr + r.endoff) % W = addr + r.endoff := Nat.mod_eq_of_lt hr
  have hdrop : m.drop (P.length + 1) = rest := by rw [hm]; simp
  have hlen : m.length - P.length = rest.length + 1 := by rw [hm]; simp
  have hW' := hW
  rw [hm, e] at hW'
  simp only [total_append, total_cons] at hW'
  have hmod2 : (total P + f.endoff) % W = total P + f.endoff := Nat.mod_eq_of_lt (by omega)
  have hp := planNonEmpty_eval m addr r hs hmd hgf
    (by rw [hmod, hdrop, hlen, hmod2]; exact hsl) (by rw [hmod]; exact hmu) hgl
  have htT' : total (f :: T) = total T' + l.endoff + 1 := by rw [hshape]; simp; omega
  have hhi2 : total P + total T' ≤ addr + r.endoff + 1 := by
    cases T' with
    | nil => simp; omega
    | cons x T'' =>
      simp only [List.cons_append, List.cons.injEq] at hshape
      obtain ⟨rfl, hT⟩ := hshape
      have := h6 T'' l hT
      simp only [total_cons]; omega
  refine ⟨P, T', S, f, l, T, _, by simp [hm, e], hp, ?_⟩
  have hra := finishPlan_raddr addr r P.length (total P) f (P.length + T.length) (1 + S.length)
      (total P + f.endoff + total T) (2 - (T.length : Int)) l
  have hre := finishPlan_rend addr r P.length (total P) f (P.length + T.length) (1 + S.length)
      (total P + f.endoff + total T) (2 - (T.length : Int)) l
  constructor
  · exact hshape
  · simp
  · simp [hlenT]
  · simp
  · exact hr
  · exact h3
  · exact h4
  · simp only [total_cons]; omega
  · exact hhi2
  · simp only [total_cons]; omega
  · exact hra
  · rw [hre, hmod]; simp only [total_cons]
    split <;> omega
  · rw [finishPlan_extend, hmod]
    simp only [total_cons, W] at *
    (repeat' split) <;> omega
  · rw [finishPlan_delta, hmod, hlenT]
    (repeat' split) <;> omega

/-! ### The array surgery -/

/-- The ranges after a successful `addrxlat_map_set`. -/
def newMap (P S : Map) (f l r : Range) (addr : Nat) (p : Plan) : Map :=
  P ++ (if p.raddr ≠ addr then [⟨(addr + W - p.raddr + W - 1) % W, f.meth⟩] else [])
    ++ [⟨(r.endoff + p.extend) % W, r.meth⟩]
    ++ (if p.rend ≠ (addr + r.endoff) % W
          then [⟨(p.rend + W - (addr + r.endoff) % W + W - 1) % W, l.meth⟩] else [])
    ++ S

/-- `applyPlan` after the `memmove`. -/
def applyWrites (arr a1 : Map) (li n' : Nat) (p : Plan) (addr : Nat) (r : Range) : Status × Map :=
  let end_ := (addr + r.endoff) % W
  let s1 : Option (Map × Nat) :=
    if p.raddr ≠ addr then
      match setEndoff a1 p.fi ((addr + W - p.raddr + W - 1) % W) with
      | none => none
      | some a => some (a, p.fi + 1)
    else some (a1, p.fi)
  match s1 with
  | none => (.oob, arr)
  | some (a2, fi) =>
  let s2 : Option Map :=
    if p.rend ≠ end_ then setEndoff a2 li ((p.rend + W - end_ + W - 1) % W)
    else some a2
  match s2 with
  | none => (.oob, arr)
  | some a3 =>
  match setRange a3 fi ⟨(r.endoff + p.extend) % W, r.meth⟩ with
  | none => (.oob, arr)
  | some a4 => if n' ≤ a4.length then (.ok, a4.take n') else (.oob, arr)

/-- `memmove(last + delta, last, left)` and the bookkeeping around it. -/
def moved (arr : Map) (n : Nat) (p : Plan) : Option (Map × Nat × Nat) :=
  if p.delta = 0 then some (arr, p.li, n)
  else
    let dst : Int := (p.li : Int) + p.delta
    let n' : Int := (n : Int) + p.delta
    if dst < 0 ∨ n' < 0 then none
    else match memmove arr dst.toNat p.li p.left with
      | none => none
      | some a => some (a, dst.toNat, n'.toNat)

theorem applyPlan_eq (arr : Map) (n : Nat) (p : Plan) (addr : Nat) (r : Range) :
    applyPlan arr n p addr r =
      match moved arr n p with
      | none => (.oob, arr)
      | some (a1, li, n') => applyWrites arr a1 li n' p addr r := by
  rfl

theorem setEndoff_at {arr A : Map} {x : Range} {B : Map} {i : Nat} (v : Nat)
    (h : arr = A ++ x :: B) (hi : i = A.length) :
    setEndoff arr i v = some (A ++ ⟨v, x.meth⟩ :: B) := by
  subst h hi; simp [setEndoff]

theorem setRange_at {arr A : Map} {x : Range} {B : Map} {i : Nat} (y : Range)
    (h : arr = A ++ x :: B) (hi : i = A.length) :
    setRange arr i y = some (A ++ y :: B) := by
  subst h hi; simp [setRange]

theorem final_take {a4 X C : Map} {n' : Nat} (arr : Map) (h : a4 = X ++ C) (hn : n' = X.length) :
    (if n' ≤ a4.length then (Status.ok, a4.take n') else (Status.oob, arr)) = (.ok, X) := by
  subst h hn; simp


theorem length_eq_two {A : Map} (h : A.length = 2) : ∃ x y, A = [x, y] := by
  match A, h with
  | [x, y], _ => exact ⟨x, y, rfl⟩

theorem applyWrites_spec (arr P A' S C : Map) (f l : Range) (p : Plan) (addr : Nat) (r : Range)
    (hfi : p.fi = P.length)
    (hk : A'.length = (if p.raddr ≠ addr then 1 else 0)
        + (if p.rend ≠ (addr + r.endoff) % W then 1 else 0))
    (hhead : p.raddr ≠ addr → A'.head? = some f) :
    applyWrites arr (P ++ A' ++ l :: S ++ C) (P.length + A'.length)
        (P.length + A'.length + 1 + S.length) p addr r
      = (.ok, newMap P S f l r addr p) := by
  unfold applyWrites newMap
  dsimp only
  generalize (addr + W - p.raddr + W - 1) % W = v1
  generalize (p.rend + W - (addr + r.endoff) % W + W - 1) % W = v2
  generalize (r.endoff + p.extend) % W = v3
  generalize (addr + r.endoff) % W = end_ at *
  by_cases hb : p.raddr = addr <;> by_cases he : p.rend = end_
  · -- no split
    simp only [hb, he, ne_eq, not_true, if_false] at hk ⊢
    simp only [Nat.add_zero, List.length_eq_zero_iff] at hk
    subst hk
    rw [setRange_at (A := P) (x := l) (B := S ++ C) _ (by simp) (by simp [hfi])]
    dsimp only
    rw [final_take arr (X := P ++ [⟨v3, r.meth⟩] ++ S) (C := C)
      (by simp) (by simp; omega)]
    simp
  · -- split end
    simp only [hb, he, ne_eq, not_true, not_false_eq_true, if_false, if_true] at hk ⊢
    obtain ⟨x, rfl⟩ : ∃ x, A' = [x] := List.length_eq_one_iff.mp (by omega)
    rw [setEndoff_at (A := P ++ [x]) (x := l) (B := S ++ C) _ (by simp) (by simp)]
    dsimp only
    rw [setRange_at (A := P) (x := x) (B := ⟨v2, l.meth⟩ :: (S ++ C)) _ (by simp) (by simp [hfi])]
    dsimp only
    rw [final_take arr (X := P ++ [⟨v3, r.meth⟩] ++ [⟨v2, l.meth⟩] ++ S) (C := C)
      (by simp) (by simp; omega)]
    simp
  · -- split begin
    simp only [hb, he, ne_eq, not_true, not_false_eq_true, if_false, if_true] at hk ⊢
    obtain ⟨x, rfl⟩ : ∃ x, A' = [x] := List.length_eq_one_iff.mp (by omega)
    have hx : x = f := by simpa using hhead hb
    subst hx
    rw [setEndoff_at (A := P) (x := x) (B := l :: (S ++ C)) _ (by simp) (by simp [hfi])]
    dsimp only
    rw [setRange_at (A := P ++ [⟨v1, x.meth⟩]) (x := l)
      (B := S ++ C) _ (by simp) (by simp [hfi])]
    dsimp only
    rw [final_take arr (X := P ++ [⟨v1, x.meth⟩] ++ [⟨v3, r.meth⟩] ++ S) (C := C)
      (by simp) (by simp; omega)]
    simp
  · -- split both
    simp only [hb, he, ne_eq, not_false_eq_true, if_true] at hk ⊢
    obtain ⟨x, y, rfl⟩ : ∃ x y, A' = [x, y] := length_eq_two (by omega)
    have hx : x = f := by simpa using hhead hb
    subst hx
    rw [setEndoff_at (A := P) (x := x) (B := y :: l :: (S ++ C)) _ (by simp) (by simp [hfi])]
    dsimp only
    rw [setEndoff_at (A := P ++ [⟨v1, x.meth⟩, y]) (x := l)
      (B := S ++ C) _ (by simp) (by simp)]
    dsimp only
    rw [setRange_at (A := P ++ [⟨v1, x.meth⟩]) (x := y)
      (B := ⟨v2, l.meth⟩ :: (S ++ C)) _ (by simp) (by simp [hfi])]
    dsimp only
    rw [final_take arr (X := P ++ [⟨v1, x.meth⟩] ++ [⟨v3, r.meth⟩] ++ [⟨v2, l.meth⟩] ++ S) (C := C)
      (by simp) (by simp; omega)]

theorem take_len_add {α} (P X : List α) (k : Nat) : (P ++ X).take (P.length + k) = P ++ X.take k := by
  induction P with
  | nil => simp
  | cons x P ih => simpa [Nat.add_right_comm] using ih

theorem drop_len_add {α} (P X : List α) (k : Nat) : (P ++ X).drop (P.length + k) = X.drop k := by
  simp

theorem memmove_spec (P T' Y G : Map) (k cnt : Nat) (hcnt : cnt = Y.length)
    (hG : T'.length + G.length ≥ k) :
    memmove (P ++ (T' ++ (Y ++ G))) (P.length + k) (P.length + T'.length) cnt
      = some (P ++ (T' ++ (Y ++ G)).take k ++ Y
          ++ (P ++ (T' ++ (Y ++ G))).drop (P.length + k + cnt)) := by
  subst hcnt
  unfold memmove
  rw [if_pos (by simp; omega), take_len_add, drop_len_add]
  simp

theorem moved_spec (P T' S G : Map) (f l : Range) (T : Map) (p : Plan) (k : Nat)
    (hshape : f :: T = T' ++ [l]) (hli : p.li = P.length + T'.length)
    (hleft : p.left = 1 + S.length)
    (hdelta : p.delta = (k : Int) - T'.length) (hG : G.length = p.delta.toNat) :
    ∃ A' C, A'.length = k ∧ (0 < k → A'.head? = some f) ∧
      moved (P ++ f :: T ++ S ++ G) (P.length + T'.length + 1 + S.length) p
        = some (P ++ A' ++ l :: S ++ C, P.length + k, P.length + k + 1 + S.length) := by
  have harr : P ++ f :: T ++ S ++ G = P ++ (T' ++ ((l :: S) ++ G)) := by
    rw [List.append_assoc P, hshape]; simp
  refine ⟨(T' ++ ((l :: S) ++ G)).take k, (P ++ (T' ++ ((l :: S) ++ G))).drop (P.length + k + (1 + S.length)), ?_, ?_, ?_⟩
  · simp; omega
  · intro hk
    have : T' ++ ((l :: S) ++ G) = f :: (T ++ S ++ G) := by
      have e : T' ++ ((l :: S) ++ G) = (T' ++ [l]) ++ S ++ G := by simp
      rw [e, ← hshape]; simp
    rw [this]
    obtain ⟨k', rfl⟩ : ∃ k', k = k' + 1 := ⟨k - 1, by omega⟩
    simp
  · unfold moved
    by_cases hd : p.delta = 0
    · rw [if_pos hd]
      have hk : k = T'.length := by omega
      have hG0 : G = [] := by rw [hd] at hG; simpa using hG
      subst hG0 hk
      rw [harr]
      simp [hli]
      omega
    · rw [if_neg hd]
      have h1 : ((p.li : Int) + p.delta) = ((P.length + k : Nat) : Int) := by rw [hli, hdelta]; push_cast; omega
      have h2 : (((P.length + T'.length + 1 + S.length : Nat) : Int) + p.delta) = ((P.length + k + 1 + S.length : Nat) : Int) := by
        rw [hdelta]; push_cast; omega
      rw [h1, h2]
      rw [if_neg (by omega)]
      simp only [Int.toNat_natCast]
      rw [harr, hli, hleft, memmove_spec P T' (l :: S) G k _ (by simp; omega) (by omega)]

theorem applyPlan_spec (P T' S G : Map) (f l : Range) (T : Map) (p : Plan) (addr : Nat) (r : Range)
    (hshape : f :: T = T' ++ [l]) (hfi : p.fi = P.length) (hli : p.li = P.length + T'.length)
    (hleft : p.left = 1 + S.length)
    (hdelta : p.delta = (if p.raddr ≠ addr then 1 else 0)
      + (if p.rend ≠ (addr + r.endoff) % W then 1 else 0) - (T'.length : Int))
    (hG : G.length = p.delta.toNat) :
    applyPlan (P ++ f :: T ++ S ++ G) (P.length + T'.length + 1 + S.length) p addr r
      = (.ok, newMap P S f l r addr p) := by
  have hdelta' : p.delta = (((if p.raddr ≠ addr then 1 else 0)
      + (if p.rend ≠ (addr + r.endoff) % W then 1 else 0) : Nat) : Int) - T'.length := by
    rw [hdelta]; push_cast; (repeat' split) <;> rfl
  obtain ⟨A', C, hlen, hhead, hmv⟩ := moved_spec P T' S G f l T p _ hshape hli hleft hdelta' hG
  rw [applyPlan_eq, hmv]
  dsimp only
  rw [← hlen]
  refine applyWrites_spec _ P A' S C f l p addr r hfi hlen ?_
  intro hb
  apply hhead
  rw [if_pos hb]; omega

/-! ### Meaning of the new map -/

theorem sub_mod_W1 (a b : Nat) (h : b < a) (ha : a < W) : (a + W - b + W - 1) % W = a - b - 1 := by
  simp only [W] at *; omega

/-- The rewritten middle part, in plain arithmetic. -/
def midOf (R1 addr e R2 : Nat) (fm lm rm : Int) : Map :=
  (if fm ≠ rm ∧ R1 ≠ addr then [⟨addr - R1 - 1, fm⟩] else [])
  ++ [⟨e - addr + ((if fm = rm then addr - R1 else 0) + (if lm = rm then R2 - e else 0)), rm⟩]
  ++ (if lm ≠ rm ∧ R2 ≠ e then [⟨R2 - e - 1, lm⟩] else [])

theorem midOf_total (R1 addr e R2 : Nat) (fm lm rm : Int)
    (h1 : R1 ≤ addr) (h2 : addr ≤ e) (h3 : e ≤ R2) :
    total (midOf R1 addr e R2 fm lm rm) = R2 + 1 - R1 := by
  unfold midOf
  by_cases hf : fm = rm <;> by_cases hl : lm = rm <;> by_cases hb : R1 = addr <;>
    by_cases he : R2 = e <;>
    simp only [hf, hl, hb, he, ne_eq, not_true, not_false_eq_true, and_true, and_false,
      if_true, if_false, total_append, total_cons, total_nil,
      List.nil_append, List.append_nil] <;> omega

theorem midOf_den (R1 addr e R2 : Nat) (fm lm rm : Int)
    (h1 : R1 ≤ addr) (h2 : addr ≤ e) (h3 : e ≤ R2) (a : Nat) (ha1 : R1 ≤ a) (ha2 : a ≤ R2) :
    den (midOf R1 addr e R2 fm lm rm) R1 a
      = if addr ≤ a ∧ a ≤ e then rm else if a < addr then fm else lm := by
  unfold midOf
  by_cases hf : fm = rm <;> by_cases hl : lm = rm <;> by_cases hb : R1 = addr <;>
    by_cases he : R2 = e <;>
    simp only [hf, hl, hb, he, ne_eq, not_true, not_false_eq_true, and_true, and_false,
      if_true, if_false,
      List.nil_append, List.append_nil, List.cons_append, den] <;>
    (repeat' split) <;> first | rfl | omega | (exfalso; omega)

theorem newMap_eq {P T' S : Map} {f l : Range} {T : Map} {addr : Nat} {r : Range} {p : Plan}
    (h : PlanSpec P T' S f l T addr r p) :
    newMap P S f l r addr p
      = P ++ midOf (total P) addr (addr + r.endoff) (total P + total (f :: T) - 1)
          f.meth l.meth r.meth ++ S := by
  have hmod : (addr + r.endoff) % W = addr + r.endoff := Nat.mod_eq_of_lt h.guard
  have hlo1 := h.lo1
  have hhi1 := h.hi1
  have htot := h.tot
  have hguard := h.guard
  have hB : (if p.raddr ≠ addr then [(⟨(addr + W - p.raddr + W - 1) % W, f.meth⟩ : Range)] else [])
      = (if f.meth ≠ r.meth ∧ total P ≠ addr then [⟨addr - total P - 1, f.meth⟩] else []) := by
    rw [h.raddr]
    by_cases hf : f.meth = r.meth
    · simp only [hf, if_true, ne_eq, not_true, false_and, if_false]
    · by_cases hb : total P = addr
      · simp only [hf, hb, if_false, ne_eq, not_true, and_false]
      · simp only [hf, hb, if_false, ne_eq, not_false_eq_true, and_self, if_true]
        rw [sub_mod_W1 _ _ (by omega) (by omega)]
  have hE : (if p.rend ≠ addr + r.endoff
        then [(⟨(p.rend + W - (addr + r.endoff) + W - 1) % W, l.meth⟩ : Range)] else [])
      = (if l.meth ≠ r.meth ∧ total P + total (f :: T) - 1 ≠ addr + r.endoff
          then [⟨total P + total (f :: T) - 1 - (addr + r.endoff) - 1, l.meth⟩] else []) := by
    rw [h.rend]
    by_cases hl : l.meth = r.meth
    · simp only [hl, if_true, ne_eq, not_true, false_and, if_false]
    · by_cases he : total P + total (f :: T) - 1 = addr + r.endoff
      · simp only [hl, he, if_false, ne_eq, not_true, and_false]
      · simp only [hl, he, if_false, ne_eq, not_false_eq_true, and_self, if_true]
        rw [sub_mod_W1 _ _ (by omega) (by omega)]
  have hN : (r.endoff + p.extend) % W
      = addr + r.endoff - addr + ((if f.meth = r.meth then addr - total P else 0)
          + (if l.meth = r.meth then total P + total (f :: T) - 1 - (addr + r.endoff) else 0)) := by
    rw [h.extend, Nat.mod_eq_of_lt]
    · omega
    · (repeat' split) <;> omega
  unfold newMap midOf
  rw [hmod, hB, hE, hN]
  simp only [List.append_assoc]

theorem den_app3 (P M S : Map) (a : Nat) :
    den (P ++ M ++ S) 0 a = if a < total P then den P 0 a
      else if a < total P + total M then den M (total P) a else den S (total P + total M) a := by
  rw [List.append_assoc, den_append _ _ _ _ (Nat.zero_le _)]
  simp only [Nat.zero_add]
  split
  · rfl
  · rw [den_append _ _ _ _ (by omega)]

theorem den_mid_lo (f : Range) (T : Map) (s a : Nat) (h2 : a ≤ s + f.endoff) :
    den (f :: T) s a = f.meth := by
  simp only [den, h2, if_true]

theorem den_mid_hi (T' : Map) (l : Range) (s a : Nat) (h1 : s + total T' ≤ a)
    (h2 : a ≤ s + total T' + l.endoff) : den (T' ++ [l]) s a = l.meth := by
  rw [den_append _ _ _ _ (by omega), if_neg (by omega)]
  simp only [den, h2, if_true]

theorem newMap_sem {P T' S : Map} {f l : Range} {T : Map} {addr : Nat} {r : Range} {p : Plan}
    (h : PlanSpec P T' S f l T addr r p) :
    total (newMap P S f l r addr p) = W ∧
    ∀ a, den (newMap P S f l r addr p) 0 a
      = if addr ≤ a ∧ a ≤ addr + r.endoff then r.meth else den (P ++ f :: T ++ S) 0 a := by
  rw [newMap_eq h]
  have hlo1 := h.lo1
  have hlo2 := h.lo2
  have hhi1 := h.hi1
  have hhi2 := h.hi2
  have htot := h.tot
  have htT' : total (f :: T) = total T' + l.endoff + 1 := by rw [h.shape]; simp; omega
  have hMt := midOf_total (total P) addr (addr + r.endoff) (total P + total (f :: T) - 1)
    f.meth l.meth r.meth hlo1 (by omega) (by omega)
  have hMt' : total (midOf (total P) addr (addr + r.endoff) (total P + total (f :: T) - 1)
    f.meth l.meth r.meth) = total (f :: T) := by omega
  refine ⟨by simp only [total_append, hMt']; omega, fun a => ?_⟩
  rw [den_app3, den_app3, hMt']
  by_cases h1 : a < total P
  · rw [if_pos h1, if_pos h1, if_neg (by omega)]
  · rw [if_neg h1, if_neg h1]
    by_cases h2 : a < total P + total (f :: T)
    · rw [if_pos h2, if_pos h2, midOf_den _ _ _ _ _ _ _ hlo1 (by omega) (by omega) a (by omega) (by omega)]
      split
      · rfl
      · split
        · rw [den_mid_lo _ _ _ _ (by omega)]
        · rw [h.shape, den_mid_hi _ _ _ _ (by omega) (by omega)]
    · rw [if_neg h2, if_neg h2, if_neg (by omega)]


/-! ### `mapSet` -/

/-- The plan of the empty-map branch and the `delta` before the allocation. -/
def emptyPlan (addr : Nat) (r : Range) : Plan × Int :=
  let end_ := (addr + r.endoff) % W
  let (extend, raddr, rend) :=
    if r.meth = NONE then ((ADDR_MAX + W - (end_ + W - addr) % W) % W, addr, end_)
    else (0, 0, ADDR_MAX)
  let d1 : Int := if addr = raddr then 2 else 3
  let delta : Int := if rend = end_ then d1 - 1 else d1
  (⟨0, 0, 1, raddr, rend, extend, delta - 1⟩, delta)

theorem mapSet_nil (addr : Nat) (r : Range) (ok : Bool) :
    mapSet [] addr r ok =
      if (emptyPlan addr r).2 > 0 then
        (if !ok then (.nomem, [])
         else applyPlan (⟨ADDR_MAX, NONE⟩ :: List.replicate ((emptyPlan addr r).2.toNat - 1) garbage)
            1 (emptyPlan addr r).1 addr r)
      else (.oob, []) := by
  unfold mapSet emptyPlan
  by_cases h : r.meth = NONE <;> simp only [h, if_true, if_false] <;> rfl

theorem mapSet_cons (x : Range) (xs : Map) (addr : Nat) (r : Range) (ok : Bool) :
    mapSet (x :: xs) addr r ok =
      match planNonEmpty (x :: xs) addr r with
      | none => (.oob, x :: xs)
      | some p =>
        if p.delta > 0 then
          (if !ok then (.nomem, x :: xs)
           else applyPlan ((x :: xs) ++ List.replicate p.delta.toNat garbage) (x :: xs).length p addr r)
        else applyPlan (x :: xs) (x :: xs).length p addr r := by
  rfl

theorem mapSet_nomem (m : Map) (addr : Nat) (r : Range) :
    mapSet m addr r false = (.nomem, m) ∨ mapSet m addr r false = mapSet m addr r true := by
  cases m with
  | nil =>
    rw [mapSet_nil, mapSet_nil]
    by_cases h : (emptyPlan addr r).2 > 0
    · left; simp only [h, if_true]; rfl
    · right; simp only [h, if_false]
  | cons x xs =>
    rw [mapSet_cons, mapSet_cons]
    cases planNonEmpty (x :: xs) addr r with
    | none => right; rfl
    | some p =>
      by_cases h : p.delta > 0
      · left; simp only [h, if_true]; rfl
      · right; simp only [h, if_false]

theorem emptyPlan_spec (addr : Nat) (r : Range) (hr : addr + r.endoff < W) :
    PlanSpec [] [] [] ⟨ADDR_MAX, NONE⟩ ⟨ADDR_MAX, NONE⟩ [] addr r (emptyPlan addr r).1 ∧
    (emptyPlan addr r).2 = (emptyPlan addr r).1.delta + 1 ∧ (emptyPlan addr r).1.delta ≥ 0 := by
  have hmod : (addr + r.endoff) % W = addr + r.endoff := Nat.mod_eq_of_lt hr
  unfold emptyPlan
  rw [hmod]
  by_cases h : r.meth = NONE
  · have h'' : (NONE = r.meth) ↔ True := ⟨fun _ => trivial, fun _ => h.symm⟩
    simp only [h, if_true]
    refine ⟨⟨rfl, rfl, rfl, rfl, hr, ?_, ?_, ?_, ?_, ?_, ?_, ?_, ?_, ?_⟩, ?_, ?_⟩
    all_goals simp only [total_nil, total_cons, List.length_nil, ADDR_MAX, W, h'', if_true, ne_eq,
      not_true, if_false] at *
    all_goals omega
  · have h' : ¬ (NONE = r.meth) := fun e => h e.symm
    simp only [h, if_false]
    refine ⟨⟨rfl, rfl, rfl, rfl, hr, ?_, ?_, ?_, ?_, ?_, ?_, ?_, ?_, ?_⟩, ?_, ?_⟩
    all_goals simp only [total_nil, total_cons, List.length_nil, ADDR_MAX, W, h', if_false, ne_eq] at *
    all_goals (repeat' split)
    all_goals omega

theorem mapSet_ne (m : Map) (hne : m ≠ []) (addr : Nat) (r : Range) (ok : Bool) :
    mapSet m addr r ok =
      match planNonEmpty m addr r with
      | none => (.oob, m)
      | some p =>
        if p.delta > 0 then
          (if !ok then (.nomem, m)
           else applyPlan (m ++ List.replicate p.delta.toNat garbage) m.length p addr r)
        else applyPlan m m.length p addr r := by
  cases m with
  | nil => exact absurd rfl hne
  | cons x xs => rfl

theorem PlanSpec.applyPlan_ok {P T' S : Map} {f l : Range} {T : Map} {addr : Nat} {r : Range}
    {p : Plan} (h : PlanSpec P T' S f l T addr r p) (G : Map) (hG : G.length = p.delta.toNat) :
    applyPlan (P ++ f :: T ++ S ++ G) (P ++ f :: T ++ S).length p addr r
      = (.ok, newMap P S f l r addr p) := by
  have hmod : (addr + r.endoff) % W = addr + r.endoff := Nat.mod_eq_of_lt h.guard
  have hlen : (P ++ f :: T ++ S).length = P.length + T'.length + 1 + S.length := by
    have := congrArg List.length h.shape
    simp only [List.length_cons, List.length_append, List.length_nil] at this ⊢
    omega
  rw [hlen]
  exact applyPlan_spec P T' S G f l T p addr r h.shape h.fi h.li h.left (by rw [hmod]; exact h.delta) hG

/-- Main characterisation of a guarded `set` with a succeeding allocator: the map
(or, for the never-set map, the single `NONE` range it stands for) decomposes as
`P ++ f :: T ++ S`, and the result is `newMap` for a plan satisfying `PlanSpec`. -/
theorem mapSet_spec (m : Map) (h : WF m) (addr : Nat) (r : Range) (hr : addr + r.endoff < W) :
    ∃ P T' S f l T p, (∀ a, den (P ++ f :: T ++ S) 0 a = den m 0 a) ∧
      PlanSpec P T' S f l T addr r p ∧
      mapSet m addr r true = (.ok, newMap P S f l r addr p) := by
  by_cases hne : m = []
  · subst hne
    obtain ⟨hps, hd, hge⟩ := emptyPlan_spec addr r hr
    refine ⟨[], [], [], ⟨ADDR_MAX, NONE⟩, ⟨ADDR_MAX, NONE⟩, [], (emptyPlan addr r).1, ?_, hps, ?_⟩
    · intro a; simp [den]
    · rw [mapSet_nil, if_pos (by omega)]
      have := hps.applyPlan_ok (List.replicate ((emptyPlan addr r).2.toNat - 1) garbage)
        (by simp only [List.length_replicate]; omega)
      simpa using this
  · have hW : total m = W := by
      rcases h with h | h
      · exact absurd h hne
      · exact h
    obtain ⟨P, T', S, f, l, T, p, hm, hplan, hps⟩ := planNonEmpty_spec m hW addr r hr
    refine ⟨P, T', S, f, l, T, p, by rw [hm]; intro a; rfl, hps, ?_⟩
    rw [mapSet_ne m hne, hplan]
    dsimp only
    subst hm
    by_cases hd : p.delta > 0
    · rw [if_pos hd]
      exact hps.applyPlan_ok _ (by simp)
    · rw [if_neg hd]
      have := hps.applyPlan_ok [] (by simp only [List.length_nil]; omega)
      rw [List.append_nil] at this
      exact this


end Kdf.Lemmas.Map
