import Kdf.Lemmas.PgtStep
/-! Helper lemmas for C02: simulation of `descend` by `walkLoop`, per-format step lemmas. -/
namespace Kdf.Lemmas.Pgt
open Kdf.Model.Pgt Kdf.Spec.ArchWalk Kdf.Model.PgtArch

theorem IdxInv.of_idx_eq {fields : List Nat} {va : Nat} {s s' : Step} (h : IdxInv fields va s)
    (e : s'.idx = s.idx) : IdxInv fields va s' := by
  constructor
  · rw [e]; exact h.nonempty
  · intro i hi
    have := h.val i hi
    simp only [idxAt] at this ⊢
    rw [e]; exact this

/-- what the model's `next_step` has to do for a given architectural decoding of the entry -/
def SimRes (fields : List Nat) (va t r : Nat) (s1 : Step) : Desc → Except XStatus Step → Prop
  | .notPresent, res => res = .error .notpresent
  | .invalid, res => res = .error .invalid
  | .leaf a, res => ∃ s2, res = .ok s2 ∧ s2.remain = 1 ∧ s2.elemsz = 1 ∧ s2.base = ⟨a, t⟩ ∧
      idxAt s2 0 = va % 2^(spanBits fields r)
  | .table a, res => 2 ≤ r ∧ ∃ s2, res = .ok s2 ∧ s2.remain = r ∧ s2.elemsz = s1.elemsz ∧
      s2.idx = s1.idx ∧ s2.base = ⟨a, t⟩

/-- one level: the per-format `pgt_*` function agrees with the architectural decoder -/
def StepSim (decode : Nat → Nat → Desc) (mem : Mem) (t pteMask : Nat) (pf : PagingForm)
    (sz va : Nat) : Prop :=
  ∀ r s1, 1 ≤ r → r ≤ pf.fieldsz.length → s1.remain = r → IdxInv pf.fieldsz va s1 →
    match mem s1.base.as s1.base.addr sz with
    | .error e => nextStepPgt extra mem t pteMask pf s1 = .error e
    | .ok raw => SimRes pf.fieldsz va t r s1 (decode r (raw &&& ((W - 1) ^^^ pteMask)))
        (nextStepPgt extra mem t pteMask pf s1)

/-! ## generic simulation -/

/-- the state after `--step->remain` and the address computation -/
def decr (s : Step) : Step :=
  { s with remain := s.remain - 1,
           base := { s.base with addr := (s.base.addr + idxAt s (s.remain - 1) * s.elemsz) % W } }

theorem walkLoop_succ (mem : Mem) (m : Meth) (fuel : Nat) (s : Step) (h : s.remain - 1 ≠ 0) :
    walkLoop extra mem m (fuel+1) s =
      match nextStep extra mem m (decr s) with
      | .error e => .error e
      | .ok s2 => walkLoop extra mem m fuel s2 := by
  rw [walkLoop]
  simp only [h, if_false]
  rfl

theorem walkLoop_final (mem : Mem) (m : Meth) (fuel : Nat) (s : Step) (h : s.remain = 1)
    (he : s.elemsz = 1) :
    (walkLoop extra mem m (fuel+1) s).map (·.base) =
      .ok ⟨(s.base.addr + idxAt s 0) % W, m.targetAs⟩ := by
  rw [walkLoop]
  simp [h, he, Except.map]

theorem walkLoop_descend (decode : Nat → Nat → Desc) (mem : Mem) (t : Nat) (root : FullAddr)
    (pteMask : Nat) (pf : PagingForm) (sz va : Nat)
    (hsim : StepSim decode mem t pteMask pf sz va) :
    ∀ r fuel s, r + 2 ≤ fuel → s.remain = r + 2 → r + 2 ≤ pf.fieldsz.length → s.elemsz = sz →
      IdxInv pf.fieldsz va s →
      (walkLoop extra mem (.pgt t root pteMask pf) fuel s).map (·.base) =
        descend decode mem pf.fieldsz sz t pteMask va (r+1) s.base := by
  intro r
  induction r with
  | zero =>
    intro fuel s hf hrem hn hsz hinv
    obtain ⟨fuel, rfl⟩ : ∃ f, fuel = f + 1 := ⟨fuel - 1, by omega⟩
    rw [walkLoop_succ _ _ _ _ (by omega), descend]
    have hs := hsim 1 (decr s) (by omega) (by omega) (by simp [decr, hrem])
      (hinv.of_idx_eq rfl)
    have hidx : idxAt s (s.remain - 1) = va / 2^(spanBits pf.fieldsz 1) % 2^(pf.fieldsz.getD 1 0) := by
      rw [hrem]; exact hinv.val 1 (by omega)
    have haddr : (decr s).base.addr =
        (s.base.addr + va / 2^(spanBits pf.fieldsz (0+1)) % 2^(pf.fieldsz.getD (0+1) 0) * sz) % W := by
      simp only [decr, hidx, hsz]
    have has : (decr s).base.as = s.base.as := rfl
    rw [has, haddr] at hs
    simp only [nextStep]
    cases hm : mem s.base.as
        ((s.base.addr + va / 2^(spanBits pf.fieldsz (0+1)) % 2^(pf.fieldsz.getD (0+1) 0) * sz) % W) sz with
    | error e => rw [hm] at hs; simp only [] at hs; rw [hs]; rfl
    | ok raw =>
      rw [hm] at hs; simp only [] at hs ⊢
      cases hd : decode (0+1) (raw &&& ((W - 1) ^^^ pteMask)) with
      | notPresent => rw [hd] at hs; simp only [SimRes] at hs; rw [hs]; rfl
      | invalid => rw [hd] at hs; simp only [SimRes] at hs; rw [hs]; rfl
      | table a => rw [hd] at hs; simp only [SimRes] at hs; omega
      | leaf a =>
        rw [hd] at hs; simp only [SimRes] at hs
        obtain ⟨s2, h1, h2, h3, h4, h5⟩ := hs
        rw [h1]; simp only []
        obtain ⟨fuel, rfl⟩ : ∃ f, fuel = f + 1 := ⟨fuel - 1, by omega⟩
        rw [walkLoop_final _ _ _ _ h2 h3, h4, h5]
        rfl
  | succ r ih =>
    intro fuel s hf hrem hn hsz hinv
    obtain ⟨fuel, rfl⟩ : ∃ f, fuel = f + 1 := ⟨fuel - 1, by omega⟩
    rw [walkLoop_succ _ _ _ _ (by omega), descend]
    have hs := hsim (r+2) (decr s) (by omega) (by omega) (by simp [decr, hrem])
      (hinv.of_idx_eq rfl)
    have hidx : idxAt s (s.remain - 1) =
        va / 2^(spanBits pf.fieldsz (r+2)) % 2^(pf.fieldsz.getD (r+2) 0) := by
      rw [hrem]; exact hinv.val (r+2) (by omega)
    have haddr : (decr s).base.addr =
        (s.base.addr + va / 2^(spanBits pf.fieldsz (r+1+1)) % 2^(pf.fieldsz.getD (r+1+1) 0) * sz) % W := by
      simp only [decr, hidx, hsz]
    have has : (decr s).base.as = s.base.as := rfl
    rw [has, haddr] at hs
    simp only [nextStep]
    cases hm : mem s.base.as
        ((s.base.addr + va / 2^(spanBits pf.fieldsz (r+1+1)) % 2^(pf.fieldsz.getD (r+1+1) 0) * sz) % W) sz with
    | error e => rw [hm] at hs; simp only [] at hs; rw [hs]; rfl
    | ok raw =>
      rw [hm] at hs; simp only [] at hs ⊢
      cases hd : decode (r+1+1) (raw &&& ((W - 1) ^^^ pteMask)) with
      | notPresent => rw [hd] at hs; simp only [SimRes] at hs; rw [hs]; rfl
      | invalid => rw [hd] at hs; simp only [SimRes] at hs; rw [hs]; rfl
      | table a =>
        rw [hd] at hs; simp only [SimRes] at hs
        obtain ⟨_, s2, h1, h2, h3, h4, h5⟩ := hs
        rw [h1]; simp only []
        rw [ih fuel s2 (by omega) h2 (by omega) (by rw [h3]; exact hsz) (hinv.of_idx_eq h4), h5]
      | leaf a =>
        rw [hd] at hs; simp only [SimRes] at hs
        obtain ⟨s2, h1, h2, h3, h4, h5⟩ := hs
        rw [h1]; simp only []
        obtain ⟨fuel, rfl⟩ : ∃ f, fuel = f + 1 := ⟨fuel - 1, by omega⟩
        rw [walkLoop_final _ _ _ _ h2 h3, h4, h5]
        rfl

/-! ## per-format step lemmas -/

set_option linter.unusedSimpArgs false
open Kdf.Model.Pgt Kdf.Spec.ArchWalk Kdf.Model.PgtArch

theorem simRes_huge (pf : PagingForm) (va t r : Nat) (s1 s' : Step) (a : Nat)
    (hrem : s'.remain = r) (h1 : 1 ≤ r) (hrn : r ≤ pf.fieldsz.length)
    (hinv : IdxInv pf.fieldsz va s') (hspan : spanBits pf.fieldsz pf.fieldsz.length ≤ 64)
    (hb : s'.base = ⟨a, t⟩) :
    SimRes pf.fieldsz va t r s1 (.leaf a) (.ok (hugePage pf s')) := by
  have hs : spanBits pf.fieldsz r ≤ 64 := Nat.le_trans (spanBits_mono _ hrn) hspan
  obtain ⟨h2, h3, h4, h5⟩ := hugePage_spec pf s' va r hrem h1 hrn hinv hs
  exact ⟨_, rfl, h2, h3, by rw [h4, hb], h5⟩

theorem simRes_lot_leaf (fields : List Nat) (va t : Nat) (s1 s' : Step) (x : Nat)
    (hrem : s'.remain = 1) (hn : 1 ≤ fields.length) (hinv : IdxInv fields va s') :
    SimRes fields va t 1 s1 (.leaf (x / 2^12 * 2^12)) (.ok (leafOrTable s' t x)) := by
  refine ⟨_, rfl, ?_, ?_, ?_, ?_⟩
  · rw [leafOrTable_remain, hrem]
  · simp [leafOrTable, hrem]
  · simp [leafOrTable, hrem, clearLow]
  · have := hinv.val 0 (by omega)
    simp only [spanBits_zero, Nat.pow_zero, Nat.div_one] at this
    rw [spanBits_one, ← this]
    simp [leafOrTable, hrem, idxAt]

theorem simRes_lot_table (fields : List Nat) (va t r : Nat) (s1 s' : Step) (x : Nat)
    (hrem : s'.remain = r) (hr : 2 ≤ r) (he : s'.elemsz = s1.elemsz) (hi : s'.idx = s1.idx) :
    SimRes fields va t r s1 (.table (x / 2^12 * 2^12)) (.ok (leafOrTable s' t x)) := by
  have hne : ¬ s'.remain = 1 := by omega
  refine ⟨hr, _, rfl, ?_, ?_, ?_, ?_⟩
  · rw [leafOrTable_remain, hrem]
  · simp [leafOrTable, hne, he]
  · simp [leafOrTable, hne, hi]
  · simp [leafOrTable, hne, clearLow]

theorem stepSim_x86_64 (mem : Mem) (t pteMask : Nat) (pf : PagingForm) (va : Nat)
    (hfmt : pf.fmt = .x86_64) (hmask : pteMask < W)
    (hspan : spanBits pf.fieldsz pf.fieldsz.length ≤ 64) :
    StepSim decodeX86_64 mem t pteMask pf 8 va := by
  intro r s1 hr1 hrn hrem hinv
  simp only [nextStepPgt, hfmt]
  unfold pgtX86_64 readPte
  cases hm : mem s1.base.as s1.base.addr 8 with
  | error e => rfl
  | ok raw =>
    simp only [bind, Except.bind, pure, Except.pure, throw, throwThe, MonadExceptOf.throw]
    rw [Nat.mod_eq_of_lt hmask]
    generalize raw &&& ((W - 1) ^^^ pteMask) = pte
    simp only [decodeX86_64, testBit, Nat.pow_zero, Nat.div_one]
    by_cases hp : pte % 2 = 0
    · have hp1 : ¬ pte % 2 = 1 := by omega
      simp [hp, hp1, SimRes]
    · have hp1 : pte % 2 = 1 := by omega
      simp only [hp, hp1, if_false, decide_true, Bool.not_true, Bool.false_eq_true]
      by_cases h1 : r = 1
      · have h3 : ¬ s1.remain = 3 := by omega
        have h2 : ¬ s1.remain = 2 := by omega
        simp only [h1, h2, h3, if_true, if_false, false_and]
        exact simRes_lot_leaf _ _ _ _ _ _ (by simp [hrem, h1]) (by omega) (hinv.of_idx_eq rfl)
      · by_cases hps : pte / 2^7 % 2 = 1
        · by_cases h2 : r = 2
          · have h3 : ¬ s1.remain = 3 := by omega
            have h2' : s1.remain = 2 := by omega
            simp only [h2, h2', h3, hps, if_true, if_false, false_and, decide_true, and_self,
              show ¬ (2:Nat) = 1 by decide]
            exact simRes_huge _ _ _ _ _ _ _ rfl (by omega) (by omega) (hinv.of_idx_eq rfl) hspan rfl
          · by_cases h3 : r = 3
            · have h3' : s1.remain = 3 := by omega
              simp only [h3, h3', hps, if_true, if_false, false_and, decide_true, and_self,
                show ¬ (3:Nat) = 1 by decide, show ¬ (3:Nat) = 2 by decide]
              exact simRes_huge _ _ _ _ _ _ _ rfl (by omega) (by omega) (hinv.of_idx_eq rfl) hspan rfl
            · have h3' : ¬ s1.remain = 3 := by omega
              have h2' : ¬ s1.remain = 2 := by omega
              simp only [h1, h2, h3, h2', h3', if_false, false_and]
              exact simRes_lot_table _ _ _ _ _ _ _ hrem (by omega) rfl rfl
        · simp only [h1, hps, if_false, and_false, decide_false, Bool.false_eq_true]
          exact simRes_lot_table _ _ _ _ _ _ _ hrem (by omega) rfl rfl

theorem pte_lt (mem : Mem) (hmem : MemWF mem) (as a sz raw m : Nat) (h : mem as a sz = .ok raw) :
    raw &&& m < 2^(8*sz) :=
  Nat.lt_of_le_of_lt Nat.and_le_left (hmem _ _ _ _ h)

theorem stepSim_ia32Pae (mem : Mem) (t pteMask : Nat) (pf : PagingForm) (va : Nat)
    (hfmt : pf.fmt = .ia32Pae) (hmask : pteMask < W)
    (hspan : spanBits pf.fieldsz pf.fieldsz.length ≤ 64) :
    StepSim decodeIa32Pae mem t pteMask pf 8 va := by
  intro r s1 hr1 hrn hrem hinv
  simp only [nextStepPgt, hfmt]
  unfold pgtIa32Pae readPte
  cases hm : mem s1.base.as s1.base.addr 8 with
  | error e => rfl
  | ok raw =>
    simp only [bind, Except.bind, pure, Except.pure, throw, throwThe, MonadExceptOf.throw]
    rw [Nat.mod_eq_of_lt hmask]
    generalize raw &&& ((W - 1) ^^^ pteMask) = pte
    simp only [decodeIa32Pae, testBit, Nat.pow_zero, Nat.div_one]
    by_cases hp : pte % 2 = 0
    · have hp1 : ¬ pte % 2 = 1 := by omega
      simp [hp, hp1, SimRes]
    · have hp1 : pte % 2 = 1 := by omega
      simp only [hp, hp1, if_false, decide_true, Bool.not_true, Bool.false_eq_true]
      by_cases h1 : r = 1
      · have h2 : ¬ s1.remain = 2 := by omega
        simp only [h1, h2, if_true, if_false, false_and, show ¬ (1:Nat) = 2 by decide]
        exact simRes_lot_leaf _ _ _ _ _ _ (by simp [hrem, h1]) (by omega) (hinv.of_idx_eq rfl)
      · by_cases hps : pte / 2^7 % 2 = 1
        · by_cases h2 : r = 2
          · have h2' : s1.remain = 2 := by omega
            simp only [h2, h2', hps, if_true, if_false, false_and, decide_true, and_self,
              show ¬ (2:Nat) = 1 by decide]
            exact simRes_huge _ _ _ _ _ _ _ rfl (by omega) (by omega) (hinv.of_idx_eq rfl) hspan rfl
          · have h2' : ¬ s1.remain = 2 := by omega
            simp only [h1, h2, h2', if_false, false_and]
            exact simRes_lot_table _ _ _ _ _ _ _ hrem (by omega) rfl rfl
        · simp only [h1, hps, if_false, and_false, decide_false, Bool.false_eq_true]
          exact simRes_lot_table _ _ _ _ _ _ _ hrem (by omega) rfl rfl

theorem stepSim_ia32 (mem : Mem) (hmem : MemWF mem) (t pteMask : Nat) (pf : PagingForm) (va : Nat)
    (hfmt : pf.fmt = .ia32) (hmask : pteMask < W)
    (hspan : spanBits pf.fieldsz pf.fieldsz.length ≤ 64) :
    StepSim decodeIa32 mem t pteMask pf 4 va := by
  intro r s1 hr1 hrn hrem hinv
  simp only [nextStepPgt, hfmt]
  unfold pgtIa32 readPte
  cases hm : mem s1.base.as s1.base.addr 4 with
  | error e => rfl
  | ok raw =>
    simp only [bind, Except.bind, pure, Except.pure, throw, throwThe, MonadExceptOf.throw]
    rw [Nat.mod_eq_of_lt hmask]
    have hlt := pte_lt mem hmem _ _ _ _ ((W - 1) ^^^ pteMask) hm
    generalize raw &&& ((W - 1) ^^^ pteMask) = pte at hlt ⊢
    simp only [decodeIa32, testBit, Nat.pow_zero, Nat.div_one]
    by_cases hp : pte % 2 = 0
    · have hp1 : ¬ pte % 2 = 1 := by omega
      simp [hp, hp1, SimRes]
    · have hp1 : pte % 2 = 1 := by omega
      simp only [hp, hp1, if_false, decide_true, Bool.not_true, Bool.false_eq_true,
        show ¬ (1:Nat) = 0 by decide]
      by_cases h1 : r = 1
      · have h2 : ¬ s1.remain = 2 := by omega
        simp only [h1, h2, if_true, if_false, false_and, show ¬ (1:Nat) = 2 by decide]
        exact simRes_lot_leaf _ _ _ _ _ _ (by simp [hrem, h1]) (by omega) (hinv.of_idx_eq rfl)
      · by_cases hps : pte / 2^7 % 2 = 1
        · by_cases h2 : r = 2
          · have h2' : s1.remain = 2 := by omega
            simp only [h2, h2', hps, if_true, if_false, false_and, decide_true, and_self,
              show ¬ (2:Nat) = 1 by decide]
            refine simRes_huge pf va t 2 s1 _ _ rfl (by omega) (by omega) (hinv.of_idx_eq rfl) hspan ?_
            show FullAddr.mk _ _ = _
            congr 1
            have hb : pte / 2^22 * 2^22 < 2^32 :=
              Nat.lt_of_le_of_lt (Nat.div_mul_le_self _ _) hlt
            simp only [clearLow, bits]
            rw [or_eq_add' _ _ _ hb]; omega
          · have h2' : ¬ s1.remain = 2 := by omega
            simp only [h1, h2, h2', if_false, false_and]
            exact simRes_lot_table _ _ _ _ _ _ _ hrem (by omega) rfl rfl
        · simp only [h1, hps, if_false, and_false, decide_false, Bool.false_eq_true]
          exact simRes_lot_table _ _ _ _ _ _ _ hrem (by omega) rfl rfl

theorem stepSim_pfn (mem : Mem) (t pteMask : Nat) (pf : PagingForm) (sz va : Nat)
    (hfmt : (pf.fmt = .pfn32 ∧ sz = 4) ∨ (pf.fmt = .pfn64 ∧ sz = 8)) (hmask : pteMask < W) :
    StepSim (decodePfn pf.fieldsz) mem t pteMask pf sz va := by
  intro r s1 hr1 hrn hrem hinv
  have hn : nextStepPgt extra mem t pteMask pf s1 = pgtPfn mem sz t pteMask pf s1 := by
    rcases hfmt with ⟨h, rfl⟩ | ⟨h, rfl⟩ <;> simp only [nextStepPgt, h]
  rw [hn]
  unfold pgtPfn readPte
  cases hm : mem s1.base.as s1.base.addr sz with
  | error e => rfl
  | ok raw =>
    simp only [bind, Except.bind, pure, Except.pure, throw, throwThe, MonadExceptOf.throw]
    rw [Nat.mod_eq_of_lt hmask]
    generalize raw &&& ((W - 1) ^^^ pteMask) = pte
    simp only [decodePfn]
    by_cases hp : pte = 0
    · simp [hp, SimRes]
    · simp only [hp, if_false]
      by_cases h1 : r = 1
      · have h1' : s1.remain = 1 := by omega
        simp only [h1, h1', if_true]
        refine ⟨_, rfl, rfl, rfl, rfl, ?_⟩
        have := hinv.val 0 (by omega)
        simp only [spanBits_zero, Nat.pow_zero, Nat.div_one] at this
        rw [spanBits_one, ← this]
        rfl
      · have h1' : ¬ s1.remain = 1 := by omega
        simp only [h1, h1', if_false]
        exact ⟨by omega, _, rfl, hrem, rfl, rfl, rfl⟩

theorem tableSpan_fold (l : List Nat) (c : Nat) :
    l.foldl (fun acc b => acc * 2^b % W) (c % W) = c * 2^(l.foldl (· + ·) 0) % W := by
  induction l generalizing c with
  | nil => simp
  | cons b bs ih =>
    simp only [List.foldl_cons]
    rw [Nat.mod_mul_mod, ih, foldl_add_shift bs (0 + b), Nat.zero_add, Nat.pow_add, Nat.mul_assoc]

theorem tableSpan_eq (pf : PagingForm) (r : Nat) : tableSpan pf r = 2^(spanBits pf.fieldsz r) % W := by
  have := tableSpan_fold (pf.fieldsz.take r) 1
  rw [Nat.one_mul] at this
  exact this

theorem tableMask_eq (pf : PagingForm) (r : Nat) (h : spanBits pf.fieldsz r ≤ 64) :
    tableMask pf r = 2^(spanBits pf.fieldsz r) - 1 := by
  unfold tableMask
  rw [tableSpan_eq]
  generalize spanBits pf.fieldsz r = k at h ⊢
  by_cases hk : k = 64
  · subst hk; decide
  · have h1 : (2:Nat)^k < 2^64 := Nat.pow_lt_pow_right (by decide) (by omega)
    have h2 : 0 < (2:Nat)^k := Nat.two_pow_pos k
    have e : 2^k % W = 2^k := Nat.mod_eq_of_lt h1
    rw [e]
    show (2^k + 2^64 - 1) % 2^64 = 2^k - 1
    omega

theorem simRes_lot_table' (fields : List Nat) (va t r : Nat) (s1 s' : Step) (x a : Nat)
    (hrem : s'.remain = r) (hr : 2 ≤ r) (he : s'.elemsz = s1.elemsz) (hi : s'.idx = s1.idx)
    (ha : a = x / 2^12 * 2^12) :
    SimRes fields va t r s1 (.table a) (.ok (leafOrTable s' t x)) := by
  subst ha; exact simRes_lot_table _ _ _ _ _ _ _ hrem hr he hi

theorem simRes_lot_leaf' (fields : List Nat) (va t : Nat) (s1 s' : Step) (x a : Nat)
    (hrem : s'.remain = 1) (hn : 1 ≤ fields.length) (hinv : IdxInv fields va s')
    (ha : a = x / 2^12 * 2^12) :
    SimRes fields va t 1 s1 (.leaf a) (.ok (leafOrTable s' t x)) := by
  subst ha; exact simRes_lot_leaf _ _ _ _ _ _ hrem hn hinv

theorem stepSim_riscv64 (mem : Mem) (t pteMask : Nat) (pf : PagingForm) (va : Nat)
    (hfmt : pf.fmt = .riscv64) (hmask : pteMask < W) (hf0 : pf.fieldsz.getD 0 0 = 12)
    (hspan : spanBits pf.fieldsz pf.fieldsz.length ≤ 64) :
    StepSim (decodeRiscv64 pf.fieldsz) mem t pteMask pf 8 va := by
  intro r s1 hr1 hrn hrem hinv
  simp only [nextStepPgt, hfmt]
  unfold pgtRiscv64 readPte
  cases hm : mem s1.base.as s1.base.addr 8 with
  | error e => rfl
  | ok raw =>
    simp only [bind, Except.bind, pure, Except.pure, throw, throwThe, MonadExceptOf.throw]
    rw [Nat.mod_eq_of_lt hmask]
    generalize raw &&& ((W - 1) ^^^ pteMask) = pte
    have hb0 : bits pte 0 1 = pte % 2 := by simp [bits]
    have hb1 : bits pte 1 3 = pte / 2 % 8 := by simp [bits]
    have hb10 : bits pte 10 44 = pte / 2^10 % 2^44 := rfl
    rw [hb0, hb1, hb10]
    unfold decodeRiscv64
    have hppn : pte / 2^10 % 2^44 * 2^12 % W = pte / 2^10 % 2^44 * 2^12 := by
      apply Nat.mod_eq_of_lt
      have : pte / 2^10 % 2^44 < 2^44 := Nat.mod_lt _ (Nat.two_pow_pos _)
      show _ < 2^64
      omega
    rw [hppn]
    generalize hppn' : pte / 2^10 % 2^44 = ppn
    have hppnlt : ppn * 2^12 < W := by
      have : ppn < 2^44 := by rw [← hppn']; exact Nat.mod_lt _ (Nat.two_pow_pos _)
      show _ < 2^64
      omega
    have hcl : ppn * 2^12 = ppn * 2^12 / 2^12 * 2^12 := by
      rw [Nat.mul_div_cancel _ (Nat.two_pow_pos 12)]
    subst hrem
    by_cases hp : pte % 2 = 0
    · simp only [hp, if_true, SimRes]
    · simp only [hp, if_false]
      by_cases hperm : pte / 2 % 8 = 0
      · simp only [hperm, if_true, ne_eq, not_true_eq_false, and_false, if_false, and_true]
        by_cases h1 : s1.remain = 1
        · simp only [h1, if_true, SimRes]
        · simp only [h1, if_false]
          exact simRes_lot_table' _ _ _ _ _ _ _ _ rfl (by omega) rfl rfl hcl
      · simp only [hperm, if_false, ne_eq, not_false_eq_true, and_true, and_false]
        by_cases h1 : s1.remain = 1
        · have : ¬ s1.remain > 1 := by omega
          simp only [this, if_false]
          rw [h1, spanBits_one, hf0]
          exact simRes_lot_leaf' _ _ _ _ _ _ _ rfl (by omega) (hinv.of_idx_eq rfl) rfl
        · have hgt : s1.remain > 1 := by omega
          have hs : spanBits pf.fieldsz s1.remain ≤ 64 := Nat.le_trans (spanBits_mono _ hrn) hspan
          simp only [hgt, if_true]
          refine simRes_huge pf va t s1.remain s1 _ _ rfl (by omega) hrn (hinv.of_idx_eq rfl) hspan ?_
          show FullAddr.mk _ _ = _
          rw [tableMask_eq _ _ hs, and_not_mask _ _ hppnlt hs]

end Kdf.Lemmas.Pgt
