import Kdf.Model.Flat
import Kdf.Lemmas.Map
/-! Specification-side definitions for C11 (no proofs here). -/
namespace Kdf.Lemmas.Flat
open Kdf.Model.Map Kdf.Model.Flat Kdf.Lemmas.Map

/-- One record of a flattened stream: `size` bytes that belong at position `pos`
of the rearranged file, stored at position `dpos` of the flattened file. -/
structure Rec where
  pos : Nat
  size : Nat
  dpos : Nat
  deriving DecidableEq, Repr

def Rec.covers (r : Rec) (p : Nat) : Prop := r.pos ≤ p ∧ p < r.pos + r.size
instance (r : Rec) (p : Nat) : Decidable (r.covers p) := by unfold Rec.covers; infer_instance

/-- The records of the stream that starts at `p`, as the format defines them:
header = big-endian (offset, size), data follows the header, offset −1 ends the
stream.  Every record has a non-negative offset and a positive size. -/
inductive Parsed (f : File) : Nat → List Rec → Prop
  | done {p : Nat} : toS64 (be64 f p) = -1 → Parsed f p []
  | more {p : Nat} {recs : List Rec} (pos size : Nat) :
      toS64 (be64 f p) = (pos : Int) → toS64 (be64 f (p + 8)) = (size : Int) → 0 < size →
      Parsed f (p + RECHDR + size) recs → Parsed f p (⟨pos, size, p + RECHDR⟩ :: recs)

/-- The rearranged file: all-zero, then the records written in stream order
(later records overwrite earlier ones). -/
def rearranged (f : File) (recs : List Rec) (p : Nat) : Nat :=
  recs.foldl (fun acc r => if r.covers p then f (r.dpos + (p - r.pos)) % 256 else acc) 0

/-- index of the last record covering `p` (`NONE` if there is none), counting from `i` -/
def coverFrom : List Rec → Nat → Int → Nat → Int
  | [], _, acc, _ => acc
  | r :: rs, i, acc, p => coverFrom rs (i + 1) (if r.covers p then (i : Int) else acc) p

def cover (recs : List Rec) (p : Nat) : Int := coverFrom recs 0 NONE p

/-- value at rearranged position `p` as `flatmap_pread_flat` computes it from a
segment map and the offset array -/
def viaMap (m : Map) (offs : List Int) (f : File) (p : Nat) : Nat :=
  let k := den m 0 p
  if k = NONE then 0
  else match offAt offs k with
    | some o => f ((p : Int) + o).toNat % 256
    | none => 0

/-- every position of `[pos, pos+len)` that the map assigns to a segment has a
valid entry in `offs` leading to a non-negative flattened position -/
def ValidOn (m : Map) (offs : List Int) (pos len : Nat) : Prop :=
  ∀ p, pos ≤ p → p < pos + len → den m 0 p ≠ NONE →
    ∃ o, offAt offs (den m 0 p) = some o ∧ 0 ≤ (p : Int) + o

/-- invariant of the scan loop after the records `recs` -/
def Inv (recs : List Rec) (s : Scan) : Prop :=
  WF s.map ∧ s.offs = recs.map (fun r => (r.dpos : Int) - (r.pos : Int)) ∧
  (∀ p, p < W → den s.map 0 p = cover recs p) ∧
  (∀ r ∈ recs, r.pos < S63 ∧ r.size < S63)

/-- a range that spans the whole 64-bit space (only possible for a map with a
single range) is a hole: for such a range the `size_t` computation
`range->endoff + 1 - off` of `flatmap_pread_flat` wraps to zero -/
def NoFullSeg (m : Map) : Prop := ∀ r ∈ m, r.endoff + 1 = W → r.meth = NONE

/-- the records stay inside the range of `off_t` -/
def Fits (recs : List Rec) : Prop := ∀ r ∈ recs, r.dpos + r.size < S63

end Kdf.Lemmas.Flat
