import Kdf.Lemmas.ErrList
/-! State-level string lemmas for the error-message buffer (C16). -/
namespace Kdf.Lemmas.Err
open Kdf.Model.Err

theorem cstr_null (e : ErrBuf) : cstr e .null = [] := by
  simp [cstr, cstr.go, rd]

theorem cstr_buf (e : ErrBuf) (o : Nat) (s : List Byte) (hl : e.buf.length ≤ e.bufsz)
    (h : Shape e.buf o s) : cstr e (.inBuf o) = s := by
  have hlt := h.lt
  unfold cstr
  rw [go_spec e (.inBuf o) s h.nz (fun i hi => by simpa [rd] using h.get i hi)
    (by simpa [rd] using h.get_nul) _ 0 (by omega) (by omega)]
  simp

theorem cstr_dyn (e : ErrBuf) (o : Nat) (d s : List Byte) (hd : e.dyn = some d)
    (h : Shape d o s) : cstr e (.inDyn o) = s := by
  have hlt := h.lt
  unfold cstr
  simp only [hd]
  rw [go_spec e (.inDyn o) s h.nz (fun i hi => by simpa [rd, hd] using h.get i hi)
    (by simpa [rd, hd] using h.get_nul) _ 0 (by omega) (by omega)]
  simp

/-- the string pointer designates the NUL-terminated string `s` -/
def StrAt (e : ErrBuf) (p : Pos) (s : List Byte) : Prop :=
  match p with
  | .null => s = []
  | .inBuf o => o < e.bufsz ∧ Shape e.buf o s
  | .inDyn o => o ≤ 1 ∧ ∃ d, e.dyn = some d ∧ Shape d o s

theorem Inv.strAt {e : ErrBuf} (h : Inv e) : StrAt e e.str (text e) := by
  have hs := h.str_ok
  unfold text
  cases hstr : e.str with
  | null => simp [StrAt, cstr_null]
  | inBuf o =>
    rw [hstr] at hs
    obtain ⟨ho, n, hn, h0, hall⟩ := hs
    obtain ⟨s, _, hsh⟩ := Shape.of_pointwise h0 hall
    rw [cstr_buf e o s (by rw [h.buf_len]; exact Nat.le_refl _) hsh]
    exact ⟨ho, hsh⟩
  | inDyn o =>
    rw [hstr] at hs
    obtain ⟨d, hd, ho, n, hn, h0, hall⟩ := hs
    obtain ⟨s, _, hsh⟩ := Shape.of_pointwise h0 hall
    rw [cstr_dyn e o d s hd hsh]
    exact ⟨ho, d, hd, hsh⟩

theorem Inv.of_null {e : ErrBuf} (hb : 2 ≤ e.bufsz) (hl : e.buf.length = e.bufsz) (ho : e.oob = false)
    (hs : e.str = .null) : Inv e ∧ text e = [] := by
  refine ⟨⟨hb, hl, ho, ?_⟩, ?_⟩
  · rw [hs]; trivial
  · rw [text, hs, cstr_null]

theorem Inv.of_buf {e : ErrBuf} {o : Nat} {s : List Byte} (hb : 2 ≤ e.bufsz) (hl : e.buf.length = e.bufsz)
    (ho : e.oob = false) (hs : e.str = .inBuf o) (h : Shape e.buf o s) : Inv e ∧ text e = s := by
  have hlt := h.lt
  refine ⟨⟨hb, hl, ho, ?_⟩, ?_⟩
  · rw [hs]
    refine ⟨by omega, s.length, by omega, h.get_nul, fun i hi => ?_⟩
    rw [h.get i hi, List.getElem?_eq_getElem hi]
    exact ⟨_, rfl, h.nz _ (List.getElem_mem hi)⟩
  · rw [text, hs, cstr_buf e o s (by omega) h]

theorem Inv.of_dyn {e : ErrBuf} {o : Nat} {d s : List Byte} (hb : 2 ≤ e.bufsz) (hl : e.buf.length = e.bufsz)
    (ho : e.oob = false) (hs : e.str = .inDyn o) (ho1 : o ≤ 1) (hd : e.dyn = some d)
    (h : Shape d o s) : Inv e ∧ text e = s := by
  have hlt := h.lt
  refine ⟨⟨hb, hl, ho, ?_⟩, ?_⟩
  · rw [hs]
    refine ⟨d, hd, ho1, s.length, by omega, h.get_nul, fun i hi => ?_⟩
    rw [h.get i hi, List.getElem?_eq_getElem hi]
    exact ⟨_, rfl, h.nz _ (List.getElem_mem hi)⟩
  · rw [text, hs, cstr_dyn e o d s hd h]

end Kdf.Lemmas.Err
