import Kdf.Model.Derived
import Kdf.Lemmas.DerivedReg
/-! Helper lemmas for the Xen part of C14: the record split of `.xen_prstatus` and the
frame property of per-CPU operations. -/
namespace Kdf.Lemmas.DerivedXen
open Kdf.Model.Derived Kdf.Lemmas.DerivedReg

theorem xenSplit_spec (recsz : Nat) (h0 : 0 < recsz) :
    ∀ (fuel : Nat) (data : Bytes), data.length ≤ fuel →
      (xenSplit recsz fuel data).length = data.length / recsz ∧
      ∀ n, n < data.length / recsz →
        (xenSplit recsz fuel data)[n]? = some ((data.drop (n * recsz)).take recsz) := by
  intro fuel
  induction fuel with
  | zero =>
    intro data hl
    have : data.length = 0 := by omega
    simp [xenSplit, this]
  | succ f ih =>
    intro data hl
    unfold xenSplit
    by_cases hs : data.length < recsz
    · have hd : data.length / recsz = 0 := Nat.div_eq_of_lt hs
      simp [hs, hd]
    · have hge : recsz ≤ data.length := by omega
      have hne : ¬ (recsz = 0 ∨ data.length < recsz) := by omega
      rw [if_neg hne]
      have hlen : (data.drop recsz).length = data.length - recsz := by simp
      have hf : (data.drop recsz).length ≤ f := by omega
      obtain ⟨i1, i2⟩ := ih (data.drop recsz) hf
      have hdiv : data.length / recsz = (data.length - recsz) / recsz + 1 :=
        Nat.div_eq_sub_div h0 hge
      refine ⟨?_, ?_⟩
      · simp only [List.length_cons, i1, hlen, hdiv]
      · intro n hn
        cases n with
        | zero => simp
        | succ m =>
          have hm : m < (data.drop recsz).length / recsz := by rw [hlen]; omega
          have := i2 m hm
          simp only [List.getElem?_cons_succ, this, List.drop_drop]
          have e : recsz + m * recsz = (m + 1) * recsz := by rw [Nat.succ_mul]; omega
          rw [e]

theorem getElem?_setNth_self' {α} (l : List α) (i : Nat) (a x : α) (h : l[i]? = some x) :
    (setNth l i a)[i]? = some a :=
  getElem?_setNth_self l i a (lt_of_get h)

def AllCpusInvalid (cs : List Cpu) : Prop := ∀ c ∈ cs, AllInvalid c

theorem cpusUpdate_inv (cs : List Cpu) (h : AllCpusInvalid cs) (n : Nat) (f : Cpu → Option Cpu)
    (hf : ∀ c c', AllInvalid c → f c = some c' → AllInvalid c') :
    AllCpusInvalid ((cpusUpdate cs n f).getD cs) := by
  unfold cpusUpdate
  cases hc : cs[n]? with
  | none => exact h
  | some c =>
    simp only
    cases hfc : f c with
    | none => exact h
    | some c' =>
      intro x hx
      simp only [Option.map_some, Option.getD_some] at hx
      rcases mem_setNth cs n c' x hx with rfl | hm
      · exact hf c _ (h c (List.mem_of_getElem? hc)) hfc
      · exact h x hm

end Kdf.Lemmas.DerivedXen
