import Kdf.Model.Hist
import Kdf.Lemmas.Pfn
import Kdf.Lemmas.PfnGetBits
/-! Helper lemmas for C04, section 3: the `last_load` shortcut of the ELF segment lookup. -/
namespace Kdf.Lemmas.Hist
open Kdf.Model.Hist Kdf.Model.Pfn Kdf.Lemmas.Pfn

/-- the linear search walks over segments that end below `paddr` -/
theorem fc_go_skip (paddr dist : Nat) (s : Seg) (post : List Seg) :
    ∀ (pre : List Seg) (i0 : Nat), (∀ x ∈ pre, ¬ Hit paddr x) → Hit paddr s →
      ¬ (paddr < s.phys ∧ s.phys - paddr ≥ dist) →
      findClosest.go paddr dist (pre ++ s :: post) i0 = some (i0 + pre.length) := by
  intro pre
  induction pre with
  | nil =>
    intro i0 _ hs hd
    have hs' : s.size ≠ 0 ∧ paddr ≤ s.phys + s.size - 1 := hs
    rw [List.nil_append, fc_go_cons, if_pos hs', if_neg hd]; rfl
  | cons a pre ih =>
    intro i0 hp hs hd
    have ha : ¬ (a.size ≠ 0 ∧ paddr ≤ a.phys + a.size - 1) := hp a (List.mem_cons_self ..)
    rw [List.cons_append, fc_go_cons, if_neg ha]
    rw [ih (i0 + 1) (fun x hx => hp x (List.mem_cons_of_mem _ hx)) hs hd]
    simp only [List.length_cons]
    congr 1; omega

theorem findClosest_lt {segs : List Seg} {p d i : Nat} (h : findClosest segs p d = some i) :
    i < segs.length := by
  obtain ⟨pre, s, post, e1, e2, _⟩ := findClosest_some h
  rw [e1, e2]; simp

/-- the shortcut's answer is the linear search's answer -/
theorem findClosest_of_inside (segs : List Seg) (hs : SegsSorted segs) (l : Nat) (s : Seg)
    (hl : segs[l]? = some s) (p d : Nat) (h1 : p ≥ s.phys) (h2 : p - s.phys < s.size) :
    findClosest segs p d = some l := by
  obtain ⟨hlt, hget⟩ := List.getElem?_eq_some_iff.mp hl
  have hdec : segs = segs.take l ++ s :: segs.drop (l + 1) := by
    rw [← hget, ← List.drop_eq_getElem_cons hlt, List.take_append_drop]
  have hlen : (segs.take l).length = l := by rw [List.length_take]; omega
  unfold SegsSorted at hs
  rw [hdec, List.pairwise_append] at hs
  obtain ⟨_, _, hcross⟩ := hs
  have := fc_go_skip p d s (segs.drop (l + 1)) (segs.take l) 0
    (by
      intro x hx hh
      have := hcross x hx s (List.mem_cons_self ..)
      unfold Hit at hh
      omega)
    (by unfold Hit; omega) (by omega)
  rw [hlen, Nat.zero_add] at this
  unfold findClosest
  rw [← this, ← hdec]

/-- the result of the plain scan, and the pointer remembered afterwards -/
def scanOf (r : Option Nat) (last : Option Nat) : Option Nat × Option Nat :=
  match r with
  | some i => (some i, some i)
  | none => (none, last)

theorem findClosestSC_eq (segs : List Seg) (useLast : Bool) (last : Option Nat) (p d : Nat) :
    findClosestSC segs useLast last p d =
      match last with
      | none => some (scanOf (findClosest segs p d) last)
      | some l =>
        match segs[l]? with
        | none => none
        | some s =>
          if useLast ∧ p ≥ s.phys ∧ p - s.phys < s.size then some (some l, last)
          else some (scanOf (findClosest segs p d) last) := rfl

theorem scanOf_spec (segs : List Seg) (last : Option Nat)
    (hl : ∀ l, last = some l → l < segs.length) (p d : Nat) :
    ∃ last', scanOf (findClosest segs p d) last = (findClosest segs p d, last') ∧
      ∀ l, last' = some l → l < segs.length := by
  cases hf : findClosest segs p d with
  | none => exact ⟨last, rfl, hl⟩
  | some i =>
    refine ⟨some i, rfl, ?_⟩
    intro l e
    cases e
    exact findClosest_lt hf

theorem findClosestSC_spec (segs : List Seg) (useLast : Bool) (hs : useLast = true → SegsSorted segs)
    (last : Option Nat) (hl : ∀ l, last = some l → l < segs.length) (p d : Nat) :
    ∃ last', findClosestSC segs useLast last p d = some (findClosest segs p d, last') ∧
      ∀ l, last' = some l → l < segs.length := by
  obtain ⟨last0, hs1, hs2⟩ := scanOf_spec segs last hl p d
  rw [findClosestSC_eq]
  cases last with
  | none =>
    refine ⟨last0, ?_, hs2⟩
    simp only
    rw [hs1]
  | some l =>
    have hlt := hl l rfl
    simp only
    rw [List.getElem?_eq_getElem hlt]
    simp only
    by_cases hc : useLast = true ∧ p ≥ segs[l].phys ∧ p - segs[l].phys < segs[l].size
    · rw [if_pos hc]
      refine ⟨some l, ?_, hl⟩
      rw [findClosest_of_inside segs (hs hc.1) l segs[l] (List.getElem?_eq_getElem hlt) p d hc.2.1 hc.2.2]
    · rw [if_neg hc]
      exact ⟨last0, by rw [hs1], hs2⟩

theorem lookupsSC_spec (segs : List Seg) (useLast : Bool) (hs : useLast = true → SegsSorted segs)
    (qs : List (Nat × Nat)) :
    ∀ (last : Option Nat), (∀ l, last = some l → l < segs.length) →
    ∃ last', lookupsSC segs useLast last qs = some last' ∧ ∀ l, last' = some l → l < segs.length := by
  induction qs with
  | nil => intro last hl; exact ⟨last, rfl, hl⟩
  | cons q qs ih =>
    intro last hl
    obtain ⟨p, d⟩ := q
    obtain ⟨last1, h1, h2⟩ := findClosestSC_spec segs useLast hs last hl p d
    obtain ⟨last', h3, h4⟩ := ih last1 h2
    refine ⟨last', ?_, h4⟩
    unfold lookupsSC
    rw [h1]
    exact h3

/-! ### `loads_disjoint` -/

/-- `max(memsz, filesz)` as `loads_disjoint` computes it -/
def loadMsz (l : Load) : Nat := if l.filesz > l.memsz then l.filesz else l.memsz

theorem loadsDisjoint_cons (l : Load) (rest : List Load) (e : Nat) :
    loadsDisjoint (l :: rest) e =
      if l.start < e ∨ l.start + loadMsz l ≥ W then false else loadsDisjoint rest (l.start + loadMsz l) := rfl

theorem loadsDisjoint_pairwise : ∀ (ls : List Load) (e : Nat), loadsDisjoint ls e = true →
    (∀ l ∈ ls, e ≤ l.start) ∧ ls.Pairwise (fun a b => a.start + loadMsz a ≤ b.start) := by
  intro ls
  induction ls with
  | nil => intro e _; exact ⟨by simp, List.Pairwise.nil⟩
  | cons l rest ih =>
    intro e h
    rw [loadsDisjoint_cons] at h
    by_cases hc : l.start < e ∨ l.start + loadMsz l ≥ W
    · rw [if_pos hc] at h; exact absurd h (by simp)
    · rw [if_neg hc] at h
      obtain ⟨h1, h2⟩ := ih _ h
      refine ⟨?_, List.Pairwise.cons h1 h2⟩
      intro x hx
      rw [List.mem_cons] at hx
      rcases hx with rfl | hx
      · omega
      · have := h1 x hx; omega

theorem loadsDisjoint_segs (ls : List Load) (h : loadsDisjoint ls 0 = true) :
    SegsSorted (ls.map fun l => ⟨l.start, l.memsz⟩) ∧
    SegsSorted (ls.map fun l => ⟨l.start, l.filesz⟩) := by
  have hp := (loadsDisjoint_pairwise ls 0 h).2
  unfold SegsSorted
  rw [List.pairwise_map, List.pairwise_map]
  constructor
  · refine hp.imp ?_
    intro a b hab
    show a.start + a.memsz ≤ b.start
    unfold loadMsz at hab
    split at hab <;> omega
  · refine hp.imp ?_
    intro a b hab
    show a.start + a.filesz ≤ b.start
    unfold loadMsz at hab
    split at hab <;> omega

theorem findClosestSC_code (ls : List Load) (byFile : Bool) (last : Option Nat)
    (hl : ∀ l, last = some l → l < ls.length) (p d : Nat) :
    let segs : List Seg := ls.map fun l => ⟨l.start, if byFile then l.filesz else l.memsz⟩
    ∃ last', findClosestSC segs (loadsDisjoint ls 0) last p d = some (findClosest segs p d, last') := by
  intro segs
  have hlen : segs.length = ls.length := List.length_map ..
  have hs : loadsDisjoint ls 0 = true → SegsSorted segs := by
    intro h
    obtain ⟨h1, h2⟩ := loadsDisjoint_segs ls h
    cases byFile with
    | true => exact h2
    | false => exact h1
  obtain ⟨last', h1, _⟩ := findClosestSC_spec segs (loadsDisjoint ls 0) hs last
    (fun l e => by rw [hlen]; exact hl l e) p d
  exact ⟨last', h1⟩

end Kdf.Lemmas.Hist
