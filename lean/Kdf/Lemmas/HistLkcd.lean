import Kdf.Model.Hist
/-! Helper lemmas for C04, section 4: the lazily built LKCD index. -/
namespace Kdf.Lemmas.Hist
open Kdf.Model.Hist

/-- the scanned prefix never contains a frame twice (the scan stops at a repetition) -/
def LkInv {D : Type} (descs : List (Nat × D)) (s : Lkcd) : Prop :=
  s.pos ≤ descs.length ∧ ((descs.take s.pos).map (·.1)).Nodup

theorem firstOf_none {D : Type} {l : List (Nat × D)} {p : Nat} :
    firstOf l p = none ↔ ∀ x ∈ l, x.1 ≠ p := by
  unfold firstOf
  rw [Option.map_eq_none_iff, List.find?_eq_none]
  constructor
  · intro h x hx e; exact h x hx (by simp [e])
  · intro h x hx e; exact h x hx (by simpa using e)

theorem firstOf_isSome_false {D : Type} {l : List (Nat × D)} {p : Nat}
    (h : ¬ (firstOf l p).isSome = true) : firstOf l p = none := by
  cases hf : firstOf l p with
  | none => rfl
  | some d => rw [hf] at h; exact absurd rfl h

/-- the first occurrence behind `firstOf (take n)` -/
theorem firstOf_take_some {D : Type} {descs : List (Nat × D)} {n p : Nat} {d : D}
    (h : firstOf (descs.take n) p = some d) :
    ∃ j, ∃ hj : j < descs.length, j < n ∧ descs[j] = (p, d) ∧ firstOf (descs.take j) p = none := by
  unfold firstOf at h
  rw [Option.map_eq_some_iff] at h
  obtain ⟨x, hx, rfl⟩ := h
  rw [List.find?_eq_some_iff_getElem] at hx
  obtain ⟨hp, j, hj, hxj, hbefore⟩ := hx
  have hj' := hj
  rw [List.length_take] at hj'
  have hjl : j < descs.length := by omega
  rw [List.getElem_take] at hxj
  refine ⟨j, hjl, by omega, ?_, ?_⟩
  · rw [hxj]
    have : x.1 = p := by simpa using hp
    rw [← this]
  · rw [firstOf_none]
    intro y hy e
    obtain ⟨k, hk, rfl⟩ := List.getElem_of_mem hy
    have hk' := hk
    rw [List.length_take] at hk'
    have hkj : k < j := by omega
    have := hbefore k hkj
    rw [List.getElem_take] at this e
    simp [e] at this

theorem nodup_take_le {D : Type} {descs : List (Nat × D)} {m n : Nat} (hmn : m ≤ n)
    (h : ((descs.take n).map (·.1)).Nodup) : ((descs.take m).map (·.1)).Nodup :=
  List.Nodup.sublist (List.Sublist.map _ (List.take_sublist_take_left hmn)) h

theorem nodup_take_succ {D : Type} {descs : List (Nat × D)} {m : Nat} (hm : m < descs.length) :
    ((descs.take (m + 1)).map (·.1)).Nodup ↔
      ((descs.take m).map (·.1)).Nodup ∧ firstOf (descs.take m) descs[m].1 = none := by
  rw [List.take_succ_eq_append_getElem hm, List.map_append, List.nodup_append, firstOf_none]
  constructor
  · rintro ⟨h1, _, h3⟩
    refine ⟨h1, ?_⟩
    intro x hx e
    exact h3 x.1 (List.mem_map.mpr ⟨x, hx, rfl⟩) descs[m].1 (by simp) e
  · rintro ⟨h1, h3⟩
    refine ⟨h1, by simp, ?_⟩
    intro a ha b hb
    obtain ⟨x, hx, rfl⟩ := List.mem_map.mp ha
    simp only [List.map_cons, List.map_nil, List.mem_singleton] at hb
    subst hb
    exact h3 x hx

theorem firstOf_take_succ_none {D : Type} {descs : List (Nat × D)} {m p : Nat} (hm : m < descs.length)
    (h1 : firstOf (descs.take m) p = none) (h2 : descs[m].1 ≠ p) :
    firstOf (descs.take (m + 1)) p = none := by
  rw [firstOf_none] at h1 ⊢
  rw [List.take_succ_eq_append_getElem hm]
  intro x hx
  rw [List.mem_append, List.mem_singleton] at hx
  rcases hx with hx | rfl
  · exact h1 x hx
  · exact h2

theorem scanFrom_succ {D : Type} (descs : List (Nat × D)) (p i fuel : Nat) :
    scanFrom descs p i (fuel + 1) =
      match descs[i]? with
      | none => (descs.length, .notfound)
      | some (q, d) =>
        if (firstOf (descs.take i) q).isSome then (i, .corrupt)
        else if q = p then (i + 1, .found d)
        else scanFrom descs p (i + 1) fuel := rfl

/-- the scan walks through a duplicate-free prefix that does not contain `p` -/
theorem scan_skip {D : Type} (descs : List (Nat × D)) (p n : Nat) (hn : n ≤ descs.length)
    (hnd : ((descs.take n).map (·.1)).Nodup) (hp : firstOf (descs.take n) p = none) :
    ∀ k m fuel, m + k = n → scanFrom descs p m (fuel + k) = scanFrom descs p n fuel := by
  intro k
  induction k with
  | zero => intro m fuel e; have : m = n := by omega
            subst this; rfl
  | succ k ih =>
    intro m fuel e
    have hm : m < descs.length := by omega
    rw [← Nat.add_assoc, scanFrom_succ, List.getElem?_eq_getElem hm]
    have hnd' := nodup_take_le (show m + 1 ≤ n by omega) hnd
    rw [nodup_take_succ hm] at hnd'
    have hq : descs[m].1 ≠ p := by
      rw [firstOf_none] at hp
      apply hp
      rw [List.mem_take_iff_getElem]
      exact ⟨m, by omega, rfl⟩
    rcases hdm : descs[m] with ⟨q, d⟩
    rw [hdm] at hnd' hq
    simp only
    rw [hnd'.2]
    simp only [Option.isSome_none, Bool.false_eq_true, if_false]
    rw [if_neg hq]
    exact ih (m + 1) fuel (by omega)

/-- one step at a first occurrence of `p` -/
theorem scan_at {D : Type} (descs : List (Nat × D)) (p j : Nat) (d : D) (hj : j < descs.length)
    (hd : descs[j] = (p, d)) (hnd : ((descs.take (j + 1)).map (·.1)).Nodup) (fuel : Nat) :
    scanFrom descs p j (fuel + 1) = (j + 1, .found d) := by
  rw [nodup_take_succ hj, hd] at hnd
  rw [scanFrom_succ, List.getElem?_eq_getElem hj, hd]
  simp only
  rw [hnd.2]
  simp

/-- a frame in the duplicate-free scanned prefix is what a fresh scan finds -/
theorem scan_found {D : Type} (descs : List (Nat × D)) (p n : Nat) (d : D) (_hn : n ≤ descs.length)
    (hnd : ((descs.take n).map (·.1)).Nodup) (hp : firstOf (descs.take n) p = some d) :
    (scanFrom descs p 0 (descs.length + 1)).2 = .found d := by
  obtain ⟨j, hj, hjn, hdj, hnone⟩ := firstOf_take_some hp
  have h1 := scan_skip descs p j (by omega) (nodup_take_le (by omega) hnd) hnone j 0
    (descs.length + 1 - j) (by omega)
  have e : descs.length + 1 - j + j = descs.length + 1 := by omega
  rw [e] at h1
  rw [h1]
  have e2 : descs.length + 1 - j = (descs.length - j) + 1 := by omega
  rw [e2, scan_at descs p j d hj hdj (nodup_take_le (by omega) hnd)]

/-- a scan resumed at a position satisfying the invariant stops at such a position -/
theorem scan_inv {D : Type} (descs : List (Nat × D)) (p : Nat) :
    ∀ fuel n, n ≤ descs.length → descs.length - n < fuel → ((descs.take n).map (·.1)).Nodup →
      (scanFrom descs p n fuel).1 ≤ descs.length ∧
      ((descs.take (scanFrom descs p n fuel).1).map (·.1)).Nodup := by
  intro fuel
  induction fuel with
  | zero => intro n _ h; omega
  | succ fuel ih =>
    intro n hn hf hnd
    rw [scanFrom_succ]
    by_cases hlt : n < descs.length
    · rw [List.getElem?_eq_getElem hlt]
      rcases hdn : descs[n] with ⟨q, d⟩
      simp only
      by_cases hdup : (firstOf (descs.take n) q).isSome = true
      · rw [if_pos hdup]; exact ⟨hn, hnd⟩
      · rw [if_neg hdup]
        have hnd1 : ((descs.take (n + 1)).map (·.1)).Nodup := by
          rw [nodup_take_succ hlt, hdn]
          exact ⟨hnd, firstOf_isSome_false hdup⟩
        by_cases hq : q = p
        · rw [if_pos hq]; exact ⟨hlt, hnd1⟩
        · rw [if_neg hq]
          exact ih (n + 1) hlt (by omega) hnd1
    · rw [List.getElem?_eq_none (by omega)]
      have : n = descs.length := by omega
      subst this
      exact ⟨Nat.le_refl _, hnd⟩

theorem lkLookup_fresh {D : Type} (descs : List (Nat × D)) (p : Nat) :
    (lkLookup descs ⟨0⟩ p).2 = (scanFrom descs p 0 (descs.length + 1)).2 := rfl

theorem lkLookup_spec {D : Type} (descs : List (Nat × D)) (s : Lkcd) (h : LkInv descs s) (p : Nat) :
    (lkLookup descs s p).2 = (lkLookup descs ⟨0⟩ p).2 ∧ LkInv descs (lkLookup descs s p).1 := by
  obtain ⟨hpos, hnd⟩ := h
  rw [lkLookup_fresh]
  unfold lkLookup
  cases hf : firstOf (descs.take s.pos) p with
  | some d =>
    simp only
    exact ⟨(scan_found descs p s.pos d hpos hnd hf).symm, hpos, hnd⟩
  | none =>
    simp only
    have h1 := scan_skip descs p s.pos hpos hnd hf s.pos 0 (descs.length + 1 - s.pos) (by omega)
    have e : descs.length + 1 - s.pos + s.pos = descs.length + 1 := by omega
    rw [e] at h1
    rw [h1]
    exact ⟨rfl, scan_inv descs p _ s.pos hpos (by omega) hnd⟩

theorem lkInv_init {D : Type} (descs : List (Nat × D)) : LkInv descs ⟨0⟩ := by
  unfold LkInv; simp

theorem lkRun_inv {D : Type} (descs : List (Nat × D)) (ps : List Nat) :
    ∀ s, LkInv descs s → LkInv descs (lkRun descs s ps) := by
  induction ps with
  | nil => intro s h; exact h
  | cons p ps ih =>
    intro s h
    unfold lkRun
    rw [List.foldl_cons]
    exact ih _ (lkLookup_spec descs s h p).2

theorem lkLookup_fresh_spec {D : Type} (descs : List (Nat × D)) (hn : (descs.map (·.1)).Nodup) (p : Nat) :
    (lkLookup descs ⟨0⟩ p).2 = (match firstOf descs p with | some d => .found d | none => .notfound) := by
  rw [lkLookup_fresh]
  have hnd : ((descs.take descs.length).map (·.1)).Nodup := by rw [List.take_length]; exact hn
  cases hf : firstOf descs p with
  | some d =>
    simp only
    exact scan_found descs p descs.length d (Nat.le_refl _) hnd (by rw [List.take_length]; exact hf)
  | none =>
    simp only
    have h1 := scan_skip descs p descs.length (Nat.le_refl _) hnd (by rw [List.take_length]; exact hf)
      descs.length 0 1 (by omega)
    rw [Nat.add_comm] at h1
    rw [h1, scanFrom_succ, List.getElem?_eq_none (Nat.le_refl _)]

end Kdf.Lemmas.Hist
