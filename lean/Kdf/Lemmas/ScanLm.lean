import Kdf.Lemmas.ScanLoop
/-! C08: `lowest_mapped_tbl` and `lowest_unmapped_tbl` meet the ascending postcondition. -/
namespace Kdf.Lemmas.Scan
open Kdf.Model.Pgt Kdf.Model.Scan Kdf.Model.PgtArch Kdf.Spec.ArchWalk Kdf.Lemmas.Pgt

def NP (c : Cfg) (x : Nat) : Prop := G c x = .error .notpresent
def Mapped (c : Cfg) (x : Nat) : Prop := ∃ b, G c x = .ok b
def ErrG (c : Cfg) (e : XStatus) (a : Nat) : Prop := G c a = .error e
def OkLm (c : Cfg) (a : Nat) (s : Step) : Prop := a % 4096 = 0 ∧ G c a = .ok s.base
def OkLu (c : Cfg) (a : Nat) (_ : Step) : Prop := G c a = .error .notpresent

/-! ### lowest_mapped -/

theorem lmLoop_succ (sf : StepFn) (limit nelem tblmask : Nat) (rec : Step → Nat → Res) (k : Nat)
    (s : Step) (addr : Nat) :
    lmLoop sf limit nelem tblmask rec (k+1) s s addr =
      if addr ≤ limit then
        match sf s with
        | .ok s1 =>
          if s1.remain ≤ 1 then
            match sf s1 with
            | .ok s2 => .done .ok addr s2
            | .error e => .done e addr s1
          else
            match rec s1 addr with
            | .done .notpresent addr' _ =>
              contG nelem (fun my a => lmLoop sf limit nelem tblmask rec k my my a) s addr'
            | r => r
        | .error .notpresent =>
          contG nelem (fun my a => lmLoop sf limit nelem tblmask rec k my my a) s
            (((addr ||| tblmask) + 1) % W)
        | .error e => .done e addr s
      else .done .notpresent addr s := rfl

theorem or_next (addr p : Nat) : ((addr ||| (2^p - 1)) + 1) = (addr / 2^p + 1) * 2^p := by
  rw [or_mask, Nat.add_mul]
  have := Nat.two_pow_pos p
  omega

theorem entry_range {addr x p : Nat} (h1 : addr ≤ x) (h2 : x < (addr / 2^p + 1) * 2^p) :
    x / 2^p = addr / 2^p := by
  have hpos : 0 < (2:Nat)^p := Nat.two_pow_pos p
  rw [div_range hpos]
  exact ⟨Nat.le_trans ((div_range hpos).1 rfl).1 h1, h2⟩

theorem lmLoop_post (c : Cfg) (hpf : XF c.pf) (hmask : c.pteMask < W)
    (hmemok : ∀ as a sz, c.mem as a sz ≠ .error .ok) (limit : Nat) (hlim : limit < W) (r : Nat)
    (h2 : 2 ≤ r) (hn : r ≤ c.n) (rec : Step → Nat → Res)
    (hrec : 3 ≤ r → ∀ s1 a, At c a (r-1) s1 → a ≤ limit → a % 4096 = 0 →
      Post (NP c) (OkLm c) (ErrG c) limit (2^(c.sb (r-1))) a (rec s1 a)) :
    ∀ k s addr, At c addr r s → addr ≤ limit → addr % 4096 = 0 → 512 ≤ idxAt s (r-1) + k →
      Post (NP c) (OkLm c) (ErrG c) limit (2^(c.sb r)) addr
        (lmLoop c.sf limit 512 (2^(c.sb (r-1)) - 1) rec k s s addr) := by
  intro k
  induction k with
  | zero =>
    intro s addr h hal _ hk
    have := idx_cur c hpf h h2 hn
    omega
  | succ k ih =>
    intro s addr h hal h4096 hk
    rw [lmLoop_succ, if_pos hal]
    have hgt : 1 ≤ k → ∀ my a, limit < a →
        (fun my a => lmLoop c.sf limit 512 (2^(c.sb (r-1)) - 1) rec k my my a) my a =
          .done .notpresent a my := by
      intro hk1 my a hla
      obtain ⟨k', rfl⟩ : ∃ k', k = k' + 1 := ⟨k - 1, by omega⟩
      show lmLoop c.sf limit 512 (2^(c.sb (r-1)) - 1) rec (k'+1) my my a = _
      rw [lmLoop_succ, if_neg (by omega)]
    have hcont := cont_post c hpf (NP c) (OkLm c) (ErrG c) limit hlim addr r s h h2 hn hal k
      (by omega) (fun my a => lmLoop c.sf limit 512 (2^(c.sb (r-1)) - 1) rec k my my a)
      (fun my a h1 h3 h4 h5 => ih my a h1 h3 h4 h5) hgt
    rcases stepCase c hpf hmask hmemok addr r s h h2 hn with ⟨e, hsf, hne, hall⟩ | ⟨s1, s2, h1, hr, h2', hall, hva⟩ | ⟨s1, h1, hat, hr⟩
    · rw [hsf]
      cases e with
      | ok => exact absurd rfl hne
      | notpresent =>
        simp only []
        refine hcont _ _ (by rw [or_next]) (fun x hx1 hx2 _ => ?_) (Or.inl rfl)
        exact hall x (entry_range hx1 hx2)
      | _ =>
        simp only []
        rw [post_err (by simp) (by simp)]
        exact ⟨Nat.le_refl _, hal, hall addr rfl, fun x hx1 hx2 => by omega⟩
    · rw [h1]
      simp only [hr, Nat.le_refl, if_true, h2']
      rw [post_ok]
      exact ⟨Nat.le_refl _, hal, ⟨h4096, hva⟩, fun x hx1 hx2 => by omega⟩
    · rw [h1]
      have hrem : ¬ s1.remain ≤ 1 := by rw [hat.rem]; omega
      simp only [hrem, if_false]
      have hp := hrec hr s1 addr hat hal h4096
      generalize rec s1 addr = res at hp
      cases res with
      | fuel => exact hp.elim
      | undef => exact hp.elim
      | done st a s' =>
        cases st with
        | notpresent =>
          simp only []
          rw [post_np] at hp
          obtain ⟨e, he1, he2, he3⟩ := hp
          exact hcont a e he1 he2 he3
        | _ =>
          simp only []
          exact post_T hp (by simp)

theorem lmTbl_post (c : Cfg) (hpf : XF c.pf) (hmask : c.pteMask < W)
    (hmemok : ∀ as a sz, c.mem as a sz ≠ .error .ok) (limit : Nat) (hlim : limit < W) :
    ∀ d r s addr, At c addr r s → 2 ≤ r → r ≤ c.n → r ≤ d → addr ≤ limit → addr % 4096 = 0 →
      Post (NP c) (OkLm c) (ErrG c) limit (2^(c.sb r)) addr (lmTbl c.sf c.pf limit d s addr) := by
  intro d
  induction d with
  | zero => intro r s addr _ h2 _ hd; omega
  | succ d ih =>
    intro r s addr h h2 hn hd hal h4096
    have hn' : r ≤ c.pf.fieldsz.length := hn
    have hne : ¬ r = 0 := by omega
    have hmask' : tableMask c.pf (r-1) = 2^(c.sb (r-1)) - 1 :=
      tableMask_eq _ _ (by have := sb_succ c hpf h2 hn; have : c.sb (r-1) = spanBits c.pf.fieldsz (r-1) := rfl; omega)
    rw [lmTbl]
    simp only [h.rem, hne, if_false, xf_tableSize hpf (r-1) (by omega) (by omega), hmask']
    exact lmLoop_post c hpf hmask hmemok limit hlim r h2 hn _
      (fun hr s1 a hat hal' h40 => ih (r-1) s1 a hat (by omega) (by omega) (by omega) hal' h40)
      513 s addr h hal h4096 (by omega)

/-! ### lowest_unmapped -/

theorem luLoop_succ (sf : StepFn) (limit nelem tblmask : Nat) (rec : Step → Nat → Res) (k : Nat)
    (s : Step) (addr : Nat) :
    luLoop sf limit nelem tblmask rec (k+1) s s addr =
      if addr ≤ limit then
        match sf s with
        | .error .notpresent => .done .ok addr s
        | .error e => .done e addr s
        | .ok s1 =>
          if s1.remain > 1 then
            match rec s1 addr with
            | .done .notpresent addr' _ =>
              contG nelem (fun my a => luLoop sf limit nelem tblmask rec k my my a) s addr'
            | r => r
          else contG nelem (fun my a => luLoop sf limit nelem tblmask rec k my my a) s
            (((addr ||| tblmask) + 1) % W)
      else .done .notpresent addr s := rfl

theorem luLoop_post (c : Cfg) (hpf : XF c.pf) (hmask : c.pteMask < W)
    (hmemok : ∀ as a sz, c.mem as a sz ≠ .error .ok) (limit : Nat) (hlim : limit < W) (r : Nat)
    (h2 : 2 ≤ r) (hn : r ≤ c.n) (rec : Step → Nat → Res)
    (hrec : 3 ≤ r → ∀ s1 a, At c a (r-1) s1 → a ≤ limit → a % 4096 = 0 →
      Post (Mapped c) (OkLu c) (ErrG c) limit (2^(c.sb (r-1))) a (rec s1 a)) :
    ∀ k s addr, At c addr r s → addr ≤ limit → addr % 4096 = 0 → 512 ≤ idxAt s (r-1) + k →
      Post (Mapped c) (OkLu c) (ErrG c) limit (2^(c.sb r)) addr
        (luLoop c.sf limit 512 (2^(c.sb (r-1)) - 1) rec k s s addr) := by
  intro k
  induction k with
  | zero =>
    intro s addr h hal _ hk
    have := idx_cur c hpf h h2 hn
    omega
  | succ k ih =>
    intro s addr h hal h4096 hk
    rw [luLoop_succ, if_pos hal]
    have hgt : 1 ≤ k → ∀ my a, limit < a →
        (fun my a => luLoop c.sf limit 512 (2^(c.sb (r-1)) - 1) rec k my my a) my a =
          .done .notpresent a my := by
      intro hk1 my a hla
      obtain ⟨k', rfl⟩ : ∃ k', k = k' + 1 := ⟨k - 1, by omega⟩
      show luLoop c.sf limit 512 (2^(c.sb (r-1)) - 1) rec (k'+1) my my a = _
      rw [luLoop_succ, if_neg (by omega)]
    have hcont := cont_post c hpf (Mapped c) (OkLu c) (ErrG c) limit hlim addr r s h h2 hn hal k
      (by omega) (fun my a => luLoop c.sf limit 512 (2^(c.sb (r-1)) - 1) rec k my my a)
      (fun my a h1 h3 h4 h5 => ih my a h1 h3 h4 h5) hgt
    rcases stepCase c hpf hmask hmemok addr r s h h2 hn with ⟨e, hsf, hne, hall⟩ | ⟨s1, s2, h1, hr, h2', hall, hva⟩ | ⟨s1, h1, hat, hr⟩
    · rw [hsf]
      cases e with
      | ok => exact absurd rfl hne
      | notpresent =>
        simp only []
        rw [post_ok]
        exact ⟨Nat.le_refl _, hal, hall addr rfl, fun x hx1 hx2 => by omega⟩
      | _ =>
        simp only []
        rw [post_err (by simp) (by simp)]
        exact ⟨Nat.le_refl _, hal, hall addr rfl, fun x hx1 hx2 => by omega⟩
    · rw [h1]
      have hrem : ¬ s1.remain > 1 := by omega
      simp only [hrem, if_false]
      refine hcont _ _ (by rw [or_next]) (fun x hx1 hx2 _ => ?_) (Or.inl rfl)
      exact hall x (entry_range hx1 hx2)
    · rw [h1]
      have hrem : s1.remain > 1 := by rw [hat.rem]; omega
      simp only [hrem, if_true]
      have hp := hrec hr s1 addr hat hal h4096
      generalize rec s1 addr = res at hp
      cases res with
      | fuel => exact hp.elim
      | undef => exact hp.elim
      | done st a s' =>
        cases st with
        | notpresent =>
          simp only []
          rw [post_np] at hp
          obtain ⟨e, he1, he2, he3⟩ := hp
          exact hcont a e he1 he2 he3
        | _ =>
          simp only []
          exact post_T hp (by simp)

theorem luTbl_post (c : Cfg) (hpf : XF c.pf) (hmask : c.pteMask < W)
    (hmemok : ∀ as a sz, c.mem as a sz ≠ .error .ok) (limit : Nat) (hlim : limit < W) :
    ∀ d r s addr, At c addr r s → 2 ≤ r → r ≤ c.n → r ≤ d → addr ≤ limit → addr % 4096 = 0 →
      Post (Mapped c) (OkLu c) (ErrG c) limit (2^(c.sb r)) addr (luTbl c.sf c.pf limit d s addr) := by
  intro d
  induction d with
  | zero => intro r s addr _ h2 _ hd; omega
  | succ d ih =>
    intro r s addr h h2 hn hd hal h4096
    have hn' : r ≤ c.pf.fieldsz.length := hn
    have hne : ¬ r = 0 := by omega
    have hmask' : tableMask c.pf (r-1) = 2^(c.sb (r-1)) - 1 :=
      tableMask_eq _ _ (by have := sb_succ c hpf h2 hn; have : c.sb (r-1) = spanBits c.pf.fieldsz (r-1) := rfl; omega)
    rw [luTbl]
    simp only [h.rem, hne, if_false, xf_tableSize hpf (r-1) (by omega) (by omega), hmask']
    exact luLoop_post c hpf hmask hmemok limit hlim r h2 hn _
      (fun hr s1 a hat hal' h40 => ih (r-1) s1 a hat (by omega) (by omega) (by omega) hal' h40)
      513 s addr h hal h4096 (by omega)

end Kdf.Lemmas.Scan
