import Kdf.Model.Pfn
/-! Definitions and helper lemmas for C07 (bit sets described by bitmaps, regions, segments). -/
namespace Kdf.Lemmas.Pfn
open Kdf.Model.Pfn

/-- bytes are bytes -/
def BytesWF (bm : Bitmap) : Prop := ∀ b ∈ bm, b < 256

/-- bit `i` of a bitmap, least-significant bit of each byte first (diskdump) -/
def bitL (bm : Bitmap) (i : Nat) : Bool := byteAt bm (i / 8) / 2^(i % 8) % 2 = 1
/-- bit `i`, most-significant bit first (SADUMP) -/
def bitM (bm : Bitmap) (i : Nat) : Bool := byteAt bm (i / 8) / 2^(7 - i % 8) % 2 = 1
def bitOf (msb0 : Bool) (bm : Bitmap) (i : Nat) : Bool := if msb0 then bitM bm i else bitL bm i

/-- frame `p` lies in region `r` -/
def _root_.Kdf.Model.Pfn.Region.has (r : Region) (p : Nat) : Prop := r.pfn ≤ p ∧ p < r.pfn + r.cnt

/-- regions are sorted, pairwise disjoint and not adjacent (maximal runs) -/
def RegionsMaximal (rs : List Region) : Prop := rs.Pairwise (fun a b => a.pfn + a.cnt < b.pfn) ∧ ∀ r ∈ rs, 0 < r.cnt
/-- regions are sorted and pairwise disjoint (possibly adjacent) -/
def RegionsSorted (rs : List Region) : Prop := rs.Pairwise (fun a b => a.pfn + a.cnt ≤ b.pfn) ∧ ∀ r ∈ rs, 0 < r.cnt

/-- frame `p` is mapped by some region of some map -/
def Mapped (maps : List FileMap) (p : Nat) : Prop := ∃ m ∈ maps, ∃ r ∈ m.regions, r.has p

/-- file maps as the library builds them: sorted by end frame, windows disjoint,
every region inside its map's window -/
def MapsWF (maps : List FileMap) : Prop :=
  maps.Pairwise (fun a b => a.endPfn ≤ b.startPfn) ∧
  ∀ m ∈ maps, m.startPfn ≤ m.endPfn ∧ RegionsSorted m.regions ∧ ∀ r ∈ m.regions, m.startPfn ≤ r.pfn ∧ r.pfn + r.cnt ≤ m.endPfn

/-- segments sorted by start and pairwise disjoint -/
def SegsSorted (segs : List Seg) : Prop := segs.Pairwise (fun a b => a.phys + a.size ≤ b.phys)

/-- frame `p` (of `2^shift` bytes) intersects a non-empty segment -/
def SegMapped (segs : List Seg) (shift p : Nat) : Prop :=
  ∃ s ∈ segs, s.size ≠ 0 ∧ s.phys / 2^shift ≤ p ∧ p ≤ (s.phys + s.size - 1) / 2^shift

end Kdf.Lemmas.Pfn
