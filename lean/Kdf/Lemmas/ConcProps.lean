import Kdf.Model.Conc
import Kdf.Lemmas.ConcStep
import Kdf.Lemmas.CacheOps
/-!
Helper lemmas for the property theorems of C05 (`Kdf/Props/C05.lean`): thread indexing,
holder counting, case analysis of `step`, enabledness of protocol steps.
-/
set_option linter.unusedSimpArgs false
set_option linter.unusedVariables false
namespace Kdf.Lemmas.Conc
open Kdf.Model.Cache Kdf.Model.Conc Kdf.Lemmas.Cache Kdf.Lemmas.ConcCache

/-! ### thread indexing -/

theorem default_pcP : (default : Thread).pc = .idle := rfl

theorem thread_of_ge {s : State} {t : Nat} (h : s.thr.length ≤ t) : s.thread t = default := by
  unfold State.thread
  rw [List.getD_eq_getElem?_getD, List.getElem?_eq_none h]
  rfl

theorem thread_of_lt {s : State} {t : Nat} (h : t < s.thr.length) : s.thread t = s.thr[t] := by
  unfold State.thread
  rw [List.getD_eq_getElem?_getD, List.getElem?_eq_getElem h]
  rfl

theorem thread_memP {s : State} {t : Nat} (h : t < s.thr.length) : s.thread t ∈ s.thr := by
  rw [thread_of_lt h]; exact List.getElem_mem h

theorem mem_thread {s : State} {th : Thread} (h : th ∈ s.thr) :
    ∃ t, t < s.thr.length ∧ s.thread t = th := by
  obtain ⟨t, ht, rfl⟩ := List.getElem_of_mem h
  exact ⟨t, ht, thread_of_lt ht⟩

theorem lt_of_pc_ne_idle {s : State} {t : Nat} (h : (s.thread t).pc ≠ .idle) : t < s.thr.length := by
  apply Nat.lt_of_not_le
  intro hge
  rw [thread_of_ge hge] at h
  exact h rfl

theorem holders_posP {s : State} {t e : Nat} (ht : t < s.thr.length)
    (hh : (s.thread t).pc.holds = some e) : 0 < holders s e := by
  unfold holders
  apply List.length_pos_of_mem (a := s.thread t)
  rw [List.mem_filter]
  exact ⟨thread_memP ht, by simp [hh]⟩

theorem holders_zero_of_quiescent {s : State} (hq : quiescent s) (i : Nat) : holders s i = 0 := by
  unfold holders
  rw [List.length_eq_zero_iff, List.filter_eq_nil_iff]
  intro th hth
  rw [hq th hth]
  simp [Pc.holds]

/-! ### case analysis of `step`: which steps change the cache, which steps can fail -/

theorem doFill_cache {s s' : State} {t : Nat} {ok : Bool} {pc : Pc} (h : doFill s t ok pc = .ok s') :
    s'.cache = s.cache := by
  unfold doFill at h
  split at h
  · cases h
  · cases h; rfl

theorem doCopy_cache {s s' : State} {t e : Nat} (h : doCopy s t e = .ok s') :
    s'.cache = s.cache := by
  unfold doCopy at h
  split at h
  · cases h
  · cases h; rfl

theorem step_cache_change {cfg : Cfg} {s s' : State} {t : Nat} {ev : Ev}
    (hs : Kdf.Model.Conc.step cfg s t ev = .ok s') (hne : s'.cache ≠ s.cache) :
    ((s.thread t).pc.hasLock = true ∧ needLock ev = true) ∨
      (ev = .store ∧ ∃ e tmp, (s.thread t).pc = .putU e tmp) := by
  unfold Kdf.Model.Conc.step at hs
  split at hs
  · cases hs
  · cases hpc : (s.thread t).pc <;> cases ev <;> simp only [hpc] at hs <;>
      first
      | (cases hs; done)
      | (cases hs; exact absurd rfl hne)
      | (simp [Pc.hasLock, needLock]; done)
      | (exact absurd (doFill_cache hs) hne)
      | (exact absurd (doCopy_cache hs) hne)
      | (split at hs <;> (try split at hs) <;>
          first
          | (cases hs; done)
          | (cases hs; exact absurd rfl hne)
          | (exact absurd (doCopy_cache hs) hne))
theorem doFill_err {s : State} {t : Nat} {ok : Bool} {pc : Pc} {x : Err} (h : doFill s t ok pc = .err x) :
    (s.thread t).dat = none := by
  unfold doFill at h
  split at h
  · assumption
  · cases h

theorem doCopy_err {s : State} {t e : Nat} {x : Err} (h : doCopy s t e = .err x) :
    (s.thread t).dat = none := by
  unfold doCopy at h
  split at h
  · assumption
  · cases h

theorem step_err {cfg : Cfg} {s : State} {t : Nat} {ev : Ev} {x : Err}
    (hs : Kdf.Model.Conc.step cfg s t ev = .err x) :
    t < s.thr.length ∧
    ((∃ k, Kdf.Model.Cache.get s.cache k = .error x) ∨
     (∃ e, (s.thread t).pc.holds = some e ∧
        ((s.thread t).dat = none ∨ insert s.cache e = .error x ∨ discard s.cache e = .error x ∨
          put s.cache e = .error x))) := by
  unfold Kdf.Model.Conc.step at hs
  split at hs
  · cases hs
  · rename_i hlt
    refine ⟨Nat.lt_of_not_le hlt, ?_⟩
    cases hpc : (s.thread t).pc <;> cases ev <;> simp only [hpc] at hs <;>
      first
      | (cases hs; done)
      | (exact Or.inr ⟨_, rfl, Or.inl (doFill_err hs)⟩)
      | (exact Or.inr ⟨_, rfl, Or.inl (doCopy_err hs)⟩)
      | (split at hs <;> (try split at hs) <;>
          first
          | (cases hs; done)
          | (exact Or.inr ⟨_, rfl, Or.inl (doCopy_err hs)⟩))
      | (split at hs <;> first
          | (cases hs; done)
          | (cases hs; exact Or.inl ⟨_, ‹_›⟩)
          | (cases hs; exact Or.inr ⟨_, rfl, Or.inr (Or.inr (Or.inr ‹_›))⟩))
      | (rename_i e ok; cases ok <;> simp only at hs <;> first
          | (cases hs; done)
          | (split at hs <;> first
              | (cases hs; done)
              | (cases hs; exact Or.inr ⟨_, rfl, Or.inr (Or.inl ‹_›)⟩)
              | (cases hs; exact Or.inr ⟨_, rfl, Or.inr (Or.inr (Or.inl ‹_›))⟩)))

/-! ### enabledness of the cache operations under the invariant -/

theorem ginv_get_ok {cap n : Nat} {s : State} (h : GInv cap n s) (k : Nat) (x : Err) :
    Kdf.Model.Cache.get s.cache k ≠ .error x := by
  obtain ⟨c', o, hg, -⟩ := get_spec ((inv_iff _).1 h.cinv) k
  rw [hg]; intro hh; cases hh

theorem ginv_dat {cap n : Nat} {s : State} (h : GInv cap n s) {t e : Nat}
    (hh : (s.thread t).pc.holds = some e) : ∃ d, (s.thread t).dat = some d := by
  obtain ⟨hl, -, hd⟩ := h.hold t e hh
  have := h.cinv.live_data e hl
  unfold hasData at this
  rw [hd]
  exact Option.isSome_iff_exists.1 this

theorem ginv_ref_ne {cap n : Nat} {s : State} (h : GInv cap n s) {t e : Nat}
    (hh : (s.thread t).pc.holds = some e) : s.cache.refcnt e ≠ 0 := by
  have hne : (s.thread t).pc ≠ .idle := by
    intro hp; rw [hp] at hh; cases hh
  have := holders_posP (lt_of_pc_ne_idle hne) hh
  rw [h.ref e]; omega

theorem ginv_insert_ok {cap n : Nat} {s : State} (h : GInv cap n s) {t e : Nat}
    (hh : (s.thread t).pc.holds = some e) : ∃ c' o, insert s.cache e = .ok (c', o) := by
  obtain ⟨c', o, hi, -⟩ := insert_ok ((inv_iff _).1 h.cinv) (h.hold t e hh).1
  exact ⟨c', o, hi⟩

theorem ginv_discard_ok {cap n : Nat} {s : State} (h : GInv cap n s) {t e : Nat}
    (hh : (s.thread t).pc.holds = some e) : ∃ c' o, discard s.cache e = .ok (c', o) :=
  discard_ok ((inv_iff _).1 h.cinv) (h.hold t e hh).1 (ginv_ref_ne h hh)

theorem ginv_put_ok {cap n : Nat} {s : State} (h : GInv cap n s) {t e : Nat}
    (hh : (s.thread t).pc.holds = some e) : ∃ c' o, put s.cache e = .ok (c', o) :=
  put_ok (ginv_ref_ne h hh)

theorem ginv_no_err {cap n : Nat} {s : State} (h : GInv cap n s) (t : Nat) (ev : Ev) (x : Err) :
    Kdf.Model.Conc.step fixed s t ev ≠ .err x := by
  intro hs
  obtain ⟨-, ⟨k, hk⟩ | ⟨e, hh, hd | hi | hd | hp⟩⟩ := step_err hs
  · exact ginv_get_ok h k x hk
  · obtain ⟨d, hd'⟩ := ginv_dat h hh
    rw [hd] at hd'; cases hd'
  · obtain ⟨c', o, hi'⟩ := ginv_insert_ok h hh
    rw [hi] at hi'; cases hi'
  · obtain ⟨c', o, hi'⟩ := ginv_discard_ok h hh
    rw [hd] at hi'; cases hi'
  · obtain ⟨c', o, hi'⟩ := ginv_put_ok h hh
    rw [hp] at hi'; cases hi'

/-! ### progress (no deadlock) -/

theorem exists_not_idle {s : State} (hq : ¬ quiescent s) :
    ∃ t, t < s.thr.length ∧ (s.thread t).pc ≠ .idle := by
  apply Decidable.byContradiction
  intro hn
  apply hq
  intro th hth
  apply Decidable.byContradiction
  intro hp
  obtain ⟨t, ht, rfl⟩ := mem_thread hth
  exact hn ⟨t, ht, hp⟩

/-- the owner of `cache_lock` can always take a step -/
theorem progress_owner {cap n : Nat} {s : State} (g : GInv cap n s) {t : Nat} (hl : s.lock = some t) :
    ∃ ev s', Kdf.Model.Conc.step fixed s t ev = .ok s' := by
  have hh := (g.lockA t).2 hl
  have hlt : ¬ t ≥ s.thr.length := by
    apply Nat.not_le.2
    apply lt_of_pc_ne_idle
    intro hp; rw [hp] at hh; cases hh
  cases hpc : (s.thread t).pc <;> rw [hpc] at hh <;> first | (cases hh; done) | skip
  case locked1 =>
    refine ⟨.unlock, ?_⟩
    simp only [Kdf.Model.Conc.step, hlt, hpc, if_false]
    exact ⟨_, rfl⟩
  case hitL e =>
    refine ⟨.unlock, ?_⟩
    simp only [Kdf.Model.Conc.step, hlt, hpc, if_false]
    exact ⟨_, rfl⟩
  case missL e =>
    refine ⟨.unlock, ?_⟩
    simp only [Kdf.Model.Conc.step, hlt, hpc, if_false]
    exact ⟨_, rfl⟩
  case fillL e =>
    refine ⟨.unlock, ?_⟩
    simp only [Kdf.Model.Conc.step, hlt, hpc, if_false]
    exact ⟨_, rfl⟩
  case locked2 e ok =>
    have hho : (s.thread t).pc.holds = some e := by rw [hpc]; rfl
    cases ok
    · obtain ⟨c', o, hd⟩ := ginv_discard_ok g hho
      refine ⟨.discard, ?_⟩
      simp only [Kdf.Model.Conc.step, hlt, hpc, if_false, hd]
      exact ⟨_, rfl⟩
    · obtain ⟨c', o, hd⟩ := ginv_insert_ok g hho
      refine ⟨.insert, ?_⟩
      simp only [Kdf.Model.Conc.step, hlt, hpc, if_false, hd]
      exact ⟨_, rfl⟩
  case putL e =>
    have hho : (s.thread t).pc.holds = some e := by rw [hpc]; rfl
    obtain ⟨c', o, hd⟩ := ginv_put_ok g hho
    refine ⟨.put, ?_⟩
    simp only [Kdf.Model.Conc.step, hlt, hpc, if_false, hd]
    exact ⟨_, rfl⟩

/-- while `cache_lock` is free every thread inside the library can take a step -/
theorem progress_free {cap n : Nat} {s : State} (g : GInv cap n s) (hl : s.lock = none) {t : Nat}
    (hne : (s.thread t).pc ≠ .idle) : ∃ ev s', Kdf.Model.Conc.step fixed s t ev = .ok s' := by
  have hlt : ¬ t ≥ s.thr.length := Nat.not_le.2 (lt_of_pc_ne_idle hne)
  have hnl : (s.thread t).pc.hasLock = false := by
    cases hb : (s.thread t).pc.hasLock
    · rfl
    · have := (g.lockA t).1 hb; rw [hl] at this; cases this
  have hli : s.lock.isSome = false := by rw [hl]; rfl
  have hfx : fixed.lockedPut = true := rfl
  cases hpc : (s.thread t).pc <;> rw [hpc] at hnl <;> first | (cases hnl; done) | skip
  case idle => exact absurd hpc hne
  case writing =>
    refine ⟨.wrunlock, ?_⟩
    simp only [Kdf.Model.Conc.step, hlt, hpc, if_false]
    exact ⟨_, rfl⟩
  case inRead =>
    refine ⟨.lock, ?_⟩
    simp only [Kdf.Model.Conc.step, hlt, hpc, if_false, hli, Bool.false_eq_true]
    exact ⟨_, rfl⟩
  case fill e =>
    have hho : (s.thread t).pc.holds = some e := by rw [hpc]; rfl
    obtain ⟨d, hd⟩ := ginv_dat g hho
    refine ⟨.fillEnd true, ?_⟩
    simp only [Kdf.Model.Conc.step, hlt, hpc, if_false, doFill, hd]
    exact ⟨_, rfl⟩
  case filled e ok =>
    refine ⟨.lock, ?_⟩
    simp only [Kdf.Model.Conc.step, hlt, hpc, if_false, hli, Bool.false_eq_true]
    exact ⟨_, rfl⟩
  case copy e =>
    have hho : (s.thread t).pc.holds = some e := by rw [hpc]; rfl
    obtain ⟨d, hd⟩ := ginv_dat g hho
    refine ⟨.copy, ?_⟩
    simp only [Kdf.Model.Conc.step, hlt, hpc, if_false, doCopy, hd]
    exact ⟨_, rfl⟩
  case put0 e =>
    refine ⟨.lock, ?_⟩
    simp only [Kdf.Model.Conc.step, hlt, hpc, if_false, hli, Bool.false_eq_true, hfx, if_true]
    exact ⟨_, rfl⟩
  case putU e tmp => exact absurd hpc (g.noPutU t e tmp)

/-- no deadlock: some thread can step whenever some thread is inside the library -/
theorem ginv_progress {cap n : Nat} {s : State} (g : GInv cap n s) (hq : ¬ quiescent s) :
    ∃ t ev s', Kdf.Model.Conc.step fixed s t ev = .ok s' := by
  cases hl : s.lock with
  | some t0 => exact ⟨t0, progress_owner g hl⟩
  | none =>
    obtain ⟨t, -, hne⟩ := exists_not_idle hq
    exact ⟨t, progress_free g hl hne⟩

/-! ### counting the holders of referenced entries (`busy` only when full) -/

theorem sum_map_add (R : List Nat) (f g : Nat → Nat) :
    (R.map fun i => f i + g i).sum = (R.map f).sum + (R.map g).sum := by
  induction R with
  | nil => rfl
  | cons a R ih => simp only [List.map_cons, List.sum_cons, ih]; omega

theorem sum_map_zero (R : List Nat) (f : Nat → Nat) (h : ∀ i ∈ R, f i = 0) : (R.map f).sum = 0 := by
  induction R with
  | nil => rfl
  | cons a R ih =>
    simp only [List.map_cons, List.sum_cons]
    rw [h a (List.mem_cons_self ..), ih (fun i hi => h i (List.mem_cons_of_mem _ hi))]

theorem length_le_sum_map (R : List Nat) (f : Nat → Nat) (h : ∀ i ∈ R, 0 < f i) :
    R.length ≤ (R.map f).sum := by
  induction R with
  | nil => simp
  | cons a R ih =>
    simp only [List.map_cons, List.sum_cons, List.length_cons]
    have h1 := h a (List.mem_cons_self ..)
    have h2 := ih (fun i hi => h i (List.mem_cons_of_mem _ hi))
    omega

/-- a thread holds at most one entry of a duplicate-free list -/
theorem sum_ind_le (R : List Nat) (hnd : R.Nodup) (o : Option Nat) :
    (R.map fun i => if o = some i then 1 else 0).sum ≤ if o.isSome then 1 else 0 := by
  induction R with
  | nil => simp
  | cons a R ih =>
    rw [List.nodup_cons] at hnd
    simp only [List.map_cons, List.sum_cons]
    by_cases ha : o = some a
    · subst ha
      rw [sum_map_zero R _ (fun i hi => by
        have : a ≠ i := fun h => hnd.1 (h ▸ hi)
        simp [this])]
      simp
    · rw [if_neg ha]
      have := ih hnd.2
      omega

theorem sum_holders_le (R : List Nat) (hnd : R.Nodup) (l : List Thread) :
    (R.map fun i => (l.filter fun th => th.pc.holds = some i).length).sum ≤
      (l.filter fun th => th.pc.holds.isSome).length := by
  induction l with
  | nil =>
    have := sum_map_zero R (fun i => (([] : List Thread).filter fun th => th.pc.holds = some i).length)
      (fun i _ => rfl)
    rw [this]; exact Nat.zero_le _
  | cons th l ih =>
    have h1 : ∀ i, ((th :: l).filter fun th => th.pc.holds = some i).length =
        (l.filter fun th => th.pc.holds = some i).length + (if th.pc.holds = some i then 1 else 0) := by
      intro i
      rw [List.filter_cons]
      by_cases hh : th.pc.holds = some i
      · simp [hh]
      · simp [hh]
    have h2 : ((th :: l).filter fun th => th.pc.holds.isSome).length =
        (l.filter fun th => th.pc.holds.isSome).length + (if th.pc.holds.isSome then 1 else 0) := by
      rw [List.filter_cons]
      by_cases hh : th.pc.holds.isSome
      · simp [hh]
      · simp [hh]
    rw [h2]
    have h3 : (R.map fun i => ((th :: l).filter fun th => th.pc.holds = some i).length) =
        R.map fun i => (l.filter fun th => th.pc.holds = some i).length +
          (if th.pc.holds = some i then 1 else 0) := by
      apply List.map_congr_left
      intro i _
      exact h1 i
    rw [h3, sum_map_add]
    have h4 := sum_ind_le R hnd th.pc.holds
    omega

theorem ginv_busy_full {cap n : Nat} {s : State} (g : GInv cap n s) {k : Nat} {c' : Cache}
    (hb : Kdf.Model.Cache.get s.cache k = .ok (c', .busy)) : cap ≤ inFlightReads s := by
  obtain ⟨c'', o, hg, -, -, -, hout⟩ := get_spec ((inv_iff _).1 g.cinv) k
  rw [hg] at hb
  simp only [Except.ok.injEq, Prod.mk.injEq] at hb
  obtain ⟨rfl, rfl⟩ := hb
  obtain ⟨-, -, hfull⟩ := hout
  rw [g.ccap] at hfull
  let R := (s.cache.B.filter fun i => s.cache.refcnt i ≠ 0) ++
    (s.cache.P.filter fun i => s.cache.refcnt i ≠ 0) ++ s.cache.F
  have hlen : R.length = s.cache.pinned + s.cache.F.length := by
    simp only [R, List.length_append, Cache.pinned]; omega
  have hsub : R.Sublist (live s.cache) :=
    ((List.filter_sublist).append (List.filter_sublist)).append (List.Sublist.refl _)
  have hndl : (live s.cache).Nodup := List.Pairwise.of_map _ (fun a b h hab => h (by rw [hab])) g.cinv.keys_nodup
  have hnd : R.Nodup := hndl.sublist hsub
  have hpos : ∀ i ∈ R, 0 < holders s i := by
    intro i hi
    have hr : s.cache.refcnt i ≠ 0 := by
      simp only [R, List.mem_append, List.mem_filter, decide_eq_true_eq] at hi
      rcases hi with (⟨-, h⟩ | ⟨-, h⟩) | h
      · exact h
      · exact h
      · exact g.cinv.inflight_ref i h
    rw [g.ref i] at hr
    omega
  have h1 := length_le_sum_map R (holders s) hpos
  have h2 := sum_holders_le R hnd s.thr
  unfold inFlightReads
  unfold holders at h1
  omega

/-! ### `run` and `Reach` -/

theorem run_reach_from (cfg : Cfg) (cap n : Nat) :
    ∀ (sched : List (Nat × Ev)) (s0 s : State), Reach cfg cap n s0 → run cfg s0 sched = .ok s →
      Reach cfg cap n s
  | [], s0, s, h0, hr => by
    simp only [Kdf.Model.Conc.run, Res.ok.injEq] at hr
    exact hr ▸ h0
  | (t, ev) :: rest, s0, s, h0, hr => by
    simp only [Kdf.Model.Conc.run] at hr
    cases hst : step cfg s0 t ev with
    | ok s1 =>
      rw [hst] at hr
      exact run_reach_from cfg cap n rest s1 s (Reach.step h0 hst) hr
    | blocked => rw [hst] at hr; cases hr
    | refused => rw [hst] at hr; cases hr
    | err e => rw [hst] at hr; cases hr

end Kdf.Lemmas.Conc
