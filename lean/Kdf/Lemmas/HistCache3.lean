import Kdf.Lemmas.HistCache2
/-!
Helper lemmas for C04, section 1, part 3: complete description of `fetch`, `release`,
`getPage`, and histories.
-/
set_option linter.unusedSimpArgs false
set_option linter.unusedVariables false
namespace Kdf.Lemmas.Hist
open Kdf.Model.Cache Kdf.Model.Hist Kdf.Lemmas.Cache Kdf.Lemmas.CacheList

variable {V E : Type}

/-- outcome of `fetch` as stated in C04 -/
def FetchPost (f : Nat → Except E V) (s : PCache V) (k : Nat) (s' : PCache V) : FetchOut V E → Prop
  | .busy => s' = s
  | .got i v => f k = .ok v ∧ i ∈ cached s'.c ∧ s'.c.refcnt i ≠ 0
  | .fail e => f k = .error e

/-- extra bookkeeping of `fetch` when nothing was in flight before the call -/
def FetchTrack (s s' : PCache V) : FetchOut V E → Prop
  | .busy => True
  | .got i _ => s'.c.F = [] ∧ ∀ j, s'.c.refcnt j ≤ s.c.refcnt j + (if j = i then 1 else 0)
  | .fail _ => s'.c.F = [] ∧ ∀ j, s'.c.refcnt j ≤ s.c.refcnt j

/-- writing the buffer of an in-flight entry keeps every cached entry coherent -/
theorem coh_set_inflight (f : Nat → Except E V) {s : PCache V} {c1 : Cache} {st : Prop}
    (hcoh : Coh f s) (hI1 : InvS c1 st) (hfr : GetFrame s.c c1) {i d : Nat} (hiF : i ∈ c1.F)
    (hd : c1.dataOf i = some d) (x : Option V) :
    ∀ j ∈ cached c1, ∃ d' v, c1.dataOf j = some d' ∧ (s.buf.set d x).getD d' none = some v ∧
      f (c1.key j) = .ok v := by
  intro j hj
  obtain ⟨hjc, hk, hdd⟩ := hfr.cach j hj
  obtain ⟨d', v', h1, h2, h3⟩ := hcoh j hjc
  have hne : i ≠ j := fun e => not_cached_of_inflight hI1 hiF (e ▸ hj)
  have hd' : c1.dataOf j = some d' := hdd.trans h1
  have hdne : d ≠ d' := by
    intro e
    exact inv_unique_buffer hI1 (live_lt hI1 (inflight_live hiF)) (live_lt hI1 (cached_live hj)) hne hd
      (e ▸ hd')
  refine ⟨d', v', hd', ?_, by rw [hk]; exact h3⟩
  rw [getD_set_ne _ _ _ _ _ hdne]
  exact h2

set_option maxHeartbeats 400000 in
/-- complete description of `cache_get_page` -/
theorem fetch_full (f : Nat → Except E V) (s : PCache V) (k : Nat) (h : PInv f s) :
    ∃ s' o, fetch f s k = .ok (s', o) ∧ PInv f s' ∧ s'.c.cap = s.c.cap ∧
      ((o = .busy) ↔ BusyRule s.c k) ∧ FetchPost f s k s' o ∧ (s.c.F = [] → FetchTrack s s' o) := by
  obtain ⟨hI, hlen, hcoh⟩ := h
  have hS := (inv_iff _).1 hI
  obtain ⟨c1, o, hg, hI1, hcap, hfr, hout⟩ := get_spec hS k
  have htr := get_track hg
  have hI1' : Inv c1 := (inv_iff _).2 hI1
  unfold fetch
  rw [hg]
  cases o with
  | done => exact hout.elim
  | busy =>
    obtain ⟨rfl, hnk, hb⟩ := hout
    refine ⟨s, .busy, rfl, ⟨hI, hlen, hcoh⟩, rfl, ?_, rfl, fun _ => trivial⟩
    refine ⟨fun _ => ⟨fun hm => ?_, hb⟩, fun _ => rfl⟩
    obtain ⟨j, hj, hjk⟩ := List.mem_map.1 hm
    exact hnk j hj hjk
  | entry i valid =>
    cases valid with
    | true =>
      obtain ⟨hic, hik, hic1⟩ := hout
      obtain ⟨-, hkey, hdat⟩ := hfr.cach i hic1
      obtain ⟨d, v, hd, hv, hfv⟩ := hcoh i hic
      have hd1 : c1.dataOf i = some d := hdat.trans hd
      simp only [hd1, if_true, hv]
      refine ⟨_, _, rfl, ⟨hI1', by rw [hcap]; exact hlen, ?_⟩, hcap, ?_, ⟨hik ▸ hfv, hic1, ?_⟩, ?_⟩
      · intro j hj
        obtain ⟨hjc, hk, hdd⟩ := hfr.cach j hj
        obtain ⟨d', v', h1, h2, h3⟩ := hcoh j hjc
        exact ⟨d', v', hdd.trans h1, h2, by show f (c1.key j) = _; rw [hk]; exact h3⟩
      · refine ⟨fun hb => (by cases hb), fun hb => ?_⟩
        exact absurd (List.mem_map.2 ⟨i, cached_live hic, hik⟩) hb.1
      · exact get_entry_ref hI1 hg (cached_live hic1)
      · intro hF0
        exact ⟨htr.1.trans hF0, htr.2.1⟩
    | false =>
      obtain ⟨hiF, hik, hor⟩ := hout
      have hil : i ∈ live c1 := inflight_live hiF
      have hilt : i < 2 * c1.cap := live_lt hI1 hil
      obtain ⟨d, hd1⟩ := Option.isSome_iff_exists.1 (hI1'.live_data i hil)
      have hd1 : c1.dataOf i = some d := hd1
      have hdlt : d < s.buf.length := by
        have := data_lt_cap hI1 hilt hd1
        omega
      have hnv : (c1.ent i).state ≠ .valid := hI1'.inflight_invalid i hiF
      have hrf : c1.refcnt i ≠ 0 := hI1'.inflight_ref i hiF
      have hnb : ¬ BusyRule s.c k := by
        rintro ⟨hnk, hb⟩
        rcases hor with ⟨j, hj, hjk⟩ | hlt
        · exact hnk (List.mem_map.2 ⟨j, hj, hjk⟩)
        · omega
      -- nothing in flight before: `i` is the only in-flight entry and holds one reference
      have hquiet : s.c.F = [] → c1.F = [i] ∧ c1.refcnt i = 1 ∧ ∀ j, j ≠ i → c1.refcnt j ≤ s.c.refcnt j := by
        intro hF0
        obtain ⟨hFF, hle, -⟩ := htr
        rcases hFF with ⟨hm, -⟩ | ⟨hF1, hnk⟩
        · rw [hF0] at hm; cases hm
        · refine ⟨by rw [hF1, hF0]; rfl, ?_, fun j hj => ?_⟩
          · have h0 : s.c.refcnt i = 0 := by
              apply Classical.byContradiction
              intro hne
              have hl : i ∈ live s.c := hI.ref_live i (by rw [← hcap]; exact hilt) hne
              have := (hfr.refd i hl hne).2.1
              exact hnk i hl (this ▸ hik)
            have := hle i
            rw [h0, if_pos rfl] at this
            omega
          · have := hle j
            rw [if_neg hj] at this
            exact this
      simp only [hd1, Bool.false_eq_true, if_false]
      cases hfk : f k with
      | ok v =>
        obtain ⟨c2, hins⟩ := insert_ok hnv hiF
        obtain ⟨hI2, -⟩ := insert_spec hI1 hins
        obtain ⟨hF2, hic2, hsub, hcap2, hsame⟩ := insert_track hins hnv
        simp only [hins]
        refine ⟨_, _, rfl, ⟨(inv_iff _).2 hI2, ?_, ?_⟩, hcap2.trans hcap, ?_, ⟨hfk, hic2, ?_⟩, ?_⟩
        · show c2.cap ≤ (s.buf.set d (some v)).length
          rw [List.length_set, hcap2, hcap]; exact hlen
        · intro j hj
          show ∃ d' v', c2.dataOf j = some d' ∧ (s.buf.set d (some v)).getD d' none = some v' ∧
            f (c2.key j) = .ok v'
          rw [(hsame j).1, (hsame j).2.1]
          rcases hsub j hj with rfl | hjc
          · exact ⟨d, v, hd1, getD_set_self _ _ _ _ hdlt, by rw [hik]; exact hfk⟩
          · exact coh_set_inflight f hcoh hI1 hfr hiF hd1 _ j hjc
        · exact ⟨fun hb => (by cases hb), fun hb => absurd hb hnb⟩
        · show c2.refcnt i ≠ 0
          rw [(hsame i).2.2]; exact hrf
        · intro hF0
          obtain ⟨hF1, hr1, hrj⟩ := hquiet hF0
          refine ⟨?_, fun j => ?_⟩
          · show c2.F = []
            rw [hF2, hF1]; simp
          · show c2.refcnt j ≤ _
            rw [(hsame j).2.2]
            by_cases hj : j = i
            · subst hj; rw [hr1, if_pos rfl]; omega
            · rw [if_neg hj]; exact hrj j hj
      | error e =>
        obtain ⟨c2, hdis⟩ := discard_ok hrf hnv hiF
        obtain ⟨hI2, -⟩ := discard_spec hI1 hdis
        obtain ⟨hc2, hcap2, hkd, hrc, hFe⟩ := discard_track hdis
        simp only [hdis]
        refine ⟨_, _, rfl, ⟨(inv_iff _).2 hI2, ?_, ?_⟩, hcap2.trans hcap, ?_, hfk, ?_⟩
        · show c2.cap ≤ (s.buf.set d none).length
          rw [List.length_set, hcap2, hcap]; exact hlen
        · intro j hj
          show ∃ d' v', c2.dataOf j = some d' ∧ (s.buf.set d none).getD d' none = some v' ∧
            f (c2.key j) = .ok v'
          rw [(hkd j).1, (hkd j).2]
          have hj1 : j ∈ cached c1 := by
            have : j ∈ cached c2 := hj
            rw [hc2] at this; exact this
          exact coh_set_inflight f hcoh hI1 hfr hiF hd1 _ j hj1
        · exact ⟨fun hb => (by cases hb), fun hb => absurd hb hnb⟩
        · intro hF0
          obtain ⟨hF1, hr1, hrj⟩ := hquiet hF0
          refine ⟨?_, fun j => ?_⟩
          · show c2.F = []
            rw [hFe hr1 hnv, hF1]; simp
          · show c2.refcnt j ≤ _
            rw [hrc j]
            by_cases hj : j = i
            · subst hj; rw [if_pos rfl, hr1]; omega
            · rw [if_neg hj]; exact hrj j hj

/-! ### `release` -/

theorem release_full (f : Nat → Except E V) (s : PCache V) (i : Nat) (h : PInv f s)
    (hr : s.c.refcnt i ≠ 0) (hput : i ∈ s.c.F → s.c.refcnt i ≠ 1) :
    ∃ s', release s i = .ok s' ∧ PInv f s' ∧ s'.c.cap = s.c.cap ∧ s'.c.F = s.c.F ∧
      ∀ j, s'.c.refcnt j = if j = i then s.c.refcnt i - 1 else s.c.refcnt j := by
  obtain ⟨hI, hlen, hcoh⟩ := h
  have hS := (inv_iff _).1 hI
  have hp := put_ok hr
  obtain ⟨hI2, -⟩ := put_spec hS hp (fun _ => hput)
  unfold release
  rw [hp]
  refine ⟨_, rfl, ⟨(inv_iff _).2 hI2, hlen, ?_⟩, rfl, rfl, refcnt_modEnt_dec s.c i (refcnt_lt_len hr)⟩
  intro j hj
  have hkd := modEnt_same s.c i (fun x => { x with refcnt := x.refcnt - 1 }) (fun _ => rfl) (fun _ => rfl) j
  obtain ⟨d', v', h1, h2, h3⟩ := hcoh j hj
  exact ⟨d', v', hkd.2.trans h1, h2, by show f ((s.c.modEnt i _).key j) = _; rw [hkd.1]; exact h3⟩

/-! ### `getPage` -/

theorem getPage_full (f : Nat → Except E V) (s : PCache V) (k : Nat) (h : PInv f s) :
    ∃ s' r, getPage f s k = .ok (s', r) ∧ PInv f s' ∧ s'.c.cap = s.c.cap ∧
      ((r = .busy) ↔ BusyRule s.c k) ∧ (r ≠ .busy → r = Res.ofExcept (f k)) ∧
      (s.c.F = [] → s'.c.F = [] ∧ ∀ j, s'.c.refcnt j ≤ s.c.refcnt j) := by
  obtain ⟨s1, o, hfe, hP1, hcap1, hbusy, hpost, htrack⟩ := fetch_full f s k h
  unfold getPage
  rw [hfe]
  cases o with
  | busy =>
    have : s1 = s := hpost
    subst this
    exact ⟨_, _, rfl, hP1, rfl, ⟨fun _ => hbusy.1 rfl, fun _ => rfl⟩, fun hn => absurd rfl hn,
      fun hF0 => ⟨hF0, fun j => Nat.le_refl _⟩⟩
  | fail e =>
    have hfk : f k = .error e := hpost
    refine ⟨_, _, rfl, hP1, hcap1, ⟨fun hb => (by cases hb), fun hb => ?_⟩, fun _ => ?_, htrack⟩
    · have := hbusy.2 hb; cases this
    · rw [hfk]; rfl
  | got i v =>
    obtain ⟨hfk, hic, hrf⟩ : f k = .ok v ∧ i ∈ cached s1.c ∧ s1.c.refcnt i ≠ 0 := hpost
    have hnF : i ∈ s1.c.F → s1.c.refcnt i ≠ 1 :=
      fun hF => absurd hic (not_cached_of_inflight ((inv_iff _).1 hP1.1) hF)
    obtain ⟨s2, hrel, hP2, hcap2, hF2, hr2⟩ := release_full f s1 i hP1 hrf hnF
    simp only [hrel]
    refine ⟨_, _, rfl, hP2, hcap2.trans hcap1, ⟨fun hb => (by cases hb), fun hb => ?_⟩, fun _ => ?_, ?_⟩
    · have := hbusy.2 hb; cases this
    · rw [hfk]; rfl
    · intro hF0
      obtain ⟨hF1, hle⟩ : s1.c.F = [] ∧ ∀ j, s1.c.refcnt j ≤ s.c.refcnt j + (if j = i then 1 else 0) :=
        htrack hF0
      refine ⟨hF2.trans hF1, fun j => ?_⟩
      rw [hr2 j]
      have := hle j
      by_cases hj : j = i
      · subst hj; rw [if_pos rfl] at this ⊢; omega
      · rw [if_neg hj] at this ⊢; omega

/-! ### Histories -/

/-- no reference is held -/
def NoRef (s : PCache V) : Prop := ∀ j, s.c.refcnt j = 0

theorem pinv_init (f : Nat → Except E V) (cap : Nat) (h : 0 < cap) :
    PInv f (PCache.init (V := V) cap) := by
  refine ⟨(inv_iff _).2 (invS_flush cap h True), ?_, ?_⟩
  · show cap ≤ (List.replicate cap (none : Option V)).length
    simp
  · intro i hi
    have : i ∈ ([] : List Nat) := hi
    cases this

theorem qinv_init (f : Nat → Except E V) (cap : Nat) (h : 0 < cap) :
    QInv f (PCache.init (V := V) cap) := ⟨pinv_init f cap h, rfl⟩

theorem noRef_init (cap : Nat) : NoRef (PCache.init (V := V) cap) := fun j => flush_refcnt cap j

theorem hstep_qinv (f : Nat → Except E V) (s s' : PCache V) (op : HOp) (h : QInv f s)
    (hs : hstep f s op = .ok s') : QInv f s' := by
  obtain ⟨hP, hF0⟩ := h
  cases op with
  | read k =>
    obtain ⟨s1, r, hgp, hP1, -, -, -, htr⟩ := getPage_full f s k hP
    simp only [hstep, hgp, Except.map, Except.ok.injEq] at hs
    subst hs
    exact ⟨hP1, (htr hF0).1⟩
  | pin k =>
    obtain ⟨s1, o, hfe, hP1, -, -, hpost, htr⟩ := fetch_full f s k hP
    simp only [hstep, hfe, Except.map, Except.ok.injEq] at hs
    subst hs
    refine ⟨hP1, ?_⟩
    cases o with
    | busy => have : s1 = s := hpost; rw [this]; exact hF0
    | got i v => exact (htr hF0).1
    | fail e => exact (htr hF0).1
  | unpin e =>
    have hs' : release s e = .ok s' := hs
    have hr : s.c.refcnt e ≠ 0 := by
      unfold release at hs'
      cases hp : put s.c e with
      | error x => rw [hp] at hs'; cases hs'
      | ok r => obtain ⟨c1, o⟩ := r; exact (put_track hp).1
    obtain ⟨s2, hrel, hP2, -, hF2, -⟩ := release_full f s e hP hr (fun hm => by rw [hF0] at hm; cases hm)
    rw [hrel] at hs'
    simp only [Except.ok.injEq] at hs'
    subst hs'
    exact ⟨hP2, hF2.trans hF0⟩
  | resize cap =>
    simp only [hstep] at hs
    split at hs
    · cases hs
    · split at hs
      · cases hs
      · rename_i hc _
        simp only [Except.ok.injEq] at hs
        subst hs
        exact qinv_init f cap (Nat.pos_of_ne_zero hc)

theorem hrun_qinv (f : Nat → Except E V) : ∀ (ops : List HOp) (s s' : PCache V), QInv f s →
    hrun f s ops = .ok s' → QInv f s'
  | [], s, s', h, hr => by
    simp only [hrun, Except.ok.injEq] at hr
    exact hr ▸ h
  | op :: ops, s, s', h, hr => by
    unfold hrun at hr
    cases hs : hstep f s op with
    | error e => rw [hs] at hr; cases hr
    | ok s1 =>
      rw [hs] at hr
      exact hrun_qinv f ops s1 s' (hstep_qinv f s s1 op h hs) hr

/-- reads and resizes leave no reference behind -/
theorem hstep_noRef (f : Nat → Except E V) (s s' : PCache V) (op : HOp) (h : QInv f s) (hn : NoRef s)
    (hop : noPins [op]) (hs : hstep f s op = .ok s') : NoRef s' := by
  cases op with
  | read k =>
    obtain ⟨s1, r, hgp, -, -, -, -, htr⟩ := getPage_full f s k h.1
    simp only [hstep, hgp, Except.map, Except.ok.injEq] at hs
    subst hs
    intro j
    have := (htr h.2).2 j
    rw [hn j] at this
    omega
  | pin k => exact hop.elim
  | unpin e => exact hop.elim
  | resize cap =>
    simp only [hstep] at hs
    split at hs
    · cases hs
    · split at hs
      · cases hs
      · simp only [Except.ok.injEq] at hs
        subst hs
        exact noRef_init cap

theorem hrun_noRef (f : Nat → Except E V) : ∀ (ops : List HOp) (s s' : PCache V), QInv f s → NoRef s →
    noPins ops → hrun f s ops = .ok s' → QInv f s' ∧ NoRef s'
  | [], s, s', h, hn, _, hr => by
    simp only [hrun, Except.ok.injEq] at hr
    exact hr ▸ ⟨h, hn⟩
  | op :: ops, s, s', h, hn, hp, hr => by
    unfold hrun at hr
    cases hs : hstep f s op with
    | error e => rw [hs] at hr; cases hr
    | ok s1 =>
      rw [hs] at hr
      have h1 : noPins [op] ∧ noPins ops := by
        cases op <;> simp only [noPins] at hp ⊢ <;> first | exact ⟨trivial, hp⟩ | exact hp.elim
      exact hrun_noRef f ops s1 s' (hstep_qinv f s s1 op h hs) (hstep_noRef f s s1 op h hn h1.1 hs) h1.2 hr

/-- with no reference held and nothing in flight a lookup is never refused -/
theorem not_busy_of_noRef {s : PCache V} (hI : Inv s.c) (hF : s.c.F = []) (hn : NoRef s) (k : Nat) :
    ¬ BusyRule s.c k := by
  rintro ⟨-, hb⟩
  have hp : s.c.pinned = 0 := by
    unfold Cache.pinned
    have h1 : ∀ l : List Nat, (l.filter fun i => s.c.refcnt i ≠ 0) = [] := by
      intro l
      rw [List.filter_eq_nil_iff]
      intro a _
      simp [hn a]
    rw [h1, h1]; rfl
  have := hI.cap_pos
  rw [hp, hF] at hb
  simp at hb
  omega

/-- the answer of a complete access in a quiescent, unreferenced state is `f k` -/
theorem getPage_noRef (f : Nat → Except E V) (s : PCache V) (k : Nat) (h : QInv f s) (hn : NoRef s) :
    ∃ s', getPage f s k = .ok (s', Res.ofExcept (f k)) := by
  obtain ⟨s1, r, hgp, -, -, hbusy, hres, -⟩ := getPage_full f s k h.1
  have hnb : r ≠ .busy := fun hb => not_busy_of_noRef h.1.1 h.2 hn k (hbusy.1 hb)
  exact ⟨s1, by rw [hgp, hres hnb]⟩

end Kdf.Lemmas.Hist
