import Kdf.Lemmas.PgtSim
/-! Helper lemmas for C02: `first_step`, assembly of the page-table theorem. -/
namespace Kdf.Lemmas.Pgt
set_option linter.unusedSimpArgs false
open Kdf.Model.Pgt Kdf.Spec.ArchWalk Kdf.Model.PgtArch

/-- the state produced by `first_step_pgt_generic` -/
def initStep (root : FullAddr) (pf : PagingForm) (va : Nat) : Step :=
  { base := root, remain := pf.fieldsz.length,
    elemsz := if pf.fieldsz.length > 1 then
      (match ptevalShift pf.fmt with | some k => 2^k | none => 0) else 1,
    idx := firstStepPgtGeneric.split pf.fieldsz va ++
      List.replicate (9 - (firstStepPgtGeneric.split pf.fieldsz va).length) 0,
    raw := 0 }

theorem firstStepPgtGeneric_ok (root : FullAddr) (pf : PagingForm) (va : Nat)
    (hroot : root.as ≠ NOADDR) : firstStepPgtGeneric root pf va = .ok (initStep root pf va) := by
  simp only [firstStepPgtGeneric, hroot, if_false]
  rfl

theorem getD_append_left (l1 l2 : List Nat) (i : Nat) (h : i < l1.length) :
    (l1 ++ l2).getD i 0 = l1.getD i 0 := by
  simp [List.getD_eq_getElem?_getD, List.getElem?_append_left h]

theorem initStep_idx (root : FullAddr) (pf : PagingForm) (va i : Nat) (hi : i ≤ pf.fieldsz.length) :
    idxAt (initStep root pf va) i = (firstStepPgtGeneric.split pf.fieldsz va).getD i 0 := by
  simp only [idxAt, initStep]
  apply getD_append_left
  rw [split_length]; omega

theorem initStep_inv (root : FullAddr) (pf : PagingForm) (va : Nat)
    (hl : ∀ b ∈ pf.fieldsz, b < 64) : IdxInv pf.fieldsz va (initStep root pf va) := by
  constructor
  · simp only [initStep, List.length_append, split_length]; omega
  · intro i hi
    rw [initStep_idx _ _ _ _ (by omega), split_getD _ _ hl _ hi]

theorem initStep_top (root : FullAddr) (pf : PagingForm) (va : Nat)
    (hl : ∀ b ∈ pf.fieldsz, b < 64) :
    idxAt (initStep root pf va) pf.fieldsz.length = va / 2^(spanBits pf.fieldsz pf.fieldsz.length) := by
  rw [initStep_idx _ _ _ _ (Nat.le_refl _), split_getD_top _ _ hl]

/-- the common shape of `first_step` for the specified formats -/
def FirstOK (canon : Canon) (t : Nat) (root : FullAddr) (pteMask : Nat) (pf : PagingForm) (va : Nat) : Prop :=
  firstStep (.pgt t root pteMask pf) va =
    if root.as = NOADDR then .error .nodata
    else if !canonical canon (spanBits pf.fieldsz pf.fieldsz.length) va then .error .invalid
    else .ok (initStep root pf va)

theorem firstOK_unsigned (t : Nat) (root : FullAddr) (pteMask : Nat) (pf : PagingForm) (va : Nat)
    (h : firstStep (.pgt t root pteMask pf) va = firstStepPgtGeneric root pf va >>= checkUaddr pf)
    (hl : ∀ b ∈ pf.fieldsz, b < 64) : FirstOK .unsigned t root pteMask pf va := by
  unfold FirstOK
  rw [h]
  by_cases hroot : root.as = NOADDR
  · simp [firstStepPgtGeneric, hroot, bind, Except.bind]
  · rw [firstStepPgtGeneric_ok _ _ _ hroot]
    simp only [hroot, if_false, bind, Except.bind, checkUaddr, initStep_top _ _ _ hl, canonical]
    by_cases hc : va / 2^(spanBits pf.fieldsz pf.fieldsz.length) = 0
    · simp [hc]
    · simp [hc]

theorem top_bit (x f : Nat) (hf : 1 ≤ f) : x % 2^f / 2^(f-1) % 2 = x / 2^(f-1) % 2 := by
  have : (2:Nat)^f = 2^(f-1) * 2 := by rw [← Nat.pow_succ]; congr 1; omega
  rw [this, Nat.mod_mul_right_div_self, Nat.mod_mod]

theorem firstOK_signed (t : Nat) (root : FullAddr) (pteMask : Nat) (pf : PagingForm) (va : Nat)
    (h : firstStep (.pgt t root pteMask pf) va = firstStepPgtGeneric root pf va >>= checkSaddr pf)
    (hl : ∀ b ∈ pf.fieldsz, b < 64) (hn : 1 ≤ pf.fieldsz.length)
    (hlast : 1 ≤ pf.fieldsz.getD (pf.fieldsz.length - 1) 0) :
    FirstOK .signed t root pteMask pf va := by
  unfold FirstOK
  rw [h]
  by_cases hroot : root.as = NOADDR
  · simp [firstStepPgtGeneric, hroot, bind, Except.bind]
  · rw [firstStepPgtGeneric_ok _ _ _ hroot]
    have hi := (initStep_inv root pf va hl).val (pf.fieldsz.length - 1) (by omega)
    have hs : spanBits pf.fieldsz pf.fieldsz.length =
        spanBits pf.fieldsz (pf.fieldsz.length - 1) + pf.fieldsz.getD (pf.fieldsz.length - 1) 0 := by
      have := spanBits_succ pf.fieldsz (pf.fieldsz.length - 1)
      rw [show pf.fieldsz.length - 1 + 1 = pf.fieldsz.length by omega] at this
      exact this
    have htop : idxAt (initStep root pf va) (pf.fieldsz.length - 1) /
        2^(fieldAt pf (pf.fieldsz.length - 1) - 1) % 2 =
        va / 2^(spanBits pf.fieldsz pf.fieldsz.length - 1) % 2 := by
      rw [hi]
      show _ / 2^(pf.fieldsz.getD (pf.fieldsz.length - 1) 0 - 1) % 2 = _
      rw [top_bit _ _ hlast, Nat.div_div_eq_div_mul, ← Nat.pow_add, hs]
      congr 3
      omega
    simp only [hroot, if_false, bind, Except.bind, checkSaddr, initStep_top _ _ _ hl, canonical,
      htop, vaddrBits_eq]
    generalize spanBits pf.fieldsz pf.fieldsz.length = vb
    by_cases hb : va / 2^(vb - 1) % 2 = 1
    · simp only [hb, if_true]
      by_cases hc : va / 2^vb = (W - 1) / 2^vb
      · simp [hc]
      · simp [hc]
    · simp only [hb, if_false]
      by_cases hc : va / 2^vb = 0
      · simp [hc]
      · simp [hc]

/-- generic assembly: first step, then the simulation of `descend` -/
theorem walk_pgt_generic (mem : Mem) (t : Nat) (root : FullAddr) (pteMask : Nat) (pf : PagingForm)
    (va : Nat) (decode : Nat → Nat → Desc) (canon : Canon) (sz : Nat)
    (hn : 1 ≤ pf.fieldsz.length) (hl : ∀ b ∈ pf.fieldsz, b < 64)
    (hfirst : FirstOK canon t root pteMask pf va)
    (helem : 2 ≤ pf.fieldsz.length → (initStep root pf va).elemsz = sz)
    (hsim : StepSim decode mem t pteMask pf sz va) :
    (walk extra mem (.pgt t root pteMask pf) va).map (·.base) =
      archWalk decode canon mem t root pteMask pf.fieldsz sz va := by
  unfold walk archWalk
  rw [hfirst]
  by_cases hroot : root.as = NOADDR
  · simp only [hroot, if_true]; rfl
  · simp only [hroot, if_false]
    by_cases hc : canonical canon (spanBits pf.fieldsz pf.fieldsz.length) va = true
    · simp only [hc, Bool.not_true, Bool.false_eq_true, if_false]
      have hrem : (initStep root pf va).remain = pf.fieldsz.length := rfl
      have hne : ¬ (initStep root pf va).remain = 0 := by omega
      simp only [hne, if_false]
      by_cases h1 : pf.fieldsz.length = 1
      · rw [hrem, h1]
        have hw := walkLoop_final mem (.pgt t root pteMask pf) 1 (initStep root pf va)
          (by rw [hrem, h1]) (by simp [initStep, h1])
        rw [hw]
        have hi := (initStep_inv root pf va hl).val 0 (by omega)
        simp only [spanBits_zero, Nat.pow_zero, Nat.div_one] at hi
        rw [hi]
        rfl
      · obtain ⟨r, hr⟩ : ∃ r, pf.fieldsz.length = r + 2 := ⟨pf.fieldsz.length - 2, by omega⟩
        rw [hrem, hr]
        exact walkLoop_descend decode mem t root pteMask pf sz va hsim r (r+2+1)
          (initStep root pf va) (by omega) (by rw [hrem, hr]) (by omega) (helem (by omega))
          (initStep_inv root pf va hl)
    · have : canonical canon (spanBits pf.fieldsz pf.fieldsz.length) va = false := by
        cases h : canonical canon (spanBits pf.fieldsz pf.fieldsz.length) va
        · rfl
        · exact absurd h hc
      simp only [this, Bool.not_false, if_true]
      rfl

/-! ## the formats the architectures define -/

/-- facts about the concrete architectural field lists -/
def FieldsOK (fields : List Nat) : Prop :=
  2 ≤ fields.length ∧ (∀ b ∈ fields, b < 64) ∧ 1 ≤ fields.getD (fields.length - 1) 0 ∧
    spanBits fields fields.length ≤ 64 ∧ fields.getD 0 0 = 12

instance (fields : List Nat) : Decidable (FieldsOK fields) := by unfold FieldsOK; exact inferInstance

theorem walk_pgt_x86_64 (mem : Mem) (t : Nat) (root : FullAddr) (pteMask : Nat) (pf : PagingForm)
    (va : Nat) (hfmt : pf.fmt = .x86_64) (hform : archForm pf = true) (hmask : pteMask < W) :
    (walk extra mem (.pgt t root pteMask pf) va).map (·.base) =
      specXlat mem (.pgt t root pteMask pf) va := by
  have hf : pf.fieldsz = [12, 9, 9, 9, 9] ∨ pf.fieldsz = [12, 9, 9, 9, 9, 9] := by
    simpa [archForm, hfmt] using hform
  have hok : FieldsOK pf.fieldsz := by
    rcases hf with h | h <;> rw [h] <;> decide
  obtain ⟨h2, hl, hlast, hspan, _⟩ := hok
  simp only [specXlat, formatSpec, hfmt]
  exact walk_pgt_generic mem t root pteMask pf va _ _ _ (by omega) hl
    (firstOK_signed _ _ _ _ _ (by simp only [firstStep, hfmt]) hl (by omega) hlast)
    (fun h => by
      have h' : pf.fieldsz.length > 1 := by omega
      simp [initStep, hfmt, ptevalShift, h'])
    (stepSim_x86_64 mem t pteMask pf va hfmt hmask hspan)

theorem walk_pgt_riscv64 (mem : Mem) (t : Nat) (root : FullAddr) (pteMask : Nat) (pf : PagingForm)
    (va : Nat) (hfmt : pf.fmt = .riscv64) (hform : archForm pf = true) (hmask : pteMask < W) :
    (walk extra mem (.pgt t root pteMask pf) va).map (·.base) =
      specXlat mem (.pgt t root pteMask pf) va := by
  have hf : pf.fieldsz = [12, 9, 9, 9] ∨ pf.fieldsz = [12, 9, 9, 9, 9] ∨
      pf.fieldsz = [12, 9, 9, 9, 9, 9] := by
    simpa [archForm, hfmt, or_assoc] using hform
  have hok : FieldsOK pf.fieldsz := by
    rcases hf with h | h | h <;> rw [h] <;> decide
  obtain ⟨h2, hl, hlast, hspan, hf0⟩ := hok
  simp only [specXlat, formatSpec, hfmt]
  exact walk_pgt_generic mem t root pteMask pf va _ _ _ (by omega) hl
    (firstOK_signed _ _ _ _ _ (by simp only [firstStep, hfmt]) hl (by omega) hlast)
    (fun h => by
      have h' : pf.fieldsz.length > 1 := by omega
      simp [initStep, hfmt, ptevalShift, h'])
    (stepSim_riscv64 mem t pteMask pf va hfmt hmask hf0 hspan)

theorem walk_pgt_ia32 (mem : Mem) (hmem : MemWF mem) (t : Nat) (root : FullAddr) (pteMask : Nat)
    (pf : PagingForm) (va : Nat) (hfmt : pf.fmt = .ia32) (hform : archForm pf = true)
    (hmask : pteMask < W) :
    (walk extra mem (.pgt t root pteMask pf) va).map (·.base) =
      specXlat mem (.pgt t root pteMask pf) va := by
  have hf : pf.fieldsz = [12, 10, 10] := by
    simpa [archForm, hfmt] using hform
  have hok : FieldsOK pf.fieldsz := by rw [hf]; decide
  obtain ⟨h2, hl, hlast, hspan, hf0⟩ := hok
  simp only [specXlat, formatSpec, hfmt]
  exact walk_pgt_generic mem t root pteMask pf va _ _ _ (by omega) hl
    (firstOK_unsigned _ _ _ _ _ (by simp only [firstStep, hfmt]) hl)
    (fun h => by
      have h' : pf.fieldsz.length > 1 := by omega
      simp [initStep, hfmt, ptevalShift, h'])
    (stepSim_ia32 mem hmem t pteMask pf va hfmt hmask hspan)

theorem walk_pgt_ia32Pae (mem : Mem) (t : Nat) (root : FullAddr) (pteMask : Nat)
    (pf : PagingForm) (va : Nat) (hfmt : pf.fmt = .ia32Pae) (hform : archForm pf = true)
    (hmask : pteMask < W) :
    (walk extra mem (.pgt t root pteMask pf) va).map (·.base) =
      specXlat mem (.pgt t root pteMask pf) va := by
  have hf : pf.fieldsz = [12, 9, 9, 2] := by
    simpa [archForm, hfmt] using hform
  have hok : FieldsOK pf.fieldsz := by rw [hf]; decide
  obtain ⟨h2, hl, hlast, hspan, hf0⟩ := hok
  simp only [specXlat, formatSpec, hfmt]
  exact walk_pgt_generic mem t root pteMask pf va _ _ _ (by omega) hl
    (firstOK_unsigned _ _ _ _ _ (by simp only [firstStep, hfmt]) hl)
    (fun h => by
      have h' : pf.fieldsz.length > 1 := by omega
      simp [initStep, hfmt, ptevalShift, h'])
    (stepSim_ia32Pae mem t pteMask pf va hfmt hmask hspan)

theorem pfn_form (pf : PagingForm) (hfmt : pf.fmt = .pfn32 ∨ pf.fmt = .pfn64)
    (hform : archForm pf = true) :
    1 ≤ pf.fieldsz.length ∧ (∀ b ∈ pf.fieldsz, b < 64) ∧
      spanBits pf.fieldsz pf.fieldsz.length ≤ 64 := by
  have : (pf.fieldsz.length ≥ 1 && pf.fieldsz.all (fun b => 1 ≤ b && b < 64) &&
      decide (spanBits pf.fieldsz pf.fieldsz.length ≤ 64)) = true := by
    rcases hfmt with h | h <;> simpa only [archForm, h] using hform
  simp only [Bool.and_eq_true, decide_eq_true_eq, List.all_eq_true] at this
  obtain ⟨⟨h1, h2⟩, h3⟩ := this
  exact ⟨h1, fun b hb => (h2 b hb).2, h3⟩

theorem walk_pgt_pfn32 (mem : Mem) (t : Nat) (root : FullAddr) (pteMask : Nat)
    (pf : PagingForm) (va : Nat) (hfmt : pf.fmt = .pfn32) (hform : archForm pf = true)
    (hmask : pteMask < W) :
    (walk extra mem (.pgt t root pteMask pf) va).map (·.base) =
      specXlat mem (.pgt t root pteMask pf) va := by
  obtain ⟨hn, hl, hspan⟩ := pfn_form pf (Or.inl hfmt) hform
  simp only [specXlat, formatSpec, hfmt]
  exact walk_pgt_generic mem t root pteMask pf va _ _ _ hn hl
    (firstOK_unsigned _ _ _ _ _ (by simp only [firstStep, hfmt]) hl)
    (fun h => by
      have h' : pf.fieldsz.length > 1 := by omega
      simp [initStep, hfmt, ptevalShift, h'])
    (stepSim_pfn mem t pteMask pf 4 va (Or.inl ⟨hfmt, rfl⟩) hmask)

theorem walk_pgt_pfn64 (mem : Mem) (t : Nat) (root : FullAddr) (pteMask : Nat)
    (pf : PagingForm) (va : Nat) (hfmt : pf.fmt = .pfn64) (hform : archForm pf = true)
    (hmask : pteMask < W) :
    (walk extra mem (.pgt t root pteMask pf) va).map (·.base) =
      specXlat mem (.pgt t root pteMask pf) va := by
  obtain ⟨hn, hl, hspan⟩ := pfn_form pf (Or.inr hfmt) hform
  simp only [specXlat, formatSpec, hfmt]
  exact walk_pgt_generic mem t root pteMask pf va _ _ _ hn hl
    (firstOK_unsigned _ _ _ _ _ (by simp only [firstStep, hfmt]) hl)
    (fun h => by
      have h' : pf.fieldsz.length > 1 := by omega
      simp [initStep, hfmt, ptevalShift, h'])
    (stepSim_pfn mem t pteMask pf 8 va (Or.inr ⟨hfmt, rfl⟩) hmask)

/-! ## non-canonical addresses -/

theorem firstOK_of_form (t : Nat) (root : FullAddr) (pteMask : Nat) (pf : PagingForm) (va : Nat)
    (hform : archForm pf = true) (decode : Nat → Nat → Desc) (canon : Canon) (sz : Nat)
    (hspec : formatSpec pf = some (decode, canon, sz)) : FirstOK canon t root pteMask pf va := by
  cases hfmt : pf.fmt <;> simp only [formatSpec, hfmt, Option.some.injEq, Prod.mk.injEq, reduceCtorEq] at hspec
  · -- pfn32
    obtain ⟨_, rfl, _⟩ := hspec
    obtain ⟨hn, hl, hspan⟩ := pfn_form pf (Or.inl hfmt) hform
    exact firstOK_unsigned _ _ _ _ _ (by simp only [firstStep, hfmt]) hl
  · obtain ⟨_, rfl, _⟩ := hspec
    obtain ⟨hn, hl, hspan⟩ := pfn_form pf (Or.inr hfmt) hform
    exact firstOK_unsigned _ _ _ _ _ (by simp only [firstStep, hfmt]) hl
  · -- ia32
    obtain ⟨_, rfl, _⟩ := hspec
    have hf : pf.fieldsz = [12, 10, 10] := by simpa [archForm, hfmt] using hform
    have hok : FieldsOK pf.fieldsz := by rw [hf]; decide
    exact firstOK_unsigned _ _ _ _ _ (by simp only [firstStep, hfmt]) hok.2.1
  · obtain ⟨_, rfl, _⟩ := hspec
    have hf : pf.fieldsz = [12, 9, 9, 2] := by simpa [archForm, hfmt] using hform
    have hok : FieldsOK pf.fieldsz := by rw [hf]; decide
    exact firstOK_unsigned _ _ _ _ _ (by simp only [firstStep, hfmt]) hok.2.1
  · -- x86_64
    obtain ⟨_, rfl, _⟩ := hspec
    have hf : pf.fieldsz = [12, 9, 9, 9, 9] ∨ pf.fieldsz = [12, 9, 9, 9, 9, 9] := by
      simpa [archForm, hfmt] using hform
    have hok : FieldsOK pf.fieldsz := by rcases hf with h | h <;> rw [h] <;> decide
    obtain ⟨h2, hl, hlast, _, _⟩ := hok
    exact firstOK_signed _ _ _ _ _ (by simp only [firstStep, hfmt]) hl (by omega) hlast
  · -- riscv64
    obtain ⟨_, rfl, _⟩ := hspec
    have hf : pf.fieldsz = [12, 9, 9, 9] ∨ pf.fieldsz = [12, 9, 9, 9, 9] ∨
        pf.fieldsz = [12, 9, 9, 9, 9, 9] := by
      simpa [archForm, hfmt, or_assoc] using hform
    have hok : FieldsOK pf.fieldsz := by rcases hf with h | h | h <;> rw [h] <;> decide
    obtain ⟨h2, hl, hlast, _, _⟩ := hok
    exact firstOK_signed _ _ _ _ _ (by simp only [firstStep, hfmt]) hl (by omega) hlast

theorem walk_noncanonical (mem : Mem) (t : Nat) (root : FullAddr) (pteMask : Nat) (pf : PagingForm)
    (va : Nat) (canon : Canon) (hroot : root.as ≠ NOADDR)
    (hfirst : FirstOK canon t root pteMask pf va)
    (hnc : canonical canon (spanBits pf.fieldsz pf.fieldsz.length) va = false) :
    walk extra mem (.pgt t root pteMask pf) va = .error .invalid := by
  unfold walk
  rw [hfirst]
  simp only [hroot, if_false, hnc, Bool.not_false, if_true]

end Kdf.Lemmas.Pgt
