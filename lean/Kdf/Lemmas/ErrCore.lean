import Kdf.Lemmas.ErrStr
/-! Decomposition of `vadd` into its branches (C16). -/
namespace Kdf.Lemmas.Err
open Kdf.Model.Err

/-- grow branch: realloc + memmove + vsnprintf + delimiter -/
def vaddAlloc (e : ErrBuf) (inD : Bool) (pos dlen : Nat) (msg : List Byte) : ErrBuf :=
  let msglen := msg.length + dlen
  let old := cstr e (if inD then .inDyn pos else .inBuf pos)
  let curlen := old.length
  let newsz := 1 + curlen + msglen + 1
  let keep := match e.dyn with | some d => d.take newsz | none => []
  let blk := keep ++ List.replicate (newsz - keep.length) 0xDD
  let e1 := { e with dyn := some blk }
  let e2 := wrAt e1 true (msglen + 1) (old ++ [0])
  let e3 := wrAt e2 true 1 (msg ++ [0])
  let r := min msglen dlen
  let e4 := if dlen ≠ 0 then wrAt e3 true (msglen + 1 - r) (delim.drop (2 - r)) else e3
  { e4 with str := .inDyn 1 }

/-- truncation branch with at least one free byte -/
def vaddTrunc (e : ErrBuf) (inD : Bool) (pos remain dlen : Nat) (msg : List Byte) : ErrBuf :=
  let msglen := msg.length + dlen
  let lbuf0 : List Byte := (msg.take (e.bufsz - 1) ++ [0]) ++ List.replicate (e.bufsz + 2 - (min msg.length (e.bufsz - 1) + 1)) 0xEE
  let (lbuf, msglen) :=
    if msg.length ≥ e.bufsz then (lbuf0.set (e.bufsz - 2) 62, e.bufsz - 1 + dlen)
    else (lbuf0, msglen)
  let src := (List.range remain).map fun i => lbuf[msglen - remain + i]?
  let bad := src.any (·.isNone) || decide (msglen < remain)
  let bytes := src.map (·.getD 0xEE)
  let e1 := wrAt e inD (pos - remain) bytes
  let e1 := { e1 with oob := e1.oob || bad }
  let e2 := wrAt e1 inD (pos - remain) [60]
  let r := min (remain - 1) dlen
  let e3 := if dlen ≠ 0 then wrAt e2 inD (pos - r) (delim.drop (2 - r)) else e2
  { e3 with str := if inD then .inDyn (pos - remain) else .inBuf (pos - remain) }

/-- truncation branch without any free byte -/
def vaddNoRoom (e : ErrBuf) (inD : Bool) (pos : Nat) : ErrBuf :=
  let e1 := wrAt e inD pos [60]
  { e1 with str := if inD then .inDyn pos else .inBuf pos }

/-- the message fits in front of the current string -/
def vaddFit (e : ErrBuf) (inD : Bool) (pos remain dlen : Nat) (msg : List Byte) : ErrBuf :=
  let msglen := msg.length + dlen
  let e1 := wrAt e inD (pos - msglen) (msg ++ [0])
  let r := min remain dlen
  let e2 := if dlen ≠ 0 then wrAt e1 inD (pos - r) (delim.drop (2 - r)) else e1
  { e2 with str := if inD then .inDyn (pos - msglen) else .inBuf (pos - msglen) }

def vaddCore (e : ErrBuf) (inD : Bool) (pos remain dlen : Nat) (msg : List Byte) (allocOk : Bool) : ErrBuf :=
  if remain < msg.length + dlen then
    if allocOk then vaddAlloc e inD pos dlen msg
    else if remain ≠ 0 then vaddTrunc e inD pos remain dlen msg
    else vaddNoRoom e inD pos
  else vaddFit e inD pos remain dlen msg

theorem vadd_null (e : ErrBuf) (msg : List Byte) (a : Bool) (h : e.str = .null) :
    vadd e msg a = vaddCore (wrAt e false (e.bufsz - 1) [0]) false (e.bufsz - 1) (e.bufsz - 1) 0 msg a := by
  unfold vadd
  simp only [h, if_true]
  rfl

theorem vadd_empty (e : ErrBuf) (msg : List Byte) (a : Bool) (h : rd e e.str 0 = some 0) :
    vadd e msg a = vaddCore (wrAt e false (e.bufsz - 1) [0]) false (e.bufsz - 1) (e.bufsz - 1) 0 msg a := by
  unfold vadd
  cases hs : e.str with
  | null => simp only [if_true]; rfl
  | inBuf o => rw [hs] at h; simp only [h, beq_self_eq_true, if_true]; rfl
  | inDyn o => rw [hs] at h; simp only [h, beq_self_eq_true, if_true]; rfl

theorem vadd_buf (e : ErrBuf) (msg : List Byte) (a : Bool) (o : Nat) (hs : e.str = .inBuf o)
    (h : rd e (.inBuf o) 0 ≠ some 0) :
    vadd e msg a = vaddCore e false o o 2 msg a := by
  unfold vadd
  have : (rd e (.inBuf o) 0 == some 0) = false := by simpa using h
  simp only [hs, this]
  rfl

theorem vadd_dyn (e : ErrBuf) (msg : List Byte) (a : Bool) (o : Nat) (hs : e.str = .inDyn o)
    (h : rd e (.inDyn o) 0 ≠ some 0) :
    vadd e msg a = vaddCore e true o o 2 msg a := by
  unfold vadd
  have : (rd e (.inDyn o) 0 == some 0) = false := by simpa using h
  simp only [hs, this]
  rfl

end Kdf.Lemmas.Err
