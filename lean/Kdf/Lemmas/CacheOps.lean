import Kdf.Lemmas.CachePrim
/-!
The API operations of the page-cache model (C06): `get`, `insert`, `put`, `discard`.
-/
set_option linter.unusedSimpArgs false
namespace Kdf.Lemmas.Cache
open Kdf.Model.Cache Kdf.Lemmas.CacheList

/-- what a lookup leaves alone -/
structure GetFrame (c c' : Cache) : Prop where
  cach : ∀ i ∈ cached c', i ∈ cached c ∧ c'.key i = c.key i ∧ c'.dataOf i = c.dataOf i
  refd : ∀ i ∈ live c, c.refcnt i ≠ 0 →
    i ∈ live c' ∧ c'.key i = c.key i ∧ c'.dataOf i = c.dataOf i ∧ c'.refcnt i ≥ c.refcnt i

theorem GetFrame.of_same {c c' : Cache} (hc : ∀ i, i ∈ cached c' ↔ i ∈ cached c) (hF : c'.F = c.F)
    (hent : ∀ i, (c'.ent i).key = (c.ent i).key ∧ (c'.ent i).data = (c.ent i).data ∧
      (c'.ent i).refcnt ≥ (c.ent i).refcnt) : GetFrame c c' := by
  constructor
  · intro i hi
    exact ⟨(hc i).1 hi, (hent i).1, (hent i).2.1⟩
  · intro i hi _
    refine ⟨?_, (hent i).1, (hent i).2.1, (hent i).2.2⟩
    unfold live at hi ⊢
    unfold cached at hc
    rw [List.mem_append] at hi ⊢
    rcases hi with hi | hi
    · exact Or.inl ((hc i).2 hi)
    · exact Or.inr (hF ▸ hi)

/-- the outcome of a lookup -/
def GetOut (c : Cache) (k : Nat) (c' : Cache) : Out → Prop
  | .busy => c' = c ∧ (∀ i ∈ live c, c.key i ≠ k) ∧ c.pinned + c.F.length ≥ c.cap
  | .entry i true => i ∈ cached c ∧ c.key i = k ∧ i ∈ cached c'
  | .entry i false => i ∈ c'.F ∧ c'.key i = k ∧
      ((∃ j ∈ live c, c.key j = k) ∨ c.pinned + c.F.length < c.cap)
  | .done => False

/-- the reference taken by `cache_get_entry` -/
def incref (c : Cache) (e : Nat) : Cache := c.modEnt e (fun x => { x with refcnt := x.refcnt + 1 })

theorem get_P {c : Cache} {k e : Nat} (h : c.P.find? (fun i => c.key i = k) = some e) :
    get c k = .ok (incref { c with P := e :: c.P.erase e, hits := c.hits + 1 } e, .entry e true) := by
  unfold Kdf.Model.Cache.get
  simp only [h]
  rfl

theorem get_B {c : Cache} {k e : Nat} (hP : c.P.find? (fun i => c.key i = k) = none)
    (h : c.B.reverse.find? (fun i => c.key i = k) = some e) :
    get c k = .ok (incref { c with B := c.B.erase e, P := e :: c.P, hits := c.hits + 1 } e,
      .entry e true) := by
  unfold Kdf.Model.Cache.get
  simp only [hP, h]
  rfl

theorem get_F {c : Cache} {k e : Nat} (hP : c.P.find? (fun i => c.key i = k) = none)
    (hB : c.B.reverse.find? (fun i => c.key i = k) = none)
    (h : c.F.find? (fun i => c.key i = k) = some e) :
    get c k = .ok (incref { c.modEnt e (fun x => { x with state := .precious }) with
      misses := c.misses + 1 } e, .entry e false) := by
  unfold Kdf.Model.Cache.get
  simp only [hP, hB, h]
  rfl

theorem get_busy {c : Cache} {k : Nat} (hP : c.P.find? (fun i => c.key i = k) = none)
    (hB : c.B.reverse.find? (fun i => c.key i = k) = none)
    (hF : c.F.find? (fun i => c.key i = k) = none) (hb : c.pinned + c.F.length ≥ c.cap) :
    get c k = .ok (c, .busy) := by
  unfold Kdf.Model.Cache.get
  simp only [hP, hB, hF, hb, if_true]

theorem get_GP {c : Cache} {k e : Nat} (hP : c.P.find? (fun i => c.key i = k) = none)
    (hB : c.B.reverse.find? (fun i => c.key i = k) = none)
    (hF : c.F.find? (fun i => c.key i = k) = none) (hb : ¬ c.pinned + c.F.length ≥ c.cap)
    (h : c.GP.find? (fun i => c.key i = k) = some e) :
    ∃ d, get c k = (ghostHit { c with dprobe := d } e true).bind
      (fun c2 => .ok (incref { c2 with misses := c2.misses + 1 } e, .entry e false)) := by
  unfold Kdf.Model.Cache.get
  simp only [hP, hB, hF, hb, if_false, h]
  exact ⟨_, rfl⟩

theorem get_GB {c : Cache} {k e : Nat} (hP : c.P.find? (fun i => c.key i = k) = none)
    (hB : c.B.reverse.find? (fun i => c.key i = k) = none)
    (hF : c.F.find? (fun i => c.key i = k) = none) (hb : ¬ c.pinned + c.F.length ≥ c.cap)
    (hGP : c.GP.find? (fun i => c.key i = k) = none)
    (h : c.GB.reverse.find? (fun i => c.key i = k) = some e) :
    ∃ d, get c k = (ghostHit { c with dprobe := d } e false).bind
      (fun c2 => .ok (incref { c2 with misses := c2.misses + 1 } e, .entry e false)) := by
  unfold Kdf.Model.Cache.get
  simp only [hP, hB, hF, hb, if_false, hGP, h]
  exact ⟨_, rfl⟩

theorem get_miss {c : Cache} {k : Nat} (hP : c.P.find? (fun i => c.key i = k) = none)
    (hB : c.B.reverse.find? (fun i => c.key i = k) = none)
    (hF : c.F.find? (fun i => c.key i = k) = none) (hb : ¬ c.pinned + c.F.length ≥ c.cap)
    (hGP : c.GP.find? (fun i => c.key i = k) = none)
    (hGB : c.GB.reverse.find? (fun i => c.key i = k) = none) :
    get c k = (missed c k).bind
      (fun r => .ok (incref { r.1 with misses := r.1.misses + 1 } r.2, .entry r.2 false)) := by
  unfold Kdf.Model.Cache.get
  simp only [hP, hB, hF, hb, if_false, hGP, hGB]
  rfl

theorem abs_incref (c : Cache) {e : Nat} (he : e < c.ents.length) :
    abs (incref c e) = (abs c).setEnt e { c.ent e with refcnt := (c.ent e).refcnt + 1 } :=
  abs_modEnt c _ he

theorem incref_same (c : Cache) (e i : Nat) :
    ((incref c e).ent i).key = (c.ent i).key ∧ ((incref c e).ent i).data = (c.ent i).data ∧
      ((incref c e).ent i).refcnt ≥ (c.ent i).refcnt ∧ ((incref c e).ent i).state = (c.ent i).state := by
  unfold incref
  rw [ent_modEnt]
  split
  · rename_i h; rw [h.1]; simp
  · simp

theorem no_key_of_find {c : Cache} {k : Nat} (hP : c.P.find? (fun i => c.key i = k) = none)
    (hB : c.B.reverse.find? (fun i => c.key i = k) = none)
    (hF : c.F.find? (fun i => c.key i = k) = none) : ∀ i ∈ live c, c.key i ≠ k := by
  intro i hi
  rw [List.find?_eq_none] at hP hB hF
  unfold live at hi
  simp only [List.mem_append] at hi
  rcases hi with (hi | hi) | hi
  · simpa using hB i (by simpa using hi)
  · simpa using hP i hi
  · simpa using hF i hi

set_option maxHeartbeats 400000 in
/-- common last step of ghost hits and misses: the entry goes in flight and is referenced -/
theorem finish_miss {c : Cache} {st : Prop} {c2 : Cache} {e : Nat} {v : Entry} {s : St}
    (hlen : c.ents.length = 2 * c.cap) (hpl : PreLaunch c st c2 e v s) (hvs : v.state ≠ .valid)
    (hvk : ∀ i ∈ live c, c.key i ≠ v.key) (m : Nat) :
    InvS (incref { c2 with misses := m } e) st ∧ (incref { c2 with misses := m } e).cap = c.cap ∧
      GetFrame c (incref { c2 with misses := m } e) ∧ e ∈ (incref { c2 with misses := m } e).F ∧
      (incref { c2 with misses := m } e).key e = v.key := by
  obtain ⟨hl2, hc2, helt, hinv, hdata, hvdata, hfr, habs2⟩ := hpl
  have he2 : e < ({ c2 with misses := m } : Cache).ents.length := by
    show e < c2.ents.length; rw [hl2]; exact helt
  have hv : c2.ent e = v := by
    have := congrArg (fun t => St.ent t e) habs2
    simpa using this
  have habs : abs (incref { c2 with misses := m } e) =
      St.setEnt { s with F := s.F ++ [e] } e { v with refcnt := v.refcnt + 1 } := by
    rw [abs_incref _ he2]
    show (abs c2).setEnt e { c2.ent e with refcnt := (c2.ent e).refcnt + 1 } = _
    rw [habs2, St.setEnt_setEnt, hv]
  have hlen' : (incref { c2 with misses := m } e).ents.length = c.ents.length := by
    simp [incref, hl2]
  generalize incref { c2 with misses := m } e = c' at habs hlen' ⊢
  have hcap : c'.cap = s.cap := congrArg St.cap habs
  have hB : c'.B = s.B := congrArg St.B habs
  have hP : c'.P = s.P := congrArg St.P habs
  have hF : c'.F = s.F ++ [e] := congrArg St.F habs
  have hent : ∀ j, c'.ent j = if j = e then { v with refcnt := v.refcnt + 1 } else s.ent j :=
    fun j => congrArg (fun t => St.ent t j) habs
  have hscap : s.cap = c.cap := hfr.cap
  have hsF : s.F = c.F := hfr.F
  have henl : e ∉ s.B ++ s.P ++ s.F := hinv.not_live_of_fl (by simp)
  have hsame : ∀ i ∈ s.B ++ s.P ++ s.F, c'.ent i = c.ent i := by
    intro i hi
    have hne : i ≠ e := fun h => henl (h ▸ hi)
    rw [hent, if_neg hne]
    exact hfr.ent_live i hi
  have hsub : ∀ i ∈ s.B ++ s.P ++ s.F, i ∈ live c := by
    intro i hi
    unfold live
    rw [List.mem_append] at hi ⊢
    rcases hi with hi | hi
    · exact Or.inl (hfr.sub i hi)
    · exact Or.inr (hsF ▸ hi)
  have hfresh : ∀ i ∈ s.B ++ s.P ++ s.F, (s.ent i).key ≠ v.key := by
    intro i hi
    rw [hfr.ent_live i hi]
    exact hvk i (hsub i hi)
  have hI := InvH.launch hinv (v := { v with refcnt := v.refcnt + 1 }) hdata hvdata hvs
    (Nat.succ_ne_zero _) hfresh
  refine ⟨⟨by rw [hlen', hlen, hcap, hscap], habs ▸ hI⟩, hcap.trans hscap, ⟨?_, ?_⟩, ?_, ?_⟩
  · intro i hi
    unfold cached at hi ⊢
    rw [hB, hP] at hi
    have hl : i ∈ s.B ++ s.P ++ s.F := List.mem_append_left _ hi
    have := hsame i hl
    exact ⟨hfr.sub i hi, by simp [Cache.key, this], by simp [Cache.dataOf, this]⟩
  · intro i hi hr
    have hl : i ∈ s.B ++ s.P ++ s.F := by
      unfold live at hi
      rw [List.mem_append] at hi ⊢
      rcases hi with hi | hi
      · exact Or.inl (hfr.keep i hi hr)
      · exact Or.inr (hsF ▸ hi)
    have := hsame i hl
    refine ⟨?_, by simp [Cache.key, this], by simp [Cache.dataOf, this], by simp [Cache.refcnt, this]⟩
    unfold live
    rw [hB, hP, hF]
    simp only [List.mem_append] at hl ⊢
    rcases hl with hl | hl
    · exact Or.inl hl
    · exact Or.inr (Or.inl hl)
  · rw [hF]; simp
  · simp [Cache.key, hent]

theorem mem_cons_erase_iff {l : List Nat} {e : Nat} (he : e ∈ l) (i : Nat) :
    i ∈ e :: l.erase e ↔ i ∈ l := (List.perm_cons_erase he).mem_iff.symm

set_option maxHeartbeats 400000 in
/-- complete description of `cache_get_entry` on a state satisfying the invariant -/
theorem get_spec {c : Cache} {st : Prop} (h : InvS c st) (k : Nat) :
    ∃ c' o, get c k = .ok (c', o) ∧ InvS c' st ∧ c'.cap = c.cap ∧ GetFrame c c' ∧
      GetOut c k c' o := by
  have hlen := h.1
  have hI := h.2
  cases hP : c.P.find? (fun i => c.key i = k) with
  | some e =>
    have heP : e ∈ c.P := List.mem_of_find?_eq_some hP
    have hek : c.key e = k := by simpa using List.find?_some hP
    have helt : e < c.ents.length := by rw [hlen]; exact hI.lt_of_mem (by simp [heP])
    refine ⟨_, _, get_P hP, ?_, rfl, ?_, ?_⟩
    · refine ⟨by simp [incref, hlen], ?_⟩
      rw [abs_incref (c := { c with P := e :: c.P.erase e, hits := c.hits + 1 }) helt]
      refine InvH.update (InvH.hitP hI (e := e) heP) rfl rfl Iff.rfl ?_ ?_
      · intro _ _; simp
      · intro _ _; exact Nat.succ_ne_zero _
    · refine GetFrame.of_same ?_ rfl ?_
      · intro i
        unfold cached
        simp only [incref, modEnt_B, modEnt_P, List.mem_append]
        rw [mem_cons_erase_iff heP]
      · intro i
        have := incref_same { c with P := e :: c.P.erase e, hits := c.hits + 1 } e i
        exact ⟨this.1, this.2.1, this.2.2.1⟩
    · refine ⟨?_, hek, ?_⟩
      · unfold cached; simp [heP]
      · unfold cached; simp [incref]
  | none =>
  cases hB : c.B.reverse.find? (fun i => c.key i = k) with
  | some e =>
    have heB : e ∈ c.B := by simpa using List.mem_of_find?_eq_some hB
    have hek : c.key e = k := by simpa using List.find?_some hB
    have helt : e < c.ents.length := by rw [hlen]; exact hI.lt_of_mem (by simp [heB])
    refine ⟨_, _, get_B hP hB, ?_, rfl, ?_, ?_⟩
    · refine ⟨by simp [incref, hlen], ?_⟩
      rw [abs_incref (c := { c with B := c.B.erase e, P := e :: c.P, hits := c.hits + 1 }) helt]
      refine InvH.update (InvH.hitB hI (e := e) heB) rfl rfl Iff.rfl ?_ ?_
      · intro _ _; simp
      · intro _ _; exact Nat.succ_ne_zero _
    · refine GetFrame.of_same ?_ rfl ?_
      · intro i
        unfold cached
        simp only [incref, modEnt_B, modEnt_P, List.mem_append, List.mem_cons]
        have := mem_cons_erase_iff heB i
        simp only [List.mem_cons] at this
        rw [← this]
        grind
      · intro i
        have := incref_same { c with B := c.B.erase e, P := e :: c.P, hits := c.hits + 1 } e i
        exact ⟨this.1, this.2.1, this.2.2.1⟩
    · refine ⟨?_, hek, ?_⟩
      · unfold cached; simp [heB]
      · unfold cached; simp [incref]
  | none =>
  cases hF : c.F.find? (fun i => c.key i = k) with
  | some e =>
    have heF : e ∈ c.F := List.mem_of_find?_eq_some hF
    have hek : c.key e = k := by simpa using List.find?_some hF
    have helt : e < c.ents.length := by rw [hlen]; exact hI.lt_of_mem (by simp [heF])
    have hinv : (c.ent e).state ≠ .valid := hI.inflight_invalid e heF
    have habs : abs (incref { c.modEnt e (fun x => { x with state := .precious }) with
        misses := c.misses + 1 } e) =
        (abs c).setEnt e { c.ent e with state := .precious, refcnt := (c.ent e).refcnt + 1 } := by
      rw [abs_incref (c := { c.modEnt e (fun x => { x with state := .precious }) with
        misses := c.misses + 1 }) (by simpa using helt)]
      show (abs (c.modEnt e _)).setEnt e _ = _
      have hX : ({ c.modEnt e (fun x => { x with state := .precious }) with
          misses := c.misses + 1 } : Cache).ent e = { c.ent e with state := .precious } := by
        show (c.modEnt e _).ent e = _
        simp [ent_modEnt, helt]
      rw [abs_modEnt c _ helt, St.setEnt_setEnt, hX]
    have hsame : ∀ i, ((incref { c.modEnt e (fun x => { x with state := .precious }) with
        misses := c.misses + 1 } e).ent i).key = (c.ent i).key ∧
        ((incref { c.modEnt e (fun x => { x with state := .precious }) with
        misses := c.misses + 1 } e).ent i).data = (c.ent i).data ∧
        ((incref { c.modEnt e (fun x => { x with state := .precious }) with
        misses := c.misses + 1 } e).ent i).refcnt ≥ (c.ent i).refcnt := by
      intro i
      have h1 := incref_same { c.modEnt e (fun x => { x with state := .precious }) with
        misses := c.misses + 1 } e i
      have h2 : ((c.modEnt e (fun x => { x with state := .precious })).ent i).key = (c.ent i).key ∧
          ((c.modEnt e (fun x => { x with state := .precious })).ent i).data = (c.ent i).data ∧
          ((c.modEnt e (fun x => { x with state := .precious })).ent i).refcnt = (c.ent i).refcnt := by
        rw [ent_modEnt]; split
        · rename_i hh; rw [hh.1]; simp
        · simp
      exact ⟨h1.1.trans h2.1, h1.2.1.trans h2.2.1, h2.2.2 ▸ h1.2.2.1⟩
    refine ⟨_, _, get_F hP hB hF, ?_, rfl, ?_, ?_⟩
    · refine ⟨by simp [incref, hlen], ?_⟩
      rw [habs]
      refine InvH.update hI rfl rfl ?_ ?_ ?_
      · simp [hinv]
      · intro _ _; simp [heF]
      · intro _ _; exact Nat.succ_ne_zero _
    · exact GetFrame.of_same (fun i => Iff.rfl) rfl hsame
    · refine ⟨heF, ?_, Or.inl ⟨e, ?_, hek⟩⟩
      · have := (hsame e).1
        simp only [Cache.key] at hek ⊢
        rw [this, hek]
      · unfold live; simp [heF]
  | none =>
  have hnk := no_key_of_find hP hB hF
  by_cases hb : c.pinned + c.F.length ≥ c.cap
  · refine ⟨c, .busy, get_busy hP hB hF hb, h, rfl, ?_, rfl, hnk, hb⟩
    exact GetFrame.of_same (fun i => Iff.rfl) rfl (fun i => ⟨rfl, rfl, Nat.le_refl _⟩)
  · have hp : c.pinned + c.F.length < c.cap := by omega
    cases hGP : c.GP.find? (fun i => c.key i = k) with
    | some e =>
      have heG : e ∈ c.GP := List.mem_of_find?_eq_some hGP
      have hek : c.key e = k := by simpa using List.find?_some hGP
      obtain ⟨d, hget⟩ := get_GP hP hB hF hb hGP
      have h1 : InvS { c with dprobe := d } st := ⟨h.1, h.2⟩
      obtain ⟨c2, v, s, hgh, hpl, hvk, hvs⟩ := ghostHit_spec h1 (e := e) hp true heG
      have hpl' : PreLaunch c st c2 e v s := hpl.of_frame rfl rfl (FrameS.refl _)
      obtain ⟨hI', hcap', hfr', heF', hkey'⟩ := finish_miss hlen hpl' (by rw [hvs]; decide)
        (by rw [hvk]; exact fun i hi => hek ▸ hnk i hi) (c2.misses + 1)
      refine ⟨incref { c2 with misses := c2.misses + 1 } e, .entry e false, by rw [hget, hgh]; rfl,
        hI', hcap', hfr', heF', ?_, Or.inr hp⟩
      rw [hkey', hvk]; exact hek
    | none =>
    cases hGB : c.GB.reverse.find? (fun i => c.key i = k) with
    | some e =>
      have heG : e ∈ c.GB := by simpa using List.mem_of_find?_eq_some hGB
      have hek : c.key e = k := by simpa using List.find?_some hGB
      obtain ⟨d, hget⟩ := get_GB hP hB hF hb hGP hGB
      have h1 : InvS { c with dprobe := d } st := ⟨h.1, h.2⟩
      obtain ⟨c2, v, s, hgh, hpl, hvk, hvs⟩ := ghostHit_spec h1 (e := e) hp false heG
      have hpl' : PreLaunch c st c2 e v s := hpl.of_frame rfl rfl (FrameS.refl _)
      obtain ⟨hI', hcap', hfr', heF', hkey'⟩ := finish_miss hlen hpl' (by rw [hvs]; decide)
        (by rw [hvk]; exact fun i hi => hek ▸ hnk i hi) (c2.misses + 1)
      refine ⟨incref { c2 with misses := c2.misses + 1 } e, .entry e false, by rw [hget, hgh]; rfl,
        hI', hcap', hfr', heF', ?_, Or.inr hp⟩
      rw [hkey', hvk]; exact hek
    | none =>
      obtain ⟨c2, e, v, s, hm, hpl, hvk, hvs⟩ := missed_spec h hp k
      obtain ⟨hI', hcap', hfr', heF', hkey'⟩ := finish_miss hlen hpl (by rw [hvs]; decide)
        (by rw [hvk]; exact hnk) (c2.misses + 1)
      refine ⟨incref { c2 with misses := c2.misses + 1 } e, .entry e false,
        by rw [get_miss hP hB hF hb hGP hGB, hm]; rfl, hI', hcap', hfr', heF', ?_, Or.inr hp⟩
      rw [hkey', hvk]

/-- what every operation leaves alone: entries that are cached afterwards have the key and
the buffer they had before -/
def StepFrame (c c' : Cache) : Prop :=
  ∀ i ∈ cached c', c'.key i = c.key i ∧ c'.dataOf i = c.dataOf i

theorem modEnt_same (c : Cache) (e : Nat) (f : Entry → Entry)
    (hk : ∀ x, (f x).key = x.key) (hd : ∀ x, (f x).data = x.data) (i : Nat) :
    (c.modEnt e f).key i = c.key i ∧ (c.modEnt e f).dataOf i = c.dataOf i := by
  unfold Cache.key Cache.dataOf
  rw [ent_modEnt]
  split
  · rename_i h; rw [h.1]; exact ⟨hk _, hd _⟩
  · exact ⟨rfl, rfl⟩

set_option maxHeartbeats 400000 in
theorem insert_spec {c : Cache} {st : Prop} (h : InvS c st) {e : Nat} {c' : Cache} {o : Out}
    (hs : insert c e = .ok (c', o)) : InvS c' st ∧ StepFrame c c' := by
  have hlen := h.1
  have hI := h.2
  unfold Kdf.Model.Cache.insert at hs
  split at hs
  · simp only [Except.ok.injEq, Prod.mk.injEq] at hs
    obtain ⟨rfl, -⟩ := hs
    exact ⟨h, fun i _ => ⟨rfl, rfl⟩⟩
  · split at hs
    · rename_i hnv heF
      simp only [Except.ok.injEq, Prod.mk.injEq] at hs
      obtain ⟨rfl, -⟩ := hs
      have helt : e < c.ents.length := by rw [hlen]; exact hI.lt_of_mem (by simp [heF])
      refine ⟨⟨?_, ?_⟩, ?_⟩
      · rw [modEnt_len]; split <;> exact hlen
      · split
        · rw [abs_modEnt (c := { c with F := c.F.erase e, B := c.B ++ [e] }) _ helt]
          exact InvH.insertB hI heF
        · rw [abs_modEnt (c := { c with F := c.F.erase e, P := e :: c.P }) _ helt]
          exact InvH.insertP hI heF
      · intro i _
        split
        · exact modEnt_same { c with F := c.F.erase e, B := c.B ++ [e] } e
            (fun x => { x with state := .valid }) (fun _ => rfl) (fun _ => rfl) i
        · exact modEnt_same { c with F := c.F.erase e, P := e :: c.P } e
            (fun x => { x with state := .valid }) (fun _ => rfl) (fun _ => rfl) i
    · cases hs

theorem refcnt_lt_len {c : Cache} {e : Nat} (hr : c.refcnt e ≠ 0) : e < c.ents.length := by
  apply Classical.byContradiction
  intro hn
  have := ent_default c (Nat.le_of_not_lt hn)
  apply hr
  simp only [Cache.refcnt, this]
  rfl

set_option maxHeartbeats 400000 in
theorem put_spec {c : Cache} {st : Prop} (h : InvS c st) {e : Nat} {c' : Cache} {o : Out}
    (hs : put c e = .ok (c', o)) (hput : st → e ∈ c.F → c.refcnt e ≠ 1) :
    InvS c' st ∧ StepFrame c c' := by
  have hlen := h.1
  have hI := h.2
  unfold Kdf.Model.Cache.put at hs
  split at hs
  · cases hs
  · rename_i hr
    simp only [Except.ok.injEq, Prod.mk.injEq] at hs
    obtain ⟨rfl, -⟩ := hs
    have helt := refcnt_lt_len hr
    refine ⟨⟨by rw [modEnt_len]; exact hlen, ?_⟩, fun i _ => modEnt_same c e (fun x => { x with refcnt := x.refcnt - 1 }) (fun _ => rfl) (fun _ => rfl) i⟩
    rw [abs_modEnt c _ helt]
    refine InvH.update hI rfl rfl Iff.rfl ?_ ?_
    · intro _ hlt; exact hI.ref_live e hlt hr
    · intro hst heF
      have := hput hst heF
      simp only [Cache.refcnt] at this hr ⊢
      omega

set_option maxHeartbeats 400000 in
theorem discard_spec {c : Cache} {st : Prop} (h : InvS c st) {e : Nat} {c' : Cache} {o : Out}
    (hs : discard c e = .ok (c', o)) : InvS c' st ∧ StepFrame c c' := by
  have hlen := h.1
  have hI := h.2
  unfold Kdf.Model.Cache.discard at hs
  split at hs
  · cases hs
  · rename_i hr
    have helt := refcnt_lt_len hr
    have hent : (c.modEnt e (fun x => { x with refcnt := x.refcnt - 1 })).ent e =
        { c.ent e with refcnt := (c.ent e).refcnt - 1 } := by simp [ent_modEnt, helt]
    have habs := abs_modEnt c (fun x => { x with refcnt := x.refcnt - 1 }) helt
    have hsf : StepFrame c (c.modEnt e (fun x => { x with refcnt := x.refcnt - 1 })) :=
      fun i _ => modEnt_same c e (fun x => { x with refcnt := x.refcnt - 1 }) (fun _ => rfl) (fun _ => rfl) i
    simp only [] at hs
    split at hs
    · rename_i hr1
      simp only [Except.ok.injEq, Prod.mk.injEq] at hs
      obtain ⟨rfl, -⟩ := hs
      refine ⟨⟨by rw [modEnt_len]; exact hlen, ?_⟩, hsf⟩
      rw [habs]
      refine InvH.update hI rfl rfl Iff.rfl ?_ ?_
      · intro _ hlt; exact hI.ref_live e hlt hr
      · intro _ _
        simpa [Cache.refcnt, hent] using hr1
    · rename_i hr1
      split at hs
      · rename_i hv
        simp only [Except.ok.injEq, Prod.mk.injEq] at hs
        obtain ⟨rfl, -⟩ := hs
        refine ⟨⟨by rw [modEnt_len]; exact hlen, ?_⟩, hsf⟩
        rw [habs]
        refine InvH.update hI rfl rfl Iff.rfl ?_ ?_
        · intro _ hlt; exact hI.ref_live e hlt hr
        · intro _ heF
          exfalso
          rw [hent] at hv
          exact hI.inflight_invalid e heF hv
      · split at hs
        · rename_i heF
          simp only [Except.ok.injEq, Prod.mk.injEq] at hs
          obtain ⟨rfl, -⟩ := hs
          simp only [modEnt_F] at heF
          have hr0 : (c.ent e).refcnt - 1 = 0 := by
            simpa [Cache.refcnt, hent] using hr1
          refine ⟨⟨by show (c.modEnt e _).ents.length = _; rw [modEnt_len]; exact hlen, ?_⟩, ?_⟩
          · have := InvH.discardF hI heF
            have he2 : abs { c.modEnt e (fun x => { x with refcnt := x.refcnt - 1 }) with
                F := c.F.erase e, U := c.U ++ [e] } =
                St.setEnt { abs c with F := (abs c).F.erase e, U := (abs c).U ++ [e] } e
                  { (abs c).ent e with refcnt := 0 } := by
              unfold abs St.setEnt
              simp only [St.mk.injEq, true_and, and_true, modEnt_cap, modEnt_GB, modEnt_B, modEnt_P,
                modEnt_GP]
              funext j
              show (c.modEnt e _).ent j = _
              rw [ent_modEnt]
              by_cases hj : j = e
              · subst hj; simp [helt, hr0]
              · simp [hj]
            exact he2 ▸ this
          · intro i _
            exact modEnt_same c e (fun x => { x with refcnt := x.refcnt - 1 }) (fun _ => rfl) (fun _ => rfl) i
        · cases hs

end Kdf.Lemmas.Cache
