import Kdf.Lemmas.Pfn
/-! Bit scans: byte-level facts (finite checks over all bytes). -/
namespace Kdf.Lemmas.Pfn
open Kdf.Model.Pfn

/-- LSB0 bit `t` of byte `b` -/
def tbL (b t : Nat) : Bool := b / 2^t % 2 = 1
/-- MSB0 bit `t` of byte `b` -/
def tbM (b t : Nat) : Bool := b / 2^(7 - t) % 2 = 1
def tbOf (msb0 : Bool) (b t : Nat) : Bool := if msb0 then tbM b t else tbL b t

theorem bitL_eq (bm : Bitmap) (i : Nat) : bitL bm i = tbL (byteAt bm (i/8)) (i%8) := rfl
theorem bitM_eq (bm : Bitmap) (i : Nat) : bitM bm i = tbM (byteAt bm (i/8)) (i%8) := rfl
theorem bitOf_eq (msb0 : Bool) (bm : Bitmap) (i : Nat) :
    bitOf msb0 bm i = tbOf msb0 (byteAt bm (i/8)) (i%8) := by
  cases msb0 <;> rfl

theorem byteAt_lt {bm : Bitmap} (hb : BytesWF bm) (j : Nat) : byteAt bm j < 256 := by
  unfold byteAt
  rw [List.getD_eq_getElem?_getD]
  by_cases h : j < bm.length
  · rw [List.getElem?_eq_getElem h]; exact hb _ (List.getElem_mem h)
  · rw [List.getElem?_eq_none (by omega)]; simp

/-- what a first-byte scan from bit `k` of byte `b` must return when looking for
the first bit equal to `want` -/
def FirstOK (bit : Nat → Nat → Bool) (want : Bool) (b k : Nat) : Option Nat → Prop
  | some c => k + c < 8 ∧ bit b (k+c) = want ∧ ∀ t, t < c → bit b (k+t) = !want
  | none => ∀ t, t < 8 → k ≤ t → bit b t = !want

instance (bit : Nat → Nat → Bool) (want : Bool) (b k : Nat) (o : Option Nat) :
    Decidable (FirstOK bit want b k o) :=
  match o with
  | some c => inferInstanceAs (Decidable (k + c < 8 ∧ bit b (k+c) = want ∧ ∀ t, t < c → bit b (k+t) = !want))
  | none => inferInstanceAs (Decidable (∀ t, t < 8 → k ≤ t → bit b t = !want))

def fbClearL (b k : Nat) : Option Nat := if b / 2^k ≠ 0 then some (ctz 8 (b / 2^k)) else none
def fbClearM (b k : Nat) : Option Nat := if b * 2^k % 256 ≠ 0 then some (clz8 (b * 2^k % 256)) else none
def fbSetL (b k : Nat) : Option Nat := if notSarByte b k ≠ 0 then some (ctz 8 (notSarByte b k)) else none
def fbSetM (b k : Nat) : Option Nat := if notShlByte b k ≠ 0 then some (clz8 (notShlByte b k)) else none

def hitClearL (b : Nat) : Option Nat := if b ≠ 0 then some (ctz 8 b) else none
def hitClearM (b : Nat) : Option Nat := if b ≠ 0 then some (clz8 b) else none
def hitSetL (b : Nat) : Option Nat := if b ≠ 255 then some (ctz 8 (255 - b)) else none
def hitSetM (b : Nat) : Option Nat := if b ≠ 255 then some (clz8 (255 - b)) else none

/-! Finite checks over all bytes and all bit offsets. -/
theorem fbClearL_ok : ∀ b, b < 256 → ∀ k, k < 8 → FirstOK tbL true b k (fbClearL b k) := by decide +kernel
theorem fbClearM_ok : ∀ b, b < 256 → ∀ k, k < 8 → FirstOK tbM true b k (fbClearM b k) := by decide +kernel
theorem fbSetL_ok : ∀ b, b < 256 → ∀ k, k < 8 → FirstOK tbL false b k (fbSetL b k) := by decide +kernel
theorem fbSetM_ok : ∀ b, b < 256 → ∀ k, k < 8 → FirstOK tbM false b k (fbSetM b k) := by decide +kernel
theorem hitClearL_ok : ∀ b, b < 256 → FirstOK tbL true b 0 (hitClearL b) := by decide +kernel
theorem hitClearM_ok : ∀ b, b < 256 → FirstOK tbM true b 0 (hitClearM b) := by decide +kernel
theorem hitSetL_ok : ∀ b, b < 256 → FirstOK tbL false b 0 (hitSetL b) := by decide +kernel
theorem hitSetM_ok : ∀ b, b < 256 → FirstOK tbM false b 0 (hitSetM b) := by decide +kernel


end Kdf.Lemmas.Pfn
