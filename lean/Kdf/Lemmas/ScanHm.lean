import Kdf.Lemmas.ScanLm
/-! C08: the descending scanner (`highest_mapped`). -/
namespace Kdf.Lemmas.Scan
open Kdf.Model.Pgt Kdf.Model.Scan Kdf.Model.PgtArch Kdf.Spec.ArchWalk Kdf.Lemmas.Pgt

/-- postcondition of a descending scan started at `va` inside a table of span `T`; in the
"not present" case `e` is the lowest address that was covered and the returned address is
`e - 1` (mod `2^64`) -/
def predW (e : Nat) : Nat := (e + W - 1) % W

def PostD (Q : Nat → Prop) (OkP : Nat → Step → Prop) (ErrP : XStatus → Nat → Prop)
    (limit T va : Nat) : Res → Prop
  | .done st a s =>
    if st = .ok then a ≤ va ∧ limit ≤ a ∧ OkP a s ∧ ∀ x, a < x → x ≤ va → Q x
    else if st = .notpresent then
      ∃ e, a = predW e ∧ (∀ x, e ≤ x → x ≤ va → limit ≤ x → Q x) ∧
        (e = va / T * T ∨ (e ≤ limit ∧ 0 < e))
    else a ≤ va ∧ limit ≤ a ∧ ErrP st a ∧ ∀ x, a < x → x ≤ va → Q x
  | .fuel => False
  | .undef => False

section
variable {Q : Nat → Prop} {OkP : Nat → Step → Prop} {ErrP : XStatus → Nat → Prop}

theorem postD_ok {limit T va a : Nat} {s : Step} :
    PostD Q OkP ErrP limit T va (.done .ok a s) ↔
      (a ≤ va ∧ limit ≤ a ∧ OkP a s ∧ ∀ x, a < x → x ≤ va → Q x) := by
  simp [PostD]

theorem postD_np {limit T va a : Nat} {s : Step} :
    PostD Q OkP ErrP limit T va (.done .notpresent a s) ↔
      ∃ e, a = predW e ∧ (∀ x, e ≤ x → x ≤ va → limit ≤ x → Q x) ∧
        (e = va / T * T ∨ (e ≤ limit ∧ 0 < e)) := by
  simp [PostD]

theorem postD_err {limit T va a : Nat} {s : Step} {st : XStatus} (h1 : st ≠ .ok)
    (h2 : st ≠ .notpresent) :
    PostD Q OkP ErrP limit T va (.done st a s) ↔
      (a ≤ va ∧ limit ≤ a ∧ ErrP st a ∧ ∀ x, a < x → x ≤ va → Q x) := by
  simp [PostD, h1, h2]

theorem postD_extend {limit T va a : Nat} {res : Res} (hp : PostD Q OkP ErrP limit T a res)
    (hT : a / T = va / T) (hle : a ≤ va) (hq : ∀ x, a < x → x ≤ va → limit ≤ x → Q x) :
    PostD Q OkP ErrP limit T va res := by
  cases res with
  | fuel => exact hp
  | undef => exact hp
  | done st a' s =>
    by_cases h1 : st = .ok
    · subst h1
      rw [postD_ok] at hp ⊢
      obtain ⟨h2, h3, h4, h5⟩ := hp
      refine ⟨by omega, h3, h4, fun x hx1 hx2 => ?_⟩
      by_cases hxa : a < x
      · exact hq x hxa hx2 (by omega)
      · exact h5 x hx1 (by omega)
    · by_cases h2 : st = .notpresent
      · subst h2
        rw [postD_np] at hp ⊢
        obtain ⟨e, he1, he2, he3⟩ := hp
        refine ⟨e, he1, fun x hx1 hx2 hx3 => ?_, by rw [← hT]; exact he3⟩
        by_cases hxa : a < x
        · exact hq x hxa hx2 hx3
        · exact he2 x hx1 (by omega) hx3
      · rw [postD_err h1 h2] at hp ⊢
        obtain ⟨h3, h4, h5, h6⟩ := hp
        refine ⟨by omega, h4, h5, fun x hx1 hx2 => ?_⟩
        by_cases hxa : a < x
        · exact hq x hxa hx2 (by omega)
        · exact h6 x hx1 (by omega)

theorem postD_T {limit T T' va a : Nat} {s : Step} {st : XStatus}
    (hp : PostD Q OkP ErrP limit T va (.done st a s)) (h : st ≠ .notpresent) :
    PostD Q OkP ErrP limit T' va (.done st a s) := by
  by_cases h1 : st = .ok
  · subst h1; rw [postD_ok] at hp ⊢; exact hp
  · rw [postD_err h1 h] at hp ⊢; exact hp

end

/-! ## the state of the previous entry of the same table -/

/-- what `highest_mapped_tbl` writes into the lower indices -/
def vmax (pf : PagingForm) (i : Nat) : Nat := (tableSize pf i).getD 1 - 1

theorem vmax_eq {pf : PagingForm} (hpf : XF pf) (i : Nat) (hi : i < pf.fieldsz.length) :
    vmax pf i = 2^(pf.fieldsz.getD i 0) - 1 := by
  unfold vmax
  by_cases h0 : i = 0
  · subst h0; rw [xf_tableSize0 hpf, xf_fld0 hpf]; rfl
  · rw [xf_tableSize hpf i (by omega) hi, xf_fld hpf i (by omega) hi]; rfl

theorem not_bad {pf : PagingForm} (hpf : XF pf) (m : Nat) (hm : m ≤ pf.fieldsz.length) :
    (List.range m).any (fun i => (tableSize pf i).isNone) = false := by
  rw [List.any_eq_false]
  intro i hi
  rw [List.mem_range] at hi
  by_cases h0 : i = 0
  · subst h0; rw [xf_tableSize0 hpf]; simp
  · rw [xf_tableSize hpf i (by omega) (by omega)]; simp

theorem at_prev (c : Cfg) (hpf : XF c.pf) {addr r : Nat} {s : Step} (h : At c addr r s) (h2 : 2 ≤ r)
    (hn : r ≤ c.n) (hc : 1 ≤ idxAt s (r-1)) (my2 : Step)
    (hmy : my2 = setIdx (fillLow s (fun i => (tableSize c.pf i).getD 1 - 1)) (r-1) (idxAt s (r-1) - 1)) :
    At c (addr / 2^(c.sb (r-1)) * 2^(c.sb (r-1)) - 1) r my2 ∧
    (addr / 2^(c.sb (r-1)) * 2^(c.sb (r-1)) - 1) / 2^(c.sb r) = addr / 2^(c.sb r) ∧
    1 ≤ addr / 2^(c.sb (r-1)) * 2^(c.sb (r-1)) ∧
    (addr / 2^(c.sb (r-1)) * 2^(c.sb (r-1)) - 1) % 4096 = 4095 ∧
    idxAt my2 (r-1) = idxAt s (r-1) - 1 := by
  obtain ⟨hsb, h12, h64⟩ := sb_succ c hpf h2 hn
  have hcur := idx_cur c hpf h h2 hn
  have hn' : r ≤ c.pf.fieldsz.length := hn
  have hlen := xf_len hpf
  generalize hp : c.sb (r-1) = p at *
  generalize hq : addr / 2^p = q at *
  have hE : 0 < (2:Nat)^p := Nat.two_pow_pos p
  have hq1 : 1 ≤ q := by omega
  have hqE : 1 ≤ q * 2^p := Nat.mul_pos hq1 hE
  have heE : (q * 2^p - 1) / 2^p = q - 1 := by
    rw [div_range hE]
    have : q - 1 + 1 = q := by omega
    rw [this]
    have : (q - 1) * 2^p = q * 2^p - 2^p := by rw [Nat.sub_mul, Nat.one_mul]
    omega
  have hT : (q * 2^p - 1) / 2^(c.sb r) = addr / 2^(c.sb r) := by
    rw [hsb, Nat.pow_add, ← Nat.div_div_eq_div_mul, ← Nat.div_div_eq_div_mul, heE, hq]
    show (q-1) / 512 = q / 512
    omega
  have hidx2 : idxAt my2 (r-1) = idxAt s (r-1) - 1 := by
    rw [hmy, idxAt_setIdx, fillLow_len, h.len]
    have : r - 1 < 9 := by omega
    simp [this]
  have h4095 : (q * 2^p - 1) % 4096 = 4095 := by
    have := idx_low_ones q p 0 12 hq1 (by omega)
    simpa using this
  refine ⟨?_, hT, hqE, h4095, hidx2⟩
  refine ⟨by rw [hmy]; exact h.rem, ⟨by rw [hmy, setIdx_len, fillLow_len, h.len]; omega, ?_⟩,
    by rw [hmy, setIdx_len, fillLow_len, h.len], by rw [hmy]; exact h.esz, ?_⟩
  · intro i hi
    by_cases h1 : i = r - 1
    · rw [h1, hidx2, hcur]
      rw [show spanBits c.pf.fieldsz (r-1) = p from hp, heE, xf_fld hpf (r-1) (by omega) (by omega)]
      show q % 512 - 1 = (q - 1) % 512
      omega
    · rw [hmy, idxAt_setIdx, idxAt_fillLow, fillLow_len, h.rem, h.len]
      have hne : ¬ (i = r - 1 ∧ r - 1 < 9) := fun hh => h1 hh.1
      rw [if_neg hne]
      by_cases h3 : i < r - 1
      · have : i < r - 1 ∧ i < 9 := ⟨h3, by omega⟩
        rw [if_pos this, show (tableSize c.pf i).getD 1 - 1 = vmax c.pf i from rfl, vmax_eq hpf i hi]
        have hs1 := spanBits_succ c.pf.fieldsz i
        have hs2 : spanBits c.pf.fieldsz (i+1) ≤ spanBits c.pf.fieldsz (r-1) :=
          spanBits_mono _ (by omega)
        rw [show spanBits c.pf.fieldsz (r-1) = p from hp] at hs2
        exact (idx_low_ones q p _ _ hq1 (by omega)).symm
      · have : ¬ (i < r - 1 ∧ i < 9) := fun hh => h3 hh.1
        rw [if_neg this, h.inv.val i hi]
        have hs2 : spanBits c.pf.fieldsz r ≤ spanBits c.pf.fieldsz i := spanBits_mono _ (by omega)
        rw [div_high hT hs2]
  · intro x hx
    rw [hmy]
    exact h.base x (by rw [hx, hT])

theorem prev_bot (addr p : Nat) (h : addr / 2^p % 512 = 0) :
    addr / 2^p * 2^p = addr / 2^(p+9) * 2^(p+9) := by
  rw [Nat.pow_add, ← Nat.div_div_eq_div_mul]
  generalize addr / 2^p = q at *
  have : q = q / 2^9 * 2^9 := by
    show q = q / 512 * 512
    omega
  rw [Nat.mul_comm (2^p) (2^9), ← Nat.mul_assoc, ← this]

/-! ## the continuation `goto previous entry` -/

def contD (pf : PagingForm) (loop : Step → Nat → Res) (s : Step) (a' : Nat) : Res :=
  let bad := (List.range (s.remain - 1)).any (fun i => (tableSize pf i).isNone)
  if bad then .undef
  else
    let my1 := fillLow s (fun i => (tableSize pf i).getD 1 - 1)
    let i := s.remain - 1
    let cur := idxAt my1 i
    let my2 := setIdx my1 i ((cur + W - 1) % W)
    if cur = 0 then .done .notpresent a' s else loop my2 a'

theorem cont_postD (c : Cfg) (hpf : XF c.pf) (Q : Nat → Prop) (OkP : Nat → Step → Prop)
    (ErrP : XStatus → Nat → Prop) (limit : Nat) (addr r : Nat) (s : Step)
    (h : At c addr r s) (h2 : 2 ≤ r) (hn : r ≤ c.n) (hal : limit ≤ addr) (haW : addr < W) (k : Nat)
    (hk : idxAt s (r-1) < k + 1) (loop : Step → Nat → Res)
    (hloop : ∀ my a, At c a r my → limit ≤ a → a < W → a % 4096 = 4095 → idxAt my (r-1) < k →
      PostD Q OkP ErrP limit (2^(c.sb r)) a (loop my a))
    (hgt : 1 ≤ k → ∀ my a, a < limit → loop my a = .done .notpresent a my)
    (a' e : Nat) (ha' : a' = predW e) (hQ : ∀ x, e ≤ x → x ≤ addr → limit ≤ x → Q x)
    (he : e = addr / 2^(c.sb (r-1)) * 2^(c.sb (r-1)) ∨ (e ≤ limit ∧ 0 < e)) :
    PostD Q OkP ErrP limit (2^(c.sb r)) addr (contD c.pf loop s a') := by
  obtain ⟨hsb, h12, h64⟩ := sb_succ c hpf h2 hn
  have hcur := idx_cur c hpf h h2 hn
  have hn' : r ≤ c.pf.fieldsz.length := hn
  have hfl : idxAt (fillLow s (fun i => (tableSize c.pf i).getD 1 - 1)) (s.remain - 1) = idxAt s (r-1) := by
    rw [idxAt_fillLow, h.rem]; simp
  have hW : W = 18446744073709551616 := by simp [W]
  unfold contD
  rw [h.rem, not_bad hpf (r-1) (by omega)]
  simp only [Bool.false_eq_true, if_false]
  rw [h.rem] at hfl
  simp only [hfl]
  by_cases hz : idxAt s (r-1) = 0
  · rw [if_pos hz, postD_np]
    refine ⟨e, ha', hQ, ?_⟩
    rcases he with he | he
    · left
      rw [he, hsb]
      exact prev_bot addr _ (by rw [← hcur]; exact hz)
    · right; exact he
  · rw [if_neg hz]
    have hk1 : 1 ≤ k := by omega
    have hv : (idxAt s (r-1) + W - 1) % W = idxAt s (r-1) - 1 := by
      have : idxAt s (r-1) + W - 1 = (idxAt s (r-1) - 1) + W := by omega
      rw [this, Nat.add_mod_right]
      apply Nat.mod_eq_of_lt; omega
    rw [hv]
    obtain ⟨hat, hT, h1e, h4095, hidx2⟩ := at_prev c hpf h h2 hn (by omega) _ rfl
    have hpos : 0 < (2:Nat)^(c.sb (r-1)) := Nat.two_pow_pos _
    have hle : addr / 2^(c.sb (r-1)) * 2^(c.sb (r-1)) ≤ addr := ((div_range hpos).1 rfl).1
    have ha'e : 0 < e → e ≤ W → a' = e - 1 := by
      intro h0 h1
      have : e + W - 1 = (e - 1) + W := by omega
      rw [ha', predW, this, Nat.add_mod_right]
      apply Nat.mod_eq_of_lt; omega
    have hdone : ∀ my, e ≤ limit → 0 < e →
        PostD Q OkP ErrP limit (2^(c.sb r)) addr (loop my a') := by
      intro my h1 h3
      have hae := ha'e h3 (by omega)
      rw [hgt hk1 my a' (by omega), postD_np]
      exact ⟨e, ha', hQ, Or.inr ⟨h1, h3⟩⟩
    rcases he with he | he
    · have hae := ha'e (by rw [he]; exact h1e) (by rw [he]; omega)
      by_cases hel : limit ≤ e - 1
      · rw [hae, he]
        refine postD_extend (hloop _ _ hat (by rw [← he]; exact hel) (by omega) h4095
            (by rw [hidx2]; omega))
          hT (by omega) (fun x hx1 hx2 hx3 => hQ x (by rw [he]; omega) hx2 hx3)
      · exact hdone _ (by omega) (by rw [he]; exact h1e)
    · exact hdone _ he.1 he.2

/-! ## highest_mapped -/

def OkHm (c : Cfg) (a : Nat) (s : Step) : Prop := a % 4096 = 4095 ∧ G c a = .ok s.base

theorem hmLoop_succ (sf : StepFn) (pf : PagingForm) (limit tblmask : Nat) (rec : Step → Nat → Res)
    (k : Nat) (s : Step) (addr : Nat) :
    hmLoop sf pf limit tblmask rec (k+1) s s addr =
      if addr ≥ limit then
        match sf s with
        | .ok s1 =>
          if s1.remain ≤ 1 then
            match sf s1 with
            | .ok s2 => .done .ok addr s2
            | .error e => .done e addr s1
          else
            match rec s1 addr with
            | .done .notpresent addr' _ =>
              contD pf (fun my a => hmLoop sf pf limit tblmask rec k my my a) s addr'
            | r => r
        | .error .notpresent =>
          contD pf (fun my a => hmLoop sf pf limit tblmask rec k my my a) s
            ((andNot addr tblmask + W - 1) % W)
        | .error e => .done e addr s
      else .done .notpresent addr s := rfl

theorem entry_rangeD {addr x p : Nat} (h1 : addr / 2^p * 2^p ≤ x) (h2 : x ≤ addr) :
    x / 2^p = addr / 2^p := by
  have hpos : 0 < (2:Nat)^p := Nat.two_pow_pos p
  rw [div_range hpos]
  exact ⟨h1, Nat.lt_of_le_of_lt h2 ((div_range hpos).1 rfl).2⟩

theorem hmLoop_post (c : Cfg) (hpf : XF c.pf) (hmask : c.pteMask < W)
    (hmemok : ∀ as a sz, c.mem as a sz ≠ .error .ok) (limit : Nat) (r : Nat)
    (h2 : 2 ≤ r) (hn : r ≤ c.n) (rec : Step → Nat → Res)
    (hrec : 3 ≤ r → ∀ s1 a, At c a (r-1) s1 → limit ≤ a → a < W → a % 4096 = 4095 →
      PostD (NP c) (OkHm c) (ErrG c) limit (2^(c.sb (r-1))) a (rec s1 a)) :
    ∀ k s addr, At c addr r s → limit ≤ addr → addr < W → addr % 4096 = 4095 → idxAt s (r-1) < k →
      PostD (NP c) (OkHm c) (ErrG c) limit (2^(c.sb r)) addr
        (hmLoop c.sf c.pf limit (2^(c.sb (r-1)) - 1) rec k s s addr) := by
  intro k
  induction k with
  | zero => intro s addr h hal _ _ hk; omega
  | succ k ih =>
    intro s addr h hal haW h4095 hk
    rw [hmLoop_succ, if_pos hal]
    obtain ⟨hsb, h12, h64⟩ := sb_succ c hpf h2 hn
    have hgt : 1 ≤ k → ∀ my a, a < limit →
        (fun my a => hmLoop c.sf c.pf limit (2^(c.sb (r-1)) - 1) rec k my my a) my a =
          .done .notpresent a my := by
      intro hk1 my a hla
      obtain ⟨k', rfl⟩ : ∃ k', k = k' + 1 := ⟨k - 1, by omega⟩
      show hmLoop c.sf c.pf limit (2^(c.sb (r-1)) - 1) rec (k'+1) my my a = _
      rw [hmLoop_succ, if_neg (by omega)]
    have hcont := cont_postD c hpf (NP c) (OkHm c) (ErrG c) limit addr r s h h2 hn hal haW k
      (by omega) (fun my a => hmLoop c.sf c.pf limit (2^(c.sb (r-1)) - 1) rec k my my a)
      (fun my a h1 h3 h4 h5 h6 => ih my a h1 h3 h4 h5 h6) hgt
    rcases stepCase c hpf hmask hmemok addr r s h h2 hn with ⟨e, hsf, hne, hall⟩ | ⟨s1, s2, h1, hr, h2', hall, hva⟩ | ⟨s1, h1, hat, hr⟩
    · rw [hsf]
      cases e with
      | ok => exact absurd rfl hne
      | notpresent =>
        simp only []
        refine hcont _ _ (by rw [predW, andNot, and_not_mask addr _ haW (by omega)])
          (fun x hx1 hx2 _ => ?_) (Or.inl rfl)
        exact hall x (entry_rangeD hx1 hx2)
      | _ =>
        simp only []
        rw [postD_err (by simp) (by simp)]
        exact ⟨Nat.le_refl _, hal, hall addr rfl, fun x hx1 hx2 => by omega⟩
    · rw [h1]
      simp only [hr, Nat.le_refl, if_true, h2']
      rw [postD_ok]
      exact ⟨Nat.le_refl _, hal, ⟨h4095, hva⟩, fun x hx1 hx2 => by omega⟩
    · rw [h1]
      have hrem : ¬ s1.remain ≤ 1 := by rw [hat.rem]; omega
      simp only [hrem, if_false]
      have hp := hrec hr s1 addr hat hal haW h4095
      generalize rec s1 addr = res at hp
      cases res with
      | fuel => exact hp.elim
      | undef => exact hp.elim
      | done st a s' =>
        cases st with
        | notpresent =>
          simp only []
          rw [postD_np] at hp
          obtain ⟨e, he1, he2, he3⟩ := hp
          exact hcont a e he1 he2 he3
        | _ =>
          simp only []
          exact postD_T hp (by simp)

theorem hmTbl_post (c : Cfg) (hpf : XF c.pf) (hmask : c.pteMask < W)
    (hmemok : ∀ as a sz, c.mem as a sz ≠ .error .ok) (limit : Nat) :
    ∀ d r s addr, At c addr r s → 2 ≤ r → r ≤ c.n → r ≤ d → limit ≤ addr → addr < W →
      addr % 4096 = 4095 →
      PostD (NP c) (OkHm c) (ErrG c) limit (2^(c.sb r)) addr (hmTbl c.sf c.pf limit d s addr) := by
  intro d
  induction d with
  | zero => intro r s addr _ h2 _ hd; omega
  | succ d ih =>
    intro r s addr h h2 hn hd hal haW h4095
    have hn' : r ≤ c.pf.fieldsz.length := hn
    have hne : ¬ r = 0 := by omega
    have hmask' : tableMask c.pf (r-1) = 2^(c.sb (r-1)) - 1 :=
      tableMask_eq _ _ (by have := sb_succ c hpf h2 hn; have : c.sb (r-1) = spanBits c.pf.fieldsz (r-1) := rfl; omega)
    have hidx := idx_cur c hpf h h2 hn
    rw [hmTbl]
    simp only [h.rem, hne, if_false, xf_tableSize hpf (r-1) (by omega) (by omega), hmask']
    exact hmLoop_post c hpf hmask hmemok limit r h2 hn _
      (fun hr s1 a hat hal' haW' h40 =>
        ih (r-1) s1 a hat (by omega) (by omega) (by omega) hal' haW' h40)
      513 s addr h hal haW h4095 (by omega)

end Kdf.Lemmas.Scan
