import Kdf.Model.Hist
import Kdf.Lemmas.Cache
import Kdf.Lemmas.CacheStep
/-!
Helper lemmas for C04, section 1 (the page cache composed with a fill function), part 1:
the definitions of the property file and exact bookkeeping of the in-flight list and of the
reference counts through the operations of the C06 model (no invariant needed).
-/
set_option linter.unusedSimpArgs false
set_option linter.unusedVariables false
namespace Kdf.Lemmas.Hist
open Kdf.Model.Cache Kdf.Model.Hist Kdf.Lemmas.Cache Kdf.Lemmas.CacheList

/-! ### Definitions used by `Kdf/Props/C04.lean`, section 1 -/

/-- the extra invariant: a valid entry's buffer holds `f key` -/
def Coh {V E : Type} (f : Nat → Except E V) (s : PCache V) : Prop :=
  ∀ i ∈ cached s.c, ∃ d v, s.c.dataOf i = some d ∧ s.content d = some v ∧ f (s.c.key i) = .ok v

/-- invariant of the composition: C06's invariant, every buffer of the cache exists, and
coherence with `f` -/
def PInv {V E : Type} (f : Nat → Except E V) (s : PCache V) : Prop :=
  Inv s.c ∧ s.c.cap ≤ s.buf.length ∧ Coh f s

/-- the state between two calls of a single-threaded history: nothing is in flight -/
def QInv {V E : Type} (f : Nat → Except E V) (s : PCache V) : Prop := PInv f s ∧ s.c.F = []

/-- C06's busy rule: the key is neither cached nor in flight and every buffer is
referenced or being filled -/
def BusyRule (c : Cache) (k : Nat) : Prop :=
  k ∉ (live c).map c.key ∧ c.pinned + c.F.length ≥ c.cap

/-- histories without outstanding pins (only complete accesses and resizes) -/
def noPins : List HOp → Prop
  | [] => True
  | .read _ :: ops => noPins ops
  | .resize _ :: ops => noPins ops
  | _ :: _ => False

/-! ### Reference counts through `modEnt` -/

theorem refcnt_modEnt_same (c : Cache) (e : Nat) (f : Entry → Entry)
    (hf : ∀ x, (f x).refcnt = x.refcnt) (j : Nat) : (c.modEnt e f).refcnt j = c.refcnt j := by
  unfold Cache.refcnt
  rw [ent_modEnt]
  split
  · rename_i h; rw [h.1]; exact hf _
  · rfl

theorem refcnt_modEnt_le (c : Cache) (e : Nat) (f : Entry → Entry) (n : Nat)
    (hf : ∀ x, (f x).refcnt ≤ x.refcnt + n) (j : Nat) :
    (c.modEnt e f).refcnt j ≤ c.refcnt j + (if j = e then n else 0) := by
  unfold Cache.refcnt
  rw [ent_modEnt]
  split
  · rename_i h; rw [h.1]; simp only [if_true]; exact hf _
  · exact Nat.le_add_right _ _

theorem refcnt_of_ents {c c' : Cache} (h : c'.ents = c.ents) (j : Nat) : c'.refcnt j = c.refcnt j := by
  unfold Cache.refcnt Cache.ent; rw [h]

/-- strips one refcount-preserving `modEnt` from the left-hand side of the goal -/
macro "strip_modEnt" : tactic =>
  `(tactic| (refine (refcnt_modEnt_same _ _ _ ?_ _).trans ?_; exact fun _ => rfl))

/-- reference counts grow by at most one, and only at `e` -/
def RefLe (c c' : Cache) (e : Nat) : Prop :=
  ∀ j, c'.refcnt j ≤ c.refcnt j + (if j = e then 1 else 0)

theorem incref_refLe (c : Cache) (e : Nat) : RefLe c (incref c e) e :=
  fun j => refcnt_modEnt_le c e _ 1 (fun _ => Nat.le_refl _) j

/-! ### The internal primitives leave the in-flight list and the reference counts alone -/

theorem evictEntry_track {c c' : Cache} {bias z : Nat} (h : evictEntry c bias = .ok (c', z)) :
    c'.F = c.F ∧ c'.ents = c.ents := by
  obtain ⟨-, ⟨-, rfl⟩ | ⟨-, rfl⟩⟩ := evictEntry_spec h <;> exact ⟨rfl, rfl⟩

theorem reclaimData_track {c c1 : Cache} {d : Option Nat} (h : reclaimData c = .ok (c1, d)) :
    c1.F = c.F ∧ ∀ j, c1.refcnt j = c.refcnt j := by
  unfold reclaimData at h
  split at h
  · split at h
    · cases h
    · simp only [Except.ok.injEq, Prod.mk.injEq] at h
      obtain ⟨rfl, -⟩ := h
      exact ⟨rfl, fun j => by strip_modEnt; rfl⟩
  · cases hev : evictEntry c 0 with
    | error x => rw [hev] at h; cases h
    | ok r =>
      obtain ⟨c', z⟩ := r
      rw [hev] at h
      simp only [bind, Except.bind, Except.ok.injEq, Prod.mk.injEq] at h
      obtain ⟨rfl, -⟩ := h
      obtain ⟨hF, he⟩ := evictEntry_track hev
      refine ⟨hF, fun j => ?_⟩
      strip_modEnt
      exact refcnt_of_ents he j

theorem ghostHit_track {c c2 : Cache} {e : Nat} {b : Bool} (h : ghostHit c e b = .ok c2) :
    c2.F = c.F ++ [e] ∧ ∀ j, c2.refcnt j = c.refcnt j := by
  unfold ghostHit at h
  cases hrd : reclaimData c with
  | error x => rw [hrd] at h; cases h
  | ok r =>
    obtain ⟨c1, d⟩ := r
    rw [hrd] at h
    simp only [bind, Except.bind, Except.ok.injEq] at h
    obtain ⟨hF, hr⟩ := reclaimData_track hrd
    subst h
    split
    · refine ⟨by show c1.F ++ [e] = _; rw [hF], fun j => ?_⟩
      show (c1.modEnt e _).refcnt j = _
      strip_modEnt; exact hr j
    · refine ⟨by show c1.F ++ [e] = _; rw [hF], fun j => ?_⟩
      show (c1.modEnt e _).refcnt j = _
      strip_modEnt; exact hr j

theorem missedTail_track {c1 c2 : Cache} {e e' k : Nat} (h : missedTail c1 e k = .ok (c2, e')) :
    e' = e ∧ c2.F = c1.F ++ [e] ∧ ∀ j, c2.refcnt j = c1.refcnt j := by
  unfold missedTail at h
  by_cases hnone : (c1.dataOf e).isNone = true
  · simp only [hnone, if_true] at h
    cases hev : evictEntry c1 1 with
    | error x => rw [hev] at h; cases h
    | ok r =>
      obtain ⟨c', z⟩ := r
      rw [hev] at h
      simp only [bind, Except.bind, pure, Except.pure, Except.ok.injEq, Prod.mk.injEq] at h
      obtain ⟨rfl, rfl⟩ := h
      obtain ⟨hF, he⟩ := evictEntry_track hev
      refine ⟨rfl, by show c'.F ++ [e] = _; rw [hF], fun j => ?_⟩
      show (((c'.modEnt e _).modEnt z _).modEnt e _).refcnt j = _
      strip_modEnt; strip_modEnt; strip_modEnt
      exact refcnt_of_ents he j
  · simp only [hnone, pure, Except.pure, bind, Except.bind, Except.ok.injEq, Prod.mk.injEq] at h
    obtain ⟨rfl, rfl⟩ := h
    refine ⟨rfl, rfl, fun j => ?_⟩
    show (c1.modEnt e _).refcnt j = _
    strip_modEnt; rfl

theorem missed_track {c c2 : Cache} {k e : Nat} (h : missed c k = .ok (c2, e)) :
    c2.F = c.F ++ [e] ∧ ∀ j, c2.refcnt j = c.refcnt j := by
  cases hUl : c.U.getLast? with
  | some u =>
    rw [missed_eq_U hUl] at h
    obtain ⟨rfl, hF, hr⟩ := missedTail_track h
    exact ⟨hF, hr⟩
  | none =>
    cases hGB : c.GB with
    | cons g rest =>
      rw [missed_eq_GB hUl hGB] at h
      obtain ⟨rfl, hF, hr⟩ := missedTail_track h
      exact ⟨hF, hr⟩
    | nil =>
      cases hGPl : c.GP.getLast? with
      | some g =>
        rw [missed_eq_GP hUl hGB hGPl] at h
        obtain ⟨rfl, hF, hr⟩ := missedTail_track h
        exact ⟨hF, hr⟩
      | none =>
        unfold missed at h
        simp only [hUl, hGB, hGPl] at h
        cases h

/-! ### `get`: where the entry comes from, what happens to `F` and to the reference counts -/

/-- bookkeeping of a lookup that hands out the entry `e` -/
def GetTrack (c : Cache) (k : Nat) (c' : Cache) : Out → Prop
  | .entry e true => c'.F = c.F ∧ RefLe c c' e ∧ ∃ X, c' = incref X e
  | .entry e false =>
      ((e ∈ c.F ∧ c'.F = c.F) ∨ (c'.F = c.F ++ [e] ∧ ∀ j ∈ live c, c.key j ≠ k)) ∧ RefLe c c' e ∧
        ∃ X, c' = incref X e
  | _ => True

theorem get_track {c c' : Cache} {k : Nat} {o : Out} (hs : get c k = .ok (c', o)) :
    GetTrack c k c' o := by
  cases hP : c.P.find? (fun i => c.key i = k) with
  | some e =>
    rw [get_P hP] at hs
    simp only [Except.ok.injEq, Prod.mk.injEq] at hs
    obtain ⟨rfl, rfl⟩ := hs
    exact ⟨rfl, incref_refLe { c with P := e :: c.P.erase e, hits := c.hits + 1 } e, _, rfl⟩
  | none =>
  cases hB : c.B.reverse.find? (fun i => c.key i = k) with
  | some e =>
    rw [get_B hP hB] at hs
    simp only [Except.ok.injEq, Prod.mk.injEq] at hs
    obtain ⟨rfl, rfl⟩ := hs
    exact ⟨rfl, incref_refLe { c with B := c.B.erase e, P := e :: c.P, hits := c.hits + 1 } e, _, rfl⟩
  | none =>
  cases hF : c.F.find? (fun i => c.key i = k) with
  | some e =>
    rw [get_F hP hB hF] at hs
    simp only [Except.ok.injEq, Prod.mk.injEq] at hs
    obtain ⟨rfl, rfl⟩ := hs
    refine ⟨Or.inl ⟨List.mem_of_find?_eq_some hF, rfl⟩, fun j => ?_, _, rfl⟩
    have h1 := incref_refLe { c.modEnt e (fun x => { x with state := .precious }) with
      misses := c.misses + 1 } e j
    have h2 : ({ c.modEnt e (fun x => { x with state := .precious }) with
        misses := c.misses + 1 } : Cache).refcnt j = c.refcnt j := by
      show (c.modEnt e _).refcnt j = _
      strip_modEnt; rfl
    rw [h2] at h1
    exact h1
  | none =>
  have hnk := no_key_of_find hP hB hF
  by_cases hb : c.pinned + c.F.length ≥ c.cap
  · rw [get_busy hP hB hF hb] at hs
    simp only [Except.ok.injEq, Prod.mk.injEq] at hs
    obtain ⟨rfl, rfl⟩ := hs
    trivial
  · cases hGP : c.GP.find? (fun i => c.key i = k) with
    | some e =>
      obtain ⟨d, hget⟩ := get_GP hP hB hF hb hGP
      rw [hget] at hs
      cases hgh : ghostHit { c with dprobe := d } e true with
      | error x => rw [hgh] at hs; cases hs
      | ok c2 =>
        rw [hgh] at hs
        simp only [Except.bind, Except.ok.injEq, Prod.mk.injEq] at hs
        obtain ⟨rfl, rfl⟩ := hs
        obtain ⟨hF2, hr2⟩ := ghostHit_track hgh
        refine ⟨Or.inr ⟨hF2, hnk⟩, fun j => ?_, _, rfl⟩
        have h1 := incref_refLe { c2 with misses := c2.misses + 1 } e j
        have h2 : ({ c2 with misses := c2.misses + 1 } : Cache).refcnt j = c.refcnt j := hr2 j
        rw [h2] at h1
        exact h1
    | none =>
    cases hGB : c.GB.reverse.find? (fun i => c.key i = k) with
    | some e =>
      obtain ⟨d, hget⟩ := get_GB hP hB hF hb hGP hGB
      rw [hget] at hs
      cases hgh : ghostHit { c with dprobe := d } e false with
      | error x => rw [hgh] at hs; cases hs
      | ok c2 =>
        rw [hgh] at hs
        simp only [Except.bind, Except.ok.injEq, Prod.mk.injEq] at hs
        obtain ⟨rfl, rfl⟩ := hs
        obtain ⟨hF2, hr2⟩ := ghostHit_track hgh
        refine ⟨Or.inr ⟨hF2, hnk⟩, fun j => ?_, _, rfl⟩
        have h1 := incref_refLe { c2 with misses := c2.misses + 1 } e j
        have h2 : ({ c2 with misses := c2.misses + 1 } : Cache).refcnt j = c.refcnt j := hr2 j
        rw [h2] at h1
        exact h1
    | none =>
      rw [get_miss hP hB hF hb hGP hGB] at hs
      cases hm : missed c k with
      | error x => rw [hm] at hs; cases hs
      | ok r =>
        obtain ⟨c2, e⟩ := r
        rw [hm] at hs
        simp only [Except.bind, Except.ok.injEq, Prod.mk.injEq] at hs
        obtain ⟨rfl, rfl⟩ := hs
        obtain ⟨hF2, hr2⟩ := missed_track hm
        refine ⟨Or.inr ⟨hF2, hnk⟩, fun j => ?_, _, rfl⟩
        have h1 := incref_refLe { c2 with misses := c2.misses + 1 } e j
        have h2 : ({ c2 with misses := c2.misses + 1 } : Cache).refcnt j = c.refcnt j := hr2 j
        rw [h2] at h1
        exact h1

end Kdf.Lemmas.Hist
