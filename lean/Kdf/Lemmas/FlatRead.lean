import Kdf.Lemmas.FlatDefs
/-! `flatmap_pread_flat` / `flatmap_get_chunk_flat` compute the point-wise value
through the segment map (C11 helper lemmas). -/
namespace Kdf.Lemmas.Flat
open Kdf.Model.Map Kdf.Model.Flat Kdf.Lemmas.Map

/-- `viaMap` for a suffix of the map laid out from `start` -/
def viaD (rs : Map) (offs : List Int) (f : File) (start p : Nat) : Nat :=
  let k := den rs start p
  if k = NONE then 0
  else match offAt offs k with
    | some o => f ((p : Int) + o).toNat % 256
    | none => 0

theorem viaMap_eq_viaD (m : Map) (offs : List Int) (f : File) (p : Nat) :
    viaMap m offs f p = viaD m offs f 0 p := rfl

theorem viaD_congr {rs rs' : Map} {offs : List Int} {f : File} {s s' p : Nat}
    (h : den rs s p = den rs' s' p) : viaD rs offs f s p = viaD rs' offs f s' p := by
  unfold viaD; rw [h]

theorem viaD_none {rs : Map} {offs : List Int} {f : File} {s p : Nat}
    (h : den rs s p = NONE) : viaD rs offs f s p = 0 := by
  unfold viaD; simp [h]

theorem viaD_some {rs : Map} {offs : List Int} {f : File} {s p : Nat} {o : Int}
    (h : den rs s p ≠ NONE) (ho : offAt offs (den rs s p) = some o) :
    viaD rs offs f s p = f ((p : Int) + o).toNat % 256 := by
  unfold viaD; simp [h, ho]

theorem map_range_split {α} (g : Nat → α) (len k : Nat) (hk : k ≤ len) :
    (List.range len).map g = (List.range k).map g ++ (List.range (len - k)).map (fun i => g (k + i)) := by
  have e : len = k + (len - k) := by omega
  conv => lhs; rw [e, List.range_add, List.map_append, List.map_map]
  rfl

theorem map_range_const {α} (g : Nat → α) (n : Nat) (c : α) (h : ∀ i, i < n → g i = c) :
    (List.range n).map g = List.replicate n c := by
  apply List.ext_getElem
  · simp
  · intro i h1 h2
    simp at h1
    simp [h _ h1]

theorem map_range_congr {α} (g g' : Nat → α) (n : Nat) (h : ∀ i, i < n → g i = g' i) :
    (List.range n).map g = (List.range n).map g' := by
  apply List.map_congr_left
  intro i hi
  exact h i (List.mem_range.mp hi)

theorem den_singleton_none (r : Range) (s p : Nat) (h : r.meth = NONE) : den [r] s p = NONE := by
  simp [den, h]

theorem total_zero {m : Map} (h : total m = 0) : m = [] := by
  cases m with
  | nil => rfl
  | cons x xs => simp at h

theorem preadLoop_via (offs : List Int) (f : File) :
    ∀ (rs : Map) (start off pos len : Nat),
      start + total rs = W → (len ≠ 0 → pos = start + off) →
      (∀ r rs', rs = r :: rs' → off ≤ r.endoff) → pos + len ≤ W → NoFullSeg rs →
      (∀ p, pos ≤ p → p < pos + len → den rs start p ≠ NONE →
        ∃ o, offAt offs (den rs start p) = some o ∧ 0 ≤ (p : Int) + o) →
      preadLoop offs f rs off pos len
        = .ok ((List.range len).map fun i => viaD rs offs f start (pos + i)) := by
  intro rs
  induction rs with
  | nil =>
    intro start off pos len _ _ _ _ _ _
    simp only [preadLoop]
    rw [map_range_const _ len 0]
    intro i _
    exact viaD_none rfl
  | cons r rs ih =>
    intro start off pos len htot hpos hoff hlen hfull hv
    have hW : W = 18446744073709551616 := rfl
    by_cases hl0 : len = 0
    · subst hl0; simp [preadLoop]
    have hpos := hpos hl0
    have hoff := hoff r rs rfl
    rw [total_cons] at htot
    unfold preadLoop
    simp only [hl0, if_false]
    by_cases hwrap : r.endoff + 1 = W ∧ off = 0
    · -- the range spans everything: it is a hole and `seglen = 0`
      obtain ⟨hr, ho⟩ := hwrap
      have hmeth : r.meth = NONE := hfull r (List.mem_cons_self) hr
      have hrs : rs = [] := total_zero (by omega)
      subst hrs
      have hs0 : (r.endoff + 1 + W - off) % W = 0 := by
        rw [ho, hr]; simp
      rw [hs0]
      simp only [hmeth, ne_eq, not_true, if_false]
      have : ¬ (0 > len) := by omega
      simp only [this, if_false, preadLoop, Nat.sub_zero, List.replicate_zero, List.nil_append]
      congr 1
      symm
      apply map_range_const
      intro i _
      exact viaD_none (den_singleton_none r _ _ hmeth)
    · have hs0 : (r.endoff + 1 + W - off) % W = r.endoff + 1 - off := by
        have : r.endoff + 1 + W - off = (r.endoff + 1 - off) + W := by omega
        rw [this, Nat.add_mod_right, Nat.mod_eq_of_lt]
        omega
      rw [hs0]
      generalize hsl : (if r.endoff + 1 - off > len then len else r.endoff + 1 - off) = seglen
      have hsl1 : seglen ≤ len := by split at hsl <;> omega
      have hsl2 : seglen ≤ r.endoff + 1 - off := by split at hsl <;> omega
      have hsl3 : seglen < len → seglen = r.endoff + 1 - off := by
        intro h; split at hsl <;> omega
      have hsl4 : 0 < seglen := by split at hsl <;> omega
      -- the recursive call
      have hrec := ih (start + r.endoff + 1) 0 (pos + seglen) (len - seglen) (by omega)
        (by intro h; have := hsl3 (by omega); omega) (by intros; omega) (by omega)
        (fun x hx => hfull x (List.mem_cons_of_mem _ hx))
        (by
          intro p hp1 hp2 hp3
          have hd : den (r :: rs) start p = den rs (start + r.endoff + 1) p := by
            have := hsl3 (by omega)
            have : ¬ p ≤ start + r.endoff := by omega
            simp [den, this]
          have := hv p (by omega) (by omega) (by rw [hd]; exact hp3)
          rw [hd] at this
          exact this)
      rw [hrec]
      have htail : (List.range (len - seglen)).map (fun i => viaD (r :: rs) offs f start (pos + (seglen + i)))
          = (List.range (len - seglen)).map (fun i => viaD rs offs f (start + r.endoff + 1) (pos + seglen + i)) := by
        apply map_range_congr
        intro i hi
        have e : pos + (seglen + i) = pos + seglen + i := by omega
        rw [e]
        apply viaD_congr
        have := hsl3 (by omega)
        have : ¬ pos + seglen + i ≤ start + r.endoff := by omega
        simp [den, this]
      have hhead : ∀ i, i < seglen → den (r :: rs) start (pos + i) = r.meth := by
        intro i hi
        have : pos + i ≤ start + r.endoff := by omega
        simp [den, this]
      rw [map_range_split (fun i => viaD (r :: rs) offs f start (pos + i)) len seglen hsl1, htail]
      by_cases hm : r.meth = NONE
      · simp only [hm, ne_eq, not_true, if_false]
        congr 2
        symm
        apply map_range_const
        intro i hi
        exact viaD_none (by rw [hhead i hi, hm])
      · simp only [ne_eq, hm, not_false_eq_true, if_true]
        have h0 : den (r :: rs) start pos = r.meth := hhead 0 hsl4
        obtain ⟨o, ho1, ho2⟩ := hv pos (by omega) (by omega) (by rw [h0]; exact hm)
        rw [h0] at ho1
        rw [ho1]
        have : ¬ ((pos : Int) + o < 0) := by omega
        simp only [this, if_false]
        congr 2
        unfold readFile
        apply map_range_congr
        intro i hi
        have hd := hhead i hi
        rw [viaD_some (by rw [hd]; exact hm) (by rw [hd]; exact ho1)]
        congr 2
        omega

theorem skip_spec : ∀ (m : Map) (start off : Nat), start + total m = W →
    ∃ rs off' start', skip m off = (rs, off') ∧ start' + total rs = W ∧
      start + off = start' + off' ∧ start ≤ start' ∧
      (∀ r rs', rs = r :: rs' → off' ≤ r.endoff) ∧
      (∀ p, start' ≤ p → den m start p = den rs start' p) ∧ (∀ r, r ∈ rs → r ∈ m) := by
  intro m
  induction m with
  | nil =>
    intro start off h
    exact ⟨[], off, start, rfl, h, rfl, Nat.le_refl _, by intros; contradiction, by intros; rfl, by intros; assumption⟩
  | cons x xs ih =>
    intro start off h
    rw [total_cons] at h
    by_cases hgt : off > x.endoff
    · obtain ⟨rs, off', start', h1, h2, h3, h4, h5, h6, h7⟩ :=
        ih (start + x.endoff + 1) (off - (x.endoff + 1)) (by omega)
      refine ⟨rs, off', start', ?_, h2, by omega, by omega, h5, ?_, ?_⟩
      · simp [skip, hgt, h1]
      · intro p hp
        rw [← h6 p hp]
        have : ¬ p ≤ start + x.endoff := by omega
        simp [den, this]
      · intro r hr; exact List.mem_cons_of_mem _ (h7 r hr)
    · refine ⟨x :: xs, off, start, ?_, by rw [total_cons]; omega, rfl, Nat.le_refl _, ?_, by intros; rfl, by intros; assumption⟩
      · simp [skip, hgt]
      · intro r rs' hr
        cases hr
        omega

/-- For a well-formed map, `flatmap_pread_flat` delivers, byte by byte, the
value that the map and the offset array assign to each position; positions in
a hole (`NONE`) read as zero. -/
theorem preadFlat_via (m : Map) (offs : List Int) (f : File) (pos len : Nat)
    (hwf : WF m) (hfull : NoFullSeg m) (hlen : pos + len ≤ W) (hv : ValidOn m offs pos len) :
    preadFlat m offs f pos len = .ok ((List.range len).map fun i => viaMap m offs f (pos + i)) := by
  rcases hwf with hnil | htot
  · subst hnil
    simp only [preadFlat, skip, preadLoop]
    congr 1
    symm
    apply map_range_const
    intro i _
    rw [viaMap_eq_viaD]
    exact viaD_none rfl
  · obtain ⟨rs, off', start', h1, h2, h3, _, h5, h6, h7⟩ := skip_spec m 0 pos (by omega)
    unfold preadFlat
    rw [h1]
    simp only
    rw [preadLoop_via offs f rs start' off' pos len h2 (by intro; omega) h5 hlen
      (fun r hr => hfull r (h7 r hr))
      (by
        intro p hp1 hp2 hp3
        have hd := h6 p (by omega)
        rw [← hd] at hp3 ⊢
        exact hv p hp1 hp2 hp3)]
    congr 1
    apply map_range_congr
    intro i _
    rw [viaMap_eq_viaD]
    exact viaD_congr (h6 _ (by omega)).symm

/-- `flatmap_get_chunk_flat` delivers the same bytes, whichever branch it takes.
Validity is also required at `pos` itself when `len = 0`: the C code indexes
`offs[]` before it looks at `len`. -/
theorem getChunkFlat_via (m : Map) (offs : List Int) (f : File) (pos len : Nat)
    (hwf : WF m) (hfull : NoFullSeg m) (hlen : pos + len ≤ W) (hpos : pos < W)
    (hv : ValidOn m offs pos (max len 1)) :
    ∃ b, getChunkFlat m offs f pos len = .ok (b, (List.range len).map fun i => viaMap m offs f (pos + i)) := by
  have hv' : ValidOn m offs pos len := by
    intro p hp1 hp2 hp3
    exact hv p hp1 (by omega) hp3
  have hpf := preadFlat_via m offs f pos len hwf hfull hlen hv'
  have hW : W = 18446744073709551616 := rfl
  unfold getChunkFlat
  rcases hwf with hnil | htot
  · subst hnil
    simp only [skip]
    rw [hpf]
    exact ⟨false, rfl⟩
  · obtain ⟨rs, off', start', h1, h2, h3, _, h5, h6, h7⟩ := skip_spec m 0 pos (by omega)
    rw [h1]
    cases rs with
    | nil =>
      simp only
      rw [hpf]
      exact ⟨false, rfl⟩
    | cons r rs' =>
      simp only
      by_cases hc : r.meth ≠ NONE ∧ len ≤ (r.endoff + 1 + W - off') % W
      · rw [if_pos hc]
        obtain ⟨hm, hl⟩ := hc
        have hoff := h5 r rs' rfl
        rw [total_cons] at h2
        have hne : r.endoff + 1 ≠ W := fun h => hm (hfull r (h7 r List.mem_cons_self) h)
        have hs0 : (r.endoff + 1 + W - off') % W = r.endoff + 1 - off' := by
          have : r.endoff + 1 + W - off' = (r.endoff + 1 - off') + W := by omega
          rw [this, Nat.add_mod_right, Nat.mod_eq_of_lt]
          omega
        rw [hs0] at hl
        have hhead : ∀ i, i < max len 1 → den m 0 (pos + i) = r.meth := by
          intro i hi
          rw [h6 _ (by omega)]
          have : pos + i ≤ start' + r.endoff := by omega
          simp [den, this]
        have h0 : den m 0 pos = r.meth := hhead 0 (by omega)
        obtain ⟨o, ho1, ho2⟩ := hv pos (by omega) (by omega) (by rw [h0]; exact hm)
        rw [h0] at ho1
        rw [ho1]
        have : ¬ ((pos : Int) + o < 0) := by omega
        simp only [this, if_false]
        refine ⟨true, ?_⟩
        congr 2
        unfold readFile
        apply map_range_congr
        intro i hi
        have hd := hhead i (by omega)
        rw [viaMap_eq_viaD, viaD_some (by rw [hd]; exact hm) (by rw [hd]; exact ho1)]
        congr 2
        omega
      · rw [if_neg hc, hpf]
        exact ⟨false, rfl⟩

end Kdf.Lemmas.Flat
