import Kdf.Lemmas.CacheOps
/-!
Step-level consequences for the page-cache model (C06): preservation of the invariant, absence
of undefined behaviour, histories.
-/
set_option linter.unusedSimpArgs false
namespace Kdf.Lemmas.Cache
open Kdf.Model.Cache Kdf.Lemmas.CacheList

/-- all fields of `Inv` except `inflight_ref` -/
def WInv (c : Cache) : Prop := InvS c False

theorem inv_iff_winv (c : Cache) : Inv c ↔ WInv c ∧ ∀ i ∈ c.F, c.refcnt i ≠ 0 := by
  rw [inv_iff]
  constructor
  · intro h
    exact ⟨h.weaken (fun f => f.elim), h.2.inflight_ref trivial⟩
  · rintro ⟨h, hr⟩
    exact ⟨h.1, { h.2 with inflight_ref := fun _ => hr }⟩

theorem Inv.winv {c : Cache} (h : Inv c) : WInv c := ((inv_iff_winv c).1 h).1

theorem GetFrame.stepFrame {c c' : Cache} (h : GetFrame c c') : StepFrame c c' :=
  fun i hi => (h.cach i hi).2

theorem step_spec {c : Cache} {st : Prop} (h : InvS c st) {op : Op} {c' : Cache} {o : Out}
    (hs : step c op = .ok (c', o)) (hput : st → putOk c op) : InvS c' st ∧ StepFrame c c' := by
  cases op with
  | get k =>
    obtain ⟨c'', o', hg, hI, -, hfr, -⟩ := get_spec h k
    have : Kdf.Model.Cache.get c k = .ok (c', o) := hs
    rw [hg] at this
    simp only [Except.ok.injEq, Prod.mk.injEq] at this
    obtain ⟨rfl, rfl⟩ := this
    exact ⟨hI, hfr.stepFrame⟩
  | insert e => exact insert_spec h hs
  | put e => exact put_spec h hs hput
  | discard e => exact discard_spec h hs

theorem step_no_ub {c : Cache} {st : Prop} (h : InvS c st) (op : Op) (w : String) :
    step c op ≠ .error (.ub w) := by
  cases op with
  | get k =>
    obtain ⟨c'', o', hg, -⟩ := get_spec h k
    intro he
    have : Kdf.Model.Cache.get c k = .error (.ub w) := he
    rw [hg] at this
    cases this
  | insert e =>
    show Kdf.Model.Cache.insert c e ≠ _
    unfold Kdf.Model.Cache.insert
    split
    · intro h; cases h
    · split
      · intro h; cases h
      · intro h; cases h
  | put e =>
    show Kdf.Model.Cache.put c e ≠ _
    unfold Kdf.Model.Cache.put
    split <;> (intro h; cases h)
  | discard e =>
    show Kdf.Model.Cache.discard c e ≠ _
    unfold Kdf.Model.Cache.discard
    split
    · intro h; cases h
    · simp only []
      split
      · intro h; cases h
      · split
        · intro h; cases h
        · split <;> (intro h; cases h)

theorem run_inv {st : Prop} : ∀ (ops : List Op) (c c' : Cache), InvS c st → (st → runOk c ops) →
    run c ops = .ok c' → InvS c' st
  | [], c, c', h, _, hr => by
    simp only [run, Except.ok.injEq] at hr
    exact hr ▸ h
  | op :: ops, c, c', h, hok, hr => by
    unfold run at hr
    cases hs : step c op with
    | error e => rw [hs] at hr; cases hr
    | ok r =>
      obtain ⟨c1, o⟩ := r
      rw [hs] at hr
      simp only [] at hr
      have h1 := (step_spec h hs (fun x => (hok x).1)).1
      refine run_inv ops c1 c' h1 (fun x => ?_) hr
      have := (hok x).2
      rw [hs] at this
      exact this

theorem inv_unique_buffer {c : Cache} {st : Prop} (h : InvS c st) {i j : Nat} (hi : i < 2 * c.cap)
    (hj : j < 2 * c.cap) (hne : i ≠ j) {d : Nat} (hd : c.dataOf i = some d) : c.dataOf j ≠ some d := by
  have hb := h.2.bufs
  simp only [List.nil_append, abs_cap, abs_ent] at hb
  have hn : ((List.range (2 * c.cap)).filterMap (fun i => (c.ent i).data)).Nodup :=
    hb.nodup_iff.2 List.nodup_range
  exact filterMap_nodup_inj hn (List.mem_range.2 hi) (List.mem_range.2 hj) hne hd

/-- a refused lookup changes nothing (no invariant needed) -/
theorem get_busy_eq {c c' : Cache} {k : Nat} (hs : Kdf.Model.Cache.get c k = .ok (c', .busy)) :
    c' = c := by
  cases hP : c.P.find? (fun i => c.key i = k) with
  | some e => rw [get_P hP] at hs; cases hs
  | none =>
  cases hB : c.B.reverse.find? (fun i => c.key i = k) with
  | some e => rw [get_B hP hB] at hs; cases hs
  | none =>
  cases hF : c.F.find? (fun i => c.key i = k) with
  | some e => rw [get_F hP hB hF] at hs; cases hs
  | none =>
  by_cases hb : c.pinned + c.F.length ≥ c.cap
  · rw [get_busy hP hB hF hb] at hs
    simp only [Except.ok.injEq, Prod.mk.injEq, and_true] at hs
    exact hs.symm
  · cases hGP : c.GP.find? (fun i => c.key i = k) with
    | some e =>
      obtain ⟨d, hget⟩ := get_GP hP hB hF hb hGP
      rw [hget] at hs
      cases hgh : ghostHit { c with dprobe := d } e true with
      | error x => rw [hgh] at hs; cases hs
      | ok c2 => rw [hgh] at hs; simp only [Except.bind] at hs; cases hs
    | none =>
    cases hGB : c.GB.reverse.find? (fun i => c.key i = k) with
    | some e =>
      obtain ⟨d, hget⟩ := get_GB hP hB hF hb hGP hGB
      rw [hget] at hs
      cases hgh : ghostHit { c with dprobe := d } e false with
      | error x => rw [hgh] at hs; cases hs
      | ok c2 => rw [hgh] at hs; simp only [Except.bind] at hs; cases hs
    | none =>
      rw [get_miss hP hB hF hb hGP hGB] at hs
      cases hm : missed c k with
      | error x => rw [hm] at hs; cases hs
      | ok r => rw [hm] at hs; simp only [Except.bind] at hs; cases hs

end Kdf.Lemmas.Cache
