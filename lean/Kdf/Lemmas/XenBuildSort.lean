import Kdf.Lemmas.XenDefs
/-!
# C19 — generic facts about the insertion sort `sortBy` and small arithmetic helpers
-/
namespace Kdf.Lemmas.Xen
open Kdf.Model.Xen

theorem insertBy_perm {α : Type} (le : α → α → Bool) (x : α) (l : List α) :
    (insertBy le x l).Perm (x :: l) := by
  induction l with
  | nil => exact List.Perm.refl _
  | cons y ys ih =>
    simp only [insertBy]
    split
    · exact List.Perm.refl _
    · exact (List.Perm.cons y ih).trans (List.Perm.swap x y ys)

theorem sortBy_perm {α : Type} (le : α → α → Bool) (l : List α) :
    (sortBy le l).Perm l := by
  induction l with
  | nil => exact List.Perm.refl _
  | cons x xs ih =>
    simp only [sortBy]
    exact (insertBy_perm le x _).trans (List.Perm.cons x ih)

theorem mem_sortBy {α : Type} (le : α → α → Bool) (l : List α) (x : α) :
    x ∈ sortBy le l ↔ x ∈ l := (sortBy_perm le l).mem_iff

theorem insertBy_sorted {α : Type} (le : α → α → Bool)
    (htot : ∀ a b, le a b = true ∨ le b a = true)
    (htrans : ∀ a b c, le a b = true → le b c = true → le a c = true)
    (x : α) (l : List α) (h : l.Pairwise (fun a b => le a b = true)) :
    (insertBy le x l).Pairwise (fun a b => le a b = true) := by
  induction l with
  | nil => simp [insertBy]
  | cons y ys ih =>
    simp only [insertBy]
    rw [List.pairwise_cons] at h
    split
    · rename_i hxy
      rw [List.pairwise_cons]
      refine ⟨?_, List.pairwise_cons.mpr h⟩
      intro z hz
      rcases List.mem_cons.mp hz with rfl | hz
      · exact hxy
      · exact htrans _ _ _ hxy (h.1 z hz)
    · rename_i hxy
      rw [List.pairwise_cons]
      refine ⟨?_, ih h.2⟩
      intro z hz
      have hz' := (insertBy_perm le x ys).mem_iff.mp hz
      rcases List.mem_cons.mp hz' with rfl | hz'
      · rcases htot z y with h1 | h1
        · exact absurd h1 hxy
        · exact h1
      · exact h.1 z hz'

theorem sortBy_sorted {α : Type} (le : α → α → Bool)
    (htot : ∀ a b, le a b = true ∨ le b a = true)
    (htrans : ∀ a b c, le a b = true → le b c = true → le a c = true)
    (l : List α) : (sortBy le l).Pairwise (fun a b => le a b = true) := by
  induction l with
  | nil => simp [sortBy]
  | cons x xs ih =>
    simp only [sortBy]
    exact insertBy_sorted le htot htrans x _ ih

theorem W_eq : (W : Nat) = 18446744073709551616 := rfl

theorem wrap_of_lt (x : Int) (h0 : 0 ≤ x) (h1 : x < 18446744073709551616) : wrap x = x.toNat := by
  unfold wrap
  rw [W_eq]
  have : x % ((18446744073709551616 : Nat) : Int) = x := by omega
  rw [this]

theorem nodup_getElem?_inj {l : List Nat} (hnd : l.Nodup) {i j : Nat} {p : Nat}
    (hi : l[i]? = some p) (hj : l[j]? = some p) : i = j := by
  have hil : i < l.length := by
    rcases List.getElem?_eq_some_iff.mp hi with ⟨h, _⟩
    exact h
  exact (List.getElem?_inj hil hnd).mp (hi.trans hj.symm)

end Kdf.Lemmas.Xen
