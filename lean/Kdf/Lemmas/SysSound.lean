import Kdf.Model.Sys
/-!
# No failure carries the status OK — helper lemmas for C09

If the memory never fails "with status OK" (a `get_page` callback signals failure
by a status other than `ADDRXLAT_OK`), neither does a page-table walk, and
`addrxlat_op` never returns OK without having run the callback.
-/
namespace Kdf.Lemmas.SysSound
open Kdf.Model.Pgt Kdf.Model.Sys

/-- a result that is not "failed with status OK" -/
def NotOkErr {α} (r : Except XStatus α) : Prop := r ≠ .error .ok

def MemSound (mem : Mem) : Prop := ∀ as a s, NotOkErr (mem as a s)

theorem notOk_ok {α} (v : α) : NotOkErr (.ok v : Except XStatus α) := by simp [NotOkErr]
theorem notOk_pure {α} (v : α) : NotOkErr (pure v : Except XStatus α) := by simp [NotOkErr, pure, Except.pure]
theorem notOk_err {α} (e : XStatus) (h : e ≠ .ok) : NotOkErr (.error e : Except XStatus α) := by
  simp [NotOkErr]; exact h
theorem notOk_throw {α} (e : XStatus) (h : e ≠ .ok) : NotOkErr (throw e : Except XStatus α) := by
  simp [NotOkErr, throw, throwThe, MonadExceptOf.throw]; exact h
theorem notOk_bind {α β} (x : Except XStatus α) (k : α → Except XStatus β)
    (hx : NotOkErr x) (hk : ∀ v, NotOkErr (k v)) : NotOkErr (x >>= k) := by
  cases x with
  | error e => intro h; apply hx; simpa [bind, Except.bind] using h
  | ok v => exact hk v

theorem readPte_sound {mem : Mem} (h : MemSound mem) (sz pm : Nat) (s : Step) : NotOkErr (readPte mem sz pm s) := by
  unfold readPte
  cases hm : mem s.base.as s.base.addr sz with
  | error e => intro h2; apply h s.base.as s.base.addr sz; rw [hm]; simpa using h2
  | ok v => exact notOk_ok _

theorem pgtX86_64_sound {mem : Mem} (h : MemSound mem) (t pm : Nat) (pf : PagingForm) (s : Step) :
    NotOkErr (pgtX86_64 mem t pm pf s) := by
  unfold pgtX86_64
  refine notOk_bind _ _ (readPte_sound h 8 pm s) ?_
  intro ⟨s1, pte⟩
  simp only []
  repeat' split
  all_goals first
    | exact notOk_pure _
    | exact notOk_throw _ (by decide)
    | (refine notOk_bind _ _ ?_ ?_ <;> intros <;> repeat' split) 
macro "sound_tail" : tactic => `(tactic| (
  repeat' split
  all_goals first
    | exact notOk_pure _
    | exact notOk_ok _
    | exact notOk_throw _ (by decide)
    | exact notOk_err _ (by decide)
    | (refine notOk_bind _ _ ?_ ?_ <;> intros <;> repeat' split)))

theorem pgtIa32_sound {mem : Mem} (h : MemSound mem) (t pm : Nat) (pf : PagingForm) (s : Step) :
    NotOkErr (pgtIa32 mem t pm pf s) := by
  unfold pgtIa32
  refine notOk_bind _ _ (readPte_sound h 4 pm s) ?_
  intro ⟨s1, pte⟩
  simp only []
  sound_tail

theorem pgtIa32Pae_sound {mem : Mem} (h : MemSound mem) (t pm : Nat) (pf : PagingForm) (s : Step) :
    NotOkErr (pgtIa32Pae mem t pm pf s) := by
  unfold pgtIa32Pae
  refine notOk_bind _ _ (readPte_sound h 8 pm s) ?_
  intro ⟨s1, pte⟩
  simp only []
  sound_tail

theorem pgtRiscv64_sound {mem : Mem} (h : MemSound mem) (t pm : Nat) (pf : PagingForm) (s : Step) :
    NotOkErr (pgtRiscv64 mem t pm pf s) := by
  unfold pgtRiscv64
  refine notOk_bind _ _ (readPte_sound h 8 pm s) ?_
  intro ⟨s1, pte⟩
  simp only []
  sound_tail

theorem pgtPfn_sound {mem : Mem} (h : MemSound mem) (sz t pm : Nat) (pf : PagingForm) (s : Step) :
    NotOkErr (pgtPfn mem sz t pm pf s) := by
  unfold pgtPfn
  refine notOk_bind _ _ (readPte_sound h sz pm s) ?_
  intro ⟨s1, pte⟩
  simp only []
  sound_tail

theorem nextMemarr_sound {mem : Mem} (h : MemSound mem) (t shift valsz : Nat) (s : Step) :
    NotOkErr (nextMemarr mem t shift valsz s) := by
  unfold nextMemarr
  split
  · cases hm : mem s.base.as s.base.addr valsz with
    | error e => intro h2; apply h s.base.as s.base.addr valsz; rw [hm]; simpa using h2
    | ok v => exact notOk_ok _
  · exact notOk_err _ (by decide)

theorem nextStep_sound {mem : Mem} (h : MemSound mem) (m : Meth) (s : Step) :
    NotOkErr (nextStep noExtra mem m s) := by
  unfold nextStep
  cases m with
  | nometh => exact notOk_err _ (by decide)
  | linear _ _ => exact notOk_ok _
  | lookup _ _ _ => exact notOk_ok _
  | custom _ _ _ _ => exact notOk_ok _
  | memarr t b sh es vs => exact nextMemarr_sound h t sh vs s
  | pgt t root pm pf =>
    show NotOkErr (nextStepPgt noExtra mem t pm pf s)
    unfold nextStepPgt
    cases hf : pf.fmt <;> simp only []
    all_goals first
      | exact pgtPfn_sound h _ t pm pf s
      | exact pgtIa32_sound h t pm pf s
      | exact pgtIa32Pae_sound h t pm pf s
      | exact pgtRiscv64_sound h t pm pf s
      | exact pgtX86_64_sound h t pm pf s
      | exact notOk_ok _
      | exact notOk_err _ (by decide)

theorem walkLoop_sound {mem : Mem} (h : MemSound mem) (m : Meth) (fuel : Nat) (s : Step) :
    NotOkErr (walkLoop noExtra mem m fuel s) := by
  induction fuel generalizing s with
  | zero => exact notOk_err _ (by decide)
  | succ n ih =>
    unfold walkLoop
    simp only []
    split
    · exact notOk_ok _
    · have hn := nextStep_sound h m { s with remain := s.remain - 1, base := { s.base with addr := (s.base.addr + idxAt s (s.remain - 1) * s.elemsz) % W } }
      cases hs : nextStep noExtra mem m { s with remain := s.remain - 1, base := { s.base with addr := (s.base.addr + idxAt s (s.remain - 1) * s.elemsz) % W } } with
      | error e => rw [hs] at hn; exact hn
      | ok s2 => exact ih s2

theorem pgtGeneric_sound (root : FullAddr) (pf : PagingForm) (addr : Nat) :
    NotOkErr (firstStepPgtGeneric root pf addr) := by
  unfold firstStepPgtGeneric
  split
  · exact notOk_err _ (by decide)
  · exact notOk_ok _

theorem notOk_ite {α} (c : Prop) [Decidable c] (x y : Except XStatus α) (hx : NotOkErr x) (hy : NotOkErr y) :
    NotOkErr (if c then x else y) := by
  split <;> assumption

theorem checkUaddr_sound (pf : PagingForm) (s : Step) : NotOkErr (checkUaddr pf s) := by
  unfold checkUaddr
  exact notOk_ite _ _ _ (notOk_err _ (by decide)) (notOk_ok _)

theorem checkSaddr_sound (pf : PagingForm) (s : Step) : NotOkErr (checkSaddr pf s) := by
  unfold checkSaddr
  exact notOk_ite _ _ _ (notOk_err _ (by decide)) (notOk_ok _)

theorem firstStep_sound (m : Meth) (addr : Nat) : NotOkErr (firstStep m addr) := by
  unfold firstStep
  cases m with
  | nometh => exact notOk_err _ (by decide)
  | linear _ _ => exact notOk_ok _
  | memarr _ _ _ _ _ => exact notOk_ok _
  | custom t mask hit miss =>
    simp only [firstStepCustom]
    split
    · exact notOk_ok _
    · exact notOk_ok _
    · rename_i st _
      by_cases hst : st = .ok
      · simp only [hst, if_true]; exact notOk_err _ (by decide)
      · simp only [hst, if_false]; exact notOk_err _ hst
  | lookup t eo tb =>
    simp only []
    split
    · exact notOk_ok _
    · exact notOk_err _ (by decide)
  | pgt t root pm pf =>
    simp only []
    cases hf : pf.fmt <;> simp only []
    all_goals first
      | exact pgtGeneric_sound root pf addr
      | exact notOk_bind _ _ (pgtGeneric_sound root pf addr) (checkUaddr_sound pf)
      | exact notOk_bind _ _ (pgtGeneric_sound root pf addr) (checkSaddr_sound pf)
      | exact notOk_err _ (by decide)

theorem walk_sound {mem : Mem} (h : MemSound mem) (m : Meth) (addr : Nat) :
    NotOkErr (walk noExtra mem m addr) := by
  unfold walk
  have hf := firstStep_sound m addr
  cases hs : firstStep m addr with
  | error e => rw [hs] at hf; exact hf
  | ok s =>
    simp only []
    split
    · exact notOk_ok _
    · exact walkLoop_sound h m _ s

/-! ## `do_op` -/

theorem tryAlt_sound {wk : WalkFn} (hw : ∀ m x, NotOkErr (wk m x)) (sys : Sys) (caps : Nat) (alt : List Nat) (a : FullAddr) :
    tryAlt sys caps wk alt a ≠ .done (.fail .ok) := by
  induction alt with
  | nil => simp [tryAlt]
  | cons mi ms ih =>
    unfold tryAlt
    split
    · exact ih
    · split
      · simp
      · exact ih
      · simp only []
        split
        · exact ih
        · split
          · simp
          · split <;> simp
          · rename_i meth _ _
            have := hw meth a.addr
            cases hk : wk meth a.addr with
            | ok s => simp only []; split <;> simp
            | error e =>
              simp only []
              split
              · exact ih
              · rw [hk] at this
                intro h2; injection h2 with h2; injection h2 with h2; subst h2; exact this rfl

theorem doOp_sound {wk : WalkFn} (hw : ∀ m x, NotOkErr (wk m x)) (sys : Sys) (caps : Nat) (alts : List (List Nat)) (a : FullAddr) :
    doOp sys caps wk alts a ≠ .fail .ok := by
  induction alts generalizing a with
  | nil => simp [doOp]
  | cons alt rest ih =>
    unfold doOp
    split
    · rename_i r hr; intro h2; subst h2; exact tryAlt_sound hw sys caps alt a hr
    · exact ih _

theorem pre_sound {c : Cfg} {caps : Nat} {a : FullAddr} : pre c caps a ≠ .error (.fail .ok) := by
  unfold pre
  split
  · simp
  · split
    · simp
    · split
      · simp
      · split <;> simp

theorem op_sound (c : Cfg) (hpm : MemSound c.pm) (fuel : Nat) :
    ∀ caps infl a, op c fuel caps infl a ≠ .fail .ok := by
  induction fuel with
  | zero =>
    intro caps infl a
    unfold op
    split
    · rename_i r hp; intro h; subst h; exact pre_sound hp
    · simp
  | succ n ih =>
    intro caps infl a
    unfold op
    split
    · rename_i r hp; intro h; subst h; exact pre_sound hp
    · rename_i sys ch hp
      split
      · simp
      · apply doOp_sound
        intro m x
        apply walk_sound
        intro as addr size
        simp only []
        split
        · exact hpm as addr size
        · have := ih c.readCaps ((a, ch) :: infl) ⟨addr, as⟩
          cases hr : op c n c.readCaps ((a, ch) :: infl) ⟨addr, as⟩ with
          | call fa => exact hpm fa.as fa.addr size
          | fail e =>
            rw [hr] at this
            intro h2; simp [nestedRead] at h2; subst h2; exact this rfl
          | oob => simp [nestedRead, NotOkErr]

end Kdf.Lemmas.SysSound
