import Kdf.Model.Pgt
import Kdf.Model.PgtArch
import Kdf.Spec.ArchWalk
/-! Helper lemmas for C02 (index split, huge-page folding, per-format simulation). -/
namespace Kdf.Lemmas.Pgt
open Kdf.Model.Pgt Kdf.Spec.ArchWalk

/-- memory returns values that fit the object size -/
def MemWF (mem : Mem) : Prop := ∀ as a sz v, mem as a sz = .ok v → v < 2^(8*sz)

/-! ## Arithmetic -/

theorem or_eq_add (a b k : Nat) (h : b < 2^k) : (a * 2^k) ||| b = a * 2^k + b := by
  rw [Nat.mul_comm, ← Nat.two_pow_add_eq_or_of_lt h a]

theorem or_eq_add' (a b k : Nat) (h : b < 2^k) : b ||| (a * 2^k) = a * 2^k + b := by
  rw [Nat.or_comm]; exact or_eq_add a b k h

theorem pow_split {p m : Nat} (h : p ≤ m) : (2:Nat)^m = 2^p * 2^(m-p) := by
  rw [← Nat.pow_add]; congr 1; omega

/-- `(va % 2^m) / 2^p = (va / 2^p) % 2^(m-p)` -/
theorem mod_pow_div_pow (va p m : Nat) (h : p ≤ m) : va % 2^m / 2^p = va / 2^p % 2^(m-p) := by
  rw [pow_split h, Nat.mod_mul_right_div_self]

theorem mod_pow_div_mod (va p q m : Nat) (h : p + q ≤ m) :
    va % 2^m / 2^p % 2^q = va / 2^p % 2^q := by
  rw [mod_pow_div_pow va p m (by omega)]
  exact Nat.mod_mod_of_dvd _ (Nat.pow_dvd_pow 2 (by omega))

/-- one folding step of `pgt_huge_page` -/
theorem fold_step (va p q m : Nat) (h : p + q ≤ m) :
    va % 2^m / 2^(p+q) * 2^q + va / 2^p % 2^q = va % 2^m / 2^p := by
  rw [← mod_pow_div_mod va p q m h, Nat.pow_add, ← Nat.div_div_eq_div_mul]
  have := Nat.div_add_mod (va % 2^m / 2^p) (2^q)
  rw [Nat.mul_comm] at this
  exact this

theorem div_pow_add_mul_le (x a b : Nat) : x / 2^(a+b) * 2^b ≤ x := by
  rw [Nat.pow_add, ← Nat.div_div_eq_div_mul]
  exact Nat.le_trans (Nat.div_mul_le_self _ _) (Nat.div_le_self _ _)

theorem mod_mod_pow (va p m : Nat) (h : p ≤ m) : va % 2^m % 2^p = va % 2^p :=
  Nat.mod_mod_of_dvd _ (Nat.pow_dvd_pow 2 h)

/-- `x & ~mask(k)` on 64-bit values -/
theorem and_not_mask (a k : Nat) (ha : a < W) (hk : k ≤ 64) :
    a &&& ((W - 1) ^^^ (2^k - 1)) = a / 2^k * 2^k := by
  apply Nat.eq_of_testBit_eq
  intro i
  rw [Nat.testBit_and, Nat.testBit_xor, Nat.testBit_two_pow_sub_one, Nat.testBit_two_pow_sub_one,
    Nat.testBit_mul_two_pow, Nat.testBit_div_two_pow]
  by_cases h1 : i < k
  · have : ¬ k ≤ i := by omega
    have h2 : i < 64 := by omega
    simp [h1, this, h2]
  · have h3 : k ≤ i := by omega
    have h4 : i - k + k = i := by omega
    by_cases h2 : i < 64
    · simp [h1, h2, h3, h4]
    · have : a.testBit i = false := by
        apply Nat.testBit_lt_two_pow
        have : (2:Nat)^64 ≤ 2^i := Nat.pow_le_pow_right (by decide) (by omega)
        have hW' : W = 2^64 := rfl
        omega
      simp [h1, h2, h3, h4, this]

/-! ## `spanBits` -/

theorem foldl_add_shift (l : List Nat) (c : Nat) :
    l.foldl (· + ·) c = c + l.foldl (· + ·) 0 := by
  induction l generalizing c with
  | nil => simp
  | cons b bs ih =>
    simp only [List.foldl_cons]
    rw [ih (c + b), ih (0 + b)]; omega

theorem spanBits_zero (l : List Nat) : spanBits l 0 = 0 := by simp [spanBits]

theorem spanBits_nil (i : Nat) : spanBits [] i = 0 := by simp [spanBits]

theorem spanBits_cons (b : Nat) (bs : List Nat) (i : Nat) :
    spanBits (b :: bs) (i+1) = b + spanBits bs i := by
  simp only [spanBits, List.take_succ_cons, List.foldl_cons]
  rw [foldl_add_shift]; omega

theorem spanBits_succ (l : List Nat) (i : Nat) :
    spanBits l (i+1) = spanBits l i + l.getD i 0 := by
  induction l generalizing i with
  | nil => simp [spanBits_nil]
  | cons b bs ih =>
    cases i with
    | zero => simp [spanBits_cons, spanBits_zero]
    | succ j => rw [spanBits_cons, spanBits_cons, ih j, List.getD_cons_succ]; omega

theorem spanBits_one (l : List Nat) : spanBits l 1 = l.getD 0 0 := by
  rw [spanBits_succ, spanBits_zero]; omega

theorem spanBits_mono (l : List Nat) {i j : Nat} (h : i ≤ j) : spanBits l i ≤ spanBits l j := by
  induction j with
  | zero => have : i = 0 := by omega
            subst this; exact Nat.le_refl _
  | succ j ih =>
    by_cases hij : i = j + 1
    · subst hij; exact Nat.le_refl _
    · have := ih (by omega)
      rw [spanBits_succ]; omega

theorem vaddrBits_eq (pf : PagingForm) : vaddrBits pf = spanBits pf.fieldsz pf.fieldsz.length := by
  simp [vaddrBits, spanBits]

/-! ## the index split of `first_step_pgt_generic` -/

theorem split_length (l : List Nat) (a : Nat) :
    (firstStepPgtGeneric.split l a).length = l.length + 1 := by
  induction l generalizing a with
  | nil => simp [firstStepPgtGeneric.split]
  | cons b bs ih => simp [firstStepPgtGeneric.split, ih]

theorem split_getD (l : List Nat) (a : Nat) (hl : ∀ b ∈ l, b < 64) (i : Nat) (hi : i < l.length) :
    (firstStepPgtGeneric.split l a).getD i 0 = a / 2^(spanBits l i) % 2^(l.getD i 0) := by
  induction l generalizing a i with
  | nil => simp at hi
  | cons b bs ih =>
    have hb : b < 64 := hl b (by simp)
    simp only [firstStepPgtGeneric.split, hb, if_true]
    cases i with
    | zero => simp [spanBits_zero]
    | succ j =>
      rw [List.getD_cons_succ, List.getD_cons_succ, spanBits_cons,
        ih (a / 2^b) (fun x hx => hl x (by simp [hx])) j (by simpa using hi),
        Nat.pow_add, Nat.div_div_eq_div_mul]

theorem split_getD_top (l : List Nat) (a : Nat) (hl : ∀ b ∈ l, b < 64) :
    (firstStepPgtGeneric.split l a).getD l.length 0 = a / 2^(spanBits l l.length) := by
  induction l generalizing a with
  | nil => simp [firstStepPgtGeneric.split, spanBits_nil]
  | cons b bs ih =>
    have hb : b < 64 := hl b (by simp)
    simp only [firstStepPgtGeneric.split, hb, if_true, List.length_cons]
    rw [List.getD_cons_succ, spanBits_cons, ih (a / 2^b) (fun x hx => hl x (by simp [hx])),
      Nat.pow_add, Nat.div_div_eq_div_mul]

end Kdf.Lemmas.Pgt
