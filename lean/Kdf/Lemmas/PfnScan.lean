import Kdf.Lemmas.PfnByte
/-! Bit scans: the generic scan theorem and its four instances. -/
namespace Kdf.Lemmas.Pfn
open Kdf.Model.Pfn

/-- the byte-wise scan finds the first bit equal to `want` at or after byte `j` -/
theorem scanBytes_spec (bit : Nat → Nat → Bool) (want : Bool) (bm : Bitmap) (hb : BytesWF bm)
    (size : Nat) (hit : Nat → Option Nat) (hhit : ∀ b, b < 256 → FirstOK bit want b 0 (hit b)) :
    ∀ fuel j, j ≤ size → size - j < fuel →
      j * 8 ≤ scanBytes bm size hit fuel j ∧ scanBytes bm size hit fuel j ≤ size * 8 ∧
      (∀ i, j * 8 ≤ i → i < scanBytes bm size hit fuel j → bit (byteAt bm (i/8)) (i%8) = !want) ∧
      (scanBytes bm size hit fuel j < size * 8 →
        bit (byteAt bm (scanBytes bm size hit fuel j / 8)) (scanBytes bm size hit fuel j % 8) = want) := by
  intro fuel
  induction fuel with
  | zero => intro j _ h; omega
  | succ fuel ih =>
    intro j hj hf
    unfold scanBytes
    split
    · refine ⟨by omega, by omega, ?_, by omega⟩
      intro i h1 h2; omega
    · have hbj := hhit _ (byteAt_lt hb j)
      split
      · rename_i off heq
        rw [heq] at hbj
        obtain ⟨h1, h2, h3⟩ := hbj
        have e1 : (j * 8 + off) / 8 = j := by omega
        have e2 : (j * 8 + off) % 8 = off := by omega
        refine ⟨by omega, by omega, ?_, ?_⟩
        · intro i hi1 hi2
          have e3 : i / 8 = j := by omega
          have := h3 (i % 8) (by omega)
          rw [e3]; simpa using this
        · intro _; rw [e1, e2]; simpa using h2
      · rename_i heq
        rw [heq] at hbj
        have hbj : ∀ t, t < 8 → 0 ≤ t → bit (byteAt bm j) t = !want := hbj
        obtain ⟨i1, i2, i3, i4⟩ := ih (j+1) (by omega) (by omega)
        refine ⟨by omega, i2, ?_, i4⟩
        intro i hi1 hi2
        by_cases hlt : i < (j+1) * 8
        · have e3 : i / 8 = j := by omega
          rw [e3]; exact hbj _ (by omega) (by omega)
        · exact i3 i (by omega) hi2

/-- generic shape of the four `skip_*` functions -/
def skipGen (fb : Nat → Nat → Option Nat) (hit : Nat → Option Nat) (bm : Bitmap) (size pfn : Nat) : Nat :=
  if pfn / 8 ≥ size then pfn
  else match fb (byteAt bm (pfn / 8)) (pfn % 8) with
    | some c => pfn + c
    | none => scanBytes bm size hit size (pfn / 8 + 1)

theorem skipGen_spec (bit : Nat → Nat → Bool) (want : Bool) (bm : Bitmap) (hb : BytesWF bm)
    (fb : Nat → Nat → Option Nat) (hit : Nat → Option Nat)
    (hfb : ∀ b, b < 256 → ∀ k, k < 8 → FirstOK bit want b k (fb b k))
    (hhit : ∀ b, b < 256 → FirstOK bit want b 0 (hit b)) (size pfn : Nat) :
    pfn ≤ skipGen fb hit bm size pfn ∧ (pfn < size * 8 → skipGen fb hit bm size pfn ≤ size * 8) ∧
    (∀ j, pfn ≤ j → j < skipGen fb hit bm size pfn → j < size * 8 → bit (byteAt bm (j/8)) (j%8) = !want) ∧
    (skipGen fb hit bm size pfn < size * 8 →
      bit (byteAt bm (skipGen fb hit bm size pfn / 8)) (skipGen fb hit bm size pfn % 8) = want) := by
  unfold skipGen
  split
  · refine ⟨by omega, by omega, ?_, by omega⟩
    intro j h1 h2; omega
  · have h0 := hfb _ (byteAt_lt hb (pfn / 8)) (pfn % 8) (by omega)
    split
    · rename_i c heq
      rw [heq] at h0
      obtain ⟨h1, h2, h3⟩ := h0
      have e1 : (pfn + c) / 8 = pfn / 8 := by omega
      have e2 : (pfn + c) % 8 = pfn % 8 + c := by omega
      refine ⟨by omega, by omega, ?_, ?_⟩
      · intro j hj1 hj2 _
        have e3 : j / 8 = pfn / 8 := by omega
        have e4 : j % 8 = pfn % 8 + (j - pfn) := by omega
        rw [e3, e4]; exact h3 _ (by omega)
      · intro _; rw [e1, e2]; exact h2
    · rename_i heq
      rw [heq] at h0
      have h0 : ∀ t, t < 8 → pfn % 8 ≤ t → bit (byteAt bm (pfn / 8)) t = !want := h0
      obtain ⟨i1, i2, i3, i4⟩ := scanBytes_spec bit want bm hb size hit hhit size (pfn / 8 + 1) (by omega) (by omega)
      refine ⟨by omega, fun _ => i2, ?_, i4⟩
      intro j hj1 hj2 _
      by_cases hlt : j < (pfn / 8 + 1) * 8
      · have e3 : j / 8 = pfn / 8 := by omega
        rw [e3]; exact h0 _ (by omega) (by omega)
      · exact i3 j (by omega) hj2

theorem skipClearLsb0_eq : skipClearLsb0 = skipGen fbClearL hitClearL := by
  funext bm size pfn
  unfold skipClearLsb0 skipGen fbClearL hitClearL
  split
  · rfl
  · dsimp only; split <;> rfl
theorem skipClearMsb0_eq : skipClearMsb0 = skipGen fbClearM hitClearM := by
  funext bm size pfn
  unfold skipClearMsb0 skipGen fbClearM hitClearM
  split
  · rfl
  · dsimp only; split <;> rfl
theorem skipSetLsb0_eq : skipSetLsb0 = skipGen fbSetL hitSetL := by
  funext bm size pfn
  unfold skipSetLsb0 skipGen fbSetL hitSetL
  split
  · rfl
  · dsimp only; split <;> rfl
theorem skipSetMsb0_eq : skipSetMsb0 = skipGen fbSetM hitSetM := by
  funext bm size pfn
  unfold skipSetMsb0 skipGen fbSetM hitSetM
  split
  · rfl
  · dsimp only; split <;> rfl

def skipClear (msb0 : Bool) (bm : Bitmap) (size pfn : Nat) : Nat :=
  if msb0 then skipClearMsb0 bm size pfn else skipClearLsb0 bm size pfn
def skipSet (msb0 : Bool) (bm : Bitmap) (size pfn : Nat) : Nat :=
  if msb0 then skipSetMsb0 bm size pfn else skipSetLsb0 bm size pfn

theorem skipClear_spec (msb0 : Bool) (bm : Bitmap) (hb : BytesWF bm) (size pfn : Nat) :
    pfn ≤ skipClear msb0 bm size pfn ∧ (pfn < size * 8 → skipClear msb0 bm size pfn ≤ size * 8) ∧
    (∀ j, pfn ≤ j → j < skipClear msb0 bm size pfn → j < size * 8 → bitOf msb0 bm j = false) ∧
    (skipClear msb0 bm size pfn < size * 8 → bitOf msb0 bm (skipClear msb0 bm size pfn) = true) := by
  cases msb0
  · simp only [skipClear, bitOf, bitL_eq, skipClearLsb0_eq, Bool.false_eq_true, if_false]
    exact skipGen_spec tbL true bm hb _ _ fbClearL_ok hitClearL_ok size pfn
  · simp only [skipClear, bitOf, bitM_eq, skipClearMsb0_eq, if_true]
    exact skipGen_spec tbM true bm hb _ _ fbClearM_ok hitClearM_ok size pfn

theorem skipSet_spec (msb0 : Bool) (bm : Bitmap) (hb : BytesWF bm) (size pfn : Nat) :
    pfn ≤ skipSet msb0 bm size pfn ∧ (pfn < size * 8 → skipSet msb0 bm size pfn ≤ size * 8) ∧
    (∀ j, pfn ≤ j → j < skipSet msb0 bm size pfn → j < size * 8 → bitOf msb0 bm j = true) ∧
    (skipSet msb0 bm size pfn < size * 8 → bitOf msb0 bm (skipSet msb0 bm size pfn) = false) := by
  cases msb0
  · simp only [skipSet, bitOf, bitL_eq, skipSetLsb0_eq, Bool.false_eq_true, if_false]
    exact skipGen_spec tbL false bm hb _ _ fbSetL_ok hitSetL_ok size pfn
  · simp only [skipSet, bitOf, bitM_eq, skipSetMsb0_eq, if_true]
    exact skipGen_spec tbM false bm hb _ _ fbSetM_ok hitSetM_ok size pfn

end Kdf.Lemmas.Pfn
