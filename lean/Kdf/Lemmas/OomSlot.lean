import Kdf.Model.Oom
import Kdf.Lemmas.Oom
/-! Helper lemmas for C18: all-or-nothing allocation groups, frees of blocks that sit
anywhere in the ledger, the `cache_lock` mutex and in-place growth. -/
namespace Kdf.Lemmas.Oom
open Kdf.Model.Oom

/-- frame: everything but `cnt`, `live`, `trace` (including the mutex) -/
structure Fr2 (s s' : St) : Prop where
  rd : s'.rd = s.rd
  wr : s'.wr = s.wr
  bad : s'.bad = s.bad
  mtx : s'.mtx = s.mtx
  sh : s'.shRef = s.shRef
  di : s'.dictRef = s.dictRef
  xr : s'.xlatRef = s.xlatRef
  fa : s'.failAt = s.failAt

theorem Fr2.refl (s : St) : Fr2 s s := ⟨rfl, rfl, rfl, rfl, rfl, rfl, rfl, rfl⟩

theorem Fr2.trans {a b c : St} (h1 : Fr2 a b) (h2 : Fr2 b c) : Fr2 a c :=
  ⟨h2.rd.trans h1.rd, h2.wr.trans h1.wr, h2.bad.trans h1.bad, h2.mtx.trans h1.mtx, h2.sh.trans h1.sh,
   h2.di.trans h1.di, h2.xr.trans h1.xr, h2.fa.trans h1.fa⟩

/-- ledger well-formed (same body as `Kdf.Props.C18.Wf`) -/
def WfL (s : St) : Prop := s.live.Nodup ∧ ∀ i ∈ s.live, i ≤ s.cnt

/-! ### alloc / free -/

theorem alloc_none2 {s s' : St} (h : alloc s = (none, s')) :
    s.cnt + 1 = s.failAt ∧ s'.cnt = s.cnt + 1 ∧ s'.live = s.live ∧ Fr2 s s' := by
  unfold alloc at h
  split at h
  · next hc => cases h; exact ⟨hc, rfl, rfl, ⟨rfl, rfl, rfl, rfl, rfl, rfl, rfl, rfl⟩⟩
  · cases h

theorem alloc_some2 {s s' : St} {i : Nat} (h : alloc s = (some i, s')) :
    s.cnt + 1 ≠ s.failAt ∧ i = s.cnt + 1 ∧ s'.cnt = s.cnt + 1 ∧ s'.live = i :: s.live ∧ Fr2 s s' := by
  unfold alloc at h
  split at h
  · cases h
  · next hc => cases h; exact ⟨hc, rfl, rfl, rfl, ⟨rfl, rfl, rfl, rfl, rfl, rfl, rfl, rfl⟩⟩

theorem free_mem {i : Nat} {s : St} (h : i ∈ s.live) :
    (free i s).live = s.live.erase i ∧ (free i s).cnt = s.cnt ∧ Fr2 s (free i s) := by
  unfold free
  rw [if_pos h]
  exact ⟨rfl, rfl, ⟨rfl, rfl, rfl, rfl, rfl, rfl, rfl, rfl⟩⟩

/-- freeing distinct live blocks, wherever they sit in the ledger -/
theorem freeAll_sub (ids : List Nat) : ∀ (s : St), s.live.Nodup → ids.Nodup → (∀ b ∈ ids, b ∈ s.live) →
    (freeAll ids s).live.Nodup ∧ (∀ x, x ∈ (freeAll ids s).live ↔ x ∈ s.live ∧ x ∉ ids) ∧
    (freeAll ids s).live.length + ids.length = s.live.length ∧
    (freeAll ids s).cnt = s.cnt ∧ Fr2 s (freeAll ids s) := by
  induction ids with
  | nil => intro s hn _ _; simp [freeAll, hn, Fr2.refl]
  | cons i is ih =>
    intro s hn hi hm
    have him : i ∈ s.live := hm i (by simp)
    obtain ⟨f1, f2, f3⟩ := free_mem him
    have hi' := List.nodup_cons.mp hi
    have hn1 : (free i s).live.Nodup := by rw [f1]; exact hn.erase i
    have hm1 : ∀ b ∈ is, b ∈ (free i s).live := by
      intro b hb
      rw [f1, hn.mem_erase_iff]
      refine ⟨?_, hm b (by simp [hb])⟩
      intro e; subst e; exact hi'.1 hb
    obtain ⟨a1, a2, a3, a4, a5⟩ := ih (free i s) hn1 hi'.2 hm1
    simp only [freeAll]
    refine ⟨a1, ?_, ?_, a4.trans f2, f3.trans a5⟩
    · intro x
      rw [a2 x, f1, hn.mem_erase_iff]
      simp only [List.mem_cons, not_or]
      constructor
      · rintro ⟨⟨h1, h2⟩, h3⟩; exact ⟨h2, h1, h3⟩
      · rintro ⟨h2, h1, h3⟩; exact ⟨⟨h1, h2⟩, h3⟩
    · have hl := List.length_erase_of_mem him
      have hpos : 0 < s.live.length := List.length_pos_of_mem him
      rw [f1] at a3
      simp only [List.length_cons]
      omega

/-! ### allocN / allocAll -/

theorem allocN_spec2 (k : Nat) : ∀ (s : St),
    (allocN k s).2.2.live = (allocN k s).2.1 ++ s.live ∧ Fr2 s (allocN k s).2.2 ∧
    s.cnt ≤ (allocN k s).2.2.cnt ∧
    (∀ i ∈ (allocN k s).2.1, s.cnt < i ∧ i ≤ (allocN k s).2.2.cnt) ∧ (allocN k s).2.1.Nodup ∧
    ((allocN k s).1 = true → (allocN k s).2.2.cnt = s.cnt + k ∧ (allocN k s).2.1.length = k ∧
      ¬ (s.cnt < s.failAt ∧ s.failAt ≤ s.cnt + k)) ∧
    ((allocN k s).1 = false → s.cnt < s.failAt ∧ s.failAt ≤ s.cnt + k) := by
  induction k with
  | zero => intro s; simp [allocN, Fr2.refl]
  | succ k ih =>
    intro s
    simp only [allocN]
    split
    · next s' h =>
      obtain ⟨h1, h2, h3, h4⟩ := alloc_none2 h
      refine ⟨by simp [h3], h4, by simp only; omega, by simp, by simp, by simp, ?_⟩
      intro _; omega
    · next i s' h =>
      obtain ⟨h1, h2, h3, h4, h5⟩ := alloc_some2 h
      obtain ⟨a1, a2, a3, a4, a5, a6, a7⟩ := ih s'
      have hfa := h5.fa
      refine ⟨by simp [a1, h4], h5.trans a2, by simp only; omega, ?_, ?_, ?_, ?_⟩
      · intro j hj
        simp only [List.mem_append, List.mem_singleton] at hj
        rcases hj with hj | hj
        · have := a4 j hj; simp only; omega
        · simp only; omega
      · simp only
        rw [List.nodup_append]
        refine ⟨a5, by simp, ?_⟩
        intro a ha b hb
        simp only [List.mem_singleton] at hb
        have := a4 a ha; omega
      · intro hr
        have := a6 hr
        simp only [List.length_append, List.length_singleton]
        omega
      · intro hr
        have := a7 hr
        omega

theorem freeAll_prefix2 (ids : List Nat) : ∀ (s : St) (l : List Nat), s.live = ids ++ l →
    (freeAll ids s).live = l ∧ (freeAll ids s).cnt = s.cnt ∧ Fr2 s (freeAll ids s) := by
  induction ids with
  | nil => intro s l h; simpa [freeAll, Fr2.refl] using h
  | cons i is ih =>
    intro s l h
    have him : i ∈ s.live := by rw [h]; simp
    obtain ⟨f1, f2, f3⟩ := free_mem him
    have hl : (free i s).live = is ++ l := by rw [f1, h]; simp
    obtain ⟨a1, a2, a3⟩ := ih (free i s) l hl
    simp only [freeAll]
    exact ⟨a1, a2.trans f2, f3.trans a3⟩

theorem allocAll_none {k : Nat} {s s' : St} (h : allocAll k s = (none, s')) :
    s'.live = s.live ∧ Fr2 s s' ∧ s.cnt ≤ s'.cnt ∧ (s.cnt < s.failAt ∧ s.failAt ≤ s.cnt + k) := by
  obtain ⟨a1, a2, a3, a4, a5, a6, a7⟩ := allocN_spec2 k s
  unfold allocAll at h
  split at h
  · next got s1 he =>
    simp only [he] at a1 a2 a3 a7
    cases h
    obtain ⟨b1, b2, b3⟩ := freeAll_prefix2 got s1 s.live a1
    exact ⟨b1, a2.trans b3, by omega, a7 trivial⟩
  · cases h

theorem allocAll_some {k : Nat} {s s' : St} {got : List Nat} (h : allocAll k s = (some got, s')) :
    s'.live = got ++ s.live ∧ Fr2 s s' ∧ s'.cnt = s.cnt + k ∧ got.length = k ∧
    (∀ i ∈ got, s.cnt < i ∧ i ≤ s'.cnt) ∧ got.Nodup ∧ ¬ (s.cnt < s.failAt ∧ s.failAt ≤ s.cnt + k) := by
  obtain ⟨a1, a2, a3, a4, a5, a6, a7⟩ := allocN_spec2 k s
  unfold allocAll at h
  split at h
  · cases h
  · next got' s1 he =>
    simp only [he] at a1 a2 a4 a5 a6
    cases h
    obtain ⟨c1, c2, c3⟩ := a6 trivial
    exact ⟨a1, a2, c1, c2, a4, a5, c3⟩

/-- `allocAll` always returns one of the two shapes -/
theorem allocAll_cases (k : Nat) (s : St) :
    (∃ s', allocAll k s = (none, s')) ∨ (∃ got s', allocAll k s = (some got, s')) := by
  rcases h : allocAll k s with ⟨_ | got, s'⟩
  · exact Or.inl ⟨s', rfl⟩
  · exact Or.inr ⟨got, s', rfl⟩

theorem WfL.allocAll_none {k : Nat} {s s' : St} (hw : WfL s) (h : allocAll k s = (none, s')) : WfL s' := by
  obtain ⟨a1, _, a3, _⟩ := Kdf.Lemmas.Oom.allocAll_none h
  refine ⟨by rw [a1]; exact hw.1, ?_⟩
  intro i hi; rw [a1] at hi; have := hw.2 i hi; omega

theorem WfL.allocAll_some {k : Nat} {s s' : St} {got : List Nat} (hw : WfL s)
    (h : allocAll k s = (some got, s')) : WfL s' := by
  obtain ⟨a1, _, a3, _, a5, a6, _⟩ := Kdf.Lemmas.Oom.allocAll_some h
  refine ⟨?_, ?_⟩
  · rw [a1, List.nodup_append]
    refine ⟨a6, hw.1, ?_⟩
    intro a ha b hb e
    have := a5 a ha; have := hw.2 b hb; omega
  · intro i hi
    rw [a1, List.mem_append] at hi
    rcases hi with hi | hi
    · exact (a5 i hi).2
    · have := hw.2 i hi; omega

theorem WfL.freeAll {ids : List Nat} {s : St} (hw : WfL s) (hi : ids.Nodup) (hm : ∀ b ∈ ids, b ∈ s.live) :
    WfL (freeAll ids s) := by
  obtain ⟨a1, a2, _, a4, _⟩ := freeAll_sub ids s hw.1 hi hm
  refine ⟨a1, ?_⟩
  intro i hi; rw [a4]; exact hw.2 i ((a2 i).mp hi).1

/-! ### one run of the page-size hook chain, by cases -/

theorem pgRound_eq1 {c m : Nat} {o : PgObj} {s s1 : St} (h : allocAll c s = (none, s1)) :
    pgRound {} c m o s = (false, o, s1) := by
  simp [pgRound, perCtxAlloc, h]

theorem pgRound_eq2 {c m : Nat} {o : PgObj} {s s1 s3 : St} {nw : List Nat}
    (h : allocAll c s = (some nw, s1)) (h2 : allocAll m (freeAll o.bufs s1) = (none, s3)) :
    pgRound {} c m o s = (false, { o with cbuf := some nw }, s3) := by
  simp [pgRound, perCtxAlloc, perCtxFree, h, h2]

theorem pgRound_eq3 {c m : Nat} {o : PgObj} {s s1 s3 : St} {nw nc : List Nat}
    (h : allocAll c s = (some nw, s1)) (h2 : allocAll m (freeAll o.bufs s1) = (some nc, s3)) :
    pgRound {} c m o s = (true, { cbuf := some nw, cache := nc }, freeAll o.cache s3) := by
  simp [pgRound, perCtxAlloc, perCtxFree, h, h2]

/-! ### mutex, in-place growth -/

theorem regrow_false {s s' : St} (h : regrow s = (false, s')) :
    s.cnt + 1 = s.failAt ∧ s'.cnt = s.cnt + 1 ∧ s'.live = s.live ∧ Fr2 s s' := by
  unfold regrow at h
  split at h
  · next hc => cases h; exact ⟨hc, rfl, rfl, ⟨rfl, rfl, rfl, rfl, rfl, rfl, rfl, rfl⟩⟩
  · cases h

theorem regrow_true {s s' : St} (h : regrow s = (true, s')) :
    s.cnt + 1 ≠ s.failAt ∧ s'.cnt = s.cnt + 1 ∧ s'.live = s.live ∧ Fr2 s s' := by
  unfold regrow at h
  split at h
  · cases h
  · next hc => cases h; exact ⟨hc, rfl, rfl, ⟨rfl, rfl, rfl, rfl, rfl, rfl, rfl, rfl⟩⟩

theorem regrowN_spec (k : Nat) : ∀ (s : St),
    (regrowN k s).2.live = s.live ∧ Fr2 s (regrowN k s).2 ∧ s.cnt ≤ (regrowN k s).2.cnt ∧
    ((regrowN k s).1 = false ↔ (s.cnt < s.failAt ∧ s.failAt ≤ s.cnt + k)) := by
  induction k with
  | zero => intro s; simp only [regrowN, Fr2.refl, true_and]; simp
  | succ k ih =>
    intro s
    simp only [regrowN]
    split
    · next s' h =>
      obtain ⟨h1, h2, h3, h4⟩ := regrow_false h
      refine ⟨h3, h4, by simp only; omega, ?_⟩
      simp only [true_iff]; omega
    · next s' h =>
      obtain ⟨h1, h2, h3, h4⟩ := regrow_true h
      obtain ⟨a1, a2, a3, a4⟩ := ih s'
      have := h4.fa
      refine ⟨a1.trans h3, h4.trans a2, by omega, ?_⟩
      rw [a4]; omega

/-! ### locks -/

theorem wrlock_free {s : St} (h1 : s.rd = 0) (h2 : s.wr = 0) :
    (wrlock s).wr = 1 ∧ (wrlock s).rd = 0 ∧ (wrlock s).live = s.live ∧ (wrlock s).bad = s.bad ∧
    (wrlock s).mtx = s.mtx ∧ (wrlock s).cnt = s.cnt ∧ (wrlock s).failAt = s.failAt := by
  unfold wrlock
  rw [if_neg (by omega)]
  exact ⟨rfl, h1, rfl, rfl, rfl, rfl, rfl⟩

theorem unlock_wr1 {s : St} (h : s.wr = 1) :
    (unlock s).wr = 0 ∧ (unlock s).rd = s.rd ∧ (unlock s).live = s.live ∧ (unlock s).bad = s.bad ∧
    (unlock s).mtx = s.mtx ∧ (unlock s).cnt = s.cnt ∧ (unlock s).failAt = s.failAt := by
  unfold unlock
  rw [if_pos (by omega)]
  refine ⟨?_, rfl, rfl, rfl, rfl, rfl, rfl⟩
  show s.wr - 1 = 0; omega

theorem enter_spec {s : St} (h1 : s.rd = 0) (h2 : s.wr = 0) (h3 : s.mtx = 0) :
    (mlock (rdlock s)).rd = 1 ∧ (mlock (rdlock s)).wr = 0 ∧ (mlock (rdlock s)).mtx = 1 ∧
    (mlock (rdlock s)).live = s.live ∧ (mlock (rdlock s)).bad = s.bad ∧
    (mlock (rdlock s)).cnt = s.cnt ∧ (mlock (rdlock s)).failAt = s.failAt := by
  have e : rdlock s = { s with rd := s.rd + 1, trace := .R :: s.trace } := by
    unfold rdlock; rw [if_neg (by omega)]
  rw [e]
  unfold mlock
  rw [if_neg (by show ¬ s.mtx > 0; omega)]
  refine ⟨?_, h2, rfl, rfl, rfl, rfl, rfl⟩
  show s.rd + 1 = 1; omega

theorem exit_spec {s : St} (h1 : s.rd = 1) (h2 : s.wr = 0) (h3 : s.mtx = 1) :
    (unlock (munlock s)).rd = 0 ∧ (unlock (munlock s)).wr = 0 ∧ (unlock (munlock s)).mtx = 0 ∧
    (unlock (munlock s)).live = s.live ∧ (unlock (munlock s)).bad = s.bad := by
  have e : munlock s = { s with mtx := s.mtx - 1, trace := .m :: s.trace } := by
    unfold munlock; rw [if_pos (by omega)]
  rw [e]
  unfold unlock
  rw [if_neg (by show ¬ s.wr > 0; omega), if_pos (by show s.rd > 0; omega)]
  refine ⟨?_, h2, ?_, rfl, rfl⟩
  · show s.rd - 1 = 0; omega
  · show s.mtx - 1 = 0; omega

/-! ### `setPageSize` and `pagemapGet` by cases -/

theorem setPageSize_eq1 {fx : PgFix} {c m : Nat} {o o1 : PgObj} {s s1 : St}
    (h : pgRound fx c m o (wrlock s) = (false, o1, s1)) :
    setPageSize fx c m o s = (false, o1, unlock s1) := by
  simp [setPageSize, h]

theorem setPageSize_eq2 {fx : PgFix} {c m : Nat} {o o1 o2 : PgObj} {s s1 s2 : St} {b : Bool}
    (h : pgRound fx c m o (wrlock s) = (true, o1, s1)) (h2 : pgRound fx c m o1 s1 = (b, o2, s2)) :
    setPageSize fx c m o s = (b, o2, unlock s2) := by
  cases b <;> simp [setPageSize, h, h2]

theorem pagemapGet_zero (s : St) : pagemapGet {} 0 s = (true, unlock (munlock (mlock (rdlock s)))) := rfl

theorem pagemapGet_eq1 {g : Nat} {s s1 : St} (h : alloc (mlock (rdlock s)) = (none, s1)) :
    pagemapGet {} (g + 1) s = (false, unlock (munlock s1)) := by
  simp [pagemapGet, h]

theorem pagemapGet_eq2 {g i : Nat} {s s1 s2 : St} {b : Bool} (h : alloc (mlock (rdlock s)) = (some i, s1))
    (h2 : regrowN g s1 = (b, s2)) :
    pagemapGet {} (g + 1) s = (b, unlock (munlock s2)) := by
  cases b <;> simp [pagemapGet, h, h2]

end Kdf.Lemmas.Oom
