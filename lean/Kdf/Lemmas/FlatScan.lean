import Kdf.Lemmas.FlatDefs
import Kdf.Props.C10
/-! The scan loop of `flatmap_file_init` (C11 helper lemmas). -/
namespace Kdf.Lemmas.Flat
open Kdf.Model.Map Kdf.Model.Flat Kdf.Lemmas.Map

/-! ### Arithmetic of the header fields -/

theorem be64_lt (f : File) (p : Nat) : be64 f p < W := by
  simp only [be64, beN, W]
  omega

theorem toS64_be64_lt {f : File} {p n : Nat} (h : toS64 (be64 f p) = (n : Int)) : n < S63 := by
  have hx := be64_lt f p
  unfold toS64 at h
  simp only [W, S63] at *
  split at h <;> omega

theorem be64_zero (f : File) (n : Nat) (hz : ∀ i, n ≤ i → f i = 0) (p : Nat) (h : n ≤ p) :
    be64 f p = 0 := by
  have : ∀ k, f (p + k) = 0 := fun k => hz _ (by omega)
  have h0 : f p = 0 := hz _ h
  simp [be64, beN, this, h0]

theorem toS64_zero : toS64 0 = 0 := by
  simp [toS64]

/-! ### One iteration of the loop -/

theorem scan_succ (f : File) (fuel : Nat) (s : Scan) :
    scan f (fuel+1) s =
      if toS64 (be64 f s.flatpos) = -1 then .ok s
      else if toS64 (be64 f s.flatpos) < 0 then .err .corrupt s.flatpos
      else if toS64 (be64 f (s.flatpos + 8)) ≤ 0 then .err .corrupt s.flatpos
      else match mapSet s.map (toS64 (be64 f s.flatpos)).toNat
              ⟨(toS64 (be64 f (s.flatpos + 8))).toNat - 1, (s.offs.length : Int)⟩ true with
        | (.ok, m') =>
          if s.flatpos + RECHDR + (toS64 (be64 f (s.flatpos + 8))).toNat ≥ S63 then .ub
          else scan f fuel ⟨m', s.offs ++ [((s.flatpos + RECHDR : Nat) : Int) - toS64 (be64 f s.flatpos)],
            s.flatpos + RECHDR + (toS64 (be64 f (s.flatpos + 8))).toNat⟩
        | (.nomem, _) => .err .system s.flatpos
        | (.oob, _) => .oob := rfl

theorem scan_step (f : File) (fuel : Nat) (s0 : Scan) (pos size : Nat)
    (h1 : toS64 (be64 f s0.flatpos) = (pos : Int))
    (h2 : toS64 (be64 f (s0.flatpos + 8)) = (size : Int)) (hs : 0 < size) (hwf : WF s0.map) :
    scan f (fuel+1) s0 =
      if s0.flatpos + RECHDR + size ≥ S63 then .ub
      else scan f fuel ⟨(mapSet s0.map pos ⟨size - 1, (s0.offs.length : Int)⟩ true).2,
        s0.offs ++ [((s0.flatpos + RECHDR : Nat) : Int) - (pos : Int)], s0.flatpos + RECHDR + size⟩ := by
  have hp := toS64_be64_lt h1
  have hz := toS64_be64_lt h2
  have hg : pos + (size - 1) < W := by simp only [W, S63] at *; omega
  have hok := Kdf.Props.C10.set_ok s0.map hwf pos ⟨size - 1, (s0.offs.length : Int)⟩ hg
  rw [scan_succ, h1, h2]
  have n1 : ¬ ((pos : Int) = -1) := by omega
  have n2 : ¬ ((pos : Int) < 0) := by omega
  have n3 : ¬ ((size : Int) ≤ 0) := by omega
  simp only [n1, n2, n3, if_false, Int.toNat_natCast]
  generalize mapSet s0.map pos ⟨size - 1, (s0.offs.length : Int)⟩ true = X at hok ⊢
  obtain ⟨st, m'⟩ := X
  simp only at hok
  subst hok
  rfl

/-! ### `cover` and `rearranged` over appended records -/

theorem coverFrom_append (xs ys : List Rec) (i : Nat) (acc : Int) (p : Nat) :
    coverFrom (xs ++ ys) i acc p = coverFrom ys (i + xs.length) (coverFrom xs i acc p) p := by
  induction xs generalizing i acc with
  | nil => simp [coverFrom]
  | cons x xs ih =>
    simp only [List.cons_append, coverFrom, List.length_cons]
    rw [ih]
    congr 1; omega

theorem cover_concat (recs : List Rec) (r : Rec) (p : Nat) :
    cover (recs ++ [r]) p = if r.covers p then (recs.length : Int) else cover recs p := by
  simp [cover, coverFrom_append, coverFrom]

theorem rearranged_concat (f : File) (recs : List Rec) (r : Rec) (p : Nat) :
    rearranged f (recs ++ [r]) p =
      if r.covers p then f (r.dpos + (p - r.pos)) % 256 else rearranged f recs p := by
  simp [rearranged, List.foldl_append]

theorem coverFrom_none (recs : List Rec) (i : Nat) (acc : Int) (p : Nat)
    (h : ∀ r ∈ recs, ¬ r.covers p) : coverFrom recs i acc p = acc := by
  induction recs generalizing i acc with
  | nil => rfl
  | cons x xs ih =>
    simp only [coverFrom]
    rw [if_neg (h x (List.mem_cons_self ..)), ih _ _ (fun r hr => h r (List.mem_cons_of_mem _ hr))]

theorem cover_spec_rev (f : File) (p : Nat) (l : List Rec) :
    (cover l.reverse p = NONE ∧ rearranged f l.reverse p = 0) ∨
    (∃ (k : Nat) (r : Rec), cover l.reverse p = (k : Int) ∧ l.reverse[k]? = some r ∧ r.covers p ∧
      rearranged f l.reverse p = f (r.dpos + (p - r.pos)) % 256) := by
  induction l with
  | nil => left; simp [cover, coverFrom, rearranged]
  | cons a l ih =>
    rw [List.reverse_cons, cover_concat, rearranged_concat]
    by_cases hc : a.covers p
    · right
      exact ⟨l.reverse.length, a, by rw [if_pos hc], by simp, hc, by rw [if_pos hc]⟩
    · rw [if_neg hc, if_neg hc]
      rcases ih with h | ⟨k, r, h1, h2, h3, h4⟩
      · exact Or.inl h
      · refine Or.inr ⟨k, r, h1, ?_, h3, h4⟩
        have hk : k < l.reverse.length := (List.getElem?_eq_some_iff.1 h2).1
        rw [List.getElem?_append_left hk]; exact h2

theorem cover_spec (f : File) (recs : List Rec) (p : Nat) :
    (cover recs p = NONE ∧ rearranged f recs p = 0) ∨
    (∃ (k : Nat) (r : Rec), cover recs p = (k : Int) ∧ recs[k]? = some r ∧ r.covers p ∧
      rearranged f recs p = f (r.dpos + (p - r.pos)) % 256) := by
  have h := cover_spec_rev f p recs.reverse
  rw [List.reverse_reverse] at h
  exact h

theorem offAt_nat (l : List Int) (k : Nat) : offAt l (k : Int) = l[k]? := by
  have : ¬ ((k : Int) < 0) := by omega
  simp [offAt, this]

/-! ### The invariant is preserved by one record -/

theorem inv_step (recs0 : List Rec) (s0 : Scan) (pos size dpos fp : Nat)
    (hi : Inv recs0 s0) (hpos : pos < S63) (hsize : size < S63) (hs : 0 < size) :
    Inv (recs0 ++ [⟨pos, size, dpos⟩])
      ⟨(mapSet s0.map pos ⟨size - 1, (s0.offs.length : Int)⟩ true).2,
        s0.offs ++ [(dpos : Int) - (pos : Int)], fp⟩ := by
  obtain ⟨hwf, hoffs, hden, hb⟩ := hi
  have hg : pos + (size - 1) < W := by simp only [W, S63] at *; omega
  have hlen : s0.offs.length = recs0.length := by rw [hoffs, List.length_map]
  refine ⟨Or.inr (Kdf.Props.C10.set_wf _ hwf _ ⟨size - 1, (s0.offs.length : Int)⟩ hg).2, ?_, ?_, ?_⟩
  · simp [hoffs]
  · intro p hp
    show den (mapSet s0.map pos ⟨size - 1, (s0.offs.length : Int)⟩ true).2 0 p = _
    rw [Kdf.Props.C10.set_den _ hwf _ ⟨size - 1, (s0.offs.length : Int)⟩ hg p hp, cover_concat,
      hden p hp, hlen]
    by_cases hc : (⟨pos, size, dpos⟩ : Rec).covers p
    · have hc' : pos ≤ p ∧ p ≤ pos + (size - 1) := by
        unfold Rec.covers at hc; simp only at hc; omega
      rw [if_pos hc, if_pos hc']
    · have hc' : ¬ (pos ≤ p ∧ p ≤ pos + (size - 1)) := by
        unfold Rec.covers at hc; simp only at hc; omega
      rw [if_neg hc, if_neg hc']
  · intro r hr
    rcases List.mem_append.1 hr with h | h
    · exact hb r h
    · simp at h; subst h; exact ⟨hpos, hsize⟩

/-- soundness: a successful scan has read exactly a well-formed record list and
its state satisfies the invariant for it -/
theorem scan_inv (f : File) (fuel : Nat) (s0 s : Scan) (recs0 : List Rec)
    (h : scan f fuel s0 = .ok s) (hi : Inv recs0 s0) :
    ∃ recs, Parsed f s0.flatpos recs ∧ Inv (recs0 ++ recs) s := by
  induction fuel generalizing s0 recs0 with
  | zero => simp [scan] at h
  | succ fuel ih =>
    by_cases c1 : toS64 (be64 f s0.flatpos) = -1
    · rw [scan_succ, if_pos c1] at h
      injection h with h; subst h
      exact ⟨[], Parsed.done c1, by simpa using hi⟩
    · by_cases c2 : toS64 (be64 f s0.flatpos) < 0
      · rw [scan_succ, if_neg c1, if_pos c2] at h; cases h
      · by_cases c3 : toS64 (be64 f (s0.flatpos + 8)) ≤ 0
        · rw [scan_succ, if_neg c1, if_neg c2, if_pos c3] at h; cases h
        · obtain ⟨pos, h1⟩ : ∃ n : Nat, toS64 (be64 f s0.flatpos) = (n : Int) :=
            ⟨_, (Int.toNat_of_nonneg (by omega)).symm⟩
          obtain ⟨size, h2⟩ : ∃ n : Nat, toS64 (be64 f (s0.flatpos + 8)) = (n : Int) :=
            ⟨_, (Int.toNat_of_nonneg (by omega)).symm⟩
          have hs : 0 < size := by omega
          rw [scan_step f fuel s0 pos size h1 h2 hs hi.1] at h
          split at h
          · cases h
          · have hinv := inv_step recs0 s0 pos size (s0.flatpos + RECHDR) (s0.flatpos + RECHDR + size)
              hi (toS64_be64_lt h1) (toS64_be64_lt h2) hs
            obtain ⟨recs, hp, hi'⟩ := ih _ _ h hinv
            refine ⟨⟨pos, size, s0.flatpos + RECHDR⟩ :: recs, Parsed.more pos size h1 h2 hs hp, ?_⟩
            simpa [List.append_assoc] using hi'

theorem scan_complete_aux (f : File) (q : Nat) (recs : List Rec) (hp : Parsed f q recs) :
    ∀ (fuel : Nat) (s0 : Scan) (recs0 : List Rec), s0.flatpos = q → Fits recs → Inv recs0 s0 →
      recs.length < fuel → ∃ s, scan f fuel s0 = .ok s := by
  induction hp with
  | done h =>
    intro fuel s0 recs0 hq _ _ hfuel
    cases fuel with
    | zero => simp at hfuel
    | succ fuel => subst hq; exact ⟨s0, by rw [scan_succ, if_pos h]⟩
  | more pos size h1 h2 hs hrest ih =>
    intro fuel s0 recs0 hq hf hi hfuel
    subst hq
    cases fuel with
    | zero => simp at hfuel
    | succ fuel =>
      rw [scan_step f fuel s0 pos size h1 h2 hs hi.1]
      have hfit : s0.flatpos + RECHDR + size < S63 := hf _ (List.mem_cons_self ..)
      rw [if_neg (by omega)]
      exact ih fuel _ (recs0 ++ [⟨pos, size, s0.flatpos + RECHDR⟩]) rfl
        (fun r hr => hf r (List.mem_cons_of_mem _ hr))
        (inv_step recs0 s0 pos size (s0.flatpos + RECHDR) (s0.flatpos + RECHDR + size)
          hi (toS64_be64_lt h1) (toS64_be64_lt h2) hs)
        (by simpa using hfuel)

/-- completeness: every well-formed record list that stays inside `off_t` is accepted -/
theorem scan_complete (f : File) (fuel : Nat) (s0 : Scan) (recs0 recs : List Rec)
    (hp : Parsed f s0.flatpos recs) (hf : Fits recs) (hi : Inv recs0 s0) (hfuel : recs.length < fuel) :
    ∃ s, scan f fuel s0 = .ok s :=
  scan_complete_aux f s0.flatpos recs hp fuel s0 recs0 rfl hf hi hfuel

/-- termination: on a file of `n` bytes (zero beyond), `n + 2` iterations are
never exhausted (each record consumes at least 17 bytes, and a header read
beyond the end of the file is rejected) -/
theorem scan_terminates (f : File) (n : Nat) (hz : ∀ i, n ≤ i → f i = 0) (fuel : Nat) (s0 : Scan)
    (h0 : 0 < fuel) (hfuel : n + 2 ≤ s0.flatpos + fuel) :
    scan f fuel s0 ≠ .fuel := by
  induction fuel generalizing s0 with
  | zero => omega
  | succ fuel ih =>
    by_cases c1 : toS64 (be64 f s0.flatpos) = -1
    · rw [scan_succ, if_pos c1]; nofun
    · by_cases c2 : toS64 (be64 f s0.flatpos) < 0
      · rw [scan_succ, if_neg c1, if_pos c2]; nofun
      · by_cases c3 : toS64 (be64 f (s0.flatpos + 8)) ≤ 0
        · rw [scan_succ, if_neg c1, if_neg c2, if_pos c3]; nofun
        · have hlt : s0.flatpos < n := by
            apply Classical.byContradiction
            intro hge
            have e : be64 f (s0.flatpos + 8) = 0 := be64_zero f n hz _ (by omega)
            rw [e, toS64_zero] at c3
            exact c3 (Int.le_refl 0)
          rw [scan_succ, if_neg c1, if_neg c2, if_neg c3]
          split
          · split
            · nofun
            · refine ih _ (by omega) ?_
              show n + 2 ≤ s0.flatpos + 16 + (toS64 (be64 f (s0.flatpos + 8))).toNat + fuel
              omega
          · nofun
          · nofun

/-! ### Consequences of the invariant -/

theorem total_mem_single {m : Map} {r : Range} (hr : r ∈ m) (h : r.endoff + 1 = total m) :
    m = [r] := by
  obtain ⟨P, S, rfl⟩ := List.append_of_mem hr
  simp only [total_append, total_cons] at h
  have hP : P = [] := by
    cases P with
    | nil => rfl
    | cons x xs => simp only [total_cons] at h; omega
  have hS : S = [] := by
    cases S with
    | nil => rfl
    | cons x xs => simp only [total_cons] at h; omega
  subst hP hS; rfl

/-- no segment of a scanned map spans the whole address space -/
theorem inv_full (recs : List Rec) (s : Scan) (hi : Inv recs s) : NoFullSeg s.map := by
  obtain ⟨hwf, _, hden, hb⟩ := hi
  intro r hr hfull
  have ht : total s.map = W := by
    rcases hwf with h | h
    · rw [h] at hr; cases hr
    · exact h
  have hm : s.map = [r] := total_mem_single hr (by rw [ht]; exact hfull)
  have h1 := hden (W - 1) (by simp only [W]; omega)
  have hc : cover recs (W - 1) = NONE := coverFrom_none _ _ _ _ (fun r' hr' hcov => by
    have hbr := hb r' hr'
    unfold Rec.covers at hcov
    simp only [W, S63] at hcov hbr; omega)
  rw [hc, hm] at h1
  simp only [den] at h1
  rw [if_pos (by omega)] at h1
  exact h1

/-- the invariant makes every position valid for the read functions -/
theorem inv_valid (recs : List Rec) (s : Scan) (hi : Inv recs s) (pos len : Nat) (hlen : pos + len ≤ W) :
    ValidOn s.map s.offs pos len := by
  obtain ⟨hwf, hoffs, hden, hb⟩ := hi
  intro p hp1 hp2 hne
  have hpW : p < W := by omega
  rw [hden p hpW] at hne ⊢
  rcases cover_spec (fun _ => 0) recs p with ⟨h, _⟩ | ⟨k, r, h1, h2, h3, _⟩
  · exact absurd h hne
  · refine ⟨(r.dpos : Int) - r.pos, ?_, ?_⟩
    · rw [h1, hoffs, offAt_nat, List.getElem?_map, h2]; rfl
    · unfold Rec.covers at h3; omega

/-- under the invariant, the value through the map is the rearranged file -/
theorem inv_viaMap (f : File) (recs : List Rec) (s : Scan) (hi : Inv recs s) (p : Nat) (hp : p < W) :
    viaMap s.map s.offs f p = rearranged f recs p := by
  obtain ⟨hwf, hoffs, hden, hb⟩ := hi
  simp only [viaMap]
  rw [hden p hp]
  rcases cover_spec f recs p with ⟨h, h0⟩ | ⟨k, r, h1, h2, h3, h4⟩
  · rw [h, h0, if_pos rfl]
  · have hne : ¬ ((k : Int) = NONE) := by simp only [NONE]; omega
    rw [h1, h4, if_neg hne, offAt_nat, hoffs, List.getElem?_map, h2]
    have e : ((p : Int) + ((r.dpos : Int) - (r.pos : Int))).toNat = r.dpos + (p - r.pos) := by
      unfold Rec.covers at h3; omega
    simp only [Option.map_some, e]

end Kdf.Lemmas.Flat
