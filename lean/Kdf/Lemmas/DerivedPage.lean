import Kdf.Model.Derived
/-! Helper lemmas and proofs for the page size / page shift pair (C14). -/
namespace Kdf.Lemmas.DerivedPage
open Kdf.Model.Derived

/-- coherence of the two views -/
def Coh (p : Page) : Prop :=
  match p.size, p.shift with
  | none, none => True
  | some v, some s => s < 64 ∧ v = 2 ^ s
  | _, _ => False

/-! ### bit lemmas -/

/-- a number AND its complement within `n` bits is 0 -/
theorem and_compl_eq_zero (n u : Nat) (hu : u < 2 ^ n) : u &&& (2 ^ n - (u + 1)) = 0 := by
  apply Nat.eq_of_testBit_eq
  intro i
  rw [Nat.testBit_and, Nat.testBit_two_pow_sub_succ hu]
  cases Nat.testBit u i <;> simp

/-- generalisation of the bit trick to `n` bits -/
theorem core (n : Nat) : ∀ v, 0 < v → v < 2 ^ n → v = v &&& (2 ^ n - v) →
    ∃ s, s < n ∧ v = 2 ^ s ∧ ffslGo n v = s + 1 := by
  induction n with
  | zero => intro v h0 h1; simp at h1; omega
  | succ n ih =>
    intro v h0 hlt h
    have hp : 2 ^ (n + 1) = 2 * 2 ^ n := by rw [Nat.pow_succ]; omega
    have hdiv : v / 2 = v / 2 &&& (2 ^ (n + 1) - v) / 2 := by
      rw [← Nat.and_div_two, ← h]
    by_cases hodd : v % 2 = 1
    · -- odd: the higher bits vanish
      have hm : (2 ^ (n + 1) - v) / 2 = 2 ^ n - (v / 2 + 1) := by omega
      rw [hm, and_compl_eq_zero n (v / 2) (by omega)] at hdiv
      have hv1 : v = 1 := by omega
      subst hv1
      refine ⟨0, by omega, by simp, ?_⟩
      simp [ffslGo]
    · have hm : (2 ^ (n + 1) - v) / 2 = 2 ^ n - v / 2 := by omega
      rw [hm] at hdiv
      obtain ⟨s, hs, hv, hf⟩ := ih (v / 2) (by omega) (by omega) hdiv
      refine ⟨s + 1, by omega, ?_, ?_⟩
      · rw [Nat.pow_succ, ← hv]; omega
      · simp [ffslGo, hodd, hf]

/-- converse direction, `n` bits -/
theorem core_conv (n : Nat) : ∀ s, s < n →
    2 ^ s &&& (2 ^ n - 2 ^ s) = 2 ^ s ∧ ffslGo n (2 ^ s) = s + 1 := by
  induction n with
  | zero => intro s hs; omega
  | succ n ih =>
    intro s hs
    have hp : 2 ^ (n + 1) = 2 * 2 ^ n := by rw [Nat.pow_succ]; omega
    cases s with
    | zero =>
      refine ⟨?_, by simp [ffslGo]⟩
      have hpos : 0 < 2 ^ n := Nat.pow_pos (by omega)
      apply Nat.eq_of_testBit_eq
      intro i
      cases i with
      | zero => simp [Nat.testBit_zero]
      | succ i =>
        rw [Nat.testBit_and, Nat.testBit_succ]; simp
    | succ s =>
      obtain ⟨h1, h2⟩ := ih s (by omega)
      have hps : 2 ^ (s + 1) = 2 * 2 ^ s := by rw [Nat.pow_succ]; omega
      have hpos : 0 < 2 ^ s := Nat.pow_pos (by omega)
      refine ⟨?_, ?_⟩
      · have e : 2 ^ (n + 1) - 2 ^ (s + 1) = (2 ^ n - 2 ^ s) <<< 1 := by
          rw [Nat.shiftLeft_eq]; omega
        have e2 : 2 ^ (s + 1) = (2 ^ s) <<< 1 := by rw [Nat.shiftLeft_eq]; omega
        rw [e]
        conv => lhs; arg 1; rw [e2]
        rw [← Nat.shiftLeft_and_distrib, h1, ← e2]
      · have hm : 2 ^ (s + 1) % 2 ≠ 1 := by omega
        have hd : 2 ^ (s + 1) / 2 = 2 ^ s := by omega
        simp [ffslGo, hm, hd, h2]

/-- the bit trick of `page_size_pre_hook` accepts exactly the powers of two below 2^64,
and `ffsl` then returns the exponent + 1 -/
theorem lowMask_pow2 (v : Nat) (h0 : v ≠ 0) (h : v = lowMask v) :
    ∃ s, s < 64 ∧ v = 2 ^ s ∧ ffsl v = s + 1 := by
  unfold lowMask at h
  by_cases hlt : v < 2 ^ 64
  · have e : (W - 1) - (v - 1) = 2 ^ 64 - v := by simp only [W]; omega
    rw [e] at h
    exact core 64 v (by omega) hlt h
  · have e : (W - 1) - (v - 1) = 0 := by simp only [W]; omega
    rw [e, Nat.and_zero] at h
    exact absurd h h0

theorem pow2_lowMask (s : Nat) (hs : s < 64) : lowMask (2 ^ s) = 2 ^ s ∧ ffsl (2 ^ s) = s + 1 := by
  obtain ⟨h1, h2⟩ := core_conv 64 s hs
  have hpos : 0 < 2 ^ s := Nat.pow_pos (by omega)
  have hlt : 2 ^ s < 2 ^ 64 := Nat.pow_lt_pow_right (by omega) hs
  refine ⟨?_, h2⟩
  unfold lowMask
  have e : (W - 1) - (2 ^ s - 1) = 2 ^ 64 - 2 ^ s := by simp only [W]; omega
  rw [e, h1]


/-! ### one-step unfoldings -/

theorem setSize_succ (f : Nat) (p : Page) (v : Nat) :
    setSize (f + 1) p v =
      if p.size = some v then .done .ok p
      else if v = 0 ∨ v ≠ lowMask v then .done .corrupt p
      else
        match setShift f p ((ffsl v + W - 1) % W) with
        | .done .ok p' => .done .ok { p' with size := some v }
        | r => r := by
  rw [setSize]; rfl

theorem setShift_succ (f : Nat) (p : Page) (s : Nat) :
    setShift (f + 1) p s =
      if p.shift = some s then .done .ok p
      else if s ≥ 64 then .done .corrupt p
      else
        let p1 := { p with shift := some s }
        if s ≥ 64 then .ub else setSize f p1 (2 ^ s) := by
  rw [setShift]

theorem ffsl_dec (v s : Nat) (hs : s < 64) (h : ffsl v = s + 1) : (ffsl v + W - 1) % W = s := by
  rw [h]
  have : s + 1 + W - 1 = s + W := by omega
  rw [this, Nat.add_mod_right]
  exact Nat.mod_eq_of_lt (by simp only [W]; omega)

theorem pow2_ne_zero (s : Nat) : (2 : Nat) ^ s ≠ 0 := Nat.ne_of_gt (Nat.pow_pos (by omega))

/-- inner `setSize` call made by the shift post hook: the shift is already stored -/
theorem setSize_inner (f : Nat) (sz : Option Nat) (s : Nat) (hs : s < 64) :
    setSize (f + 2) ⟨sz, some s⟩ (2 ^ s) = .done .ok ⟨some (2 ^ s), some s⟩ := by
  obtain ⟨hm, hf⟩ := pow2_lowMask s hs
  rw [setSize_succ]
  by_cases h : sz = some (2 ^ s)
  · simp [h]
  · have h2 : ¬ (2 ^ s = 0 ∨ 2 ^ s ≠ lowMask (2 ^ s)) := by
      rw [hm]; simp
    simp only [h, h2, if_false]
    rw [ffsl_dec _ s hs hf, setShift_succ]
    simp

theorem setShift_main (f : Nat) (sz sh : Option Nat) (s : Nat) (hs : s < 64) (h : sh ≠ some s) :
    setShift (f + 3) ⟨sz, sh⟩ s = .done .ok ⟨some (2 ^ s), some s⟩ := by
  rw [setShift_succ]
  have h64 : ¬ s ≥ 64 := by omega
  simp only [h, h64, if_false]
  exact setSize_inner f sz s hs

/-- every set (successful or refused) keeps the views coherent, never runs into
undefined behaviour and never exhausts the recursion fuel (any fuel ≥ 4) -/
theorem setSize_coh (f : Nat) (hf : 4 ≤ f) (p : Page) (hp : Coh p) (v : Nat) :
    ∃ st p', setSize f p v = .done st p' ∧ Coh p' ∧ (st = .ok → p'.size = some v) ∧ (st ≠ .ok → p' = p) := by
  obtain ⟨f', rfl⟩ : ∃ f', f = f' + 4 := ⟨f - 4, by omega⟩
  rw [setSize_succ]
  by_cases h1 : p.size = some v
  · exact ⟨.ok, p, by simp [h1], hp, fun _ => h1, fun h => absurd rfl h⟩
  · by_cases h2 : v = 0 ∨ v ≠ lowMask v
    · exact ⟨.corrupt, p, by simp [h1, h2], hp, fun h => (by cases h), fun _ => rfl⟩
    · simp only [h1, h2, if_false]
      have hv0 : v ≠ 0 := fun h => h2 (Or.inl h)
      have hvm : v = lowMask v := Classical.byContradiction fun h => h2 (Or.inr h)
      obtain ⟨s, hs, rfl, hfs⟩ := lowMask_pow2 v hv0 hvm
      rw [ffsl_dec _ s hs hfs]
      obtain ⟨sz, sh⟩ := p
      by_cases h3 : sh = some s
      · subst h3
        refine ⟨.ok, ⟨some (2 ^ s), some s⟩, ?_, ?_, fun _ => rfl, fun h => absurd rfl h⟩
        · rw [setShift_succ]; simp
        · simp [Coh, hs]
      · refine ⟨.ok, ⟨some (2 ^ s), some s⟩, ?_, ?_, fun _ => rfl, fun h => absurd rfl h⟩
        · rw [setShift_main f' sz sh s hs h3]
        · simp [Coh, hs]

theorem setShift_coh (f : Nat) (hf : 4 ≤ f) (p : Page) (hp : Coh p) (s : Nat) :
    ∃ st p', setShift f p s = .done st p' ∧ Coh p' ∧ (st = .ok → p'.shift = some s) ∧ (st ≠ .ok → p' = p) := by
  obtain ⟨f', rfl⟩ : ∃ f', f = f' + 4 := ⟨f - 4, by omega⟩
  by_cases h1 : p.shift = some s
  · exact ⟨.ok, p, by rw [setShift_succ]; simp [h1], hp, fun _ => h1, fun h => absurd rfl h⟩
  · by_cases h2 : s ≥ 64
    · exact ⟨.corrupt, p, by rw [setShift_succ]; simp [h1, h2], hp, fun h => (by cases h), fun _ => rfl⟩
    · obtain ⟨sz, sh⟩ := p
      refine ⟨.ok, ⟨some (2 ^ s), some s⟩, setShift_main (f' + 1) sz sh s (by omega) h1, ?_,
        fun _ => rfl, fun h => absurd rfl h⟩
      simp [Coh]; omega

/-- a set is refused exactly for values that are not a power of two below 2^64 -/
theorem setSize_ok_iff (p : Page) (hp : Coh p) (v : Nat) :
    (∃ p', setSize pageFuel p v = .done .ok p') ↔ ∃ s, s < 64 ∧ v = 2 ^ s := by
  constructor
  · rintro ⟨p', h⟩
    have hf : pageFuel = 7 + 1 := rfl
    rw [hf, setSize_succ] at h
    by_cases h1 : p.size = some v
    · obtain ⟨sz, sh⟩ := p
      simp only at h1
      subst h1
      cases sh with
      | none => simp [Coh] at hp
      | some s => exact ⟨s, by simpa [Coh] using hp⟩
    · by_cases h2 : v = 0 ∨ v ≠ lowMask v
      · simp [h1, h2] at h
      · have hv0 : v ≠ 0 := fun h => h2 (Or.inl h)
        have hvm : v = lowMask v := Classical.byContradiction fun h => h2 (Or.inr h)
        obtain ⟨s, hs, hv, _⟩ := lowMask_pow2 v hv0 hvm
        exact ⟨s, hs, hv⟩
  · rintro ⟨s, hs, rfl⟩
    obtain ⟨st, p', he, _, _, hne⟩ := setSize_coh pageFuel (by decide) p hp (2 ^ s)
    by_cases hst : st = .ok
    · subst hst; exact ⟨p', he⟩
    · -- a refusal is impossible for a power of two
      exfalso
      have hpp := hne hst
      subst hpp
      have hf : pageFuel = 7 + 1 := rfl
      rw [hf, setSize_succ] at he
      obtain ⟨hm, hfs⟩ := pow2_lowMask s hs
      by_cases h1 : p'.size = some (2 ^ s)
      · simp [h1] at he; exact hst he.symm
      · have h2 : ¬ (2 ^ s = 0 ∨ 2 ^ s ≠ lowMask (2 ^ s)) := by rw [hm]; simp
        simp only [h1, h2, if_false] at he
        rw [ffsl_dec _ s hs hfs] at he
        obtain ⟨sz, sh⟩ := p'
        by_cases h3 : sh = some s
        · subst h3
          rw [setShift_succ] at he
          simp at he
          exact hst he.1.symm
        · rw [setShift_main 4 sz sh s hs h3] at he
          simp at he
          exact hst he.1.symm

end Kdf.Lemmas.DerivedPage
