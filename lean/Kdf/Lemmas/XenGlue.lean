import Kdf.Lemmas.XenSearch
import Kdf.Lemmas.XenBuild
import Kdf.Spec.XenIndex
/-!
# C19 — from the two halves to the statements about lists and dumps
-/
namespace Kdf.Lemmas.Xen
open Kdf.Model.Xen Kdf.Spec.XenIndex

/-- every listed frame is found with its position -/
theorem found_of_build (ok : Nat → Bool) (junk : Nat) (l : List Nat) (m : PMap)
    (hl : ∀ p ∈ l, p < W) (hnd : l.Nodup) (hlen : l.length < 2^63)
    (hb : build ok junk l = some m) (i p : Nat) (hi : l[i]? = some p) :
    search m p = i := by
  obtain ⟨hs, hc⟩ := build_spec ok junk l m hl hnd hlen hb
  have hpl : p ∈ l := List.mem_of_getElem? hi
  have hpW : p < W := hl p hpl
  by_cases hr : InRange m p
  · obtain ⟨r, hrm, h1, h2⟩ := hr
    have hsr := search_in_range m hs p hpW r hrm h1 h2
    have hcov : Covers m p (search m p) := Or.inl ⟨r, hrm, h1, h2, hsr.symm⟩
    have hj : l[search m p]? = some p := (hc p (search m p)).mp hcov
    have hlt : search m p < l.length := by
      rcases Nat.lt_or_ge (search m p) l.length with h | h
      · exact h
      · rw [List.getElem?_eq_none h] at hj; cases hj
    exact (List.getElem?_inj hlt hnd).mp (hj.trans hi.symm)
  · have hcov : Covers m p i := (hc p i).mpr hi
    rcases hcov with ⟨r, hrm, h1, h2, _⟩ | ⟨s, hsm, hsp, hsi⟩
    · exact absurd ⟨r, hrm, h1, h2⟩ hr
    · rw [search_single m hs p hpW hr s hsm hsp, hsi]

/-- an unlisted frame is not found -/
theorem none_of_build (ok : Nat → Bool) (junk : Nat) (l : List Nat) (m : PMap)
    (hl : ∀ p ∈ l, p < W) (hnd : l.Nodup) (hlen : l.length < 2^63)
    (hb : build ok junk l = some m) (p : Nat) (hp : p < W) (hn : p ∉ l) :
    search m p = IDX_NONE := by
  obtain ⟨hs, hc⟩ := build_spec ok junk l m hl hnd hlen hb
  have hnr : ¬ InRange m p := by
    intro hr
    obtain ⟨r, hrm, h1, h2⟩ := hr
    have hsr := search_in_range m hs p hp r hrm h1 h2
    have hcov : Covers m p (search m p) := Or.inl ⟨r, hrm, h1, h2, hsr.symm⟩
    exact hn (List.mem_of_getElem? ((hc p (search m p)).mp hcov))
  refine search_none m hs p hp hnr ?_
  intro s hsm hsp
  have hcov : Covers m p s.idx := Or.inr ⟨s, hsm, hsp, rfl⟩
  exact hn (List.mem_of_getElem? ((hc p s.idx).mp hcov))

theorem lookupFrom_of_getElem (l : List Nat) (hnd : l.Nodup) (k i p : Nat) (hi : l[i]? = some p) :
    lookupFrom l k p = k + i := by
  induction l generalizing k i with
  | nil => simp at hi
  | cons x xs ih =>
    have hnd' := List.nodup_cons.mp hnd
    cases i with
    | zero =>
      simp at hi
      simp [lookupFrom, hi]
    | succ j =>
      simp at hi
      have hp : p ∈ xs := List.mem_of_getElem? hi
      have hx : x ≠ p := by
        intro h; subst h; exact hnd'.1 hp
      simp only [lookupFrom]
      rw [if_neg hx, ih hnd'.2 (k+1) j hi]; omega

theorem lookupFrom_of_not_mem (l : List Nat) (k p : Nat) (hn : p ∉ l) : lookupFrom l k p = NONE := by
  induction l generalizing k with
  | nil => rfl
  | cons x xs ih =>
    have hx : x ≠ p := fun h => hn (by simp [h])
    have hxs : p ∉ xs := fun h => hn (List.mem_cons_of_mem _ h)
    simp only [lookupFrom]
    rw [if_neg hx, ih (k+1) hxs]

theorem lookup_of_getElem (l : List Nat) (hnd : l.Nodup) (i p : Nat) (hi : l[i]? = some p) :
    lookup l p = i := by
  unfold lookup
  rw [lookupFrom_of_getElem l hnd 0 i p hi]; omega

theorem lookup_of_not_mem (l : List Nat) (p : Nat) (hn : p ∉ l) : lookup l p = NONE :=
  lookupFrom_of_not_mem l 0 p hn

/-- an index into a list of fewer than `2^63` entries is not `IDX_NONE` -/
theorem idx_ne_none (n i : Nat) (hn : n < 2^63) (hi : i < n) : i ≠ IDX_NONE := by
  have h63 : (2:Nat)^63 = 9223372036854775808 := by decide
  have hN : IDX_NONE = 18446744073709551615 := by decide
  rw [hN]; omega

/-- address arithmetic of the first-step functions: a frame below `2^(64-shift)`
and an offset below the page size -/
theorem addr_div (shift f off : Nat) (hoff : off < 2^shift) : (f * 2^shift + off) / 2^shift = f := by
  rw [Nat.mul_comm, Nat.mul_add_div (Nat.two_pow_pos shift), Nat.div_eq_of_lt hoff, Nat.add_zero]
theorem addr_mod (shift f off : Nat) (hoff : off < 2^shift) : (f * 2^shift + off) % 2^shift = off := by
  rw [Nat.mul_add_mod', Nat.mod_eq_of_lt hoff]
theorem addr_lt (shift f off : Nat) (hs : shift ≤ 64) (hf : f < 2^(64 - shift)) (hoff : off < 2^shift) :
    f * 2^shift + off < W := by
  have h1 : (f + 1) * 2^shift ≤ 2^(64 - shift) * 2^shift := Nat.mul_le_mul_right _ hf
  have h2 : 2^(64 - shift) * 2^shift = W := by
    rw [← Nat.pow_add, Nat.sub_add_cancel hs]
  rw [h2, Nat.add_mul, Nat.one_mul] at h1
  omega

theorem frame_lt_W (shift f : Nat) (hf : f < 2^(64 - shift)) : f < W :=
  Nat.lt_of_lt_of_le hf (Nat.pow_le_pow_right (by decide) (Nat.sub_le 64 shift))

/-! ## the dump -/

theorem mkDump_nonauto (okP okM : Nat → Bool) (jP jM : Nat) (be : Bool) (shift mapOff pagesOff : Nat)
    (tbl : List Entry) (d : Dump)
    (hd : mkDump okP okM jP jM true be shift mapOff pagesOff tbl = some d) :
    ∃ pm mm, build okP jP (pfns be tbl) = some pm ∧ build okM jM (mfns be tbl) = some mm ∧
      d = ⟨true, be, shift, mapOff, pagesOff, tbl, pm, mm⟩ := by
  simp only [mkDump] at hd
  split at hd
  · cases hd
  · rename_i pm hpm
    simp only [if_true] at hd
    split at hd
    · cases hd
    · rename_i mm hmm
      exact ⟨pm, mm, hpm, hmm, (Option.some.inj hd).symm⟩

theorem mkDump_auto (okP okM : Nat → Bool) (jP jM : Nat) (be : Bool) (shift mapOff pagesOff : Nat)
    (tbl : List Entry) (d : Dump)
    (hd : mkDump okP okM jP jM false be shift mapOff pagesOff tbl = some d) :
    ∃ pm, build okP jP (pfns be tbl) = some pm ∧
      d = ⟨false, be, shift, mapOff, pagesOff, tbl, pm, ⟨[], []⟩⟩ := by
  simp only [mkDump] at hd
  split at hd
  · cases hd
  · rename_i pm hpm
    simp at hd
    exact ⟨pm, hpm, hd.symm⟩

theorem p2m_ok (d : Dump) (f i off : Nat) (e : Entry) (hs : d.shift ≤ 64)
    (hsearch : search d.pfnmap f = i) (hne : i ≠ IDX_NONE) (he : d.tbl[i]? = some e)
    (hm : toh d.be e.mfn < 2^(64 - d.shift)) (hoff : off < 2^d.shift) :
    p2m d (f * 2^d.shift + off) = .ok (toh d.be e.mfn * 2^d.shift + off) := by
  have hb : toh d.be e.mfn * 2^d.shift < W := by
    simpa using addr_lt d.shift _ 0 hs hm (Nat.two_pow_pos _)
  have hr := addr_lt d.shift _ off hs hm hoff
  unfold p2m p2mFirstStep
  simp only [addr_div d.shift f off hoff, addr_mod d.shift f off hoff, hsearch, if_neg hne,
    readEntry, he, Except.map, finish, Nat.mul_one, Nat.mod_eq_of_lt hb, Nat.mod_eq_of_lt hr]

theorem m2p_ok (d : Dump) (f i off : Nat) (e : Entry) (hs : d.shift ≤ 64)
    (hsearch : search d.mfnmap f = i) (hne : i ≠ IDX_NONE) (he : d.tbl[i]? = some e)
    (hm : toh d.be e.pfn < 2^(64 - d.shift)) (hoff : off < 2^d.shift) :
    m2p d (f * 2^d.shift + off) = .ok (toh d.be e.pfn * 2^d.shift + off) := by
  have hb : toh d.be e.pfn * 2^d.shift < W := by
    simpa using addr_lt d.shift _ 0 hs hm (Nat.two_pow_pos _)
  have hr := addr_lt d.shift _ off hs hm hoff
  unfold m2p m2pFirstStep
  simp only [addr_div d.shift f off hoff, addr_mod d.shift f off hoff, hsearch, if_neg hne,
    readEntry, he, Except.map, finish, Nat.mul_one, Nat.mod_eq_of_lt hb, Nat.mod_eq_of_lt hr]

theorem p2m_nodata (d : Dump) (f off : Nat) (hsearch : search d.pfnmap f = IDX_NONE)
    (hoff : off < 2^d.shift) : p2m d (f * 2^d.shift + off) = .error .nodata := by
  unfold p2m p2mFirstStep
  simp only [addr_div d.shift f off hoff, hsearch, if_true, Except.map]

theorem m2p_nodata (d : Dump) (f off : Nat) (hsearch : search d.mfnmap f = IDX_NONE)
    (hoff : off < 2^d.shift) : m2p d (f * 2^d.shift + off) = .error .nodata := by
  unfold m2p m2pFirstStep
  simp only [addr_div d.shift f off hoff, hsearch, if_true, Except.map]

/-- the map `xc_get_page` consults -/
def pageMap (d : Dump) (as : AS) : PMap := if d.nonauto ∧ as = .machphys then d.mfnmap else d.pfnmap

theorem getPage_ok (d : Dump) (as : AS) (f i off : Nat)
    (hsearch : search (pageMap d as) f = i) (hne : i ≠ IDX_NONE)
    (hi : i < d.tbl.length) (hfile : d.pagesOff + d.tbl.length * 2^d.shift ≤ 2^63)
    (hoff : off < 2^d.shift) :
    getPage d as (f * 2^d.shift + off) = .ok (d.pagesOff + i * 2^d.shift) := by
  have hlt : d.pagesOff + i * 2^d.shift < 2^63 := by
    have h1 : (i + 1) * 2^d.shift ≤ d.tbl.length * 2^d.shift := Nat.mul_le_mul_right _ hi
    have h2 := Nat.two_pow_pos d.shift
    rw [Nat.add_mul, Nat.one_mul] at h1
    omega
  have hidx : (if d.nonauto ∧ as = .machphys then search d.mfnmap f else search d.pfnmap f) = i := by
    rw [← hsearch]; unfold pageMap; split <;> rfl
  unfold getPage
  simp only [addr_div d.shift f off hoff, hidx, if_neg hne, if_pos hlt]

theorem getPage_nodata (d : Dump) (as : AS) (f off : Nat)
    (hsearch : search (pageMap d as) f = IDX_NONE) (hoff : off < 2^d.shift) :
    getPage d as (f * 2^d.shift + off) = .error .nodata := by
  have hidx : (if d.nonauto ∧ as = .machphys then search d.mfnmap f else search d.pfnmap f) = IDX_NONE := by
    rw [← hsearch]; unfold pageMap; split <;> rfl
  unfold getPage
  simp only [addr_div d.shift f off hoff, hidx, if_true]

end Kdf.Lemmas.Xen
