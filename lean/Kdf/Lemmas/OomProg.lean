import Kdf.Model.Oom
import Kdf.Lemmas.Oom
/-! Stage lemmas for C18: what every constructor stage / unwinder does to the ledger. -/
namespace Kdf.Lemmas.Oom
open Kdf.Model.Oom

/-- frame: everything but `cnt`, `live`, `trace` -/
structure Fr (s s' : St) : Prop where
  rd : s'.rd = s.rd
  wr : s'.wr = s.wr
  bad : s'.bad = s.bad
  sh : s'.shRef = s.shRef
  di : s'.dictRef = s.dictRef
  xr : s'.xlatRef = s.xlatRef
  fa : s'.failAt = s.failAt

theorem Fr.refl (s : St) : Fr s s := ⟨rfl, rfl, rfl, rfl, rfl, rfl, rfl⟩

theorem Fr.trans {a b c : St} (h1 : Fr a b) (h2 : Fr b c) : Fr a c :=
  ⟨h2.rd.trans h1.rd, h2.wr.trans h1.wr, h2.bad.trans h1.bad, h2.sh.trans h1.sh,
   h2.di.trans h1.di, h2.xr.trans h1.xr, h2.fa.trans h1.fa⟩

def Hit (s : St) (t : Nat) : Prop := s.cnt < s.failAt ∧ s.failAt ≤ s.cnt + t

/-- a stage that hit the failing allocation within its `t` attempts and still holds `bl` -/
structure Failed (s s' : St) (t : Nat) (bl : List Nat) : Prop where
  live : s'.live = bl ++ s.live
  fr : Fr s s'
  hit : Hit s t

/-- a stage that made `t` successful attempts and holds `bl` -/
structure Done (s s' : St) (t : Nat) (bl : List Nat) : Prop where
  live : s'.live = bl ++ s.live
  fr : Fr s s'
  cnt : s'.cnt = s.cnt + t
  nohit : ¬ Hit s t

/-- an unwinder: the ledger is `l` afterwards -/
structure Unw (s s' : St) (l : List Nat) : Prop where
  live : s'.live = l
  fr : Fr s s'

theorem Unw.trans {a b c : St} {l1 l2 : List Nat} (h1 : Unw a b l1) (h2 : Unw b c l2) : Unw a c l2 :=
  ⟨h2.live, h1.fr.trans h2.fr⟩

theorem Done.refl (s : St) : Done s s 0 [] := ⟨by simp, Fr.refl s, by simp, by unfold Hit; omega⟩

theorem Done.comp {a b c : St} {t1 t2 : Nat} {l1 l2 : List Nat}
    (h1 : Done a b t1 l1) (h2 : Done b c t2 l2) : Done a c (t1 + t2) (l2 ++ l1) := by
  refine ⟨by simp [h2.live, h1.live], h1.fr.trans h2.fr, ?_, ?_⟩
  · have := h1.cnt; have := h2.cnt; omega
  · have := h1.cnt; have := h1.fr.fa; have := h1.nohit; have := h2.nohit
    unfold Hit at *; omega

theorem Done.fail {a b c : St} {t1 t2 : Nat} {l1 l2 : List Nat}
    (h1 : Done a b t1 l1) (h2 : Failed b c t2 l2) : Failed a c (t1 + t2) (l2 ++ l1) := by
  refine ⟨by simp [h2.live, h1.live], h1.fr.trans h2.fr, ?_⟩
  have := h1.cnt; have := h1.fr.fa; have := h1.nohit; have := h2.hit
  unfold Hit at *; omega

theorem Failed.mono {a b : St} {t t' : Nat} {l : List Nat} (h : Failed a b t l) (ht : t ≤ t') :
    Failed a b t' l := by
  refine ⟨h.live, h.fr, ?_⟩
  have := h.hit; unfold Hit at *; omega

theorem Failed.unw {a b c : St} {t : Nat} {l : List Nat} (h : Failed a b t l) (hu : Unw b c a.live) :
    Failed a c t [] :=
  ⟨by simp [hu.live], h.fr.trans hu.fr, h.hit⟩

/-! ### primitive operations -/

theorem alloc_failed {s s' : St} (h : alloc s = (none, s')) : Failed s s' 1 [] := by
  obtain ⟨h1, h2, h3⟩ := alloc_none h
  obtain ⟨a, b, c, d, e, f, g, i⟩ := h3
  exact ⟨by simp [a], ⟨b, c, d, e, f, g, i⟩, by unfold Hit; omega⟩

theorem alloc_done {s s' : St} {i : Nat} (h : alloc s = (some i, s')) : Done s s' 1 [i] := by
  obtain ⟨h1, h2, h3, h4, h5, h6, h7, h8, h9, h10, h11⟩ := alloc_some h
  exact ⟨by simp [h4], ⟨h5, h6, h7, h8, h9, h10, h11⟩, h3, by unfold Hit; omega⟩

theorem free_unw {i : Nat} {s : St} {l : List Nat} (h : s.live = i :: l) : Unw s (free i s) l := by
  obtain ⟨a1, a2, a3, a4, a5, a6, a7, a8, a9⟩ := free_head i s l h
  exact ⟨a1, ⟨a2, a3, a4, a5, a6, a7, a8⟩⟩

theorem freeAll_unw {ids : List Nat} {s : St} {l : List Nat} (h : s.live = ids ++ l) :
    Unw s (freeAll ids s) l := by
  obtain ⟨a1, a2, a3, a4, a5, a6, a7, a8, a9⟩ := freeAll_prefix ids s l h
  exact ⟨a1, ⟨a2, a3, a4, a5, a6, a7, a8⟩⟩

theorem allocN_false {k : Nat} {s s' : St} {ids : List Nat} (h : allocN k s = (false, ids, s')) :
    Failed s s' k ids := by
  have := allocN_spec k s
  simp only [h] at this
  obtain ⟨a1, a2, a3, a4, a5, a6, a7, a8, _, a10⟩ := this
  have := a10 trivial
  exact ⟨a1, ⟨a2, a3, a4, a5, a6, a7, a8⟩, ⟨this.1, this.2.1⟩⟩

theorem allocN_true {k : Nat} {s s' : St} {ids : List Nat} (h : allocN k s = (true, ids, s')) :
    Done s s' k ids ∧ ids.length = k := by
  have := allocN_spec k s
  simp only [h] at this
  obtain ⟨a1, a2, a3, a4, a5, a6, a7, a8, a9, _⟩ := this
  have := a9 trivial
  exact ⟨⟨a1, ⟨a2, a3, a4, a5, a6, a7, a8⟩, this.1, this.2.2⟩, this.2.1⟩

/-! ### alloc_ctx -/

theorem unwindCtx {b : CtxBlocks} {s : St} {l : List Nat} (h : s.live = b.cb :: b.ax :: b.ctx :: l) :
    Unw s (free b.ctx (axDecref b s)) l := by
  unfold axDecref
  have u1 := free_unw h
  have u2 := free_unw u1.live
  have u3 := free_unw u2.live
  exact (u1.trans u2).trans u3

theorem allocCtx_none {s s' : St} (h : allocCtx s = (none, s')) : Failed s s' 3 [] := by
  unfold allocCtx at h
  split at h
  · next s1 h1 =>
    cases h
    exact (alloc_failed h1).mono (by omega)
  · next c s1 h1 =>
    have d1 := alloc_done h1
    split at h
    · next s2 h2 =>
      cases h
      have f := d1.fail (alloc_failed h2)
      exact (f.unw (free_unw (by simpa using f.live))).mono (by omega)
    · next ax s2 h2 =>
      have d2 := d1.comp (alloc_done h2)
      split at h
      · next s3 h3 =>
        cases h
        have f := d2.fail (alloc_failed h3)
        have u1 : Unw s3 (free ax s3) (c :: s.live) := free_unw (by simpa using f.live)
        have u2 := free_unw u1.live
        exact (f.unw (u1.trans u2)).mono (by omega)
      · cases h

theorem allocCtx_some {s s' : St} {b : CtxBlocks} (h : allocCtx s = (some b, s')) :
    Done s s' 3 [b.cb, b.ax, b.ctx] := by
  unfold allocCtx at h
  split at h
  · cases h
  · next c s1 h1 =>
    have d1 := alloc_done h1
    split at h
    · cases h
    · next ax s2 h2 =>
      have d2 := d1.comp (alloc_done h2)
      split at h
      · cases h
      · next cb s3 h3 =>
        cases h
        exact (d2.comp (alloc_done h3))

/-! ### xlat_new / xlat_clone -/

theorem xlatNew_none {s s' : St} (h : xlatNew s = (none, s')) : Failed s s' 2 [] := by
  unfold xlatNew at h
  split at h
  · next s1 h1 =>
    cases h
    exact (alloc_failed h1).mono (by omega)
  · next c s1 h1 =>
    have d1 := alloc_done h1
    split at h
    · next s2 h2 =>
      cases h
      have f := d1.fail (alloc_failed h2)
      exact f.unw (free_unw (by simpa using f.live))
    · cases h

theorem xlatNew_some {s s' : St} {p : Nat × Nat} (h : xlatNew s = (some p, s')) :
    Done s s' 2 [p.2, p.1] := by
  unfold xlatNew at h
  split at h
  · cases h
  · next c s1 h1 =>
    have d1 := alloc_done h1
    split at h
    · cases h
    · next sys s2 h2 =>
      cases h
      exact d1.comp (alloc_done h2)

theorem xlatClone_none {s s' : St} (h : xlatClone Fix.all s = (none, s')) : Failed s s' 2 [] := by
  unfold xlatClone at h
  split at h
  · next s1 h1 =>
    simp only [show Fix.all.xlatNullCheck = true from rfl, if_true] at h
    cases h
    exact xlatNew_none h1
  · exact xlatNew_none h

theorem xlatClone_some {s s' : St} {p : Nat × Nat} (h : xlatClone Fix.all s = (some p, s')) :
    Done s s' 2 [p.2, p.1] := by
  unfold xlatClone at h
  split at h
  · next s1 h1 =>
    simp only [show Fix.all.xlatNullCheck = true from rfl, if_true] at h
    cases h
  · exact xlatNew_some h

/-! ### attr_dict_new -/

theorem attrDictNew_none {g : Nat} {s s' : St} (h : attrDictNew Fix.all g s = (none, s')) :
    Failed s s' (1 + g) [] := by
  unfold attrDictNew at h
  split at h
  · next s1 h1 =>
    cases h
    exact (alloc_failed h1).mono (by omega)
  · next d s1 h1 =>
    have d1 := alloc_done h1
    split at h
    · next ids s2 h2 =>
      simp only [show Fix.all.attrDictUnwind = true from rfl, if_true] at h
      cases h
      have f := d1.fail (allocN_false h2)
      have u1 : Unw s2 (freeAll ids s2) (d :: s.live) := freeAll_unw (by simpa using f.live)
      have u2 := free_unw u1.live
      exact f.unw (u1.trans u2)
    · cases h

theorem attrDictNew_some {g : Nat} {s s' : St} {p : Nat × List Nat}
    (h : attrDictNew Fix.all g s = (some p, s')) :
    Done s s' (1 + g) (p.2 ++ [p.1]) ∧ p.2.length = g := by
  unfold attrDictNew at h
  split at h
  · cases h
  · next d s1 h1 =>
    have d1 := alloc_done h1
    split at h
    · simp only [show Fix.all.attrDictUnwind = true from rfl, if_true] at h
      cases h
    · next ids s2 h2 =>
      cases h
      have := allocN_true h2
      exact ⟨d1.comp this.1, this.2⟩

/-! ### the lock -/

/-- a lock operation: only the holds change -/
structure Lk (s s' : St) (r w : Nat) : Prop where
  live : s'.live = s.live
  cnt : s'.cnt = s.cnt
  rd : s'.rd = r
  wr : s'.wr = w
  bad : s'.bad = s.bad
  sh : s'.shRef = s.shRef
  di : s'.dictRef = s.dictRef
  xr : s'.xlatRef = s.xlatRef
  fa : s'.failAt = s.failAt

theorem rdlock_lk {s : St} (hr : s.rd = 0) (hw : s.wr = 0) : Lk s (rdlock s) 1 0 := by
  unfold rdlock
  simp [hw, hr]
  constructor <;> simp_all

theorem wrlock_lk {s : St} (hr : s.rd = 0) (hw : s.wr = 0) : Lk s (wrlock s) 0 1 := by
  unfold wrlock
  simp [hw, hr]
  constructor <;> simp_all

theorem unlock_wr {s : St} {r : Nat} (hr : s.rd = r) (hw : s.wr = 1) : Lk s (unlock s) r 0 := by
  unfold unlock
  simp [hw]
  constructor <;> simp_all

theorem unlock_rd {s : St} (hr : s.rd = 1) (hw : s.wr = 0) : Lk s (unlock s) 0 0 := by
  unfold unlock
  simp [hw, hr]
  constructor <;> simp_all

theorem Lk.fr {s s' : St} (h : Lk s s' s.rd s.wr) : Fr s s' :=
  ⟨h.rd, h.wr, h.bad, h.sh, h.di, h.xr, h.fa⟩

/-! ### kdump_new unwinders -/

theorem sharedDecrefNew_unw {sh : Nat} {s : St} {l : List Nat} (h : s.live = sh :: l)
    (hr : s.rd = 0) (hw : s.wr = 0) : Unw s (sharedDecrefNew sh 1 s) l := by
  unfold sharedDecrefNew
  simp only [if_true]
  have k1 := wrlock_lk hr hw
  have k2 := unlock_wr k1.rd k1.wr
  have u := free_unw (i := sh) (s := unlock (wrlock s)) (l := l) (by rw [k2.live, k1.live, h])
  refine ⟨u.live, ?_⟩
  have f := u.fr
  exact ⟨by rw [f.rd, k2.rd, hr], by rw [f.wr, k2.wr, hw], by rw [f.bad, k2.bad, k1.bad],
    by rw [f.sh, k2.sh, k1.sh], by rw [f.di, k2.di, k1.di], by rw [f.xr, k2.xr, k1.xr],
    by rw [f.fa, k2.fa, k1.fa]⟩

theorem unwindNew {b : CtxBlocks} {sh d : Nat} {ids ids2 : List Nat} {s : St} {l : List Nat}
    (h : s.live = ids2 ++ (ids ++ d :: sh :: b.cb :: b.ax :: b.ctx :: l))
    (hr : s.rd = 0) (hw : s.wr = 0) :
    Unw s (free b.ctx (axDecref b (sharedDecrefNew sh 1 (free d (freeAll ids (freeAll ids2 s)))))) l := by
  have u1 := freeAll_unw h
  have u2 := freeAll_unw u1.live
  have u3 := free_unw u2.live
  have u123 := (u1.trans u2).trans u3
  have u4 := sharedDecrefNew_unw u3.live (by rw [u123.fr.rd, hr]) (by rw [u123.fr.wr, hw])
  have u5 := unwindCtx u4.live
  exact (u123.trans u4).trans u5

/-! ### kdump_new -/

def NewPost (s : St) (t : Nat) (r : Bool × St) : Prop :=
  (r.1 = false → Failed s r.2 t []) ∧
  (r.1 = true → ∃ bl, Done s r.2 t bl ∧ bl.length = t)

theorem NewPost.fail {s s' : St} {t t' : Nat} (h : Failed s s' t []) (ht : t ≤ t') :
    NewPost s t' (false, s') :=
  ⟨fun _ => h.mono ht, fun h => by cases h⟩

theorem NewPost.ok {s s' : St} {t : Nat} {bl : List Nat} (h : Done s s' t bl) (hl : bl.length = t) :
    NewPost s t (true, s') :=
  ⟨fun h => (by cases h), fun _ => ⟨bl, h, hl⟩⟩

theorem kdumpNew_spec (g x : Nat) (s : St) (hr : s.rd = 0) (hw : s.wr = 0) :
    NewPost s (7 + g + x) (kdumpNew Fix.all g x s) := by
  unfold kdumpNew
  split
  · next s1 h1 =>
    exact NewPost.fail (allocCtx_none h1) (by omega)
  · next b s1 h1 =>
    have d1 := allocCtx_some h1
    split
    · next s2 h2 =>
      have f := d1.fail (alloc_failed h2)
      exact NewPost.fail (f.unw (unwindCtx (by simpa using f.live))) (by omega)
    · next sh s2 h2 =>
      have d2 := d1.comp (alloc_done h2)
      split
      · next s3 h3 =>
        have f := d2.fail (attrDictNew_none h3)
        have u1 : Unw s3 (sharedDecrefNew sh 1 s3) (b.cb :: b.ax :: b.ctx :: s.live) :=
          sharedDecrefNew_unw (by simpa using f.live) (by rw [f.fr.rd, hr]) (by rw [f.fr.wr, hw])
        have u2 := unwindCtx u1.live
        exact NewPost.fail (f.unw (u1.trans u2)) (by omega)
      · next d ids s3 h3 =>
        obtain ⟨d3', hlen⟩ := attrDictNew_some h3
        have d3 := d2.comp d3'
        split
        · next ids2 s4 h4 =>
          have f := d3.fail (allocN_false h4)
          have hlv : s4.live = ids2 ++ (ids ++ d :: sh :: b.cb :: b.ax :: b.ctx :: s.live) := by
            simpa using f.live
          have u := unwindNew hlv (by rw [f.fr.rd, hr]) (by rw [f.fr.wr, hw])
          exact NewPost.fail (f.unw u) (by omega)
        · next ids2 s4 h4 =>
          obtain ⟨d4', hlen2⟩ := allocN_true h4
          have d4 := d3.comp d4'
          split
          · next s5 h5 =>
            have f := d4.fail (xlatNew_none h5)
            have hlv : s5.live = ids2 ++ (ids ++ d :: sh :: b.cb :: b.ax :: b.ctx :: s.live) := by
              simpa using f.live
            have u := unwindNew hlv (by rw [f.fr.rd, hr]) (by rw [f.fr.wr, hw])
            exact NewPost.fail (f.unw u) (by omega)
          · next p s5 h5 =>
            have d5 := d4.comp (xlatNew_some h5)
            have e : 3 + 1 + (1 + g) + x + 2 = 7 + g + x := by omega
            rw [e] at d5
            refine NewPost.ok d5 ?_
            simp at hlen hlen2 ⊢
            omega

/-! ### kdump_clone -/

/-- the start state with the holds and the reference counts replaced: the base
against which the stages after a lock operation / a reference count update are
described -/
def _root_.Kdf.Model.Oom.St.set (s : St) (r w sh di xr : Nat) : St :=
  { s with rd := r, wr := w, shRef := sh, dictRef := di, xlatRef := xr }

@[simp] theorem St.set_live (s : St) (r w sh di xr : Nat) : (s.set r w sh di xr).live = s.live := rfl
@[simp] theorem St.set_cnt (s : St) (r w sh di xr : Nat) : (s.set r w sh di xr).cnt = s.cnt := rfl
@[simp] theorem St.set_failAt (s : St) (r w sh di xr : Nat) : (s.set r w sh di xr).failAt = s.failAt := rfl
@[simp] theorem St.set_bad (s : St) (r w sh di xr : Nat) : (s.set r w sh di xr).bad = s.bad := rfl
@[simp] theorem St.set_rd (s : St) (r w sh di xr : Nat) : (s.set r w sh di xr).rd = r := rfl
@[simp] theorem St.set_wr (s : St) (r w sh di xr : Nat) : (s.set r w sh di xr).wr = w := rfl
@[simp] theorem St.set_shRef (s : St) (r w sh di xr : Nat) : (s.set r w sh di xr).shRef = sh := rfl
@[simp] theorem St.set_dictRef (s : St) (r w sh di xr : Nat) : (s.set r w sh di xr).dictRef = di := rfl
@[simp] theorem St.set_xlatRef (s : St) (r w sh di xr : Nat) : (s.set r w sh di xr).xlatRef = xr := rfl

theorem Done.base {a b : St} {t : Nat} {bl : List Nat} {r w : Nat} (h : Done a b t bl)
    (hr : a.rd = r) (hw : a.wr = w) : Done (a.set r w a.shRef a.dictRef a.xlatRef) b t bl :=
  ⟨h.live, ⟨h.fr.rd.trans hr, h.fr.wr.trans hw, h.fr.bad, h.fr.sh, h.fr.di, h.fr.xr, h.fr.fa⟩, h.cnt, h.nohit⟩

theorem Failed.base {a b : St} {t : Nat} {bl : List Nat} {r w : Nat} (h : Failed a b t bl)
    (hr : a.rd = r) (hw : a.wr = w) : Failed (a.set r w a.shRef a.dictRef a.xlatRef) b t bl :=
  ⟨h.live, ⟨h.fr.rd.trans hr, h.fr.wr.trans hw, h.fr.bad, h.fr.sh, h.fr.di, h.fr.xr, h.fr.fa⟩, h.hit⟩

theorem Done.chg {a b c : St} {t : Nat} {bl : List Nat} {r w sh di xr r' w' sh' di' xr' : Nat}
    (h : Done (a.set r w sh di xr) b t bl)
    (hl : c.live = b.live) (hc : c.cnt = b.cnt) (hb : c.bad = b.bad) (hf : c.failAt = b.failAt)
    (h1 : c.rd = r') (h2 : c.wr = w') (h3 : c.shRef = sh') (h4 : c.dictRef = di') (h5 : c.xlatRef = xr') :
    Done (a.set r' w' sh' di' xr') c t bl :=
  ⟨hl.trans h.live, ⟨h1, h2, hb.trans h.fr.bad, h3, h4, h5, hf.trans h.fr.fa⟩, hc.trans h.cnt, h.nohit⟩

theorem Done.lk {a b c : St} {t : Nat} {bl : List Nat} {r w sh di xr r' w' : Nat}
    (h : Done (a.set r w sh di xr) b t bl) (k : Lk b c r' w') : Done (a.set r' w' sh di xr) c t bl :=
  h.chg k.live k.cnt k.bad k.fa k.rd k.wr (k.sh.trans h.fr.sh) (k.di.trans h.fr.di) (k.xr.trans h.fr.xr)

theorem Failed.chg {a b c : St} {t : Nat} {bl : List Nat} {r w sh di xr r' w' sh' di' xr' : Nat}
    (h : Failed (a.set r w sh di xr) b t bl)
    (hl : c.live = b.live) (hb : c.bad = b.bad) (hf : c.failAt = b.failAt)
    (h1 : c.rd = r') (h2 : c.wr = w') (h3 : c.shRef = sh') (h4 : c.dictRef = di') (h5 : c.xlatRef = xr') :
    Failed (a.set r' w' sh' di' xr') c t bl :=
  ⟨hl.trans h.live, ⟨h1, h2, hb.trans h.fr.bad, h3, h4, h5, hf.trans h.fr.fa⟩, h.hit⟩

theorem Failed.lk {a b c : St} {t : Nat} {bl : List Nat} {r w sh di xr r' w' : Nat}
    (h : Failed (a.set r w sh di xr) b t bl) (k : Lk b c r' w') : Failed (a.set r' w' sh di xr) c t bl :=
  h.chg k.live k.bad k.fa k.rd k.wr (k.sh.trans h.fr.sh) (k.di.trans h.fr.di) (k.xr.trans h.fr.xr)

theorem Failed.unw' {a b c : St} {t : Nat} {l l' : List Nat} (h : Failed a b t l)
    (hu : Unw b c (l' ++ a.live)) : Failed a c t l' :=
  ⟨hu.live, h.fr.trans hu.fr, h.hit⟩

/-! `kdump_clone` with the local helpers of the model named -/

def incSh (s : St) : St := { s with shRef := s.shRef + 1 }
def decSh (s : St) : St := { s with shRef := s.shRef - 1 }
def incDX (s : St) : St := { s with dictRef := s.dictRef + 1, xlatRef := s.xlatRef + 1 }
def incDS (s : St) : St := { s with dictRef := s.dictRef + 1, shRef := s.shRef + 1 }
def decDS (s : St) : St := { s with dictRef := s.dictRef - 1, shRef := s.shRef - 1 }

def errSharedF (b : CtxBlocks) (slots : List Nat) (s : St) : St :=
  free b.ctx (axDecref b (unlock (freeAll slots (decSh s))))

def dictFreeF (d root : Nat) (s : St) : St := free d (decDS (free root (freeAll [] s)))

def cloneXl (b : CtxBlocks) (slots : List Nat) (m : Nat) (s : St) : Bool × St :=
  match alloc s with
  | (none, s) => (false, errSharedF b slots s)
  | (some d, s) =>
    match alloc s with
    | (none, s) => (false, errSharedF b slots (free d s))
    | (some root, s) =>
      match xlatClone Fix.all (incDS s) with
      | (none, s) => (false, errSharedF b slots (dictFreeF d root s))
      | (some (xo, sys), s) =>
        match allocN m s with
        | (false, ids, s) =>
          (false, errSharedF b slots (dictFreeF d root (free xo (free sys (freeAll ids s)))))
        | (true, _, s) => (true, unlock s)

def kdumpClone' (xl : Bool) (k m : Nat) (s : St) : Bool × St :=
  match allocCtx s with
  | (none, s) => (false, s)
  | (some b, s) =>
    match allocN k (rdlock s) with
    | (false, slots, s) => (false, free b.ctx (axDecref b (unlock (freeAll slots s))))
    | (true, slots, s) =>
      if xl = false then (true, unlock (incDX (incSh (wrlock (unlock s)))))
      else cloneXl b slots m (incSh (wrlock (unlock s)))

theorem kdumpClone_eq (xl : Bool) (k m : Nat) (s : St) :
    kdumpClone Fix.all xl k m s = kdumpClone' xl k m s := by
  cases xl <;> rfl

theorem Failed.cast {a b : St} {t : Nat} {l l' : List Nat} (h : Failed a b t l) (e : l = l') :
    Failed a b t l' := e ▸ h

theorem incSh_done {a b : St} {t : Nat} {bl : List Nat} {r w sh di xr : Nat}
    (h : Done (a.set r w sh di xr) b t bl) : Done (a.set r w (sh + 1) di xr) (incSh b) t bl :=
  h.chg rfl rfl rfl rfl h.fr.rd h.fr.wr (congrArg (· + 1) h.fr.sh) h.fr.di h.fr.xr

theorem incDX_done {a b : St} {t : Nat} {bl : List Nat} {r w sh di xr : Nat}
    (h : Done (a.set r w sh di xr) b t bl) : Done (a.set r w sh (di + 1) (xr + 1)) (incDX b) t bl :=
  h.chg rfl rfl rfl rfl h.fr.rd h.fr.wr h.fr.sh (congrArg (· + 1) h.fr.di) (congrArg (· + 1) h.fr.xr)

theorem incDS_done {a b : St} {t : Nat} {bl : List Nat} {r w sh di xr : Nat}
    (h : Done (a.set r w sh di xr) b t bl) : Done (a.set r w (sh + 1) (di + 1) xr) (incDS b) t bl :=
  h.chg rfl rfl rfl rfl h.fr.rd h.fr.wr (congrArg (· + 1) h.fr.sh) (congrArg (· + 1) h.fr.di) h.fr.xr

/-- `attr_dict_free` of the cloned dictionary (no further attributes) -/
theorem dictFree_failed {a b : St} {t : Nat} {l : List Nat} {root d r w sh di xr : Nat}
    (h : Failed (a.set r w sh di xr) b t (root :: d :: l)) :
    Failed (a.set r w (sh - 1) (di - 1) xr) (dictFreeF d root b) t l := by
  unfold dictFreeF
  have u1 : Unw b (free root (freeAll [] b)) (d :: l ++ (a.set r w sh di xr).live) := by
    simp only [freeAll]
    exact free_unw (by simpa using h.live)
  have f1 := h.unw' u1
  have f2 : Failed (a.set r w (sh - 1) (di - 1) xr) (decDS (free root (freeAll [] b))) t (d :: l) :=
    f1.chg rfl rfl rfl f1.fr.rd f1.fr.wr (congrArg (· - 1) f1.fr.sh) (congrArg (· - 1) f1.fr.di) f1.fr.xr
  exact f2.unw' (free_unw (by simpa using f2.live))

/-- the `err_shared` exit of `kdump_clone` -/
theorem errShared_failed {a s : St} {t : Nat} {b : CtxBlocks} {slots : List Nat} {sh di xr : Nat}
    (h : Failed (a.set 0 1 sh di xr) s t (slots ++ [b.cb, b.ax, b.ctx])) :
    Failed (a.set 0 0 (sh - 1) di xr) (errSharedF b slots s) t [] := by
  unfold errSharedF
  have f1 : Failed (a.set 0 1 (sh - 1) di xr) (decSh s) t (slots ++ [b.cb, b.ax, b.ctx]) :=
    h.chg rfl rfl rfl h.fr.rd h.fr.wr (congrArg (· - 1) h.fr.sh) h.fr.di h.fr.xr
  have f2 : Failed (a.set 0 1 (sh - 1) di xr) (freeAll slots (decSh s)) t [b.cb, b.ax, b.ctx] :=
    f1.unw' (freeAll_unw (by simpa using f1.live))
  have f3 := f2.lk (unlock_wr f2.fr.rd f2.fr.wr)
  exact f3.unw' (unwindCtx (by simpa using f3.live))

def ClonePost (s : St) (xl : Bool) (t : Nat) (r : Bool × St) : Prop :=
  (r.1 = false → Failed s r.2 t []) ∧
  (r.1 = true → ¬ Hit s t ∧ r.2.live.length = s.live.length + t ∧ r.2.rd = s.rd ∧ r.2.wr = s.wr ∧
    r.2.bad = s.bad ∧ r.2.shRef = s.shRef + (if xl then 2 else 1) ∧ r.2.dictRef = s.dictRef + 1 ∧
    r.2.xlatRef = s.xlatRef + (if xl then 0 else 1))

theorem ClonePost.fail {s s' : St} {xl : Bool} {t t' r w sh di xr : Nat}
    (h : Failed (s.set r w sh di xr) s' t [])
    (hr : r = s.rd) (hw : w = s.wr) (hsh : sh = s.shRef) (hdi : di = s.dictRef) (hxr : xr = s.xlatRef)
    (ht : t ≤ t') : ClonePost s xl t' (false, s') := by
  refine ⟨fun _ => ?_, fun h => (by cases h)⟩
  have h' := h.mono ht
  exact ⟨h'.live, ⟨h'.fr.rd.trans hr, h'.fr.wr.trans hw, h'.fr.bad, h'.fr.sh.trans hsh,
    h'.fr.di.trans hdi, h'.fr.xr.trans hxr, h'.fr.fa⟩, h'.hit⟩

theorem ClonePost.ok {s s' : St} {xl : Bool} {t r w sh di xr : Nat} {bl : List Nat}
    (h : Done (s.set r w sh di xr) s' t bl) (hl : bl.length = t)
    (hr : r = s.rd) (hw : w = s.wr) (hsh : sh = s.shRef + (if xl then 2 else 1))
    (hdi : di = s.dictRef + 1) (hxr : xr = s.xlatRef + (if xl then 0 else 1)) :
    ClonePost s xl t (true, s') := by
  refine ⟨fun h => (by cases h), fun _ => ?_⟩
  refine ⟨h.nohit, ?_, h.fr.rd.trans hr, h.fr.wr.trans hw, h.fr.bad, h.fr.sh.trans hsh,
    h.fr.di.trans hdi, h.fr.xr.trans hxr⟩
  have := h.live
  simp only [St.set] at this
  rw [this, List.length_append, hl]; omega


theorem cloneXl_spec {s s0 : St} {b : CtxBlocks} {slots : List Nat} {m t t' sh di xr : Nat}
    (h : Done (s.set 0 1 (sh + 1) di xr) s0 t (slots ++ [b.cb, b.ax, b.ctx]))
    (hlen : slots.length + 3 = t) (hsh : sh = s.shRef) (hdi : di = s.dictRef) (hxr : xr = s.xlatRef)
    (hr : s.rd = 0) (hw : s.wr = 0) (ht : t + 4 + m = t') :
    ClonePost s true t' (cloneXl b slots m s0) := by
  unfold cloneXl
  split
  · next s1 h1 =>
    have f := (h.fail (alloc_failed h1)).cast (l' := slots ++ [b.cb, b.ax, b.ctx]) (by simp)
    exact ClonePost.fail (errShared_failed f) hr.symm hw.symm (by omega) hdi hxr (by omega)
  · next d s1 h1 =>
    have d1 := h.comp (alloc_done h1)
    split
    · next s2 h2 =>
      have f := d1.fail (alloc_failed h2)
      have u : Unw s2 (free d s2) ((slots ++ [b.cb, b.ax, b.ctx]) ++ (s.set 0 1 (sh + 1) di xr).live) :=
        free_unw (by simpa using f.live)
      exact ClonePost.fail (errShared_failed (f.unw' u)) hr.symm hw.symm (by omega) hdi hxr (by omega)
    · next root s2 h2 =>
      have d2 := d1.comp (alloc_done h2)
      have d3 := incDS_done d2
      split
      · next s3 h3 =>
        have f := (d3.fail (xlatClone_none h3)).cast (l' := root :: d :: (slots ++ [b.cb, b.ax, b.ctx])) (by simp)
        exact ClonePost.fail (errShared_failed (dictFree_failed f)) hr.symm hw.symm (by omega) (by omega) hxr (by omega)
      · next xo sys s3 h3 =>
        have d4 := d3.comp (xlatClone_some h3)
        split
        · next ids s4 h4 =>
          have f := d4.fail (allocN_false h4)
          have u1 : Unw s4 (freeAll ids s4)
              (sys :: xo :: ((root :: d :: (slots ++ [b.cb, b.ax, b.ctx])) ++ (s.set 0 1 (sh + 1 + 1) (di + 1) xr).live)) :=
            freeAll_unw (by simpa using f.live)
          have u2 := free_unw u1.live
          have u3 := free_unw u2.live
          have f' := f.unw' ((u1.trans u2).trans u3)
          exact ClonePost.fail (errShared_failed (dictFree_failed f')) hr.symm hw.symm (by omega) (by omega) hxr (by omega)
        · next ids s4 h4 =>
          obtain ⟨d5', hl5⟩ := allocN_true h4
          have d5 := d4.comp d5'
          have d6 := d5.lk (unlock_wr d5.fr.rd d5.fr.wr)
          subst ht
          have e : t + 1 + 1 + 2 + m = t + 4 + m := by omega
          rw [e] at d6
          refine ClonePost.ok d6 ?_ hr.symm hw.symm (by simp; omega) (by omega) (by simp; omega)
          simp
          omega

theorem kdumpClone'_spec (xl : Bool) (k m : Nat) (s : St) (hr : s.rd = 0) (hw : s.wr = 0)
    (t : Nat) (ht : t = if xl then 7 + k + m else 3 + k) :
    ClonePost s xl t (kdumpClone' xl k m s) := by
  have ht3 : 3 + k ≤ t := by subst ht; split <;> omega
  unfold kdumpClone'
  split
  · next s1 h1 =>
    exact ClonePost.fail ((allocCtx_none h1).base hr hw) hr.symm hw.symm rfl rfl rfl (by omega)
  · next b s1 h1 =>
    have d1 := (allocCtx_some h1).base hr hw
    have d2 := d1.lk (rdlock_lk d1.fr.rd d1.fr.wr)
    split
    · next slots s2 h2 =>
      have f := d2.fail (allocN_false h2)
      have f2 := f.unw' (l' := [b.cb, b.ax, b.ctx]) (freeAll_unw (by simpa using f.live))
      have f3 := f2.lk (unlock_rd f2.fr.rd f2.fr.wr)
      have f4 := f3.unw' (l' := []) (unwindCtx (by simpa using f3.live))
      exact ClonePost.fail f4 hr.symm hw.symm rfl rfl rfl (by omega)
    · next slots s2 h2 =>
      obtain ⟨d3', hlen⟩ := allocN_true h2
      have d3 := d2.comp d3'
      have d4 := d3.lk (unlock_rd d3.fr.rd d3.fr.wr)
      have d5 := d4.lk (wrlock_lk d4.fr.rd d4.fr.wr)
      have d6 := incSh_done d5
      cases xl
      · simp only [if_true]
        simp only [Bool.false_eq_true, if_false] at ht
        subst ht
        have d7 := incDX_done d6
        have d8 := d7.lk (unlock_wr d7.fr.rd d7.fr.wr)
        refine ClonePost.ok d8 ?_ hr.symm hw.symm (by simp) rfl (by simp)
        simp
        omega
      · simp only [if_true] at ht
        subst ht
        show ClonePost s true (7 + k + m) (cloneXl b slots m (incSh (wrlock (unlock s2))))
        exact cloneXl_spec d6 (by omega) rfl rfl rfl hr hw (by omega)

theorem kdumpClone_spec (xl : Bool) (k m : Nat) (s : St) (hr : s.rd = 0) (hw : s.wr = 0) :
    ClonePost s xl (if xl then 7 + k + m else 3 + k) (kdumpClone Fix.all xl k m s) := by
  rw [kdumpClone_eq]
  exact kdumpClone'_spec xl k m s hr hw _ rfl

end Kdf.Lemmas.Oom
