import Kdf.Lemmas.ScanBase
/-! C08: the ascending scanners (`lowest_mapped`, `lowest_unmapped`): postcondition, the
"next entry" state, the generic continuation lemma. -/
namespace Kdf.Lemmas.Scan
open Kdf.Model.Pgt Kdf.Model.Scan Kdf.Model.PgtArch Kdf.Spec.ArchWalk Kdf.Lemmas.Pgt

/-- postcondition of an ascending scan started at `va` inside a table of span `T`:
`Q` holds for the addresses that were skipped -/
def Post (Q : Nat → Prop) (OkP : Nat → Step → Prop) (ErrP : XStatus → Nat → Prop)
    (limit T va : Nat) : Res → Prop
  | .done st a s =>
    if st = .ok then va ≤ a ∧ a ≤ limit ∧ OkP a s ∧ ∀ x, va ≤ x → x < a → Q x
    else if st = .notpresent then
      ∃ e, a = e % W ∧ (∀ x, va ≤ x → x < e → x ≤ limit → Q x) ∧
        (e = (va / T + 1) * T ∨ (limit < e ∧ e < W))
    else va ≤ a ∧ a ≤ limit ∧ ErrP st a ∧ ∀ x, va ≤ x → x < a → Q x
  | .fuel => False
  | .undef => False

section
variable {Q : Nat → Prop} {OkP : Nat → Step → Prop} {ErrP : XStatus → Nat → Prop}

theorem post_ok {limit T va a : Nat} {s : Step} :
    Post Q OkP ErrP limit T va (.done .ok a s) ↔
      (va ≤ a ∧ a ≤ limit ∧ OkP a s ∧ ∀ x, va ≤ x → x < a → Q x) := by
  simp [Post]

theorem post_np {limit T va a : Nat} {s : Step} :
    Post Q OkP ErrP limit T va (.done .notpresent a s) ↔
      ∃ e, a = e % W ∧ (∀ x, va ≤ x → x < e → x ≤ limit → Q x) ∧
        (e = (va / T + 1) * T ∨ (limit < e ∧ e < W)) := by
  simp [Post]

theorem post_err {limit T va a : Nat} {s : Step} {st : XStatus} (h1 : st ≠ .ok)
    (h2 : st ≠ .notpresent) :
    Post Q OkP ErrP limit T va (.done st a s) ↔
      (va ≤ a ∧ a ≤ limit ∧ ErrP st a ∧ ∀ x, va ≤ x → x < a → Q x) := by
  simp [Post, h1, h2]

theorem post_extend {limit T va a : Nat} {res : Res} (hp : Post Q OkP ErrP limit T a res)
    (hT : a / T = va / T) (hle : va ≤ a) (hq : ∀ x, va ≤ x → x < a → x ≤ limit → Q x) :
    Post Q OkP ErrP limit T va res := by
  cases res with
  | fuel => exact hp
  | undef => exact hp
  | done st a' s =>
    by_cases h1 : st = .ok
    · subst h1
      rw [post_ok] at hp ⊢
      obtain ⟨h2, h3, h4, h5⟩ := hp
      refine ⟨by omega, h3, h4, fun x hx1 hx2 => ?_⟩
      by_cases hxa : x < a
      · exact hq x hx1 hxa (by omega)
      · exact h5 x (by omega) hx2
    · by_cases h2 : st = .notpresent
      · subst h2
        rw [post_np] at hp ⊢
        obtain ⟨e, he1, he2, he3⟩ := hp
        refine ⟨e, he1, fun x hx1 hx2 hx3 => ?_, by rw [← hT]; exact he3⟩
        by_cases hxa : x < a
        · exact hq x hx1 hxa hx3
        · exact he2 x (by omega) hx2 hx3
      · rw [post_err h1 h2] at hp ⊢
        obtain ⟨h3, h4, h5, h6⟩ := hp
        refine ⟨by omega, h4, h5, fun x hx1 hx2 => ?_⟩
        by_cases hxa : x < a
        · exact hq x hx1 hxa (by omega)
        · exact h6 x (by omega) hx2

theorem post_T {limit T T' va a : Nat} {s : Step} {st : XStatus}
    (hp : Post Q OkP ErrP limit T va (.done st a s)) (h : st ≠ .notpresent) :
    Post Q OkP ErrP limit T' va (.done st a s) := by
  by_cases h1 : st = .ok
  · subst h1; rw [post_ok] at hp ⊢; exact hp
  · rw [post_err h1 h] at hp ⊢; exact hp

end

/-! ## the state of the next entry of the same table -/

theorem idx_cur (c : Cfg) (hpf : XF c.pf) {addr r : Nat} {s : Step} (h : At c addr r s) (h2 : 2 ≤ r)
    (hn : r ≤ c.n) : idxAt s (r-1) = addr / 2^(c.sb (r-1)) % 512 := by
  have hn' : r ≤ c.pf.fieldsz.length := hn
  have := h.inv.val (r-1) (by omega)
  rw [this, xf_fld hpf (r-1) (by omega) (by omega)]
  rfl

theorem sb_succ (c : Cfg) (hpf : XF c.pf) {r : Nat} (h2 : 2 ≤ r) (hn : r ≤ c.n) :
    c.sb r = c.sb (r-1) + 9 ∧ 12 ≤ c.sb (r-1) ∧ c.sb r ≤ 64 := by
  have hn' : r ≤ c.pf.fieldsz.length := hn
  have h1 := xf_sb hpf r (by omega) hn'
  have h3 := xf_sb hpf (r-1) (by omega) (by omega)
  have := xf_len hpf
  simp only [Cfg.sb]
  omega

theorem lt_W_of_div {x y p : Nat} (hp : p ≤ 64) (hy : y < W) (h : x / 2^p = y / 2^p) : x < W := by
  have hW : W = 2^(64-p) * 2^p := by
    show 2^64 = _
    rw [← Nat.pow_add]; congr 1; omega
  have hpos : 0 < (2:Nat)^p := Nat.two_pow_pos p
  have h1 : y / 2^p < 2^(64-p) := by rw [Nat.div_lt_iff_lt_mul hpos, ← hW]; exact hy
  rw [← h, Nat.div_lt_iff_lt_mul hpos, ← hW] at h1
  exact h1

theorem at_next (c : Cfg) (hpf : XF c.pf) {addr r : Nat} {s : Step} (h : At c addr r s) (h2 : 2 ≤ r)
    (hn : r ≤ c.n) (haddr : addr < W) (hc : idxAt s (r-1) + 1 < 512) (my2 : Step)
    (hmy : my2 = setIdx (fillLow s (fun _ => 0)) (r-1) (idxAt s (r-1) + 1)) :
    At c ((addr / 2^(c.sb (r-1)) + 1) * 2^(c.sb (r-1))) r my2 ∧
    ((addr / 2^(c.sb (r-1)) + 1) * 2^(c.sb (r-1))) / 2^(c.sb r) = addr / 2^(c.sb r) ∧
    (addr / 2^(c.sb (r-1)) + 1) * 2^(c.sb (r-1)) < W ∧
    ((addr / 2^(c.sb (r-1)) + 1) * 2^(c.sb (r-1))) % 4096 = 0 ∧
    idxAt my2 (r-1) = idxAt s (r-1) + 1 := by
  obtain ⟨hsb, h12, h64⟩ := sb_succ c hpf h2 hn
  have hcur := idx_cur c hpf h h2 hn
  have hn' : r ≤ c.pf.fieldsz.length := hn
  have hlen := xf_len hpf
  generalize hp : c.sb (r-1) = p at *
  generalize hq : addr / 2^p = q at *
  have hE : 0 < (2:Nat)^p := Nat.two_pow_pos p
  have heE : (q + 1) * 2^p / 2^p = q + 1 := Nat.mul_div_cancel _ hE
  have hT : (q + 1) * 2^p / 2^(c.sb r) = addr / 2^(c.sb r) := by
    rw [hsb, Nat.pow_add, ← Nat.div_div_eq_div_mul, ← Nat.div_div_eq_div_mul, heE, hq]
    show (q+1) / 512 = q / 512
    omega
  have hidx2 : idxAt my2 (r-1) = idxAt s (r-1) + 1 := by
    rw [hmy, idxAt_setIdx, fillLow_len, h.len]
    have : r - 1 < 9 := by omega
    simp [this]
  refine ⟨?_, hT, lt_W_of_div h64 haddr hT, mod_of_mul_pow (show 12 ≤ p by omega), hidx2⟩
  refine ⟨by rw [hmy]; exact h.rem, ⟨by rw [hmy, setIdx_len, fillLow_len, h.len]; omega, ?_⟩,
    by rw [hmy, setIdx_len, fillLow_len, h.len], by rw [hmy]; exact h.esz, ?_⟩
  · intro i hi
    by_cases h1 : i = r - 1
    · rw [h1, hidx2, hcur]
      rw [show spanBits c.pf.fieldsz (r-1) = p from hp, heE, xf_fld hpf (r-1) (by omega) (by omega)]
      show q % 512 + 1 = (q + 1) % 512
      omega
    · rw [hmy, idxAt_setIdx, idxAt_fillLow, fillLow_len, h.rem, h.len]
      have hne : ¬ (i = r - 1 ∧ r - 1 < 9) := fun hh => h1 hh.1
      rw [if_neg hne]
      by_cases h3 : i < r - 1
      · have : i < r - 1 ∧ i < 9 := ⟨h3, by omega⟩
        rw [if_pos this]
        have hs1 := spanBits_succ c.pf.fieldsz i
        have hs2 : spanBits c.pf.fieldsz (i+1) ≤ spanBits c.pf.fieldsz (r-1) :=
          spanBits_mono _ (by omega)
        rw [show spanBits c.pf.fieldsz (r-1) = p from hp] at hs2
        exact (idx_low_zero (q+1) p _ _ (by omega)).symm
      · have : ¬ (i < r - 1 ∧ i < 9) := fun hh => h3 hh.1
        rw [if_neg this, h.inv.val i hi]
        have hs2 : spanBits c.pf.fieldsz r ≤ spanBits c.pf.fieldsz i := spanBits_mono _ (by omega)
        rw [div_high hT hs2]
  · intro x hx
    rw [hmy]
    exact h.base x (by rw [hx, hT])

theorem next_top (addr p : Nat) (h : addr / 2^p % 512 + 1 ≥ 512) :
    (addr / 2^p + 1) * 2^p = (addr / 2^(p+9) + 1) * 2^(p+9) := by
  rw [Nat.pow_add, ← Nat.div_div_eq_div_mul]
  generalize addr / 2^p = q at *
  have : q + 1 = (q / 2^9 + 1) * 2^9 := by
    show q + 1 = (q / 512 + 1) * 512
    omega
  rw [this, Nat.mul_assoc, Nat.mul_comm (2^9) (2^p)]

/-! ## the continuation `goto next entry` -/

def contG (nelem : Nat) (loop : Step → Nat → Res) (s : Step) (a' : Nat) : Res :=
  let my1 := fillLow s (fun _ => 0)
  let i := s.remain - 1
  let v := (idxAt my1 i + 1) % W
  let my2 := setIdx my1 i v
  if v ≥ nelem then .done .notpresent a' s else loop my2 a'

theorem cont_post (c : Cfg) (hpf : XF c.pf) (Q : Nat → Prop) (OkP : Nat → Step → Prop)
    (ErrP : XStatus → Nat → Prop) (limit : Nat) (hlim : limit < W) (addr r : Nat) (s : Step)
    (h : At c addr r s) (h2 : 2 ≤ r) (hn : r ≤ c.n) (hal : addr ≤ limit) (k : Nat)
    (hk : 512 ≤ idxAt s (r-1) + 1 + k) (loop : Step → Nat → Res)
    (hloop : ∀ my a, At c a r my → a ≤ limit → a % 4096 = 0 → 512 ≤ idxAt my (r-1) + k →
      Post Q OkP ErrP limit (2^(c.sb r)) a (loop my a))
    (hgt : 1 ≤ k → ∀ my a, limit < a → loop my a = .done .notpresent a my)
    (a' e : Nat) (ha' : a' = e % W) (hQ : ∀ x, addr ≤ x → x < e → x ≤ limit → Q x)
    (he : e = (addr / 2^(c.sb (r-1)) + 1) * 2^(c.sb (r-1)) ∨ (limit < e ∧ e < W)) :
    Post Q OkP ErrP limit (2^(c.sb r)) addr (contG 512 loop s a') := by
  obtain ⟨hsb, h12, h64⟩ := sb_succ c hpf h2 hn
  have hcur := idx_cur c hpf h h2 hn
  have hfl : idxAt (fillLow s (fun _ => 0)) (s.remain - 1) = idxAt s (r-1) := by
    rw [idxAt_fillLow, h.rem]; simp
  have hW : W = 18446744073709551616 := by simp [W]
  have hv : (idxAt s (r-1) + 1) % W = idxAt s (r-1) + 1 := by
    apply Nat.mod_eq_of_lt; omega
  unfold contG
  simp only [hfl, hv]
  by_cases hge : idxAt s (r-1) + 1 ≥ 512
  · rw [if_pos hge, post_np]
    refine ⟨e, ha', hQ, ?_⟩
    rcases he with he | he
    · left
      rw [he, hsb]
      exact next_top addr _ (by rw [← hcur]; exact hge)
    · right; exact he
  · rw [if_neg hge, h.rem]
    have hk1 : 1 ≤ k := by omega
    obtain ⟨hat, hT, heW, h4096, hidx2⟩ := at_next c hpf h h2 hn (by omega) (by omega) _ rfl
    have hpos : 0 < (2:Nat)^(c.sb (r-1)) := Nat.two_pow_pos _
    have hlt : addr < (addr / 2^(c.sb (r-1)) + 1) * 2^(c.sb (r-1)) :=
      ((div_range hpos).1 rfl).2
    have hdone : ∀ my, limit < e → e < W →
        Post Q OkP ErrP limit (2^(c.sb r)) addr (loop my a') := by
      intro my h1 h3
      have : a' = e := by rw [ha', Nat.mod_eq_of_lt h3]
      rw [this, hgt hk1 my e h1, post_np]
      exact ⟨e, (Nat.mod_eq_of_lt h3).symm, hQ, Or.inr ⟨h1, h3⟩⟩
    rcases he with he | he
    · by_cases hel : e ≤ limit
      · have ha'' : a' = e := by rw [ha', Nat.mod_eq_of_lt (by rw [he]; exact heW)]
        rw [ha'', he]
        refine post_extend (hloop _ _ hat (by rw [← he]; exact hel) h4096 (by rw [hidx2]; omega))
          hT (Nat.le_of_lt hlt) (fun x hx1 hx2 hx3 => hQ x hx1 (by rw [he]; exact hx2) hx3)
      · exact hdone _ (by omega) (by rw [he]; exact heW)
    · exact hdone _ he.1 he.2

end Kdf.Lemmas.Scan
