import Kdf.Model.Xen
/-!
# C19 — the two repaired defects as model-level witnesses

The model in `Kdf/Model/Xen.lean` transcribes the repaired code.  This file
keeps the unrepaired variants next to it and shows, by evaluation, the concrete
inputs on which they break the property (the same inputs were run against the
real code, see KNOWN_FINDINGS `fixed:` lines ece1850 and 9cbc21a).
-/
namespace Kdf.Lemmas.Xen.Witness
open Kdf.Model.Xen

/-- `pfn2idx_map_add` before commit ece1850: no guard against the wrap-around -/
def addOld (ok : Nat → Bool) (m : PMap) (c : Range) (pfn : Nat) : Option (PMap × Range) :=
  if c.len > 0 ∧ pfn = (c.pfn + 1) % W then
    some (m, ⟨pfn, (c.idx + 1) % W, c.len + 1⟩)
  else if c.len < 0 ∧ pfn = wrap (c.pfn - 1) then
    some (m, ⟨pfn, (c.idx + 1) % W, c.len - 1⟩)
  else if c.len = 1 ∧ pfn = wrap (c.pfn - 1) then
    some (m, ⟨pfn, (c.idx + 1) % W, -2⟩)
  else
    match addrange ok m c with
    | none => none
    | some m' => some (m', ⟨pfn, (c.idx + 1) % W, 1⟩)

def buildFromOld (ok : Nat → Bool) : PMap × Range → List Nat → Option (PMap × Range)
  | s, [] => some s
  | (m, c), p :: ps =>
    match addOld ok m c p with
    | none => none
    | some s' => buildFromOld ok s' ps

def buildOld (ok : Nat → Bool) (junk : Nat) (l : List Nat) : Option PMap :=
  match buildFromOld ok (mapStart junk) l with
  | none => none
  | some (m, c) => mapEnd ok m c

/-- frame 0 listed right after frame 2^64-1: one "ascending" range {pfn 0, len 2}
whose lower bound wraps to 2^64-1; both listed frames are reported missing -/
example : (buildOld (fun _ => true) 0 [W - 1, 0]).map (fun m => (m.ranges, search m 0, search m (W - 1))) =
    some ([⟨0, 1, 2⟩], IDX_NONE, IDX_NONE) := by decide

example : (buildOld (fun _ => true) 0 [0, W - 1]).map (fun m => (m.ranges, search m 0, search m (W - 1))) =
    some ([⟨W - 1, 1, -2⟩], IDX_NONE, IDX_NONE) := by decide

/-- the repaired builder on the same lists -/
example : (build (fun _ => true) 0 [W - 1, 0]).map (fun m => (search m 0, search m (W - 1))) = some (1, 0) := by decide
example : (build (fun _ => true) 0 [0, W - 1]).map (fun m => (search m 0, search m (W - 1))) = some (0, 1) := by decide

/-- `xc_p2m_first_step` before commit 9cbc21a: the raw `gmfn` field, no `dump64toh` -/
def p2mFirstStepOld (d : Dump) (addr : Nat) : Except Err Step :=
  let idx := search d.pfnmap (addr / 2^d.shift)
  if idx = IDX_NONE then .error .nodata
  else match readEntry d idx with
    | none => .error .nodata
    | some e => .ok ⟨e.mfn * 2^d.shift % W, addr % 2^d.shift, 1, 1⟩

/-- a big-endian dump with the record (pfn 0x10, mfn 0x5000): guest address
0x10008 must convert to machine 0x5000008; the unrepaired step gives 0x8 -/
def beDump : Option Dump :=
  mkDump (fun _ => true) (fun _ => true) 0 0 true true 12 0x1000 0x2000 [⟨bswap64 0x10, bswap64 0x5000⟩]

example : beDump.map (fun d => ((p2mFirstStepOld d 0x10008).map finish, p2m d 0x10008)) =
    some (.ok 0x8, .ok 0x5000008) := by decide

end Kdf.Lemmas.Xen.Witness
