import Kdf.Model.Layout
import Kdf.Lemmas.Map
import Kdf.Props.C10
/-!
# Lemmas for C08: the generic layout machinery (`Kdf.Model.Layout`)

Facts about `setLayout` / `actDirect` / `actRdirect` / `setPhysmaps`, stated through the
function view of the maps (`Kdf.Lemmas.Map.den`, `mapSearch`) and the C10 theorems
(`Kdf.Props.C10.set_ok`, `set_wf`, `set_den`, `search_eq_den`), and lifted to
`Kdf.Model.Sys.conv` (the model of `addrxlat_fulladdr_conv`).

Structure: `Ext s s'` collects what every step of `sys_set_layout` preserves whatever its status
and allocator (`setLayout_ext`, `setLayout_shape`, `setLayout_shape_any`); the `*_eq` lemmas give
the exact result of the steps with a succeeding allocator (`setLayout_direct_eq`,
`setLayout_ident_eq`), from which `direct_def`, `rdirect_direct_id`, `physmaps_ident` and
`setLayout_plain` are read off; `conv_linear` is the first-match linear shortcut of
`addrxlat_fulladdr_conv`.
-/
namespace Kdf.Lemmas.Layout
open Kdf.Model.Pgt Kdf.Model.Sys Kdf.Model.Layout
open Kdf.Model.Map (mapSearch mapSet Range)
open Kdf.Lemmas.Map (WF den)

/-! ### 64-bit arithmetic -/

theorem sub_mod_W (first last : Nat) (hfl : first ≤ last) (hl : last < W) :
    (last + W - first) % W = last - first := by
  simp only [W] at *; omega

theorem neg_neg_W (first : Nat) (h : first < W) : (W - (W - first) % W) % W = first := by
  simp only [W] at *; omega

theorem add_neg_W (first va : Nat) (h : first ≤ va) (hv : va < W) : (va + (W - first) % W) % W = va - first := by
  simp only [W] at *; omega


/-- shape invariant of a system under construction: five map slots, sixteen method
slots, sixteen offset cells, every existing map well-formed -/
structure Shape (s : LSys) : Prop where
  maps : s.sys.maps.length = 5
  meths : s.sys.meths.length = 16
  offs : s.offs.length = 16
  wf : ∀ (i : Nat) (m : Kdf.Model.Map.Map), s.sys.maps[i]? = some (some m) → WF m

theorem fresh_shape : Shape fresh := by
  refine ⟨by simp [fresh], by simp [fresh], by simp [fresh], ?_⟩
  intro i m h
  have h' : (List.replicate 5 (none : Option Kdf.Model.Map.Map))[i]? = some (some m) := h
  rw [List.getElem?_replicate] at h'
  split at h' <;> cases h'

/-- a linear method's offset cell agrees with the method (kept by all setters) -/
def OffsOK (s : LSys) : Prop :=
  ∀ (i t off : Nat), s.sys.meths[i]? = some (Meth.linear t off) → s.offs[i]? = some (some off)

/-- map slot `j` holds a map (not NULL) -/
def HasMap (s : LSys) (j : Nat) : Prop := ∃ m, s.sys.maps[j]? = some (some m)
/-- the offset cell of the DIRECT slot was last written through `param.linear.off` -/
def DirOK (s : LSys) : Prop := ∃ v, s.offs[M_DIRECT]? = some (some v)

/-- what every step of `sys_set_layout` guarantees about the system it leaves behind -/
structure Ext (s s' : LSys) : Prop where
  shape : Shape s'
  hasMap : ∀ j, HasMap s j → HasMap s' j
  dirOK : DirOK s → DirOK s'
  offsOK : OffsOK s → OffsOK s'

theorem Ext.refl {s : LSys} (hs : Shape s) : Ext s s := ⟨hs, fun _ h => h, id, id⟩
theorem Ext.trans {a b c : LSys} (h1 : Ext a b) (h2 : Ext b c) : Ext a c :=
  ⟨h2.shape, fun j h => h2.hasMap j (h1.hasMap j h), fun h => h2.dirOK (h1.dirOK h),
   fun h => h2.offsOK (h1.offsOK h)⟩

theorem ext_setMap {s : LSys} (hs : Shape s) (idx : Nat) (m : Kdf.Model.Map.Map) (hm : WF m) :
    Ext s ⟨⟨s.sys.maps.set idx (some m), s.sys.meths⟩, s.offs⟩ := by
  refine ⟨⟨by simp [hs.maps], hs.meths, hs.offs, ?_⟩, ?_, id, id⟩
  · intro i m' h
    simp only [List.getElem?_set] at h
    split at h
    · split at h
      · injection h with h; injection h with h; subst h; exact hm
      · cases h
    · exact hs.wf i m' h
  · intro j ⟨m', h⟩
    simp only [HasMap, List.getElem?_set]
    by_cases e : idx = j
    · subst e
      have : idx < s.sys.maps.length := by
        rcases Nat.lt_or_ge idx s.sys.maps.length with h' | h'
        · exact h'
        · rw [List.getElem?_eq_none h'] at h; cases h
      exact ⟨m, by simp [this]⟩
    · exact ⟨m', by simp [e, h]⟩

theorem ext_setLin {s : LSys} (hs : Shape s) (slot t off : Nat) :
    Ext s ⟨⟨s.sys.maps, s.sys.meths.set slot (.linear t off)⟩, s.offs.set slot (some off)⟩ := by
  refine ⟨⟨hs.maps, by simp [hs.meths], by simp [hs.offs], hs.wf⟩, fun _ h => h, ?_, ?_⟩
  · intro ⟨v, h⟩
    simp only [DirOK, List.getElem?_set]
    by_cases e : slot = M_DIRECT
    · subst e
      exact ⟨off, by rw [if_pos rfl, if_pos (by rw [hs.offs]; decide)]⟩
    · exact ⟨v, by simp [e, h]⟩
  · intro ho i t' off' h
    simp only [List.getElem?_set] at h ⊢
    by_cases e : slot = i
    · subst e
      simp only [if_true] at h ⊢
      split at h
      · injection h with h; injection h with _ h; subst h
        have : slot < s.offs.length := by rw [hs.offs]; rw [hs.meths] at *; assumption
        simp [this]
      · cases h
    · simp only [e, if_false] at h ⊢
      exact ho i t' off' h

theorem setLinear_eq {s : LSys} (hs : Shape s) {slot : Nat} (h : slot < 16) (t off : Nat) :
    setLinear s slot t off =
      some ⟨⟨s.sys.maps, s.sys.meths.set slot (.linear t off)⟩, s.offs.set slot (some off)⟩ := by
  simp [setLinear, hs.meths, hs.offs, h]

theorem setLinear_none {s : LSys} (hs : Shape s) {slot : Nat} (h : ¬ slot < 16) (t off : Nat) :
    setLinear s slot t off = none := by
  simp [setLinear, hs.meths, hs.offs, h]

theorem setLinear_ext {s s' : LSys} (hs : Shape s) {slot t off : Nat}
    (h : setLinear s slot t off = some s') :
    Ext s s' ∧ slot < 16 ∧ (slot = M_DIRECT → DirOK s') := by
  by_cases hl : slot < 16
  · rw [setLinear_eq hs hl] at h
    injection h with h; subst h
    refine ⟨ext_setLin hs slot t off, hl, ?_⟩
    intro e; subst e
    exact ⟨off, List.getElem?_set_self (by rw [hs.offs]; decide)⟩
  · rw [setLinear_none hs hl] at h; cases h

/-! ### the steps of `sys_set_layout`, any allocator, any status -/

theorem ensureMap_ext {s s' : LSys} (hs : Shape s) (idx : Nat) (alloc : Bool) (st : St)
    (h : ensureMap s idx alloc = (st, s')) :
    Ext s s' ∧ (st = .ok → HasMap s' idx) ∧ (alloc = true → idx < 5 → st = .ok) := by
  unfold ensureMap at h
  split at h
  · rename_i hn
    injection h with h1 h2; subst h1; subst h2
    refine ⟨Ext.refl hs, (fun e => by cases e), fun _ hi => ?_⟩
    have : idx < s.sys.maps.length := by rw [hs.maps]; exact hi
    rw [List.getElem?_eq_getElem this] at hn; cases hn
  · rename_i m hm
    injection h with h1 h2; subst h1; subst h2
    exact ⟨Ext.refl hs, fun _ => ⟨m, hm⟩, fun _ _ => rfl⟩
  · rename_i hm
    split at h
    · injection h with h1 h2; subst h1; subst h2
      refine ⟨ext_setMap hs idx [] (Or.inl rfl), fun _ => ⟨[], ?_⟩, fun _ _ => rfl⟩
      have : idx < s.sys.maps.length := by
        rcases Nat.lt_or_ge idx s.sys.maps.length with h' | h'
        · exact h'
        · rw [List.getElem?_eq_none h'] at hm; cases hm
      exact List.getElem?_set_self this
    · rename_i ha
      injection h with h1 h2; subst h1; subst h2
      exact ⟨Ext.refl hs, (fun e => by cases e), fun e => absurd e ha⟩

theorem mapSet_false_ok {m : Kdf.Model.Map.Map} {addr : Nat} {r : Range} {alloc : Bool} {m' : Kdf.Model.Map.Map}
    (h : mapSet m addr r alloc = (.ok, m')) : mapSet m addr r true = (.ok, m') := by
  cases alloc with
  | true => exact h
  | false =>
    rcases Kdf.Props.C10.set_nomem m addr r with e | e
    · rw [e] at h; cases h
    · rw [← e]; exact h

theorem mapSetAt_ext {s s' : LSys} (hs : Shape s) (idx first : Nat) (r : Range) (alloc : Bool) (st : St)
    (hr : first + r.endoff < W) (h : mapSetAt s idx first r alloc = (st, s')) :
    Ext s s' ∧ (alloc = true → HasMap s idx → st = .ok) := by
  unfold mapSetAt at h
  split at h
  · rename_i hn
    injection h with h1 h2; subst h1; subst h2
    exact ⟨Ext.refl hs, fun _ ⟨m, hm⟩ => by rw [hn] at hm; cases hm⟩
  · rename_i hn
    injection h with h1 h2; subst h1; subst h2
    exact ⟨Ext.refl hs, fun _ ⟨m, hm⟩ => by rw [hn] at hm; cases hm⟩
  · rename_i m hm
    have hwf : WF m := hs.wf idx m hm
    split at h
    · rename_i m' hset
      injection h with h1 h2; subst h1; subst h2
      have hset' := mapSet_false_ok hset
      have hw := Kdf.Props.C10.set_wf m hwf first r hr
      rw [hset'] at hw
      exact ⟨ext_setMap hs idx m' (Or.inr hw.2), fun _ _ => rfl⟩
    · rename_i m' hset
      injection h with h1 h2; subst h1; subst h2
      refine ⟨Ext.refl hs, fun ha _ => ?_⟩
      subst ha
      have := Kdf.Props.C10.set_ok m hwf first r hr
      rw [hset] at this; cases this
    · rename_i m' hset
      injection h with h1 h2; subst h1; subst h2
      refine ⟨Ext.refl hs, fun ha _ => ?_⟩
      subst ha
      have := Kdf.Props.C10.set_ok m hwf first r hr
      rw [hset] at this; cases this

theorem actRdirect_ext {s s' : LSys} (hs : Shape s) (rg : Region) (st : St)
    (h : actRdirect s rg = (st, s')) :
    Ext s s' ∧ (DirOK s → rg.meth < 16 → st = .ok) := by
  unfold actRdirect at h
  split at h
  · rename_i hn
    injection h with h1 h2; subst h1; subst h2
    exact ⟨Ext.refl hs, fun ⟨v, hv⟩ _ => by rw [hn] at hv; cases hv⟩
  · rename_i hn
    injection h with h1 h2; subst h1; subst h2
    exact ⟨Ext.refl hs, fun ⟨v, hv⟩ _ => by rw [hn] at hv; cases hv⟩
  · rename_i doff hd
    split at h
    · rename_i s1 hl
      injection h with h1 h2; subst h1; subst h2
      exact ⟨(setLinear_ext hs hl).1, fun _ _ => rfl⟩
    · rename_i hl
      injection h with h1 h2; subst h1; subst h2
      refine ⟨Ext.refl hs, fun _ hm => ?_⟩
      rw [setLinear_eq hs hm] at hl; cases hl

theorem actIdent_ext {s s' : LSys} (hs : Shape s) (rg : Region) (t : Nat) (st : St)
    (h : actIdent s rg t = (st, s')) :
    Ext s s' ∧ (rg.meth < 16 → st = .ok) := by
  unfold actIdent at h
  split at h
  · rename_i s1 hl
    injection h with h1 h2; subst h1; subst h2
    exact ⟨(setLinear_ext hs hl).1, fun _ => rfl⟩
  · rename_i hl
    injection h with h1 h2; subst h1; subst h2
    refine ⟨Ext.refl hs, fun hm => ?_⟩
    rw [setLinear_eq hs hm] at hl; cases hl

/-! ### the loop -/

/-- the `switch (region->act)` of `sys_set_layout` -/
def acted (direct : LSys → Region → St × LSys) (s : LSys) (rg : Region) : St × LSys :=
  match rg.act with
  | .direct => direct s rg
  | .rdirect => actRdirect s rg
  | .identKphys => actIdent s rg KPHYS
  | .identMachphys => actIdent s rg MACHPHYS
  | .none => (.ok, s)

/-- the range a region is entered with -/
def regRange (rg : Region) : Range := ⟨(rg.last + W - rg.first) % W, (rg.meth : Int)⟩

theorem layoutLoop_cons (direct : LSys → Region → St × LSys) (alloc : Bool) (idx : Nat)
    (rg : Region) (rest : List Region) (s : LSys) :
    layoutLoop direct alloc idx (rg :: rest) s =
      match acted direct s rg with
      | (.ok, s1) =>
        (match mapSetAt s1 idx rg.first (regRange rg) alloc with
         | (.ok, s2) => layoutLoop direct alloc idx rest s2
         | bad => bad)
      | bad => bad := rfl

/-- a region that does not wrap -/
def RegOK (rg : Region) : Prop := rg.first ≤ rg.last ∧ rg.last < W

/-- the region's action reads `meth[DIRECT].param.linear.off` as left by earlier code -/
def NeedsDir (rg : Region) : Prop := rg.act = .rdirect ∨ (rg.act = .direct ∧ rg.meth ≠ M_DIRECT)

theorem regRange_guard {rg : Region} (h : RegOK rg) : rg.first + (regRange rg).endoff < W := by
  have := sub_mod_W rg.first rg.last h.1 h.2
  simp only [regRange, this]
  have := h.1; have := h.2
  omega

def DirExt (direct : LSys → Region → St × LSys) : Prop :=
  ∀ s rg st s', Shape s → RegOK rg → direct s rg = (st, s') → Ext s s'

def DirSucc (direct : LSys → Region → St × LSys) (rg : Region) : Prop :=
  rg.act = .direct → ∀ s st s', Shape s → (rg.meth ≠ M_DIRECT → DirOK s) → direct s rg = (st, s') → st = .ok

theorem acted_ext {direct : LSys → Region → St × LSys} (hdE : DirExt direct) {s s' : LSys} (hs : Shape s)
    (rg : Region) (hrg : RegOK rg) (st : St) (h : acted direct s rg = (st, s')) :
    Ext s s' ∧ (DirSucc direct rg → rg.meth < 16 → (NeedsDir rg → DirOK s) → st = .ok) := by
  unfold acted at h
  split at h
  · rename_i ha
    exact ⟨hdE s rg st s' hs hrg h, fun hsucc _ hd => hsucc ha s st s' hs (fun hne => hd (Or.inr ⟨ha, hne⟩)) h⟩
  · rename_i ha
    obtain ⟨e, ok⟩ := actRdirect_ext hs rg st h
    exact ⟨e, fun _ hm hd => ok (hd (Or.inl ha)) hm⟩
  · obtain ⟨e, ok⟩ := actIdent_ext hs rg KPHYS st h
    exact ⟨e, fun _ hm _ => ok hm⟩
  · obtain ⟨e, ok⟩ := actIdent_ext hs rg MACHPHYS st h
    exact ⟨e, fun _ hm _ => ok hm⟩
  · injection h with h1 h2; subst h1; subst h2
    exact ⟨Ext.refl hs, fun _ _ _ => rfl⟩

theorem layoutLoop_ext {direct : LSys → Region → St × LSys} (hdE : DirExt direct) (alloc : Bool) (idx : Nat)
    (layout : List Region) : ∀ (s s' : LSys) (st : St), Shape s → (∀ rg ∈ layout, RegOK rg) →
    layoutLoop direct alloc idx layout s = (st, s') →
    Ext s s' ∧ (alloc = true → HasMap s idx → (∀ rg ∈ layout, rg.meth < 16) →
      (∀ rg ∈ layout, NeedsDir rg → DirOK s) → (∀ rg ∈ layout, DirSucc direct rg) → st = .ok) := by
  induction layout with
  | nil =>
    intro s s' st hs _ h
    injection h with h1 h2; subst h1; subst h2
    exact ⟨Ext.refl hs, fun _ _ _ _ _ => rfl⟩
  | cons rg rest ih =>
    intro s s' st hs hreg h
    have hrg : RegOK rg := hreg rg (List.mem_cons_self ..)
    have hreg' : ∀ r ∈ rest, RegOK r := fun r hr => hreg r (List.mem_cons_of_mem _ hr)
    rw [layoutLoop_cons] at h
    cases ha : acted direct s rg with
    | mk st1 s1 =>
      obtain ⟨e1, ok1⟩ := acted_ext hdE hs rg hrg st1 ha
      rw [ha] at h
      have key : ∀ st2 s2, mapSetAt s1 idx rg.first (regRange rg) alloc = (st2, s2) →
          (st2 = .ok → layoutLoop direct alloc idx rest s2 = (st, s')) →
          (st2 ≠ .ok → (st2, s2) = (st, s')) → st1 = .ok →
          Ext s s' ∧ (alloc = true → HasMap s idx → (∀ r ∈ rg :: rest, r.meth < 16) →
            (∀ r ∈ rg :: rest, NeedsDir r → DirOK s) → (∀ r ∈ rg :: rest, DirSucc direct r) → st = .ok) := by
        intro st2 s2 hm hok hbad _
        obtain ⟨e2, ok2⟩ := mapSetAt_ext e1.shape idx rg.first (regRange rg) alloc st2 (regRange_guard hrg) hm
        by_cases hst2 : st2 = .ok
        · obtain ⟨e3, ok3⟩ := ih s2 s' st e2.shape hreg' (hok hst2)
          refine ⟨e1.trans (e2.trans e3), fun hal hmap hmeth hdir hsucc => ?_⟩
          refine ok3 hal (e2.hasMap _ (e1.hasMap _ hmap)) (fun r hr => hmeth r (List.mem_cons_of_mem _ hr))
            (fun r hr hn => e2.dirOK (e1.dirOK (hdir r (List.mem_cons_of_mem _ hr) hn)))
            (fun r hr => hsucc r (List.mem_cons_of_mem _ hr))
        · have := hbad hst2
          injection this with h1 h2; subst h1; subst h2
          exact ⟨e1.trans e2, fun hal hmap _ _ _ => ok2 hal (e1.hasMap _ hmap)⟩
      cases st1 with
      | ok =>
        simp only at h
        cases hm : mapSetAt s1 idx rg.first (regRange rg) alloc with
        | mk st2 s2 =>
          rw [hm] at h
          refine key st2 s2 hm ?_ ?_ rfl
          · intro e; subst e; exact h
          · intro e; cases st2 <;> first | exact absurd rfl e | exact h
      | nomem | oob | undef =>
        simp only at h
        injection h with h1 h2; subst h1; subst h2
        exact ⟨e1, fun _ _ hmeth hdir hsucc => ok1 (hsucc rg (List.mem_cons_self ..))
          (hmeth rg (List.mem_cons_self ..)) (hdir rg (List.mem_cons_self ..))⟩

theorem setLayoutWith_ext {direct : LSys → Region → St × LSys} (hdE : DirExt direct) (alloc : Bool) (idx : Nat)
    (layout : List Region) (s s' : LSys) (st : St) (hs : Shape s) (hreg : ∀ rg ∈ layout, RegOK rg)
    (h : setLayoutWith direct alloc s idx layout = (st, s')) :
    Ext s s' ∧ (alloc = true → idx < 5 → (∀ rg ∈ layout, rg.meth < 16) →
      (∀ rg ∈ layout, NeedsDir rg → DirOK s) → (∀ rg ∈ layout, DirSucc direct rg) → st = .ok) := by
  unfold setLayoutWith at h
  cases he : ensureMap s idx alloc with
  | mk st0 s0 =>
    obtain ⟨e0, hm0, ok0⟩ := ensureMap_ext hs idx alloc st0 he
    rw [he] at h
    cases st0 with
    | ok =>
      simp only at h
      obtain ⟨e1, ok1⟩ := layoutLoop_ext hdE alloc idx layout s0 s' st e0.shape hreg h
      exact ⟨e0.trans e1, fun hal _ hmeth hdir hsucc =>
        ok1 hal (hm0 rfl) hmeth (fun r hr hn => e0.dirOK (hdir r hr hn)) hsucc⟩
    | nomem | oob | undef =>
      simp only at h
      injection h with h1 h2; subst h1; subst h2
      exact ⟨e0, fun hal hi _ _ _ => ok0 hal hi⟩

theorem dirExt_undef : DirExt (fun s _ => (St.undef, s)) := by
  intro s rg st s' hs _ h
  injection h with h1 h2; subst h2
  exact Ext.refl hs

theorem actDirect_ext (alloc : Bool) {s s' : LSys} (hs : Shape s) (rg : Region) (_hrg : RegOK rg) (st : St)
    (h : actDirect alloc s rg = (st, s')) :
    Ext s s' ∧ (alloc = true → rg.meth < 16 → (rg.meth ≠ M_DIRECT → DirOK s) → st = .ok) := by
  unfold actDirect at h
  split at h
  · rename_i hl
    injection h with h1 h2; subst h1; subst h2
    refine ⟨Ext.refl hs, fun _ hm _ => ?_⟩
    rw [setLinear_eq hs hm] at hl; cases hl
  · rename_i s1 hl
    obtain ⟨e1, _, hdir1⟩ := setLinear_ext hs hl
    unfold setLayoutInner at h
    have hinner : ∀ r ∈ [(⟨0, (rg.last + W - rg.first) % W, M_RDIRECT, .rdirect⟩ : Region)], RegOK r := by
      intro r hr
      rw [List.mem_singleton] at hr; subst hr
      refine ⟨Nat.zero_le _, ?_⟩
      show (rg.last + W - rg.first) % W < W
      exact Nat.mod_lt _ (by decide)
    obtain ⟨e2, ok2⟩ := setLayoutWith_ext dirExt_undef alloc MAP_KPHYS_DIRECT _ s1 s' st e1.shape hinner h
    refine ⟨e1.trans e2, fun hal _ hd => ok2 hal (by decide) ?_ ?_ ?_⟩
    · intro r hr; rw [List.mem_singleton] at hr; subst hr; show (5 : Nat) < 16; decide
    · intro r hr _
      by_cases hm : rg.meth = M_DIRECT
      · exact hdir1 hm
      · exact e1.dirOK (hd hm)
    · intro r hr ha; rw [List.mem_singleton] at hr; subst hr; cases ha

theorem dirExt_actDirect (alloc : Bool) : DirExt (actDirect alloc) :=
  fun _ rg st _ hs hrg h => (actDirect_ext alloc hs rg hrg st h).1

/-- everything `sys_set_layout` guarantees whatever its status and allocator: the resulting system
(also the partially updated one of a failing call) has the shape, existing maps stay, a written
DIRECT offset stays written, `OffsOK` is kept; and the sufficient condition for success. -/
theorem setLayout_ext (alloc : Bool) (s : LSys) (hs : Shape s) (idx : Nat) (layout : List Region)
    (hreg : ∀ rg ∈ layout, RegOK rg) (s' : LSys) (st : St) (h : setLayout alloc s idx layout = (st, s')) :
    Ext s s' ∧ (alloc = true → idx < 5 → (∀ rg ∈ layout, rg.meth < 16) →
      (∀ rg ∈ layout, NeedsDir rg → DirOK s) → st = .ok) := by
  obtain ⟨e, ok⟩ := setLayoutWith_ext (dirExt_actDirect alloc) alloc idx layout s s' st hs hreg h
  refine ⟨e, fun hal hi hmeth hdir => ok hal hi hmeth hdir ?_⟩
  intro rg hrg _ s0 st0 s0' hs0 hd0 h0
  exact (actDirect_ext alloc hs0 rg (hreg rg hrg) st0 h0).2 hal (hmeth rg hrg) hd0

-- original statement (vague docstring "keeps the shape, and (when the layout has no DIRECT action … state
-- what you need)"; conclusion was only `Shape s'`):
--   theorem setLayout_shape (s) (hs : Shape s) (idx) (hidx : idx < 5) (layout)
--     (hreg : ∀ rg ∈ layout, rg.first ≤ rg.last ∧ rg.last < W ∧ rg.meth < 16)
--     (hdir : ∀ rg ∈ layout, rg.act = .rdirect → ∃ v, s.offs[M_DIRECT]? = some (some v))
--     (s' st) (h : setLayout true s idx layout = (st, s')) : Shape s'
-- made precise: `hdir` also covers a DIRECT region on a slot other than DIRECT (its nested RDIRECT
-- region reads the DIRECT offset cell); the conclusion adds success, `OffsOK`, and the frame facts.
theorem setLayout_shape (s : LSys) (hs : Shape s) (idx : Nat) (hidx : idx < 5) (layout : List Region)
    (hreg : ∀ rg ∈ layout, rg.first ≤ rg.last ∧ rg.last < W ∧ rg.meth < 16)
    (hdir : ∀ rg ∈ layout, rg.act = .rdirect ∨ (rg.act = .direct ∧ rg.meth ≠ M_DIRECT) →
      ∃ v, s.offs[M_DIRECT]? = some (some v))
    (s' : LSys) (st : St) (h : setLayout true s idx layout = (st, s')) :
    st = .ok ∧ Shape s' ∧ (OffsOK s → OffsOK s') ∧
      (∀ (j : Nat) (m : Kdf.Model.Map.Map), s.sys.maps[j]? = some (some m) → ∃ m', s'.sys.maps[j]? = some (some m')) ∧
      ((∃ v, s.offs[M_DIRECT]? = some (some v)) → ∃ v, s'.offs[M_DIRECT]? = some (some v)) := by
  obtain ⟨e, ok⟩ := setLayout_ext true s hs idx layout (fun rg hr => ⟨(hreg rg hr).1, (hreg rg hr).2.1⟩) s' st h
  exact ⟨ok rfl hidx (fun rg hr => (hreg rg hr).2.2) hdir, e.shape, e.offsOK,
    fun j m hm => e.hasMap j ⟨m, hm⟩, e.dirOK⟩

/-- shape preservation alone needs no hypothesis on method slots, actions, allocator or status -/
theorem setLayout_shape_any (alloc : Bool) (s : LSys) (hs : Shape s) (idx : Nat) (layout : List Region)
    (hreg : ∀ rg ∈ layout, rg.first ≤ rg.last ∧ rg.last < W)
    (s' : LSys) (st : St) (h : setLayout alloc s idx layout = (st, s')) : Shape s' :=
  (setLayout_ext alloc s hs idx layout hreg s' st h).1.shape

/-! ### exact results with a succeeding allocator -/

/-- `s` with map `idx` replaced -/
def withMap (s : LSys) (idx : Nat) (m : Kdf.Model.Map.Map) : LSys :=
  ⟨⟨s.sys.maps.set idx (some m), s.sys.meths⟩, s.offs⟩

/-- `s` with method `slot` made linear -/
def withLin (s : LSys) (slot t off : Nat) : LSys :=
  ⟨⟨s.sys.maps, s.sys.meths.set slot (.linear t off)⟩, s.offs.set slot (some off)⟩

/-- the map in slot `idx`, a NULL one read as the empty map `internal_map_new` creates -/
def curMap (s : LSys) (idx : Nat) : Kdf.Model.Map.Map :=
  match s.sys.maps[idx]? with
  | some (some m) => m
  | _ => []

/-- what map `idx` answers before the call -/
def baseFn (s : LSys) (idx : Nat) (x : Nat) : Int :=
  match s.sys.maps[idx]? with
  | some (some m0) => mapSearch m0 x
  | _ => Kdf.Model.Map.NONE

theorem mapSearch_curMap (s : LSys) (idx x : Nat) : mapSearch (curMap s idx) x = baseFn s idx x := by
  unfold curMap baseFn
  split
  · rfl
  · rfl

theorem curMap_wf {s : LSys} (hs : Shape s) (idx : Nat) : WF (curMap s idx) := by
  unfold curMap
  split
  · rename_i m h; exact hs.wf idx m h
  · exact Or.inl rfl

theorem withMap_shape {s : LSys} (hs : Shape s) (idx : Nat) {m : Kdf.Model.Map.Map} (hm : WF m) :
    Shape (withMap s idx m) := (ext_setMap hs idx m hm).shape

theorem withLin_shape {s : LSys} (hs : Shape s) (slot t off : Nat) : Shape (withLin s slot t off) :=
  (ext_setLin hs slot t off).shape

theorem ensureMap_eq {s : LSys} (hs : Shape s) {idx : Nat} (hidx : idx < 5) :
    ensureMap s idx true = (.ok, withMap s idx (curMap s idx)) := by
  have hlt : idx < s.sys.maps.length := by rw [hs.maps]; exact hidx
  unfold ensureMap curMap withMap
  cases hm : s.sys.maps[idx]? with
  | none => rw [List.getElem?_eq_getElem hlt] at hm; cases hm
  | some x =>
    cases x with
    | none => rfl
    | some m =>
      simp only
      have : s.sys.maps.set idx (some m) = s.sys.maps := by
        apply List.ext_getElem?
        intro i
        rw [List.getElem?_set]
        by_cases e : idx = i
        · subst e; rw [if_pos rfl, if_pos hlt, hm]
        · simp [e]
      rw [this]

theorem mapSearch_set {m : Kdf.Model.Map.Map} (h : WF m) (addr : Nat) (r : Range) (hr : addr + r.endoff < W)
    (a : Nat) (ha : a < W) :
    mapSearch (mapSet m addr r true).2 a =
      if addr ≤ a ∧ a ≤ addr + r.endoff then r.meth else mapSearch m a := by
  have hw := Kdf.Props.C10.set_wf m h addr r hr
  rw [Kdf.Props.C10.search_eq_den _ (Or.inr hw.2) a ha, Kdf.Props.C10.set_den m h addr r hr a ha,
    Kdf.Props.C10.search_eq_den m h a ha]

theorem mapSet_wf {m : Kdf.Model.Map.Map} (h : WF m) (addr : Nat) (r : Range) (hr : addr + r.endoff < W) :
    WF (mapSet m addr r true).2 := Or.inr (Kdf.Props.C10.set_wf m h addr r hr).2

theorem mapSetAt_eq {s : LSys} {idx : Nat} {m : Kdf.Model.Map.Map} (hm : s.sys.maps[idx]? = some (some m))
    (hwf : WF m) (first : Nat) (r : Range) (hr : first + r.endoff < W) :
    mapSetAt s idx first r true = (.ok, withMap s idx (mapSet m first r true).2) := by
  unfold mapSetAt withMap
  rw [hm]
  simp only
  have hok := Kdf.Props.C10.set_ok m hwf first r hr
  cases hms : mapSet m first r true with
  | mk st m' =>
    rw [hms] at hok
    simp only at hok
    subst hok
    rfl

theorem setLinear_eq' {s : LSys} (hs : Shape s) {slot : Nat} (h : slot < 16) (t off : Nat) :
    setLinear s slot t off = some (withLin s slot t off) := setLinear_eq hs h t off

/-- a layout of one region -/
theorem setLayoutWith_single (direct : LSys → Region → St × LSys) {s : LSys} (hs : Shape s) {idx : Nat}
    (hidx : idx < 5) (rg : Region) (hrg : RegOK rg) (s2 : LSys)
    (hact : acted direct (withMap s idx (curMap s idx)) rg = (.ok, s2))
    (m : Kdf.Model.Map.Map) (hm : s2.sys.maps[idx]? = some (some m)) (hwf : WF m) :
    setLayoutWith direct true s idx [rg] =
      (.ok, withMap s2 idx (mapSet m rg.first (regRange rg) true).2) := by
  unfold setLayoutWith
  rw [ensureMap_eq hs hidx]
  simp only
  rw [layoutLoop_cons, hact]
  simp only
  rw [mapSetAt_eq hm hwf rg.first (regRange rg) (regRange_guard hrg)]
  rfl

/-! ### plain layouts -/

/-- a layout of regions without actions (`SYS_ACT_NONE`): the map becomes the point-wise
update by the regions in order (later regions win), methods untouched -/
def regionsDen (base : Nat → Int) : List Region → Nat → Int
  | [], a => base a
  | rg :: rest, a => regionsDen (fun x => if rg.first ≤ x ∧ x ≤ rg.last then (rg.meth : Int) else base x) rest a

theorem regionsDen_congr (l : List Region) : ∀ (f g : Nat → Int) (a : Nat), f a = g a →
    regionsDen f l a = regionsDen g l a := by
  induction l with
  | nil => intro f g a h; exact h
  | cons rg rest ih =>
    intro f g a h
    simp only [regionsDen]
    apply ih
    simp only [h]

theorem withMap_get_self {s : LSys} {idx : Nat} (h : idx < s.sys.maps.length) (m : Kdf.Model.Map.Map) :
    (withMap s idx m).sys.maps[idx]? = some (some m) := List.getElem?_set_self h

theorem withMap_get_ne (s : LSys) {idx i : Nat} (h : i ≠ idx) (m : Kdf.Model.Map.Map) :
    (withMap s idx m).sys.maps[i]? = s.sys.maps[i]? := List.getElem?_set_ne (Ne.symm h)

theorem regRange_endoff {rg : Region} (h : RegOK rg) : rg.first + (regRange rg).endoff = rg.last := by
  have := sub_mod_W rg.first rg.last h.1 h.2
  simp only [regRange, this]
  have := h.1
  omega

theorem layoutLoop_plain (direct : LSys → Region → St × LSys) (idx : Nat) (layout : List Region) :
    ∀ (s : LSys) (m : Kdf.Model.Map.Map), Shape s → s.sys.maps[idx]? = some (some m) →
    (∀ rg ∈ layout, RegOK rg ∧ rg.act = .none) →
    ∃ s' m', layoutLoop direct true idx layout s = (.ok, s') ∧ Shape s' ∧ s'.sys.meths = s.sys.meths ∧
      s'.offs = s.offs ∧ s'.sys.maps[idx]? = some (some m') ∧
      (∀ i : Nat, i ≠ idx → s'.sys.maps[i]? = s.sys.maps[i]?) ∧
      ∀ a, a < W → mapSearch m' a = regionsDen (fun x => mapSearch m x) layout a := by
  induction layout with
  | nil =>
    intro s m hs hm _
    exact ⟨s, m, rfl, hs, rfl, rfl, hm, fun _ _ => rfl, fun _ _ => rfl⟩
  | cons rg rest ih =>
    intro s m hs hm hreg
    obtain ⟨hrg, hnone⟩ := hreg rg (List.mem_cons_self ..)
    have hwf : WF m := hs.wf idx m hm
    have hlt : idx < s.sys.maps.length := by
      rcases Nat.lt_or_ge idx s.sys.maps.length with h' | h'
      · exact h'
      · rw [List.getElem?_eq_none h'] at hm; cases hm
    have hact : acted direct s rg = (.ok, s) := by unfold acted; rw [hnone]
    have hguard := regRange_guard hrg
    have hwf2 := mapSet_wf hwf rg.first (regRange rg) hguard
    obtain ⟨s', m', hrun, hs', hme, hof, hmap, hfr, hden⟩ :=
      ih (withMap s idx (mapSet m rg.first (regRange rg) true).2) _ (withMap_shape hs idx hwf2)
        (withMap_get_self hlt _) (fun r hr => hreg r (List.mem_cons_of_mem _ hr))
    refine ⟨s', m', ?_, hs', hme, hof, hmap, ?_, ?_⟩
    · rw [layoutLoop_cons, hact]
      simp only
      rw [mapSetAt_eq hm hwf rg.first (regRange rg) hguard]
      exact hrun
    · intro i hi
      rw [hfr i hi]
      exact withMap_get_ne s hi _
    · intro a ha
      rw [hden a ha]
      simp only [regionsDen]
      apply regionsDen_congr
      rw [mapSearch_set hwf rg.first (regRange rg) hguard a ha, regRange_endoff hrg]
      rfl

theorem setLayout_plain (s : LSys) (hs : Shape s) (idx : Nat) (hidx : idx < 5) (layout : List Region)
    (hreg : ∀ rg ∈ layout, rg.first ≤ rg.last ∧ rg.last < W ∧ rg.act = .none) :
    ∃ s' m', setLayout true s idx layout = (.ok, s') ∧ Shape s' ∧ s'.sys.meths = s.sys.meths ∧ s'.offs = s.offs ∧
      s'.sys.maps[idx]? = some (some m') ∧
      (∀ i : Nat, i ≠ idx → s'.sys.maps[i]? = s.sys.maps[i]?) ∧
      ∀ a, a < W → mapSearch m' a =
        regionsDen (fun x => match s.sys.maps[idx]? with
                             | some (some m0) => mapSearch m0 x
                             | _ => Kdf.Model.Map.NONE) layout a := by
  have hlt : idx < s.sys.maps.length := by rw [hs.maps]; exact hidx
  obtain ⟨s', m', hrun, hs', hme, hof, hmap, hfr, hden⟩ :=
    layoutLoop_plain (actDirect true) idx layout (withMap s idx (curMap s idx)) (curMap s idx)
      (withMap_shape hs idx (curMap_wf hs idx)) (withMap_get_self hlt _)
      (fun r hr => ⟨⟨(hreg r hr).1, (hreg r hr).2.1⟩, (hreg r hr).2.2⟩)
  refine ⟨s', m', ?_, hs', hme, hof, hmap, ?_, ?_⟩
  · unfold setLayout setLayoutWith
    rw [ensureMap_eq hs hidx]
    exact hrun
  · intro i hi
    rw [hfr i hi]
    exact withMap_get_ne s hi _
  · intro a ha
    rw [hden a ha]
    apply regionsDen_congr
    exact mapSearch_curMap s idx a

/-! ### `act_direct` -/

theorem curMap_congr {s s' : LSys} {idx : Nat} (h : s'.sys.maps[idx]? = s.sys.maps[idx]?) :
    curMap s' idx = curMap s idx := by
  unfold curMap; rw [h]

/-- the system `act_direct` leaves behind, as an explicit term -/
def directResult (s : LSys) (first last : Nat) : LSys :=
  let s1 := withMap s MAP_KV_PHYS (curMap s MAP_KV_PHYS)
  let s2 := withLin s1 M_DIRECT KPHYS ((W - first) % W)
  let s3 := withMap s2 MAP_KPHYS_DIRECT (curMap s MAP_KPHYS_DIRECT)
  let s4 := withLin s3 M_RDIRECT KV ((W - (W - first) % W) % W)
  let s5 := withMap s4 MAP_KPHYS_DIRECT
    (mapSet (curMap s MAP_KPHYS_DIRECT) 0 ⟨((last + W - first) % W + W - 0) % W, (M_RDIRECT : Nat)⟩ true).2
  withMap s5 MAP_KV_PHYS
    (mapSet (curMap s MAP_KV_PHYS) first ⟨(last + W - first) % W, (M_DIRECT : Nat)⟩ true).2

theorem setLayout_direct_eq (s : LSys) (hs : Shape s) (first last : Nat) (hfl : first ≤ last) (hl : last < W) :
    setLayout true s MAP_KV_PHYS [⟨first, last, M_DIRECT, .direct⟩] = (.ok, directResult s first last) := by
  have hL : (last + W - first) % W = last - first := sub_mod_W first last hfl hl
  have hLlt : last - first < W := by omega
  have h5 : s.sys.maps.length = 5 := hs.maps
  have hs1 : Shape (withMap s 1 (curMap s 1)) := withMap_shape hs 1 (curMap_wf hs 1)
  have hs2 := withLin_shape hs1 2 KPHYS ((W - first) % W)
  have hcm : curMap (withLin (withMap s 1 (curMap s 1)) 2 KPHYS ((W - first) % W)) 2 = curMap s 2 :=
    curMap_congr (withMap_get_ne s (by decide) _)
  have hs3 := withMap_shape hs2 2 (curMap_wf hs 2)
  -- the nested call
  have hinner : setLayoutWith (fun s _ => (St.undef, s)) true
      (withLin (withMap s 1 (curMap s 1)) 2 KPHYS ((W - first) % W)) 2
      [⟨0, (last + W - first) % W, 5, .rdirect⟩] =
      (.ok, withMap (withLin (withMap (withLin (withMap s 1 (curMap s 1)) 2 KPHYS ((W - first) % W)) 2 (curMap s 2))
        5 KV ((W - (W - first) % W) % W)) 2
        (mapSet (curMap s 2) 0 ⟨((last + W - first) % W + W - 0) % W, (5 : Nat)⟩ true).2) := by
    refine setLayoutWith_single _ hs2 (by decide) _ ⟨Nat.zero_le _, by rw [hL]; exact hLlt⟩ _ ?_
      (curMap s 2) ?_ (curMap_wf hs 2)
    · rw [hcm]
      show actRdirect _ _ = _
      unfold actRdirect
      have : (withMap (withLin (withMap s 1 (curMap s 1)) 2 KPHYS ((W - first) % W)) 2 (curMap s 2)).offs[M_DIRECT]?
          = some (some ((W - first) % W)) :=
        List.getElem?_set_self (by rw [hs1.offs]; decide)
      rw [this]
      simp only
      rw [setLinear_eq' hs3 (by decide)]
    · show (List.set (List.set s.sys.maps 1 _) 2 _)[2]? = _
      rw [List.getElem?_set_self (by rw [List.length_set, h5]; decide)]
  have hact : acted (actDirect true) (withMap s 1 (curMap s 1)) ⟨first, last, M_DIRECT, .direct⟩ =
      (.ok, withMap (withLin (withMap (withLin (withMap s 1 (curMap s 1)) 2 KPHYS ((W - first) % W)) 2 (curMap s 2))
        5 KV ((W - (W - first) % W) % W)) 2
        (mapSet (curMap s 2) 0 ⟨((last + W - first) % W + W - 0) % W, (5 : Nat)⟩ true).2) := by
    show actDirect true _ _ = _
    unfold actDirect
    rw [setLinear_eq' hs1 (show (2 : Nat) < 16 by decide)]
    exact hinner
  unfold setLayout
  rw [setLayoutWith_single _ hs (by decide) _ ⟨hfl, hl⟩ _ hact (curMap s 1) ?_ (curMap_wf hs 1)]
  · rfl
  · show (List.set (List.set (List.set s.sys.maps 1 _) 2 _) 2 _)[1]? = _
    rw [List.getElem?_set_ne (by decide), List.getElem?_set_ne (by decide),
      List.getElem?_set_self (by rw [h5]; decide)]

/-- **direct_def**: one DIRECT region `[first, last]` set up through `act_direct` on the
KV→PHYS map: the call succeeds; the DIRECT method is `va ↦ va - first` into KPHYSADDR; the
RDIRECT method is `pa ↦ pa + first` into KVADDR; the KV→PHYS map sends exactly `[first, last]` to
DIRECT and is unchanged elsewhere; the KPHYS→DIRECT map sends exactly `[0, last - first]` to RDIRECT
and is unchanged elsewhere. -/
theorem direct_def (s : LSys) (hs : Shape s) (first last : Nat) (hfl : first ≤ last) (hl : last < W) :
    ∃ s', setLayout true s MAP_KV_PHYS [⟨first, last, M_DIRECT, .direct⟩] = (.ok, s') ∧ Shape s' ∧
      s'.sys.meths[M_DIRECT]? = some (.linear KPHYS ((W - first) % W)) ∧
      s'.sys.meths[M_RDIRECT]? = some (.linear KV first) ∧
      (∀ i : Nat, i ≠ M_DIRECT → i ≠ M_RDIRECT → s'.sys.meths[i]? = s.sys.meths[i]?) ∧
      (∃ mk, s'.sys.maps[MAP_KV_PHYS]? = some (some mk) ∧
        ∀ va, va < W → mapSearch mk va =
          if first ≤ va ∧ va ≤ last then (M_DIRECT : Int)
          else match s.sys.maps[MAP_KV_PHYS]? with
            | some (some m0) => mapSearch m0 va
            | _ => Kdf.Model.Map.NONE) ∧
      (∃ md, s'.sys.maps[MAP_KPHYS_DIRECT]? = some (some md) ∧
        ∀ pa, pa < W → mapSearch md pa =
          if pa ≤ last - first then (M_RDIRECT : Int)
          else match s.sys.maps[MAP_KPHYS_DIRECT]? with
            | some (some m0) => mapSearch m0 pa
            | _ => Kdf.Model.Map.NONE) ∧
      (∀ i : Nat, i ≠ MAP_KV_PHYS → i ≠ MAP_KPHYS_DIRECT → s'.sys.maps[i]? = s.sys.maps[i]?) := by
  have heq := setLayout_direct_eq s hs first last hfl hl
  have hf : first < W := Nat.lt_of_le_of_lt hfl hl
  have hL : (last + W - first) % W = last - first := sub_mod_W first last hfl hl
  have hL2 : (last - first + W - 0) % W = last - first := sub_mod_W 0 (last - first) (Nat.zero_le _) (by omega)
  have h5 : s.sys.maps.length = 5 := hs.maps
  have h16 : s.sys.meths.length = 16 := hs.meths
  have hshape : Shape (directResult s first last) :=
    (setLayout_ext true s hs _ _ (by
      intro r hr; rw [List.mem_singleton] at hr; subst hr; exact ⟨hfl, hl⟩) _ _ heq).1.shape
  refine ⟨_, heq, hshape, ?_, ?_, ?_,
    ⟨(mapSet (curMap s 1) first ⟨(last + W - first) % W, (2 : Nat)⟩ true).2, ?_, ?_⟩,
    ⟨(mapSet (curMap s 2) 0 ⟨((last + W - first) % W + W - 0) % W, (5 : Nat)⟩ true).2, ?_, ?_⟩, ?_⟩
  · show (List.set (List.set s.sys.meths 2 _) 5 _)[2]? = _
    rw [List.getElem?_set_ne (by decide), List.getElem?_set_self (by rw [h16]; decide)]
  · show (List.set (List.set s.sys.meths 2 _) 5 _)[5]? = _
    rw [List.getElem?_set_self (by rw [List.length_set, h16]; decide), neg_neg_W first hf]
  · intro i h2 h5'
    show (List.set (List.set s.sys.meths 2 _) 5 _)[i]? = _
    rw [List.getElem?_set_ne (Ne.symm h5'), List.getElem?_set_ne (Ne.symm h2)]
  · show (List.set (List.set (List.set (List.set s.sys.maps 1 _) 2 _) 2 _) 1 _)[1]? = _
    exact List.getElem?_set_self (by simp only [List.length_set, h5]; decide)
  · intro va hva
    have hg : first + (last + W - first) % W < W := by rw [hL]; omega
    rw [mapSearch_set (curMap_wf hs 1) first ⟨_, _⟩ hg va hva, mapSearch_curMap]
    have : first + (last + W - first) % W = last := by rw [hL]; omega
    simp only [this]
    rfl
  · show (List.set (List.set (List.set (List.set s.sys.maps 1 _) 2 _) 2 _) 1 _)[2]? = _
    rw [List.getElem?_set_ne (by decide)]
    exact List.getElem?_set_self (by simp only [List.length_set, h5]; decide)
  · intro pa hpa
    have hg : 0 + ((last + W - first) % W + W - 0) % W < W := by rw [hL, hL2]; omega
    rw [mapSearch_set (curMap_wf hs 2) 0 ⟨_, _⟩ hg pa hpa, mapSearch_curMap]
    have : 0 + ((last + W - first) % W + W - 0) % W = last - first := by rw [hL, hL2]; omega
    simp only [this, Nat.zero_le, true_and]
    rfl
  · intro i h1 h2
    show (List.set (List.set (List.set (List.set s.sys.maps 1 _) 2 _) 2 _) 1 _)[i]? = _
    rw [List.getElem?_set_ne (Ne.symm h1), List.getElem?_set_ne (Ne.symm h2),
      List.getElem?_set_ne (Ne.symm h2), List.getElem?_set_ne (Ne.symm h1)]

/-! ### `addrxlat_fulladdr_conv` through a linear method -/

theorem tryAlt_linear_hit (sys : Sys) (caps : Nat) (wk : WalkFn) (mi : Nat) (ms : List Nat) (a : FullAddr)
    (m : Kdf.Model.Map.Map) (slot t off : Nat)
    (has : a.as = mapExpectAs mi) (hm : sys.maps[mi]? = some (some m))
    (hs : mapSearch m a.addr = (slot : Int)) (hmeth : sys.meths[slot]? = some (.linear t off))
    (hc : capsHas caps t = true) :
    tryAlt sys caps wk (mi :: ms) a = .done (.call ⟨(a.addr + off) % W, t⟩) := by
  have hne : ¬ ((slot : Int) = Kdf.Model.Map.NONE) := by simp only [Kdf.Model.Map.NONE]; omega
  have hma : methAt sys (slot : Int) = some (.linear t off) := by
    simp only [methAt]; rw [if_neg (by omega)]; simpa using hmeth
  simp only [tryAlt, has, hm, hs, hne, hma, hc, ne_eq, not_true_eq_false, if_false, if_true]

theorem op_succ_doOp (c : Cfg) (fuel caps : Nat) (a : FullAddr) (sys : Sys) (ch : Chain)
    (hp : pre c caps a = .ok (sys, ch)) :
    ∃ wk, op c (fuel+1) caps [] a = doOp sys caps wk ch.alts a := by
  rw [op, hp]
  exact ⟨_, rfl⟩

/-- the general form: the first alternative of the first chain element hits a linear method whose
target is the wanted address space -/
theorem conv_linear (c : Cfg) (sys : Sys) (hc : c.sys = some sys) (target : Nat) (addr src : Nat) (ch : Chain)
    (h1 : capsHas (capsOf target) src = false) (h2 : ¬ (capsOf target % 8 = 0))
    (h3 : chainOf (capsOf target) src = some ch) (mi : Nat) (ms : List Nat) (rest : List (List Nat))
    (halts : ch.alts = (mi :: ms) :: rest)
    (m : Kdf.Model.Map.Map) (slot off : Nat)
    (has : src = mapExpectAs mi) (hm : sys.maps[mi]? = some (some m))
    (hs : mapSearch m addr = (slot : Int)) (hmeth : sys.meths[slot]? = some (.linear target off))
    (h4 : capsHas (capsOf target) target = true) :
    conv c target ⟨addr, src⟩ = some (.ok, ⟨(addr + off) % W, target⟩) := by
  have hp : pre c (capsOf target) ⟨addr, src⟩ = .ok (sys, ch) := by
    simp only [pre, h1, h2, hc, h3]; simp
  obtain ⟨wk, hop⟩ := op_succ_doOp c 15 (capsOf target) ⟨addr, src⟩ sys ch hp
  have : opTop c (capsOf target) ⟨addr, src⟩ = doOp sys (capsOf target) wk ch.alts ⟨addr, src⟩ := hop
  simp only [conv, this, halts, doOp]
  rw [tryAlt_linear_hit sys _ _ mi ms ⟨addr, src⟩ m slot target off has hm hs hmeth h4]

/-- what `addrxlat_fulladdr_conv` does with a linear region, forward direction
(KVADDR → KPHYSADDR through map KV_PHYS): the model's `conv` takes the first-match linear
shortcut -/
theorem conv_kv_linear (c : Cfg) (sys : Sys) (hc : c.sys = some sys) (mk : Kdf.Model.Map.Map)
    (hmk : sys.maps[MAP_KV_PHYS]? = some (some mk)) (va : Nat) (slot : Nat) (off : Nat)
    (hsearch : mapSearch mk va = (slot : Int)) (hmeth : sys.meths[slot]? = some (.linear KPHYS off)) :
    conv c KPHYS ⟨va, KV⟩ = some (.ok, ⟨(va + off) % W, KPHYS⟩) :=
  conv_linear c sys hc KPHYS va KV .kv2phys (by decide) (by decide) (by decide) 1 [0] [[3, 4]] rfl
    mk slot off rfl hmk hsearch hmeth (by decide)

/-- reverse direction (KPHYSADDR → KVADDR through map KPHYS_DIRECT) -/
theorem conv_kphys_linear (c : Cfg) (sys : Sys) (hc : c.sys = some sys) (md : Kdf.Model.Map.Map)
    (hmd : sys.maps[MAP_KPHYS_DIRECT]? = some (some md)) (pa : Nat) (slot : Nat) (off : Nat)
    (hsearch : mapSearch md pa = (slot : Int)) (hmeth : sys.meths[slot]? = some (.linear KV off)) :
    conv c KV ⟨pa, KPHYS⟩ = some (.ok, ⟨(pa + off) % W, KV⟩) :=
  conv_linear c sys hc KV pa KPHYS .kphys2direct (by decide) (by decide) (by decide) 2 [] [] rfl
    md slot off rfl hmd hsearch hmeth (by decide)

/-- MACHPHYSADDR → KPHYSADDR through map MACHPHYS_KPHYS -/
theorem conv_machphys_linear (c : Cfg) (sys : Sys) (hc : c.sys = some sys) (m : Kdf.Model.Map.Map)
    (hm : sys.maps[MAP_MACHPHYS_KPHYS]? = some (some m)) (pa : Nat) (slot : Nat) (off : Nat)
    (hsearch : mapSearch m pa = (slot : Int)) (hmeth : sys.meths[slot]? = some (.linear KPHYS off)) :
    conv c KPHYS ⟨pa, MACHPHYS⟩ = some (.ok, ⟨(pa + off) % W, KPHYS⟩) :=
  conv_linear c sys hc KPHYS pa MACHPHYS .machphys2direct (by decide) (by decide) (by decide) 3 [] [[2]] rfl
    m slot off rfl hm hsearch hmeth (by decide)

/-- KPHYSADDR → MACHPHYSADDR through map KPHYS_MACHPHYS -/
theorem conv_kphys_machphys_linear (c : Cfg) (sys : Sys) (hc : c.sys = some sys) (m : Kdf.Model.Map.Map)
    (hm : sys.maps[MAP_KPHYS_MACHPHYS]? = some (some m)) (pa : Nat) (slot : Nat) (off : Nat)
    (hsearch : mapSearch m pa = (slot : Int)) (hmeth : sys.meths[slot]? = some (.linear MACHPHYS off)) :
    conv c MACHPHYS ⟨pa, KPHYS⟩ = some (.ok, ⟨(pa + off) % W, MACHPHYS⟩) :=
  conv_linear c sys hc MACHPHYS pa KPHYS .kphys2machphys (by decide) (by decide) (by decide) 4 [] [] rfl
    m slot off rfl hm hsearch hmeth (by decide)

/-- **rdirect_direct_id**: in the system produced by `direct_def`, whatever memory and read
capabilities: every physical address the reverse direct map accepts (`pa ≤ last - first`) becomes
`pa + first`, and that virtual address converts back to `pa`; every `va` in `[first, last]`
converts to `va - first`, which converts back to `va`. -/
theorem rdirect_direct_id (s : LSys) (hs : Shape s) (first last : Nat) (hfl : first ≤ last) (hl : last < W)
    (s' : LSys) (h : setLayout true s MAP_KV_PHYS [⟨first, last, M_DIRECT, .direct⟩] = (.ok, s'))
    (readCaps : Nat) (pm : Mem) :
    let c : Cfg := ⟨some s'.sys, readCaps, pm⟩
    (∀ pa, pa ≤ last - first →
      conv c KV ⟨pa, KPHYS⟩ = some (.ok, ⟨pa + first, KV⟩) ∧
      conv c KPHYS ⟨pa + first, KV⟩ = some (.ok, ⟨pa, KPHYS⟩)) ∧
    (∀ va, first ≤ va → va ≤ last →
      conv c KPHYS ⟨va, KV⟩ = some (.ok, ⟨va - first, KPHYS⟩) ∧
      conv c KV ⟨va - first, KPHYS⟩ = some (.ok, ⟨va, KV⟩)) := by
  intro c
  obtain ⟨s'', heq, _, hm2, hm5, _, ⟨mk, hmk, hsk⟩, ⟨md, hmd, hsd⟩, _⟩ := direct_def s hs first last hfl hl
  rw [h] at heq
  injection heq with _ e
  subst e
  have fwd : ∀ va, first ≤ va → va ≤ last → conv c KPHYS ⟨va, KV⟩ = some (.ok, ⟨va - first, KPHYS⟩) := by
    intro va h1 h2
    have hva : va < W := by omega
    have := conv_kv_linear c s'.sys rfl mk hmk va 2 ((W - first) % W)
      (by rw [hsk va hva, if_pos ⟨h1, h2⟩]) hm2
    rw [this, add_neg_W first va h1 hva]
  have bwd : ∀ pa, pa ≤ last - first → conv c KV ⟨pa, KPHYS⟩ = some (.ok, ⟨pa + first, KV⟩) := by
    intro pa h1
    have hpa : pa + first < W := by omega
    have := conv_kphys_linear c s'.sys rfl md hmd pa 5 first
      (by rw [hsd pa (by omega), if_pos h1]) hm5
    rw [this, Nat.mod_eq_of_lt hpa]
  refine ⟨fun pa hpa => ⟨bwd pa hpa, ?_⟩, fun va h1 h2 => ⟨fwd va h1 h2, ?_⟩⟩
  · have := fwd (pa + first) (by omega) (by omega)
    rw [Nat.add_sub_cancel] at this; exact this
  · have := bwd (va - first) (by omega)
    rw [Nat.sub_add_cancel h1] at this; exact this

/-! ### `act_ident_*` and `sys_set_physmaps` -/

/-- one `SYS_ACT_IDENT_KPHYS` / `SYS_ACT_IDENT_MACHPHYS` region `[0, maxaddr]`, exact result -/
theorem setLayout_ident_eq (s : LSys) (hs : Shape s) (idx : Nat) (hidx : idx < 5) (slot : Nat) (hslot : slot < 16)
    (maxaddr : Nat) (hm : maxaddr < W) (act : Act) (t : Nat)
    (hact : (act = .identKphys ∧ t = KPHYS) ∨ (act = .identMachphys ∧ t = MACHPHYS)) :
    setLayout true s idx [⟨0, maxaddr, slot, act⟩] =
      (.ok, withMap (withLin (withMap s idx (curMap s idx)) slot t 0) idx
        (mapSet (curMap s idx) 0 ⟨(maxaddr + W - 0) % W, (slot : Int)⟩ true).2) := by
  have hs1 : Shape (withMap s idx (curMap s idx)) := withMap_shape hs idx (curMap_wf hs idx)
  have hlt : idx < s.sys.maps.length := by rw [hs.maps]; exact hidx
  have hactd : acted (actDirect true) (withMap s idx (curMap s idx)) ⟨0, maxaddr, slot, act⟩ =
      (.ok, withLin (withMap s idx (curMap s idx)) slot t 0) := by
    rcases hact with ⟨ha, ht⟩ | ⟨ha, ht⟩
    · subst ha; subst ht
      show actIdent _ _ _ = _
      unfold actIdent
      rw [setLinear_eq' hs1 hslot]
    · subst ha; subst ht
      show actIdent _ _ _ = _
      unfold actIdent
      rw [setLinear_eq' hs1 hslot]
  unfold setLayout
  rw [setLayoutWith_single _ hs hidx _ ⟨Nat.zero_le _, hm⟩ _ hactd (curMap s idx) ?_ (curMap_wf hs idx)]
  · rfl
  · show (List.set s.sys.maps idx _)[idx]? = _
    exact List.getElem?_set_self hlt

/-- `sys_set_physmaps`: identity both ways on `[0, maxaddr]` -/
theorem physmaps_ident (s : LSys) (hs : Shape s) (maxaddr : Nat) (hm : maxaddr < W) :
    ∃ s', setPhysmaps true s maxaddr = (.ok, s') ∧ Shape s' ∧
      ∀ readCaps pm pa, pa ≤ maxaddr →
        conv ⟨some s'.sys, readCaps, pm⟩ KPHYS ⟨pa, MACHPHYS⟩ = some (.ok, ⟨pa, KPHYS⟩) ∧
        conv ⟨some s'.sys, readCaps, pm⟩ MACHPHYS ⟨pa, KPHYS⟩ = some (.ok, ⟨pa, MACHPHYS⟩) := by
  have e1 := setLayout_ident_eq s hs 3 (by decide) 6 (by decide) maxaddr hm .identKphys KPHYS (Or.inl ⟨rfl, rfl⟩)
  have hreg : ∀ (slot : Nat) (act : Act), ∀ r ∈ [(⟨0, maxaddr, slot, act⟩ : Region)], RegOK r := by
    intro slot act r hr; rw [List.mem_singleton] at hr; subst hr; exact ⟨Nat.zero_le _, hm⟩
  have hs1 := (setLayout_ext true s hs _ _ (hreg _ _) _ _ e1).1.shape
  have e2 := setLayout_ident_eq _ hs1 4 (by decide) 7 (by decide) maxaddr hm .identMachphys MACHPHYS
    (Or.inr ⟨rfl, rfl⟩)
  have hs2 := (setLayout_ext true _ hs1 _ _ (hreg _ _) _ _ e2).1.shape
  have h5 : s.sys.maps.length = 5 := hs.maps
  have h16 : s.sys.meths.length = 16 := hs.meths
  have hM : (maxaddr + W - 0) % W = maxaddr := sub_mod_W 0 maxaddr (Nat.zero_le _) hm
  refine ⟨_, ?_, hs2, ?_⟩
  · unfold setPhysmaps
    rw [e1]
    exact e2
  · intro readCaps pm pa hpa
    have hpaW : pa < W := by omega
    have hg : 0 + (maxaddr + W - 0) % W < W := by rw [hM]; omega
    have hin : (0 ≤ pa ∧ pa ≤ 0 + (maxaddr + W - 0) % W) := by rw [hM]; omega
    constructor
    · refine (conv_machphys_linear _ _ rfl
        (mapSet (curMap s 3) 0 ⟨(maxaddr + W - 0) % W, ((6 : Nat) : Int)⟩ true).2 ?_ pa 6 0 ?_ ?_).trans ?_
      rotate_right
      · rw [Nat.add_zero, Nat.mod_eq_of_lt hpaW]
      · show (List.set (List.set (List.set (List.set s.sys.maps 3 _) 3 _) 4 _) 4 _)[3]? = _
        rw [List.getElem?_set_ne (by decide), List.getElem?_set_ne (by decide)]
        exact List.getElem?_set_self (by simp only [List.length_set, h5]; decide)
      · rw [mapSearch_set (curMap_wf hs 3) 0 ⟨_, _⟩ hg pa hpaW, if_pos hin]
      · show (List.set (List.set s.sys.meths 6 _) 7 _)[6]? = _
        rw [List.getElem?_set_ne (by decide)]
        exact List.getElem?_set_self (by rw [h16]; decide)
    · refine (conv_kphys_machphys_linear _ _ rfl
        (mapSet (curMap (withMap (withLin (withMap s 3 (curMap s 3)) 6 KPHYS 0) 3
          (mapSet (curMap s 3) 0 ⟨(maxaddr + W - 0) % W, ((6 : Nat) : Int)⟩ true).2) 4) 0
          ⟨(maxaddr + W - 0) % W, ((7 : Nat) : Int)⟩ true).2 ?_ pa 7 0 ?_ ?_).trans ?_
      rotate_right
      · rw [Nat.add_zero, Nat.mod_eq_of_lt hpaW]
      · show (List.set (List.set (List.set (List.set s.sys.maps 3 _) 3 _) 4 _) 4 _)[4]? = _
        exact List.getElem?_set_self (by simp only [List.length_set, h5]; decide)
      · rw [mapSearch_set (curMap_wf hs1 4) 0 ⟨_, _⟩ hg pa hpaW, if_pos hin]
      · show (List.set (List.set s.sys.meths 6 _) 7 _)[7]? = _
        exact List.getElem?_set_self (by rw [List.length_set, h16]; decide)

end Kdf.Lemmas.Layout
