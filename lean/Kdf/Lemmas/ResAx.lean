import Kdf.Lemmas.ResFn
/-! Helper lemmas for the C15 additions: `fcache_get_fb`, the Xen table scan,
libaddrxlat's read cache (`get_cache_buf`, `cleanup_cache`) and the callback
records (`addrxlat_ctx_add_cb` / `addrxlat_ctx_del_cb`). -/
namespace Kdf.Lemmas.Res
open Kdf.Model.Res

/-- what an entry handed out by `fcache_get_fb` holds -/
def fbRes : Option Fce → List Res
  | some f => [Res.pin f.c f.key]
  | none => []

/-! ### `fcache_get_fb`, `fcache_put` -/

def gainFb : R (Option Fce × Policy) → List Res
  | .ok (r, _) => fbRes r
  | _ => []

theorem fcachePut_runs (r : Option Fce) (L : List Res) : Runs (fcachePut r) (fbRes r ++ L) L := by
  cases r with
  | none => exact Runs.nil L
  | some f => exact Runs.put (List.Perm.refl _)

theorem fcacheGetFb_runs (cfg : Cfg) (pol : Policy) (fidx pos sz : Nat) (orc : List Ext) (L : List Res) :
    Runs (fcacheGetFb cfg pol fidx pos sz orc).evs L (gainFb (fcacheGetFb cfg pol fidx pos sz orc).res ++ L) := by
  unfold fcacheGetFb
  have hg := fcacheGet_runs cfg pol fidx pos orc L
  rcases hout : fcacheGet cfg pol fidx pos orc with ⟨res, e, o⟩
  rw [hout] at hg
  cases res with
  | stuck => exact Runs.nil L
  | err st => simpa [gainFceP, gainFb] using hg
  | ok fp =>
    obtain ⟨f, pol'⟩ := fp
    simp only [gainFceP, pinOf, List.cons_append, List.nil_append] at hg
    simp only
    split
    · have h2 := fcachePread_runs cfg sz pol' sz fidx pos o L
      rcases hout2 : fcachePread cfg sz pol' sz fidx pos o with ⟨res2, e2, o2⟩
      rw [hout2] at h2
      simp only at h2
      cases res2 with
      | stuck => exact Runs.nil L
      | err st => exact Runs.append (Runs.append hg (Runs.put (List.Perm.refl _))) h2
      | ok p => exact Runs.append (Runs.append hg (Runs.put (List.Perm.refl _))) h2
    · simpa [gainFb, fbRes] using hg

/-! ### the Xen table scan -/

/-- what is still held after the scan: nothing — except when the model is
`stuck` (the oracle does not fit the calls), where nothing has happened at all -/
def scanLeft {α : Type} (held : List Res) : R α → List Res
  | .stuck => held
  | _ => []

theorem xenMapScan_runs (cfg : Cfg) (entsz : Nat) (addOk : Nat → Bool) (n k : Nat) (pol : Policy) (pos : Nat)
    (st : ScanSt) (orc : List Ext) (L : List Res) :
    Runs (xenMapScan cfg entsz addOk n k pol pos st orc).evs (fbRes st.cur ++ L)
      (scanLeft (fbRes st.cur) (xenMapScan cfg entsz addOk n k pol pos st orc).res ++ L) := by
  induction n generalizing k pol pos st orc with
  | zero =>
    unfold xenMapScan
    simpa [scanLeft] using fcachePut_runs st.cur L
  | succ n ih =>
    unfold xenMapScan
    split
    · have hfb := fcacheGetFb_runs cfg pol 0 pos entsz orc L
      rcases hout : fcacheGetFb cfg pol 0 pos entsz orc with ⟨res, e, o⟩
      rw [hout] at hfb
      cases res with
      | stuck => simpa [scanLeft, stuckOut] using Runs.nil (fbRes st.cur ++ L)
      | err s =>
        simp only [gainFb, List.nil_append] at hfb
        simpa [scanLeft] using Runs.append (fcachePut_runs st.cur L) hfb
      | ok cp =>
        obtain ⟨cur', pol'⟩ := cp
        simp only [gainFb] at hfb
        simp only
        split
        · cases cur' with
          | none =>
            simp only
            have hrec := ih (k + 1) pol' (pos + entsz) ⟨none, entsz - entsz⟩ o
            rcases hout2 : xenMapScan cfg entsz addOk n (k + 1) pol' (pos + entsz) ⟨none, entsz - entsz⟩ o with ⟨res2, e2, o2⟩
            rw [hout2] at hrec
            simp only at hrec
            cases res2 with
            | stuck => simpa [scanLeft, stuckOut] using Runs.nil (fbRes st.cur ++ L)
            | err s =>
              simp only [scanLeft, List.nil_append] at hrec ⊢
              exact Runs.append (Runs.append (fcachePut_runs st.cur L) hfb) hrec
            | ok p =>
              simp only [scanLeft, List.nil_append] at hrec ⊢
              exact Runs.append (Runs.append (fcachePut_runs st.cur L) hfb) hrec
          | some f =>
            simp only
            have hrec := ih (k + 1) pol' (pos + entsz) ⟨some f, f.len - entsz⟩ o
            rcases hout2 : xenMapScan cfg entsz addOk n (k + 1) pol' (pos + entsz) ⟨some f, f.len - entsz⟩ o with ⟨res2, e2, o2⟩
            rw [hout2] at hrec
            simp only at hrec
            cases res2 with
            | stuck => simpa [scanLeft, stuckOut] using Runs.nil (fbRes st.cur ++ L)
            | err s =>
              simp only [scanLeft, List.nil_append] at hrec ⊢
              exact Runs.append (Runs.append (fcachePut_runs st.cur L) hfb) hrec
            | ok p =>
              simp only [scanLeft, List.nil_append] at hrec ⊢
              exact Runs.append (Runs.append (fcachePut_runs st.cur L) hfb) hrec
        · simp only [scanLeft, List.nil_append]
          exact Runs.append (Runs.append (fcachePut_runs st.cur L) hfb) (fcachePut_runs cur' L)
    · split
      · exact ih (k + 1) pol (pos + entsz) ⟨st.cur, st.left - entsz⟩ orc
      · simpa [scanLeft] using fcachePut_runs st.cur L

/-! ### verify_magic_number (sadump.c) -/

theorem magicLoop_runs (cfg : Cfg) (fidx : Nat) (cont : Nat → Bool) (fuel k : Nat) (pol : Policy) (pos : Nat)
    (f : Fce) (left : Nat) (orc : List Ext) (L : List Res) :
    Runs (magicLoop cfg fidx cont fuel k pol pos f left orc).evs (pinOf f :: L)
      (scanLeft [pinOf f] (magicLoop cfg fidx cont fuel k pol pos f left orc).res ++ L) := by
  induction fuel generalizing k pol pos f left orc with
  | zero => simpa [magicLoop, scanLeft, stuckOut] using Runs.nil (pinOf f :: L)
  | succ n ih =>
    have hput : Runs [Ev.put f.c f.key] (pinOf f :: L) L := Runs.put (List.Perm.refl _)
    unfold magicLoop
    split
    · have hg := fcacheGet_runs cfg pol fidx (pos + 4) orc L
      rcases hout : fcacheGet cfg pol fidx (pos + 4) orc with ⟨res, e, o⟩
      rw [hout] at hg
      cases res with
      | stuck => simpa [scanLeft, stuckOut] using Runs.nil (pinOf f :: L)
      | err s =>
        simp only [gainFceP, List.nil_append] at hg
        simpa [scanLeft] using Runs.append hput hg
      | ok fp =>
        obtain ⟨f', pol'⟩ := fp
        simp only [gainFceP, List.cons_append, List.nil_append] at hg
        have hput' : Runs [Ev.put f'.c f'.key] (pinOf f' :: L) L := Runs.put (List.Perm.refl _)
        simp only
        split
        · simpa [scanLeft] using Runs.append (Runs.append hput hg) hput'
        · split
          · have hrec := ih (k + 1) pol' (pos + 4) f' f'.len o
            rcases hout2 : magicLoop cfg fidx cont n (k + 1) pol' (pos + 4) f' f'.len o with ⟨res2, e2, o2⟩
            rw [hout2] at hrec
            simp only at hrec
            cases res2 with
            | stuck => simpa [scanLeft, stuckOut] using Runs.nil (pinOf f :: L)
            | err s =>
              simp only [scanLeft, List.nil_append] at hrec ⊢
              exact Runs.append (Runs.append hput hg) hrec
            | ok p =>
              simp only [scanLeft, List.nil_append] at hrec ⊢
              exact Runs.append (Runs.append hput hg) hrec
          · simpa [scanLeft] using Runs.append (Runs.append hput hg) hput'
    · split
      · exact ih (k + 1) pol (pos + 4) f (left - 4) orc
      · simpa [scanLeft] using hput

theorem verifyMagic_runs (cfg : Cfg) (fidx : Nat) (cont : Nat → Bool) (fuel : Nat) (pol : Policy) (pos : Nat)
    (orc : List Ext) (L : List Res) :
    Runs (verifyMagic cfg fidx cont fuel pol pos orc).evs L L := by
  unfold verifyMagic
  have hg := fcacheGet_runs cfg pol fidx pos orc L
  rcases hout : fcacheGet cfg pol fidx pos orc with ⟨res, e, o⟩
  rw [hout] at hg
  cases res with
  | stuck => exact Runs.nil L
  | err s => simpa [gainFceP] using hg
  | ok fp =>
    obtain ⟨f, pol'⟩ := fp
    simp only [gainFceP, List.cons_append, List.nil_append] at hg
    simp only
    split
    · exact Runs.append hg (Runs.put (List.Perm.refl _))
    · have hl := magicLoop_runs cfg fidx cont fuel 0 pol' pos f f.len o L
      rcases hout2 : magicLoop cfg fidx cont fuel 0 pol' pos f f.len o with ⟨res2, e2, o2⟩
      rw [hout2] at hl
      simp only at hl
      cases res2 with
      | stuck => exact Runs.nil L
      | err s => simp only [scanLeft, List.nil_append] at hl; exact Runs.append hg hl
      | ok p => simp only [scanLeft, List.nil_append] at hl; exact Runs.append hg hl

/-! ### the read cache of a translation context -/

theorem lentRes_pageOf (cfg : Cfg) (as addr : Nat) :
    lentRes cfg (pageOf cfg as addr).1 (pageOf cfg as addr).2 = lentRes cfg as addr := by
  have h0 : (addr - addr % cfg.ps) % cfg.ps = 0 := by
    have h := Nat.div_add_mod addr cfg.ps
    have : addr - addr % cfg.ps = cfg.ps * (addr / cfg.ps) := by omega
    rw [this]; exact Nat.mul_mod_right _ _
  simp only [lentRes, pageOf, h0, Nat.sub_zero]

theorem rcRes_cons (cfg : Cfg) (s : Option Page) (t : List (Option Page)) :
    rcRes cfg (s :: t) = rcRes cfg [s] ++ rcRes cfg t := by
  cases s with
  | none => rfl
  | some q => simp [rcRes]

theorem rcRes_set_some (cfg : Cfg) (slots : List (Option Page)) (i : Nat) (p : Page) (hi : i < slots.length) :
    (rcRes cfg (slots.set i (some p))).Perm (lentRes cfg p.1 p.2 ++ rcRes cfg (slots.set i none)) := by
  induction slots generalizing i with
  | nil => simp at hi
  | cons s t ih =>
    cases i with
    | zero => simp only [List.set_cons_zero, rcRes]; exact List.Perm.refl _
    | succ j =>
      have hj : j < t.length := by simpa using hi
      have h := ih j hj
      simp only [List.set_cons_succ]
      rw [rcRes_cons cfg s (t.set j (some p)), rcRes_cons cfg s (t.set j none)]
      refine (h.append_left (rcRes cfg [s])).trans ?_
      perm_tac

theorem rcRes_split (cfg : Cfg) (slots : List (Option Page)) (i : Nat) :
    (rcRes cfg slots).Perm (rcRes cfg [slots.getD i none] ++ rcRes cfg (slots.set i none)) := by
  induction slots generalizing i with
  | nil => simp [rcRes]
  | cons s t ih =>
    cases i with
    | zero =>
      simp only [List.getD_cons_zero, List.set_cons_zero]
      rw [rcRes_cons cfg s t]
      exact List.Perm.refl _
    | succ j =>
      have h := ih j
      simp only [List.getD_cons_succ, List.set_cons_succ]
      rw [rcRes_cons cfg s t, rcRes_cons cfg s (t.set j none)]
      refine (h.append_left (rcRes cfg [s])).trans ?_
      perm_tac

theorem slotPut_runs (cfg : Cfg) (s : Option Page) (L : List Res) :
    Runs (slotPut cfg s) (rcRes cfg [s] ++ L) L := by
  cases s with
  | none => exact Runs.nil L
  | some q => simpa [rcRes, slotPut] using addrxlatPutPage_runs cfg q.1 q.2 L

theorem cleanupCache_runs (cfg : Cfg) (slots : List (Option Page)) (L : List Res) :
    Runs (cleanupCache cfg slots) (rcRes cfg slots ++ L) L := by
  induction slots with
  | nil => exact Runs.nil L
  | cons s t ih =>
    rw [rcRes_cons cfg s t, List.append_assoc]
    exact Runs.append (slotPut_runs cfg s (rcRes cfg t ++ L)) ih

theorem rcFind_lt {slots : List (Option Page)} {p : Page} {i : Nat} (h : rcFind slots p = some i) :
    i < slots.length := by
  induction slots generalizing i with
  | nil => simp [rcFind] at h
  | cons s t ih =>
    unfold rcFind at h
    split at h
    · simp only [Option.some.injEq] at h; subst h; simp
    · cases hr : rcFind t p with
      | none => simp [hr] at h
      | some j =>
        simp only [hr, Option.map_some, Option.some.injEq] at h
        subst h
        have := ih hr
        simp only [List.length_cons]; omega

theorem wf_lru_lt {rc : RdCache} (hwf : rc.WF) : rc.order.getLast?.getD 0 < rc.slots.length := by
  obtain ⟨hne, hall⟩ := hwf
  cases hl : rc.order.getLast? with
  | none => exact absurd (List.getLast?_eq_none_iff.mp hl) hne
  | some i => exact hall i (List.mem_of_getLast? hl)

theorem wf_touch {rc : RdCache} {i : Nat} (hwf : rc.WF) (hi : i < rc.slots.length) : (rcTouch rc i).WF := by
  refine ⟨by simp [rcTouch], ?_⟩
  intro j hj
  simp only [rcTouch, List.mem_cons] at hj
  rcases hj with hj | hj
  · subst hj; exact hi
  · exact hwf.2 j (List.mem_of_mem_erase hj)

theorem wf_set {rc : RdCache} (hwf : rc.WF) (i : Nat) (s : Option Page) :
    RdCache.WF { rc with slots := rc.slots.set i s } := by
  refine ⟨hwf.1, ?_⟩
  intro j hj
  simpa using hwf.2 j hj

theorem getCacheBuf_found {cfg : Cfg} {pol : Policy} {rc : RdCache} {as addr : Nat} {pages : Nat → PageInfo}
    {orc : List Ext} {i : Nat} (h : rcFind rc.slots (pageOf cfg as addr) = some i) :
    getCacheBuf cfg pol rc as addr pages orc = (⟨.ok pol, [], orc⟩, rcTouch rc i) := by
  simp only [getCacheBuf, h]

theorem getCacheBuf_runs (cfg : Cfg) (pol : Policy) (rc : RdCache) (as addr : Nat) (pages : Nat → PageInfo)
    (orc : List Ext) (L : List Res) (hwf : rc.WF) :
    Runs (getCacheBuf cfg pol rc as addr pages orc).1.evs (rcRes cfg rc.slots ++ L)
      (rcRes cfg (getCacheBuf cfg pol rc as addr pages orc).2.slots ++ L)
    ∧ (getCacheBuf cfg pol rc as addr pages orc).2.WF := by
  cases hf : rcFind rc.slots (pageOf cfg as addr) with
  | some i =>
    rw [getCacheBuf_found hf]
    exact ⟨by simpa [rcTouch] using Runs.nil (rcRes cfg rc.slots ++ L), wf_touch hwf (rcFind_lt hf)⟩
  | none =>
    have hi := wf_lru_lt hwf
    -- the eviction
    have hev : Runs (slotPut cfg (rc.slots.getD (rc.order.getLast?.getD 0) none)) (rcRes cfg rc.slots ++ L)
        (rcRes cfg (rc.slots.set (rc.order.getLast?.getD 0) none) ++ L) := by
      have h1 := slotPut_runs cfg (rc.slots.getD (rc.order.getLast?.getD 0) none)
        (rcRes cfg (rc.slots.set (rc.order.getLast?.getD 0) none) ++ L)
      refine h1.perm_left ?_
      have := ((rcRes_split cfg rc.slots (rc.order.getLast?.getD 0)).append_right L).symm
      simpa [List.append_assoc] using this
    -- the fetch
    have hg := addrxlatGetPage_runs cfg pol as addr pages orc
      (rcRes cfg (rc.slots.set (rc.order.getLast?.getD 0) none) ++ L)
    cases hr : (addrxlatGetPage cfg pol as addr pages orc).res with
    | ok pol' =>
      have heq : getCacheBuf cfg pol rc as addr pages orc =
          (⟨.ok pol', slotPut cfg (rc.slots.getD (rc.order.getLast?.getD 0) none) ++
              (addrxlatGetPage cfg pol as addr pages orc).evs, (addrxlatGetPage cfg pol as addr pages orc).orc⟩,
           rcTouch { rc with slots := rc.slots.set (rc.order.getLast?.getD 0) (some (pageOf cfg as addr)) }
             (rc.order.getLast?.getD 0)) := by
        simp only [getCacheBuf, hf, hr]
      rw [heq]
      rw [hr] at hg
      simp only [gainLent] at hg
      refine ⟨?_, ?_⟩
      · refine (Runs.append hev hg).perm_right ?_
        have hp := (rcRes_set_some cfg rc.slots (rc.order.getLast?.getD 0) (pageOf cfg as addr) hi).append_right L
        rw [lentRes_pageOf] at hp
        simpa [rcTouch, List.append_assoc] using hp.symm
      · exact wf_touch (wf_set hwf _ _) (by simpa using hi)
    | err s =>
      have heq : getCacheBuf cfg pol rc as addr pages orc =
          (⟨.err s, slotPut cfg (rc.slots.getD (rc.order.getLast?.getD 0) none) ++
              (addrxlatGetPage cfg pol as addr pages orc).evs, (addrxlatGetPage cfg pol as addr pages orc).orc⟩,
           { rc with slots := rc.slots.set (rc.order.getLast?.getD 0) none }) := by
        simp only [getCacheBuf, hf, hr]
      rw [heq]
      rw [hr] at hg
      simp only [gainLent, List.nil_append] at hg
      exact ⟨Runs.append hev hg, wf_set hwf _ _⟩
    | stuck =>
      have heq : getCacheBuf cfg pol rc as addr pages orc = (stuckOut orc, rc) := by
        simp only [getCacheBuf, hf, hr]
      rw [heq]
      exact ⟨Runs.nil _, hwf⟩

/-! ### callback records -/

theorem cbRes_erase (cbSize : Nat) (cbs : List Nat) (id : Nat) (h : id ∈ cbs) :
    cbRes cbSize cbs = Res.mem .cb cbSize :: cbRes cbSize (cbs.erase id) := by
  induction cbs with
  | nil => cases h
  | cons q t ih =>
    by_cases hq : q = id
    · subst hq; simp [cbRes]
    · have hp : id ∈ t := by
        cases h with
        | head => exact absurd rfl hq
        | tail _ h' => exact h'
      rw [List.erase_cons_tail (by simp [hq])]
      have := ih hp
      simp only [cbRes, List.map_cons] at this ⊢
      rw [this]

theorem rcRes_map_none (cfg : Cfg) (slots : List (Option Page)) :
    rcRes cfg (slots.map (fun _ => none)) = [] := by
  induction slots with
  | nil => rfl
  | cons s t ih => simpa [rcRes] using ih

theorem ctxAddCb_runs (cbSize : Nat) (x : AxCtx) (id : Nat) (orc : List Ext) (L : List Res) :
    Runs (ctxAddCb cbSize x id orc).1.evs (cbRes cbSize x.cbs ++ L) (cbRes cbSize (ctxAddCb cbSize x id orc).2.cbs ++ L)
    ∧ (ctxAddCb cbSize x id orc).2.rc = x.rc := by
  unfold ctxAddCb
  split
  · exact ⟨by simpa [cbRes] using Runs.malloc .cb cbSize (cbRes cbSize x.cbs ++ L), rfl⟩
  · exact ⟨Runs.neutral (by simp [Neutral]) _, rfl⟩
  · exact ⟨Runs.nil _, rfl⟩

theorem ctxDelCb_mem {cfg : Cfg} {cbSize : Nat} {x : AxCtx} {id : Nat} (h : id ∈ x.cbs) :
    ctxDelCb cfg cbSize x id =
      (cleanupCache cfg x.rc.slots ++ [.free .cb cbSize],
       ⟨{ x.rc with slots := x.rc.slots.map (fun _ => none) }, x.cbs.erase id⟩) := by
  simp only [ctxDelCb, h, if_true]

theorem ctxDelCb_not_mem {cfg : Cfg} {cbSize : Nat} {x : AxCtx} {id : Nat} (h : id ∉ x.cbs) :
    ctxDelCb cfg cbSize x id = ([], x) := by
  simp only [ctxDelCb, h, if_false]

theorem ctxDelCb_runs (cfg : Cfg) (cbSize : Nat) (x : AxCtx) (id : Nat) (L : List Res) (h : id ∈ x.cbs) :
    Runs (ctxDelCb cfg cbSize x id).1 (rcRes cfg x.rc.slots ++ cbRes cbSize x.cbs ++ L)
      (cbRes cbSize (ctxDelCb cfg cbSize x id).2.cbs ++ L)
    ∧ rcRes cfg (ctxDelCb cfg cbSize x id).2.rc.slots = []
    ∧ ((ctxDelCb cfg cbSize x id).2.rc.WF ↔ x.rc.WF) := by
  rw [ctxDelCb_mem h]
  refine ⟨?_, rcRes_map_none cfg _, ?_⟩
  · have h1 := cleanupCache_runs cfg x.rc.slots (cbRes cbSize x.cbs ++ L)
    rw [← List.append_assoc] at h1
    refine Runs.append h1 (Runs.free ?_)
    rw [cbRes_erase cbSize x.cbs id h]
    exact List.Perm.refl _
  · simp [RdCache.WF]

/-- removal of a record keeps the ring well formed, whether the record exists or not -/
theorem ctxDelCb_wf (cfg : Cfg) (cbSize : Nat) (x : AxCtx) (id : Nat) (hwf : x.rc.WF) :
    (ctxDelCb cfg cbSize x id).2.rc.WF := by
  by_cases h : id ∈ x.cbs
  · exact (ctxDelCb_runs cfg cbSize x id [] h).2.2.mpr hwf
  · rw [ctxDelCb_not_mem h]; exact hwf

/-- removal of a record: the ledger statement without the membership hypothesis -/
theorem ctxDelCb_runs' (cfg : Cfg) (cbSize : Nat) (x : AxCtx) (id : Nat) (L : List Res) :
    Runs (ctxDelCb cfg cbSize x id).1 (rcRes cfg x.rc.slots ++ cbRes cbSize x.cbs ++ L)
      (rcRes cfg (ctxDelCb cfg cbSize x id).2.rc.slots ++ cbRes cbSize (ctxDelCb cfg cbSize x id).2.cbs ++ L) := by
  by_cases h : id ∈ x.cbs
  · have := ctxDelCb_runs cfg cbSize x id L h
    rw [this.2.1]
    exact this.1
  · rw [ctxDelCb_not_mem h]; exact Runs.nil _

end Kdf.Lemmas.Res
