import Kdf.Model.Attr
/-! Iteration enumerates the set children exactly once (helper lemmas, core Lean only). -/
namespace Kdf.Lemmas.AttrIter
open Kdf.Model.Attr

theorem dropWhile_pre {α : Type} (p : α → Bool) (pre : List α) (x : α) (l : List α)
    (hpre : ∀ y ∈ pre, p y = true) (hx : p x = false) :
    (pre ++ x :: l).dropWhile p = x :: l := by
  induction pre with
  | nil => simp [List.dropWhile, hx]
  | cons a as ih =>
    have ha : p a = true := hpre a (by simp)
    simp only [List.cons_append, List.dropWhile_cons, ha, if_true]
    exact ih (fun y hy => hpre y (by simp [hy]))

theorem find_pre (pre l : List Node) (i : Nat) (hpre : ∀ y ∈ pre, y.id ≠ i) :
    find (pre ++ l) i = find l i := by
  induction pre with
  | nil => rfl
  | cons a as ih =>
    have ha : a.id ≠ i := hpre a (by simp)
    have : (a.id == i) = false := by simpa using ha
    unfold find at ih ⊢
    simp only [List.cons_append, List.find?_cons, this]
    exact ih (fun y hy => hpre y (by simp [hy]))

theorem firstSet_cons_unset (x : Node) (l : List Node) (hx : x.isset = false) :
    firstSet (x :: l) = firstSet l := by
  simp [firstSet, List.find?_cons, hx]

theorem firstSet_cons_set (x : Node) (l : List Node) (hx : x.isset = true) :
    firstSet (x :: l) = some x.id := by
  simp [firstSet, List.find?_cons, hx]

/-- The main induction: with the node list split as `pre ++ l`. -/
theorem iterFrom_enum (st : St) (d : Nat) : ∀ (l pre : List Node) (f : Nat),
    st.nodes = pre ++ l →
    (∀ y ∈ pre, ∀ z ∈ l, y.id ≠ z.id) → (l.map (·.id)).Nodup → l.length ≤ f →
    iterFrom st f (firstSet (children l d)) = ((children l d).filter (·.isset)).map (·.id) := by
  intro l
  induction l with
  | nil =>
    intro pre f _ _ _ _
    cases f <;> simp [children, firstSet, iterFrom]
  | cons x l' ih =>
    intro pre f hns hpre hnd hf
    have hnd' : (l'.map (·.id)).Nodup := by
      simp only [List.map_cons, List.nodup_cons] at hnd; exact hnd.2
    have hx_l' : ∀ z ∈ l', x.id ≠ z.id := by
      simp only [List.map_cons, List.nodup_cons, List.mem_map, not_exists, not_and] at hnd
      intro z hz heq
      exact hnd.1 z hz heq.symm
    have hns' : st.nodes = (pre ++ [x]) ++ l' := by simp [hns]
    have hpre' : ∀ y ∈ pre ++ [x], ∀ z ∈ l', y.id ≠ z.id := by
      intro y hy z hz
      rcases List.mem_append.mp hy with h | h
      · exact hpre y h z (by simp [hz])
      · have : y = x := by simpa using h
        subst this; exact hx_l' z hz
    have hlen : l'.length ≤ f - 1 := by simp only [List.length_cons] at hf; omega
    by_cases hp : (x.parent == some d) = true
    · have hch : children (x :: l') d = x :: children l' d := by
        simp [children, List.filter_cons, hp]
      rw [hch]
      by_cases hs : x.isset = true
      · rw [firstSet_cons_set x _ hs]
        obtain ⟨f', rfl⟩ : ∃ f', f = f' + 1 := ⟨f - 1, by simp only [List.length_cons] at hf; omega⟩
        simp only [iterFrom]
        -- iterNext at x
        have hget : st.get x.id = some x := by
          unfold St.get
          rw [hns, find_pre pre (x :: l') x.id (fun y hy => hpre y hy x (by simp))]
          simp [find, List.find?_cons]
        have hsib : sibsAfter st.nodes x = children l' d := by
          unfold sibsAfter
          rw [hns, dropWhile_pre (fun n => n.id != x.id) pre x l'
            (fun y hy => by simpa using hpre y hy x (by simp)) (by simp)]
          have : x.parent = some d := by simpa using hp
          simp [children, this]
        simp only [iterNext, hget, hsib]
        rw [ih (pre ++ [x]) f' hns' hpre' hnd' (by simpa using hlen)]
        simp [List.filter_cons, hs]
      · have hs' : x.isset = false := by simpa using hs
        rw [firstSet_cons_unset x _ hs']
        rw [ih (pre ++ [x]) f hns' hpre' hnd' (by omega)]
        simp [List.filter_cons, hs']
    · have hch : children (x :: l') d = children l' d := by
        simp [children, List.filter_cons, hp]
      rw [hch]
      exact ih (pre ++ [x]) f hns' hpre' hnd' (by omega)

end Kdf.Lemmas.AttrIter
