import Kdf.Model.PgtArch
import Kdf.Spec.ArchAarch64
/-!
# Lemmas for C02 / AArch64 (`Kdf/Props/C02Aarch64.lean`)

Bit-level identities, facts about field lists, the uniform description of the
three handlers, `pgt_huge_page`, and the per-form facts (`formOK`) that are
decided once for every architectural paging form.
-/
open Kdf.Model.Pgt Kdf.Model.PgtAarch64 Kdf.Spec.ArchWalk Kdf.Spec.ArchAarch64

namespace Kdf.Lemmas.Aarch64

/-! ### bit-level facts -/

theorem andNot_low (x n : Nat) (hx : x < 2^64) (hn : n ≤ 64) :
    x &&& ((2^64 - 1) ^^^ (2^n - 1)) = x / 2^n * 2^n := by
  apply Nat.eq_of_testBit_eq
  intro i
  rw [Nat.testBit_and, Nat.testBit_xor, Nat.testBit_two_pow_sub_one, Nat.testBit_two_pow_sub_one,
    Nat.testBit_mul_two_pow, Nat.testBit_div_two_pow]
  by_cases h1 : i < 64
  · by_cases h2 : n ≤ i
    · have : ¬ i < n := by omega
      have e : i - n + n = i := by omega
      simp [h1, h2, this, e]
    · have : i < n := by omega
      simp [h1, h2, this]
  · have hi : x.testBit i = false :=
      Nat.testBit_lt_two_pow (Nat.lt_of_lt_of_le hx (Nat.pow_le_pow_right (by decide) (by omega)))
    have : ¬ i < n := by omega
    have e : i - n + n = i := by omega
    simp [h1, this, hi, e]

theorem or_eq_add (a b k : Nat) (hb : b < 2^k) : a * 2^k ||| b = a * 2^k + b := by
  rw [Nat.mul_comm]; exact (Nat.two_pow_add_eq_or_of_lt hb a).symm

theorem or_eq_add' (a b k : Nat) (hb : b < 2^k) : b ||| a * 2^k = b + a * 2^k := by
  rw [Nat.or_comm, or_eq_add a b k hb, Nat.add_comm]

/-- `(A / 2^f % 2^d) * 2^f + A % 2^f = A % 2^(f+d)` -/
theorem mod_split (A f d : Nat) : (A / 2^f % 2^d) * 2^f + A % 2^f = A % 2^(f + d) := by
  rw [Nat.pow_add, Nat.mod_mul, Nat.mul_comm, Nat.add_comm]

/-! ### field lists -/

theorem foldl_add_init (xs : List Nat) (a : Nat) :
    xs.foldl (· + ·) a = a + xs.foldl (· + ·) 0 := by
  induction xs generalizing a with
  | nil => simp
  | cons x xs ih => simp only [List.foldl_cons]; rw [ih (a + x), ih (0 + x)]; omega

theorem span_zero (fs : List Nat) : spanBits fs 0 = 0 := by simp [spanBits]

theorem span_cons (b : Nat) (bs : List Nat) (i : Nat) : spanBits (b :: bs) (i+1) = b + spanBits bs i := by
  simp only [spanBits, List.take_succ_cons, List.foldl_cons]
  rw [foldl_add_init]; omega

theorem span_succ (fs : List Nat) (k : Nat) : spanBits fs (k+1) = spanBits fs k + fs.getD k 0 := by
  induction fs generalizing k with
  | nil => simp [spanBits]
  | cons b bs ih =>
    cases k with
    | zero => simp [span_cons, span_zero]
    | succ k => rw [span_cons, span_cons, ih]; simp; omega

theorem split_getD (fs : List Nat) (va i : Nat) (hfs : ∀ b ∈ fs, b < 64) (hi : i < fs.length) :
    (firstStepPgtGeneric.split fs va).getD i 0 = va / 2^(spanBits fs i) % 2^(fs.getD i 0) := by
  induction fs generalizing va i with
  | nil => simp at hi
  | cons b bs ih =>
    have hb : b < 64 := hfs b (by simp)
    cases i with
    | zero => simp [firstStepPgtGeneric.split, hb, span_zero]
    | succ i =>
      have hi' : i < bs.length := by simpa using hi
      simp only [firstStepPgtGeneric.split, hb, if_true, List.getD_cons_succ]
      rw [ih (va / 2^b) i (fun x hx => hfs x (by simp [hx])) hi', span_cons, Nat.pow_add, Nat.div_div_eq_div_mul]

theorem split_length (fs : List Nat) (va : Nat) : (firstStepPgtGeneric.split fs va).length = fs.length + 1 := by
  induction fs generalizing va with
  | nil => simp [firstStepPgtGeneric.split]
  | cons b bs ih => simp [firstStepPgtGeneric.split, ih]

theorem span_mono (fs : List Nat) {a b : Nat} (h : a ≤ b) : spanBits fs a ≤ spanBits fs b := by
  induction h with
  | refl => exact Nat.le_refl _
  | step _ ih => rw [span_succ]; omega

def IdxOK (pf : PagingForm) (va : Nat) (idx : List Nat) : Prop :=
  0 < idx.length ∧
  ∀ i, i < pf.fieldsz.length → idx.getD i 0 = va / 2^(spanBits pf.fieldsz i) % 2^(pf.fieldsz.getD i 0)

theorem mul_pow_lt {x d e : Nat} (hx : x < 2^d) (hde : d + e ≤ 64) : x * 2^e < 2^64 := by
  have h1 : x * 2^e < 2^d * 2^e := Nat.mul_lt_mul_of_pos_right hx (Nat.two_pow_pos _)
  rw [← Nat.pow_add] at h1
  exact Nat.lt_of_lt_of_le h1 (Nat.pow_le_pow_right (by decide) hde)

theorem go_spec (pf : PagingForm) (s : Step) (va R : Nat)
    (hidx : IdxOK pf va s.idx) (hR : R ≤ pf.fieldsz.length) (hspan : spanBits pf.fieldsz R ≤ 64) :
    ∀ fuel m off, 1 ≤ m → m ≤ R → m - 1 ≤ fuel →
      off = (va / 2^(spanBits pf.fieldsz m) % 2^(spanBits pf.fieldsz R - spanBits pf.fieldsz m))
              * 2^(pf.fieldsz.getD (m-1) 0) →
      hugePage.go pf s fuel m off =
        (1, (va / 2^(pf.fieldsz.getD 0 0) % 2^(spanBits pf.fieldsz R - pf.fieldsz.getD 0 0))
              * 2^(pf.fieldsz.getD 0 0)) := by
  intro fuel
  induction fuel with
  | zero =>
    intro m off h1 _ hf hoff
    have : m = 1 := by omega
    subst this
    have e : spanBits pf.fieldsz 1 = pf.fieldsz.getD 0 0 := by rw [span_succ]; simp [spanBits]
    simp only [hugePage.go, hoff, e, Nat.sub_self]
  | succ fuel ih =>
    intro m off h1 hmR hf hoff
    by_cases hm : m = 1
    · subst hm
      have e : spanBits pf.fieldsz 1 = pf.fieldsz.getD 0 0 := by rw [span_succ]; simp [spanBits]
      simp only [hugePage.go, hoff, e, Nat.sub_self]
      simp
    · have hgt : m > 1 := by omega
      obtain ⟨r, rfl⟩ : ∃ r, m = r + 1 := ⟨m - 1, by omega⟩
      obtain ⟨q, rfl⟩ : ∃ q, r = q + 1 := ⟨r - 1, by omega⟩
      simp only [hugePage.go, hgt, if_true, Nat.add_sub_cancel, fieldAt]
      apply ih (q+1) _ (by omega) (by omega) (by omega)
      have hq : q + 1 < pf.fieldsz.length := by omega
      rw [hidx.2 (q+1) hq, hoff]
      simp only [Nat.add_sub_cancel]
      have hs1 : spanBits pf.fieldsz (q+1+1) = spanBits pf.fieldsz (q+1) + pf.fieldsz.getD (q+1) 0 := span_succ _ _
      have hs0 : spanBits pf.fieldsz (q+1) = spanBits pf.fieldsz q + pf.fieldsz.getD q 0 := span_succ _ _
      have hmono : spanBits pf.fieldsz (q+1+1) ≤ spanBits pf.fieldsz R := span_mono _ hmR
      generalize hf1 : pf.fieldsz.getD (q+1) 0 = f at *
      generalize hf0 : pf.fieldsz.getD q 0 = e at *
      generalize hS : spanBits pf.fieldsz R = S at *
      generalize hsq : spanBits pf.fieldsz q = sq at *
      rw [hs1, hs0]
      rw [Nat.pow_add (n := f), ← Nat.div_div_eq_div_mul]
      have hlt : va / 2^(sq + e) % 2^f < 2^f := Nat.mod_lt _ (Nat.two_pow_pos _)
      rw [or_eq_add _ _ _ hlt, mod_split]
      have hd : f + (S - (sq + e + f)) = S - (sq + e) := by omega
      rw [hd]
      have hb : va / 2^(sq+e) % 2^(S - (sq+e)) < 2^(S - (sq+e)) := Nat.mod_lt _ (Nat.two_pow_pos _)
      rw [Nat.mod_eq_of_lt (mul_pow_lt hb (by omega))]
/-! ### descriptors -/

def maxRegion : Layout → Nat
  | .v8 => MAX_REGION_MASK | .lpa => MAX_REGION_MASK_LPA | .lpa2 => MAX_REGION_MASK_LPA2

/-- the address the library extracts from a descriptor -/
def libAddr : Layout → Nat → Nat
  | .v8, pte => pte &&& PA_MASK
  | .lpa, pte => bits pte 0 48 ||| (bits pte 12 4 * 2^48 % W)
  | .lpa2, pte => bits pte 0 50 ||| (bits pte 8 2 * 2^50 % W)

theorem div_mul_add_high (x h m k : Nat) (hm : m ≤ k) :
    (x + h * 2^k) / 2^m * 2^m = x / 2^m * 2^m + h * 2^k := by
  have e : 2^k = 2^(k - m) * 2^m := by rw [← Nat.pow_add]; congr 1; omega
  rw [e, ← Nat.mul_assoc, Nat.add_mul_div_right _ _ (Nat.two_pow_pos m), Nat.add_mul]

theorem addr_eq (l : Layout) (pte m : Nat) (_hp : pte < 2^64) (hm : m ≤ 42) :
    andNot (libAddr l pte) (2^m - 1) = descAddr l pte m := by
  unfold andNot
  show libAddr l pte &&& ((2^64 - 1) ^^^ (2^m - 1)) = _
  cases l with
  | v8 =>
    simp only [libAddr, PA_MASK, PA_MAX_BITS, addrMask, descAddr, Nat.and_two_pow_sub_one_eq_mod]
    exact andNot_low _ _ (by omega) (by omega)
  | lpa =>
    simp only [libAddr, descAddr, bits, Nat.pow_zero, Nat.div_one]
    have h1 : pte / 2^12 % 2^4 * 2^48 % W = pte / 2^12 % 2^4 * 2^48 := by
      apply Nat.mod_eq_of_lt; show _ < 2^64; omega
    rw [h1, or_eq_add' _ _ 48 (by omega), andNot_low _ _ (by omega) (by omega),
      div_mul_add_high _ _ _ _ (by omega)]
  | lpa2 =>
    simp only [libAddr, descAddr, bits, Nat.pow_zero, Nat.div_one]
    have h1 : pte / 2^8 % 2^2 * 2^50 % W = pte / 2^8 % 2^2 * 2^50 := by
      apply Nat.mod_eq_of_lt; show _ < 2^64; omega
    rw [h1, or_eq_add' _ _ 50 (by omega), andNot_low _ _ (by omega) (by omega),
      div_mul_add_high _ _ _ _ (by omega)]

/-- uniform description of the three handlers -/
def handler (l : Layout) (mem : Mem) (t pteMask : Nat) (pf : PagingForm) (s : Step) : Except XStatus Step :=
  match mem s.base.as s.base.addr 8 with
  | .error e => .error e
  | .ok v =>
    let pte := v &&& ((W - 1) ^^^ pteMask % W)
    if bits pte 0 1 = 0 then .error .notpresent
    else tail t pf (maxRegion l) { s with raw := v } pte (libAddr l pte)

theorem nextStepPgt_eq (l : Layout) (mem : Mem) (t pteMask : Nat) (pf : PagingForm) (s : Step)
    (hl : layoutOf pf.fmt = some l) :
    nextStepPgt Kdf.Model.PgtArch.extra mem t pteMask pf s = handler l mem t pteMask pf s := by
  cases hf : pf.fmt <;> rw [hf] at hl <;> simp [layoutOf] at hl <;> subst hl
  all_goals
    simp only [nextStepPgt, hf, Kdf.Model.PgtArch.extra, handler,
      pgtAarch64, pgtAarch64Lpa, pgtAarch64Lpa2, readPte, maxRegion, libAddr]
    cases hm : mem s.base.as s.base.addr 8 <;> simp [bind, Except.bind, throw, throwThe, MonadExceptOf.throw]
/-! ### per-form facts, decided for every architectural paging form -/

def levelOK (l : Layout) (pf : PagingForm) (r : Nat) : Bool :=
  decide (tableMask pf r = 2^(spanBits pf.fieldsz r) - 1) &&
  (decide (r = 1 ∨ tableMask pf r > maxRegion l) == !(decide (r ≠ 1) && blockAllowed l (pf.fieldsz.getD 0 0) r)) &&
  (!(blockAllowed l (pf.fieldsz.getD 0 0) r) || decide (spanBits pf.fieldsz r ≤ 42)) &&
  decide (spanBits pf.fieldsz r ≤ 52)

def formOK (l : Layout) (pf : PagingForm) : Bool :=
  decide (2 ≤ pf.fieldsz.length) &&
  (pf.fieldsz.getD 0 0 == 12 || pf.fieldsz.getD 0 0 == 14 || pf.fieldsz.getD 0 0 == 16) &&
  pf.fieldsz.all (fun b => decide (b < 64)) &&
  decide (pageMask pf = 2^(pf.fieldsz.getD 0 0) - 1) &&
  (List.range pf.fieldsz.length).all (fun r => r == 0 || levelOK l pf r)

set_option maxRecDepth 100000 in
theorem formOK_all :
    ∀ fmt ∈ [PteFormat.aarch64, .aarch64Lpa, .aarch64Lpa2], ∀ g ∈ [12, 14, 16], ∀ vb, vb < 53 →
      archFormAarch64 ⟨fmt, formFields g vb⟩ = true →
      (match layoutOf fmt with | some l => formOK l ⟨fmt, formFields g vb⟩ | none => true) = true := by
  decide

theorem formOK_of_arch (pf : PagingForm) (l : Layout) (hl : layoutOf pf.fmt = some l)
    (h : archFormAarch64 pf = true) : formOK l pf = true := by
  obtain ⟨fmt, fs⟩ := pf
  have hfmt : fmt ∈ [PteFormat.aarch64, .aarch64Lpa, .aarch64Lpa2] := by
    cases fmt <;> simp [layoutOf] at hl ⊢
  have h0 := h
  unfold archFormAarch64 at h
  simp only at hl
  simp only [hl] at h
  cases fs with
  | nil => simp at h
  | cons g tl =>
    simp only [Bool.and_eq_true, decide_eq_true_eq, beq_iff_eq] at h
    obtain ⟨⟨⟨hg, _⟩, hmax⟩, heq⟩ := h
    have hg' : g ∈ [12, 14, 16] := by
      cases l <;> simp [granuleOk] at hg <;> simp <;> omega
    have hvb : spanBits (g :: tl) (g :: tl).length < 53 := by
      have : maxVa l g ≤ 52 := by cases l <;> simp [maxVa] <;> split <;> omega
      omega
    have := formOK_all fmt hfmt g hg' _ hvb
    rw [← heq] at this
    have := this h0
    simpa [hl] using this


/-! ### `pgt_huge_page` -/

theorem hugePage_spec (pf : PagingForm) (s : Step) (va R : Nat)
    (hidx : IdxOK pf va s.idx) (hrem : s.remain = R) (hR1 : 1 ≤ R) (hR : R < pf.fieldsz.length)
    (hspan : spanBits pf.fieldsz R ≤ 64) :
    (hugePage pf s).remain = 1 ∧ (hugePage pf s).elemsz = 1 ∧ (hugePage pf s).base = s.base ∧
    idxAt (hugePage pf s) 0 = va % 2^(spanBits pf.fieldsz R) := by
  have hgo := go_spec pf s va R hidx (Nat.le_of_lt hR) hspan R R 0 hR1 (Nat.le_refl _) (by omega)
    (by simp [Nat.mod_one])
  have hlen := hidx.1
  have h0 := hidx.2 0 (by omega)
  have e1 : spanBits pf.fieldsz 1 = pf.fieldsz.getD 0 0 := by rw [span_succ]; simp [spanBits]
  have hge : pf.fieldsz.getD 0 0 ≤ spanBits pf.fieldsz R := by rw [← e1]; exact span_mono _ hR1
  simp only [span_zero, Nat.pow_zero, Nat.div_one] at h0
  unfold hugePage
  simp only [hrem, hgo, setIdx, idxAt]
  refine ⟨trivial, trivial, trivial, ?_⟩
  have hset : ∀ v, (s.idx.set 0 v).getD 0 0 = v := by
    intro v
    cases hs : s.idx with
    | nil => rw [hs] at hlen; simp at hlen
    | cons a as => simp
  rw [hset, h0]
  have hlt : va % 2^(pf.fieldsz.getD 0 0) < 2^(pf.fieldsz.getD 0 0) := Nat.mod_lt _ (Nat.two_pow_pos _)
  rw [or_eq_add' _ _ _ hlt, Nat.add_comm, mod_split]
  congr 2; omega

/-! ### unpacking the decided facts -/

theorem formOK_facts {l : Layout} {pf : PagingForm} (h : formOK l pf = true) :
    2 ≤ pf.fieldsz.length ∧
    (pf.fieldsz.getD 0 0 = 12 ∨ pf.fieldsz.getD 0 0 = 14 ∨ pf.fieldsz.getD 0 0 = 16) ∧
    (∀ b ∈ pf.fieldsz, b < 64) ∧ pageMask pf = 2^(pf.fieldsz.getD 0 0) - 1 ∧
    ∀ r, 1 ≤ r → r < pf.fieldsz.length → levelOK l pf r = true := by
  unfold formOK at h
  simp only [Bool.and_eq_true, Bool.or_eq_true, decide_eq_true_eq, beq_iff_eq, List.all_eq_true,
    List.mem_range] at h
  obtain ⟨⟨⟨⟨h1, h2⟩, h3⟩, h4⟩, h5⟩ := h
  refine ⟨h1, ?_, h3, h4, ?_⟩
  · omega
  · intro r hr1 hr
    rcases h5 r hr with h | h
    · omega
    · exact h

theorem levelOK_facts {l : Layout} {pf : PagingForm} {r : Nat} (h : levelOK l pf r = true) :
    tableMask pf r = 2^(spanBits pf.fieldsz r) - 1 ∧
    ((r = 1 ∨ tableMask pf r > maxRegion l) ↔ ¬ (r ≠ 1 ∧ blockAllowed l (pf.fieldsz.getD 0 0) r = true)) ∧
    (blockAllowed l (pf.fieldsz.getD 0 0) r = true → spanBits pf.fieldsz r ≤ 42) ∧
    spanBits pf.fieldsz r ≤ 52 := by
  unfold levelOK at h
  simp only [Bool.and_eq_true, Bool.or_eq_true, decide_eq_true_eq, beq_iff_eq, Bool.not_eq_true'] at h
  obtain ⟨⟨⟨h1, h2⟩, h3⟩, h4⟩ := h
  refine ⟨h1, ?_, ?_, h4⟩
  · by_cases hc : (r = 1 ∨ tableMask pf r > maxRegion l)
    · simp only [hc, decide_true] at h2
      simp only [hc, true_iff]
      intro hh
      have : (decide (r ≠ 1) && blockAllowed l (pf.fieldsz.getD 0 0) r) = true := by rw [hh.2]; simp [hh.1]
      rw [this] at h2; simp at h2
    · simp only [hc, decide_false] at h2
      simp only [hc, false_iff, Classical.not_not]
      have : (decide (r ≠ 1) && blockAllowed l (pf.fieldsz.getD 0 0) r) = true := by
        cases hb : (decide (r ≠ 1) && blockAllowed l (pf.fieldsz.getD 0 0) r) with
        | true => rfl
        | false => rw [hb] at h2; simp at h2
      simpa using this
  · intro hb
    rcases h3 with h | h
    · rw [hb] at h; simp at h
    · exact h

end Kdf.Lemmas.Aarch64
