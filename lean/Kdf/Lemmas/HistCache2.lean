import Kdf.Lemmas.HistCache
/-!
Helper lemmas for C04, section 1, part 2: `insert`/`discard`/`put` bookkeeping, buffer
contents, and the complete description of `fetch` (`cache_get_page`).
-/
set_option linter.unusedSimpArgs false
set_option linter.unusedVariables false
namespace Kdf.Lemmas.Hist
open Kdf.Model.Cache Kdf.Model.Hist Kdf.Lemmas.Cache Kdf.Lemmas.CacheList

/-! ### Buffer contents -/

theorem getD_set_ne {α : Type} (l : List α) (d d' : Nat) (x y : α) (h : d ≠ d') :
    (l.set d x).getD d' y = l.getD d' y := by
  simp only [List.getD_eq_getElem?_getD, List.getElem?_set_ne h]

theorem getD_set_self {α : Type} (l : List α) (d : Nat) (x y : α) (h : d < l.length) :
    (l.set d x).getD d y = x := by
  simp [List.getD_eq_getElem?_getD, List.getElem?_set_self, h]

/-! ### Consequences of the invariant -/

theorem live_lt {c : Cache} {st : Prop} (h : InvS c st) {i : Nat} (hi : i ∈ live c) : i < 2 * c.cap := by
  apply h.2.lt_of_mem
  unfold live at hi
  simp only [abs_U, abs_GB, abs_B, abs_P, abs_GP, abs_F, List.mem_append] at hi ⊢
  rcases hi with (hi | hi) | hi <;> simp [hi]

theorem cached_live {c : Cache} {i : Nat} (hi : i ∈ cached c) : i ∈ live c := by
  unfold live; unfold cached at hi; exact List.mem_append_left _ hi

theorem inflight_live {c : Cache} {i : Nat} (hi : i ∈ c.F) : i ∈ live c := by
  unfold live; exact List.mem_append_right _ hi

theorem not_cached_of_inflight {c : Cache} {st : Prop} (h : InvS c st) {i : Nat} (hi : i ∈ c.F) :
    i ∉ cached c := by
  have hnd := h.2.nodup
  unfold cached
  simp only [abs_U, abs_GB, abs_B, abs_P, abs_GP, abs_F, List.nodup_append, List.mem_append] at hnd ⊢
  grind

theorem data_lt_cap {c : Cache} {st : Prop} (h : InvS c st) {i d : Nat} (hi : i < 2 * c.cap)
    (hd : c.dataOf i = some d) : d < c.cap := by
  have hb := h.2.bufs
  simp only [List.nil_append, abs_cap, abs_ent] at hb
  have : d ∈ (List.range (2 * c.cap)).filterMap (fun i => (c.ent i).data) :=
    List.mem_filterMap.2 ⟨i, List.mem_range.2 hi, hd⟩
  exact List.mem_range.1 ((hb.mem_iff).1 this)

theorem incref_refcnt_ne (X : Cache) (i : Nat) (h : i < (incref X i).ents.length) :
    (incref X i).refcnt i ≠ 0 := by
  have h' : i < X.ents.length := by simpa [incref] using h
  unfold incref Cache.refcnt
  rw [ent_modEnt]
  simp [h']

/-- the entry handed out by a lookup is referenced -/
theorem get_entry_ref {c c' : Cache} {st : Prop} {k i : Nat} {v : Bool} (h' : InvS c' st)
    (hs : get c k = .ok (c', .entry i v)) (hi : i ∈ live c') : c'.refcnt i ≠ 0 := by
  have hlt : i < c'.ents.length := by rw [h'.1]; exact live_lt h' hi
  have hX : ∃ X, c' = incref X i := by
    have := get_track hs
    cases v with
    | true => exact this.2.2
    | false => exact this.2.2
  obtain ⟨X, rfl⟩ := hX
  exact incref_refcnt_ne X i hlt

/-! ### `insert`, `discard`, `put` -/

theorem insert_ok {c : Cache} {e : Nat} (hnv : (c.ent e).state ≠ .valid) (heF : e ∈ c.F) :
    ∃ c', insert c e = .ok (c', .done) := by
  unfold Kdf.Model.Cache.insert
  rw [if_neg hnv, if_pos heF]
  exact ⟨_, rfl⟩

theorem insert_track {c c' : Cache} {e : Nat} {o : Out} (hs : insert c e = .ok (c', o))
    (hnv : (c.ent e).state ≠ .valid) :
    c'.F = c.F.erase e ∧ e ∈ cached c' ∧ (∀ j ∈ cached c', j = e ∨ j ∈ cached c) ∧ c'.cap = c.cap ∧
      ∀ j, c'.key j = c.key j ∧ c'.dataOf j = c.dataOf j ∧ c'.refcnt j = c.refcnt j := by
  unfold Kdf.Model.Cache.insert at hs
  rw [if_neg hnv] at hs
  split at hs
  · simp only [Except.ok.injEq, Prod.mk.injEq] at hs
    obtain ⟨rfl, -⟩ := hs
    cases hst : (c.ent e).state with
    | valid => exact absurd hst hnv
    | probe =>
      simp only []
      refine ⟨rfl, ?_, ?_, rfl, fun j => ?_⟩
      · unfold cached; simp
      · intro j hj
        unfold cached at hj ⊢
        simp only [modEnt_B, modEnt_P, List.mem_append, List.mem_singleton] at hj ⊢
        rcases hj with (hj | hj) | hj
        · exact Or.inr (Or.inl hj)
        · exact Or.inl hj
        · exact Or.inr (Or.inr hj)
      · have := modEnt_same { c with F := c.F.erase e, B := c.B ++ [e] } e
            (fun x => { x with state := .valid }) (fun _ => rfl) (fun _ => rfl) j
        refine ⟨this.1, this.2, ?_⟩
        show (Cache.modEnt { c with F := c.F.erase e, B := c.B ++ [e] } e _).refcnt j = _
        strip_modEnt; rfl
    | precious =>
      simp only []
      refine ⟨rfl, ?_, ?_, rfl, fun j => ?_⟩
      · unfold cached; simp
      · intro j hj
        unfold cached at hj ⊢
        simp only [modEnt_B, modEnt_P, List.mem_append, List.mem_cons] at hj ⊢
        rcases hj with hj | hj | hj
        · exact Or.inr (Or.inl hj)
        · exact Or.inl hj
        · exact Or.inr (Or.inr hj)
      · have := modEnt_same { c with F := c.F.erase e, P := e :: c.P } e
            (fun x => { x with state := .valid }) (fun _ => rfl) (fun _ => rfl) j
        refine ⟨this.1, this.2, ?_⟩
        show (Cache.modEnt { c with F := c.F.erase e, P := e :: c.P } e _).refcnt j = _
        strip_modEnt; rfl
  · cases hs

theorem refcnt_modEnt_dec (c : Cache) (e : Nat) (he : e < c.ents.length) (j : Nat) :
    (c.modEnt e (fun x => { x with refcnt := x.refcnt - 1 })).refcnt j =
      if j = e then c.refcnt e - 1 else c.refcnt j := by
  unfold Cache.refcnt
  rw [ent_modEnt]
  by_cases hj : j = e
  · subst hj; simp [he]
  · simp [hj]

theorem discard_ok {c : Cache} {e : Nat} (hr : c.refcnt e ≠ 0) (hnv : (c.ent e).state ≠ .valid)
    (heF : e ∈ c.F) : ∃ c', discard c e = .ok (c', .done) := by
  have helt := refcnt_lt_len hr
  have hent : (c.modEnt e (fun x => { x with refcnt := x.refcnt - 1 })).ent e =
      { c.ent e with refcnt := (c.ent e).refcnt - 1 } := by simp [ent_modEnt, helt]
  unfold Kdf.Model.Cache.discard
  rw [if_neg hr]
  simp only []
  split
  · exact ⟨_, rfl⟩
  · split
    · exact ⟨_, rfl⟩
    · split
      · exact ⟨_, rfl⟩
      · rename_i hn
        exact absurd heF hn

theorem discard_track {c c' : Cache} {e : Nat} {o : Out} (hs : discard c e = .ok (c', o)) :
    cached c' = cached c ∧ c'.cap = c.cap ∧ (∀ j, c'.key j = c.key j ∧ c'.dataOf j = c.dataOf j) ∧
      (∀ j, c'.refcnt j = if j = e then c.refcnt e - 1 else c.refcnt j) ∧
      (c.refcnt e = 1 → (c.ent e).state ≠ .valid → c'.F = c.F.erase e) := by
  unfold Kdf.Model.Cache.discard at hs
  split at hs
  · cases hs
  · rename_i hr
    have helt := refcnt_lt_len hr
    have hent : (c.modEnt e (fun x => { x with refcnt := x.refcnt - 1 })).ent e =
        { c.ent e with refcnt := (c.ent e).refcnt - 1 } := by simp [ent_modEnt, helt]
    have hkd := modEnt_same c e (fun x => { x with refcnt := x.refcnt - 1 }) (fun _ => rfl) (fun _ => rfl)
    have hrc := refcnt_modEnt_dec c e helt
    simp only [] at hs
    split at hs
    · rename_i hr1
      simp only [Except.ok.injEq, Prod.mk.injEq] at hs
      obtain ⟨rfl, -⟩ := hs
      refine ⟨rfl, rfl, hkd, hrc, fun h1 _ => ?_⟩
      exfalso; apply hr1
      rw [hrc, if_pos rfl, h1]
    · split at hs
      · rename_i hv
        simp only [Except.ok.injEq, Prod.mk.injEq] at hs
        obtain ⟨rfl, -⟩ := hs
        refine ⟨rfl, rfl, hkd, hrc, fun _ hnv => ?_⟩
        exfalso; apply hnv
        rw [hent] at hv
        exact hv
      · split at hs
        · simp only [Except.ok.injEq, Prod.mk.injEq] at hs
          obtain ⟨rfl, -⟩ := hs
          exact ⟨rfl, rfl, hkd, hrc, fun _ _ => rfl⟩
        · cases hs

theorem put_track {c c' : Cache} {e : Nat} {o : Out} (hs : put c e = .ok (c', o)) :
    c.refcnt e ≠ 0 ∧ c' = c.modEnt e (fun x => { x with refcnt := x.refcnt - 1 }) := by
  unfold Kdf.Model.Cache.put at hs
  split at hs
  · cases hs
  · rename_i hr
    simp only [Except.ok.injEq, Prod.mk.injEq] at hs
    exact ⟨hr, hs.1.symm⟩

theorem put_ok {c : Cache} {e : Nat} (hr : c.refcnt e ≠ 0) :
    put c e = .ok (c.modEnt e (fun x => { x with refcnt := x.refcnt - 1 }), .done) := by
  unfold Kdf.Model.Cache.put
  rw [if_neg hr]

end Kdf.Lemmas.Hist
