import Kdf.Model.Scan
import Kdf.Model.PgtArch
import Kdf.Lemmas.Pgt
import Kdf.Lemmas.PgtStep
import Kdf.Lemmas.PgtSim
import Kdf.Lemmas.PgtForm
import Kdf.Props.C02
import Kdf.Lemmas.ScanBase
import Kdf.Lemmas.ScanLoop
import Kdf.Lemmas.ScanLm
import Kdf.Lemmas.ScanHm
/-!
# Lemmas for C08: the recursive page-table scanners (`Kdf.Model.Scan`) over the C02 walk model

`scanner_specs`: for the x86-64 paging forms (4- and 5-level) and arbitrary table content,
each scanner returns the least / greatest mapped / unmapped address of the scanned interval,
where "mapped" is the C02 walk (`Kdf.Model.Pgt.walk`, proved equal to the architectural walk
in `Kdf.Props.C02`).
-/
namespace Kdf.Lemmas.Scan
set_option linter.unusedVariables false
open Kdf.Model.Pgt Kdf.Model.Scan Kdf.Model.PgtArch Kdf.Spec.ArchWalk Kdf.Lemmas.Pgt

/-- the x86-64 paging forms set up by `init_pgt_meth` of x86_64.c -/
def X64Form (pf : PagingForm) : Prop :=
  pf.fmt = .x86_64 ∧ (pf.fieldsz = [12, 9, 9, 9, 9] ∨ pf.fieldsz = [12, 9, 9, 9, 9, 9])

/-- the scanned interval `[lo, hi]` lies in one canonical half (every address in it passes
`step_check_saddr`) -/
def SameHalf (pf : PagingForm) (lo hi : Nat) : Prop :=
  lo ≤ hi ∧ hi < W ∧ (hi < 2^(vaddrBits pf - 1) ∨ W - 2^(vaddrBits pf - 1) ≤ lo)

/-! ### Change with respect to the statements as first written

ORIGINAL STATEMENTS (all three): exactly the statements below WITHOUT the hypothesis
  `(hmemok : ∀ as a sz, mem as a sz ≠ .error .ok)`.
They are false for a memory whose read fails *with status OK* (`XStatus.ok` inside
`Except.error`, a value the type `Mem` allows but no real read callback produces):
  `mem := fun _ _ _ => .error .ok`, `pf := ⟨.x86_64, [12,9,9,9,9]⟩`, root `⟨0x1000, 0⟩`:
  `lowestMapped … 0x1000 0x5000 = .done .ok 0x1000 _`, `lowestUnmapped … = .done .ok 0x1000 _`,
  `highestMapped … 0x5000 0x1000 = .done .ok 0x5fff _`, but `walk … = .error .ok`
(the scanners return the failing status unchanged, and that status happens to be OK).
This is an artefact of the model's `Mem` type, not a defect of the C code. -/

/-! ### shared top-level facts -/

theorem xform_xf {pf : PagingForm} (h : X64Form pf) : XF pf := h

theorem addr_lt_W {addr limit : Nat} (h1 : clearLow addr 12 ≤ limit) (h2 : limit < W) : addr < W := by
  simp only [clearLow, W] at *
  omega

theorem andNot_eq (addr : Nat) (h : addr < W) : andNot addr (4096 - 1) = clearLow addr 12 :=
  and_not_mask addr 12 h (by decide)

theorem pageMask_eq {pf : PagingForm} (h : XF pf) : pageMask pf = some (4096 - 1) := by
  simp [pageMask, xf_tableSize0 h]

/-- at the top level a completed scan covers the whole interval -/
theorem top_cover {pf : PagingForm} (hpf : XF pf) {lo limit e : Nat} (hh : SameHalf pf lo limit)
    (he : e = (lo / 2^(spanBits pf.fieldsz pf.fieldsz.length) + 1) * 2^(spanBits pf.fieldsz pf.fieldsz.length) ∨
      (limit < e ∧ e < W)) : limit < e := by
  rcases he with he | he
  · obtain ⟨h1, h2, h3⟩ := hh
    rw [← vaddrBits_eq] at he
    rcases hpf.2 with h | h
    · have hv : vaddrBits pf = 48 := by simp [vaddrBits, h]
      rw [hv] at he h3
      simp only [W] at *
      simp only [Nat.reducePow, Nat.reduceSub] at *
      omega
    · have hv : vaddrBits pf = 57 := by simp [vaddrBits, h]
      rw [hv] at he h3
      simp only [W] at *
      simp only [Nat.reducePow, Nat.reduceSub] at *
      omega
  · exact he.1

theorem walk_nodata (c : Cfg) (hpf : XF c.pf) (hroot : c.root.as = NOADDR) (x : Nat) :
    (walk extra c.mem c.meth x).map (·.base) = .error .nodata := by
  unfold walk
  rw [firstStep_nodata c hpf hroot]
  rfl

/-- `lowest_mapped`: the answer is the least mapped page of `[addr & ~0xfff, limit]`.

COUNTEREXAMPLE to the statement without `hmemok`: `mem := fun _ _ _ => .error .ok` (a read
callback that fails with status OK) makes `lowestMapped … 0x1000 0x5000 = .done .ok 0x1000 _`
while `walk … 0x1000 = .error .ok`.  The hypothesis `hmemok` ("a failing read does not report
ADDRXLAT_OK") is the only change to the original statement. -/
theorem lowestMapped_spec (mem : Mem) (t : Nat) (root : FullAddr) (pteMask : Nat) (pf : PagingForm)
    (hpf : X64Form pf) (hmask : pteMask < W) (hroot : root.addr < W) (addr limit : Nat)
    (hmemok : ∀ as a sz, mem as a sz ≠ .error .ok)
    (hh : SameHalf pf (clearLow addr 12) limit) :
    match lowestMapped (firstStep (.pgt t root pteMask pf)) (stepOnce extra mem (.pgt t root pteMask pf)) pf addr limit with
    | .done .ok a s =>
        clearLow addr 12 ≤ a ∧ a ≤ limit ∧ a % 4096 = 0 ∧
        (walk extra mem (.pgt t root pteMask pf) a).map (·.base) = .ok s.base ∧
        ∀ x, clearLow addr 12 ≤ x → x < a → walk extra mem (.pgt t root pteMask pf) x = .error .notpresent
    | .done .notpresent _ _ =>
        ∀ x, clearLow addr 12 ≤ x → x ≤ limit → walk extra mem (.pgt t root pteMask pf) x = .error .notpresent
    | .done e a _ =>
        clearLow addr 12 ≤ a ∧ (walk extra mem (.pgt t root pteMask pf) a).map (·.base) = .error e ∧
        ∀ x, clearLow addr 12 ≤ x → x < a → walk extra mem (.pgt t root pteMask pf) x = .error .notpresent
    | .fuel => False
    | .undef => False := by
  let c : Cfg := ⟨mem, t, root, pteMask, pf⟩
  have hxf : XF c.pf := hpf
  have haddr : addr < W := addr_lt_W hh.1 hh.2.1
  have hlo4 : clearLow addr 12 % 4096 = 0 := by simp only [clearLow]; omega
  have hcan : ∀ x, clearLow addr 12 ≤ x → x ≤ limit →
      canonical .signed (spanBits pf.fieldsz pf.fieldsz.length) x = true :=
    fun x h1 h2 => canon_of_half hxf _ _ x hh h1 h2
  show match lowestMapped (firstStep c.meth) c.sf c.pf addr limit with
    | .done .ok a s =>
        clearLow addr 12 ≤ a ∧ a ≤ limit ∧ a % 4096 = 0 ∧
        (walk extra c.mem c.meth a).map (·.base) = .ok s.base ∧
        ∀ x, clearLow addr 12 ≤ x → x < a → walk extra c.mem c.meth x = .error .notpresent
    | .done .notpresent _ _ =>
        ∀ x, clearLow addr 12 ≤ x → x ≤ limit → walk extra c.mem c.meth x = .error .notpresent
    | .done e a _ =>
        clearLow addr 12 ≤ a ∧ (walk extra c.mem c.meth a).map (·.base) = .error e ∧
        ∀ x, clearLow addr 12 ≤ x → x < a → walk extra c.mem c.meth x = .error .notpresent
    | .fuel => False
    | .undef => False
  unfold lowestMapped
  rw [pageMask_eq hxf]
  simp only [andNot_eq addr haddr]
  by_cases hr : c.root.as = NOADDR
  · rw [firstStep_nodata c hxf hr]
    exact ⟨Nat.le_refl _, walk_nodata c hxf hr _, fun x h1 h2 => by omega⟩
  · rw [firstStep_ok c hxf hr _ (hcan _ (Nat.le_refl _) hh.1)]
    simp only []
    have hp := lmTbl_post c hxf hmask hmemok limit hh.2.1 (c.n + 1) c.n _ _ (at_init c hxf _)
      (by have := xf_len hxf; show 2 ≤ c.pf.fieldsz.length; omega) (Nat.le_refl _) (by omega) hh.1 hlo4
    have hrem : (initStep c.root c.pf (clearLow addr 12)).remain + 1 = c.n + 1 := rfl
    rw [hrem]
    generalize lmTbl c.sf c.pf limit (c.n + 1) (initStep c.root c.pf (clearLow addr 12)) (clearLow addr 12) = res at hp
    have hNP : ∀ x, clearLow addr 12 ≤ x → x ≤ limit → NP c x →
        walk extra c.mem c.meth x = .error .notpresent := by
      intro x h1 h2 h3
      apply map_error_iff.1
      rw [walk_eq_G c hxf hmask hr x (hcan x h1 h2)]
      exact h3
    cases res with
    | fuel => exact hp
    | undef => exact hp
    | done st a s =>
      cases st with
      | ok =>
        rw [post_ok] at hp
        obtain ⟨h1, h2, ⟨h3, h4⟩, h5⟩ := hp
        refine ⟨h1, h2, h3, ?_, fun x hx1 hx2 => hNP x hx1 (by omega) (h5 x hx1 hx2)⟩
        rw [walk_eq_G c hxf hmask hr a (hcan a h1 h2)]
        exact h4
      | notpresent =>
        rw [post_np] at hp
        obtain ⟨e, _, he2, he3⟩ := hp
        have := top_cover hxf hh he3
        exact fun x hx1 hx2 => hNP x hx1 hx2 (he2 x hx1 (by omega) hx2)
      | _ =>
        rw [post_err (by simp) (by simp)] at hp
        obtain ⟨h1, h2, h3, h4⟩ := hp
        refine ⟨h1, ?_, fun x hx1 hx2 => hNP x hx1 (by omega) (h4 x hx1 hx2)⟩
        rw [walk_eq_G c hxf hmask hr a (hcan a h1 h2)]
        exact h3

/-- `lowest_unmapped`: the answer is the least page of `[addr & ~0xfff, limit]` whose walk ends in
"not present"; everything below it translates.  (`hmemok`: see `lowestMapped_spec`.) -/
theorem lowestUnmapped_spec (mem : Mem) (t : Nat) (root : FullAddr) (pteMask : Nat) (pf : PagingForm)
    (hpf : X64Form pf) (hmask : pteMask < W) (hroot : root.addr < W) (addr limit : Nat)
    (hmemok : ∀ as a sz, mem as a sz ≠ .error .ok)
    (hh : SameHalf pf (clearLow addr 12) limit) :
    match lowestUnmapped (firstStep (.pgt t root pteMask pf)) (stepOnce extra mem (.pgt t root pteMask pf)) pf addr limit with
    | .done .ok a _ =>
        clearLow addr 12 ≤ a ∧ a ≤ limit ∧
        walk extra mem (.pgt t root pteMask pf) a = .error .notpresent ∧
        ∀ x, clearLow addr 12 ≤ x → x < a → ∃ s, walk extra mem (.pgt t root pteMask pf) x = .ok s
    | .done .notpresent _ _ =>
        ∀ x, clearLow addr 12 ≤ x → x ≤ limit → ∃ s, walk extra mem (.pgt t root pteMask pf) x = .ok s
    | .done e a _ =>
        clearLow addr 12 ≤ a ∧ (walk extra mem (.pgt t root pteMask pf) a).map (·.base) = .error e ∧
        ∀ x, clearLow addr 12 ≤ x → x < a → ∃ s, walk extra mem (.pgt t root pteMask pf) x = .ok s
    | .fuel => False
    | .undef => False := by
  let c : Cfg := ⟨mem, t, root, pteMask, pf⟩
  have hxf : XF c.pf := hpf
  have haddr : addr < W := addr_lt_W hh.1 hh.2.1
  have hlo4 : clearLow addr 12 % 4096 = 0 := by simp only [clearLow]; omega
  have hcan : ∀ x, clearLow addr 12 ≤ x → x ≤ limit →
      canonical .signed (spanBits pf.fieldsz pf.fieldsz.length) x = true :=
    fun x h1 h2 => canon_of_half hxf _ _ x hh h1 h2
  show match lowestUnmapped (firstStep c.meth) c.sf c.pf addr limit with
    | .done .ok a _ =>
        clearLow addr 12 ≤ a ∧ a ≤ limit ∧
        walk extra c.mem c.meth a = .error .notpresent ∧
        ∀ x, clearLow addr 12 ≤ x → x < a → ∃ s, walk extra c.mem c.meth x = .ok s
    | .done .notpresent _ _ =>
        ∀ x, clearLow addr 12 ≤ x → x ≤ limit → ∃ s, walk extra c.mem c.meth x = .ok s
    | .done e a _ =>
        clearLow addr 12 ≤ a ∧ (walk extra c.mem c.meth a).map (·.base) = .error e ∧
        ∀ x, clearLow addr 12 ≤ x → x < a → ∃ s, walk extra c.mem c.meth x = .ok s
    | .fuel => False
    | .undef => False
  unfold lowestUnmapped
  rw [pageMask_eq hxf]
  simp only [andNot_eq addr haddr]
  by_cases hr : c.root.as = NOADDR
  · rw [firstStep_nodata c hxf hr]
    exact ⟨Nat.le_refl _, walk_nodata c hxf hr _, fun x h1 h2 => by omega⟩
  · rw [firstStep_ok c hxf hr _ (hcan _ (Nat.le_refl _) hh.1)]
    simp only []
    have hp := luTbl_post c hxf hmask hmemok limit hh.2.1 (c.n + 1) c.n _ _ (at_init c hxf _)
      (by have := xf_len hxf; show 2 ≤ c.pf.fieldsz.length; omega) (Nat.le_refl _) (by omega) hh.1 hlo4
    have hrem : (initStep c.root c.pf (clearLow addr 12)).remain + 1 = c.n + 1 := rfl
    rw [hrem]
    generalize luTbl c.sf c.pf limit (c.n + 1) (initStep c.root c.pf (clearLow addr 12)) (clearLow addr 12) = res at hp
    have hMp : ∀ x, clearLow addr 12 ≤ x → x ≤ limit → Mapped c x →
        ∃ s, walk extra c.mem c.meth x = .ok s := by
      intro x h1 h2 h3
      obtain ⟨b, hb⟩ := h3
      apply map_ok_exists (b := b)
      rw [walk_eq_G c hxf hmask hr x (hcan x h1 h2)]
      exact hb
    cases res with
    | fuel => exact hp
    | undef => exact hp
    | done st a s =>
      cases st with
      | ok =>
        rw [post_ok] at hp
        obtain ⟨h1, h2, h3, h5⟩ := hp
        refine ⟨h1, h2, ?_, fun x hx1 hx2 => hMp x hx1 (by omega) (h5 x hx1 hx2)⟩
        apply map_error_iff.1
        rw [walk_eq_G c hxf hmask hr a (hcan a h1 h2)]
        exact h3
      | notpresent =>
        rw [post_np] at hp
        obtain ⟨e, _, he2, he3⟩ := hp
        have := top_cover hxf hh he3
        exact fun x hx1 hx2 => hMp x hx1 hx2 (he2 x hx1 (by omega) hx2)
      | _ =>
        rw [post_err (by simp) (by simp)] at hp
        obtain ⟨h1, h2, h3, h4⟩ := hp
        refine ⟨h1, ?_, fun x hx1 hx2 => hMp x hx1 (by omega) (h4 x hx1 hx2)⟩
        rw [walk_eq_G c hxf hmask hr a (hcan a h1 h2)]
        exact h3

/-- at the top level a completed descending scan covers the whole interval -/
theorem top_coverD {pf : PagingForm} (hpf : XF pf) {limit hi e : Nat} (hh : SameHalf pf limit hi)
    (he : e = hi / 2^(spanBits pf.fieldsz pf.fieldsz.length) * 2^(spanBits pf.fieldsz pf.fieldsz.length) ∨
      (e ≤ limit ∧ 0 < e)) : e ≤ limit := by
  rcases he with he | he
  · obtain ⟨h1, h2, h3⟩ := hh
    rw [← vaddrBits_eq] at he
    rcases hpf.2 with h | h
    · have hv : vaddrBits pf = 48 := by simp [vaddrBits, h]
      rw [hv] at he h3
      simp only [W] at *
      simp only [Nat.reducePow, Nat.reduceSub] at *
      omega
    · have hv : vaddrBits pf = 57 := by simp [vaddrBits, h]
      rw [hv] at he h3
      simp only [W] at *
      simp only [Nat.reducePow, Nat.reduceSub] at *
      omega
  · exact he.1

theorem or_4095 (addr : Nat) : (addr ||| 4095) % 4096 = 4095 := by
  have := or_mask addr 12
  simp only [Nat.reducePow, Nat.reduceSub] at this
  rw [this]; omega

/-- `highest_mapped`: the answer is the greatest mapped address of `[limit, addr | 0xfff]`.
(`hmemok`: see `lowestMapped_spec`.) -/
theorem highestMapped_spec (mem : Mem) (t : Nat) (root : FullAddr) (pteMask : Nat) (pf : PagingForm)
    (hpf : X64Form pf) (hmask : pteMask < W) (hroot : root.addr < W) (addr limit : Nat) (haddr : addr < W)
    (hmemok : ∀ as a sz, mem as a sz ≠ .error .ok)
    (hh : SameHalf pf limit (addr ||| 4095)) :
    match highestMapped (firstStep (.pgt t root pteMask pf)) (stepOnce extra mem (.pgt t root pteMask pf)) pf addr limit with
    | .done .ok a s =>
        limit ≤ a ∧ a ≤ (addr ||| 4095) ∧ a % 4096 = 4095 ∧
        (walk extra mem (.pgt t root pteMask pf) a).map (·.base) = .ok s.base ∧
        ∀ x, a < x → x ≤ (addr ||| 4095) → walk extra mem (.pgt t root pteMask pf) x = .error .notpresent
    | .done .notpresent _ _ =>
        ∀ x, limit ≤ x → x ≤ (addr ||| 4095) → walk extra mem (.pgt t root pteMask pf) x = .error .notpresent
    | .done e a _ =>
        a ≤ (addr ||| 4095) ∧ (walk extra mem (.pgt t root pteMask pf) a).map (·.base) = .error e ∧
        ∀ x, a < x → x ≤ (addr ||| 4095) → walk extra mem (.pgt t root pteMask pf) x = .error .notpresent
    | .fuel => False
    | .undef => False := by
  let c : Cfg := ⟨mem, t, root, pteMask, pf⟩
  have hxf : XF c.pf := hpf
  have hcan : ∀ x, limit ≤ x → x ≤ (addr ||| 4095) →
      canonical .signed (spanBits pf.fieldsz pf.fieldsz.length) x = true :=
    fun x h1 h2 => canon_of_half hxf _ _ x hh h1 h2
  show match highestMapped (firstStep c.meth) c.sf c.pf addr limit with
    | .done .ok a s =>
        limit ≤ a ∧ a ≤ (addr ||| 4095) ∧ a % 4096 = 4095 ∧
        (walk extra c.mem c.meth a).map (·.base) = .ok s.base ∧
        ∀ x, a < x → x ≤ (addr ||| 4095) → walk extra c.mem c.meth x = .error .notpresent
    | .done .notpresent _ _ =>
        ∀ x, limit ≤ x → x ≤ (addr ||| 4095) → walk extra c.mem c.meth x = .error .notpresent
    | .done e a _ =>
        a ≤ (addr ||| 4095) ∧ (walk extra c.mem c.meth a).map (·.base) = .error e ∧
        ∀ x, a < x → x ≤ (addr ||| 4095) → walk extra c.mem c.meth x = .error .notpresent
    | .fuel => False
    | .undef => False
  unfold highestMapped
  rw [pageMask_eq hxf]
  simp only [show 4096 - 1 = 4095 from rfl]
  generalize hhi : addr ||| 4095 = hi at *
  have hhi4 : hi % 4096 = 4095 := by rw [← hhi]; exact or_4095 addr
  by_cases hr : c.root.as = NOADDR
  · rw [firstStep_nodata c hxf hr]
    exact ⟨Nat.le_refl _, walk_nodata c hxf hr _, fun x h1 h2 => by omega⟩
  · rw [firstStep_ok c hxf hr _ (hcan _ hh.1 (Nat.le_refl _))]
    simp only []
    have hp := hmTbl_post c hxf hmask hmemok limit (c.n + 1) c.n _ _ (at_init c hxf hi)
      (by have := xf_len hxf; show 2 ≤ c.pf.fieldsz.length; omega) (Nat.le_refl _) (by omega) hh.1
      hh.2.1 hhi4
    have hrem : (initStep c.root c.pf hi).remain + 1 = c.n + 1 := rfl
    rw [hrem]
    generalize hmTbl c.sf c.pf limit (c.n + 1) (initStep c.root c.pf hi) hi = res at hp
    have hNP : ∀ x, limit ≤ x → x ≤ hi → NP c x →
        walk extra c.mem c.meth x = .error .notpresent := by
      intro x h1 h2 h3
      apply map_error_iff.1
      rw [walk_eq_G c hxf hmask hr x (hcan x h1 h2)]
      exact h3
    cases res with
    | fuel => exact hp
    | undef => exact hp
    | done st a s =>
      cases st with
      | ok =>
        rw [postD_ok] at hp
        obtain ⟨h1, h2, ⟨h3, h4⟩, h5⟩ := hp
        refine ⟨h2, h1, h3, ?_, fun x hx1 hx2 => hNP x (by omega) hx2 (h5 x hx1 hx2)⟩
        rw [walk_eq_G c hxf hmask hr a (hcan a h2 h1)]
        exact h4
      | notpresent =>
        rw [postD_np] at hp
        obtain ⟨e, _, he2, he3⟩ := hp
        have := top_coverD hxf hh he3
        exact fun x hx1 hx2 => hNP x hx1 hx2 (he2 x (by omega) hx2 hx1)
      | _ =>
        rw [postD_err (by simp) (by simp)] at hp
        obtain ⟨h1, h2, h3, h4⟩ := hp
        refine ⟨h1, ?_, fun x hx1 hx2 => hNP x (by omega) hx2 (h4 x hx1 hx2)⟩
        rw [walk_eq_G c hxf hmask hr a (hcan a h2 h1)]
        exact h3

end Kdf.Lemmas.Scan
