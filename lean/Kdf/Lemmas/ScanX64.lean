import Kdf.Lemmas.Scan
import Kdf.Lemmas.ScanLinear
/-!
# C08: `highest_linear` on the x86-64 paging forms — the scanner specifications discharged

Combines `Kdf.Lemmas.Scan` (what `lowest_mapped` / `lowest_unmapped` compute on x86-64 tables)
with `Kdf.Lemmas.ScanLinear.highestLinear_sound` (soundness of `highest_linear` given those
specifications): no hypothesis about the scanners is left.
-/
namespace Kdf.Lemmas.ScanX64
open Kdf.Model.Pgt Kdf.Model.Scan Kdf.Model.PgtArch Kdf.Lemmas.Scan Kdf.Lemmas.ScanLinear

/-- `SameHalf` is inherited by every later start inside the interval -/
theorem sameHalf_mono {pf : PagingForm} {lo lo' limit : Nat} (hh : SameHalf pf lo limit)
    (h1 : lo ≤ lo') (h2 : lo' ≤ limit) : SameHalf pf lo' limit := by
  obtain ⟨_, hb, hc⟩ := hh
  refine ⟨h2, hb, ?_⟩
  rcases hc with hc | hc
  · exact Or.inl hc
  · exact Or.inr (Nat.le_trans hc h1)

/-- `x & ~0xfff` is monotone above a page-aligned address -/
theorem andNot_mono {limit : Nat} (hlim : limit < W) (a b : Nat) (ha : andNot a (4096 - 1) = a)
    (hab : a ≤ b) (hb : b ≤ limit) : a ≤ andNot b (4096 - 1) := by
  have hbW : b < W := Nat.lt_of_le_of_lt hb hlim
  have haW : a < W := Nat.lt_of_le_of_lt hab hbW
  rw [andNot_eq a haW] at ha
  rw [andNot_eq b hbW]
  simp only [clearLow] at *
  omega

/-- If `highest_linear` over x86-64 page tables (4- or 5-level, arbitrary content) answers OK with end
address `h`, then every address of `[addr & ~0xfff, min h limit]` that the page tables map translates
(through the system under construction, `conv`) with the offset `off` — provided the image's mapped
runs are uniformly linear or not (`RunUniform`, the kernel-layout hypothesis) and the scanned interval
lies in one canonical half.

Proof: `ScanLinear.highestLinear_sound` needs the scanner specifications only for starts `a < W` with
`addr & ~0xfff ≤ a & ~0xfff ≤ limit`; for those `SameHalf` is inherited from the first start
(`sameHalf_mono`) and `Scan.lowestMapped_spec` / `Scan.lowestUnmapped_spec` apply. -/
theorem x64_highestLinear_sound (mem : Mem) (t : Nat) (root : FullAddr) (pteMask : Nat) (pf : PagingForm)
    (hpf : X64Form pf) (hmask : pteMask < W) (hroot : root.addr < W)
    (hmemok : ∀ as a sz, mem as a sz ≠ .error .ok)
    (conv : Nat → XStatus × Nat) (limit off : Nat)
    (hrun : RunUniform (walk extra mem (.pgt t root pteMask pf)) conv off)
    (fuel addr h : Nat) (hh : SameHalf pf (clearLow addr 12) limit)
    (hres : highestLinear (firstStep (.pgt t root pteMask pf)) (stepOnce extra mem (.pgt t root pteMask pf)) pf
              conv limit off fuel addr addr .notpresent = .done .ok h) :
    ∀ x, clearLow addr 12 ≤ x → x ≤ h → x ≤ limit →
      Mapped (walk extra mem (.pgt t root pteMask pf)) x → LinAt conv off x := by
  have hlim : limit < W := hh.2.1
  have haddr : addr < W := addr_lt_W hh.1 hlim
  have hsh : ∀ a, a < W → andNot addr (4096 - 1) ≤ andNot a (4096 - 1) → andNot a (4096 - 1) ≤ limit →
      SameHalf pf (clearLow a 12) limit := by
    intro a ha h1 h2
    rw [andNot_eq addr haddr, andNot_eq a ha] at h1
    rw [andNot_eq a ha] at h2
    exact sameHalf_mono hh h1 h2
  have hmap : ∀ {x : Nat} {b : FullAddr},
      (walk extra mem (.pgt t root pteMask pf) x).map (·.base) = .ok b →
      Mapped (walk extra mem (.pgt t root pteMask pf)) x := by
    intro x b hb
    cases hw : walk extra mem (.pgt t root pteMask pf) x with
    | ok s => exact ⟨s, hw⟩
    | error e => rw [hw] at hb; cases hb
  have hnot : ∀ {x : Nat}, walk extra mem (.pgt t root pteMask pf) x = .error .notpresent →
      ¬ Mapped (walk extra mem (.pgt t root pteMask pf)) x := by
    intro x hx ⟨s, hs⟩
    rw [hx] at hs; cases hs
  have hres' := highestLinear_sound (firstStep (.pgt t root pteMask pf))
    (stepOnce extra mem (.pgt t root pteMask pf)) pf (walk extra mem (.pgt t root pteMask pf)) conv limit off
    (4096 - 1) hlim (andNot_mono hlim) fuel addr h haddr
    (by rw [andNot_eq addr haddr]; exact hh.1) ?_ ?_ hrun hres
  · rw [andNot_eq addr haddr] at hres'
    exact hres'
  · intro a ha h1 h2
    have hs := lowestMapped_spec mem t root pteMask pf hpf hmask hroot a limit hmemok (hsh a ha h1 h2)
    rw [andNot_eq a ha]
    generalize lowestMapped (firstStep (.pgt t root pteMask pf)) (stepOnce extra mem (.pgt t root pteMask pf))
      pf a limit = r at hs
    cases r with
    | fuel => exact hs
    | undef => exact hs
    | done st a' s =>
      cases st <;> simp only [LMOk]
      · obtain ⟨h3, h4, h5, h6, h7⟩ := hs
        have ha'W : a' < W := Nat.lt_of_le_of_lt h4 hlim
        refine ⟨h3, h4, ?_, hmap h6, fun x hx1 hx2 => hnot (h7 x hx1 hx2)⟩
        rw [andNot_eq a' ha'W]
        simp only [clearLow]
        omega
      · exact fun x hx1 hx2 => hnot (hs x hx1 hx2)
  · intro a ha h1 h2
    have hs := lowestUnmapped_spec mem t root pteMask pf hpf hmask hroot a limit hmemok (hsh a ha h1 h2)
    rw [andNot_eq a ha]
    generalize lowestUnmapped (firstStep (.pgt t root pteMask pf)) (stepOnce extra mem (.pgt t root pteMask pf))
      pf a limit = r at hs
    cases r with
    | fuel => exact hs
    | undef => exact hs
    | done st a' s =>
      cases st <;> simp only [LUOk]
      · obtain ⟨h3, h4, h5, h7⟩ := hs
        exact ⟨h3, h4, hnot h5, fun x hx1 hx2 => h7 x hx1 hx2⟩
      · exact fun x hx1 hx2 => hs x hx1 hx2

end Kdf.Lemmas.ScanX64
