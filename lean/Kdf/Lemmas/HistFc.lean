import Kdf.Model.Hist
/-! Helper lemmas for C04, section 5: `fcache_get`, mmap versus read. -/
namespace Kdf.Lemmas.Hist
open Kdf.Model.Hist

theorem take_range_map {α : Type} (f : Nat → α) {n m : Nat} (h : n ≤ m) :
    ((List.range m).map f).take n = (List.range n).map f := by
  rw [← List.map_take, List.take_range, Nat.min_eq_left h]

/-- the rest of the page is inside the rest of the mmap window -/
theorem page_rest_le_window (pgsz mmapsz pos : Nat) (hpg : 0 < pgsz) (hmm : pgsz ∣ mmapsz)
    (hm0 : 0 < mmapsz) : pgsz - pos % pgsz ≤ mmapsz - pos % mmapsz := by
  obtain ⟨c, rfl⟩ := hmm
  have hc : 0 < c := Nat.pos_of_mul_pos_left hm0
  rw [Nat.mod_mul]
  have h1 : pos / pgsz % c < c := Nat.mod_lt _ hc
  have h2 : pgsz * (pos / pgsz % c + 1) ≤ pgsz * c := Nat.mul_le_mul_left _ h1
  rw [Nat.mul_succ] at h2
  have h3 : pos % pgsz < pgsz := Nat.mod_lt _ hpg
  omega

theorem getRead_take (file : List Nat) (pgsz pos n : Nat) (hin : pos / pgsz * pgsz < file.length)
    (hn : n ≤ pgsz - pos % pgsz) :
    (getRead file pgsz pos).take n = some ((List.range n).map fun j => fileByte file (pos + j)) := by
  unfold getRead
  rw [if_neg (by omega)]
  unfold FcOut.take
  simp only
  rw [take_range_map _ hn]

/-- behind the end of the file (and not in block 0) both paths refuse -/
theorem getRead_refused (file : List Nat) (pgsz pos : Nat) (h0 : 0 < pos / pgsz * pgsz)
    (hout : file.length ≤ pos / pgsz * pgsz) : getRead file pgsz pos = .nodata := by
  unfold getRead
  rw [if_pos ⟨h0, hout⟩]

theorem getMmap_refused (file : List Nat) (pgsz mmapsz pos : Nat)
    (hout : file.length ≤ pos / pgsz * pgsz) : getMmap file pgsz mmapsz pos = .nodata := by
  unfold getMmap
  rw [if_pos hout]

theorem fcacheGet_refused (file : List Nat) (pgsz mmapsz pos : Nat) (h0 : 0 < pos / pgsz * pgsz)
    (hout : file.length ≤ pos / pgsz * pgsz) (pol : Policy) :
    (fcacheGet file pgsz mmapsz pol pos).2 = .nodata := by
  have hr := getRead_refused file pgsz pos h0 hout
  have hm := getMmap_refused file pgsz mmapsz pos hout
  cases pol <;> simp [fcacheGet, hr, hm]

theorem getMmap_take (file : List Nat) (pgsz mmapsz pos n : Nat) (hpg : 0 < pgsz)
    (hmm : pgsz ∣ mmapsz) (hm0 : 0 < mmapsz) (hin : pos / pgsz * pgsz < file.length)
    (hn : n ≤ pgsz - pos % pgsz) :
    getMmap file pgsz mmapsz pos =
      .data ((List.range (mmapsz - pos % mmapsz)).map fun j => fileByte file (pos + j)) ∧
    (getMmap file pgsz mmapsz pos).take n = some ((List.range n).map fun j => fileByte file (pos + j)) := by
  have h : getMmap file pgsz mmapsz pos =
      .data ((List.range (mmapsz - pos % mmapsz)).map fun j => fileByte file (pos + j)) := by
    unfold getMmap
    rw [if_neg (by omega)]
  refine ⟨h, ?_⟩
  rw [h]
  unfold FcOut.take
  simp only
  rw [take_range_map _ (Nat.le_trans hn (page_rest_le_window pgsz mmapsz pos hpg hmm hm0))]

theorem fcacheGet_take (file : List Nat) (pgsz mmapsz pos n : Nat) (hpg : 0 < pgsz)
    (hmm : pgsz ∣ mmapsz) (hm0 : 0 < mmapsz) (hin : pos / pgsz * pgsz < file.length)
    (hn : n ≤ pgsz - pos % pgsz) (pol : Policy) :
    (fcacheGet file pgsz mmapsz pol pos).2.take n =
      some ((List.range n).map fun j => fileByte file (pos + j)) := by
  obtain ⟨hm, hmt⟩ := getMmap_take file pgsz mmapsz pos n hpg hmm hm0 hin hn
  cases pol with
  | never => exact getRead_take file pgsz pos n hin hn
  | always => exact hmt
  | try_ =>
    unfold fcacheGet
    simp only
    rw [hm] at hmt ⊢
    exact hmt
  | tryOnce =>
    unfold fcacheGet
    simp only
    rw [hm] at hmt ⊢
    exact hmt

end Kdf.Lemmas.Hist
