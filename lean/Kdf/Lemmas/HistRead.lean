import Kdf.Model.Hist
/-! Helper lemmas for C04, section 2: the four-slot read cache of libaddrxlat. -/
namespace Kdf.Lemmas.Hist
open Kdf.Model.Hist

/-- the callback is a function of the page: a buffer covers the address it was
asked for, and every address it covers yields the same buffer -/
def GCoh {V E : Type} (g : Nat → Nat → Except E (Buffer V)) : Prop :=
  ∀ as a b, a < W → g as a = .ok b →
    b.addr < W ∧ (a + W - b.addr % W) % W < b.size ∧
    ∀ a', a' < W → (a' + W - b.addr % W) % W < b.size → g as a' = .ok b

def RInv {V E : Type} (g : Nat → Nat → Except E (Buffer V)) (rc : RCache V) : Prop :=
  rc.slots.length = nslots ∧ rc.order.Perm (List.range nslots) ∧
  ∀ s ∈ rc.slots, s.size ≠ 0 → s.addr < W ∧ ∃ v, s.data = some v ∧ g s.as s.addr = .ok ⟨s.addr, s.size, v⟩

def opWf : ROp → Prop
  | .get _ a => a < W
  | .bury _ a => a < W

/-- the per-slot clause of `RInv` -/
def SlotOK {V E : Type} (g : Nat → Nat → Except E (Buffer V)) (s : Slot V) : Prop :=
  s.size ≠ 0 → s.addr < W ∧ ∃ v, s.data = some v ∧ g s.as s.addr = .ok ⟨s.addr, s.size, v⟩

theorem self_cover (w a : Nat) (h : a < w) : (a + w - a % w) % w = 0 := by
  rw [Nat.mod_eq_of_lt h]
  have : a + w - a = w := by omega
  rw [this, Nat.mod_self]

theorem slots_set_ok {V E : Type} (g : Nat → Nat → Except E (Buffer V)) (slots : List (Slot V))
    (l : Nat) (n : Slot V) (h : ∀ s ∈ slots, SlotOK g s) (hn : SlotOK g n) :
    ∀ s ∈ slots.set l n, SlotOK g s := by
  intro s hs
  rcases List.mem_or_eq_of_mem_set hs with h1 | rfl
  · exact h s h1
  · exact hn

theorem mem_order {order : List Nat} (hp : order.Perm (List.range nslots)) {i : Nat} :
    i ∈ order ↔ i < nslots := by
  rw [hp.mem_iff, List.mem_range]

theorem touch_perm {order : List Nat} (hp : order.Perm (List.range nslots)) {i : Nat}
    (hi : i < nslots) : (touch order i).Perm (List.range nslots) :=
  (List.perm_cons_erase ((mem_order hp).mpr hi)).symm.trans hp

theorem buryOrd_perm {order : List Nat} (hp : order.Perm (List.range nslots)) {i : Nat}
    (hi : i < nslots) : (buryOrd order i).Perm (List.range nslots) := by
  unfold buryOrd
  exact (List.perm_append_comm.trans (List.perm_cons_erase ((mem_order hp).mpr hi)).symm).trans hp

theorem find_some {V : Type} {rc : RCache V} {as a i : Nat} (h : rc.find as a = some i) :
    i < rc.slots.length ∧ ∃ s, rc.slots[i]? = some s ∧ s.covers as a = true := by
  unfold RCache.find at h
  rw [List.find?_range_eq_some] at h
  obtain ⟨h1, h2, _⟩ := h
  rw [List.mem_range] at h2
  refine ⟨h2, ?_⟩
  rw [List.getElem?_eq_getElem h2] at h1 ⊢
  exact ⟨_, rfl, h1⟩

theorem covers_iff {V : Type} (s : Slot V) (as a : Nat) :
    s.covers as a = true ↔ (a + W - s.addr % W) % W < s.size ∧ s.as = as := by
  unfold Slot.covers
  rw [Bool.and_eq_true, decide_eq_true_iff, decide_eq_true_iff]

theorem getCacheBuf_hit {V E : Type} (g : Nat → Nat → Except E (Buffer V)) (rc : RCache V)
    (as a i : Nat) (s : Slot V) (v : V) (hf : rc.find as a = some i) (hs : rc.slots[i]? = some s)
    (hd : s.data = some v) :
    getCacheBuf g rc as a = ({ rc with order := touch rc.order i }, [], .ok ⟨s.addr, s.size, v⟩) := by
  simp only [getCacheBuf, hf, hs, hd]

theorem getCacheBuf_miss_ok {V E : Type} (g : Nat → Nat → Except E (Buffer V)) (rc : RCache V)
    (as a l : Nat) (old : Slot V) (b : Buffer V) (hf : rc.find as a = none)
    (hl : rc.order.getLast? = some l) (hs : rc.slots[l]? = some old) (hg : g as a = .ok b) :
    (getCacheBuf g rc as a).1 =
        { slots := rc.slots.set l ⟨as, b.addr, b.size, some b.data⟩, order := touch rc.order l } ∧
      (getCacheBuf g rc as a).2.2 = .ok b := by
  simp only [getCacheBuf, hf, hl, hs, hg, and_self]

theorem getCacheBuf_miss_err {V E : Type} (g : Nat → Nat → Except E (Buffer V)) (rc : RCache V)
    (as a l : Nat) (old : Slot V) (e : E) (hf : rc.find as a = none)
    (hl : rc.order.getLast? = some l) (hs : rc.slots[l]? = some old) (hg : g as a = .error e) :
    (getCacheBuf g rc as a).1 = { rc with slots := rc.slots.set l ⟨as, a, 0, none⟩ } ∧
      (getCacheBuf g rc as a).2.2 = .error (.cb e) := by
  simp only [getCacheBuf, hf, hl, hs, hg, and_self]

theorem rinv_init' {V E : Type} (g : Nat → Nat → Except E (Buffer V)) : RInv g (RCache.init (V := V)) := by
  refine ⟨List.length_replicate, List.Perm.refl _, ?_⟩
  intro s hs hne
  have := List.eq_of_mem_replicate hs
  subst this
  exact absurd rfl hne

theorem getCacheBuf_spec' {V E : Type} (g : Nat → Nat → Except E (Buffer V)) (hg : GCoh g)
    (rc : RCache V) (h : RInv g rc) (as a : Nat) (ha : a < W) :
    (getCacheBuf g rc as a).2.2 = (match g as a with | .ok b => .ok b | .error e => .error (.cb e)) ∧
    RInv g (getCacheBuf g rc as a).1 := by
  obtain ⟨hlen, hperm, hslots⟩ := h
  cases hf : rc.find as a with
  | some i =>
    obtain ⟨hi, s, hs, hcov⟩ := find_some hf
    rw [covers_iff] at hcov
    obtain ⟨hc1, hc2⟩ := hcov
    have hmem : s ∈ rc.slots := List.mem_of_getElem? hs
    obtain ⟨hsa, v, hv, hgs⟩ := hslots s hmem (by omega)
    have hga : g as a = .ok ⟨s.addr, s.size, v⟩ := by
      rw [← hc2]
      exact (hg s.as s.addr _ hsa hgs).2.2 a ha hc1
    rw [getCacheBuf_hit g rc as a i s v hf hs hv, hga]
    exact ⟨rfl, hlen, touch_perm hperm (by omega), hslots⟩
  | none =>
    have hne : rc.order ≠ [] := by
      intro e
      have := hperm.length_eq
      rw [e] at this
      simp [nslots] at this
    cases hl : rc.order.getLast? with
    | none => exact absurd (List.getLast?_eq_none_iff.mp hl) hne
    | some l =>
      have hl4 : l < nslots := (mem_order hperm).mp (List.mem_of_getLast? hl)
      have hll : l < rc.slots.length := by omega
      have hs : rc.slots[l]? = some rc.slots[l] := List.getElem?_eq_getElem hll
      cases hga : g as a with
      | ok b =>
        obtain ⟨e1, e2⟩ := getCacheBuf_miss_ok g rc as a l _ b hf hl hs hga
        rw [e1, e2]
        refine ⟨rfl, ?_, touch_perm hperm hl4, ?_⟩
        · simp only [List.length_set]; exact hlen
        · obtain ⟨hb1, hb2, hb3⟩ := hg as a b ha hga
          apply slots_set_ok g rc.slots l _ hslots
          intro _
          refine ⟨hb1, b.data, rfl, ?_⟩
          show g as b.addr = .ok b
          apply hb3 b.addr hb1
          rw [self_cover W b.addr hb1]
          omega
      | error e =>
        obtain ⟨e1, e2⟩ := getCacheBuf_miss_err g rc as a l _ e hf hl hs hga
        rw [e1, e2]
        refine ⟨rfl, ?_, hperm, ?_⟩
        · simp only [List.length_set]; exact hlen
        · apply slots_set_ok g rc.slots l _ hslots
          intro h0
          exact absurd rfl h0

theorem bury_spec' {V E : Type} (g : Nat → Nat → Except E (Buffer V)) (rc : RCache V) (h : RInv g rc)
    (as a : Nat) : RInv g (bury rc as a) := by
  obtain ⟨hlen, hperm, hslots⟩ := h
  unfold bury
  cases hf : rc.find as a with
  | none => exact ⟨hlen, hperm, hslots⟩
  | some i =>
    have hi := (find_some hf).1
    exact ⟨hlen, buryOrd_perm hperm (by omega), hslots⟩

theorem rrun_inv {V E : Type} (g : Nat → Nat → Except E (Buffer V)) (hg : GCoh g) (ops : List ROp) :
    ∀ rc, RInv g rc → (∀ op ∈ ops, opWf op) → RInv g (rrun g rc ops) := by
  induction ops with
  | nil => intro rc h _; exact h
  | cons op ops ih =>
    intro rc h hw
    unfold rrun
    rw [List.foldl_cons]
    apply ih _ _ (fun o ho => hw o (List.mem_cons_of_mem _ ho))
    have hop := hw op (List.mem_cons_self ..)
    cases op with
    | get as a => exact (getCacheBuf_spec' g hg rc h as a hop).2
    | bury as a => exact bury_spec' g rc h as a

end Kdf.Lemmas.Hist
